import PrimitivModel.Model.Graph
/-!
Lemmas about the reverse sweep of `Model/Graph.lean` (`zeroFill`, `addContribs`,
`invalidateGrads`, `backwardStep`, `sweep`, `backward`), used by Props/C06.lean,
Props/Findings/C06Blocked.lean and (through Lemmas/SweepAdjoint.lean) Props/C01/Sweep.lean.
Core Lean only.  Nothing here changes a definition of the model; `backwardStep_eq`,
`backward_eq` and `forwardRec_succ` restate the model's definitions in a form that is convenient to
reason about and are proved equal to them.

Contents: accessors (`gradAt`, `skel`, `gskel`, `shape`), frames (`SameFrame` for the sweep,
`FwdFrame` for `forward`), gradients after each elementary operation, the loop principles
`sweep_inv`/`sweep_inv_ok`/`sweep_inv_total`, commutation with transformations of the parameter
gradients (`mapPG`, `shiftG`: "backward only adds"), the invariants `GradsBelow`, `OnlyAnc`
(ancestors), `ZInv` (blocked paths), commutation with appended operators (`appendOps`), histories
(`Cmd`, `runHist`), and the concrete graphs used in the `example`s.
-/
namespace Primitiv.Graph
variable {τ : Type}

/-! ### accessors -/

/-- gradient stored at an address (`none`: invalid gradient or no such node) -/
def State.gradAt (s : State τ) (a : Addr) : Option τ := (s.node? a).bind (·.grad)

/-- the part of a node that the sweep never changes -/
def NodeInfo.skel (n : NodeInfo τ) : Nat × Option τ := (n.size, n.value)
def OpInfo.skel (o : OpInfo τ) : Kind τ × List Addr × List (Nat × Option τ) :=
  (o.kind, o.args, o.rets.map NodeInfo.skel)
def State.skel (s : State τ) : List (Kind τ × List Addr × List (Nat × Option τ)) :=
  s.ops.map OpInfo.skel

theorem Addr.eq_iff (a b : Addr) : a = b ↔ a.oid = b.oid ∧ a.vid = b.vid := by
  cases a; cases b; simp

theorem updRet_getElem? (o : OpInfo τ) (vid : Nat) (f : NodeInfo τ → NodeInfo τ) (j : Nat) :
    (updRet o vid f).rets[j]? = if j = vid then (o.rets[j]?).map f else o.rets[j]? := by
  unfold updRet
  cases h : o.rets[vid]? with
  | none => by_cases hj : j = vid <;> simp_all
  | some n =>
    by_cases hj : j = vid
    · subst hj
      obtain ⟨hl, he⟩ := List.getElem?_eq_some_iff.mp h
      simp [hl, he]
    · simp [hj, List.getElem?_set_ne (Ne.symm hj)]

theorem updRet_kind (o : OpInfo τ) (vid : Nat) (f) : (updRet o vid f).kind = o.kind := by
  unfold updRet; split <;> rfl
theorem updRet_args (o : OpInfo τ) (vid : Nat) (f) : (updRet o vid f).args = o.args := by
  unfold updRet; split <;> rfl
theorem updRet_length (o : OpInfo τ) (vid : Nat) (f) : (updRet o vid f).rets.length = o.rets.length := by
  unfold updRet; split <;> simp

theorem updNode_ops_getElem? (s : State τ) (a : Addr) (f : NodeInfo τ → NodeInfo τ) (i : Nat) :
    (s.updNode a f).ops[i]? = if i = a.oid then (s.ops[i]?).map (fun o => updRet o a.vid f) else s.ops[i]? := by
  unfold State.updNode
  cases h : s.ops[a.oid]? with
  | none => by_cases hi : i = a.oid <;> simp_all
  | some o =>
    by_cases hi : i = a.oid
    · subst hi
      obtain ⟨hl, he⟩ := List.getElem?_eq_some_iff.mp h
      simp [hl, he]
    · simp [hi, List.getElem?_set_ne (Ne.symm hi)]

theorem updNode_length (s : State τ) (a : Addr) (f) : (s.updNode a f).ops.length = s.ops.length := by
  unfold State.updNode; split <;> simp

@[simp] theorem updNode_params (s : State τ) (a : Addr) (f) : (s.updNode a f).params = s.params := by
  unfold State.updNode; split <;> rfl
@[simp] theorem updNode_log (s : State τ) (a : Addr) (f) : (s.updNode a f).log = s.log := by
  unfold State.updNode; split <;> rfl
@[simp] theorem updNode_rndPos (s : State τ) (a : Addr) (f) : (s.updNode a f).rndPos = s.rndPos := by
  unfold State.updNode; split <;> rfl
@[simp] theorem updNode_sample (s : State τ) (a : Addr) (f) : (s.updNode a f).sample = s.sample := by
  unfold State.updNode; split <;> rfl
@[simp] theorem updNode_failIn (s : State τ) (a : Addr) (f) : (s.updNode a f).failIn = s.failIn := by
  unfold State.updNode; split <;> rfl

theorem updNode_node? (s : State τ) (a b : Addr) (f : NodeInfo τ → NodeInfo τ) :
    (s.updNode a f).node? b = if b = a then (s.node? a).map f else s.node? b := by
  unfold State.node?
  rw [updNode_ops_getElem?]
  by_cases ho : b.oid = a.oid
  · simp only [ho, if_true]
    cases h : s.ops[a.oid]? with
    | none => simp
    | some o =>
      simp only [Option.map_some, updRet_getElem?]
      by_cases hv : b.vid = a.vid
      · have : b = a := (Addr.eq_iff _ _).mpr ⟨ho, hv⟩
        simp [this]
      · have : b ≠ a := fun e => hv (by rw [e])
        simp [hv, this]
  · have : b ≠ a := fun e => ho (by rw [e])
    simp [ho, this]

/-! ### what the sweep never changes -/

theorem list_set_eq_self {α} (l : List α) (i : Nat) (x : α) (h : ∀ y, l[i]? = some y → x = y) : l.set i x = l := by
  apply List.ext_getElem?
  intro j
  rw [List.getElem?_set]
  by_cases hij : i = j
  · subst hij
    by_cases hl : i < l.length
    · simp [hl, h _ (List.getElem?_eq_getElem hl)]
    · simp [hl]
  · simp [hij]

theorem updRet_skel (o : OpInfo τ) (vid : Nat) (f : NodeInfo τ → NodeInfo τ)
    (hf : ∀ n, (f n).skel = n.skel) : (updRet o vid f).skel = o.skel := by
  unfold updRet
  split
  · rename_i n hn
    simp only [OpInfo.skel, List.map_set]
    rw [list_set_eq_self]
    intro y hy
    rw [List.getElem?_map, hn] at hy
    simp at hy
    rw [hf, hy]
  · rfl

theorem updNode_skel (s : State τ) (a : Addr) (f : NodeInfo τ → NodeInfo τ)
    (hf : ∀ n, (f n).skel = n.skel) : (s.updNode a f).skel = s.skel := by
  unfold State.updNode
  split
  · rename_i o ho
    simp only [State.skel, List.map_set]
    rw [list_set_eq_self]
    intro y hy
    rw [List.getElem?_map, ho] at hy
    simp at hy
    rw [updRet_skel _ _ _ hf, hy]
  · rfl

/-- `s'` differs from `s` at most in node gradients and parameter gradients -/
structure SameFrame (s s' : State τ) : Prop where
  skel : s'.skel = s.skel
  pvalue : s'.params.value = s.params.value
  log : s'.log = s.log
  rndPos : s'.rndPos = s.rndPos
  sample : s'.sample = s.sample
  failIn : s'.failIn = s.failIn

theorem SameFrame.refl (s : State τ) : SameFrame s s := ⟨rfl, rfl, rfl, rfl, rfl, rfl⟩
theorem SameFrame.trans {s s' s'' : State τ} (h : SameFrame s s') (h' : SameFrame s' s'') : SameFrame s s'' :=
  ⟨h'.skel.trans h.skel, h'.pvalue.trans h.pvalue, h'.log.trans h.log, h'.rndPos.trans h.rndPos,
   h'.sample.trans h.sample, h'.failIn.trans h.failIn⟩

theorem updNode_sameFrame (s : State τ) (a : Addr) (f : NodeInfo τ → NodeInfo τ)
    (hf : ∀ n, (f n).skel = n.skel) : SameFrame s (s.updNode a f) :=
  ⟨updNode_skel s a f hf, by simp, by simp, by simp, by simp, by simp⟩

theorem skel_length {s s' : State τ} (h : s'.skel = s.skel) : s'.ops.length = s.ops.length := by
  have := congrArg List.length h
  simpa [State.skel] using this

theorem skel_op {s s' : State τ} (h : s'.skel = s.skel) (i : Nat) :
    (s'.ops[i]?).map OpInfo.skel = (s.ops[i]?).map OpInfo.skel := by
  have := congrArg (fun l => l[i]?) h
  simpa [State.skel, List.getElem?_map] using this

theorem skel_op_some {s s' : State τ} (h : s'.skel = s.skel) {i : Nat} {o : OpInfo τ} (ho : s.ops[i]? = some o) :
    ∃ o', s'.ops[i]? = some o' ∧ o'.kind = o.kind ∧ o'.args = o.args ∧
      o'.rets.map NodeInfo.skel = o.rets.map NodeInfo.skel := by
  have := skel_op h i
  rw [ho] at this
  cases h' : s'.ops[i]? with
  | none => rw [h'] at this; simp at this
  | some o' =>
    rw [h'] at this
    simp only [Option.map_some, Option.some.injEq, OpInfo.skel, Prod.mk.injEq] at this
    exact ⟨o', rfl, this.1, this.2.1, this.2.2⟩

theorem skel_node {s s' : State τ} (h : s'.skel = s.skel) (a : Addr) :
    (s'.node? a).map NodeInfo.skel = (s.node? a).map NodeInfo.skel := by
  unfold State.node?
  cases ho : s.ops[a.oid]? with
  | none =>
    have := skel_op h a.oid
    rw [ho] at this
    cases h' : s'.ops[a.oid]? with
    | none => rfl
    | some o' => rw [h'] at this; simp at this
  | some o =>
    obtain ⟨o', ho', _, _, hr⟩ := skel_op_some h ho
    rw [ho']
    have := congrArg (fun l => l[a.vid]?) hr
    simpa [List.getElem?_map] using this

theorem skel_valueOf {s s' : State τ} (h : s'.skel = s.skel) (hp : s'.params.value = s.params.value) (a : Addr) :
    s'.valueOf? a = s.valueOf? a := by
  unfold State.valueOf?
  cases ho : s.ops[a.oid]? with
  | none =>
    have := skel_op h a.oid
    rw [ho] at this
    cases h' : s'.ops[a.oid]? with
    | none => rfl
    | some o' => rw [h'] at this; simp at this
  | some o =>
    obtain ⟨o', ho', hk, _, hr⟩ := skel_op_some h ho
    rw [ho']
    simp only [hk, hp]
    have := congrArg (fun l => l[a.vid]?) hr
    simp only [List.getElem?_map] at this
    cases o.kind with
    | param p => rfl
    | op sem =>
      simp only
      cases h1 : o'.rets[a.vid]? <;> cases h2 : o.rets[a.vid]? <;> rw [h1, h2] at this <;> simp_all [NodeInfo.skel]
    | rnd =>
      simp only
      cases h1 : o'.rets[a.vid]? <;> cases h2 : o.rets[a.vid]? <;> rw [h1, h2] at this <;> simp_all [NodeInfo.skel]

theorem skel_validAddr {s s' : State τ} (h : s'.skel = s.skel) (a : Addr) :
    s'.validAddr a = s.validAddr a := by
  unfold State.validAddr
  cases ho : s.ops[a.oid]? with
  | none =>
    have := skel_op h a.oid
    rw [ho] at this
    cases h' : s'.ops[a.oid]? with
    | none => rfl
    | some o' => rw [h'] at this; simp at this
  | some o =>
    obtain ⟨o', ho', _, _, hr⟩ := skel_op_some h ho
    rw [ho']
    have := congrArg List.length hr
    simp at this
    simp [this]

/-! ### gradients after each elementary operation of the sweep -/

theorem gradAt_updNode (s : State τ) (a b : Addr) (f : NodeInfo τ → NodeInfo τ) :
    (s.updNode a f).gradAt b = if b = a then (s.node? a).bind (fun n => (f n).grad) else s.gradAt b := by
  unfold State.gradAt
  rw [updNode_node?]
  by_cases h : b = a
  · simp only [h, if_true]; cases s.node? a <;> rfl
  · simp [h]

def zfNode (T : TOps τ) (n : NodeInfo τ) : NodeInfo τ :=
  match n.grad with
  | some _ => n
  | none => { n with grad := some (T.zeros n.size) }

theorem zfNode_skel (T : TOps τ) (n : NodeInfo τ) : (zfNode T n).skel = n.skel := by
  unfold zfNode; split <;> rfl

theorem zfNode_grad (T : TOps τ) (n : NodeInfo τ) : (zfNode T n).grad = some (n.grad.getD (T.zeros n.size)) := by
  unfold zfNode; split <;> simp_all

theorem zeroFill_cons (T : TOps τ) (s : State τ) (a : Addr) (rest : List Addr) :
    zeroFill T s (a :: rest) = zeroFill T (s.updNode a (zfNode T)) rest := rfl

theorem zeroFill_sameFrame (T : TOps τ) (l : List Addr) : ∀ s : State τ, SameFrame s (zeroFill T s l) := by
  induction l with
  | nil => intro s; exact SameFrame.refl s
  | cons a rest ih =>
    intro s
    rw [zeroFill_cons]
    exact (updNode_sameFrame s a _ (zfNode_skel T)).trans (ih _)

@[simp] theorem zeroFill_params (T : TOps τ) (l : List Addr) : ∀ s : State τ, (zeroFill T s l).params = s.params := by
  induction l with
  | nil => intro s; rfl
  | cons a rest ih => intro s; rw [zeroFill_cons, ih]; simp

/-- after the zero-fill the listed nodes have a valid gradient: the one they had, or zeros -/
theorem gradAt_zeroFill (T : TOps τ) (l : List Addr) : ∀ (s : State τ) (b : Addr),
    (zeroFill T s l).gradAt b =
      if b ∈ l then (s.node? b).map (fun n => n.grad.getD (T.zeros n.size)) else s.gradAt b := by
  induction l with
  | nil => intro s b; simp [zeroFill]
  | cons a rest ih =>
    intro s b
    rw [zeroFill_cons, ih, gradAt_updNode, updNode_node?]
    by_cases hba : b = a
    · subst hba
      simp only [if_true, List.mem_cons, true_or]
      cases hn : s.node? b with
      | none => simp
      | some n =>
        have hs : (zfNode T n).size = n.size := congrArg Prod.fst (zfNode_skel T n)
        simp [zfNode_grad, hs]
    · simp [hba]

def addNode (T : TOps τ) (c : τ) (n : NodeInfo τ) : NodeInfo τ :=
  match n.grad with
  | some g => { n with grad := some (T.add g c) }
  | none => n

theorem addNode_skel (T : TOps τ) (c : τ) (n : NodeInfo τ) : (addNode T c n).skel = n.skel := by
  unfold addNode; split <;> rfl

theorem addNode_grad (T : TOps τ) (c : τ) (n : NodeInfo τ) : (addNode T c n).grad = n.grad.map (T.add · c) := by
  unfold addNode; split <;> simp_all

theorem addContribs_none (T : TOps τ) (s : State τ) (a : Addr) (rest) :
    addContribs T s ((a, none) :: rest) = addContribs T s rest := rfl
theorem addContribs_some (T : TOps τ) (s : State τ) (a : Addr) (c : τ) (rest) :
    addContribs T s ((a, some c) :: rest) = addContribs T (s.updNode a (addNode T c)) rest := rfl

theorem addContribs_sameFrame (T : TOps τ) (l : List (Addr × Option τ)) :
    ∀ s : State τ, SameFrame s (addContribs T s l) := by
  induction l with
  | nil => intro s; exact SameFrame.refl s
  | cons x rest ih =>
    intro s
    obtain ⟨a, c⟩ := x
    cases c with
    | none => rw [addContribs_none]; exact ih s
    | some c =>
      rw [addContribs_some]
      exact (updNode_sameFrame s a _ (addNode_skel T c)).trans (ih _)

@[simp] theorem addContribs_params (T : TOps τ) (l : List (Addr × Option τ)) :
    ∀ s : State τ, (addContribs T s l).params = s.params := by
  induction l with
  | nil => intro s; rfl
  | cons x rest ih =>
    intro s
    obtain ⟨a, c⟩ := x
    cases c with
    | none => rw [addContribs_none]; exact ih s
    | some c => rw [addContribs_some, ih]; simp

/-- sequential accumulation of contributions on a gradient assignment -/
def accGrads (T : TOps τ) (G : Addr → Option τ) : List (Addr × Option τ) → Addr → Option τ
  | [] => G
  | (_, none) :: rest => accGrads T G rest
  | (a, some c) :: rest => accGrads T (fun b => if b = a then (G a).map (T.add · c) else G b) rest

theorem gradAt_addContribs (T : TOps τ) (l : List (Addr × Option τ)) :
    ∀ s : State τ, (addContribs T s l).gradAt = accGrads T s.gradAt l := by
  induction l with
  | nil => intro s; rfl
  | cons x rest ih =>
    intro s
    obtain ⟨a, c⟩ := x
    cases c with
    | none => rw [addContribs_none, ih]; rfl
    | some c =>
      rw [addContribs_some, ih]
      simp only [accGrads]
      congr 1
      funext b
      rw [gradAt_updNode]
      by_cases hba : b = a
      · simp only [hba, if_true, State.gradAt]
        cases s.node? a with
        | none => rfl
        | some n => simp [addNode_grad]
      · simp [hba]

theorem accGrads_isSome (T : TOps τ) (l : List (Addr × Option τ)) :
    ∀ (G : Addr → Option τ) (b : Addr), (accGrads T G l b).isSome = (G b).isSome := by
  induction l with
  | nil => intro G b; rfl
  | cons x rest ih =>
    intro G b
    obtain ⟨a, c⟩ := x
    cases c with
    | none => exact ih G b
    | some c =>
      simp only [accGrads]
      rw [ih]
      by_cases hba : b = a <;> simp [hba]

theorem accGrads_not_mem (T : TOps τ) (l : List (Addr × Option τ)) :
    ∀ (G : Addr → Option τ) (b : Addr), (∀ x ∈ l, x.1 ≠ b) → accGrads T G l b = G b := by
  induction l with
  | nil => intro G b _; rfl
  | cons x rest ih =>
    intro G b h
    obtain ⟨a, c⟩ := x
    have hr : ∀ x ∈ rest, x.1 ≠ b := fun x hx => h x (List.mem_cons_of_mem _ hx)
    cases c with
    | none => exact ih G b hr
    | some c =>
      simp only [accGrads]
      rw [ih _ _ hr]
      have : b ≠ a := fun e => h (a, some c) (by simp) e.symm
      simp [this]

theorem invalidateGrads_sameFrame (s : State τ) (k : Nat) : SameFrame s (invalidateGrads s k) := by
  unfold invalidateGrads
  split
  · exact SameFrame.refl s
  · rename_i o ho
    refine ⟨?_, rfl, rfl, rfl, rfl, rfl⟩
    simp only [State.skel, List.map_set]
    rw [list_set_eq_self]
    intro y hy
    rw [List.getElem?_map, ho] at hy
    simp at hy
    rw [← hy]
    simp [OpInfo.skel, NodeInfo.skel]

@[simp] theorem invalidateGrads_params (s : State τ) (k : Nat) : (invalidateGrads s k).params = s.params := by
  unfold invalidateGrads; split <;> rfl

theorem gradAt_invalidateGrads (s : State τ) (k : Nat) (b : Addr) :
    (invalidateGrads s k).gradAt b = if b.oid = k then none else s.gradAt b := by
  unfold invalidateGrads State.gradAt State.node?
  cases ho : s.ops[k]? with
  | none =>
    by_cases hb : b.oid = k
    · simp [hb, ho]
    · simp [hb]
  | some o =>
    obtain ⟨hl, he⟩ := List.getElem?_eq_some_iff.mp ho
    by_cases hb : b.oid = k
    · subst hb
      simp only [if_true, List.getElem?_set, hl]
      simp only [List.getElem?_map]
      cases o.rets[b.vid]? <;> simp
    · simp [hb, List.getElem?_set_ne (Ne.symm hb)]


theorem zfNode_idem (T : TOps τ) (n : NodeInfo τ) : zfNode T (zfNode T n) = zfNode T n := by
  unfold zfNode; cases h : n.grad <;> simp [h]

theorem node?_zeroFill (T : TOps τ) (l : List Addr) : ∀ (s : State τ) (b : Addr),
    (zeroFill T s l).node? b = if b ∈ l then (s.node? b).map (zfNode T) else s.node? b := by
  induction l with
  | nil => intro s b; simp [zeroFill]
  | cons a rest ih =>
    intro s b
    rw [zeroFill_cons, ih, updNode_node?]
    by_cases hba : b = a
    · subst hba
      simp only [if_true, List.mem_cons, true_or]
      cases hn : s.node? b with
      | none => simp
      | some n => simp [zfNode_idem]
    · simp [hba]

theorem ops_getElem?_node? {s : State τ} {k : Nat} {o : OpInfo τ} (ho : s.ops[k]? = some o) (j : Nat) :
    s.node? ⟨k, j⟩ = o.rets[j]? := by
  simp [State.node?, ho]

theorem mem_retAddrs (k : Nat) (o : OpInfo τ) (b : Addr) : b ∈ retAddrs k o ↔ b.oid = k ∧ b.vid < o.rets.length := by
  unfold retAddrs
  simp only [List.mem_map, List.mem_range]
  constructor
  · rintro ⟨i, hi, rfl⟩; exact ⟨rfl, hi⟩
  · rintro ⟨h1, h2⟩; exact ⟨b.vid, h2, by cases b; simp_all⟩

/-- the operator record of `k` after both zero-fills -/
theorem rets_after_zeroFill (T : TOps τ) (s : State τ) (k : Nat) (o o2 : OpInfo τ) (l : List Addr)
    (ho : s.ops[k]? = some o) (ho2 : (zeroFill T (zeroFill T s (retAddrs k o)) l).ops[k]? = some o2) :
    o2.rets = o.rets.map (zfNode T) := by
  apply List.ext_getElem?
  intro j
  rw [← ops_getElem?_node? ho2 j, node?_zeroFill, node?_zeroFill, ops_getElem?_node? ho j, List.getElem?_map]
  by_cases hj : j < o.rets.length
  · have hm : (⟨k, j⟩ : Addr) ∈ retAddrs k o := (mem_retAddrs k o _).mpr ⟨rfl, hj⟩
    simp only [hm, if_true]
    split
    · cases o.rets[j]? <;> simp [zfNode_idem]
    · rfl
  · have : o.rets[j]? = none := by simp; omega
    simp [this]

def stepCore (T : TOps τ) (s2 : State τ) (o : OpInfo τ) (xs ys gys : List τ) : State τ :=
  match o.kind with
  | .param p =>
    match gys with
    | g :: _ => { s2 with params := { s2.params with
                    grad := fun q => if q = p then T.add (s2.params.grad p) g else s2.params.grad q } }
    | [] => s2
  | .rnd => s2
  | .op sem => addContribs T s2 (o.args.zip (sem.bwd xs ys gys))

def OpInfo.enabled (o : OpInfo τ) : Bool := o.rets.any fun n => n.grad.isSome
def OpInfo.ys (o : OpInfo τ) : List τ := o.rets.filterMap (·.value)
def OpInfo.gys (T : TOps τ) (o : OpInfo τ) : List τ := o.rets.map fun n => n.grad.getD (T.zeros n.size)

theorem filterMap_value_zf (T : TOps τ) (l : List (NodeInfo τ)) :
    (l.map (zfNode T)).filterMap (·.value) = l.filterMap (·.value) := by
  induction l with
  | nil => rfl
  | cons n rest ih =>
    have : (zfNode T n).value = n.value := congrArg Prod.snd (zfNode_skel T n)
    simp [List.filterMap_cons, this, ih]

theorem filterMap_grad_zf (T : TOps τ) (l : List (NodeInfo τ)) :
    (l.map (zfNode T)).filterMap (·.grad) = l.map fun n => n.grad.getD (T.zeros n.size) := by
  induction l with
  | nil => rfl
  | cons n rest ih => simp [zfNode_grad, ih]

theorem backwardStep_eq (T : TOps τ) (s : State τ) (k : Nat) :
    backwardStep T s k =
      match s.ops[k]? with
      | none => (s, .error .crash)
      | some o =>
        if !o.enabled then (s, .ok ())
        else match o.args.mapM s.valueOf? with
          | none => (zeroFill T s (retAddrs k o), .error .error)
          | some xs =>
            (invalidateGrads (stepCore T (zeroFill T (zeroFill T s (retAddrs k o)) o.args) o xs o.ys (o.gys T)) k, .ok ()) := by
  unfold backwardStep
  cases ho : s.ops[k]? with
  | none => rfl
  | some o =>
    simp only
    by_cases he : (!o.enabled) = true
    · have he' : (!o.rets.any fun n => n.grad.isSome) = true := he
      rw [if_pos he, if_pos he']
    · have he' : ¬ (!o.rets.any fun n => n.grad.isSome) = true := he
      rw [if_neg he, if_neg he']
      have hf1 := zeroFill_sameFrame T (retAddrs k o) s
      have hv : (zeroFill T s (retAddrs k o)).valueOf? = s.valueOf? :=
        funext (skel_valueOf hf1.skel hf1.pvalue)
      rw [hv]
      cases hxs : o.args.mapM s.valueOf? with
      | none => rfl
      | some xs =>
        simp only
        have hf2 := zeroFill_sameFrame T o.args (zeroFill T s (retAddrs k o))
        obtain ⟨o1, ho1, _⟩ := skel_op_some hf1.skel ho
        obtain ⟨o2, ho2, _⟩ := skel_op_some hf2.skel ho1
        rw [ho2]
        simp only
        have hr := rets_after_zeroFill T s k o o2 o.args ho ho2
        rw [hr, filterMap_value_zf, filterMap_grad_zf]
        rfl

theorem stepCore_sameFrame (T : TOps τ) (s2 : State τ) (o : OpInfo τ) (xs ys gys : List τ) :
    SameFrame s2 (stepCore T s2 o xs ys gys) := by
  unfold stepCore
  split
  · split
    · exact ⟨rfl, rfl, rfl, rfl, rfl, rfl⟩
    · exact SameFrame.refl _
  · exact SameFrame.refl _
  · exact addContribs_sameFrame T _ _

theorem backwardStep_sameFrame (T : TOps τ) (s : State τ) (k : Nat) : SameFrame s (backwardStep T s k).1 := by
  rw [backwardStep_eq]
  split
  · exact SameFrame.refl _
  · split
    · exact SameFrame.refl _
    · split
      · exact zeroFill_sameFrame T _ _
      · exact ((zeroFill_sameFrame T _ _).trans (zeroFill_sameFrame T _ _)).trans
          ((stepCore_sameFrame T _ _ _ _ _).trans (invalidateGrads_sameFrame _ _))

theorem sweep_zero (T : TOps τ) (s : State τ) : sweep T 0 s = (s, .ok ()) := rfl

theorem sweep_succ_ok (T : TOps τ) {s s1 : State τ} {k : Nat} (h : backwardStep T s k = (s1, .ok ())) :
    sweep T (k + 1) s = sweep T k s1 := by
  simp only [sweep, h]

theorem sweep_succ_err (T : TOps τ) {s s1 : State τ} {k : Nat} {e : Err} (h : backwardStep T s k = (s1, .error e)) :
    sweep T (k + 1) s = (s1, .error e) := by
  simp only [sweep, h]

/-- an invariant of the loop body that does not depend on the outcome -/
theorem sweep_inv (T : TOps τ) (Q : State τ → Prop) (hstep : ∀ k s, Q s → Q (backwardStep T s k).1) :
    ∀ k s, Q s → Q (sweep T k s).1 := by
  intro k
  induction k with
  | zero => intro s h; exact h
  | succ k ih =>
    intro s h
    have h1 := hstep k s h
    rcases hb : backwardStep T s k with ⟨s1, r⟩
    rw [hb] at h1
    cases r with
    | error e => rw [sweep_succ_err T hb]; exact h1
    | ok u => cases u; rw [sweep_succ_ok T hb]; exact ih s1 h1

/-- an indexed invariant of successful iterations -/
theorem sweep_inv_ok (T : TOps τ) (P : Nat → State τ → Prop)
    (hstep : ∀ k s s1, P (k + 1) s → backwardStep T s k = (s1, .ok ()) → P k s1) :
    ∀ k s s', P k s → sweep T k s = (s', .ok ()) → P 0 s' := by
  intro k
  induction k with
  | zero => intro s s' h hs; rw [sweep_zero] at hs; cases hs; exact h
  | succ k ih =>
    intro s s' h hs
    rcases hb : backwardStep T s k with ⟨s1, r⟩
    cases r with
    | error e => rw [sweep_succ_err T hb] at hs; cases hs
    | ok u => cases u; rw [sweep_succ_ok T hb] at hs; exact ih s1 s' (hstep k s s1 h hb) hs

/-- an indexed invariant that also guarantees that no iteration fails -/
theorem sweep_inv_total (T : TOps τ) (P : Nat → State τ → Prop)
    (hstep : ∀ k s, P (k + 1) s → ∃ s1, backwardStep T s k = (s1, .ok ()) ∧ P k s1) :
    ∀ k s, P k s → ∃ s', sweep T k s = (s', .ok ()) ∧ P 0 s' := by
  intro k
  induction k with
  | zero => intro s h; exact ⟨s, rfl, h⟩
  | succ k ih =>
    intro s h
    obtain ⟨s1, hb, h1⟩ := hstep k s h
    rw [sweep_succ_ok T hb]
    exact ih s1 h1

theorem sweep_sameFrame (T : TOps τ) (k : Nat) (s : State τ) : SameFrame s (sweep T k s).1 := by
  have := sweep_inv T (fun s' => SameFrame s s') (fun k s' h => h.trans (backwardStep_sameFrame T s' k)) k s
    (SameFrame.refl s)
  exact this

theorem enabled_iff {s : State τ} {k : Nat} {o : OpInfo τ} (ho : s.ops[k]? = some o) :
    o.enabled = true ↔ ∃ j, (s.gradAt ⟨k, j⟩).isSome = true := by
  unfold OpInfo.enabled State.gradAt
  rw [List.any_eq_true]
  constructor
  · rintro ⟨n, hn, hg⟩
    obtain ⟨j, hj⟩ := List.mem_iff_getElem?.mp hn
    exact ⟨j, by rw [ops_getElem?_node? ho, hj]; simpa using hg⟩
  · rintro ⟨j, hj⟩
    rw [ops_getElem?_node? ho] at hj
    cases hn : o.rets[j]? with
    | none => rw [hn] at hj; simp at hj
    | some n =>
      rw [hn] at hj
      exact ⟨n, List.mem_iff_getElem?.mpr ⟨j, hn⟩, by simpa using hj⟩


/-! ### what `forward` never changes -/

def NodeInfo.gskel (n : NodeInfo τ) : Nat × Option τ := (n.size, n.grad)
def OpInfo.gskel (o : OpInfo τ) : Kind τ × List Addr × List (Nat × Option τ) :=
  (o.kind, o.args, o.rets.map NodeInfo.gskel)
def State.gskel (s : State τ) : List (Kind τ × List Addr × List (Nat × Option τ)) :=
  s.ops.map OpInfo.gskel

/-- `s'` differs from `s` at most in node values, `log`, `rndPos`, `failIn` -/
structure FwdFrame (s s' : State τ) : Prop where
  gskel : s'.gskel = s.gskel
  params : s'.params = s.params
  sample : s'.sample = s.sample

theorem FwdFrame.refl (s : State τ) : FwdFrame s s := ⟨rfl, rfl, rfl⟩
theorem FwdFrame.trans {s s' s'' : State τ} (h : FwdFrame s s') (h' : FwdFrame s' s'') : FwdFrame s s'' :=
  ⟨h'.gskel.trans h.gskel, h'.params.trans h.params, h'.sample.trans h.sample⟩

theorem storeValues_fwdFrame (s : State τ) (oid : Nat) (vals : List τ) : FwdFrame s (s.storeValues oid vals) := by
  unfold State.storeValues
  split
  · exact FwdFrame.refl s
  · rename_i o ho
    refine ⟨?_, rfl, rfl⟩
    simp only [State.gskel, List.map_set]
    rw [list_set_eq_self]
    intro y hy
    rw [List.getElem?_map, ho] at hy
    simp at hy
    rw [← hy]
    simp only [OpInfo.gskel, Prod.mk.injEq, true_and]
    apply List.ext_getElem?
    intro j
    simp only [List.getElem?_map, List.getElem?_zipIdx]
    cases o.rets[j]? with
    | none => rfl
    | some n =>
      simp only [Option.map_some, Nat.zero_add]
      cases vals[j]? <;> rfl

theorem forwardArgsWith_rel (R : State τ → State τ → Prop) (hr : ∀ s, R s s)
    (ht : ∀ s s' s'', R s s' → R s' s'' → R s s'')
    (ev : State τ → Addr → State τ × Except Err τ) (hev : ∀ s a, R s (ev s a).1) :
    ∀ (l : List Addr) (s : State τ), R s (forwardArgsWith ev s l).1 := by
  intro l
  induction l with
  | nil => intro s; exact hr s
  | cons a rest ih =>
    intro s
    simp only [forwardArgsWith]
    have h1 := hev s a
    rcases he : ev s a with ⟨s1, r⟩
    rw [he] at h1
    cases r with
    | error e => exact h1
    | ok v =>
      simp only
      have h2 := ih s1
      rcases hf : forwardArgsWith ev s1 rest with ⟨s2, r2⟩
      rw [hf] at h2
      cases r2 with
      | error e => exact ht _ _ _ h1 h2
      | ok vs => exact ht _ _ _ h1 h2

def opFaulty (k : Kind τ) : Bool :=
  match k with
  | .op sem => sem.faulty
  | .rnd => true
  | .param _ => false

/-- the operator's own forward, after the fault schedule has been consulted -/
def applyOpCore (s1 : State τ) (a : Addr) (kind : Kind τ) (n : NodeInfo τ) (xs : List τ) :
    State τ × Except Err τ :=
  match kind with
  | .param _ => (s1, .error .crash)
  | .rnd =>
    let v := s1.sample s1.rndPos n.size
    let s2 := { s1 with rndPos := s1.rndPos + 1, log := s1.log ++ [a.oid] }
    (s2.storeValues a.oid [v], .ok v)
  | .op sem =>
    match sem.fwd xs with
    | none => (s1, .error .error)
    | some ys =>
      let s2 := ({ s1 with log := s1.log ++ [a.oid] }).storeValues a.oid ys
      match ys[a.vid]? with
      | some v => (s2, .ok v)
      | none => (s2, .error .crash)

def applyOp (s1 : State τ) (a : Addr) (kind : Kind τ) (n : NodeInfo τ) (xs : List τ) :
    State τ × Except Err τ :=
  match (if opFaulty kind then s1.failIn else none) with
  | some 0 => ({ s1 with failIn := none }, .error .error)
  | fi => applyOpCore (if opFaulty kind then { s1 with failIn := fi.map (· - 1) } else s1) a kind n xs

theorem forwardRec_succ (T : TOps τ) (fuel : Nat) (s : State τ) (a : Addr) :
    forwardRec T (fuel + 1) s a =
      match s.ops[a.oid]? with
      | none => (s, .error .crash)
      | some o =>
        match o.kind with
        | .param p => if a.vid = 0 then (s, .ok (s.params.value p)) else (s, .error .crash)
        | _ =>
          match o.rets[a.vid]? with
          | none => (s, .error .crash)
          | some n =>
            match n.value with
            | some v => (s, .ok v)
            | none =>
              match forwardArgsWith (forwardRec T fuel) s o.args with
              | (s1, .error e) => (s1, .error e)
              | (s1, .ok xs) => applyOp s1 a o.kind n xs := by
  rw [forwardRec]
  cases s.ops[a.oid]? with
  | none => rfl
  | some o =>
    simp only
    cases o.kind with
    | param p => rfl
    | rnd =>
      simp only
      cases o.rets[a.vid]? with
      | none => rfl
      | some n =>
        simp only
        cases n.value with
        | some v => rfl
        | none =>
          simp only
          rcases forwardArgsWith (forwardRec T fuel) s o.args with ⟨s1, r⟩
          cases r <;> rfl
    | op sem =>
      simp only
      cases o.rets[a.vid]? with
      | none => rfl
      | some n =>
        simp only
        cases n.value with
        | some v => rfl
        | none =>
          simp only
          rcases forwardArgsWith (forwardRec T fuel) s o.args with ⟨s1, r⟩
          cases r <;> rfl

/-- a reflexive-transitive relation respected by every operator forward is respected by `forward_recursive` -/
theorem forwardRec_rel (T : TOps τ) (R : State τ → State τ → Prop) (hr : ∀ s, R s s)
    (ht : ∀ s s' s'', R s s' → R s' s'' → R s s'')
    (hop : ∀ s1 a kind n xs, R s1 (applyOp s1 a kind n xs).1) :
    ∀ (fuel : Nat) (s : State τ) (a : Addr), R s (forwardRec T fuel s a).1 := by
  intro fuel
  induction fuel with
  | zero => intro s a; exact hr s
  | succ fuel ih =>
    intro s a
    rw [forwardRec_succ]
    split
    · exact hr s
    · split
      · split <;> exact hr s
      · split
        · exact hr s
        · split
          · exact hr s
          · rename_i o _ _ _ _ n _ _ _
            have h1 := forwardArgsWith_rel R hr ht (forwardRec T fuel) ih o.args s
            rcases hf : forwardArgsWith (forwardRec T fuel) s o.args with ⟨s1, r⟩
            rw [hf] at h1
            cases r with
            | error e => exact h1
            | ok xs => exact ht _ _ _ h1 (hop s1 a o.kind n xs)

theorem applyOpCore_fwdFrame (s1 : State τ) (a : Addr) (kind : Kind τ) (n : NodeInfo τ) (xs : List τ) :
    FwdFrame s1 (applyOpCore s1 a kind n xs).1 := by
  unfold applyOpCore
  split
  · exact FwdFrame.refl _
  · dsimp only
    refine FwdFrame.trans ?_ (storeValues_fwdFrame _ _ _)
    exact ⟨rfl, rfl, rfl⟩
  · split
    · exact FwdFrame.refl _
    · split <;> dsimp only <;> refine FwdFrame.trans ?_ (storeValues_fwdFrame _ _ _) <;> exact ⟨rfl, rfl, rfl⟩

theorem applyOp_fwdFrame (s1 : State τ) (a : Addr) (kind : Kind τ) (n : NodeInfo τ) (xs : List τ) :
    FwdFrame s1 (applyOp s1 a kind n xs).1 := by
  have h2 : ∀ (c : Bool) (fi : Option Nat), FwdFrame s1 (if c = true then { s1 with failIn := fi } else s1) := by
    intro c fi; split <;> exact ⟨rfl, rfl, rfl⟩
  unfold applyOp
  split
  · exact ⟨rfl, rfl, rfl⟩
  · exact (h2 _ _).trans (applyOpCore_fwdFrame _ _ _ _ _)

theorem forwardRec_fwdFrame (T : TOps τ) (fuel : Nat) (s : State τ) (a : Addr) :
    FwdFrame s (forwardRec T fuel s a).1 :=
  forwardRec_rel T FwdFrame FwdFrame.refl (fun _ _ _ => FwdFrame.trans) applyOp_fwdFrame fuel s a

theorem forward_fwdFrame (T : TOps τ) (s : State τ) (a : Addr) : FwdFrame s (forward T s a).1 := by
  unfold forward
  split
  · exact forwardRec_fwdFrame T _ s a
  · exact FwdFrame.refl s

theorem gskel_op {s s' : State τ} (h : s'.gskel = s.gskel) (i : Nat) :
    (s'.ops[i]?).map OpInfo.gskel = (s.ops[i]?).map OpInfo.gskel := by
  have := congrArg (fun l => l[i]?) h
  simpa [State.gskel, List.getElem?_map] using this

theorem gskel_length {s s' : State τ} (h : s'.gskel = s.gskel) : s'.ops.length = s.ops.length := by
  have := congrArg List.length h
  simpa [State.gskel] using this

theorem gskel_op_some {s s' : State τ} (h : s'.gskel = s.gskel) {i : Nat} {o : OpInfo τ} (ho : s.ops[i]? = some o) :
    ∃ o', s'.ops[i]? = some o' ∧ o'.kind = o.kind ∧ o'.args = o.args ∧
      o'.rets.map NodeInfo.gskel = o.rets.map NodeInfo.gskel := by
  have := gskel_op h i
  rw [ho] at this
  cases h' : s'.ops[i]? with
  | none => rw [h'] at this; simp at this
  | some o' =>
    rw [h'] at this
    simp only [Option.map_some, Option.some.injEq, OpInfo.gskel, Prod.mk.injEq] at this
    exact ⟨o', rfl, this.1, this.2.1, this.2.2⟩

theorem gskel_op_none {s s' : State τ} (h : s'.gskel = s.gskel) {i : Nat} (ho : s.ops[i]? = none) :
    s'.ops[i]? = none := by
  have := gskel_op h i
  rw [ho] at this
  cases h' : s'.ops[i]? with
  | none => rfl
  | some o' => rw [h'] at this; simp at this

theorem gskel_node {s s' : State τ} (h : s'.gskel = s.gskel) (a : Addr) :
    (s'.node? a).map NodeInfo.gskel = (s.node? a).map NodeInfo.gskel := by
  unfold State.node?
  cases ho : s.ops[a.oid]? with
  | none => rw [gskel_op_none h ho]
  | some o =>
    obtain ⟨o', ho', _, _, hr⟩ := gskel_op_some h ho
    rw [ho']
    have := congrArg (fun l => l[a.vid]?) hr
    simpa [List.getElem?_map] using this

theorem gskel_gradAt {s s' : State τ} (h : s'.gskel = s.gskel) (a : Addr) : s'.gradAt a = s.gradAt a := by
  have := gskel_node h a
  unfold State.gradAt
  cases h1 : s'.node? a <;> cases h2 : s.node? a <;> rw [h1, h2] at this <;> simp_all [NodeInfo.gskel]

theorem gskel_validAddr {s s' : State τ} (h : s'.gskel = s.gskel) (a : Addr) :
    s'.validAddr a = s.validAddr a := by
  unfold State.validAddr
  cases ho : s.ops[a.oid]? with
  | none => rw [gskel_op_none h ho]
  | some o =>
    obtain ⟨o', ho', _, _, hr⟩ := gskel_op_some h ho
    rw [ho']
    have := congrArg List.length hr
    simp at this
    simp [this]

/-! ### `backward` = forward phase, seed, sweep -/

/-- "force to perform the forward operation" -/
def fwdPhase (T : TOps τ) (s : State τ) (a : Addr) : State τ × Except Err Unit :=
  match s.node? a with
  | some n => if n.value.isSome then (s, .ok ()) else
      match forward T s a with
      | (s1, .ok _) => (s1, .ok ())
      | (s1, .error e) => (s1, .error e)
  | none => (s, .error .crash)

/-- "makes the identity gradient at the last node" -/
def seed (T : TOps τ) (s : State τ) (a : Addr) : State τ :=
  s.updNode a fun n => { n with grad := some (T.ones n.size) }

theorem backward_eq (T : TOps τ) (s : State τ) (a : Addr) :
    backward T s a =
      if !s.validAddr a then (s, .error .crash)
      else match fwdPhase T s a with
        | (s1, .error e) => (s1, .error e)
        | (s1, .ok ()) => sweep T (a.oid + 1) (seed T s1 a) := rfl

theorem fwdPhase_fwdFrame (T : TOps τ) (s : State τ) (a : Addr) : FwdFrame s (fwdPhase T s a).1 := by
  unfold fwdPhase
  split
  · split
    · exact FwdFrame.refl s
    · have := forward_fwdFrame T s a
      rcases hf : forward T s a with ⟨s1, r⟩
      rw [hf] at this
      cases r <;> exact this
  · exact FwdFrame.refl s

theorem seed_sameFrame (T : TOps τ) (s : State τ) (a : Addr) : SameFrame s (seed T s a) :=
  updNode_sameFrame s a _ (fun _ => rfl)

@[simp] theorem seed_params (T : TOps τ) (s : State τ) (a : Addr) : (seed T s a).params = s.params := by
  simp [seed]

theorem gradAt_seed (T : TOps τ) (s : State τ) (a b : Addr) :
    (seed T s a).gradAt b = if b = a then (s.node? a).map (fun n => T.ones n.size) else s.gradAt b := by
  unfold seed
  rw [gradAt_updNode]
  by_cases h : b = a
  · simp only [h, if_true]; cases s.node? a <;> rfl
  · simp [h]


/-! ### transforming the parameter gradients commutes with everything that does not touch them -/

/-- apply `f` to the table of parameter gradients -/
def State.mapPG (f : (Nat → τ) → (Nat → τ)) (s : State τ) : State τ :=
  { s with params := { s.params with grad := f s.params.grad } }

theorem mapPG_updNode (f : (Nat → τ) → (Nat → τ)) (s : State τ) (a : Addr) (h : NodeInfo τ → NodeInfo τ) :
    (s.mapPG f).updNode a h = (s.updNode a h).mapPG f := by
  unfold State.updNode State.mapPG
  simp only
  split <;> rfl

theorem mapPG_zeroFill (T : TOps τ) (f : (Nat → τ) → (Nat → τ)) (l : List Addr) :
    ∀ s : State τ, zeroFill T (s.mapPG f) l = (zeroFill T s l).mapPG f := by
  induction l with
  | nil => intro s; rfl
  | cons a rest ih => intro s; rw [zeroFill_cons, zeroFill_cons, mapPG_updNode, ih]

theorem mapPG_addContribs (T : TOps τ) (f : (Nat → τ) → (Nat → τ)) (l : List (Addr × Option τ)) :
    ∀ s : State τ, addContribs T (s.mapPG f) l = (addContribs T s l).mapPG f := by
  induction l with
  | nil => intro s; rfl
  | cons x rest ih =>
    intro s
    obtain ⟨a, c⟩ := x
    cases c with
    | none => rw [addContribs_none, addContribs_none, ih]
    | some c => rw [addContribs_some, addContribs_some, mapPG_updNode, ih]

theorem mapPG_invalidateGrads (f : (Nat → τ) → (Nat → τ)) (s : State τ) (k : Nat) :
    invalidateGrads (s.mapPG f) k = (invalidateGrads s k).mapPG f := by
  unfold invalidateGrads State.mapPG
  simp only
  split <;> rfl

theorem mapPG_storeValues (f : (Nat → τ) → (Nat → τ)) (s : State τ) (k : Nat) (vals : List τ) :
    (s.mapPG f).storeValues k vals = (s.storeValues k vals).mapPG f := by
  unfold State.storeValues State.mapPG
  simp only
  split <;> rfl

theorem mapPG_valueOf (f : (Nat → τ) → (Nat → τ)) (s : State τ) : (s.mapPG f).valueOf? = s.valueOf? := rfl
theorem mapPG_node (f : (Nat → τ) → (Nat → τ)) (s : State τ) : (s.mapPG f).node? = s.node? := rfl
theorem mapPG_validAddr (f : (Nat → τ) → (Nat → τ)) (s : State τ) : (s.mapPG f).validAddr = s.validAddr := rfl
theorem mapPG_seed (T : TOps τ) (f : (Nat → τ) → (Nat → τ)) (s : State τ) (a : Addr) :
    seed T (s.mapPG f) a = (seed T s a).mapPG f := mapPG_updNode f s a _

/-- `F` commutes with the transformation `m` of states -/
def Commutes {α : Type} (m : State τ → State τ) (F : State τ → State τ × α) : Prop :=
  ∀ s, F (m s) = (m (F s).1, (F s).2)

theorem forwardArgsWith_commutes (m : State τ → State τ) (ev : State τ → Addr → State τ × Except Err τ)
    (hev : ∀ a, Commutes m (fun s => ev s a)) :
    ∀ l : List Addr, Commutes m (fun s => forwardArgsWith ev s l) := by
  intro l
  induction l with
  | nil => intro s; rfl
  | cons a rest ih =>
    intro s
    simp only [forwardArgsWith]
    have h1 : ev (m s) a = (m (ev s a).1, (ev s a).2) := hev a s
    rw [h1]
    rcases ev s a with ⟨s1, r⟩
    cases r with
    | error e => rfl
    | ok v =>
      simp only
      have h2 : forwardArgsWith ev (m s1) rest
          = (m (forwardArgsWith ev s1 rest).1, (forwardArgsWith ev s1 rest).2) := ih s1
      rw [h2]
      rcases forwardArgsWith ev s1 rest with ⟨s2, r2⟩
      cases r2 <;> rfl

theorem applyOp_mapPG (f : (Nat → τ) → (Nat → τ)) (a : Addr) (kind : Kind τ) (n : NodeInfo τ) (xs : List τ) :
    Commutes (State.mapPG f) (fun s => applyOp s a kind n xs) := by
  intro s1
  simp only [applyOp]
  have hfail : (s1.mapPG f).failIn = s1.failIn := rfl
  rw [hfail]
  have hcore : ∀ s : State τ, applyOpCore (s.mapPG f) a kind n xs
      = ((applyOpCore s a kind n xs).1.mapPG f, (applyOpCore s a kind n xs).2) := by
    intro s
    unfold applyOpCore
    cases kind with
    | param p => rfl
    | rnd => simp only; rw [← mapPG_storeValues]; rfl
    | op sem =>
      simp only
      cases sem.fwd xs with
      | none => rfl
      | some ys =>
        simp only
        cases ys[a.vid]? <;> (simp only; rw [← mapPG_storeValues]; rfl)
  split
  · rfl
  · rename_i fi _
    have : (if opFaulty kind = true then { s1.mapPG f with failIn := Option.map (fun x => x - 1) (if opFaulty kind = true then s1.failIn else none) } else s1.mapPG f)
        = (if opFaulty kind = true then { s1 with failIn := Option.map (fun x => x - 1) (if opFaulty kind = true then s1.failIn else none) } else s1).mapPG f := by
      split <;> rfl
    rw [this, hcore]

theorem forwardRec_mapPG (T : TOps τ) (f : (Nat → τ) → (Nat → τ)) :
    ∀ (fuel : Nat) (a : Addr), Commutes (State.mapPG f) (fun s => forwardRec T fuel s a) := by
  intro fuel
  induction fuel with
  | zero => intro a s; rfl
  | succ fuel ih =>
    intro a s
    simp only [forwardRec_succ]
    have hops : (s.mapPG f).ops = s.ops := rfl
    have hpv : (s.mapPG f).params.value = s.params.value := rfl
    rw [hops, hpv]
    cases s.ops[a.oid]? with
    | none => rfl
    | some o =>
      simp only
      have key : (match o.rets[a.vid]? with
          | none => (s.mapPG f, Except.error Err.crash)
          | some n =>
            match n.value with
            | some v => (s.mapPG f, Except.ok v)
            | none =>
              match forwardArgsWith (forwardRec T fuel) (s.mapPG f) o.args with
              | (s1, Except.error e) => (s1, Except.error e)
              | (s1, Except.ok xs) => applyOp s1 a o.kind n xs)
          = (State.mapPG f (match o.rets[a.vid]? with
          | none => (s, Except.error Err.crash)
          | some n =>
            match n.value with
            | some v => (s, Except.ok v)
            | none =>
              match forwardArgsWith (forwardRec T fuel) s o.args with
              | (s1, Except.error e) => (s1, Except.error e)
              | (s1, Except.ok xs) => applyOp s1 a o.kind n xs).1,
            (match o.rets[a.vid]? with
          | none => (s, Except.error Err.crash)
          | some n =>
            match n.value with
            | some v => (s, Except.ok v)
            | none =>
              match forwardArgsWith (forwardRec T fuel) s o.args with
              | (s1, Except.error e) => (s1, Except.error e)
              | (s1, Except.ok xs) => applyOp s1 a o.kind n xs).2) := by
        cases o.rets[a.vid]? with
        | none => rfl
        | some n =>
          simp only
          cases n.value with
          | some v => rfl
          | none =>
            simp only
            have h2 : forwardArgsWith (forwardRec T fuel) (s.mapPG f) o.args
                = (State.mapPG f (forwardArgsWith (forwardRec T fuel) s o.args).1,
                   (forwardArgsWith (forwardRec T fuel) s o.args).2) :=
              forwardArgsWith_commutes (State.mapPG f) (forwardRec T fuel) ih o.args s
            rw [h2]
            rcases forwardArgsWith (forwardRec T fuel) s o.args with ⟨s1, r⟩
            cases r with
            | error e => rfl
            | ok xs => exact applyOp_mapPG f a o.kind n xs s1
      cases hk : o.kind with
      | param p => simp only; split <;> rfl
      | rnd => rw [hk] at key; exact key
      | op sem => rw [hk] at key; exact key

theorem forward_mapPG (T : TOps τ) (f : (Nat → τ) → (Nat → τ)) (a : Addr) :
    Commutes (State.mapPG f) (fun s => forward T s a) := by
  intro s
  simp only [forward]
  by_cases hv : s.validAddr a = true
  · have hv' : (s.mapPG f).validAddr a = true := hv
    rw [if_pos hv, if_pos hv']
    exact forwardRec_mapPG T f _ a s
  · have hv' : ¬ (s.mapPG f).validAddr a = true := hv
    rw [if_neg hv, if_neg hv']

theorem fwdPhase_mapPG (T : TOps τ) (f : (Nat → τ) → (Nat → τ)) (a : Addr) :
    Commutes (State.mapPG f) (fun s => fwdPhase T s a) := by
  intro s
  simp only [fwdPhase]
  have hn : (s.mapPG f).node? a = s.node? a := rfl
  rw [hn]
  cases s.node? a with
  | none => rfl
  | some n =>
    simp only
    split
    · rfl
    · have h := forward_mapPG T f a s
      simp only at h
      rw [h]
      rcases forward T s a with ⟨s1, r⟩
      cases r <;> rfl

/-! ### `backward` only adds: a prior gradient `g` stays in front of everything the sweep accumulates -/

/-- `h ↦ g + h`, pointwise over the parameters -/
def shiftG (T : TOps τ) (g : Nat → τ) : (Nat → τ) → (Nat → τ) := fun h p => T.add (g p) (h p)

theorem stepCore_shift (T : TOps τ) (hassoc : ∀ x y z : τ, T.add (T.add x y) z = T.add x (T.add y z))
    (g : Nat → τ) (s2 : State τ) (o : OpInfo τ) (xs ys gys : List τ) :
    stepCore T (s2.mapPG (shiftG T g)) o xs ys gys = (stepCore T s2 o xs ys gys).mapPG (shiftG T g) := by
  unfold stepCore
  cases o.kind with
  | param p =>
    simp only
    cases gys with
    | nil => rfl
    | cons gy rest =>
      simp only [State.mapPG, shiftG]
      congr 2
      funext q
      by_cases hq : q = p
      · simp [hq, hassoc, shiftG]
      · simp [hq, shiftG]
  | rnd => rfl
  | op sem => simp only; rw [mapPG_addContribs]

theorem backwardStep_shift (T : TOps τ) (hassoc : ∀ x y z : τ, T.add (T.add x y) z = T.add x (T.add y z))
    (g : Nat → τ) (k : Nat) : Commutes (State.mapPG (shiftG T g)) (fun s => backwardStep T s k) := by
  intro s
  simp only [backwardStep_eq]
  have hops : (s.mapPG (shiftG T g)).ops = s.ops := rfl
  rw [hops, mapPG_valueOf]
  cases s.ops[k]? with
  | none => rfl
  | some o =>
    simp only
    by_cases he : (!o.enabled) = true
    · simp only [he, if_true]
    · simp only [he]
      cases o.args.mapM s.valueOf? with
      | none => simp only [mapPG_zeroFill]; rfl
      | some xs =>
        simp only [mapPG_zeroFill, stepCore_shift T hassoc, mapPG_invalidateGrads]
        rfl

theorem sweep_shift (T : TOps τ) (hassoc : ∀ x y z : τ, T.add (T.add x y) z = T.add x (T.add y z))
    (g : Nat → τ) : ∀ k : Nat, Commutes (State.mapPG (shiftG T g)) (fun s => sweep T k s) := by
  intro k
  induction k with
  | zero => intro s; rfl
  | succ k ih =>
    intro s
    have h1 : backwardStep T (s.mapPG (shiftG T g)) k
        = ((backwardStep T s k).1.mapPG (shiftG T g), (backwardStep T s k).2) := backwardStep_shift T hassoc g k s
    simp only [sweep]
    rw [h1]
    rcases backwardStep T s k with ⟨s1, r⟩
    cases r with
    | error e => rfl
    | ok u => cases u; exact ih s1

theorem backward_shift (T : TOps τ) (hassoc : ∀ x y z : τ, T.add (T.add x y) z = T.add x (T.add y z))
    (g : Nat → τ) (a : Addr) : Commutes (State.mapPG (shiftG T g)) (fun s => backward T s a) := by
  intro s
  simp only [backward_eq]
  have hv : (s.mapPG (shiftG T g)).validAddr a = s.validAddr a := rfl
  rw [hv]
  by_cases hva : (!s.validAddr a) = true
  · simp only [hva, if_true]
  · simp only [hva]
    have h1 : fwdPhase T (s.mapPG (shiftG T g)) a
        = ((fwdPhase T s a).1.mapPG (shiftG T g), (fwdPhase T s a).2) := fwdPhase_mapPG T _ a s
    rw [h1]
    rcases fwdPhase T s a with ⟨s1, r⟩
    cases r with
    | error e => rfl
    | ok u =>
      cases u
      simp only [mapPG_seed]
      exact sweep_shift T hassoc g _ _


/-! ### invariants of the sweep -/

/-- every node gradient is invalid -/
def AllGradsInvalid (s : State τ) : Prop := ∀ a, s.gradAt a = none

/-- all valid node gradients belong to operators with id `< k` -/
def GradsBelow (k : Nat) (s : State τ) : Prop := ∀ a : Addr, k ≤ a.oid → s.gradAt a = none

/-- arguments refer to smaller operator ids (the invariant that `add_operator` maintains) -/
def ArgsBelow (s : State τ) : Prop :=
  ∀ (i : Nat) (o : OpInfo τ), s.ops[i]? = some o → ∀ a ∈ o.args, a.oid < i

theorem argsBelow_of_skel {s s' : State τ} (h : s'.skel = s.skel) (hs : ArgsBelow s) : ArgsBelow s' := by
  intro i o' ho' a ha
  obtain ⟨o, ho, _, hargs, _⟩ := skel_op_some h.symm ho'
  exact hs i o ho a (hargs ▸ ha)

theorem argsBelow_of_gskel {s s' : State τ} (h : s'.gskel = s.gskel) (hs : ArgsBelow s) : ArgsBelow s' := by
  intro i o' ho' a ha
  obtain ⟨o, ho, _, hargs, _⟩ := gskel_op_some h.symm ho'
  exact hs i o ho a (hargs ▸ ha)

theorem stepCore_gradAt_isSome (T : TOps τ) (s2 : State τ) (o : OpInfo τ) (xs ys gys : List τ) (b : Addr) :
    ((stepCore T s2 o xs ys gys).gradAt b).isSome = (s2.gradAt b).isSome := by
  unfold stepCore
  split
  · split <;> rfl
  · rfl
  · rw [gradAt_addContribs, accGrads_isSome]

theorem backwardStep_gradsBelow (T : TOps τ) (k : Nat) (s s1 : State τ) (hg : GradsBelow (k + 1) s)
    (hw : ArgsBelow s) (hb : backwardStep T s k = (s1, .ok ())) : GradsBelow k s1 := by
  rw [backwardStep_eq] at hb
  cases ho : s.ops[k]? with
  | none => rw [ho] at hb; cases hb
  | some o =>
    rw [ho] at hb
    simp only at hb
    by_cases he : (!o.enabled) = true
    · rw [if_pos he] at hb
      cases hb
      intro a ha
      by_cases hak : a.oid = k
      · have hne : ¬ ∃ j, (s.gradAt ⟨k, j⟩).isSome = true := by
          rw [← enabled_iff ho]; simpa using he
        cases hga : s.gradAt a with
        | none => rfl
        | some g =>
          exfalso; apply hne
          refine ⟨a.vid, ?_⟩
          have : a = ⟨k, a.vid⟩ := by cases a; simp_all
          rw [← this, hga]; rfl
      · exact hg a (by omega)
    · rw [if_neg he] at hb
      cases hxs : o.args.mapM s.valueOf? with
      | none => rw [hxs] at hb; cases hb
      | some xs =>
        rw [hxs] at hb
        simp only at hb
        cases hb
        intro a ha
        rw [gradAt_invalidateGrads]
        by_cases hak : a.oid = k
        · simp [hak]
        · simp only [hak, if_false]
          have h1 := stepCore_gradAt_isSome T (zeroFill T (zeroFill T s (retAddrs k o)) o.args) o xs o.ys (o.gys T) a
          have h2 : (zeroFill T (zeroFill T s (retAddrs k o)) o.args).gradAt a = none := by
            rw [gradAt_zeroFill, gradAt_zeroFill]
            have hna : a ∉ o.args := fun hm => by have := hw k o ho a hm; omega
            have hnr : a ∉ retAddrs k o := fun hm => hak ((mem_retAddrs k o a).mp hm).1
            simp only [hna, hnr, if_false]
            exact hg a (by omega)
          rw [h2] at h1
          cases hga : (stepCore T (zeroFill T (zeroFill T s (retAddrs k o)) o.args) o xs o.ys (o.gys T)).gradAt a with
          | none => rfl
          | some g => rw [hga] at h1; simp at h1

theorem sweep_gradsBelow (T : TOps τ) (k : Nat) (s s' : State τ) (hg : GradsBelow k s) (hw : ArgsBelow s)
    (hs : sweep T k s = (s', .ok ())) : AllGradsInvalid s' := by
  have := sweep_inv_ok T (fun k s => GradsBelow k s ∧ ArgsBelow s)
    (fun k s s1 h hb => ⟨backwardStep_gradsBelow T k s s1 h.1 h.2 hb,
      argsBelow_of_skel (by have := backwardStep_sameFrame T s k; rw [hb] at this; exact this.skel) h.2⟩)
    k s s' ⟨hg, hw⟩ hs
  intro a
  exact this.1 a (Nat.zero_le _)

theorem gradsBelow_seed (T : TOps τ) (s : State τ) (a : Addr) (h : AllGradsInvalid s) :
    GradsBelow (a.oid + 1) (seed T s a) := by
  intro b hb
  rw [gradAt_seed]
  have : b ≠ a := fun e => by rw [e] at hb; omega
  simp [this, h b]

/-- if all node gradients are invalid before `backward` and it succeeds, all are invalid after it -/
theorem backward_allGradsInvalid (T : TOps τ) (s s' : State τ) (a : Addr) (hg : AllGradsInvalid s)
    (hw : ArgsBelow s) (hb : backward T s a = (s', .ok ())) : AllGradsInvalid s' := by
  rw [backward_eq] at hb
  split at hb
  · cases hb
  · have hf := fwdPhase_fwdFrame T s a
    rcases hp : fwdPhase T s a with ⟨s1, r⟩
    rw [hp] at hb hf
    cases r with
    | error e => cases hb
    | ok u =>
      cases u
      simp only at hb hf
      have hg1 : AllGradsInvalid s1 := fun b => by rw [gskel_gradAt hf.gskel]; exact hg b
      have hw1 : ArgsBelow s1 := argsBelow_of_gskel hf.gskel hw
      exact sweep_gradsBelow T _ _ s' (gradsBelow_seed T s1 a hg1)
        (argsBelow_of_skel (seed_sameFrame T s1 a).skel hw1) hb

/-! ### ancestors -/

def State.argsOf (s : State τ) (i : Nat) : List Addr :=
  match s.ops[i]? with
  | some o => o.args
  | none => []

def State.kindAt (s : State τ) (i : Nat) : Option (Kind τ) := (s.ops[i]?).map (·.kind)

/-- `Anc args i j`: operator `i` is operator `j` or produces a (transitive) argument of it -/
inductive Anc (args : Nat → List Addr) : Nat → Nat → Prop
  | refl (j : Nat) : Anc args j j
  | step {i j : Nat} {a : Addr} : a ∈ args j → Anc args i a.oid → Anc args i j

theorem Anc.arg {args : Nat → List Addr} {k t : Nat} {a : Addr} (h : Anc args k t) (ha : a ∈ args k) :
    Anc args a.oid t := by
  induction h with
  | refl => exact Anc.step ha (Anc.refl _)
  | step hb _ ih => exact Anc.step hb ih

theorem argsOf_of_skel {s s' : State τ} (h : s'.skel = s.skel) : s'.argsOf = s.argsOf := by
  funext i
  unfold State.argsOf
  cases ho : s.ops[i]? with
  | none =>
    have := skel_op h i
    rw [ho] at this
    cases h' : s'.ops[i]? with
    | none => rfl
    | some o' => rw [h'] at this; simp at this
  | some o =>
    obtain ⟨o', ho', _, ha, _⟩ := skel_op_some h ho
    rw [ho']; exact ha

theorem argsOf_of_gskel {s s' : State τ} (h : s'.gskel = s.gskel) : s'.argsOf = s.argsOf := by
  funext i
  unfold State.argsOf
  cases ho : s.ops[i]? with
  | none => rw [gskel_op_none h ho]
  | some o =>
    obtain ⟨o', ho', _, ha, _⟩ := gskel_op_some h ho
    rw [ho']; exact ha

theorem kindAt_of_skel {s s' : State τ} (h : s'.skel = s.skel) : s'.kindAt = s.kindAt := by
  funext i
  unfold State.kindAt
  cases ho : s.ops[i]? with
  | none =>
    have := skel_op h i
    rw [ho] at this
    cases h' : s'.ops[i]? with
    | none => rfl
    | some o' => rw [h'] at this; simp at this
  | some o =>
    obtain ⟨o', ho', hk, _, _⟩ := skel_op_some h ho
    rw [ho']; simp [hk]

theorem kindAt_of_gskel {s s' : State τ} (h : s'.gskel = s.gskel) : s'.kindAt = s.kindAt := by
  funext i
  unfold State.kindAt
  cases ho : s.ops[i]? with
  | none => rw [gskel_op_none h ho]
  | some o =>
    obtain ⟨o', ho', hk, _, _⟩ := gskel_op_some h ho
    rw [ho']; simp [hk]

theorem argsOf_eq {s : State τ} {k : Nat} {o : OpInfo τ} (ho : s.ops[k]? = some o) : s.argsOf k = o.args := by
  simp [State.argsOf, ho]

/-- every valid node gradient sits on an ancestor of operator `t` -/
def OnlyAnc (args : Nat → List Addr) (t : Nat) (s : State τ) : Prop :=
  ∀ b, (s.gradAt b).isSome = true → Anc args b.oid t

theorem zeroFill_gradAt_isSome (T : TOps τ) (s : State τ) (l : List Addr) (b : Addr)
    (h : ((zeroFill T s l).gradAt b).isSome = true) : b ∈ l ∨ (s.gradAt b).isSome = true := by
  rw [gradAt_zeroFill] at h
  by_cases hm : b ∈ l
  · exact Or.inl hm
  · simp only [hm, if_false] at h; exact Or.inr h

theorem enabled_anc {s : State τ} {k t : Nat} {o : OpInfo τ} (ho : s.ops[k]? = some o)
    (he : ¬ (!o.enabled) = true) (h : OnlyAnc s.argsOf t s) : Anc s.argsOf k t := by
  have : o.enabled = true := by simpa using he
  obtain ⟨j, hj⟩ := (enabled_iff ho).mp this
  exact h ⟨k, j⟩ hj

theorem backwardStep_onlyAnc (T : TOps τ) (t k : Nat) (s : State τ) (h : OnlyAnc s.argsOf t s) :
    OnlyAnc s.argsOf t (backwardStep T s k).1 := by
  rw [backwardStep_eq]
  cases ho : s.ops[k]? with
  | none => exact h
  | some o =>
    simp only
    by_cases he : (!o.enabled) = true
    · rw [if_pos he]; exact h
    · rw [if_neg he]
      have hk : Anc s.argsOf k t := enabled_anc ho he h
      have h1 : OnlyAnc s.argsOf t (zeroFill T s (retAddrs k o)) := by
        intro b hb
        rcases zeroFill_gradAt_isSome T s _ b hb with hm | hs
        · rw [((mem_retAddrs k o b).mp hm).1]; exact hk
        · exact h b hs
      cases hxs : o.args.mapM s.valueOf? with
      | none => exact h1
      | some xs =>
        simp only
        intro b hb
        rw [gradAt_invalidateGrads] at hb
        by_cases hbk : b.oid = k
        · simp [hbk] at hb
        · simp only [hbk, if_false, stepCore_gradAt_isSome] at hb
          rcases zeroFill_gradAt_isSome T _ _ b hb with hm | hs
          · exact hk.arg (by rw [argsOf_eq ho]; exact hm)
          · exact h1 b hs

theorem stepCore_pgrad (T : TOps τ) (s2 : State τ) (o : OpInfo τ) (xs ys gys : List τ) (p : Nat)
    (hne : o.kind ≠ .param p) : (stepCore T s2 o xs ys gys).params.grad p = s2.params.grad p := by
  unfold stepCore
  split
  · rename_i p' hk
    have hpp : p ≠ p' := fun e => hne (by rw [hk, e])
    split
    · simp [hpp]
    · rfl
  · rfl
  · simp

theorem backwardStep_pgrad (T : TOps τ) (t k p : Nat) (s : State τ) (h : OnlyAnc s.argsOf t s)
    (hp : ∀ i, s.kindAt i = some (.param p) → ¬ Anc s.argsOf i t) :
    (backwardStep T s k).1.params.grad p = s.params.grad p := by
  rw [backwardStep_eq]
  cases ho : s.ops[k]? with
  | none => rfl
  | some o =>
    simp only
    by_cases he : (!o.enabled) = true
    · rw [if_pos he]
    · rw [if_neg he]
      have hk : Anc s.argsOf k t := enabled_anc ho he h
      cases hxs : o.args.mapM s.valueOf? with
      | none => simp
      | some xs =>
        simp only [invalidateGrads_params]
        rw [stepCore_pgrad]
        · simp
        · intro hkind
          exact hp k (by simp [State.kindAt, ho, hkind]) hk

/-- the gradient of a parameter none of whose Parameter operators is an ancestor of `t` is not written -/
theorem sweep_pgrad (T : TOps τ) (t p : Nat) (k : Nat) (s : State τ) (h : OnlyAnc s.argsOf t s)
    (hp : ∀ i, s.kindAt i = some (.param p) → ¬ Anc s.argsOf i t) :
    (sweep T k s).1.params.grad p = s.params.grad p := by
  have := sweep_inv T
    (fun s' => s'.argsOf = s.argsOf ∧ s'.kindAt = s.kindAt ∧ OnlyAnc s.argsOf t s' ∧ s'.params.grad p = s.params.grad p)
    (fun k s' ⟨ha, hk, ho, hg⟩ => by
      have hf := backwardStep_sameFrame T s' k
      refine ⟨(argsOf_of_skel hf.skel).trans ha, (kindAt_of_skel hf.skel).trans hk, ?_, ?_⟩
      · have := backwardStep_onlyAnc T t k s' (ha ▸ ho)
        rw [ha] at this; exact this
      · rw [← hg]
        exact backwardStep_pgrad T t k p s' (ha ▸ ho) (by rw [ha, hk]; exact hp))
    k s ⟨rfl, rfl, h, rfl⟩
  exact this.2.2.2

theorem onlyAnc_seed (T : TOps τ) (s : State τ) (a : Addr) (h : AllGradsInvalid s) :
    OnlyAnc (seed T s a).argsOf a.oid (seed T s a) := by
  intro b hb
  rw [gradAt_seed] at hb
  by_cases hba : b = a
  · rw [hba]; exact Anc.refl _
  · simp [hba, h b] at hb

theorem backward_pgrad (T : TOps τ) (s : State τ) (a : Addr) (p : Nat) (hg : AllGradsInvalid s)
    (hp : ∀ i, s.kindAt i = some (.param p) → ¬ Anc s.argsOf i a.oid) :
    (backward T s a).1.params.grad p = s.params.grad p := by
  rw [backward_eq]
  split
  · rfl
  · have hf := fwdPhase_fwdFrame T s a
    rcases hph : fwdPhase T s a with ⟨s1, r⟩
    rw [hph] at hf
    cases r with
    | error e => simp only; rw [hf.params]
    | ok u =>
      cases u
      simp only at hf ⊢
      have hg1 : AllGradsInvalid s1 := fun b => by rw [gskel_gradAt hf.gskel]; exact hg b
      have hsf := seed_sameFrame T s1 a
      have hargs : (seed T s1 a).argsOf = s.argsOf := (argsOf_of_skel hsf.skel).trans (argsOf_of_gskel hf.gskel)
      have hkind : (seed T s1 a).kindAt = s.kindAt := (kindAt_of_skel hsf.skel).trans (kindAt_of_gskel hf.gskel)
      rw [sweep_pgrad T a.oid p _ _ (onlyAnc_seed T s1 a hg1) (by rw [hargs, hkind]; exact hp)]
      simp [hf.params]


/-! ### accumulation -/

theorem ops_eq_of_skel_grad {s s' : State τ} (h : s'.skel = s.skel) (hg : ∀ a, s'.gradAt a = s.gradAt a) :
    s'.ops = s.ops := by
  apply List.ext_getElem?
  intro i
  cases ho : s.ops[i]? with
  | none =>
    have := skel_op h i
    rw [ho] at this
    cases h' : s'.ops[i]? with
    | none => rfl
    | some o' => rw [h'] at this; simp at this
  | some o =>
    obtain ⟨o', ho', hk, ha, hr⟩ := skel_op_some h ho
    rw [ho']
    have hrets : o'.rets = o.rets := by
      apply List.ext_getElem?
      intro j
      have h1 := congrArg (fun l => l[j]?) hr
      simp only [List.getElem?_map] at h1
      have h2 := hg ⟨i, j⟩
      simp only [State.gradAt, ops_getElem?_node? ho', ops_getElem?_node? ho] at h2
      cases hn' : o'.rets[j]? with
      | none =>
        cases hn : o.rets[j]? with
        | none => rfl
        | some n => rw [hn', hn] at h1; simp at h1
      | some n' =>
        cases hn : o.rets[j]? with
        | none => rw [hn', hn] at h1; simp at h1
        | some n =>
          rw [hn', hn] at h1 h2
          simp only [Option.map_some, Option.some.injEq, NodeInfo.skel, Prod.mk.injEq, Option.bind_some] at h1 h2
          cases n'; cases n; simp_all
    cases o'; cases o; simp_all

/-- a state whose node gradients are all invalid is determined by its frame and parameter gradients -/
theorem eq_mapPG_of_sameFrame {s s' : State τ} (h : SameFrame s s') (hg : AllGradsInvalid s)
    (hg' : AllGradsInvalid s') : s' = s.mapPG (fun _ => s'.params.grad) := by
  have hops := ops_eq_of_skel_grad h.skel (fun a => by rw [hg a, hg' a])
  have h2 := h.pvalue; have h3 := h.log; have h4 := h.rndPos; have h5 := h.sample; have h6 := h.failIn
  cases s' with
  | mk ops' params' log' rndPos' sample' failIn' =>
    cases params'
    cases s with
    | mk ops params log rndPos sample failIn =>
      cases params
      simp_all [State.mapPG]

def addN (T : TOps τ) : Nat → τ → τ → τ
  | 0, g, _ => g
  | k + 1, g, d => T.add (addN T k g d) d

theorem addN_add (T : TOps τ) (k : Nat) (g d : τ) : addN T k (T.add g d) d = addN T (k + 1) g d := by
  induction k with
  | zero => rfl
  | succ k ih => simp only [addN] at ih ⊢; rw [ih]

/-- `k` consecutive calls of `backward` on the same node -/
def iterBackward (T : TOps τ) (a : Addr) : Nat → State τ → State τ
  | 0, s => s
  | k + 1, s => iterBackward T a k (backward T s a).1

theorem mapPG_mapPG (f f' : (Nat → τ) → (Nat → τ)) (s : State τ) :
    (s.mapPG f).mapPG f' = s.mapPG (fun g => f' (f g)) := rfl

theorem mapPG_self (s : State τ) : s.mapPG (fun _ => s.params.grad) = s := rfl

theorem mapPG_allGradsInvalid (f : (Nat → τ) → (Nat → τ)) {s : State τ} (h : AllGradsInvalid s) :
    AllGradsInvalid (s.mapPG f) := h

theorem mapPG_argsBelow (f : (Nat → τ) → (Nat → τ)) {s : State τ} (h : ArgsBelow s) :
    ArgsBelow (s.mapPG f) := h

/-- the result from any prior gradient `g` is `g` plus the result from the zero gradient `z` -/
theorem backward_adds_gen (T : TOps τ) (hassoc : ∀ x y z : τ, T.add (T.add x y) z = T.add x (T.add y z))
    (s : State τ) (a : Addr) (z : Nat → τ) (hz : ∀ p x, T.add x (z p) = x) :
    backward T s a =
      ((backward T (s.mapPG fun _ => z) a).1.mapPG (shiftG T s.params.grad),
       (backward T (s.mapPG fun _ => z) a).2) := by
  have h := backward_shift T hassoc s.params.grad a (s.mapPG fun _ => z)
  simp only at h
  rw [← h, mapPG_mapPG]
  have : (fun _ : Nat → τ => shiftG T s.params.grad z) = fun _ => s.params.grad := by
    funext _ p; exact hz p _
  rw [this, mapPG_self]

/-- when the forward phase is a no-op, a successful `backward` from all-invalid node gradients changes
the parameter gradients only -/
theorem backward_eq_mapPG (T : TOps τ) (s : State τ) (a : Addr) (hg : AllGradsInvalid s) (hw : ArgsBelow s)
    (hstable : fwdPhase T s a = (s, .ok ())) (hok : (backward T s a).2 = .ok ()) :
    (backward T s a).1 = s.mapPG (fun _ => (backward T s a).1.params.grad) := by
  have hb : backward T s a = ((backward T s a).1, .ok ()) := by rw [← hok]
  have hg' := backward_allGradsInvalid T s _ a hg hw hb
  refine eq_mapPG_of_sameFrame ?_ hg hg'
  rw [backward_eq]
  split
  · exact SameFrame.refl s
  · rw [hstable]
    exact (seed_sameFrame T s a).trans (sweep_sameFrame T _ _)

theorem iterBackward_grad (T : TOps τ) (hassoc : ∀ x y z : τ, T.add (T.add x y) z = T.add x (T.add y z))
    (s : State τ) (a : Addr) (z : Nat → τ) (hz : ∀ p x, T.add x (z p) = x)
    (hg : AllGradsInvalid s) (hw : ArgsBelow s)
    (hstable : fwdPhase T s a = (s, .ok ())) (hok : (backward T s a).2 = .ok ()) (k : Nat) :
    iterBackward T a k s =
      s.mapPG (fun _ p => addN T k (s.params.grad p) ((backward T (s.mapPG fun _ => z) a).1.params.grad p)) := by
  -- D and the one-call lemma for an arbitrary prior gradient
  have hok0 : (backward T (s.mapPG fun _ => z) a).2 = .ok () := by
    have := backward_adds_gen T hassoc s a z hz
    rw [this] at hok; exact hok
  have hst0 : fwdPhase T (s.mapPG fun _ => z) a = (s.mapPG (fun _ => z), .ok ()) := by
    have := fwdPhase_mapPG T (fun _ => z) a s
    simp only at this
    rw [this, hstable]
  have hr0 := backward_eq_mapPG T (s.mapPG fun _ => z) a hg hw hst0 hok0
  have one : ∀ g : Nat → τ, backward T (s.mapPG fun _ => g) a =
      (s.mapPG (fun _ p => T.add (g p) ((backward T (s.mapPG fun _ => z) a).1.params.grad p)), .ok ()) := by
    intro g
    have h := backward_adds_gen T hassoc (s.mapPG fun _ => g) a z hz
    rw [mapPG_mapPG] at h
    rw [h, hok0, hr0]
    rfl
  have gen : ∀ (k : Nat) (g : Nat → τ), iterBackward T a k (s.mapPG fun _ => g) =
      s.mapPG (fun _ p => addN T k (g p) ((backward T (s.mapPG fun _ => z) a).1.params.grad p)) := by
    intro k
    induction k with
    | zero => intro g; rfl
    | succ k ih =>
      intro g
      simp only [iterBackward]
      rw [one g]
      simp only
      rw [ih]
      congr 1
      funext _ p
      exact addN_add T k _ _
  have := gen k s.params.grad
  rw [mapPG_self] at this
  exact this


/-! ### operators after the target -/

/-- the graph with further operators appended -/
def State.appendOps (s : State τ) (extra : List (OpInfo τ)) : State τ := { s with ops := s.ops ++ extra }

theorem appendOps_getElem? (s : State τ) (e : List (OpInfo τ)) {i : Nat} (h : i < s.ops.length) :
    (s.appendOps e).ops[i]? = s.ops[i]? := List.getElem?_append_left h

theorem appendOps_updNode (s : State τ) (e : List (OpInfo τ)) (a : Addr) (f : NodeInfo τ → NodeInfo τ)
    (h : a.oid < s.ops.length) : (s.appendOps e).updNode a f = (s.updNode a f).appendOps e := by
  unfold State.updNode
  rw [appendOps_getElem? s e h]
  cases s.ops[a.oid]? with
  | none => rfl
  | some o => simp [State.appendOps, h]

theorem appendOps_zeroFill (T : TOps τ) (e : List (OpInfo τ)) (l : List Addr) :
    ∀ s : State τ, (∀ a ∈ l, a.oid < s.ops.length) →
      zeroFill T (s.appendOps e) l = (zeroFill T s l).appendOps e := by
  induction l with
  | nil => intro s _; rfl
  | cons a rest ih =>
    intro s h
    rw [zeroFill_cons, zeroFill_cons, appendOps_updNode _ _ _ _ (h a (by simp)), ih]
    intro b hb
    rw [updNode_length]
    exact h b (by simp [hb])

theorem appendOps_addContribs (T : TOps τ) (e : List (OpInfo τ)) (l : List (Addr × Option τ)) :
    ∀ s : State τ, (∀ x ∈ l, x.1.oid < s.ops.length) →
      addContribs T (s.appendOps e) l = (addContribs T s l).appendOps e := by
  induction l with
  | nil => intro s _; rfl
  | cons x rest ih =>
    intro s h
    obtain ⟨a, c⟩ := x
    have hr : ∀ x ∈ rest, x.1.oid < s.ops.length := fun x hx => h x (by simp [hx])
    cases c with
    | none => rw [addContribs_none, addContribs_none, ih _ hr]
    | some c =>
      rw [addContribs_some, addContribs_some, appendOps_updNode _ _ _ _ (h (a, some c) (by simp)), ih]
      intro b hb
      rw [updNode_length]
      exact hr b hb

theorem appendOps_invalidateGrads (s : State τ) (e : List (OpInfo τ)) (k : Nat) (h : k < s.ops.length) :
    invalidateGrads (s.appendOps e) k = (invalidateGrads s k).appendOps e := by
  unfold invalidateGrads
  rw [appendOps_getElem? s e h]
  cases s.ops[k]? with
  | none => rfl
  | some o => simp [State.appendOps, h]

theorem appendOps_valueOf (s : State τ) (e : List (OpInfo τ)) (a : Addr) (h : a.oid < s.ops.length) :
    (s.appendOps e).valueOf? a = s.valueOf? a := by
  unfold State.valueOf?
  rw [appendOps_getElem? s e h]
  rfl

theorem mapM_option_congr {α β} (f g : α → Option β) (l : List α) (h : ∀ a ∈ l, f a = g a) :
    l.mapM f = l.mapM g := by
  induction l with
  | nil => rfl
  | cons a rest ih =>
    simp only [List.mapM_cons]
    rw [h a (by simp), ih (fun b hb => h b (by simp [hb]))]

theorem zeroFill_length (T : TOps τ) (s : State τ) (l : List Addr) : (zeroFill T s l).ops.length = s.ops.length :=
  skel_length (zeroFill_sameFrame T l s).skel

theorem appendOps_stepCore (T : TOps τ) (e : List (OpInfo τ)) (s2 : State τ) (o : OpInfo τ) (xs ys gys : List τ)
    (h : ∀ a ∈ o.args, a.oid < s2.ops.length) :
    stepCore T (s2.appendOps e) o xs ys gys = (stepCore T s2 o xs ys gys).appendOps e := by
  unfold stepCore
  cases o.kind with
  | param p => simp only; cases gys <;> rfl
  | rnd => rfl
  | op sem =>
    simp only
    apply appendOps_addContribs
    intro x hx
    exact h x.1 (List.of_mem_zip hx).1

theorem appendOps_backwardStep (T : TOps τ) (e : List (OpInfo τ)) (s : State τ) (k : Nat)
    (hk : k < s.ops.length) (hw : ArgsBelow s) :
    backwardStep T (s.appendOps e) k = ((backwardStep T s k).1.appendOps e, (backwardStep T s k).2) := by
  simp only [backwardStep_eq]
  rw [appendOps_getElem? s e hk]
  cases ho : s.ops[k]? with
  | none => rfl
  | some o =>
    simp only
    have hargs : ∀ a ∈ o.args, a.oid < s.ops.length := fun a ha => Nat.lt_trans (hw k o ho a ha) hk
    have hrets : ∀ a ∈ retAddrs k o, a.oid < s.ops.length := fun a ha => by
      rw [((mem_retAddrs k o a).mp ha).1]; exact hk
    by_cases he : (!o.enabled) = true
    · simp only [he, if_true]
    · rw [if_neg he, if_neg he]
      rw [mapM_option_congr _ s.valueOf? o.args (fun a ha => appendOps_valueOf s e a (hargs a ha))]
      cases o.args.mapM s.valueOf? with
      | none => simp only; rw [appendOps_zeroFill T e _ s hrets]
      | some xs =>
        simp only
        rw [appendOps_zeroFill T e _ s hrets, appendOps_zeroFill T e _ _ (by rw [zeroFill_length]; exact hargs),
          appendOps_stepCore T e _ _ _ _ _ (by rw [zeroFill_length, zeroFill_length]; exact hargs),
          appendOps_invalidateGrads _ _ _ (by
            rw [skel_length (stepCore_sameFrame T _ _ _ _ _).skel, zeroFill_length, zeroFill_length]; exact hk)]

/-- operators appended after the first `k` ones are neither read nor written by `sweep T k` -/
theorem appendOps_sweep (T : TOps τ) (e : List (OpInfo τ)) : ∀ (k : Nat) (s : State τ),
    k ≤ s.ops.length → ArgsBelow s →
    sweep T k (s.appendOps e) = ((sweep T k s).1.appendOps e, (sweep T k s).2) := by
  intro k
  induction k with
  | zero => intro s _ _; rfl
  | succ k ih =>
    intro s hk hw
    simp only [sweep]
    rw [appendOps_backwardStep T e s k (by omega) hw]
    have hf := backwardStep_sameFrame T s k
    rcases hb : backwardStep T s k with ⟨s1, r⟩
    rw [hb] at hf
    cases r with
    | error e => rfl
    | ok u =>
      cases u
      simp only
      exact ih s1 (by rw [skel_length hf.skel]; omega) (argsBelow_of_skel hf.skel hw)


/-! ### blocked paths -/

/-- what neither `forward` nor `backward` changes: kinds, arguments and sizes -/
abbrev Shape (τ : Type) := List (Kind τ × List Addr × List Nat)

def State.shape (s : State τ) : Shape τ := s.ops.map fun o => (o.kind, o.args, o.rets.map (·.size))

theorem shape_eq_skel (s : State τ) : s.shape = s.skel.map fun x => (x.1, x.2.1, x.2.2.map Prod.fst) := by
  simp only [State.shape, State.skel, List.map_map]
  apply List.map_congr_left
  intro o _
  simp [OpInfo.skel, List.map_map, Function.comp_def, NodeInfo.skel]

theorem shape_eq_gskel (s : State τ) : s.shape = s.gskel.map fun x => (x.1, x.2.1, x.2.2.map Prod.fst) := by
  simp only [State.shape, State.gskel, List.map_map]
  apply List.map_congr_left
  intro o _
  simp [OpInfo.gskel, List.map_map, Function.comp_def, NodeInfo.gskel]

theorem shape_of_skel {s s' : State τ} (h : s'.skel = s.skel) : s'.shape = s.shape := by
  rw [shape_eq_skel, shape_eq_skel, h]

theorem shape_of_gskel {s s' : State τ} (h : s'.gskel = s.gskel) : s'.shape = s.shape := by
  rw [shape_eq_gskel, shape_eq_gskel, h]

/-- size of the node at `b` according to the shape -/
def shapeSize (sh : Shape τ) (b : Addr) : Nat :=
  match sh[b.oid]? with
  | some (_, _, rets) => match rets[b.vid]? with
    | some r => r
    | none => 0
  | none => 0

theorem shape_getElem? {s : State τ} {k : Nat} {o : OpInfo τ} (ho : s.ops[k]? = some o) :
    s.shape[k]? = some (o.kind, o.args, o.rets.map (·.size)) := by
  simp [State.shape, List.getElem?_map, ho]

theorem shapeSize_node {s : State τ} {b : Addr} {n : NodeInfo τ} (h : s.node? b = some n) :
    shapeSize s.shape b = n.size := by
  unfold State.node? at h
  cases ho : s.ops[b.oid]? with
  | none => rw [ho] at h; cases h
  | some o =>
    rw [ho] at h
    simp only at h
    simp [shapeSize, shape_getElem? ho, List.getElem?_map, h]

/-- the backward rule `sem` never contributes to its `j`-th argument (`stop_gradient`, `BACKWARD_NOP`) -/
def NoContrib (sem : OpSem τ) (j : Nat) : Prop :=
  ∀ xs ys gys c, (sem.bwd xs ys gys)[j]? ≠ some (some c)

/-- `Z` is a set of nodes from which the target can be reached only through blocked argument positions:
whenever a node of `Z` is an argument of an operator, that position is blocked or all results of the
operator are again in `Z` -/
def BlockedSet (sk : Shape τ) (Z : Addr → Prop) : Prop :=
  ∀ (i : Nat) (kind : Kind τ) (args : List Addr) (rets : List Nat),
    sk[i]? = some (kind, args, rets) → ∀ sem, kind = .op sem →
    ∀ (j : Nat) (b : Addr), args[j]? = some b → Z b →
      NoContrib sem j ∨ ∀ j', j' < rets.length → Z ⟨i, j'⟩

/-- exact arithmetic: a backward rule fed with zero gradients contributes zeros -/
def ZeroPreserving (T : TOps τ) (sk : Shape τ) (Z : Addr → Prop) : Prop :=
  ∀ (i : Nat) (kind : Kind τ) (args : List Addr) (rets : List Nat),
    sk[i]? = some (kind, args, rets) → ∀ sem, kind = .op sem →
    (∀ j', j' < rets.length → Z ⟨i, j'⟩) →
    ∀ (xs ys : List τ) (j : Nat) (b : Addr) (c : τ), args[j]? = some b → Z b →
      (sem.bwd xs ys (rets.map fun r => T.zeros r))[j]? = some (some c) → c = T.zeros (shapeSize sk b)

/-- every node of `Z` has an invalid gradient or the exact zero of its size -/
def ZInv (T : TOps τ) (sk : Shape τ) (Z : Addr → Prop) (s : State τ) : Prop :=
  ∀ b, Z b → s.gradAt b = none ∨ s.gradAt b = some (T.zeros (shapeSize sk b))

theorem zeroFill_zinv (T : TOps τ) (Z : Addr → Prop) (s : State τ) (l : List Addr)
    (h : ZInv T s.shape Z s) : ZInv T s.shape Z (zeroFill T s l) := by
  intro b hb
  rw [gradAt_zeroFill]
  by_cases hm : b ∈ l
  · simp only [hm, if_true]
    cases hn : s.node? b with
    | none => left; rfl
    | some n =>
      right
      simp only [Option.map_some, shapeSize_node hn]
      have := h b hb
      simp only [State.gradAt, hn, Option.bind_some, shapeSize_node hn] at this
      rcases this with h0 | h0 <;> simp [h0]
  · simp only [hm, if_false]; exact h b hb

theorem accGrads_zero (T : TOps τ) (z : τ) (hzz : T.add z z = z) (b : Addr) (l : List (Addr × Option τ)) :
    ∀ (G : Addr → Option τ), (∀ c, (b, some c) ∈ l → c = z) → (G b = none ∨ G b = some z) →
      (accGrads T G l b = none ∨ accGrads T G l b = some z) := by
  induction l with
  | nil => intro G _ h; exact h
  | cons x rest ih =>
    intro G hl hG
    obtain ⟨a, c⟩ := x
    have hr : ∀ c, (b, some c) ∈ rest → c = z := fun c hc => hl c (List.mem_cons_of_mem _ hc)
    cases c with
    | none => exact ih G hr hG
    | some c =>
      simp only [accGrads]
      apply ih _ hr
      by_cases hba : b = a
      · subst hba
        have hc : c = z := hl c (by simp)
        simp only [if_true]
        rcases hG with h0 | h0
        · left; simp [h0]
        · right; simp [h0, hc, hzz]
      · simp only [hba, if_false]; exact hG

theorem gys_zero (T : TOps τ) (Z : Addr → Prop) {s : State τ} {k : Nat} {o : OpInfo τ}
    (ho : s.ops[k]? = some o) (h : ZInv T s.shape Z s) (hall : ∀ j', j' < o.rets.length → Z ⟨k, j'⟩) :
    o.gys T = (o.rets.map (·.size)).map fun r => T.zeros r := by
  unfold OpInfo.gys
  rw [List.map_map]
  apply List.map_congr_left
  intro n hn
  obtain ⟨j, hj⟩ := List.mem_iff_getElem?.mp hn
  have hjl : j < o.rets.length := (List.getElem?_eq_some_iff.mp hj).1
  have hnode : s.node? ⟨k, j⟩ = some n := by rw [ops_getElem?_node? ho]; exact hj
  have := h ⟨k, j⟩ (hall j hjl)
  simp only [State.gradAt, hnode, Option.bind_some, shapeSize_node hnode] at this
  rcases this with h0 | h0 <;> simp [h0]

theorem backwardStep_zinv (T : TOps τ) (hz : ∀ n x, T.add x (T.zeros n) = x) (Z : Addr → Prop) (k : Nat)
    (s : State τ) (hB : BlockedSet s.shape Z) (hP : ZeroPreserving T s.shape Z) (h : ZInv T s.shape Z s) :
    ZInv T s.shape Z (backwardStep T s k).1 := by
  rw [backwardStep_eq]
  cases ho : s.ops[k]? with
  | none => exact h
  | some o =>
    simp only
    by_cases he : (!o.enabled) = true
    · rw [if_pos he]; exact h
    · rw [if_neg he]
      have h1 := zeroFill_zinv T Z s (retAddrs k o) h
      cases hxs : o.args.mapM s.valueOf? with
      | none => exact h1
      | some xs =>
        simp only
        have hsk1 := shape_of_skel (zeroFill_sameFrame T (retAddrs k o) s).skel
        have h2 : ZInv T s.shape Z (zeroFill T (zeroFill T s (retAddrs k o)) o.args) := by
          have := zeroFill_zinv T Z (zeroFill T s (retAddrs k o)) o.args (by rw [hsk1]; exact h1)
          rw [hsk1] at this; exact this
        intro b hb
        rw [gradAt_invalidateGrads]
        by_cases hbk : b.oid = k
        · left; simp [hbk]
        · simp only [hbk, if_false]
          unfold stepCore
          cases hkind : o.kind with
          | param p => simp only; split <;> exact h2 b hb
          | rnd => exact h2 b hb
          | op sem =>
            simp only
            rw [gradAt_addContribs]
            apply accGrads_zero T _ (hz _ _) b _ _ _ (h2 b hb)
            intro c hc
            obtain ⟨j, hj⟩ := List.mem_iff_getElem?.mp hc
            rw [List.getElem?_zip_eq_some] at hj
            obtain ⟨hja, hjc⟩ := hj
            have hsk := shape_getElem? ho
            rcases hB k _ _ _ hsk sem hkind j b hja hb with hno | hall
            · exact absurd hjc (hno _ _ _ _)
            · have hall' : ∀ j', j' < o.rets.length → Z ⟨k, j'⟩ := fun j' hj' => hall j' (by simpa using hj')
              rw [gys_zero T Z ho h hall'] at hjc
              exact hP k _ _ _ hsk sem hkind hall xs o.ys j b c hja hb hjc

theorem backwardStep_pgrad_blocked (T : TOps τ) (hz : ∀ n x, T.add x (T.zeros n) = x) (Z : Addr → Prop)
    (k p : Nat) (s : State τ) (h : ZInv T s.shape Z s)
    (hp : ∀ i, s.kindAt i = some (.param p) → Z ⟨i, 0⟩) :
    (backwardStep T s k).1.params.grad p = s.params.grad p := by
  rw [backwardStep_eq]
  cases ho : s.ops[k]? with
  | none => rfl
  | some o =>
    simp only
    by_cases he : (!o.enabled) = true
    · rw [if_pos he]
    · rw [if_neg he]
      cases hxs : o.args.mapM s.valueOf? with
      | none => simp
      | some xs =>
        simp only [invalidateGrads_params]
        unfold stepCore
        cases hkind : o.kind with
        | rnd => simp
        | op sem => simp
        | param p' =>
          simp only
          cases hg : o.gys T with
          | nil => simp
          | cons g rest =>
            simp only [zeroFill_params]
            by_cases hpp : p = p'
            · subst hpp
              simp only [if_true]
              have hZ : Z ⟨k, 0⟩ := hp k (by simp [State.kindAt, ho, hkind])
              unfold OpInfo.gys at hg
              cases hr : o.rets with
              | nil => rw [hr] at hg; simp at hg
              | cons n rs =>
                rw [hr] at hg
                simp only [List.map_cons, List.cons.injEq] at hg
                have hnode : s.node? ⟨k, 0⟩ = some n := by rw [ops_getElem?_node? ho, hr]; rfl
                have := h ⟨k, 0⟩ hZ
                simp only [State.gradAt, hnode, Option.bind_some, shapeSize_node hnode] at this
                rw [← hg.1]
                rcases this with h0 | h0 <;> simp [h0, hz]
            · simp [hpp]

theorem sweep_pgrad_blocked (T : TOps τ) (hz : ∀ n x, T.add x (T.zeros n) = x) (Z : Addr → Prop)
    (p : Nat) (k : Nat) (s : State τ) (hB : BlockedSet s.shape Z) (hP : ZeroPreserving T s.shape Z)
    (h : ZInv T s.shape Z s) (hp : ∀ i, s.kindAt i = some (.param p) → Z ⟨i, 0⟩) :
    (sweep T k s).1.params.grad p = s.params.grad p := by
  have := sweep_inv T
    (fun s' => s'.skel = s.skel ∧ ZInv T s.shape Z s' ∧ s'.params.grad p = s.params.grad p)
    (fun k s' ⟨hsk, hzi, hg⟩ => by
      have hf := backwardStep_sameFrame T s' k
      have hsh := shape_of_skel hsk
      refine ⟨hf.skel.trans hsk, ?_, ?_⟩
      · have := backwardStep_zinv T hz Z k s' (hsh ▸ hB) (hsh ▸ hP) (hsh ▸ hzi)
        rw [hsh] at this; exact this
      · rw [← hg]
        exact backwardStep_pgrad_blocked T hz Z k p s' (hsh ▸ hzi) (by rw [kindAt_of_skel hsk]; exact hp))
    k s ⟨rfl, h, rfl⟩
  exact this.2.2

theorem zinv_seed (T : TOps τ) (Z : Addr → Prop) (s : State τ) (a : Addr) (hg : AllGradsInvalid s)
    (ha : ¬ Z a) : ZInv T (seed T s a).shape Z (seed T s a) := by
  intro b hb
  left
  rw [gradAt_seed]
  have : b ≠ a := fun e => ha (e ▸ hb)
  simp [this, hg b]

/-- exact arithmetic: a parameter all of whose Parameter nodes lie in a blocked set keeps its gradient value -/
theorem backward_pgrad_blocked (T : TOps τ) (hz : ∀ n x, T.add x (T.zeros n) = x) (Z : Addr → Prop)
    (s : State τ) (a : Addr) (p : Nat) (hg : AllGradsInvalid s) (ha : ¬ Z a)
    (hB : BlockedSet s.shape Z) (hP : ZeroPreserving T s.shape Z)
    (hp : ∀ i, s.kindAt i = some (.param p) → Z ⟨i, 0⟩) :
    (backward T s a).1.params.grad p = s.params.grad p := by
  rw [backward_eq]
  split
  · rfl
  · have hf := fwdPhase_fwdFrame T s a
    rcases hph : fwdPhase T s a with ⟨s1, r⟩
    rw [hph] at hf
    cases r with
    | error e => simp only; rw [hf.params]
    | ok u =>
      cases u
      simp only at hf ⊢
      have hg1 : AllGradsInvalid s1 := fun b => by rw [gskel_gradAt hf.gskel]; exact hg b
      have hsf := seed_sameFrame T s1 a
      have hsh : (seed T s1 a).shape = s.shape := (shape_of_skel hsf.skel).trans (shape_of_gskel hf.gskel)
      have hkind : (seed T s1 a).kindAt = s.kindAt := (kindAt_of_skel hsf.skel).trans (kindAt_of_gskel hf.gskel)
      rw [sweep_pgrad_blocked T hz Z p _ _ (hsh ▸ hB) (hsh ▸ hP) (zinv_seed T Z s1 a hg1 ha)
        (by rw [hkind]; exact hp)]
      simp [hf.params]


/-! ### histories -/

/-- the operations of a history on one graph and the parameters it uses -/
inductive Cmd (τ : Type) where
  | addOp (kind : Kind τ) (args : List Addr) (sizes : List Nat)
  | forward (a : Addr)
  | backward (a : Addr)
  /-- optimizer update, `Parameter::load`, … -/
  | setValue (p : Nat) (v : τ)
  /-- `reset_gradient`, or any other write to a parameter gradient from outside -/
  | setGrad (p : Nat) (g : τ)
  /-- fault-injection schedule of the harness -/
  | schedule (f : Option Nat)

/-- one operation; `none`: the process aborted (`CHECK_NODE`) or `backward` threw -/
def Cmd.run (T : TOps τ) (s : State τ) : Cmd τ → Option (State τ)
  | .addOp kind args sizes =>
    match addOperator s kind args sizes with
    | .ok (s', _) => some s'
    | .error _ => none
  | .forward a => some (Primitiv.Graph.forward T s a).1
  | .backward a =>
    match Primitiv.Graph.backward T s a with
    | (s', .ok ()) => some s'
    | (_, .error _) => none
  | .setValue p v => some { s with params := { s.params with value := fun q => if q = p then v else s.params.value q } }
  | .setGrad p g => some { s with params := { s.params with grad := fun q => if q = p then g else s.params.grad q } }
  | .schedule f => some { s with failIn := f }

def runHist (T : TOps τ) : State τ → List (Cmd τ) → Option (State τ)
  | s, [] => some s
  | s, c :: rest =>
    match c.run T s with
    | some s' => runHist T s' rest
    | none => none

/-- the invariant that makes backward passes independent of each other -/
def GInv (s : State τ) : Prop := AllGradsInvalid s ∧ ArgsBelow s

theorem validAddr_lt {s : State τ} {a : Addr} (h : s.validAddr a = true) : a.oid < s.ops.length := by
  unfold State.validAddr at h
  cases ho : s.ops[a.oid]? with
  | none => rw [ho] at h; cases h
  | some o => exact (List.getElem?_eq_some_iff.mp ho).1

theorem addOperator_ginv (s s' : State τ) (kind : Kind τ) (args : List Addr) (sizes : List Nat) (i : Nat)
    (h : GInv s) (hr : addOperator s kind args sizes = .ok (s', i)) : GInv s' := by
  unfold addOperator at hr
  split at hr
  · rename_i hall
    cases hr
    constructor
    · intro a
      unfold State.gradAt State.node?
      simp only
      by_cases hlt : a.oid < s.ops.length
      · rw [List.getElem?_append_left hlt]
        exact h.1 a
      · rw [List.getElem?_append_right (by omega)]
        cases hi : ([({ kind := kind, args := args, rets := sizes.map fun n => ({ size := n } : NodeInfo τ) } : OpInfo τ)])[a.oid - s.ops.length]? with
        | none => rfl
        | some o =>
          have : a.oid - s.ops.length = 0 := by
            have := (List.getElem?_eq_some_iff.mp hi).1; simpa using this
          rw [this] at hi
          simp only [List.getElem?_cons_zero, Option.some.injEq] at hi
          subst hi
          simp only [List.getElem?_map]
          cases sizes[a.vid]? <;> rfl
    · intro j o ho b hb
      simp only at ho
      by_cases hlt : j < s.ops.length
      · rw [List.getElem?_append_left hlt] at ho
        exact h.2 j o ho b hb
      · rw [List.getElem?_append_right (by omega)] at ho
        have hj : j - s.ops.length = 0 := by
          have := (List.getElem?_eq_some_iff.mp ho).1; simpa using this
        rw [hj] at ho
        simp only [List.getElem?_cons_zero, Option.some.injEq] at ho
        subst ho
        have := validAddr_lt (List.all_eq_true.mp hall b hb)
        omega
  · cases hr

theorem backward_argsBelow (T : TOps τ) (s : State τ) (a : Addr) (h : ArgsBelow s) :
    ArgsBelow (backward T s a).1 := by
  rw [backward_eq]
  split
  · exact h
  · have hf := fwdPhase_fwdFrame T s a
    rcases hph : fwdPhase T s a with ⟨s1, r⟩
    rw [hph] at hf
    have h1 := argsBelow_of_gskel hf.gskel h
    cases r with
    | error e => exact h1
    | ok u =>
      cases u
      exact argsBelow_of_skel ((seed_sameFrame T s1 a).trans (sweep_sameFrame T _ _)).skel h1

theorem Cmd.run_ginv (T : TOps τ) (s s' : State τ) (c : Cmd τ) (h : GInv s) (hr : c.run T s = some s') :
    GInv s' := by
  cases c with
  | addOp kind args sizes =>
    simp only [Cmd.run] at hr
    cases hres : addOperator s kind args sizes with
    | error e => rw [hres] at hr; cases hr
    | ok r =>
      obtain ⟨s'', i⟩ := r
      rw [hres] at hr
      simp only [Option.some.injEq] at hr
      subst hr
      exact addOperator_ginv s s'' kind args sizes i h hres
  | forward a =>
    simp only [Cmd.run, Option.some.injEq] at hr
    subst hr
    have hf := forward_fwdFrame T s a
    exact ⟨fun b => by rw [gskel_gradAt hf.gskel]; exact h.1 b, argsBelow_of_gskel hf.gskel h.2⟩
  | backward a =>
    simp only [Cmd.run] at hr
    rcases hb : Primitiv.Graph.backward T s a with ⟨s1, r⟩
    rw [hb] at hr
    cases r with
    | error e => cases hr
    | ok u =>
      cases u
      simp only [Option.some.injEq] at hr
      subst hr
      refine ⟨backward_allGradsInvalid T s s1 a h.1 h.2 hb, ?_⟩
      have := backward_argsBelow T s a h.2
      rw [hb] at this; exact this
  | setValue p v => simp only [Cmd.run, Option.some.injEq] at hr; subst hr; exact h
  | setGrad p g => simp only [Cmd.run, Option.some.injEq] at hr; subst hr; exact h
  | schedule f => simp only [Cmd.run, Option.some.injEq] at hr; subst hr; exact h

theorem runHist_ginv (T : TOps τ) (hist : List (Cmd τ)) : ∀ (s s' : State τ), GInv s →
    runHist T s hist = some s' → GInv s' := by
  induction hist with
  | nil => intro s s' h hr; simp only [runHist, Option.some.injEq] at hr; subst hr; exact h
  | cons c rest ih =>
    intro s s' h hr
    simp only [runHist] at hr
    cases hc : c.run T s with
    | none => rw [hc] at hr; cases hr
    | some s1 =>
      rw [hc] at hr
      exact ih s1 s' (Cmd.run_ginv T s s1 c h hc) hr

/-- a new graph -/
def emptyGraph (params : Params τ) (sample : Nat → Nat → τ) : State τ :=
  { ops := [], params := params, sample := sample }

theorem emptyGraph_ginv (params : Params τ) (sample : Nat → Nat → τ) : GInv (emptyGraph params sample) := by
  constructor
  · intro a; rfl
  · intro i o ho; cases ho


/-! ### decidable forms of the hypotheses, for concrete states -/

def State.gradsInvalidB (s : State τ) : Bool := s.ops.all fun o => o.rets.all fun n => n.grad.isNone

def State.argsBelowB (s : State τ) : Bool := s.ops.zipIdx.all fun x => x.1.args.all fun a => decide (a.oid < x.2)

theorem allGradsInvalid_of_B {s : State τ} (h : s.gradsInvalidB = true) : AllGradsInvalid s := by
  intro a
  unfold State.gradAt State.node?
  cases ho : s.ops[a.oid]? with
  | none => rfl
  | some o =>
    simp only
    cases hn : o.rets[a.vid]? with
    | none => rfl
    | some n =>
      simp only [State.gradsInvalidB, List.all_eq_true] at h
      have := h o (List.mem_iff_getElem?.mpr ⟨_, ho⟩) n (List.mem_iff_getElem?.mpr ⟨_, hn⟩)
      simpa using this

theorem argsBelow_of_B {s : State τ} (h : s.argsBelowB = true) : ArgsBelow s := by
  intro i o ho a ha
  simp only [State.argsBelowB, List.all_eq_true] at h
  have hm : (o, i) ∈ s.ops.zipIdx := by
    apply List.mem_iff_getElem?.mpr
    exact ⟨i, by simp [List.getElem?_zipIdx, ho]⟩
  have := h (o, i) hm a ha
  simpa using this

/-! ### a concrete graph for the examples: `y = x * x`, one parameter, integer "tensors" -/

def TInt : TOps Int := { zeros := fun _ => 0, ones := fun _ => 1, add := (· + ·) }

def mulSem : OpSem Int where
  nret := 1
  fwd := fun xs => match xs with | [x, y] => some [x * y] | _ => none
  bwd := fun xs _ gys => match xs, gys with
    | [x, y], [g] => [some (g * y), some (g * x)]
    | _, _ => []

/-- operator 0: Parameter 0; operator 1: `n0 * n0`; parameter value 3, prior gradient 10 -/
def exSquare : State Int where
  ops := [ { kind := .param 0, args := [], rets := [{ size := 1 }] },
           { kind := .op mulSem, args := [⟨0, 0⟩, ⟨0, 0⟩], rets := [{ size := 1 }] } ]
  params := { value := fun _ => 3, grad := fun _ => 10 }
  sample := fun _ _ => 0

example : exSquare.gradsInvalidB = true := by decide
example : exSquare.argsBelowB = true := by decide
example : (backward TInt exSquare ⟨1, 0⟩).2 = .ok () := by rfl
example : (backward TInt exSquare ⟨1, 0⟩).1.params.grad 0 = 16 := by rfl
example : (backward TInt exSquare ⟨1, 0⟩).1.params.grad 0 = 16 := by decide


/-! ### a concrete graph with a blocked path: `y = stop_gradient(p0) + p1` -/

/-- `stop_gradient`: identity forward, `BACKWARD_NOP` -/
def stopSem : OpSem τ where
  nret := 1
  fwd := fun xs => match xs with | [x] => some [x] | _ => none
  bwd := fun _ _ _ => [none]

/-- `a + b`: the backward rule adds `gy` into both argument gradients -/
def addSem (T : TOps τ) : OpSem τ where
  nret := 1
  fwd := fun xs => match xs with | [x, y] => some [T.add x y] | _ => none
  bwd := fun _ _ gys => match gys with | [g] => [some g, some g] | _ => []

/-- operator 0: Parameter 0; 1: `stop_gradient(n0)`; 2: Parameter 1; 3: `n1 + n2` -/
def exBlocked (T : TOps τ) (v g : τ) : State τ where
  ops := [ { kind := .param 0, args := [], rets := [{ size := 1 }] },
           { kind := .op stopSem, args := [⟨0, 0⟩], rets := [{ size := 1 }] },
           { kind := .param 1, args := [], rets := [{ size := 1 }] },
           { kind := .op (addSem T), args := [⟨1, 0⟩, ⟨2, 0⟩], rets := [{ size := 1 }] } ]
  params := { value := fun _ => v, grad := fun _ => g }
  sample := fun _ _ => v

theorem exBlocked_kindAt (T : TOps τ) (v g : τ) (i : Nat) (h : (exBlocked T v g).kindAt i = some (.param 0)) :
    i = 0 := by
  match i, h with
  | 0, _ => rfl
  | 1, h => simp [State.kindAt, exBlocked] at h
  | 2, h => simp [State.kindAt, exBlocked] at h
  | 3, h => simp [State.kindAt, exBlocked] at h
  | i + 4, h => simp [State.kindAt, exBlocked] at h

theorem exBlocked_blockedSet (T : TOps τ) (v g : τ) :
    BlockedSet (exBlocked T v g).shape (fun b => b = ⟨0, 0⟩) := by
  intro i kind args rets h sem hk j b hj hb
  subst hb
  match i, h with
  | 0, h =>
    simp [State.shape, exBlocked] at h
    obtain ⟨_, rfl, _⟩ := h
    simp at hj
  | 1, h =>
    simp [State.shape, exBlocked] at h
    obtain ⟨rfl, rfl, _⟩ := h
    left
    cases hk
    have : j = 0 := by
      cases j with
      | zero => rfl
      | succ j => simp at hj
    subst this
    intro xs ys gys c
    simp [stopSem]
  | 2, h =>
    simp [State.shape, exBlocked] at h
    obtain ⟨_, rfl, _⟩ := h
    simp at hj
  | 3, h =>
    simp [State.shape, exBlocked] at h
    obtain ⟨_, rfl, _⟩ := h
    match j, hj with
    | 0, hj => simp at hj
    | 1, hj => simp at hj
    | j + 2, hj => simp at hj
  | i + 4, h => simp [State.shape, exBlocked] at h

theorem exBlocked_zeroPreserving (T : TOps τ) (v g : τ) :
    ZeroPreserving T (exBlocked T v g).shape (fun b => b = ⟨0, 0⟩) := by
  intro i kind args rets h sem hk hall xs ys j b c hj hb hc
  match i, h with
  | 0, h =>
    simp [State.shape, exBlocked] at h
    obtain ⟨rfl, _, _⟩ := h
    cases hk
  | 1, h =>
    simp [State.shape, exBlocked] at h
    obtain ⟨_, _, rfl⟩ := h
    have := hall 0 (by simp)
    simp at this
  | 2, h =>
    simp [State.shape, exBlocked] at h
    obtain ⟨rfl, _, _⟩ := h
    cases hk
  | 3, h =>
    simp [State.shape, exBlocked] at h
    obtain ⟨_, _, rfl⟩ := h
    have := hall 0 (by simp)
    simp at this
  | i + 4, h => simp [State.shape, exBlocked] at h

/-- gradients that count the `+=` executed on them -/
def TCount : TOps Nat := { zeros := fun _ => 0, ones := fun _ => 0, add := fun g _ => g + 1 }

example : (backward TCount (exBlocked TCount 0 0) ⟨3, 0⟩).1.params.grad 0 = 1 := by decide
example : (backward TInt (exBlocked TInt 3 10) ⟨3, 0⟩).1.params.grad 0 = 10 := by decide
example : (backward TInt (exBlocked TInt 3 10) ⟨3, 0⟩).1.params.grad 1 = 11 := by decide


/-! ### operators after the target: the forward phase -/

theorem appendOps_storeValues (s : State τ) (e : List (OpInfo τ)) (k : Nat) (vals : List τ)
    (h : k < s.ops.length) : (s.appendOps e).storeValues k vals = (s.storeValues k vals).appendOps e := by
  unfold State.storeValues
  rw [appendOps_getElem? s e h]
  cases s.ops[k]? with
  | none => rfl
  | some o => simp [State.appendOps, h]

theorem appendOps_applyOp (e : List (OpInfo τ)) (s1 : State τ) (a : Addr) (kind : Kind τ) (n : NodeInfo τ)
    (xs : List τ) (h : a.oid < s1.ops.length) :
    applyOp (s1.appendOps e) a kind n xs = ((applyOp s1 a kind n xs).1.appendOps e, (applyOp s1 a kind n xs).2) := by
  simp only [applyOp]
  have hfail : (s1.appendOps e).failIn = s1.failIn := rfl
  rw [hfail]
  have hcore : ∀ s : State τ, a.oid < s.ops.length → applyOpCore (s.appendOps e) a kind n xs
      = ((applyOpCore s a kind n xs).1.appendOps e, (applyOpCore s a kind n xs).2) := by
    intro s hs
    unfold applyOpCore
    cases kind with
    | param p => rfl
    | rnd =>
      simp only
      have := appendOps_storeValues { s with rndPos := s.rndPos + 1, log := s.log ++ [a.oid] } e a.oid
        [s.sample s.rndPos n.size] hs
      rw [← this]; rfl
    | op sem =>
      simp only
      cases sem.fwd xs with
      | none => rfl
      | some ys =>
        simp only
        have := appendOps_storeValues { s with log := s.log ++ [a.oid] } e a.oid ys hs
        cases ys[a.vid]? <;> (simp only; rw [← this]; rfl)
  split
  · rfl
  · rename_i fi _
    have : (if opFaulty kind = true then { s1.appendOps e with failIn := Option.map (fun x => x - 1) (if opFaulty kind = true then s1.failIn else none) } else s1.appendOps e)
        = (if opFaulty kind = true then { s1 with failIn := Option.map (fun x => x - 1) (if opFaulty kind = true then s1.failIn else none) } else s1).appendOps e := by
      split <;> rfl
    rw [this, hcore]
    split <;> exact h

/-- evaluating a list of arguments below `bound` commutes with appending operators, when the
evaluator does (on states of at least `bound` operators with arguments below) -/
theorem appendOps_forwardArgsWith (e : List (OpInfo τ)) (bound : Nat)
    (ev : State τ → Addr → State τ × Except Err τ)
    (hev : ∀ (s : State τ) (a : Addr), bound ≤ s.ops.length → ArgsBelow s → a.oid < bound →
      ev (s.appendOps e) a = ((ev s a).1.appendOps e, (ev s a).2))
    (hfr : ∀ s a, FwdFrame s (ev s a).1) :
    ∀ (l : List Addr) (s : State τ), bound ≤ s.ops.length → ArgsBelow s → (∀ a ∈ l, a.oid < bound) →
      forwardArgsWith ev (s.appendOps e) l =
        ((forwardArgsWith ev s l).1.appendOps e, (forwardArgsWith ev s l).2) := by
  intro l
  induction l with
  | nil => intro s _ _ _; rfl
  | cons a rest ih =>
    intro s hb hw hl
    simp only [forwardArgsWith]
    rw [hev s a hb hw (hl a (by simp))]
    have hf := hfr s a
    rcases hev' : ev s a with ⟨s1, r⟩
    rw [hev'] at hf
    cases r with
    | error e => rfl
    | ok v =>
      simp only at hf ⊢
      rw [ih s1 (by rw [gskel_length hf.gskel]; exact hb) (argsBelow_of_gskel hf.gskel hw)
        (fun b hb' => hl b (by simp [hb']))]
      rcases forwardArgsWith ev s1 rest with ⟨s2, r2⟩
      cases r2 <;> rfl

theorem appendOps_forwardRec (T : TOps τ) (e : List (OpInfo τ)) : ∀ (fuel : Nat) (s : State τ) (a : Addr),
    a.oid < s.ops.length → ArgsBelow s →
    forwardRec T fuel (s.appendOps e) a = ((forwardRec T fuel s a).1.appendOps e, (forwardRec T fuel s a).2) := by
  intro fuel
  induction fuel with
  | zero => intro s a _ _; rfl
  | succ fuel ih =>
    intro s a ha hw
    simp only [forwardRec_succ]
    rw [appendOps_getElem? s e ha]
    have hpv : (s.appendOps e).params.value = s.params.value := rfl
    rw [hpv]
    cases ho : s.ops[a.oid]? with
    | none => rfl
    | some o =>
      simp only
      have key : (match o.rets[a.vid]? with
          | none => (s.appendOps e, Except.error Err.crash)
          | some n =>
            match n.value with
            | some v => (s.appendOps e, Except.ok v)
            | none =>
              match forwardArgsWith (forwardRec T fuel) (s.appendOps e) o.args with
              | (s1, Except.error e) => (s1, Except.error e)
              | (s1, Except.ok xs) => applyOp s1 a o.kind n xs)
          = (State.appendOps (match o.rets[a.vid]? with
          | none => (s, Except.error Err.crash)
          | some n =>
            match n.value with
            | some v => (s, Except.ok v)
            | none =>
              match forwardArgsWith (forwardRec T fuel) s o.args with
              | (s1, Except.error e) => (s1, Except.error e)
              | (s1, Except.ok xs) => applyOp s1 a o.kind n xs).1 e,
            (match o.rets[a.vid]? with
          | none => (s, Except.error Err.crash)
          | some n =>
            match n.value with
            | some v => (s, Except.ok v)
            | none =>
              match forwardArgsWith (forwardRec T fuel) s o.args with
              | (s1, Except.error e) => (s1, Except.error e)
              | (s1, Except.ok xs) => applyOp s1 a o.kind n xs).2) := by
        cases o.rets[a.vid]? with
        | none => rfl
        | some n =>
          simp only
          cases n.value with
          | some v => rfl
          | none =>
            simp only
            have h2 := appendOps_forwardArgsWith e a.oid (forwardRec T fuel)
              (fun s' b hb' hw' hb => ih s' b (Nat.lt_of_lt_of_le hb hb') hw')
              (forwardRec_fwdFrame T fuel) o.args s (Nat.le_of_lt ha) hw (hw a.oid o ho)
            rw [h2]
            have hf := forwardArgsWith_rel FwdFrame FwdFrame.refl (fun _ _ _ => FwdFrame.trans)
              (forwardRec T fuel) (forwardRec_fwdFrame T fuel) o.args s
            rcases hfa : forwardArgsWith (forwardRec T fuel) s o.args with ⟨s1, r⟩
            rw [hfa] at hf
            cases r with
            | error e => rfl
            | ok xs =>
              simp only at hf ⊢
              exact appendOps_applyOp e s1 a o.kind n xs (by rw [gskel_length hf.gskel]; exact ha)
      cases hk : o.kind with
      | param p => simp only; split <;> rfl
      | rnd => rw [hk] at key; exact key
      | op sem => rw [hk] at key; exact key

theorem appendOps_validAddr (s : State τ) (e : List (OpInfo τ)) (a : Addr) (h : s.validAddr a = true) :
    (s.appendOps e).validAddr a = true := by
  unfold State.validAddr
  rw [appendOps_getElem? s e (validAddr_lt h)]
  exact h

theorem appendOps_node (s : State τ) (e : List (OpInfo τ)) (a : Addr) (h : a.oid < s.ops.length) :
    (s.appendOps e).node? a = s.node? a := by
  unfold State.node?
  rw [appendOps_getElem? s e h]

/-- operators created after the target do not influence `backward` and are not touched by it -/
theorem appendOps_backward (T : TOps τ) (e : List (OpInfo τ)) (s : State τ) (a : Addr)
    (hv : s.validAddr a = true) (hw : ArgsBelow s) :
    backward T (s.appendOps e) a = ((backward T s a).1.appendOps e, (backward T s a).2) := by
  have hlt := validAddr_lt hv
  simp only [backward_eq]
  rw [appendOps_validAddr s e a hv, hv]
  simp only [Bool.not_true, Bool.false_eq_true, if_false]
  have hfp : fwdPhase T (s.appendOps e) a = ((fwdPhase T s a).1.appendOps e, (fwdPhase T s a).2) := by
    unfold fwdPhase
    rw [appendOps_node s e a hlt]
    cases s.node? a with
    | none => rfl
    | some n =>
      simp only
      split
      · rfl
      · have : forward T (s.appendOps e) a = ((forward T s a).1.appendOps e, (forward T s a).2) := by
          unfold forward
          rw [if_pos (appendOps_validAddr s e a hv), if_pos hv]
          exact appendOps_forwardRec T e _ s a hlt hw
        rw [this]
        rcases forward T s a with ⟨s1, r⟩
        cases r <;> rfl
  rw [hfp]
  have hf := fwdPhase_fwdFrame T s a
  rcases hfp' : fwdPhase T s a with ⟨s1, r⟩
  rw [hfp'] at hf
  cases r with
  | error e => rfl
  | ok u =>
    cases u
    simp only at hf ⊢
    have hlen : s1.ops.length = s.ops.length := gskel_length hf.gskel
    have hseed : seed T (s1.appendOps e) a = (seed T s1 a).appendOps e :=
      appendOps_updNode s1 e a _ (by rw [hlen]; exact hlt)
    rw [hseed]
    have hsf := seed_sameFrame T s1 a
    exact appendOps_sweep T e _ _ (by rw [skel_length hsf.skel, hlen]; omega)
      (argsBelow_of_skel hsf.skel (argsBelow_of_gskel hf.gskel hw))

end Primitiv.Graph
