import Mathlib.Analysis.Calculus.Deriv.Add
import Mathlib.Analysis.Calculus.Deriv.Mul
import Mathlib.Analysis.Calculus.Deriv.Comp
import PrimitivModel.Lemmas.SweepAdjoint
import PrimitivModel.Lemmas.GraphForward
/-!
The multivariate chain rule over the DAG of `Model/Graph.lean`, in curve (directional derivative)
form over ℝ (C01, T5).  Statements with the hypotheses spelled out: Props/C01/Chain.lean.

* `State.valAt`: the value a consumer sees at an address (0 if there is none);
* `CurveLawAt sem ns ms jvp x0`: the operator `sem` is differentiable at the argument values `x0`
  along every curve, with directional derivative `jvp x0 T` (`ns`, `ms`: argument and return sizes);
* `AdjointLawAt sem ns ms jvp xs ys`: `sem.bwd` is the transpose of `jvp xs`;
* `tanRow` / `fwdTangent`: forward-mode tangents, by recursion over operator ids;
* `tangent_hasDerivAt`: along a family of evaluated states `S ε` of one graph the node values are
  differentiable at `ε = 0` with derivative `fwdTangent`;
* `chain_adjointHyps`: `fwdTangent` satisfies the hypotheses of `backward_adjoint_of_hyps`;
* `elemUnary`, `mulSem` and their laws;
* `forwardFamily_*`: the family obtained by running `forward` at every `ε` satisfies the hypotheses.
-/

namespace Primitiv.Graph
open Finset

/-! ### values, sizes, shapes -/

/-- the value a consumer sees at `b` (`valueOf?`), 0 if there is none -/
def State.valAt (s : State (Vec ℝ)) (b : Addr) : Vec ℝ := (s.valueOf? b).getD fun _ => 0

theorem mapM_eq_map_getD {α β} (f : α → Option β) (d : β) :
    ∀ (l : List α) (xs : List β), l.mapM f = some xs → xs = l.map fun a => (f a).getD d := by
  intro l
  induction l with
  | nil => intro xs h; simpa using h.symm
  | cons a rest ih =>
    intro xs h
    simp only [List.mapM_cons, Option.bind_eq_bind] at h
    cases h1 : f a with
    | none => simp [h1] at h
    | some b =>
      simp only [h1, Option.bind_some] at h
      cases h2 : rest.mapM f with
      | none => simp [h2] at h
      | some bs =>
        simp only [h2, Option.bind_some] at h
        have := ih bs h2
        have hx : xs = b :: bs := by simpa using h.symm
        rw [hx, this]
        simp [h1]

theorem mapM_valueOf_eq_valAt {s : State (Vec ℝ)} {l : List Addr} {xs : List (Vec ℝ)}
    (h : l.mapM s.valueOf? = some xs) : xs = l.map s.valAt :=
  mapM_eq_map_getD s.valueOf? (fun _ => 0) l xs h

theorem getD_map_of_lt {α β} (f : α → β) (l : List α) (k : Nat) (d : β) (hk : k < l.length) :
    (l.map f).getD k d = f l[k] := by
  simp [List.getD, List.getElem?_map, List.getElem?_eq_getElem hk]

/-- what equal shapes say about one operator -/
theorem shape_op {τ : Type} {s s' : State τ} (h : s'.shape = s.shape) {k : Nat} {o : OpInfo τ}
    (ho : s.ops[k]? = some o) :
    ∃ o', s'.ops[k]? = some o' ∧ o'.kind = o.kind ∧ o'.args = o.args ∧
      o'.rets.map (·.size) = o.rets.map (·.size) := by
  have h1 := congrArg (fun l => l[k]?) h
  simp only [shape_getElem? ho] at h1
  cases ho' : s'.ops[k]? with
  | none => simp [State.shape, List.getElem?_map, ho'] at h1
  | some o' =>
    rw [shape_getElem? ho'] at h1
    simp only [Option.some.injEq, Prod.mk.injEq] at h1
    exact ⟨o', rfl, h1.1, h1.2.1, h1.2.2⟩

theorem sizeAt_of_shape {τ : Type} {s s' : State τ} (h : s'.shape = s.shape) : s'.sizeAt = s.sizeAt := by
  funext b; unfold State.sizeAt; rw [h]

/-- a node of positive size exists -/
theorem node_of_sizeAt_pos {τ : Type} {s : State τ} {b : Addr} {i : Nat} (h : i < s.sizeAt b) :
    ∃ o n, s.ops[b.oid]? = some o ∧ o.rets[b.vid]? = some n ∧ s.sizeAt b = n.size := by
  cases ho : s.ops[b.oid]? with
  | none =>
    simp [State.sizeAt, shapeSize, State.shape, List.getElem?_map, ho] at h
  | some o =>
    cases hn : o.rets[b.vid]? with
    | none =>
      simp [State.sizeAt, shapeSize, shape_getElem? ho, List.getElem?_map, hn] at h
    | some n =>
      refine ⟨o, n, rfl, hn, ?_⟩
      apply sizeAt_node
      simp [State.node?, ho, hn]

theorem sizes_getD {τ : Type} {o : OpInfo τ} {j : Nat} {n : NodeInfo τ} (hn : o.rets[j]? = some n) :
    (o.rets.map (·.size)).getD j 0 = n.size := by
  simp [List.getD, List.getElem?_map, hn]

theorem sizeAt_eq_getD {τ : Type} {s : State τ} {k j : Nat} {o : OpInfo τ} (ho : s.ops[k]? = some o) :
    s.sizeAt ⟨k, j⟩ = (o.rets.map (·.size)).getD j 0 := by
  unfold State.sizeAt shapeSize
  simp only [shape_getElem? ho, List.getD]
  cases (o.rets.map (·.size))[j]? <;> rfl

/-! ### the value of a node of each kind -/

theorem valAt_param {s : State (Vec ℝ)} {k : Nat} {o : OpInfo (Vec ℝ)} {p : Nat}
    (ho : s.ops[k]? = some o) (hk : o.kind = .param p) (j : Nat) :
    s.valAt ⟨k, j⟩ = if j = 0 then s.params.value p else fun _ => 0 := by
  unfold State.valAt State.valueOf?
  simp only [ho, hk]
  split <;> rfl

theorem valueOf?_op {s : State (Vec ℝ)} {k : Nat} {o : OpInfo (Vec ℝ)} {sem : OpSem (Vec ℝ)}
    (ho : s.ops[k]? = some o) (hk : o.kind = .op sem) (j : Nat) :
    s.valueOf? ⟨k, j⟩ = (o.rets[j]?).bind (·.value) := by
  unfold State.valueOf?
  simp only [ho, hk]
  cases o.rets[j]? <;> rfl

theorem valueOf?_rnd {s : State (Vec ℝ)} {k : Nat} {o : OpInfo (Vec ℝ)}
    (ho : s.ops[k]? = some o) (hk : o.kind = .rnd) (j : Nat) :
    s.valueOf? ⟨k, j⟩ = (o.rets[j]?).bind (·.value) := by
  unfold State.valueOf?
  simp only [ho, hk]
  cases o.rets[j]? <;> rfl

/-! ### the two laws of an operator -/

/-- Jacobian-vector product of an operator: argument values ↦ argument tangents ↦ tangents of
the return values -/
abbrev Jvp := List (Vec ℝ) → List (Vec ℝ) → List (Vec ℝ)

/-- **Curve law** of `sem` at the argument values `x0`: for every curve `X` of argument lists
through `x0` whose components (`i <` size of the argument) are differentiable at 0 with
derivatives `T`, and along which `sem.fwd` succeeds with results `Y`, every component of every
return value is differentiable at 0, with derivative the component of `jvp x0 T`. -/
def CurveLawAt (sem : OpSem (Vec ℝ)) (ns ms : List Nat) (jvp : Jvp) (x0 : List (Vec ℝ)) : Prop :=
  ∀ (X : ℝ → List (Vec ℝ)) (T : List (Vec ℝ)) (Y : ℝ → List (Vec ℝ)),
    X 0 = x0 → (∀ ε, (X ε).length = ns.length) → T.length = ns.length →
    (∀ k, k < ns.length → ∀ i, i < ns.getD k 0 →
      HasDerivAt (fun ε => (X ε).getD k (fun _ => 0) i) (T.getD k (fun _ => 0) i) 0) →
    (∀ ε, sem.fwd (X ε) = some (Y ε)) →
    ∀ j, j < ms.length → ∀ i, i < ms.getD j 0 →
      HasDerivAt (fun ε => (Y ε).getD j (fun _ => 0) i) ((jvp x0 T).getD j (fun _ => 0) i) 0

/-- `Σ_k ⟪c_k, t_k⟫` over argument sizes, argument tangents and the contributions of a backward
rule (a `none` contribution counting as 0) -/
def listContrib : List Nat → List (Vec ℝ) → List (Option (Vec ℝ)) → ℝ
  | n :: ns, t :: ts, some c :: cs => dot n c t + listContrib ns ts cs
  | _ :: ns, _ :: ts, none :: cs => listContrib ns ts cs
  | _, _, _ => 0

/-- **Adjoint law** of `sem` at argument values `xs` and return values `ys`: for all return
gradients `gys` and argument tangents `ts`,
`Σ_k ⟪(sem.bwd xs ys gys)_k, ts_k⟫ = Σ_j ⟪gys_j, (jvp xs ts)_j⟫`. -/
def AdjointLawAt (sem : OpSem (Vec ℝ)) (ns ms : List Nat) (jvp : Jvp) (xs ys : List (Vec ℝ)) : Prop :=
  ∀ gys ts : List (Vec ℝ), gys.length = ms.length → ts.length = ns.length →
    listContrib ns ts (sem.bwd xs ys gys)
      = ∑ j ∈ range ms.length, dot (ms.getD j 0) (gys.getD j fun _ => 0) ((jvp xs ts).getD j fun _ => 0)

theorem contribSum_eq_listContrib (size : Addr → Nat) (t : Addr → Vec ℝ) :
    ∀ (args : List Addr) (cs : List (Option (Vec ℝ))),
      contribSum size t (args.zip cs) = listContrib (args.map size) (args.map t) cs := by
  intro args
  induction args with
  | nil => intro cs; simp [contribSum, listContrib]
  | cons a rest ih =>
    intro cs
    cases cs with
    | nil => simp [contribSum, listContrib]
    | cons c cs =>
      cases c with
      | none => simp only [List.zip_cons_cons, contribSum, List.map_cons, listContrib]; exact ih cs
      | some c => simp only [List.zip_cons_cons, contribSum, List.map_cons, listContrib]; rw [ih cs]

theorem dot_zero_right (n : Nat) (c : Vec ℝ) : dot n c (fun _ => (0 : ℝ)) = 0 := by simp [dot]

/-! ### forward-mode tangents -/

/-- Forward-mode tangents of the return values of operator `k` in state `s`, for the parameter
directions `δ` and the per-operator Jacobian-vector products `J`: a Parameter operator of `p` has
tangent `δ p`, a random source has tangent 0 (no entry), any other operator has `J k` applied to
its stored argument values and the tangents of its arguments. -/
def tanRow (s : State (Vec ℝ)) (δ : Nat → Vec ℝ) (J : Nat → Jvp) (k : Nat) : List (Vec ℝ) :=
  match s.ops[k]? with
  | none => []
  | some o =>
    match o.kind with
    | .param p => [δ p]
    | .rnd => []
    | .op _ => J k (o.args.map s.valAt)
        (o.args.map fun b => if _h : b.oid < k then (tanRow s δ J b.oid).getD b.vid (fun _ => 0) else fun _ => 0)
termination_by k

/-- the forward-mode tangent of node `b` -/
def fwdTangent (s : State (Vec ℝ)) (δ : Nat → Vec ℝ) (J : Nat → Jvp) (b : Addr) : Vec ℝ :=
  (tanRow s δ J b.oid).getD b.vid fun _ => 0

theorem tanRow_param {s : State (Vec ℝ)} {δ : Nat → Vec ℝ} {J : Nat → Jvp} {k : Nat} {o : OpInfo (Vec ℝ)} {p : Nat}
    (ho : s.ops[k]? = some o) (hk : o.kind = .param p) : tanRow s δ J k = [δ p] := by
  rw [tanRow]; simp only [ho, hk]

theorem tanRow_rnd {s : State (Vec ℝ)} {δ : Nat → Vec ℝ} {J : Nat → Jvp} {k : Nat} {o : OpInfo (Vec ℝ)}
    (ho : s.ops[k]? = some o) (hk : o.kind = .rnd) : tanRow s δ J k = [] := by
  rw [tanRow]; simp only [ho, hk]

theorem tanRow_op {s : State (Vec ℝ)} {δ : Nat → Vec ℝ} {J : Nat → Jvp} {k : Nat} {o : OpInfo (Vec ℝ)}
    {sem : OpSem (Vec ℝ)} (ho : s.ops[k]? = some o) (hk : o.kind = .op sem) (hb : ∀ b ∈ o.args, b.oid < k) :
    tanRow s δ J k = J k (o.args.map s.valAt) (o.args.map (fwdTangent s δ J)) := by
  rw [tanRow]; simp only [ho, hk]
  congr 1
  apply List.map_congr_left
  intro b hbm
  rw [dif_pos (hb b hbm)]
  rfl

/-! ### the chain rule along a family of states -/

/-- What the chain rule needs from a family `S ε` of states of one graph, the target `a`, the
parameter directions `δ` and the per-operator Jacobian-vector products `J`. -/
structure CurveFamily (S : ℝ → State (Vec ℝ)) (a : Addr) (δ : Nat → Vec ℝ) (J : Nat → Jvp) : Prop where
  /-- all states have the kinds, arguments and sizes of `S 0` -/
  shape : ∀ ε, (S ε).shape = (S 0).shape
  /-- arguments refer to smaller operator ids -/
  argsBelow : ArgsBelow (S 0)
  /-- the value of a parameter that is an ancestor of the target moves with velocity `δ p` -/
  param : ∀ (k : Nat) (o : OpInfo (Vec ℝ)) (p : Nat), Anc (S 0).argsOf k a.oid → (S 0).ops[k]? = some o →
    o.kind = .param p → ∀ i, i < (S 0).sizeAt ⟨k, 0⟩ →
      HasDerivAt (fun ε => (S ε).params.value p i) (δ p i) 0
  /-- random sources do not depend on `ε` -/
  rnd : ∀ (k : Nat) (o : OpInfo (Vec ℝ)), Anc (S 0).argsOf k a.oid → (S 0).ops[k]? = some o →
    o.kind = .rnd → ∀ j ε, (S ε).valueOf? ⟨k, j⟩ = (S 0).valueOf? ⟨k, j⟩
  /-- every other ancestor is evaluated consistently in every `S ε`: its stored return values are
  `sem.fwd` of the values of its arguments -/
  loc : ∀ (k : Nat) (o : OpInfo (Vec ℝ)) (sem : OpSem (Vec ℝ)), Anc (S 0).argsOf k a.oid →
    (S 0).ops[k]? = some o → o.kind = .op sem → ∀ ε, LocalEq (S ε) k
  /-- … and differentiable at its argument values in `S 0`, with directional derivative `J k` -/
  curve : ∀ (k : Nat) (o : OpInfo (Vec ℝ)) (sem : OpSem (Vec ℝ)), Anc (S 0).argsOf k a.oid →
    (S 0).ops[k]? = some o → o.kind = .op sem →
      CurveLawAt sem (o.args.map (S 0).sizeAt) (o.rets.map (·.size)) (J k) (o.args.map (S 0).valAt)

section
variable {S : ℝ → State (Vec ℝ)} {a : Addr} {δ : Nat → Vec ℝ} {J : Nat → Jvp}

theorem tangent_param (H : CurveFamily S a δ J) {b : Addr} {o : OpInfo (Vec ℝ)} {p : Nat}
    (hanc : Anc (S 0).argsOf b.oid a.oid) (ho : (S 0).ops[b.oid]? = some o) (hk : o.kind = .param p)
    (i : Nat) (hi : i < (S 0).sizeAt b) :
    HasDerivAt (fun ε => (S ε).valAt b i) (fwdTangent (S 0) δ J b i) 0 := by
  have hval : ∀ ε, (S ε).valAt b = if b.vid = 0 then (S ε).params.value p else fun _ => 0 := by
    intro ε
    obtain ⟨o', ho', hk', _, _⟩ := shape_op (H.shape ε) ho
    exact valAt_param ho' (hk'.trans hk) b.vid
  have hT : fwdTangent (S 0) δ J b = [δ p].getD b.vid fun _ => 0 := by
    show (tanRow (S 0) δ J b.oid).getD b.vid _ = _
    rw [tanRow_param ho hk]
  rw [hT]
  by_cases hv : b.vid = 0
  · have hb : b = ⟨b.oid, 0⟩ := by rw [Addr.eq_iff]; exact ⟨rfl, hv⟩
    have hi' : i < (S 0).sizeAt ⟨b.oid, 0⟩ := by rw [← hb]; exact hi
    have hfun : (fun ε => (S ε).valAt b i) = fun ε => (S ε).params.value p i := by
      funext ε; rw [hval ε, if_pos hv]
    rw [hfun, hv]
    exact H.param b.oid o p hanc ho hk i hi'
  · have hfun : (fun ε => (S ε).valAt b i) = fun _ => (0 : ℝ) := by
      funext ε; rw [hval ε, if_neg hv]
    obtain ⟨m, hm⟩ := Nat.exists_eq_succ_of_ne_zero hv
    rw [hfun, hm]
    simpa using hasDerivAt_const (0 : ℝ) (0 : ℝ)

theorem tangent_rnd (H : CurveFamily S a δ J) {b : Addr} {o : OpInfo (Vec ℝ)}
    (hanc : Anc (S 0).argsOf b.oid a.oid) (ho : (S 0).ops[b.oid]? = some o) (hk : o.kind = .rnd) (i : Nat) :
    HasDerivAt (fun ε => (S ε).valAt b i) (fwdTangent (S 0) δ J b i) 0 := by
  have hfun : (fun ε => (S ε).valAt b i) = fun _ => (S 0).valAt b i := by
    funext ε
    unfold State.valAt
    rw [show (S ε).valueOf? b = (S 0).valueOf? b from H.rnd b.oid o hanc ho hk b.vid ε]
  have hT : fwdTangent (S 0) δ J b = fun _ => 0 := by
    show (tanRow (S 0) δ J b.oid).getD b.vid _ = _
    rw [tanRow_rnd ho hk]; rfl
  rw [hfun, hT]
  exact hasDerivAt_const _ _

theorem tangent_op (H : CurveFamily S a δ J) {b : Addr} {o : OpInfo (Vec ℝ)} {sem : OpSem (Vec ℝ)}
    (hanc : Anc (S 0).argsOf b.oid a.oid) (ho : (S 0).ops[b.oid]? = some o) (hk : o.kind = .op sem)
    {nd : NodeInfo (Vec ℝ)} (hnd : o.rets[b.vid]? = some nd) (i : Nat) (hi : i < nd.size)
    (ih : ∀ b' ∈ o.args, ∀ i', i' < (S 0).sizeAt b' →
      HasDerivAt (fun ε => (S ε).valAt b' i') (fwdTangent (S 0) δ J b' i') 0) :
    HasDerivAt (fun ε => (S ε).valAt b i) (fwdTangent (S 0) δ J b i) 0 := by
  have hvid : b.vid < o.rets.length := (List.getElem?_eq_some_iff.1 hnd).1
  have hex : ∀ ε, ∃ ys, sem.fwd (o.args.map (S ε).valAt) = some ys ∧
      (S ε).valAt b = ys.getD b.vid fun _ => 0 := by
    intro ε
    obtain ⟨o', ho', hk', ha', hs'⟩ := shape_op (H.shape ε) ho
    obtain ⟨xs, hxs, hsem⟩ := H.loc b.oid o sem hanc ho hk ε o' ho'
    obtain ⟨ys, hys, hv⟩ := hsem sem (hk'.trans hk)
    have hx := mapM_valueOf_eq_valAt hxs
    rw [ha'] at hx
    subst hx
    refine ⟨ys, hys, ?_⟩
    have hlen : b.vid < o'.rets.length := by
      have := congrArg List.length hs'
      simp only [List.length_map] at this
      omega
    have hn' : o'.rets[b.vid]? = some o'.rets[b.vid] := List.getElem?_eq_getElem hlen
    unfold State.valAt
    rw [show (S ε).valueOf? b = (o'.rets[b.vid]?).bind (·.value) from valueOf?_op ho' (hk'.trans hk) b.vid, hn']
    simp only [Option.bind_some]
    rw [hv b.vid _ hn']
    rfl
  choose Y hY hval using hex
  have hfun : (fun ε => (S ε).valAt b i) = fun ε => (Y ε).getD b.vid (fun _ => 0) i := by
    funext ε; rw [hval ε]
  have hT : fwdTangent (S 0) δ J b
      = (J b.oid (o.args.map (S 0).valAt) (o.args.map (fwdTangent (S 0) δ J))).getD b.vid fun _ => 0 := by
    show (tanRow (S 0) δ J b.oid).getD b.vid _ = _
    rw [tanRow_op ho hk (H.argsBelow b.oid o ho)]
  rw [hfun, hT]
  refine H.curve b.oid o sem hanc ho hk (fun ε => o.args.map (S ε).valAt) (o.args.map (fwdTangent (S 0) δ J)) Y
    rfl (fun ε => by simp) (by simp) ?_ hY b.vid (by simpa using hvid) i (by rw [sizes_getD hnd]; exact hi)
  intro k hk' i' hi'
  have hk'' : k < o.args.length := by simpa using hk'
  rw [getD_map_of_lt _ _ _ _ hk''] at hi'
  simp only [getD_map_of_lt _ _ _ _ hk'']
  exact ih o.args[k] (List.getElem_mem _) i' hi'

/-- **Chain rule over the DAG** (forward mode): along a family of consistently evaluated states the
value of every ancestor of the target is differentiable at `ε = 0`, with derivative the forward-mode
tangent. -/
theorem tangent_hasDerivAt (H : CurveFamily S a δ J) (b : Addr) (hanc : Anc (S 0).argsOf b.oid a.oid)
    (i : Nat) (hi : i < (S 0).sizeAt b) :
    HasDerivAt (fun ε => (S ε).valAt b i) (fwdTangent (S 0) δ J b i) 0 := by
  suffices h : ∀ n, ∀ b : Addr, b.oid = n → Anc (S 0).argsOf b.oid a.oid → ∀ i, i < (S 0).sizeAt b →
      HasDerivAt (fun ε => (S ε).valAt b i) (fwdTangent (S 0) δ J b i) 0 from h b.oid b rfl hanc i hi
  intro n
  induction n using Nat.strong_induction_on with
  | _ n ih =>
    intro b hbn hanc i hi
    obtain ⟨o, nd, ho, hnd, hsz⟩ := node_of_sizeAt_pos hi
    cases hk : o.kind with
    | param p => exact tangent_param H hanc ho hk i hi
    | rnd => exact tangent_rnd H hanc ho hk i
    | op sem =>
      refine tangent_op H hanc ho hk hnd i (hsz ▸ hi) ?_
      intro b' hb' i' hi'
      have hlt : b'.oid < b.oid := H.argsBelow b.oid o ho b' hb'
      exact ih b'.oid (hbn ▸ hlt) b' rfl (hanc.arg (by rw [argsOf_eq ho]; exact hb')) i' hi'

end

/-! ### the forward-mode tangents satisfy the hypotheses of the reverse-sweep theorem -/

theorem chain_adjointHyps (s : State (Vec ℝ)) (a : Addr) (P : Nat) (psize : Nat → Nat)
    (δ : Nat → Vec ℝ) (J : Nat → Jvp)
    (hargsBelow : ArgsBelow s)
    (hargsValid : ∀ (i : Nat) (o : OpInfo (Vec ℝ)), s.ops[i]? = some o → ∀ b ∈ o.args, s.validAddr b = true)
    (hgradsInvalid : AllGradsInvalid s)
    (htarget : s.validAddr a = true)
    (hevaluated : ∀ (i : Nat) (o : OpInfo (Vec ℝ)), Anc s.argsOf i a.oid → s.ops[i]? = some o →
      (∀ b ∈ o.args, (s.valueOf? b).isSome = true) ∧
      ((∀ p, o.kind ≠ .param p) → ∀ n ∈ o.rets, n.value.isSome = true))
    (hparam : ∀ (i : Nat) (o : OpInfo (Vec ℝ)) (p : Nat), Anc s.argsOf i a.oid → s.ops[i]? = some o →
      o.kind = .param p → p < P ∧ o.rets.map (·.size) = [psize p])
    (hadj : ∀ (k : Nat) (o : OpInfo (Vec ℝ)) (sem : OpSem (Vec ℝ)), Anc s.argsOf k a.oid → s.ops[k]? = some o →
      o.kind = .op sem →
      AdjointLawAt sem (o.args.map s.sizeAt) (o.rets.map (·.size)) (J k) (o.args.map s.valAt) o.ys) :
    AdjointHyps s a P psize δ (fwdTangent s δ J) where
  argsBelow := hargsBelow
  argsValid := hargsValid
  gradsInvalid := hgradsInvalid
  target := htarget
  evaluated := hevaluated
  param := by
    intro i o p hanc ho hk
    obtain ⟨h1, h2⟩ := hparam i o p hanc ho hk
    refine ⟨h1, h2, ?_⟩
    show (tanRow s δ J i).getD 0 _ = _
    rw [tanRow_param ho hk]; rfl
  law := by
    intro i o hanc ho hnp _ xs hxs gys hlen
    cases hk : o.kind with
    | param p => exact absurd hk (hnp p)
    | rnd =>
      simp only [kindContribs, List.zip_nil_right, contribSum]
      symm
      unfold retSum
      refine sum_eq_zero fun j _ => ?_
      have : fwdTangent s δ J ⟨i, j⟩ = fun _ => 0 := by
        show (tanRow s δ J i).getD j _ = _
        rw [tanRow_rnd ho hk]; rfl
      rw [this, dot_zero_right]
    | op sem =>
      simp only [kindContribs]
      rw [contribSum_eq_listContrib]
      have hx := mapM_valueOf_eq_valAt hxs
      subst hx
      rw [hadj i o sem hanc ho hk gys (o.args.map (fwdTangent s δ J)) (by simp [hlen]) (by simp)]
      unfold retSum
      refine sum_congr rfl fun j _ => ?_
      congr 1
      show _ = (tanRow s δ J i).getD j _
      rw [tanRow_op ho hk (hargsBelow i o ho)]

/-! ### two operator semantics over ℝ -/

/-- elementwise unary operator with forward formula `fw x` and backward formula `bw x y gy` -/
def elemUnary (fw : ℝ → ℝ) (bw : ℝ → ℝ → ℝ → ℝ) : OpSem (Vec ℝ) where
  nret := 1
  fwd := fun xs => match xs with
    | [x] => some [fun i => fw (x i)]
    | _ => none
  bwd := fun xs ys gys => match xs, ys, gys with
    | [x], [y], [g] => [some fun i => bw (x i) (y i) (g i)]
    | _, _, _ => []

/-- its Jacobian-vector product `f′(x_i) · t_i` -/
noncomputable def elemUnaryJvp (fw : ℝ → ℝ) : Jvp := fun xs ts => match xs, ts with
  | [x], [t] => [fun i => deriv fw (x i) * t i]
  | _, _ => []

/-- elementwise product with its backward rule `gx += gy * y`, `gy' += gy * x` (as `mulVec` of
Props/C01/Sweep.lean, over ℝ) -/
def mulReal : OpSem (Vec ℝ) where
  nret := 1
  fwd := fun xs => match xs with
    | [x, y] => some [fun i => x i * y i]
    | _ => none
  bwd := fun xs _ gys => match xs, gys with
    | [x, y], [g] => [some fun i => g i * y i, some fun i => g i * x i]
    | _, _ => []

/-- product rule -/
def mulRealJvp : Jvp := fun xs ts => match xs, ts with
  | [x, y], [tx, ty] => [fun i => tx i * y i + x i * ty i]
  | _, _ => []

theorem list_len1 {α} {l : List α} (h : l.length = 1) : ∃ x, l = [x] := by
  match l, h with
  | [x], _ => exact ⟨x, rfl⟩

theorem list_len2 {α} {l : List α} (h : l.length = 2) : ∃ x y, l = [x, y] := by
  match l, h with
  | [x, y], _ => exact ⟨x, y, rfl⟩

/-! ### stored return values of a consistently evaluated operator -/

theorem filterMap_value_eq_take {τ : Type} :
    ∀ (rets : List (NodeInfo τ)) (ys : List τ),
      (∀ (i : Nat) (n : NodeInfo τ), rets[i]? = some n → n.value = ys[i]?) →
      (∀ n ∈ rets, n.value.isSome = true) → rets.filterMap (·.value) = ys.take rets.length := by
  intro rets
  induction rets with
  | nil => intro ys _ _; simp
  | cons n r ih =>
    intro ys h1 h2
    have hn := h1 0 n rfl
    have hs := h2 n List.mem_cons_self
    cases ys with
    | nil => rw [hn] at hs; cases hs
    | cons y ys =>
      simp only [List.getElem?_cons_zero] at hn
      have := ih ys (fun i m hm => by have := h1 (i + 1) m (by simpa using hm); simpa using this)
        (fun m hm => h2 m (List.mem_cons_of_mem _ hm))
      simp [hn, this]

/-! ### the family obtained by running `forward` at every parameter value -/

/-- `s` with the parameter values replaced by `v` -/
def State.withPValue {τ : Type} (s : State τ) (v : Nat → τ) : State τ :=
  { s with params := { s.params with value := v } }

theorem anc_iff_ancF (f : Nat → List Addr) (i j : Nat) : Anc f i j ↔ AncF f i j := by
  constructor
  · intro h
    induction h with
    | refl => exact AncF.refl _
    | step hb _ ih => exact AncF.step hb ih
  · intro h
    induction h with
    | refl => exact Anc.refl _
    | step hb _ ih => exact Anc.step hb ih

theorem argsOf_eq_argList {τ : Type} (s : State τ) : s.argsOf = s.argList := by
  funext k; rfl

theorem plan_withPValue {τ : Type} (s : State τ) (v : Nat → τ) (fuel : Nat) :
    plan (s.withPValue v) fuel = plan s fuel := by
  induction fuel with
  | zero => rfl
  | succ fuel ih =>
    funext done a
    show (if (s.withPValue v).isParam a.oid || (s.withPValue v).evaluatedB a.oid || done.contains a.oid then []
      else planArgs (plan (s.withPValue v) fuel) done ((s.withPValue v).argList a.oid) ++ [a.oid]) = _
    rw [ih]
    rfl

/-- a successful `forward` on a graph without memoised values evaluates exactly the operators of
`plan`, among them every non-parameter ancestor of the target -/
theorem forward_fresh {τ : Type} (T : TOps τ) {s s' : State τ} {a : Addr} {v : τ} (w : WF s)
    (hfresh : ∀ k, ¬ s.evaluated k) (hv : s.validAddr a = true) (h : forward T s a = (s', .ok v)) :
    Ext s s' (plan s (a.oid + 1) [] a) ∧
      ∀ k, AncOf s k a.oid → s.isParam k = false → k ∈ plan s (a.oid + 1) [] a := by
  have sp := forward_spec T w hv
  have hp := forward_plan T w (a := a) (v := v) (by rw [h])
  rw [h] at sp hp
  obtain ⟨l, p⟩ := sp.post
  have hl : l = plan s (a.oid + 1) [] a := List.append_cancel_left (p.ext.log.symm.trans hp)
  subst hl
  refine ⟨p.ext, fun k hk hpar => ?_⟩
  have := (sp.ok v rfl).2 a (List.mem_singleton_self a) k hk hpar
  rcases (p.ext.evaluated k).1 this with h' | h'
  · exact absurd h' (hfresh k)
  · exact h'

/-- What running `forward` for the target `a` on the graph `s` (no memoised values) at the parameter
values `Θ ε`, for every `ε`, establishes about the resulting states `S ε`. -/
structure FwdFacts (s : State (Vec ℝ)) (a : Addr) (Θ : ℝ → Nat → Vec ℝ) (S : ℝ → State (Vec ℝ)) : Prop where
  shape : ∀ ε, (S ε).shape = s.shape
  argsOf : ∀ ε, (S ε).argsOf = s.argsOf
  pvalue : ∀ ε, (S ε).params.value = Θ ε
  wf : ∀ ε, WF (S ε)
  nograd : ∀ ε, AllGradsInvalid (S ε)
  valid : ∀ ε b, (S ε).validAddr b = s.validAddr b
  isParam : ∀ ε, (S ε).isParam = s.isParam
  evald : ∀ ε k, AncOf s k a.oid → s.isParam k = false → (S ε).evaluated k
  loc : ∀ ε k, AncOf s k a.oid → s.isParam k = false → LocalEq (S ε) k
  rnd : ∀ ε k j, AncOf s k a.oid → s.isRnd k = true → (S ε).valueOf? ⟨k, j⟩ = (S 0).valueOf? ⟨k, j⟩
  target : s.validAddr a = true

theorem fwdFacts_of_forward (s : State (Vec ℝ)) (a : Addr) (Θ : ℝ → Nat → Vec ℝ) (S : ℝ → State (Vec ℝ))
    (w : WF s) (hfresh : ∀ k, ¬ s.evaluated k) (hnograd : AllGradsInvalid s) (hv : s.validAddr a = true)
    (hrun : ∀ ε, ∃ v, forward (TVec ℝ) (s.withPValue (Θ ε)) a = (S ε, .ok v)) :
    FwdFacts s a Θ S := by
  have hwε : ∀ ε, WF (s.withPValue (Θ ε)) := fun ε => w.of_ops_eq rfl rfl rfl rfl
  have hfr : ∀ ε, FwdFrame (s.withPValue (Θ ε)) (S ε) := by
    intro ε
    obtain ⟨v, hf⟩ := hrun ε
    have := forward_fwdFrame (TVec ℝ) (s.withPValue (Θ ε)) a
    rw [hf] at this; exact this
  have hext : ∀ ε, Ext (s.withPValue (Θ ε)) (S ε) (plan s (a.oid + 1) [] a) ∧
      ∀ k, AncOf s k a.oid → s.isParam k = false → k ∈ plan s (a.oid + 1) [] a := by
    intro ε
    obtain ⟨v, hf⟩ := hrun ε
    have := forward_fresh (TVec ℝ) (hwε ε) hfresh hv hf
    rw [plan_withPValue] at this
    exact this
  refine ⟨fun ε => shape_of_gskel (hfr ε).gskel, fun ε => argsOf_of_gskel (hfr ε).gskel,
    fun ε => by rw [(hfr ε).params]; rfl, fun ε => (hext ε).1.wf (hwε ε),
    fun ε b => by rw [gskel_gradAt (hfr ε).gskel]; exact hnograd b,
    fun ε b => (hext ε).1.validAddr b, fun ε => (hext ε).1.isParam,
    fun ε k hk hp => ((hext ε).1.evaluated k).2 (.inr ((hext ε).2 k hk hp)),
    fun ε k hk hp => (hext ε).1.loc k ((hext ε).2 k hk hp), ?_, hv⟩
  intro ε k j hk hr
  have hp : s.isParam k = false := by
    unfold State.isRnd at hr
    unfold State.isParam
    cases ho : s.ops[k]? with
    | none => rfl
    | some o =>
      rw [ho] at hr
      simp only at hr ⊢
      cases hkind : o.kind with
      | param p => rw [hkind] at hr; cases hr
      | rnd => rfl
      | op sem => rfl
  have hmem : k ∈ (plan s (a.oid + 1) [] a).filter s.isRnd :=
    List.mem_filter.2 ⟨(hext ε).2 k hk hp, hr⟩
  obtain ⟨i, hi⟩ := List.mem_iff_getElem?.1 hmem
  -- the same sample number at `ε` and at `0`
  have key : ∀ ε', ∃ (o : OpInfo (Vec ℝ)) (n : NodeInfo (Vec ℝ)), (S ε').ops[k]? = some o ∧ o.kind = .rnd ∧
      o.rets.length = 1 ∧ o.rets[0]? = some n ∧ n.value = some (s.sample (s.rndPos + i) n.size) := by
    intro ε'
    obtain ⟨o', n, h1, h2, h3⟩ := (hext ε').1.rnd i k hi
    have hr' : (S ε').isRnd k = true := by rw [(hext ε').1.isRnd]; exact hr
    have hkind : o'.kind = .rnd := by
      unfold State.isRnd at hr'
      rw [h1] at hr'
      simp only at hr'
      cases hk' : o'.kind with
      | param p => rw [hk'] at hr'; cases hr'
      | rnd => rfl
      | op sem => rw [hk'] at hr'; cases hr'
    have hko := ((hext ε').1.wf (hwε ε')).kind_ok k o' h1
    rw [hkind] at hko
    exact ⟨o', n, h1, hkind, hko, h2, h3⟩
  obtain ⟨o1, n1, a1, a2, a3, a4, a5⟩ := key ε
  obtain ⟨o0, n0, b1, b2, b3, b4, b5⟩ := key 0
  rw [valueOf?_rnd a1 a2, valueOf?_rnd b1 b2]
  cases j with
  | succ j =>
    have e1 : o1.rets[j + 1]? = none := by rw [List.getElem?_eq_none_iff]; omega
    have e0 : o0.rets[j + 1]? = none := by rw [List.getElem?_eq_none_iff]; omega
    rw [e1, e0]
  | zero =>
    rw [a4, b4]
    simp only [Option.bind_some, a5, b5]
    have hsh : (S ε).shape = (S 0).shape :=
      (shape_of_gskel (hfr ε).gskel).trans (shape_of_gskel (hfr 0).gskel).symm
    obtain ⟨o', c1, _, _, c4⟩ := shape_op hsh b1
    rw [a1] at c1
    cases c1
    have := congrArg (fun l => l[0]?) c4
    simp only [List.getElem?_map, a4, b4, Option.map_some, Option.some.injEq] at this
    rw [this]

/-- the family of `forward` results is a `CurveFamily` -/
theorem curveFamily_of_fwdFacts {s : State (Vec ℝ)} {a : Addr} {Θ : ℝ → Nat → Vec ℝ} {S : ℝ → State (Vec ℝ)}
    (F : FwdFacts s a Θ S) (δ : Nat → Vec ℝ) (J : Nat → Jvp)
    (hΘ : ∀ (k : Nat) (o : OpInfo (Vec ℝ)) (p : Nat), Anc (S 0).argsOf k a.oid → (S 0).ops[k]? = some o →
      o.kind = .param p → ∀ i, i < (S 0).sizeAt ⟨k, 0⟩ → HasDerivAt (fun ε => Θ ε p i) (δ p i) 0)
    (hcurve : ∀ (k : Nat) (o : OpInfo (Vec ℝ)) (sem : OpSem (Vec ℝ)), Anc (S 0).argsOf k a.oid →
      (S 0).ops[k]? = some o → o.kind = .op sem →
        CurveLawAt sem (o.args.map (S 0).sizeAt) (o.rets.map (·.size)) (J k) (o.args.map (S 0).valAt)) :
    CurveFamily S a δ J := by
  have hanc : ∀ k, Anc (S 0).argsOf k a.oid → AncOf s k a.oid := by
    intro k h
    rw [F.argsOf 0, argsOf_eq_argList, anc_iff_ancF] at h
    exact h
  have hkind : ∀ (k : Nat) (o : OpInfo (Vec ℝ)), (S 0).ops[k]? = some o →
      s.isParam k = o.kind.isParam ∧ s.isRnd k = o.kind.isRnd := by
    intro k o ho
    obtain ⟨o', ho', hk', _, _⟩ := shape_op (F.shape 0).symm ho
    simp [State.isParam, State.isRnd, ho', hk']
  refine ⟨fun ε => (F.shape ε).trans (F.shape 0).symm, fun i o ho b hb => ((F.wf 0).args_lt i o ho b hb).1,
    ?_, ?_, ?_, hcurve⟩
  · intro k o p ha ho hk i hi
    have : (fun ε => (S ε).params.value p i) = fun ε => Θ ε p i := by
      funext ε; rw [F.pvalue ε]
    rw [this]
    exact hΘ k o p ha ho hk i hi
  · intro k o ha ho hk j ε
    exact F.rnd ε k j (hanc k ha) (by rw [(hkind k o ho).2, hk]; rfl)
  · intro k o sem ha ho hk ε
    exact F.loc ε k (hanc k ha) (by rw [(hkind k o ho).1, hk]; rfl)

/-- … and `S 0` satisfies the structural hypotheses of the reverse-sweep theorem -/
theorem evaluated_of_fwdFacts {s : State (Vec ℝ)} {a : Addr} {Θ : ℝ → Nat → Vec ℝ} {S : ℝ → State (Vec ℝ)}
    (F : FwdFacts s a Θ S) (i : Nat) (o : OpInfo (Vec ℝ)) (ha : Anc (S 0).argsOf i a.oid)
    (ho : (S 0).ops[i]? = some o) :
    (∀ b ∈ o.args, ((S 0).valueOf? b).isSome = true) ∧
      ((∀ p, o.kind ≠ .param p) → ∀ n ∈ o.rets, n.value.isSome = true) := by
  have hanc : AncOf s i a.oid := by
    rw [F.argsOf 0, argsOf_eq_argList, anc_iff_ancF] at ha
    exact ha
  have hpar : s.isParam i = o.kind.isParam := by
    obtain ⟨o', ho', hk', _, _⟩ := shape_op (F.shape 0).symm ho
    simp [State.isParam, ho', hk']
  cases hk : o.kind with
  | param p =>
    have hko := (F.wf 0).kind_ok i o ho
    rw [hk] at hko
    refine ⟨fun b hb => ?_, fun h => absurd rfl (h p)⟩
    rw [hko.1] at hb; cases hb
  | rnd =>
    have hp : s.isParam i = false := by rw [hpar, hk]; rfl
    refine ⟨fun b hb => ?_, fun _ => ?_⟩
    · obtain ⟨xs, hxs, _⟩ := F.loc 0 i hanc hp o ho
      obtain ⟨v, hv⟩ := mapM_some_mem hxs b hb
      rw [hv]; rfl
    · obtain ⟨o2, ho2, n, hn, hval⟩ := F.evald 0 i hanc hp
      rw [ho] at ho2; cases ho2
      rcases (F.wf 0).all_or_none i o ho with h | h
      · rw [h n hn] at hval; cases hval
      · exact h
  | op sem =>
    have hp : s.isParam i = false := by rw [hpar, hk]; rfl
    refine ⟨fun b hb => ?_, fun _ => ?_⟩
    · obtain ⟨xs, hxs, _⟩ := F.loc 0 i hanc hp o ho
      obtain ⟨v, hv⟩ := mapM_some_mem hxs b hb
      rw [hv]; rfl
    · obtain ⟨o2, ho2, n, hn, hval⟩ := F.evald 0 i hanc hp
      rw [ho] at ho2; cases ho2
      rcases (F.wf 0).all_or_none i o ho with h | h
      · rw [h n hn] at hval; cases hval
      · exact h

/-- the stored return values of an ancestor in `S 0` are the results of its `forward` -/
theorem ys_of_fwdFacts {s : State (Vec ℝ)} {a : Addr} {Θ : ℝ → Nat → Vec ℝ} {S : ℝ → State (Vec ℝ)}
    (F : FwdFacts s a Θ S) (k : Nat) (o : OpInfo (Vec ℝ)) (sem : OpSem (Vec ℝ)) (ha : Anc (S 0).argsOf k a.oid)
    (ho : (S 0).ops[k]? = some o) (hk : o.kind = .op sem) :
    ∃ ys, sem.fwd (o.args.map (S 0).valAt) = some ys ∧ o.ys = ys.take o.rets.length := by
  have hanc : AncOf s k a.oid := by
    rw [F.argsOf 0, argsOf_eq_argList, anc_iff_ancF] at ha
    exact ha
  have hp : s.isParam k = false := by
    obtain ⟨o', ho', hk', _, _⟩ := shape_op (F.shape 0).symm ho
    simp [State.isParam, ho', hk', hk, Kind.isParam]
  obtain ⟨xs, hxs, hsem⟩ := F.loc 0 k hanc hp o ho
  obtain ⟨ys, hys, hv⟩ := hsem sem hk
  have hx := mapM_valueOf_eq_valAt hxs
  subst hx
  refine ⟨ys, hys, ?_⟩
  have hall := (evaluated_of_fwdFacts F k o ha ho).2 (fun p hp' => by rw [hk] at hp'; cases hp')
  exact filterMap_value_eq_take o.rets ys hv hall

/-- on a graph without memoised values `backward` first runs `forward` and then sweeps from there -/
theorem backward_fresh {τ : Type} (T : TOps τ) {s S0 : State τ} {a : Addr} {v : τ} (hv : s.validAddr a = true)
    (hfresh : ∀ k, ¬ s.evaluated k) (hf : forward T s a = (S0, .ok v)) (hv0 : S0.validAddr a = true)
    (h0 : fwdPhase T S0 a = (S0, .ok ())) : backward T s a = backward T S0 a := by
  rw [backward_eq, backward_eq, hv, hv0]
  simp only [Bool.not_true, Bool.false_eq_true, if_false]
  have : fwdPhase T s a = (S0, .ok ()) := by
    obtain ⟨n, hn⟩ := node_isSome_of_validAddr hv
    unfold fwdPhase
    rw [hn]
    simp only
    have hnv : ¬ n.value.isSome = true := by
      intro h
      apply hfresh a.oid
      unfold State.node? at hn
      cases ho : s.ops[a.oid]? with
      | none => simp [ho] at hn
      | some o => rw [ho] at hn; exact ⟨o, ho, n, List.mem_of_getElem? hn, h⟩
    rw [if_neg hnv, hf]
  rw [this, h0]

end Primitiv.Graph
