import Mathlib.Algebra.BigOperators.Group.Finset.Sigma
import PrimitivModel.Lemmas.GraphTangent
/-!
Operator semantics over ℝ for the two laws of Lemmas/GraphTangent.lean (`CurveLawAt`, `AdjointLawAt`):
elementwise binary operators (`elemBinary`), linear operators given by a finite matrix with any
number of arguments and return values (`linOp`), bilinear operators (`bilinOp`), and the finite-sum
lemmas their adjoint laws need.  Statements: Props/C01/ChainOps.lean.
-/
namespace Primitiv.Graph
open Finset

/-! ### sums over the elements of a list of tensors -/

/-- `Σ_{k < ns.length} Σ_{i < ns_k} F k i` -/
def sum2 (ns : List Nat) (F : Nat → Nat → ℝ) : ℝ :=
  ∑ k ∈ range ns.length, ∑ i ∈ range (ns.getD k 0), F k i

theorem sum2_congr (ns : List Nat) (F G : Nat → Nat → ℝ)
    (h : ∀ k, k < ns.length → ∀ i, i < ns.getD k 0 → F k i = G k i) : sum2 ns F = sum2 ns G := by
  unfold sum2
  exact sum_congr rfl fun k hk => sum_congr rfl fun i hi => h k (mem_range.mp hk) i (mem_range.mp hi)

theorem sum2_comm (ns ms : List Nat) (F : Nat → Nat → Nat → Nat → ℝ) :
    sum2 ns (fun k i' => sum2 ms fun j i => F k i' j i) = sum2 ms (fun j i => sum2 ns fun k i' => F k i' j i) := by
  unfold sum2
  calc ∑ k ∈ range ns.length, ∑ i' ∈ range (ns.getD k 0), ∑ j ∈ range ms.length, ∑ i ∈ range (ms.getD j 0), F k i' j i
      = ∑ k ∈ range ns.length, ∑ j ∈ range ms.length, ∑ i' ∈ range (ns.getD k 0), ∑ i ∈ range (ms.getD j 0), F k i' j i :=
        sum_congr rfl fun k _ => sum_comm
    _ = ∑ j ∈ range ms.length, ∑ k ∈ range ns.length, ∑ i' ∈ range (ns.getD k 0), ∑ i ∈ range (ms.getD j 0), F k i' j i :=
        sum_comm
    _ = ∑ j ∈ range ms.length, ∑ k ∈ range ns.length, ∑ i ∈ range (ms.getD j 0), ∑ i' ∈ range (ns.getD k 0), F k i' j i :=
        sum_congr rfl fun j _ => sum_congr rfl fun k _ => sum_comm
    _ = ∑ j ∈ range ms.length, ∑ i ∈ range (ms.getD j 0), ∑ k ∈ range ns.length, ∑ i' ∈ range (ns.getD k 0), F k i' j i :=
        sum_congr rfl fun j _ => sum_comm

theorem sum2_mul_right (ns : List Nat) (F : Nat → Nat → ℝ) (c : ℝ) :
    sum2 ns F * c = sum2 ns fun k i => F k i * c := by
  unfold sum2
  rw [sum_mul]
  exact sum_congr rfl fun k _ => sum_mul _ _ _

theorem sum2_mul_left (ns : List Nat) (F : Nat → Nat → ℝ) (c : ℝ) :
    c * sum2 ns F = sum2 ns fun k i => c * F k i := by
  unfold sum2
  rw [mul_sum]
  exact sum_congr rfl fun k _ => mul_sum _ _ _

/-- contributions given for every argument: `listContrib` is a plain sum of dot products -/
theorem listContrib_map_some :
    ∀ (ns : List Nat) (ts cs : List (Vec ℝ)), ts.length = ns.length → cs.length = ns.length →
      listContrib ns ts (cs.map some)
        = ∑ k ∈ range ns.length, dot (ns.getD k 0) (cs.getD k fun _ => 0) (ts.getD k fun _ => 0) := by
  intro ns
  induction ns with
  | nil => intro ts cs _ _; simp [listContrib]
  | cons n ns ih =>
    intro ts cs ht hc
    cases ts with
    | nil => simp at ht
    | cons t ts =>
      cases cs with
      | nil => simp at hc
      | cons c cs =>
        simp only [List.map_cons, listContrib, List.length_cons]
        rw [sum_range_succ', ih ts cs (by simpa using ht) (by simpa using hc)]
        simp only [List.getD_cons_succ, List.getD_cons_zero]
        ring

theorem getD_map_range (n : Nat) (c : Nat → Vec ℝ) (k : Nat) (hk : k < n) :
    ((List.range n).map c).getD k (fun _ => 0) = c k := by
  simp [List.getD, List.getElem?_map, List.getElem?_range hk]

theorem listContrib_range (ns : List Nat) (ts : List (Vec ℝ)) (c : Nat → Vec ℝ) (ht : ts.length = ns.length) :
    listContrib ns ts ((List.range ns.length).map fun k => some (c k))
      = ∑ k ∈ range ns.length, dot (ns.getD k 0) (c k) (ts.getD k fun _ => 0) := by
  have : (List.range ns.length).map (fun k => some (c k)) = ((List.range ns.length).map c).map some := by
    rw [List.map_map]; rfl
  rw [this, listContrib_map_some ns ts _ ht (by simp)]
  exact sum_congr rfl fun k hk => by rw [getD_map_range _ _ _ (mem_range.mp hk)]

/-! ### elementwise binary operators -/

/-- elementwise binary operator `y_i = f a_i b_i`; the backward rule adds `bwa a b y gy` into the
first and `bwb a b y gy` into the second argument's gradient -/
def elemBinary (f : ℝ → ℝ → ℝ) (bwa bwb : ℝ → ℝ → ℝ → ℝ → ℝ) : OpSem (Vec ℝ) where
  nret := 1
  fwd := fun xs => match xs with
    | [a, b] => some [fun i => f (a i) (b i)]
    | _ => none
  bwd := fun xs ys gys => match xs, ys, gys with
    | [a, b], [y], [g] => [some fun i => bwa (a i) (b i) (y i) (g i), some fun i => bwb (a i) (b i) (y i) (g i)]
    | _, _, _ => []

/-- Jacobian-vector product with partial derivatives `da`, `db` -/
def elemBinaryJvp (da db : ℝ → ℝ → ℝ) : Jvp := fun xs ts => match xs, ts with
  | [a, b], [ta, tb] => [fun i => da (a i) (b i) * ta i + db (a i) (b i) * tb i]
  | _, _ => []

/-- `f` is differentiable at `(a, b)` along every pair of curves, with partial derivatives `da a b`,
`db a b`, and `bwa`, `bwb` fed with `y = f a b` return `gy · ∂f/∂a`, `gy · ∂f/∂b` -/
def IsBackwardOf2 (f : ℝ → ℝ → ℝ) (bwa bwb : ℝ → ℝ → ℝ → ℝ → ℝ) (da db : ℝ → ℝ → ℝ) (a b : ℝ) : Prop :=
  (∀ (x y : ℝ → ℝ) (x' y' : ℝ), x 0 = a → y 0 = b → HasDerivAt x x' 0 → HasDerivAt y y' 0 →
    HasDerivAt (fun ε => f (x ε) (y ε)) (da a b * x' + db a b * y') 0) ∧
  ∀ g, bwa a b (f a b) g = g * da a b ∧ bwb a b (f a b) g = g * db a b

/-! ### linear operators -/

/-- `(A · xs)_j = fun i => Σ_k Σ_{i' < ns_k} A j i k i' * (xs_k)_{i'}` -/
def linApply (ns : List Nat) (A : Nat → Nat → Nat → Nat → ℝ) (xs : List (Vec ℝ)) (j : Nat) : Vec ℝ :=
  fun i => sum2 ns fun k i' => A j i k i' * xs.getD k (fun _ => 0) i'

/-- Linear operator with argument sizes `ns`, return sizes `ms` and matrix `A j i k i'` (return
value `j`, its element `i`, argument `k`, its element `i'`); the backward rule adds `Aᵀ · gys`. -/
def linOp (ns ms : List Nat) (A : Nat → Nat → Nat → Nat → ℝ) : OpSem (Vec ℝ) where
  nret := ms.length
  fwd := fun xs => if xs.length = ns.length then some ((List.range ms.length).map (linApply ns A xs)) else none
  bwd := fun _ _ gys => (List.range ns.length).map fun k =>
    some fun i' => sum2 ms fun j i => A j i k i' * gys.getD j (fun _ => 0) i

/-- a linear operator is its own Jacobian-vector product -/
def linJvp (ns ms : List Nat) (A : Nat → Nat → Nat → Nat → ℝ) : Jvp :=
  fun _ ts => (List.range ms.length).map (linApply ns A ts)

/-! ### bilinear operators -/

/-- Bilinear operator `y_j = Σ_{i<na} Σ_{i'<nb} B j i i' * a_i * b_{i'}` (matmul, conv2d, products
with broadcasting); the backward rule adds the two transposes. -/
def bilinOp (na nb m : Nat) (B : Nat → Nat → Nat → ℝ) : OpSem (Vec ℝ) where
  nret := 1
  fwd := fun xs => match xs with
    | [a, b] => some [fun j => ∑ i ∈ range na, ∑ i' ∈ range nb, B j i i' * a i * b i']
    | _ => none
  bwd := fun xs _ gys => match xs, gys with
    | [a, b], [g] => [some fun i => ∑ j ∈ range m, ∑ i' ∈ range nb, B j i i' * g j * b i',
                      some fun i' => ∑ j ∈ range m, ∑ i ∈ range na, B j i i' * g j * a i]
    | _, _ => []

def bilinJvp (na nb : Nat) (B : Nat → Nat → Nat → ℝ) : Jvp := fun xs ts => match xs, ts with
  | [a, b], [ta, tb] => [fun j => ∑ i ∈ range na, ∑ i' ∈ range nb, B j i i' * (ta i * b i' + a i * tb i')]
  | _, _ => []

/-! ### constant operators -/

/-- an operator without arguments that returns fixed values (Input, Constant, zeros, ones, identity) -/
def constOp (vals : List (Vec ℝ)) : OpSem (Vec ℝ) where
  nret := vals.length
  fwd := fun xs => match xs with
    | [] => some vals
    | _ => none
  bwd := fun _ _ _ => []

end Primitiv.Graph
