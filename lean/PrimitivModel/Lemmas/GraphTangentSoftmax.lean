import Mathlib.Analysis.SpecialFunctions.ExpDeriv
import Mathlib.Analysis.SpecialFunctions.Log.Deriv
import Mathlib.Order.Filter.Finite
import PrimitivModel.Lemmas.GraphTangentOps
/-!
Helpers for Props/C01/ChainSoftmax.lean: operators with one argument and one return value given by
a function on vectors (`vecOp`), the two laws for them from a curve statement about the function
(`vec_curveLaw`, `vec_adjointLaw`), `lse` (logsumexp), `smax` (softmax) and the derivative of `lse`
along a curve, `vmax` / `vmin` and their derivative along a curve at a point without ties.
-/
namespace Primitiv.Graph
open Finset

/-! ### operators with one argument and one return value -/

/-- `y = F x`; the backward rule adds `Bw x y gy` into the argument's gradient -/
def vecOp (F : Vec ℝ → Vec ℝ) (Bw : Vec ℝ → Vec ℝ → Vec ℝ → Vec ℝ) : OpSem (Vec ℝ) where
  nret := 1
  fwd := fun xs => match xs with
    | [x] => some [F x]
    | _ => none
  bwd := fun xs ys gys => match xs, ys, gys with
    | [x], [y], [g] => [some (Bw x y g)]
    | _, _, _ => []

/-- Jacobian-vector product `D x t` -/
def vecJvp (D : Vec ℝ → Vec ℝ → Vec ℝ) : Jvp := fun xs ts => match xs, ts with
  | [x], [t] => [D x t]
  | _, _ => []

/-- curve law of `vecOp F Bw` from a statement about curves of vectors -/
theorem vec_curveLaw (F : Vec ℝ → Vec ℝ) (Bw : Vec ℝ → Vec ℝ → Vec ℝ → Vec ℝ) (D : Vec ℝ → Vec ℝ → Vec ℝ)
    (n m : Nat) (x0 : Vec ℝ)
    (H : ∀ (x : ℝ → Vec ℝ) (t : Vec ℝ), x 0 = x0 → (∀ i, i < n → HasDerivAt (fun ε => x ε i) (t i) 0) →
      ∀ i, i < m → HasDerivAt (fun ε => F (x ε) i) (D x0 t i) 0) :
    CurveLawAt (vecOp F Bw) [n] [m] (vecJvp D) [x0] := by
  intro X T Y hX0 hlen hTlen hder hY j hj i hi
  have hj0 : j = 0 := by simpa using hj
  subst hj0
  obtain ⟨t, rfl⟩ := list_len1 (by simpa using hTlen)
  have hx : ∀ ε, X ε = [(X ε).getD 0 fun _ => 0] := by
    intro ε
    obtain ⟨x, hx⟩ := list_len1 (show (X ε).length = 1 by simpa using hlen ε)
    rw [hx]; rfl
  have hy : ∀ ε, Y ε = [F ((X ε).getD 0 fun _ => 0)] := by
    intro ε
    have h := hY ε
    rw [hx ε] at h
    exact (Option.some.inj h).symm
  have hfun : (fun ε => (Y ε).getD 0 (fun _ => 0) i) = fun ε => F ((X ε).getD 0 fun _ => 0) i := by
    funext ε; rw [hy ε]; rfl
  rw [hfun]
  exact H (fun ε => (X ε).getD 0 fun _ => 0) t (by simp [hX0])
    (fun i' hi' => hder 0 (by simp) i' (by simpa using hi')) i (by simpa using hi)

/-- adjoint law of `vecOp F Bw` from `⟪Bw x0 y0 g, t⟫ = ⟪g, D x0 t⟫` -/
theorem vec_adjointLaw (F : Vec ℝ → Vec ℝ) (Bw : Vec ℝ → Vec ℝ → Vec ℝ → Vec ℝ) (D : Vec ℝ → Vec ℝ → Vec ℝ)
    (n m : Nat) (x0 y0 : Vec ℝ) (H : ∀ g t : Vec ℝ, dot n (Bw x0 y0 g) t = dot m g (D x0 t)) :
    AdjointLawAt (vecOp F Bw) [n] [m] (vecJvp D) [x0] [y0] := by
  intro gys ts hg ht
  obtain ⟨g, rfl⟩ := list_len1 (by simpa using hg)
  obtain ⟨t, rfl⟩ := list_len1 (by simpa using ht)
  simp only [vecOp, vecJvp, listContrib, List.length_cons, List.length_nil, Nat.zero_add,
    sum_range_one, List.getD_cons_zero, add_zero]
  exact H g t

theorem dot_one (g t : Vec ℝ) : dot 1 g t = g 0 * t 0 := by simp [dot]

/-! ### logsumexp and softmax -/

/-- `log Σ_{i<n} exp x_i` -/
noncomputable def lse (n : Nat) (x : Vec ℝ) : ℝ := Real.log (∑ i ∈ range n, Real.exp (x i))

/-- `softmax(x)_i = exp (x_i − lse x)` -/
noncomputable def smax (n : Nat) (x : Vec ℝ) (i : Nat) : ℝ := Real.exp (x i - lse n x)

theorem sumExp_pos {n : Nat} (hn : 0 < n) (x : Vec ℝ) : 0 < ∑ i ∈ range n, Real.exp (x i) :=
  sum_pos (fun _ _ => Real.exp_pos _) ⟨0, mem_range.2 hn⟩

theorem smax_eq {n : Nat} (hn : 0 < n) (x : Vec ℝ) (i : Nat) :
    smax n x i = Real.exp (x i) / ∑ k ∈ range n, Real.exp (x k) := by
  unfold smax lse
  rw [Real.exp_sub, Real.exp_log (sumExp_pos hn x)]

/-- the derivative of logsumexp along a curve: `Σ_i softmax_i · t_i` -/
theorem lse_hasDerivAt {n : Nat} (hn : 0 < n) (x : ℝ → Vec ℝ) (t : Vec ℝ)
    (h : ∀ i, i < n → HasDerivAt (fun ε => x ε i) (t i) 0) :
    HasDerivAt (fun ε => lse n (x ε)) (∑ i ∈ range n, smax n (x 0) i * t i) 0 := by
  have hS : HasDerivAt (fun ε => ∑ i ∈ range n, Real.exp (x ε i)) (∑ i ∈ range n, Real.exp (x 0 i) * t i) 0 :=
    HasDerivAt.fun_sum fun i hi => (h i (mem_range.1 hi)).exp
  have hpos := sumExp_pos hn (x 0)
  have hL := hS.log hpos.ne'
  unfold lse
  refine hL.congr_deriv ?_
  rw [div_eq_mul_inv, sum_mul]
  refine sum_congr rfl fun i _ => ?_
  rw [smax_eq hn]
  ring

/-- the derivative of softmax along a curve: `s_i · (t_i − Σ_k s_k t_k)` -/
theorem smax_hasDerivAt {n : Nat} (hn : 0 < n) (x : ℝ → Vec ℝ) (t : Vec ℝ)
    (h : ∀ i, i < n → HasDerivAt (fun ε => x ε i) (t i) 0) (i : Nat) (hi : i < n) :
    HasDerivAt (fun ε => smax n (x ε) i)
      (smax n (x 0) i * (t i - ∑ k ∈ range n, smax n (x 0) k * t k)) 0 := by
  unfold smax
  exact ((h i hi).sub (lse_hasDerivAt hn x t h)).exp

/-! ### max and min over a vector -/

/-- the maximum of the first `n` entries (0 for `n = 0`) -/
noncomputable def vmax (n : Nat) (x : Vec ℝ) : ℝ :=
  if h : 0 < n then (range n).sup' ⟨0, mem_range.2 h⟩ x else 0

/-- the minimum of the first `n` entries (0 for `n = 0`) -/
noncomputable def vmin (n : Nat) (x : Vec ℝ) : ℝ :=
  if h : 0 < n then (range n).inf' ⟨0, mem_range.2 h⟩ x else 0

theorem vmax_eq {n k : Nat} (hk : k < n) (x : Vec ℝ) (h : ∀ i, i < n → x i ≤ x k) : vmax n x = x k := by
  unfold vmax
  rw [dif_pos (Nat.lt_of_le_of_lt (Nat.zero_le _) hk)]
  exact le_antisymm (Finset.sup'_le _ _ fun i hi => h i (mem_range.1 hi)) (Finset.le_sup' x (mem_range.2 hk))

theorem vmin_eq {n k : Nat} (hk : k < n) (x : Vec ℝ) (h : ∀ i, i < n → x k ≤ x i) : vmin n x = x k := by
  unfold vmin
  rw [dif_pos (Nat.lt_of_le_of_lt (Nat.zero_le _) hk)]
  exact le_antisymm (Finset.inf'_le x (mem_range.2 hk)) (Finset.le_inf' _ _ fun i hi => h i (mem_range.1 hi))

/-- at a point where the maximum is attained only at `k`, `vmax` follows entry `k` along a curve -/
theorem vmax_hasDerivAt {n k : Nat} (hk : k < n) (x : ℝ → Vec ℝ) (t : Vec ℝ)
    (h : ∀ i, i < n → HasDerivAt (fun ε => x ε i) (t i) 0)
    (huniq : ∀ i, i < n → i ≠ k → x 0 i < x 0 k) :
    HasDerivAt (fun ε => vmax n (x ε)) (t k) 0 := by
  refine (h k hk).congr_of_eventuallyEq ?_
  have hev : ∀ᶠ ε in nhds (0 : ℝ), ∀ i ∈ range n, i ≠ k → x ε i < x ε k := by
    rw [Filter.eventually_all_finset]
    intro i hi
    by_cases hik : i = k
    · exact Filter.Eventually.of_forall fun ε h' => absurd hik h'
    · have hlt := huniq i (mem_range.1 hi) hik
      have := (h i (mem_range.1 hi)).continuousAt.eventually_lt (h k hk).continuousAt hlt
      exact this.mono fun ε hε _ => hε
  refine hev.mono fun ε hε => ?_
  refine vmax_eq hk (x ε) fun i hi => ?_
  by_cases hik : i = k
  · rw [hik]
  · exact (hε i (mem_range.2 hi) hik).le

theorem vmin_hasDerivAt {n k : Nat} (hk : k < n) (x : ℝ → Vec ℝ) (t : Vec ℝ)
    (h : ∀ i, i < n → HasDerivAt (fun ε => x ε i) (t i) 0)
    (huniq : ∀ i, i < n → i ≠ k → x 0 k < x 0 i) :
    HasDerivAt (fun ε => vmin n (x ε)) (t k) 0 := by
  refine (h k hk).congr_of_eventuallyEq ?_
  have hev : ∀ᶠ ε in nhds (0 : ℝ), ∀ i ∈ range n, i ≠ k → x ε k < x ε i := by
    rw [Filter.eventually_all_finset]
    intro i hi
    by_cases hik : i = k
    · exact Filter.Eventually.of_forall fun ε h' => absurd hik h'
    · have hlt := huniq i (mem_range.1 hi) hik
      have := (h k hk).continuousAt.eventually_lt (h i (mem_range.1 hi)).continuousAt hlt
      exact this.mono fun ε hε _ => hε
  refine hev.mono fun ε hε => ?_
  refine vmin_eq hk (x ε) fun i hi => ?_
  by_cases hik : i = k
  · rw [hik]
  · exact (hε i (mem_range.2 hi) hik).le

/-! ### the operator semantics -/

/-- logsumexp over the whole vector of `n` elements; backward `gx_i += gy · exp (x_i − y)` -/
noncomputable def lseOp (n : Nat) : OpSem (Vec ℝ) :=
  vecOp (fun x _ => lse n x) (fun x y g i => g 0 * Real.exp (x i - y 0))
noncomputable def lseD (n : Nat) : Vec ℝ → Vec ℝ → Vec ℝ := fun x t _ => ∑ i ∈ range n, smax n x i * t i

/-- softmax over the whole vector; backward `gx_i += y_i · (gy_i − Σ_k gy_k y_k)` -/
noncomputable def softmaxOp (n : Nat) : OpSem (Vec ℝ) :=
  vecOp (fun x i => smax n x i) (fun _ y g i => y i * (g i - ∑ k ∈ range n, g k * y k))
noncomputable def softmaxD (n : Nat) : Vec ℝ → Vec ℝ → Vec ℝ :=
  fun x t i => smax n x i * (t i - ∑ k ∈ range n, smax n x k * t k)

/-- log_softmax over the whole vector; backward `gx_i += gy_i − exp(y_i) · Σ_k gy_k` -/
noncomputable def logSoftmaxOp (n : Nat) : OpSem (Vec ℝ) :=
  vecOp (fun x i => x i - lse n x) (fun _ y g i => g i - Real.exp (y i) * ∑ k ∈ range n, g k)
noncomputable def logSoftmaxD (n : Nat) : Vec ℝ → Vec ℝ → Vec ℝ :=
  fun x t i => t i - ∑ k ∈ range n, smax n x k * t k

/-- dense softmax cross entropy with the constant target `tgt`: `y = −Σ_i tgt_i · log_softmax(x)_i`;
backward `gx_i += gy · (softmax(x)_i · Σ_k tgt_k − tgt_i)` -/
noncomputable def sceOp (n : Nat) (tgt : Vec ℝ) : OpSem (Vec ℝ) :=
  vecOp (fun x _ => -∑ i ∈ range n, tgt i * (x i - lse n x))
    (fun x _ g i => g 0 * (smax n x i * (∑ k ∈ range n, tgt k) - tgt i))
noncomputable def sceD (n : Nat) (tgt : Vec ℝ) : Vec ℝ → Vec ℝ → Vec ℝ :=
  fun x t _ => -∑ i ∈ range n, tgt i * (t i - ∑ k ∈ range n, smax n x k * t k)

/-- max over the whole vector; backward routes `gy` to the entries equal to the maximum -/
noncomputable def maxOp (n : Nat) : OpSem (Vec ℝ) :=
  vecOp (fun x _ => vmax n x) (fun x y g i => if x i = y 0 then g 0 else 0)
/-- min over the whole vector; backward routes `gy` to the entries equal to the minimum -/
noncomputable def minOp (n : Nat) : OpSem (Vec ℝ) :=
  vecOp (fun x _ => vmin n x) (fun x y g i => if x i = y 0 then g 0 else 0)
/-- the Jacobian-vector product of max / min at a point whose extremum is attained only at `k` -/
def pickD (k : Nat) : Vec ℝ → Vec ℝ → Vec ℝ := fun _ t _ => t k

/-! ### finite-sum identities behind the adjoint laws -/

theorem softmax_adj_aux (n : Nat) (y g t : Vec ℝ) :
    ∑ i ∈ range n, y i * (g i - ∑ k ∈ range n, g k * y k) * t i
      = ∑ i ∈ range n, g i * (y i * (t i - ∑ k ∈ range n, y k * t k)) := by
  have h1 : ∀ G : ℝ, ∑ i ∈ range n, y i * (g i - G) * t i
      = ∑ i ∈ range n, g i * y i * t i - (∑ k ∈ range n, y k * t k) * G := by
    intro G; rw [sum_mul, ← sum_sub_distrib]; exact sum_congr rfl fun i _ => by ring
  have h2 : ∀ T : ℝ, ∑ i ∈ range n, g i * (y i * (t i - T))
      = ∑ i ∈ range n, g i * y i * t i - (∑ k ∈ range n, g k * y k) * T := by
    intro T; rw [sum_mul, ← sum_sub_distrib]; exact sum_congr rfl fun i _ => by ring
  rw [h1, h2]; ring

theorem logSoftmax_adj_aux (n : Nat) (s g t : Vec ℝ) :
    ∑ i ∈ range n, (g i - s i * ∑ k ∈ range n, g k) * t i
      = ∑ i ∈ range n, g i * (t i - ∑ k ∈ range n, s k * t k) := by
  have h1 : ∀ G : ℝ, ∑ i ∈ range n, (g i - s i * G) * t i
      = ∑ i ∈ range n, g i * t i - (∑ k ∈ range n, s k * t k) * G := by
    intro G; rw [sum_mul, ← sum_sub_distrib]; exact sum_congr rfl fun i _ => by ring
  have h2 : ∀ T : ℝ, ∑ i ∈ range n, g i * (t i - T)
      = ∑ i ∈ range n, g i * t i - (∑ k ∈ range n, g k) * T := by
    intro T; rw [sum_mul, ← sum_sub_distrib]; exact sum_congr rfl fun i _ => by ring
  rw [h1, h2]; ring

theorem sce_adj_aux (n : Nat) (s tgt t : Vec ℝ) (g0 : ℝ) :
    ∑ i ∈ range n, g0 * (s i * (∑ k ∈ range n, tgt k) - tgt i) * t i
      = g0 * -∑ i ∈ range n, tgt i * (t i - ∑ k ∈ range n, s k * t k) := by
  have h1 : ∀ G : ℝ, ∑ i ∈ range n, g0 * (s i * G - tgt i) * t i
      = g0 * ((∑ k ∈ range n, s k * t k) * G - ∑ i ∈ range n, tgt i * t i) := by
    intro G; rw [sum_mul, ← sum_sub_distrib, mul_sum]; exact sum_congr rfl fun i _ => by ring
  have h2 : ∀ T : ℝ, ∑ i ∈ range n, tgt i * (t i - T)
      = ∑ i ∈ range n, tgt i * t i - (∑ k ∈ range n, tgt k) * T := by
    intro T; rw [sum_mul, ← sum_sub_distrib]; exact sum_congr rfl fun i _ => by ring
  rw [h1, h2]; ring

end Primitiv.Graph
