import PrimitivModel.Lemmas.MovePlans
/-
Acceptance of the per-sample calls: when a backward entry point accepts
operands with a minibatch, it accepts the same call on one sample of `gy`.
-/
namespace Primitiv.Move.Front
open Primitiv Primitiv.Move Primitiv.MoveShape

theorem eq_oneSample {a b : Shape} (h : a.eq b = true) : (oneSample a).eq (oneSample b) = true := by
  unfold Shape.eq at h ⊢
  simp only [Bool.and_eq_true, beq_iff_eq] at h ⊢
  exact ⟨h.1, rfl⟩

theorem sliceBw_oneSample {sy sx : Shape} {dim offset : Nat} {p : SliceBwPlan}
    (h : sliceBw sy sx dim offset = .ok p) : ∃ p1, sliceBw (oneSample sy) sx dim offset = .ok p1 := by
  unfold sliceBw sliceBwWith at h ⊢
  have e : (oneSample sy).hasSameLooDims sx dim = sy.hasSameLooDims sx dim := rfl
  rw [e]
  cases h1 : sy.hasSameLooDims sx dim with
  | error er => simp [h1, bind, Except.bind] at h
  | ok loo =>
    simp only [h1, bind, Except.bind] at h ⊢
    split at h
    · cases h
    · rename_i hc
      simp only [Bool.or_eq_true, not_or] at hc
      have hcb : (oneSample sy).hasCompatibleBatch sx = true := by
        unfold Shape.hasCompatibleBatch oneSample; simp
      have hg : (oneSample sy).get dim = sy.get dim := rfl
      rw [hcb, hg]
      have hl : loo = true := not_not_eq hc.1.1
      have hgd : sliceBwGuard (sy.get dim) (sx.get dim) offset = false := by
        cases hh : sliceBwGuard (sy.get dim) (sx.get dim) offset with
        | false => rfl
        | true => exact absurd hh hc.2
      simp only [hl, hgd, Bool.not_true, Bool.or_self, Bool.false_eq_true, if_false]
      split <;> exact ⟨_, rfl⟩

/-- the parts of an accepted `shape_ops::pick` -/
theorem pick_inv {x y : Shape} {ids : List Nat} {dim : Nat} (h : ShapeOps.pick x ids dim = .ok y) :
    ids.length % W ≠ 0 ∧ (∀ i ∈ ids, i < x.get dim) ∧
    ∃ r, x.resizeDim dim 1 = .ok r ∧ y = { r with batch := max x.batch (ids.length % W) } := by
  unfold ShapeOps.pick at h
  simp only at h
  split at h
  · cases h
  rename_i hc
  split at h
  · cases h
  rename_i hids
  cases h1 : x.resizeDim dim 1 with
  | error e => simp [h1, bind, Except.bind] at h
  | ok r =>
    simp only [h1, bind, Except.bind] at h
    unfold Shape.updateBatch at h
    split at h
    · cases h
    split at h
    · cases h
    simp only [pure, Except.pure, Except.ok.injEq] at h
    refine ⟨by omega, ?_, r, rfl, h.symm⟩
    intro i hi
    simp only [List.any_eq_true, decide_eq_true_eq, not_exists, not_and] at hids
    have := hids i hi; omega

/-- `shape_ops::pick` with a single admissible id -/
theorem pick_single {x r : Shape} {dim id : Nat} (hx : WF x) (hr : x.resizeDim dim 1 = .ok r) (hid : id < x.get dim) :
    ShapeOps.pick x [id] dim = .ok { r with batch := max x.batch 1 } := by
  have ⟨_, _, hrw, hrb, _, _⟩ := resizeDim_ok hx hr
  unfold ShapeOps.pick
  simp only [List.length_singleton, Nat.one_mod_eq_one.mpr (by decide : W ≠ 1)]
  have h1 : ¬ ((1 : Nat) = 0 ∨ x.batch ≠ 1 ∧ x.hasBatch = true ∧ 1 > 1) := by omega
  rw [if_neg h1]
  have h2 : ¬ ([id].any fun i => decide (i ≥ x.get dim)) = true := by simp; omega
  rw [if_neg h2]
  simp only [hr, bind, Except.bind]
  unfold Shape.updateBatch
  have hb := hx.bpos
  have hfit : ¬ r.volume * max x.batch 1 > MAXU := by
    have := hrw.fits
    rw [hrb] at this
    have : max x.batch 1 = x.batch := by omega
    rw [this]
    have : MAXU + 1 = W := rfl
    omega
  rw [if_neg (by omega), if_neg hfit]; rfl

theorem pickBw_oneSample {gys gxs : Shape} {ids : List Nat} {dim : Nat} {m : Moves} (hx : WF gxs) (hbx : gxs.batch = 1)
    (h : pickBw gys gxs ids dim = .ok m) {id : Nat} (hid : id ∈ ids) :
    ∃ m1, pickBw (oneSample gys) gxs [id] dim = .ok m1 := by
  unfold pickBw at h ⊢
  cases h1 : ShapeOps.pick gxs ids dim with
  | error e => simp [h1, bind, Except.bind] at h
  | ok sy =>
    simp only [h1, bind, Except.bind] at h
    split at h
    · cases h
    rename_i he
    have he' := not_not_eq he
    obtain ⟨_, hids, r, hr, rfl⟩ := pick_inv h1
    rw [pick_single hx hr (hids id hid)]
    simp only [bind, Except.bind]
    have e : (oneSample gys).eq { r with batch := max gxs.batch 1 } = true := by
      have := eq_oneSample he'
      rw [hbx]
      exact this
    rw [e]
    exact ⟨_, rfl⟩

theorem batchPickBw_oneSample {gys gxs : Shape} {ids : List Nat} {m : Moves} (hx : WF gxs)
    (h : batchPickBw gys gxs ids = .ok m) {id : Nat} (hid : id ∈ ids) :
    ∃ m1, batchPickBw (oneSample gys) gxs [id] = .ok m1 ∧
      m1 = (batchPickMoves 1 gxs.volume [id]).swap := by
  unfold batchPickBw at h ⊢
  cases h1 : ShapeOps.batchPick gxs ids with
  | error e => simp [h1, bind, Except.bind] at h
  | ok sy =>
    simp only [h1, bind, Except.bind] at h
    split at h
    · cases h
    rename_i he
    have he' := not_not_eq he
    have ⟨_, hids, _, _, hd, _⟩ := batchPick_ok hx h1
    have hb : ShapeOps.batchPick gxs [id] = .ok { gxs with batch := 1 } := by
      unfold ShapeOps.batchPick
      simp only [List.length_singleton, Nat.one_mod_eq_one.mpr (by decide : W ≠ 1)]
      rw [if_neg (by omega)]
      have h2 : ¬ ([id].any fun i => decide (i ≥ gxs.batch)) = true := by
        have := hids id hid; simp; omega
      rw [if_neg h2]
      unfold Shape.resizeBatch Shape.updateBatch
      have : ¬ gxs.volume * 1 > MAXU := by
        have := hx.vol_lt; have : MAXU + 1 = W := rfl; omega
      rw [if_neg (by omega), if_neg this]; rfl
    rw [hb]
    simp only [bind, Except.bind]
    have e : (oneSample gys).eq { gxs with batch := 1 } = true := by
      unfold Shape.eq at he' ⊢
      simp only [Bool.and_eq_true, beq_iff_eq] at he' ⊢
      refine ⟨?_, rfl⟩
      have h3 : sy.hasSameDims gxs = true := by
        unfold Shape.hasSameDims Shape.depth; rw [hd]; simp
      unfold Shape.hasSameDims Shape.depth at he' h3 ⊢
      simp only [Bool.and_eq_true, List.all_eq_true, List.mem_range, beq_iff_eq] at he' h3 ⊢
      have hd1 : (oneSample gys).dims = gys.dims := rfl
      rw [hd1]
      exact ⟨fun i hi => by rw [he'.1.1 i hi, h3.1 i (by rw [← he'.1.2]; exact hi)], by rw [he'.1.2, h3.2]⟩
    rw [e]
    exact ⟨_, rfl, rfl⟩

theorem sliceBwGuard_false {syd sxd offset : Nat} (h1 : sxd < W) (h : offset + syd ≤ sxd) :
    sliceBwGuard syd sxd offset = false := (sliceBwGuard_iff h1 (by omega)).mpr h

theorem batchSliceBw_oneSample {sy sx : Shape} {offset b : Nat} {m : Moves} (hy : WF sy) (hx : WF sx) (hoff : offset < W)
    (h : batchSliceBw sy sx offset = .ok m) (hb : b < sy.batch) :
    batchSliceBw (oneSample sy) sx (offset + b) = .ok (batchSliceBwMoves sx.volume 1 (offset + b)) := by
  obtain ⟨_, hg, hv, _, _, _⟩ := batchSliceBw_plan hy hx hoff h
  unfold batchSliceBw batchSliceBwWith at h ⊢
  split at h
  · cases h
  rename_i hc
  simp only [Bool.or_eq_true, not_or] at hc
  have c1 : (oneSample sy).hasSameDims sx = true := not_not_eq hc.1
  have c2 : sliceBwGuard (oneSample sy).batch sx.batch (offset + b) = false :=
    sliceBwGuard_false (batch_lt hx) (by show offset + b + 1 ≤ sx.batch; omega)
  rw [c1, c2]
  simp only [Bool.not_true, Bool.or_self, Bool.false_eq_true, if_false, pure, Except.pure]
  show Except.ok (batchSliceBwMoves sy.volume 1 (offset + b)) = _
  rw [hv]

end Primitiv.Move.Front
