import PrimitivModel.Lemmas.View3
/-
Generic facts about the loop combinators of Model/KernelsMove.lean:
what the executable bound checks mean, what `scatterSet` leaves in the
destination, when `runSet` / `runAdd` / `runReduce` succeed.
-/
namespace Primitiv.Move

/-- every read index is below the size of the tensor read and every write index
below the size of the tensor written -/
def Moves.InBounds (m : Moves) (srcSize dstSize : Nat) : Prop :=
  ∀ t, t < m.count → m.sidx t < srcSize ∧ m.didx t < dstSize

/-- every element of the destination is written by some step of the loop nest -/
def Moves.WritesAll (m : Moves) (dstSize : Nat) : Prop :=
  ∀ o, o < dstSize → ∃ t, t < m.count ∧ m.didx t = o

/-- no element of the destination is written twice -/
def Moves.WritesOnce (m : Moves) : Prop :=
  ∀ t t', t < m.count → t' < m.count → m.didx t = m.didx t' → t = t'

def Reduce.InBounds (r : Reduce) (srcSize : Nat) : Prop :=
  ∀ i j, i < r.rep → j < r.n → r.off i j < srcSize

theorem allBelow_iff {f : Nat → Nat} {n b : Nat} : allBelow f n b = true ↔ ∀ t, t < n → f t < b := by
  simp [allBelow, List.all_eq_true]

theorem coversAll_iff {f : Nat → Nat} {n size : Nat} :
    coversAll f n size = true ↔ ∀ o, o < size → ∃ t, t < n ∧ f t = o := by
  simp [coversAll, List.all_eq_true, List.any_eq_true]

theorem Moves.inBounds_iff {m : Moves} {a b : Nat} : m.inBounds a b = true ↔ m.InBounds a b := by
  simp only [Moves.inBounds, Bool.and_eq_true, allBelow_iff, Moves.InBounds]
  constructor
  · intro ⟨h1, h2⟩ t ht; exact ⟨h1 t ht, h2 t ht⟩
  · intro h; exact ⟨fun t ht => (h t ht).1, fun t ht => (h t ht).2⟩

theorem Moves.swap_inBounds {m : Moves} {a b : Nat} (h : m.InBounds a b) : m.swap.InBounds b a :=
  fun t ht => ⟨(h t ht).2, (h t ht).1⟩

theorem Reduce.inBounds_iff {r : Reduce} {a : Nat} : r.inBounds a = true ↔ r.InBounds a := by
  simp only [Reduce.inBounds, List.all_eq_true, List.mem_range, allBelow_iff, Reduce.InBounds]
  constructor
  · intro h i j hi hj; exact h i hi j hj
  · intro h i hi j hj; exact h i j hi hj

/-- a sequential writer (`*dest++`) with the right count writes everything once -/
theorem writesAll_of_id {m : Moves} {size : Nat} (hd : ∀ t, m.didx t = t) (hc : m.count = size) :
    m.WritesAll size ∧ m.WritesOnce := by
  constructor
  · intro o ho; exact ⟨o, by omega, hd o⟩
  · intro t t' _ _ h; rwa [hd, hd] at h

/-! ### scatterSet -/

theorem scatterSet_untouched {α} (d s : Nat → Nat) (src dest : Nat → α) (n j : Nat)
    (h : ∀ t, t < n → d t ≠ j) : scatterSet d s src n dest j = dest j := by
  induction n with
  | zero => rfl
  | succ n ih =>
    simp only [scatterSet]
    rw [if_neg (fun e => h n (by omega) e.symm)]
    exact ih (fun t ht => h t (by omega))

/-- the value left at `d t` when no later step writes there -/
theorem scatterSet_at {α} (d s : Nat → Nat) (src dest : Nat → α) (n t : Nat) (ht : t < n)
    (h : ∀ t', t < t' → t' < n → d t' ≠ d t) : scatterSet d s src n dest (d t) = src (s t) := by
  induction n with
  | zero => omega
  | succ n ih =>
    simp only [scatterSet]
    by_cases e : t = n
    · subst e; simp
    · rw [if_neg (fun e' => h n (by omega) (by omega) e'.symm)]
      exact ih (by omega) (fun t' h1 h2 => h t' h1 (by omega))

theorem scatterSet_of_once {α} {m : Moves} (hon : m.WritesOnce) (src dest : Nat → α) {t : Nat} (ht : t < m.count) :
    scatterSet m.didx m.sidx src m.count dest (m.didx t) = src (m.sidx t) :=
  scatterSet_at _ _ _ _ _ _ ht (fun t' h1 h2 e => by have := hon t' t h2 ht e; omega)

/-! ### when the run combinators succeed -/

theorem runSet_ok {α} {m : Moves} {src : Nat → α} {n : Nat} {ys : Shape} {raw : Nat → α}
    (hb : m.InBounds n ys.size) (hw : m.WritesAll ys.size) :
    runSet m src n ys raw = .ok ⟨ys, scatterSet m.didx m.sidx src m.count raw, .here⟩ := by
  unfold runSet
  rw [Moves.inBounds_iff.mpr hb, coversAll_iff.mpr hw]; rfl

theorem runSet_inv {α} {m : Moves} {src : Nat → α} {n : Nat} {ys : Shape} {raw : Nat → α} {y : Tensor α}
    (h : runSet m src n ys raw = .ok y) :
    m.InBounds n ys.size ∧ m.WritesAll ys.size ∧ y = ⟨ys, scatterSet m.didx m.sidx src m.count raw, .here⟩ := by
  unfold runSet at h
  split at h
  · cases h
  · rename_i h1
    split at h
    · cases h
    · rename_i h2
      simp only [Bool.not_eq_eq_eq_not, Bool.not_true] at h1 h2
      simp only [pure, Except.pure, Except.ok.injEq] at h
      exact ⟨Moves.inBounds_iff.mp (by simpa using h1), coversAll_iff.mp (by simpa using h2), h.symm⟩

theorem runAdd_ok {α} [Add α] {m : Moves} {gy gx : Tensor α} (hb : m.InBounds gy.shape.size gx.shape.size) :
    runAdd m gy gx = .ok ⟨gx.shape, scatterAdd m.didx m.sidx gy.data m.count gx.data, .here⟩ := by
  unfold runAdd
  rw [Moves.inBounds_iff.mpr hb]; rfl

theorem runAdd_inv {α} [Add α] {m : Moves} {gy gx y : Tensor α} (h : runAdd m gy gx = .ok y) :
    m.InBounds gy.shape.size gx.shape.size ∧
    y = ⟨gx.shape, scatterAdd m.didx m.sidx gy.data m.count gx.data, .here⟩ := by
  unfold runAdd at h
  split at h
  · cases h
  · rename_i h1
    simp only [pure, Except.pure, Except.ok.injEq] at h
    exact ⟨Moves.inBounds_iff.mp (by simpa using h1), h.symm⟩

theorem runReduce_ok {α} {r : Reduce} {x : Tensor α} {ys : Shape} {f : (Nat → α) → (Nat → Nat) → Nat → α}
    (hb : r.InBounds x.shape.size) (hr : r.rep = ys.size) :
    runReduce r x ys f = .ok ⟨ys, fun i => f x.data (r.off i) r.n, .here⟩ := by
  unfold runReduce
  rw [Reduce.inBounds_iff.mpr hb]; simp [hr]; rfl

theorem runReduce_inv {α} {r : Reduce} {x y : Tensor α} {ys : Shape} {f : (Nat → α) → (Nat → Nat) → Nat → α}
    (h : runReduce r x ys f = .ok y) :
    r.InBounds x.shape.size ∧ r.rep = ys.size ∧ y = ⟨ys, fun i => f x.data (r.off i) r.n, .here⟩ := by
  unfold runReduce at h
  split at h
  · cases h
  · rename_i h1
    split at h
    · cases h
    · rename_i h2
      simp only [pure, Except.pure, Except.ok.injEq] at h
      exact ⟨Reduce.inBounds_iff.mp (by simpa using h1), by simpa using h2, h.symm⟩

/-! ### several loop nests into one destination (concat, batch_concat) -/

theorem runSetMany_inv_cons {α} {ys : Shape} {m : Moves} {x : Tensor α} {rest : List (Moves × Tensor α)}
    {acc d : Nat → α} (h : runSetMany ys ((m, x) :: rest) acc = .ok d) :
    m.InBounds x.shape.size ys.size ∧ runSetMany ys rest (scatterSet m.didx m.sidx x.data m.count acc) = .ok d := by
  simp only [runSetMany] at h
  split at h
  · cases h
  · rename_i h1
    exact ⟨Moves.inBounds_iff.mp (by simpa using h1), h⟩

theorem runSetMany_bounds {α} {ys : Shape} (l : List (Moves × Tensor α)) {acc d : Nat → α}
    (h : runSetMany ys l acc = .ok d) : ∀ e ∈ l, e.1.InBounds e.2.shape.size ys.size := by
  induction l generalizing acc with
  | nil => intro e he; cases he
  | cons hd tl ih =>
    obtain ⟨m, x⟩ := hd
    have ⟨h1, h2⟩ := runSetMany_inv_cons h
    intro e he
    rcases List.mem_cons.mp he with rfl | he'
    · exact h1
    · exact ih h2 e he'

theorem runSetMany_ok {α} {ys : Shape} (l : List (Moves × Tensor α)) (acc : Nat → α)
    (hb : ∀ e ∈ l, e.1.InBounds e.2.shape.size ys.size) : ∃ d, runSetMany ys l acc = .ok d := by
  induction l generalizing acc with
  | nil => exact ⟨acc, rfl⟩
  | cons hd tl ih =>
    obtain ⟨m, x⟩ := hd
    simp only [runSetMany]
    rw [Moves.inBounds_iff.mpr (hb (m, x) (List.mem_cons_self))]
    simp only [Bool.not_true, Bool.false_eq_true, if_false]
    exact ih _ (fun e he => hb e (List.mem_cons_of_mem _ he))

/-- an index no loop nest writes keeps its old value -/
theorem runSetMany_untouched {α} {ys : Shape} (l : List (Moves × Tensor α)) {acc d : Nat → α}
    (h : runSetMany ys l acc = .ok d) (o : Nat) (hno : ∀ e ∈ l, ∀ t, t < e.1.count → e.1.didx t ≠ o) : d o = acc o := by
  induction l generalizing acc with
  | nil => simp only [runSetMany, pure, Except.pure, Except.ok.injEq] at h; rw [← h]
  | cons hd tl ih =>
    obtain ⟨m, x⟩ := hd
    have ⟨_, h2⟩ := runSetMany_inv_cons h
    rw [ih h2 (fun e he => hno e (List.mem_cons_of_mem _ he))]
    exact scatterSet_untouched _ _ _ _ _ _ (fun t ht => hno (m, x) List.mem_cons_self t ht)

/-- the value an index gets from step `t` of the `p`-th loop nest, when nothing
later writes it -/
theorem runSetMany_at {α} {ys : Shape} (l : List (Moves × Tensor α)) {acc d : Nat → α}
    (h : runSetMany ys l acc = .ok d) (p : Nat) (hp : p < l.length) (t : Nat) (ht : t < l[p].1.count)
    (hin : ∀ t', t < t' → t' < l[p].1.count → l[p].1.didx t' ≠ l[p].1.didx t)
    (hlater : ∀ p' (hp' : p' < l.length), p < p' → ∀ t', t' < l[p'].1.count → l[p'].1.didx t' ≠ l[p].1.didx t) :
    d (l[p].1.didx t) = l[p].2.data (l[p].1.sidx t) := by
  induction l generalizing acc p with
  | nil => simp at hp
  | cons hd tl ih =>
    obtain ⟨m, x⟩ := hd
    have ⟨_, h2⟩ := runSetMany_inv_cons h
    cases p with
    | zero =>
      simp only [List.getElem_cons_zero] at ht hin hlater ⊢
      rw [runSetMany_untouched tl h2]
      · exact scatterSet_at _ _ _ _ _ _ ht hin
      · intro e he t' ht'
        obtain ⟨q, hq, rfl⟩ := List.getElem_of_mem he
        have := hlater (q + 1) (by simp; omega) (by omega) t' (by simpa using ht')
        simpa using this
    | succ p =>
      simp only [List.getElem_cons_succ] at ht hin hlater ⊢
      refine ih h2 p (by simpa using hp) ht hin ?_
      intro p' hp' hlt t' ht'
      have := hlater (p' + 1) (by simp; omega) (by omega) t' (by simpa using ht')
      simpa using this

theorem manyCover_iff {ms : List Moves} {size : Nat} :
    manyCover ms size = true ↔ ∀ o, o < size → ∃ m ∈ ms, ∃ t, t < m.count ∧ m.didx t = o := by
  simp [manyCover, List.all_eq_true, List.any_eq_true]

theorem checkDevice_ok {α} {x : Tensor α} (h : x.loc = .here) : checkDevice x = .ok () := by
  unfold checkDevice; rw [if_pos h]; rfl

theorem checkDevice_inv {α} {x : Tensor α} {u : Unit} (h : checkDevice x = .ok u) : x.loc = .here := by
  unfold checkDevice at h
  split at h
  · assumption
  · cases h

end Primitiv.Move
