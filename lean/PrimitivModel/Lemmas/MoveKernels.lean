import PrimitivModel.Lemmas.MoveShape
import PrimitivModel.Lemmas.MoveGeneric
/-
Index arithmetic of each kernel, over plain numbers: `L` elements below the
axis, `n` on it, `U` above it, `B` samples.  For every loop nest: all read and
write indices are in bounds, every destination element is written, and which
source element the step writing a given destination element reads.
-/
namespace Primitiv.Move
open Primitiv.View3

/-! ### slice -/

theorem sliceFw_bounds {L ny nx R off : Nat} (h : off + ny ≤ nx) (hL : 0 < L) (hny : 0 < ny) :
    (sliceFwMoves L (L * ny) (L * nx) R off).InBounds (L * nx * R) (L * ny * R) := by
  intro t ht
  simp only [sliceFwMoves] at ht ⊢
  have hs : 0 < L * ny := Nat.mul_pos hL hny
  have ⟨h1, h2⟩ := seq2_bounds ht
  constructor
  · have h3 : L * off + t % (L * ny) < L * nx := by
      calc L * off + t % (L * ny) < L * off + L * ny := by omega
        _ = L * (off + ny) := by ring
        _ ≤ L * nx := Nat.mul_le_mul_left _ h
    have := lt_mul_of_lt h3 h2
    calc L * off + t / (L * ny) * (L * nx) + t % (L * ny)
        = L * off + t % (L * ny) + L * nx * (t / (L * ny)) := by ring
      _ < L * nx * R := this
  · calc t < R * (L * ny) := ht
      _ = L * ny * R := by ring

theorem sliceFw_count {L ny R : Nat} (nx off : Nat) : (sliceFwMoves L (L * ny) (L * nx) R off).count = L * ny * R := by
  simp only [sliceFwMoves]; ring

/-- the element `(a, k, c)` of the slice is the element `(a, k + off, c)` of the source -/
theorem sliceFw_idx {L ny nx off a k c : Nat} (R : Nat) (ha : a < L) (hk : k < ny) :
    (sliceFwMoves L (L * ny) (L * nx) R off).sidx (comp3 L ny a k c) = comp3 L nx a (k + off) c := by
  simp only [sliceFwMoves, comp3]
  have hs : a + L * k < L * ny := lt_mul_of_lt ha hk
  have e : a + L * (k + ny * c) = (a + L * k) + (L * ny) * c := by ring
  rw [e, Nat.add_mul_mod_self_left, Nat.mod_eq_of_lt hs, Nat.add_mul_div_left _ _ (by omega), Nat.div_eq_of_lt hs]
  ring

/-! ### pick -/

/-- the `ids` element read for sample `b` exists and is a valid position -/
theorem pick_id_ok {ids : List Nat} {Bx nx b : Nat} (hpos : 0 < ids.length)
    (hcomp : Bx = ids.length ∨ Bx = 1 ∨ ids.length = 1) (hids : ∀ i ∈ ids, i < nx) (hBx : 0 < Bx)
    (hb : b < max Bx ids.length) :
    b * b2n (ids.length > 1) < ids.length ∧ ids.getD (b * b2n (ids.length > 1)) 0 < nx := by
  have h1 : b * b2n (ids.length > 1) < ids.length := by
    unfold b2n
    by_cases h : ids.length > 1
    · simp only [h, decide_true, if_true, Nat.mul_one]
      rcases hcomp with e | e | e <;> omega
    · simp only [h, decide_false]; simp; omega
  refine ⟨h1, ?_⟩
  have : ids.getD (b * b2n (ids.length > 1)) 0 = ids[b * b2n (ids.length > 1)]'h1 := by
    simp [List.getD, List.getElem?_eq_getElem h1]
  rw [this]; exact hids _ (List.getElem_mem h1)

theorem pick_bounds {L nx U Bx : Nat} {ids : List Nat} (hL : 0 < L) (hU : 0 < U) (hBx : 0 < Bx)
    (hpos : 0 < ids.length) (hcomp : Bx = ids.length ∨ Bx = 1 ∨ ids.length = 1) (hids : ∀ i ∈ ids, i < nx) :
    (pickMoves (max Bx ids.length) ((if Bx = 1 then 0 else 1) * (L * nx * U)) (b2n (ids.length > 1)) L (L * nx) U ids).InBounds
      (L * nx * U * Bx) (L * U * max Bx ids.length) := by
  intro t ht
  simp only [pickMoves] at ht ⊢
  have ⟨h1, h2, h3⟩ := seq3_bounds ht
  have ⟨_, hid⟩ := pick_id_ok hpos hcomp hids hBx h3
  refine ⟨?_, by rw [show L * U * max Bx ids.length = max Bx ids.length * U * L by ring]; exact ht⟩
  generalize ids.getD (t / (L * U) * b2n (ids.length > 1)) 0 = id at hid
  have e1 : t % L + L * id < L * nx := lt_mul_of_lt h1 hid
  have e2 : (t % L + L * id) + L * nx * (t / L % U) < L * nx * U := lt_mul_of_lt e1 h2
  by_cases hb1 : Bx = 1
  · subst hb1; simp only [if_true, Nat.zero_mul, Nat.mul_zero, Nat.zero_add, Nat.mul_one]
    calc L * id + t / L % U * (L * nx) + t % L = (t % L + L * id) + L * nx * (t / L % U) := by ring
      _ < L * nx * U := e2
  · simp only [hb1, if_false, Nat.one_mul]
    have hmax : max Bx ids.length = Bx := by rcases hcomp with e | e | e <;> omega
    rw [hmax] at h3
    have e3 := lt_mul_of_lt e2 h3
    calc t / (L * U) * (L * nx * U) + L * id + t / L % U * (L * nx) + t % L
        = (t % L + L * id) + L * nx * (t / L % U) + L * nx * U * (t / (L * U)) := by ring
      _ < L * nx * U * Bx := e3

theorem pick_count (B sX sI L skip U : Nat) (ids : List Nat) : (pickMoves B sX sI L skip U ids).count = L * U * B := by
  simp only [pickMoves]; ring

/-- destination element `(a, c, b)` is source element `(a, ids[b·skip_i], c)` of sample `b·[x has a batch]` -/
theorem pick_idx {B sX sI L nx U a c b : Nat} (ids : List Nat) (ha : a < L) (hc : c < U) :
    (pickMoves B sX sI L (L * nx) U ids).sidx (a + L * (c + U * b)) =
      b * sX + comp3 L nx a (ids.getD (b * sI) 0) c := by
  simp only [pickMoves, comp3]
  have e : a + L * (c + U * b) = (b * U + c) * L + a := by ring
  have ⟨i1, i2, i3⟩ := seq3_index (B := U) (C := L) (b := b) hc ha
  rw [e, i1, i2, i3]; ring

/-! ### slice_bw and inplace_add -/

theorem hb_mul_lt {V B bs b : Nat} {v : Nat} (hv : v < V) (hB : 0 < B) (hb : b < bs) (hbs : B = 1 ∨ bs = B) :
    b * ((if B = 1 then 0 else 1) * V) + v < V * B := by
  by_cases h1 : B = 1
  · subst h1; simp; omega
  · simp only [h1, if_false, Nat.one_mul]
    have : bs = B := by omega
    subst this
    have := lt_mul_of_lt hv hb
    calc b * V + v = v + V * b := by ring
      _ < V * bs := this

theorem sliceBw_bounds {L ny nx U Bx By off : Nat} (h : off + ny ≤ nx) (hL : 0 < L) (hny : 0 < ny) (hU : 0 < U)
    (hBx : 0 < Bx) (hBy : 0 < By) (hcomp : By = Bx ∨ By = 1 ∨ Bx = 1) (hfit : L * nx * U * Bx < W) :
    (sliceBwMoves L (L * ny) (L * nx) U (max Bx By) ((if Bx = 1 then 0 else 1) * (L * nx * U))
        ((if By = 1 then 0 else 1) * (L * ny * U)) off).InBounds (L * ny * U * By) (L * nx * U * Bx) := by
  intro t ht
  simp only [sliceBwMoves] at ht ⊢
  have ⟨h1, h2, h3⟩ := seq3_bounds ht
  have hnx : 0 < nx := by omega
  have hoff : L * off < W := by
    have : L * off ≤ L * nx * U * Bx := by
      calc L * off ≤ L * nx := Nat.mul_le_mul_left _ (by omega)
        _ = L * nx * 1 * 1 := by ring
        _ ≤ L * nx * U * Bx := Nat.mul_le_mul (Nat.mul_le_mul_left _ hU) hBx
    omega
  have hm : mul32 L off = L * off := Nat.mod_eq_of_lt hoff
  rw [hm]
  constructor
  · -- source (gy)
    have e1 : t % (L * ny) + L * ny * (t / (L * ny) % U) < L * ny * U := lt_mul_of_lt h1 h2
    have := hb_mul_lt (V := L * ny * U) (B := By) e1 hBy h3 (by rcases hcomp with e | e | e <;> omega)
    calc t / (L * ny * U) * ((if By = 1 then 0 else 1) * (L * ny * U)) + t / (L * ny) % U * (L * ny) + t % (L * ny)
        = t / (L * ny * U) * ((if By = 1 then 0 else 1) * (L * ny * U)) + (t % (L * ny) + L * ny * (t / (L * ny) % U)) := by ring
      _ < L * ny * U * By := this
  · -- destination (gx)
    have e0 : L * off + t % (L * ny) < L * nx := by
      calc L * off + t % (L * ny) < L * off + L * ny := by omega
        _ = L * (off + ny) := by ring
        _ ≤ L * nx := Nat.mul_le_mul_left _ h
    have e1 : (L * off + t % (L * ny)) + L * nx * (t / (L * ny) % U) < L * nx * U := lt_mul_of_lt e0 h2
    have := hb_mul_lt (V := L * nx * U) (B := Bx) e1 hBx h3 (by rcases hcomp with e | e | e <;> omega)
    calc L * off + t / (L * ny * U) * ((if Bx = 1 then 0 else 1) * (L * nx * U)) + t / (L * ny) % U * (L * nx) + t % (L * ny)
        = t / (L * ny * U) * ((if Bx = 1 then 0 else 1) * (L * nx * U)) + ((L * off + t % (L * ny)) + L * nx * (t / (L * ny) % U)) := by ring
      _ < L * nx * U * Bx := this

theorem inplaceAdd_bounds {V Bx By : Nat} (hV : 0 < V) (hBx : 0 < Bx) (hBy : 0 < By) (hcomp : By = Bx ∨ By = 1 ∨ Bx = 1) :
    (inplaceAddMoves V (max By Bx) ((if Bx = 1 then 0 else 1) * V) ((if By = 1 then 0 else 1) * V)).InBounds
      (V * By) (V * Bx) := by
  intro t ht
  simp only [inplaceAddMoves] at ht ⊢
  have ⟨h1, h2⟩ := seq2_bounds ht
  exact ⟨hb_mul_lt h1 hBy h2 (by rcases hcomp with e | e | e <;> omega),
         hb_mul_lt h1 hBx h2 (by rcases hcomp with e | e | e <;> omega)⟩

/-! ### transpose -/

theorem transpose_bounds (d1 d2 bs : Nat) :
    (transposeMoves d1 d2 bs).InBounds (d1 * d2 * bs) (d1 * d2 * bs) := by
  intro t ht
  simp only [transposeMoves] at ht ⊢
  have ht' : t < bs * d2 * d1 := by rw [show bs * d2 * d1 = bs * (d1 * d2) by ring]; exact ht
  have ⟨h1, h2, h3⟩ := seq3_bounds ht'
  refine ⟨by rw [show d1 * d2 * bs = bs * (d1 * d2) by ring]; exact ht, ?_⟩
  have e1 : t / d1 % d2 + d2 * (t % d1) < d2 * d1 := lt_mul_of_lt h2 h1
  have e2 := lt_mul_of_lt e1 h3
  calc t / (d1 * d2) * (d1 * d2) + t / d1 % d2 + t % d1 * d2
      = (t / d1 % d2 + d2 * (t % d1)) + d2 * d1 * (t / (d1 * d2)) := by ring
    _ < d2 * d1 * bs := e2
    _ = d1 * d2 * bs := by ring

/-- element `(i, j)` of sample `k` of the source goes to element `(j, i)` of sample `k` -/
theorem transpose_didx {d1 d2 i j k : Nat} (bs : Nat) (hi : i < d1) (hj : j < d2) :
    (transposeMoves d1 d2 bs).didx (i + d1 * (j + d2 * k)) = j + d2 * (i + d1 * k) := by
  simp only [transposeMoves]
  have e : i + d1 * (j + d2 * k) = (k * d2 + j) * d1 + i := by ring
  have ⟨i1, i2, i3⟩ := seq3_index (B := d2) (C := d1) (b := k) hj hi
  rw [e, i1, i2, i3]; ring

theorem transpose_writes {d1 d2 bs : Nat} (h1 : 0 < d1) (h2 : 0 < d2) :
    (transposeMoves d1 d2 bs).WritesAll (d1 * d2 * bs) ∧ (transposeMoves d1 d2 bs).WritesOnce := by
  constructor
  · intro o ho
    -- o = j + d2 * (i + d1 * k)
    have ho' : o < d2 * d1 * bs := by rw [show d2 * d1 * bs = d1 * d2 * bs by ring]; exact ho
    refine ⟨below d1 (o / d2) + d1 * (below d2 o + d2 * (above d2 d1 o)), ?_, ?_⟩
    · simp only [transposeMoves]
      have := comp3_lt (lo := d1) (n := d2) (hi := bs) (below_lt (i := o / d2) h1) (below_lt (i := o) h2) (above_lt ho')
      unfold comp3 at this
      calc _ < d1 * d2 * bs := this
        _ = bs * (d1 * d2) := by ring
    · rw [transpose_didx bs (below_lt h1) (below_lt h2)]
      have := comp3_decomp d2 d1 o
      unfold comp3 onAxis at this
      exact this
  · intro t t' ht ht' h
    simp only [transposeMoves] at ht ht' h
    have hh : ∀ s, s < bs * (d1 * d2) → s / (d1 * d2) * (d1 * d2) + s / d1 % d2 + s % d1 * d2
        = comp3 d2 d1 (s / d1 % d2) (s % d1) (s / (d1 * d2)) := by
      intro s _; unfold comp3; ring
    rw [hh t ht, hh t' ht'] at h
    have ⟨a, b, c⟩ := comp3_inj (Nat.mod_lt _ h2) (Nat.mod_lt _ h1) (Nat.mod_lt _ h2) (Nat.mod_lt _ h1) h
    have r1 := seq3_recompose d2 d1 t
    have r2 := seq3_recompose d2 d1 t'
    rw [a, b, c] at r1
    omega

/-! ### flip -/

theorem flip_offset {L n i : Nat} (hn : 0 < n) (hL : 0 < L) :
    i * n - i % L * (n - 1) = comp3 L n (i % L) 0 (i / L) := by
  unfold comp3
  have h := Nat.div_add_mod i L
  obtain ⟨m, rfl⟩ : ∃ m, n = m + 1 := ⟨n - 1, by omega⟩
  simp only [Nat.add_sub_cancel]
  have : i * (m + 1) = i % L * m + (i % L + L * (0 + (m + 1) * (i / L))) := by
    conv => lhs; rw [← h]
    ring
  omega

theorem flip_idx {L n R t : Nat} (hn : 0 < n) (hL : 0 < L) (ht : t < n * (L * R)) :
    (flipMoves n L (L * R)).didx t = comp3 L n (t % (L * R) % L) (t / (L * R)) (t % (L * R) / L) ∧
    (flipMoves n L (L * R)).sidx t = comp3 L n (t % (L * R) % L) (n - t / (L * R) - 1) (t % (L * R) / L) ∧
    t / (L * R) < n ∧ t % (L * R) / L < R := by
  simp only [flipMoves]
  have ⟨h1, h2⟩ := seq2_bounds ht
  rw [flip_offset hn hL]
  refine ⟨by unfold comp3; ring, by unfold comp3; ring, h2, Nat.div_lt_of_lt_mul h1⟩

theorem flip_bounds {L n R : Nat} (hn : 0 < n) (hL : 0 < L) :
    (flipMoves n L (L * R)).InBounds (L * n * R) (L * n * R) := by
  intro t ht
  simp only [show (flipMoves n L (L * R)).count = n * (L * R) from rfl] at ht
  have ⟨e1, e2, h2, h3⟩ := flip_idx hn hL ht
  rw [e1, e2]
  generalize t / (L * R) = q at h2 ⊢
  exact ⟨comp3_lt (Nat.mod_lt _ hL) (by omega) h3, comp3_lt (Nat.mod_lt _ hL) h2 h3⟩

/-- step index of the flip loop writing destination element `(a, k, c)` -/
def flipStep (L R a k c : Nat) : Nat := k * (L * R) + (a + L * c)

theorem flipStep_spec {L n R a k c : Nat} (ha : a < L) (hk : k < n) (hc : c < R) :
    flipStep L R a k c < n * (L * R) ∧
    (flipMoves n L (L * R)).didx (flipStep L R a k c) = comp3 L n a k c ∧
    (flipMoves n L (L * R)).sidx (flipStep L R a k c) = comp3 L n a (n - k - 1) c := by
  have hL : 0 < L := by omega
  have hn : 0 < n := by omega
  have hi : a + L * c < L * R := lt_mul_of_lt ha hc
  have hlt : flipStep L R a k c < n * (L * R) := by
    unfold flipStep
    have := lt_mul_of_lt hi hk
    calc k * (L * R) + (a + L * c) = (a + L * c) + L * R * k := by ring
      _ < L * R * n := this
      _ = n * (L * R) := by ring
  have ⟨e1, e2, _, _⟩ := flip_idx hn hL hlt
  have m1 : flipStep L R a k c % (L * R) = a + L * c := by
    unfold flipStep; rw [Nat.mul_comm k, Nat.mul_add_mod, Nat.mod_eq_of_lt hi]
  have m2 : flipStep L R a k c / (L * R) = k := by
    unfold flipStep; rw [Nat.mul_comm k, Nat.mul_add_div (by omega), Nat.div_eq_of_lt hi]; omega
  have m3 : (a + L * c) % L = a := by rw [Nat.add_mul_mod_self_left, Nat.mod_eq_of_lt ha]
  have m4 : (a + L * c) / L = c := by rw [Nat.add_mul_div_left _ _ hL, Nat.div_eq_of_lt ha]; omega
  rw [m1, m2, m3, m4] at e1 e2
  exact ⟨hlt, e1, e2⟩

theorem flip_writes {L n R : Nat} (hn : 0 < n) (hL : 0 < L) :
    (flipMoves n L (L * R)).WritesAll (L * n * R) ∧ (flipMoves n L (L * R)).WritesOnce := by
  constructor
  · intro o ho
    have ⟨h1, h2, _⟩ := flipStep_spec (L := L) (n := n) (R := R) (below_lt (i := o) hL) (onAxis_lt (lo := L) (i := o) hn) (above_lt ho)
    exact ⟨_, h1, by rw [h2, comp3_decomp]⟩
  · intro t t' ht ht' h
    simp only [show (flipMoves n L (L * R)).count = n * (L * R) from rfl] at ht ht'
    have ⟨e1, _, h2, _⟩ := flip_idx hn hL ht
    have ⟨e1', _, h2', _⟩ := flip_idx hn hL ht'
    rw [e1, e1'] at h
    have ⟨a, b, c⟩ := comp3_inj (Nat.mod_lt _ hL) h2 (Nat.mod_lt _ hL) h2' h
    have r1 := Nat.div_add_mod t (L * R)
    have r2 := Nat.div_add_mod t' (L * R)
    have r3 := Nat.div_add_mod (t % (L * R)) L
    have r4 := Nat.div_add_mod (t' % (L * R)) L
    rw [a, c] at r3
    have : t % (L * R) = t' % (L * R) := by omega
    rw [b, this] at r1
    omega

/-! ### broadcast -/

theorem broadcast_idx {L size R t : Nat} (hs : 0 < size) (ht : t < L * R * size) :
    (broadcastMoves (L * R) L size).didx t = comp3 L size (t / size % L) (t % size) (t / size / L) ∧
    (broadcastMoves (L * R) L size).sidx t = t / size ∧ t / size < L * R ∧ t % size < size := by
  simp only [broadcastMoves]
  have ⟨h1, h2⟩ := seq2_bounds ht
  exact ⟨axisOff_eq_comp3 _ _ _ _, trivial, h2, Nat.mod_lt _ hs⟩

theorem broadcast_bounds {L size R : Nat} (hs : 0 < size) (hL : 0 < L) :
    (broadcastMoves (L * R) L size).InBounds (L * R) (L * size * R) := by
  intro t ht
  simp only [show (broadcastMoves (L * R) L size).count = L * R * size from rfl] at ht
  have ⟨e1, e2, h2, h3⟩ := broadcast_idx hs ht
  rw [e1, e2]
  exact ⟨h2, comp3_lt (Nat.mod_lt _ hL) h3 (Nat.div_lt_of_lt_mul h2)⟩

theorem broadcast_step {L size R a k c : Nat} (ha : a < L) (hk : k < size) (hc : c < R) :
    (a + L * c) * size + k < L * R * size ∧
    (broadcastMoves (L * R) L size).didx ((a + L * c) * size + k) = comp3 L size a k c ∧
    (broadcastMoves (L * R) L size).sidx ((a + L * c) * size + k) = a + L * c := by
  have hL : 0 < L := by omega
  have hs : 0 < size := by omega
  have hi : a + L * c < L * R := lt_mul_of_lt ha hc
  have hlt : (a + L * c) * size + k < L * R * size := by
    have := lt_mul_of_lt hk hi
    calc (a + L * c) * size + k = k + size * (a + L * c) := by ring
      _ < size * (L * R) := this
      _ = L * R * size := by ring
  have ⟨e1, e2, _, _⟩ := broadcast_idx hs hlt
  have m1 : ((a + L * c) * size + k) / size = a + L * c := by
    rw [Nat.mul_comm, Nat.mul_add_div hs, Nat.div_eq_of_lt hk]; omega
  have m2 : ((a + L * c) * size + k) % size = k := by
    rw [Nat.mul_comm, Nat.mul_add_mod, Nat.mod_eq_of_lt hk]
  have m3 : (a + L * c) % L = a := by rw [Nat.add_mul_mod_self_left, Nat.mod_eq_of_lt ha]
  have m4 : (a + L * c) / L = c := by rw [Nat.add_mul_div_left _ _ hL, Nat.div_eq_of_lt ha]; omega
  rw [m1, m2, m3, m4] at e1
  rw [m1] at e2
  exact ⟨hlt, e1, e2⟩

theorem broadcast_writes {L size R : Nat} (hs : 0 < size) (hL : 0 < L) :
    (broadcastMoves (L * R) L size).WritesAll (L * size * R) ∧ (broadcastMoves (L * R) L size).WritesOnce := by
  constructor
  · intro o ho
    have ⟨h1, h2, _⟩ := broadcast_step (L := L) (size := size) (R := R) (below_lt (i := o) hL)
      (onAxis_lt (lo := L) (i := o) hs) (above_lt ho)
    exact ⟨_, h1, by rw [h2, comp3_decomp]⟩
  · intro t t' ht ht' h
    simp only [show (broadcastMoves (L * R) L size).count = L * R * size from rfl] at ht ht'
    have ⟨e1, _, _, h3⟩ := broadcast_idx hs ht
    have ⟨e1', _, _, h3'⟩ := broadcast_idx hs ht'
    rw [e1, e1'] at h
    have ⟨a, b, c⟩ := comp3_inj (Nat.mod_lt _ hL) h3 (Nat.mod_lt _ hL) h3' h
    have r1 := Nat.div_add_mod t size
    have r2 := Nat.div_add_mod t' size
    have r3 := Nat.div_add_mod (t / size) L
    have r4 := Nat.div_add_mod (t' / size) L
    rw [a, c] at r3
    have : t / size = t' / size := by omega
    rw [b, this] at r1
    omega

/-! ### batch kernels, copy, reductions, identity -/

theorem batchPick_bounds {V Bx : Nat} {ids : List Nat} (hids : ∀ i ∈ ids, i < Bx) :
    (batchPickMoves ids.length V ids).InBounds (V * Bx) (V * ids.length) := by
  intro t ht
  simp only [batchPickMoves] at ht ⊢
  have ⟨h1, h2⟩ := seq2_bounds ht
  refine ⟨?_, by rw [Nat.mul_comm]; exact ht⟩
  have : ids.getD (t / V) 0 = ids[t / V]'h2 := by simp [List.getD, List.getElem?_eq_getElem h2]
  rw [this]
  have := lt_mul_of_lt h1 (hids _ (List.getElem_mem h2))
  calc V * ids[t / V] + t % V = t % V + V * ids[t / V] := by ring
    _ < V * Bx := this

theorem batchSliceFw_bounds {V rep off Bx : Nat} (h : off + rep ≤ Bx) :
    (batchSliceFwMoves V rep off).InBounds (V * Bx) (V * rep) := by
  intro t ht
  simp only [batchSliceFwMoves] at ht ⊢
  refine ⟨?_, ht⟩
  calc V * off + t < V * off + V * rep := by omega
    _ = V * (off + rep) := by ring
    _ ≤ V * Bx := Nat.mul_le_mul_left _ h

theorem batchSliceBw_bounds {V rep off Bx : Nat} (h : off + rep ≤ Bx) (hfit : V * Bx < W) :
    (batchSliceBwMoves V rep off).InBounds (V * rep) (V * Bx) := by
  intro t ht
  simp only [batchSliceBwMoves] at ht ⊢
  have hle : V * off ≤ V * Bx := Nat.mul_le_mul_left _ (by omega)
  have hm : mul32 V off = V * off := Nat.mod_eq_of_lt (by omega)
  rw [hm]
  refine ⟨ht, ?_⟩
  calc V * off + t < V * off + V * rep := by omega
    _ = V * (off + rep) := by ring
    _ ≤ V * Bx := Nat.mul_le_mul_left _ h

theorem copy_bounds (n : Nat) : (copyMoves n).InBounds n n := fun _ ht => ⟨ht, ht⟩

theorem axisReduce_bounds {L n R : Nat} (hL : 0 < L) : (axisReduce (L * R) n L).InBounds (L * n * R) := by
  intro i j hi hj
  exact axisOff_lt hL hi hj

theorem batchSum_bounds (V B : Nat) : (batchSumReduce V B).InBounds (V * B) := by
  intro i b hi hb
  simp only [batchSumReduce] at hi hb ⊢
  have := lt_mul_of_lt hi hb
  calc i + b * V = i + V * b := by ring
    _ < V * B := this

theorem identity_bounds {n i : Nat} (hi : i < n) : i * (n + 1) < n * n := by
  calc i * (n + 1) = i + n * i := by ring
    _ < n * n := lt_mul_of_lt hi hi

/-! ### "fw and bw visit the same index pairs" (operands with equal minibatch size) -/

theorem hb_recompose' {V B t : Nat} (ht : t < V * B) :
    t / V * ((if B = 1 then 0 else 1) * V) + t % V = t := by
  by_cases h : B = 1
  · subst h
    rw [Nat.mul_one] at ht
    simp [Nat.div_eq_of_lt ht, Nat.mod_eq_of_lt ht]
  · simp only [h, if_false, Nat.one_mul]
    have := Nat.div_add_mod t V
    rw [Nat.mul_comm]; exact this

theorem inplaceAdd_same_idx {V B : Nat} :
    (inplaceAddMoves V (max B B) ((if B = 1 then 0 else 1) * V) ((if B = 1 then 0 else 1) * V)).count = V * B ∧
    ∀ t, t < V * B →
      (inplaceAddMoves V (max B B) ((if B = 1 then 0 else 1) * V) ((if B = 1 then 0 else 1) * V)).sidx t = t ∧
      (inplaceAddMoves V (max B B) ((if B = 1 then 0 else 1) * V) ((if B = 1 then 0 else 1) * V)).didx t = t := by
  simp only [inplaceAddMoves, max_self]
  exact ⟨by ring, fun t ht => ⟨hb_recompose' ht, hb_recompose' ht⟩⟩

theorem sliceFw_trivial {L R t : Nat} : (sliceFwMoves L (L * 1) (L * 1) R 0).sidx t = t := by
  simp only [sliceFwMoves, Nat.mul_one, Nat.mul_zero, Nat.zero_add]
  have := Nat.div_add_mod t L
  rw [Nat.mul_comm]; exact this

theorem sliceBw_same_idx {L ny nx U B off : Nat} (hoff : L * off < W) :
    let bw := sliceBwMoves L (L * ny) (L * nx) U (max B B) ((if B = 1 then 0 else 1) * (L * nx * U))
      ((if B = 1 then 0 else 1) * (L * ny * U)) off
    let fw := sliceFwMoves L (L * ny) (L * nx) (U * B) off
    bw.count = fw.count ∧ ∀ t, t < fw.count → bw.sidx t = t ∧ bw.didx t = fw.sidx t := by
  intro bw fw
  have hm : mul32 L off = L * off := Nat.mod_eq_of_lt hoff
  refine ⟨by simp only [bw, fw, sliceBwMoves, sliceFwMoves, max_self]; ring, ?_⟩
  intro t ht
  simp only [fw, sliceFwMoves] at ht
  simp only [bw, fw, sliceBwMoves, sliceFwMoves, hm]
  have ht' : t < L * ny * U * B := by calc t < U * B * (L * ny) := ht
                                          _ = L * ny * U * B := by ring
  have r1 := hb_recompose' ht'
  have e1 : t % (L * ny * U) = t / (L * ny) % U * (L * ny) + t % (L * ny) := by
    rw [Nat.mod_mul]; ring
  have e2 : t / (L * ny) = t / (L * ny * U) * U + t / (L * ny) % U := by
    have := Nat.div_add_mod (t / (L * ny)) U
    rw [Nat.div_div_eq_div_mul, Nat.mul_comm U] at this
    exact this.symm
  constructor
  · calc t / (L * ny * U) * ((if B = 1 then 0 else 1) * (L * ny * U)) + t / (L * ny) % U * (L * ny) + t % (L * ny)
        = t / (L * ny * U) * ((if B = 1 then 0 else 1) * (L * ny * U)) + t % (L * ny * U) := by rw [e1]; ring
      _ = t := r1
  · by_cases h1 : B = 1
    · subst h1
      have hq : t / (L * ny * U) = 0 := Nat.div_eq_of_lt (by rw [Nat.mul_one] at ht'; exact ht')
      have e3 : t / (L * ny) % U = t / (L * ny) := by rw [e2, hq] at *; simp
      simp only [if_true, Nat.zero_mul, Nat.mul_zero, Nat.add_zero, e3]
    · simp only [h1, if_false, Nat.one_mul]
      conv => rhs; rw [e2]
      ring

/-! ### flip and transpose as index maps on the flat range -/

/-- the flat index of the mirrored position along the axis -/
def flipMap (L n i : Nat) : Nat := comp3 L n (below L i) (n - 1 - onAxis L n i) (above L n i)

theorem flipMap_lt {L n R i : Nat} (hL : 0 < L) (hn : 0 < n) (hi : i < L * n * R) : flipMap L n i < L * n * R :=
  comp3_lt (below_lt hL) (by have := onAxis_lt (lo := L) (i := i) hn; omega) (above_lt hi)

theorem flipMap_invol {L n i : Nat} (hL : 0 < L) (hn : 0 < n) : flipMap L n (flipMap L n i) = i := by
  have hk := onAxis_lt (lo := L) (i := i) hn
  have hk' : n - 1 - onAxis L n i < n := by omega
  unfold flipMap
  rw [below_comp3 (below_lt hL), onAxis_comp3 (below_lt hL) hk', above_comp3 (below_lt hL) hk']
  have : n - 1 - (n - 1 - onAxis L n i) = onAxis L n i := by omega
  rw [this, comp3_decomp]

/-- the step of the flip loop that writes flat index `i`, and what it reads -/
theorem flip_step_of {L n R i : Nat} (hL : 0 < L) (hn : 0 < n) (hi : i < L * n * R) :
    ∃ t, t < (flipMoves n L (L * R)).count ∧ (flipMoves n L (L * R)).didx t = i ∧
      (flipMoves n L (L * R)).sidx t = flipMap L n i := by
  have hk := onAxis_lt (lo := L) (i := i) hn
  have ⟨h1, h2, h3⟩ := flipStep_spec (L := L) (n := n) (R := R) (below_lt (i := i) hL) hk (above_lt hi)
  refine ⟨_, h1, by rw [h2, comp3_decomp], ?_⟩
  rw [h3]; unfold flipMap; congr 1; omega

theorem transpose_didx_invol {d1 d2 B o : Nat} (h1 : 0 < d1) (h2 : 0 < d2) :
    (transposeMoves d2 d1 B).didx ((transposeMoves d1 d2 B).didx o) = o := by
  have e := comp3_decomp d1 d2 o
  unfold comp3 at e
  have hi := below_lt (i := o) h1
  have hj := onAxis_lt (lo := d1) (i := o) h2
  conv => lhs; rw [← e]
  rw [transpose_didx B hi hj, transpose_didx B hj hi]
  exact e

theorem transpose_didx_lt {d1 d2 B o : Nat} (ho : o < d1 * d2 * B) : (transposeMoves d1 d2 B).didx o < d1 * d2 * B :=
  ((transpose_bounds d1 d2 B) o (by simp only [transposeMoves]; calc o < d1 * d2 * B := ho
                                                                    _ = B * (d1 * d2) := by ring)).2

/-! ### the batch structure of the backward loops whose destination has batch 1 -/

/-- counters of step `t0 + K * b` of a loop nest `for b: for i < U: for j < C`, `K = U * C` -/
theorem seq3_batch {U C t0 b : Nat} (ht0 : t0 < U * C) :
    (t0 + U * C * b) % C = t0 % C ∧ (t0 + U * C * b) / C % U = t0 / C % U ∧ (t0 + U * C * b) / (C * U) = b := by
  have hC : 0 < C := by
    rcases Nat.eq_zero_or_pos C with h | h
    · subst h; simp at ht0
    · exact h
  have hU : 0 < U := by
    rcases Nat.eq_zero_or_pos U with h | h
    · subst h; simp at ht0
    · exact h
  have e1 : t0 + U * C * b = t0 + C * (U * b) := by ring
  refine ⟨by rw [e1, Nat.add_mul_mod_self_left], ?_, ?_⟩
  · rw [e1, Nat.add_mul_div_left _ _ hC, Nat.add_mul_mod_self_left]
  · rw [← Nat.div_div_eq_div_mul, e1, Nat.add_mul_div_left _ _ hC, Nat.add_mul_div_left _ _ hU,
      Nat.div_eq_of_lt (Nat.div_lt_of_lt_mul (by rw [Nat.mul_comm]; exact ht0))]
    omega

/-- slice_bw into a batch-1 `gx` from a `gy` with `B` samples: step `t0 + K b`
writes where the one-sample call writes at step `t0` and reads sample `b` -/
theorem sliceBw_fold_idx {L ny nx U B off Vx t0 b : Nat} (ht0 : t0 < U * (L * ny)) (hb : b < B) :
    let m := sliceBwMoves L (L * ny) (L * nx) U (max 1 B) ((if (1 : Nat) = 1 then 0 else 1) * Vx)
      ((if B = 1 then 0 else 1) * (L * ny * U)) off
    let m1 := sliceBwMoves L (L * ny) (L * nx) U (max 1 1) ((if (1 : Nat) = 1 then 0 else 1) * Vx)
      ((if (1 : Nat) = 1 then 0 else 1) * (L * ny * U)) off
    m.count = B * (U * (L * ny)) ∧ m1.count = U * (L * ny) ∧
    m.didx (t0 + U * (L * ny) * b) = m1.didx t0 ∧
    m.sidx (t0 + U * (L * ny) * b) = m1.sidx t0 + (L * ny * U) * b := by
  intro m m1
  have hB : 0 < B := by omega
  have ⟨e1, e2, e3⟩ := seq3_batch (U := U) (C := L * ny) (t0 := t0) (b := b) ht0
  have ⟨f1, f2, f3⟩ := seq3_batch (U := U) (C := L * ny) (t0 := t0) (b := 0) ht0
  simp only [Nat.mul_zero, Nat.add_zero] at f1 f2 f3
  refine ⟨by simp only [m, sliceBwMoves]; rw [Nat.max_eq_right hB]; ring, by simp only [m1, sliceBwMoves]; simp, ?_, ?_⟩
  · simp only [m, m1, sliceBwMoves, if_true, Nat.zero_mul, Nat.mul_zero, Nat.add_zero]
    rw [e1, e2]
  · simp only [m, m1, sliceBwMoves, if_true, Nat.zero_mul, Nat.mul_zero, Nat.zero_add]
    rw [e1, e2, e3]
    by_cases h1 : B = 1
    · subst h1
      have : b = 0 := by omega
      subst this; simp
    · simp only [h1, if_false, Nat.one_mul]; ring

/-- pick_bw into a batch-1 `gx`: step `t0 + K b` writes where the one-sample call
with the single id `ids[b]` writes at step `t0`, and reads sample `b` of `gy` -/
theorem pickBw_fold_idx {L nx U Vx t0 b : Nat} {ids : List Nat} (ht0 : t0 < U * L) (hb : b < max 1 ids.length) :
    let m := (pickMoves (max 1 ids.length) ((if (1 : Nat) = 1 then 0 else 1) * Vx) (b2n (ids.length > 1)) L (L * nx) U ids).swap
    let m1 := (pickMoves (max 1 1) ((if (1 : Nat) = 1 then 0 else 1) * Vx) (b2n ([ids.getD (b * b2n (ids.length > 1)) 0].length > 1))
      L (L * nx) U [ids.getD (b * b2n (ids.length > 1)) 0]).swap
    m.count = max 1 ids.length * (U * L) ∧ m1.count = U * L ∧
    m.didx (t0 + U * L * b) = m1.didx t0 ∧ m.sidx (t0 + U * L * b) = m1.sidx t0 + (U * L) * b := by
  intro m m1
  have ⟨e1, e2, e3⟩ := seq3_batch (U := U) (C := L) (t0 := t0) (b := b) ht0
  have ⟨f1, f2, f3⟩ := seq3_batch (U := U) (C := L) (t0 := t0) (b := 0) ht0
  simp only [Nat.mul_zero, Nat.add_zero] at f1 f2 f3
  refine ⟨by simp only [m, Moves.swap, pickMoves]; ring, by simp only [m1, Moves.swap, pickMoves]; simp, ?_, ?_⟩
  · simp only [m, m1, Moves.swap, pickMoves, if_true, Nat.zero_mul, Nat.mul_zero, Nat.zero_add]
    rw [e1, e2, e3, f3]
    simp [b2n]
  · simp only [m, m1, Moves.swap, pickMoves]

/-! ### consecutive blocks (batch_concat; the positions along the axis of concat) -/

theorem take_sum_succ_le (l : List Nat) (p : Nat) (hp : p < l.length) : (l.take p).sum + l[p] ≤ l.sum := by
  induction l generalizing p with
  | nil => simp at hp
  | cons x rest ih =>
    cases p with
    | zero => simp
    | succ p =>
      have := ih p (by simpa using hp)
      simp only [List.take_succ_cons, List.sum_cons, List.getElem_cons_succ]; omega

/-- every position below the total lies in exactly one block -/
theorem exists_block (l : List Nat) (o : Nat) (h : o < l.sum) :
    ∃ p, ∃ hp : p < l.length, (l.take p).sum ≤ o ∧ o < (l.take p).sum + l[p] := by
  induction l generalizing o with
  | nil => simp at h
  | cons x rest ih =>
    rcases Nat.lt_or_ge o x with hlt | hge
    · exact ⟨0, by simp, by simp, by simpa using hlt⟩
    · have h' : o - x < rest.sum := by simp only [List.sum_cons] at h; omega
      obtain ⟨p, hp, h1, h2⟩ := ih (o - x) h'
      refine ⟨p + 1, by simpa using hp, ?_, ?_⟩
      · simp only [List.take_succ_cons, List.sum_cons]; omega
      · simp only [List.take_succ_cons, List.sum_cons, List.getElem_cons_succ]; omega

theorem take_sum_mono (l : List Nat) {p q : Nat} (hpq : p < q) (hp : p < l.length) :
    (l.take p).sum + l[p] ≤ (l.take q).sum := by
  induction l generalizing p q with
  | nil => simp at hp
  | cons x rest ih =>
    cases q with
    | zero => omega
    | succ q =>
      cases p with
      | zero => simp
      | succ p =>
        have := ih (p := p) (q := q) (by omega) (by simpa using hp)
        simp only [List.take_succ_cons, List.sum_cons, List.getElem_cons_succ]; omega

theorem sizes_sum {xs : List Shape} {V : Nat} (h : ∀ s ∈ xs, s.size = V * s.batch) :
    (xs.map (·.size)).sum = V * (xs.map (·.batch)).sum := by
  induction xs with
  | nil => simp
  | cons x rest ih =>
    simp only [List.map_cons, List.sum_cons]
    rw [ih (fun s hs => h s (List.mem_cons_of_mem _ hs)), h x List.mem_cons_self]; ring


/-! ### concat: one operand occupying positions `s .. s+n-1` of an axis of extent `N` -/

/-- every step of the loop nest of one operand, in the three-way view -/
theorem concat_form {B L N U s n hbv t : Nat} (hL : 0 < L) (hn : 0 < n)
    (ht : t < (concatMoves B L (L * N) U (L * s) n hbv).count) :
    (concatMoves B L (L * N) U (L * s) n hbv).didx t =
      comp3 L N (t % (L * n) % L) (s + t % (L * n) / L) (t / (L * n)) ∧
    t % (L * n) / L < n ∧ t / (L * n) < B * U := by
  simp only [concatMoves] at ht ⊢
  have ⟨h1, h2⟩ := seq2_bounds ht
  refine ⟨?_, Nat.div_lt_of_lt_mul h1, h2⟩
  unfold comp3
  have := Nat.div_add_mod (t % (L * n)) L
  calc L * s + t / (L * n) * (L * N) + t % (L * n)
      = L * s + t / (L * n) * (L * N) + (L * (t % (L * n) / L) + t % (L * n) % L) := by rw [this]
    _ = _ := by ring

theorem concat_bounds {B L N U s n Bp : Nat} (hL : 0 < L) (hn : 0 < n) (hU : 0 < U) (hBp : 0 < Bp) (hs : s + n ≤ N)
    (hcomp : Bp = 1 ∨ Bp = B) :
    (concatMoves B L (L * N) U (L * s) n (if Bp = 1 then 0 else 1)).InBounds (L * n * U * Bp) (L * N * U * B) := by
  intro t ht
  have ⟨e, hk, hq⟩ := concat_form hL hn ht
  constructor
  · simp only [concatMoves] at ht ⊢
    have ht' : t < B * U * (L * n) := ht
    have ⟨h1, h2, h3⟩ := seq3_bounds ht'
    have e1 : t % (L * n) + L * n * (t / (L * n) % U) < L * n * U := lt_mul_of_lt h1 h2
    have := hb_mul_lt (V := L * n * U) (B := Bp) e1 hBp h3 (by rcases hcomp with e | e <;> omega)
    calc t / (L * n * U) * ((if Bp = 1 then 0 else 1) * (L * n) * U) + t / (L * n) % U * (L * n) + t % (L * n)
        = t / (L * n * U) * ((if Bp = 1 then 0 else 1) * (L * n * U)) + (t % (L * n) + L * n * (t / (L * n) % U)) := by ring
      _ < L * n * U * Bp := this
  · rw [e]
    have := comp3_lt (lo := L) (n := N) (hi := B * U) (Nat.mod_lt (t % (L * n)) hL) (show s + t % (L * n) / L < N by omega) hq
    calc _ < L * N * (B * U) := this
      _ = L * N * U * B := by ring

/-- the step that moves element `(a, k, c, b)` of the operand -/
theorem concat_step {B L N U s n Bp a k c b : Nat} (ha : a < L) (hk : k < n) (hc : c < U) (hb : b < B)
    (hcomp : Bp = 1 ∨ Bp = B) :
    let m := concatMoves B L (L * N) U (L * s) n (if Bp = 1 then 0 else 1)
    let t := (b * U + c) * (L * n) + (a + L * k)
    t < m.count ∧ m.didx t = comp3 L N a (s + k) (c + U * b) ∧
    m.sidx t = comp3 L n a k (c + U * (if Bp = 1 then 0 else b)) := by
  intro m t
  have hr : a + L * k < L * n := lt_mul_of_lt ha hk
  have ⟨i1, i2, i3⟩ := seq3_index (B := U) (C := L * n) (b := b) hc hr
  have hL : 0 < L := by omega
  have m3 : (a + L * k) % L = a := by rw [Nat.add_mul_mod_self_left, Nat.mod_eq_of_lt ha]
  have m4 : (a + L * k) / L = k := by rw [Nat.add_mul_div_left _ _ hL, Nat.div_eq_of_lt ha]; omega
  have hq : t / (L * n) = b * U + c := by
    show ((b * U + c) * (L * n) + (a + L * k)) / (L * n) = _
    rw [Nat.mul_comm, Nat.mul_add_div (by omega), Nat.div_eq_of_lt hr]; omega
  refine ⟨?_, ?_, ?_⟩
  · simp only [m, concatMoves]; exact seq3_lt hb hc hr
  · simp only [m, concatMoves, t]
    rw [i1, hq]; unfold comp3; ring
  · simp only [m, concatMoves, t]
    rw [i1, i2, i3]
    unfold comp3
    by_cases h1 : Bp = 1
    · simp only [h1, if_true]; ring
    · simp only [h1, if_false]; ring

/-- two steps (possibly of the loop nests of different operands) that write the
same output element are at the same position along the axis; within one
operand they are the same step -/
theorem concat_didx_eq {B L N U s n hbv s' n' hbv' t t' : Nat} (hL : 0 < L) (hn : 0 < n) (hn' : 0 < n')
    (hs : s + n ≤ N) (hs' : s' + n' ≤ N)
    (ht : t < (concatMoves B L (L * N) U (L * s) n hbv).count)
    (ht' : t' < (concatMoves B L (L * N) U (L * s') n' hbv').count)
    (e : (concatMoves B L (L * N) U (L * s) n hbv).didx t = (concatMoves B L (L * N) U (L * s') n' hbv').didx t') :
    s + t % (L * n) / L = s' + t' % (L * n') / L ∧ (s = s' → n = n' → t = t') := by
  have ⟨f1, k1, _⟩ := concat_form hL hn ht
  have ⟨f2, k2, _⟩ := concat_form hL hn' ht'
  rw [f1, f2] at e
  have ⟨a, b, c⟩ := comp3_inj (Nat.mod_lt _ hL) (show s + t % (L * n) / L < N by omega) (Nat.mod_lt _ hL)
    (show s' + t' % (L * n') / L < N by omega) e
  refine ⟨b, ?_⟩
  intro es en
  subst es; subst en
  have r1 := Nat.div_add_mod (t % (L * n)) L
  have r2 := Nat.div_add_mod (t' % (L * n)) L
  have hk : t % (L * n) / L = t' % (L * n) / L := by omega
  have hm : t % (L * n) = t' % (L * n) := by rw [← r1, ← r2, hk, a]
  have r3 := Nat.div_add_mod t (L * n)
  have r4 := Nat.div_add_mod t' (L * n)
  rw [← r3, ← r4, c, hm]

/-- inplace_add into a batch-1 destination (slice_bw on an axis at or beyond the depth) -/
theorem inplaceAdd_fold_idx {V B t0 b : Nat} (ht0 : t0 < V) (hb : b < B) :
    let m := inplaceAddMoves V (max B 1) ((if (1 : Nat) = 1 then 0 else 1) * V) ((if B = 1 then 0 else 1) * V)
    let m1 := inplaceAddMoves V (max 1 1) ((if (1 : Nat) = 1 then 0 else 1) * V) ((if (1 : Nat) = 1 then 0 else 1) * V)
    m.count = B * V ∧ m1.count = V ∧ m.didx (t0 + V * b) = m1.didx t0 ∧ m.sidx (t0 + V * b) = m1.sidx t0 + V * b := by
  intro m m1
  have hV : 0 < V := by omega
  have e1 : (t0 + V * b) % V = t0 := by rw [Nat.add_mul_mod_self_left, Nat.mod_eq_of_lt ht0]
  have e2 : (t0 + V * b) / V = b := by rw [Nat.add_mul_div_left _ _ hV, Nat.div_eq_of_lt ht0]; omega
  have e3 : t0 % V = t0 := Nat.mod_eq_of_lt ht0
  have e4 : t0 / V = 0 := Nat.div_eq_of_lt ht0
  refine ⟨by simp only [m, inplaceAddMoves]; rw [Nat.max_eq_left (by omega)], by simp [m1, inplaceAddMoves], ?_, ?_⟩
  · simp only [m, m1, inplaceAddMoves, if_true, Nat.zero_mul, Nat.mul_zero, Nat.zero_add, e1, e3]
  · simp only [m, m1, inplaceAddMoves, if_true, Nat.zero_mul, Nat.mul_zero, Nat.zero_add, e1, e2, e3, e4]
    by_cases h1 : B = 1
    · subst h1; have : b = 0 := by omega
      subst this; simp
    · simp only [h1, if_false, Nat.one_mul]; ring

/-- batch_pick_bw: sample `b` of `gy` goes where the one-sample call with the single id `ids[b]` puts it -/
theorem batchPickBw_fold_idx {V t0 b : Nat} {ids : List Nat} (ht0 : t0 < V) :
    let m := (batchPickMoves ids.length V ids).swap
    let m1 := (batchPickMoves 1 V [ids.getD b 0]).swap
    m.count = ids.length * V ∧ m1.count = 1 * V ∧ m.didx (t0 + V * b) = m1.didx t0 ∧ m.sidx (t0 + V * b) = m1.sidx t0 + V * b := by
  intro m m1
  have hV : 0 < V := by omega
  have e1 : (t0 + V * b) % V = t0 := by rw [Nat.add_mul_mod_self_left, Nat.mod_eq_of_lt ht0]
  have e2 : (t0 + V * b) / V = b := by rw [Nat.add_mul_div_left _ _ hV, Nat.div_eq_of_lt ht0]; omega
  have e3 : t0 % V = t0 := Nat.mod_eq_of_lt ht0
  have e4 : t0 / V = 0 := Nat.div_eq_of_lt ht0
  refine ⟨rfl, rfl, ?_, ?_⟩
  · simp only [m, m1, Moves.swap, batchPickMoves, e1, e2, e3, e4]; simp
  · simp only [m, m1, Moves.swap, batchPickMoves]

/-- batch_slice_bw: sample `b` of `gy` goes where the one-sample call with offset `offset + b` puts it -/
theorem batchSliceBw_fold_idx {V B off t0 b : Nat} (hfit : V * (off + b) < W) :
    let m := batchSliceBwMoves V B off
    let m1 := batchSliceBwMoves V 1 (off + b)
    m.count = B * V ∧ m1.count = 1 * V ∧ m.didx (t0 + V * b) = m1.didx t0 ∧ m.sidx (t0 + V * b) = m1.sidx t0 + V * b := by
  intro m m1
  have h1 : mul32 V (off + b) = V * (off + b) := Nat.mod_eq_of_lt hfit
  have h2 : mul32 V off = V * off := Nat.mod_eq_of_lt (by
    calc V * off ≤ V * (off + b) := Nat.mul_le_mul_left _ (by omega)
      _ < W := hfit)
  refine ⟨by simp only [m, batchSliceBwMoves]; ring, by simp only [m1, batchSliceBwMoves]; ring, ?_, ?_⟩
  · simp only [m, m1, batchSliceBwMoves, h1, h2]; ring
  · simp only [m, m1, batchSliceBwMoves]

end Primitiv.Move
