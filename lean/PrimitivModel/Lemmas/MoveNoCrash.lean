import PrimitivModel.Lemmas.MovePlans
/-
"`crash` is unreachable": the shape rules and the shape-level front-ends of the
kernels family never take a branch in which the code as written has undefined
behaviour, on well-formed shapes.  (The only such branch in the Shape model is
the division by `s[dim] = 0` in `update_dim`.)
-/
namespace Primitiv.Move
open Primitiv Primitiv.MoveShape

/-- the outcome is not "undefined behaviour" -/
def NoCrash {α} (r : R α) : Prop := r ≠ .error .crash

theorem noCrash_ok {α} (a : α) : NoCrash (Except.ok a : R α) := fun h => by cases h
theorem noCrash_pure {α} (a : α) : NoCrash (pure a : R α) := fun h => by cases h
theorem noCrash_throw {α} : NoCrash (Primitiv.throwError : R α) := fun h => by cases h

theorem noCrash_bind {α β} {x : R α} {f : α → R β} (hx : NoCrash x) (hf : ∀ a, x = .ok a → NoCrash (f a)) :
    NoCrash (x >>= f) := by
  cases x with
  | error e =>
    cases e with
    | error => intro h; simp [bind, Except.bind] at h
    | crash => exact absurd rfl hx
  | ok a => exact hf a rfl

theorem noCrash_ite {α} {c : Prop} [Decidable c] {a b : R α} (ha : c → NoCrash a) (hb : ¬ c → NoCrash b) :
    NoCrash (if c then a else b) := by
  split
  · exact ha ‹_›
  · exact hb ‹_›

theorem checkDevice_noCrash {α} (x : Tensor α) : NoCrash (checkDevice x) := by
  unfold checkDevice; exact noCrash_ite (fun _ => noCrash_pure _) (fun _ => noCrash_throw)

theorem checkAll_noCrash {α} (xs : List (Tensor α)) : NoCrash (checkAll xs) := by
  induction xs with
  | nil => exact noCrash_pure _
  | cons x rest ih => exact noCrash_bind (checkDevice_noCrash x) (fun _ _ => ih)

namespace Rules

theorem new_noCrash (dims : List Nat) (b : Nat) : NoCrash (Shape.new dims b) := by
  unfold Shape.new
  refine noCrash_ite (fun _ => noCrash_throw) (fun _ => ?_)
  split
  · exact noCrash_throw
  · exact noCrash_ite (fun _ => noCrash_throw) (fun _ => noCrash_pure _)

theorem updateBatch_noCrash (s : Shape) (b : Nat) : NoCrash (s.updateBatch b) := by
  unfold Shape.updateBatch
  exact noCrash_ite (fun _ => noCrash_throw) (fun _ => noCrash_ite (fun _ => noCrash_throw) (fun _ => noCrash_pure _))

theorem updateDim_noCrash {s : Shape} (hs : WF s) (d m : Nat) : NoCrash (s.updateDim d m) := by
  unfold Shape.updateDim
  refine noCrash_ite (fun _ => noCrash_throw) (fun _ => noCrash_ite (fun _ => noCrash_throw) (fun _ => ?_))
  simp only
  refine noCrash_ite (fun h0 => ?_) (fun _ => noCrash_ite (fun _ => noCrash_throw) (fun _ => noCrash_pure _))
  have := hs.pos d; omega

theorem slice_noCrash {x : Shape} (hx : WF x) (dim lower upper : Nat) : NoCrash (ShapeOps.slice x dim lower upper) := by
  unfold ShapeOps.slice
  exact noCrash_ite (fun _ => noCrash_throw) (fun _ => noCrash_ite (fun _ => noCrash_pure _) (fun _ => updateDim_noCrash hx _ _))

theorem broadcast_noCrash {x : Shape} (hx : WF x) (dim size : Nat) : NoCrash (ShapeOps.broadcast x dim size) := by
  unfold ShapeOps.broadcast
  exact noCrash_ite (fun _ => noCrash_throw) (fun _ => updateDim_noCrash hx _ _)

theorem pick_noCrash {x : Shape} (hx : WF x) (ids : List Nat) (dim : Nat) : NoCrash (ShapeOps.pick x ids dim) := by
  unfold ShapeOps.pick
  simp only
  refine noCrash_ite (fun _ => noCrash_throw) (fun _ => noCrash_ite (fun _ => noCrash_throw) (fun _ => ?_))
  exact noCrash_bind (updateDim_noCrash hx _ _) (fun r _ => updateBatch_noCrash _ _)

theorem batchPick_noCrash (x : Shape) (ids : List Nat) : NoCrash (ShapeOps.batchPick x ids) := by
  unfold ShapeOps.batchPick
  simp only
  exact noCrash_ite (fun _ => noCrash_throw) (fun _ => noCrash_ite (fun _ => noCrash_throw) (fun _ => updateBatch_noCrash _ _))

theorem batchSlice_noCrash (x : Shape) (lower upper : Nat) : NoCrash (ShapeOps.batchSlice x lower upper) := by
  unfold ShapeOps.batchSlice
  exact noCrash_ite (fun _ => noCrash_throw) (fun _ => updateBatch_noCrash _ _)

theorem transpose_noCrash (x : Shape) : NoCrash (ShapeOps.transpose x) := by
  unfold ShapeOps.transpose
  exact noCrash_ite (fun _ => noCrash_throw) (fun _ => new_noCrash _ _)

theorem permuteLoop_noCrash (x : Shape) (n : Nat) (perm picked : List Nat) : NoCrash (ShapeOps.permuteLoop x n perm picked) := by
  induction perm generalizing picked with
  | nil => exact noCrash_pure _
  | cons p ps ih =>
    unfold ShapeOps.permuteLoop
    refine noCrash_ite (fun _ => noCrash_throw) (fun _ => noCrash_ite (fun _ => noCrash_throw) (fun _ => ?_))
    exact noCrash_bind (ih _) (fun _ _ => noCrash_pure _)

theorem permuteDims_noCrash (x : Shape) (perm : List Nat) : NoCrash (ShapeOps.permuteDims x perm) := by
  unfold ShapeOps.permuteDims
  refine noCrash_ite (fun _ => noCrash_throw) (fun _ => ?_)
  exact noCrash_bind (permuteLoop_noCrash _ _ _ _) (fun _ _ => new_noCrash _ _)

theorem hasSameLooDims_noCrash (a b : Shape) (dim : Nat) : NoCrash (a.hasSameLooDims b dim) := by
  unfold Shape.hasSameLooDims Shape.looLen
  refine noCrash_bind ?_ (fun _ _ => noCrash_bind ?_ (fun _ _ => noCrash_pure _))
  · split <;> exact noCrash_pure _
  · split <;> exact noCrash_pure _

theorem concatLoop_noCrash {dim : Nat} (l : List Shape) (s0 : Shape) (sum : Nat) :
    NoCrash (ShapeOps.concatLoop dim l (s0, sum)) := by
  induction l generalizing s0 sum with
  | nil => exact noCrash_pure _
  | cons s rest ih =>
    simp only [ShapeOps.concatLoop]
    refine noCrash_bind (hasSameLooDims_noCrash _ _ _) (fun loo _ => ?_)
    refine noCrash_ite (fun _ => noCrash_throw) (fun _ => ?_)
    split
    · exact noCrash_bind (updateBatch_noCrash _ _) (fun s0' _ => ih _ _)
    · exact noCrash_bind (noCrash_pure _) (fun s0' _ => ih _ _)

theorem concat_noCrash {xs : List Shape} (hxs : ∀ s ∈ xs, WF s) (dim : Nat) : NoCrash (ShapeOps.concat xs dim) := by
  cases xs with
  | nil => exact noCrash_throw
  | cons x0 rest =>
    simp only [ShapeOps.concat]
    refine noCrash_bind (concatLoop_noCrash _ _ _) (fun st hst => ?_)
    obtain ⟨sf, sumf⟩ := st
    simp only
    refine noCrash_ite (fun _ => noCrash_throw) (fun _ => ?_)
    exact updateDim_noCrash (Front.concatLoop_ok (hxs x0 List.mem_cons_self) hst).1 _ _

theorem batchConcatLoop_noCrash (s0 : Shape) (l : List Shape) (sum : Nat) : NoCrash (ShapeOps.batchConcatLoop s0 l sum) := by
  induction l generalizing sum with
  | nil => exact noCrash_pure _
  | cons s rest ih =>
    simp only [ShapeOps.batchConcatLoop]
    exact noCrash_ite (fun _ => noCrash_throw) (fun _ => ih _)

theorem batchConcat_noCrash (xs : List Shape) : NoCrash (ShapeOps.batchConcat xs) := by
  cases xs with
  | nil => exact noCrash_throw
  | cons x0 rest =>
    simp only [ShapeOps.batchConcat]
    refine noCrash_bind (batchConcatLoop_noCrash _ _ _) (fun sum _ => ?_)
    exact noCrash_ite (fun _ => noCrash_throw) (fun _ => updateBatch_noCrash _ _)

end Rules
end Primitiv.Move
