import PrimitivModel.Lemmas.MovePlans
import PrimitivModel.Lemmas.MoveKernels
import PrimitivModel.Lemmas.Adjoint
import Mathlib.Data.List.Nodup
import Mathlib.Data.Finset.Card
import PrimitivModel.Spec.KernelsMove
/-
permute_dims: the mixed-radix re-encoding `permJ` of the kernels is the index
permutation.  Digits of a flat index in the radix of `x` (`digit`), weighted
sums of digits (`enc`), and the fact that `permJ` over the stride tables of the
kernel computes `enc Y (digits of i in X, permuted)`.
-/
namespace Primitiv.Move
open Primitiv Primitiv.MoveShape

/-! ### mixed radix -/

/-- `Σ_{k<n} e k * ∏_{l<k} f l`: the flat index of the multi-index `e` in a tensor
with extents `f` (first axis fastest) -/
def enc (f e : Nat → Nat) (n : Nat) : Nat := ∑ k ∈ Finset.range n, e k * pi f k

/-- the `k`-th digit of `i` in the radix `f` -/
def digit (f : Nat → Nat) (i k : Nat) : Nat := i / pi f k % f k

theorem enc_succ (f e : Nat → Nat) (n : Nat) : enc f e (n + 1) = enc f e n + e n * pi f n := by
  unfold enc; rw [Finset.sum_range_succ]

theorem enc_lt {f e : Nat → Nat} {n : Nat} (h : ∀ k, k < n → e k < f k) : enc f e n < pi f n := by
  induction n with
  | zero => simp [enc, pi]
  | succ n ih =>
    rw [enc_succ, pi]
    have h1 := ih (fun k hk => h k (by omega))
    have h2 := h n (by omega)
    have := View3.lt_mul_of_lt h1 h2
    calc enc f e n + e n * pi f n = enc f e n + pi f n * e n := by ring
      _ < pi f n * f n := this

theorem enc_congr {f e e' : Nat → Nat} {n : Nat} (h : ∀ k, k < n → e k = e' k) : enc f e n = enc f e' n := by
  unfold enc
  exact Finset.sum_congr rfl (fun k hk => by rw [h k (Finset.mem_range.mp hk)])

/-- the digits of an encoded multi-index are its components -/
theorem digit_enc {f e : Nat → Nat} {n k : Nat} (h : ∀ j, j < n → e j < f j) (hk : k < n) :
    digit f (enc f e n) k = e k := by
  induction n with
  | zero => omega
  | succ n ih =>
    have hlt := enc_lt (f := f) (e := e) (n := n) (fun j hj => h j (by omega))
    have hP : 0 < pi f n := by omega
    rw [enc_succ]
    unfold digit
    rcases Nat.lt_or_ge k n with hkn | hkn
    · -- lower digit: the top term is a multiple of pi f (k+1)
      have hd : pi f n = pi f k * f k * piR f (k + 1) (n - (k + 1)) := by
        have e1 : n = k + ((n - (k + 1)) + 1) := by omega
        conv => lhs; rw [e1]
        rw [pi_add, piR_succ_left]; ring
      have hk' := ih (fun j hj => h j (by omega)) hkn
      unfold digit at hk'
      have hpk : 0 < pi f k := by
        rcases Nat.eq_zero_or_pos (pi f k) with h0 | h0
        · rw [hd, h0] at hP; simp at hP
        · exact h0
      rw [hd]
      have : enc f e n + e n * (pi f k * f k * piR f (k + 1) (n - (k + 1)))
          = enc f e n + pi f k * (f k * (e n * piR f (k + 1) (n - (k + 1)))) := by ring
      rw [this, Nat.add_mul_div_left _ _ hpk, Nat.add_mul_mod_self_left]
      exact hk'
    · obtain rfl : k = n := by omega
      rw [Nat.mul_comm, Nat.add_mul_div_left _ _ hP, Nat.div_eq_of_lt hlt, Nat.zero_add]
      exact Nat.mod_eq_of_lt (h k (by omega))

/-- every index below `∏_{k<n} f k` is the encoding of its digits -/
theorem enc_digit {f : Nat → Nat} {n i : Nat} (hi : i < pi f n) : enc f (digit f i) n = i := by
  induction n generalizing i with
  | zero => simp [pi] at hi; simp [enc, hi]
  | succ n ih =>
    rw [enc_succ]
    simp only [pi] at hi
    have hP : 0 < pi f n := by
      rcases Nat.eq_zero_or_pos (pi f n) with h0 | h0
      · rw [h0] at hi; simp at hi
      · exact h0
    have hq : i / pi f n < f n := Nat.div_lt_of_lt_mul hi
    have h1 : enc f (digit f i) n = enc f (digit f (i % pi f n)) n := by
      apply enc_congr
      intro k hk
      unfold digit
      have hd : pi f n = pi f k * f k * piR f (k + 1) (n - (k + 1)) := by
        have e1 : n = k + ((n - (k + 1)) + 1) := by omega
        conv => lhs; rw [e1]
        rw [pi_add, piR_succ_left]; ring
      have hdvd : pi f k * f k ∣ pi f n := ⟨piR f (k + 1) (n - (k + 1)), hd⟩
      rw [← Nat.mod_mul_right_div_self i, ← Nat.mod_mul_right_div_self (i % pi f n), Nat.mod_mod_of_dvd _ hdvd]
    rw [h1, ih (Nat.mod_lt _ hP)]
    unfold digit
    rw [Nat.mod_eq_of_lt hq]
    have := Nat.div_add_mod i (pi f n)
    calc i % pi f n + i / pi f n * pi f n = pi f n * (i / pi f n) + i % pi f n := by ring
      _ = i := this

theorem digit_lt {f : Nat → Nat} (i k : Nat) (h : 0 < f k) : digit f i k < f k := Nat.mod_lt _ h

theorem pi_dvd {f : Nat → Nat} {k n : Nat} (hk : k < n) : pi f k * f k ∣ pi f n := by
  have e1 : n = k + ((n - (k + 1)) + 1) := by omega
  refine ⟨piR f (k + 1) (n - (k + 1)), ?_⟩
  conv => lhs; rw [e1]
  rw [pi_add, piR_succ_left]; ring

theorem digit_mod {f : Nat → Nat} {k n : Nat} (i : Nat) (hk : k < n) : digit f (i % pi f n) k = digit f i k := by
  unfold digit
  rw [← Nat.mod_mul_right_div_self i, ← Nat.mod_mul_right_div_self (i % pi f n), Nat.mod_mod_of_dvd _ (pi_dvd hk)]

/-! ### the loop of permute_dims -/

/-- the stride table, for the axes `k-1, …, 0` (the loop runs over the axes downwards) -/
def descList (g : Nat → Nat × Nat) : Nat → List (Nat × Nat)
  | 0 => []
  | k + 1 => g k :: descList g k

theorem map_range_desc (g : Nat → Nat × Nat) (n : Nat) :
    (List.range n).map (fun d => g (n - 1 - d)) = descList g n := by
  induction n with
  | zero => rfl
  | succ n ih =>
    rw [List.range_succ_eq_map, List.map_cons, List.map_map, descList]
    congr 1
    rw [← ih]
    apply List.map_congr_left
    intro d _
    simp only [Function.comp]
    congr 1; omega

theorem descList_congr {g g' : Nat → Nat × Nat} {k : Nat} (h : ∀ a, a < k → g a = g' a) : descList g k = descList g' k := by
  induction k with
  | zero => rfl
  | succ k ih => simp only [descList]; rw [h k (by omega), ih (fun a ha => h a (by omega))]

theorem permJ_acc (L : List (Nat × Nat)) (tmp j : Nat) : permJ L tmp j = j + permJ L tmp 0 := by
  induction L generalizing tmp j with
  | nil => simp [permJ]
  | cons hd tl ih =>
    obtain ⟨xs, ys⟩ := hd
    simp only [permJ]
    rw [ih (tmp - tmp / xs * xs) (j + tmp / xs * ys), ih (tmp - tmp / xs * xs) (0 + tmp / xs * ys)]
    omega

/-- the loop computes the digits of `i` in the radix `f`, weighted by `w` -/
theorem permJ_desc (f w : Nat → Nat) (k i : Nat) (hi : i < pi f k) :
    permJ (descList (fun a => (pi f a, w a)) k) i 0 = ∑ a ∈ Finset.range k, digit f i a * w a := by
  induction k generalizing i with
  | zero => simp [descList, permJ]
  | succ k ih =>
    simp only [pi] at hi
    have hP : 0 < pi f k := by
      rcases Nat.eq_zero_or_pos (pi f k) with h0 | h0
      · rw [h0] at hi; simp at hi
      · exact h0
    simp only [descList, permJ]
    rw [permJ_acc, Finset.sum_range_succ]
    have hm : i - i / pi f k * pi f k = i % pi f k := by
      have := Nat.div_add_mod i (pi f k)
      rw [Nat.mul_comm] at this; omega
    rw [hm, ih _ (Nat.mod_lt _ hP)]
    have htop : digit f i k = i / pi f k := by
      unfold digit; exact Nat.mod_eq_of_lt (Nat.div_lt_of_lt_mul hi)
    rw [htop, Nat.zero_add, Nat.add_comm]
    congr 1
    apply Finset.sum_congr rfl
    intro a ha
    rw [digit_mod i (Finset.mem_range.mp ha)]

/-! ### `perm` as a bijection of `{0, …, n-1}` -/

structure IsPerm (perm : List Nat) : Prop where
  nodup : perm.Nodup
  lt : ∀ p ∈ perm, p < perm.length

theorem IsPerm.mem {perm : List Nat} (h : IsPerm perm) {a : Nat} (ha : a < perm.length) : a ∈ perm := by
  have hsub : perm.toFinset ⊆ Finset.range perm.length := by
    intro p hp
    exact Finset.mem_range.mpr (h.lt p (List.mem_toFinset.mp hp))
  have hcard : (Finset.range perm.length).card ≤ perm.toFinset.card := by
    rw [List.toFinset_card_of_nodup h.nodup, Finset.card_range]
  have := Finset.eq_of_subset_of_card_le hsub hcard
  have hmem : a ∈ perm.toFinset := by rw [this]; exact Finset.mem_range.mpr ha
  exact List.mem_toFinset.mp hmem

theorem getD_eq_get (l : List Nat) {k : Nat} (hk : k < l.length) : l.getD k 0 = l[k] := by
  simp [List.getD, List.getElem?_eq_getElem hk]

theorem IsPerm.idxOf_lt {perm : List Nat} (h : IsPerm perm) {a : Nat} (ha : a < perm.length) :
    perm.idxOf a < perm.length := List.idxOf_lt_length_iff.mpr (h.mem ha)

theorem IsPerm.get_idxOf {perm : List Nat} (h : IsPerm perm) {a : Nat} (ha : a < perm.length) :
    perm.getD (perm.idxOf a) 0 = a := by
  have hl := h.idxOf_lt ha
  rw [getD_eq_get _ hl]
  exact List.getElem_idxOf hl

theorem IsPerm.idxOf_get {perm : List Nat} (h : IsPerm perm) {k : Nat} (hk : k < perm.length) :
    perm.idxOf (perm.getD k 0) = k := by
  rw [getD_eq_get _ hk]
  exact h.nodup.idxOf_getElem k hk

theorem IsPerm.get_lt {perm : List Nat} (h : IsPerm perm) {k : Nat} (hk : k < perm.length) :
    perm.getD k 0 < perm.length := by
  rw [getD_eq_get _ hk]
  exact h.lt _ (List.getElem_mem hk)

/-- reindexing a sum over the axes of `x` by the axes of `y` -/
theorem IsPerm.sum_reindex {perm : List Nat} (h : IsPerm perm) (F : Nat → Nat → Nat) :
    ∑ a ∈ Finset.range perm.length, F a (perm.idxOf a) = ∑ k ∈ Finset.range perm.length, F (perm.getD k 0) k := by
  apply Finset.sum_nbij' (fun a => perm.idxOf a) (fun k => perm.getD k 0)
  · intro a ha; exact Finset.mem_range.mpr (h.idxOf_lt (Finset.mem_range.mp ha))
  · intro k hk; exact Finset.mem_range.mpr (h.get_lt (Finset.mem_range.mp hk))
  · intro a ha; exact h.get_idxOf (Finset.mem_range.mp ha)
  · intro k hk; exact h.idxOf_get (Finset.mem_range.mp hk)
  · intro a ha; rw [h.get_idxOf (Finset.mem_range.mp ha)]

theorem pi_eq_prod (f : Nat → Nat) (n : Nat) : pi f n = ∏ k ∈ Finset.range n, f k := by
  induction n with
  | zero => simp [pi]
  | succ n ih => rw [pi, ih, Finset.prod_range_succ]

/-- the volume does not change under a permutation of the axes -/
theorem IsPerm.pi_reindex {perm : List Nat} (h : IsPerm perm) (X : Nat → Nat) :
    pi (fun k => X (perm.getD k 0)) perm.length = pi X perm.length := by
  rw [pi_eq_prod, pi_eq_prod]
  apply Finset.prod_nbij' (fun k => perm.getD k 0) (fun a => perm.idxOf a)
  · intro k hk; exact Finset.mem_range.mpr (h.get_lt (Finset.mem_range.mp hk))
  · intro a ha; exact Finset.mem_range.mpr (h.idxOf_lt (Finset.mem_range.mp ha))
  · intro k hk; exact h.idxOf_get (Finset.mem_range.mp hk)
  · intro a ha; exact h.get_idxOf (Finset.mem_range.mp ha)
  · intro k _; rfl

/-! ### the shape rule -/

theorem permuteLoop_ok {x : Shape} {n : Nat} {l picked dims : List Nat}
    (h : ShapeOps.permuteLoop x n l picked = .ok dims) :
    dims = l.map x.get ∧ (∀ p ∈ l, p < n ∧ p ∉ picked) ∧ l.Nodup := by
  induction l generalizing picked dims with
  | nil =>
    simp only [ShapeOps.permuteLoop, pure, Except.pure, Except.ok.injEq] at h
    exact ⟨(by simp [← h]), (fun p hp => by cases hp), List.nodup_nil⟩
  | cons p ps ih =>
    simp only [ShapeOps.permuteLoop] at h
    split at h
    · cases h
    rename_i hpn
    split at h
    · cases h
    rename_i hpc
    cases hr : ShapeOps.permuteLoop x n ps (p :: picked) with
    | error e => simp [hr, bind, Except.bind] at h
    | ok rest =>
      simp only [hr, bind, Except.bind, pure, Except.pure, Except.ok.injEq] at h
      obtain ⟨e, hall, hnd⟩ := ih hr
      have hpp : p ∉ picked := by
        intro hm; exact hpc (by simpa using hm)
      refine ⟨(by rw [← h, e]; rfl), ?_, ?_⟩
      · intro q hq
        rcases List.mem_cons.mp hq with rfl | hq'
        · exact ⟨by omega, hpp⟩
        · have := hall q hq'
          exact ⟨this.1, fun hm => this.2 (List.mem_cons_of_mem _ hm)⟩
      · rw [List.nodup_cons]
        refine ⟨fun hm => ?_, hnd⟩
        exact (hall p hm).2 List.mem_cons_self

theorem permuteDims_ok {x y : Shape} {perm : List Nat} (_hx : WF x) (h : ShapeOps.permuteDims x perm = .ok y) :
    IsPerm perm ∧ x.dims.length ≤ perm.length ∧ perm.length ≤ 8 ∧ WF y ∧ y.batch = x.batch ∧
    (∀ k, k < perm.length → y.get k = x.get (perm.getD k 0)) ∧ (∀ k, perm.length ≤ k → y.get k = 1) := by
  unfold ShapeOps.permuteDims at h
  split at h
  · cases h
  rename_i hlen
  cases hl : ShapeOps.permuteLoop x perm.length perm [] with
  | error e => simp [hl, bind, Except.bind] at h
  | ok dims =>
    simp only [hl, bind, Except.bind] at h
    obtain ⟨rfl, hall, hnd⟩ := permuteLoop_ok hl
    obtain ⟨hy, hb, hg, hl8, _⟩ := new_ok h
    simp only [List.length_map] at hl8
    refine ⟨⟨hnd, fun p hp => (hall p hp).1⟩, by unfold Shape.depth at hlen; omega, hl8, hy, hb, ?_, ?_⟩
    · intro k hk
      rw [hg, getD_eq_get _ hk]
      simp [List.getD, List.getElem?_map, List.getElem?_eq_getElem hk]
    · intro k hk
      rw [hg]
      simp [List.getD, List.getElem?_eq_none (show (perm.map x.get).length ≤ k by simpa using hk)]

/-- the volume as the product over the first `n` axes, `n` at least the depth -/
theorem volume_eq_pi {s : Shape} (hs : WF s) {n : Nat} (h1 : ∀ k, n ≤ k → s.get k = 1) (h8 : n ≤ 8) :
    s.volume = pi s.get n := by
  rw [hs.vol]
  have e : 8 = n + (8 - n) := by omega
  rw [e, pi_add, piR_ones (fun i hi => h1 i hi), Nat.mul_one]

/-- What `Front.permuteFw` returns, and what its inner loop computes. -/
theorem permuteFw_plan {x ys : Shape} {perm : List Nat} {m : Moves} (hx : WF x)
    (h : Front.permuteFw x perm = .ok (ys, m)) :
    IsPerm perm ∧ perm.length ≤ 8 ∧ WF ys ∧ ys.batch = x.batch ∧ ys.volume = x.volume ∧
    (∀ k, k < perm.length → ys.get k = x.get (perm.getD k 0)) ∧
    x.volume = pi x.get perm.length ∧
    ∃ st, m = permuteFwMoves x.volume x.batch st ∧
      ∀ i, i < x.volume → permJ st i 0 =
        enc (fun k => x.get (perm.getD k 0)) (fun k => digit x.get i (perm.getD k 0)) perm.length := by
  unfold Front.permuteFw at h
  cases hS : ShapeOps.permuteDims x perm with
  | error e => simp [hS, bind, Except.bind] at h
  | ok y =>
    simp only [hS, bind, Except.bind, pure, Except.pure, Except.ok.injEq, Prod.mk.injEq] at h
    obtain ⟨rfl, rfl⟩ := h
    obtain ⟨hp, hdep, h8, hy, hb, hgk, hg1⟩ := permuteDims_ok hx hS
    have hxv : x.volume = pi x.get perm.length := volume_eq_pi hx (fun k hk => get_of_ge (by omega)) h8
    have hyv : y.volume = pi y.get perm.length := volume_eq_pi hy hg1 h8
    have hyx : y.volume = x.volume := by
      rw [hyv, hxv, ← hp.pi_reindex x.get]
      exact pi_congr (fun k hk => hgk k hk)
    refine ⟨hp, h8, hy, hb, hyx, hgk, hxv, _, rfl, ?_⟩
    intro i hi
    -- the stride table is the descending list of (x-stride, y-stride of the target axis)
    have hst : permStrides x y perm =
        descList (fun a => (pi x.get a, pi (fun k => x.get (perm.getD k 0)) (perm.idxOf a))) perm.length := by
      unfold permStrides
      simp only
      rw [map_range_desc (fun a => (x.lowerVolume a, y.lowerVolume (perm.idxOf a)))]
      apply descList_congr
      intro a ha
      rw [hx.lowerVolume_eq, hy.lowerVolume_eq]
      congr 1
      exact pi_congr (fun k hk => hgk k (by have := hp.idxOf_lt ha; omega))
    rw [hst, permJ_desc x.get _ _ _ (by rw [← hxv]; exact hi)]
    rw [hp.sum_reindex (fun a k => digit x.get i a * pi (fun k => x.get (perm.getD k 0)) k)]
    rfl

/-! ### the re-encoding is a bijection of `{0, …, V-1}` -/

/-- `i ↦ enc Y (digits of i in X, taken in the order perm)`, `Y k = X (perm k)` -/
def reenc (X : Nat → Nat) (perm : List Nat) (i : Nat) : Nat :=
  enc (fun k => X (perm.getD k 0)) (fun k => digit X i (perm.getD k 0)) perm.length

theorem reenc_lt {X : Nat → Nat} {perm : List Nat} (hp : IsPerm perm) (hX : ∀ a, 0 < X a) (i : Nat) :
    reenc X perm i < pi X perm.length := by
  rw [← hp.pi_reindex X]
  exact enc_lt (fun k _ => digit_lt _ _ (hX _))

theorem reenc_inj {X : Nat → Nat} {perm : List Nat} (hp : IsPerm perm) (hX : ∀ a, 0 < X a) {i i' : Nat}
    (hi : i < pi X perm.length) (hi' : i' < pi X perm.length) (h : reenc X perm i = reenc X perm i') : i = i' := by
  have hd : ∀ k, k < perm.length → digit X i (perm.getD k 0) = digit X i' (perm.getD k 0) := by
    intro k hk
    have e1 := digit_enc (f := fun k => X (perm.getD k 0)) (e := fun k => digit X i (perm.getD k 0)) (n := perm.length)
      (fun j _ => digit_lt _ _ (hX _)) hk
    have e2 := digit_enc (f := fun k => X (perm.getD k 0)) (e := fun k => digit X i' (perm.getD k 0)) (n := perm.length)
      (fun j _ => digit_lt _ _ (hX _)) hk
    unfold reenc at h
    rw [h] at e1
    rw [← e1, e2]
  rw [← enc_digit hi, ← enc_digit hi']
  apply enc_congr
  intro a ha
  have := hd (perm.idxOf a) (hp.idxOf_lt ha)
  rwa [hp.get_idxOf ha] at this

theorem reenc_surj {X : Nat → Nat} {perm : List Nat} (hp : IsPerm perm) (hX : ∀ a, 0 < X a) {o : Nat}
    (ho : o < pi X perm.length) : ∃ i, i < pi X perm.length ∧ reenc X perm i = o := by
  have ho' : o < pi (fun k => X (perm.getD k 0)) perm.length := by rw [hp.pi_reindex X]; exact ho
  let d : Nat → Nat := fun a => digit (fun k => X (perm.getD k 0)) o (perm.idxOf a)
  have hd : ∀ a, a < perm.length → d a < X a := by
    intro a ha
    have := digit_lt (f := fun k => X (perm.getD k 0)) o (perm.idxOf a) (hX _)
    rw [hp.get_idxOf ha] at this; exact this
  refine ⟨enc X d perm.length, enc_lt hd, ?_⟩
  unfold reenc
  have e1 : enc (fun k => X (perm.getD k 0)) (fun k => digit X (enc X d perm.length) (perm.getD k 0)) perm.length
      = enc (fun k => X (perm.getD k 0)) (digit (fun k => X (perm.getD k 0)) o) perm.length := by
    apply enc_congr
    intro k hk
    rw [digit_enc hd (hp.get_lt hk)]
    show digit _ o (perm.idxOf (perm.getD k 0)) = _
    rw [hp.idxOf_get hk]
  rw [e1, enc_digit ho']

/-- the loop nest of permute_dims_fw, given that its inner loop is a bijection -/
theorem permuteMoves_facts {V B : Nat} {st : List (Nat × Nat)} (hV : 0 < V)
    (hlt : ∀ i, i < V → permJ st i 0 < V)
    (hinj : ∀ i i', i < V → i' < V → permJ st i 0 = permJ st i' 0 → i = i')
    (hsurj : ∀ o, o < V → ∃ i, i < V ∧ permJ st i 0 = o) :
    (permuteFwMoves V B st).InBounds (V * B) (V * B) ∧ (permuteFwMoves V B st).WritesAll (V * B) ∧
    (permuteFwMoves V B st).WritesOnce := by
  have hform : ∀ t, t < B * V → (permuteFwMoves V B st).didx t = permJ st (t % V) 0 + V * (t / V) ∧
      permJ st (t % V) 0 < V ∧ t / V < B := by
    intro t ht
    have ⟨h1, h2⟩ := View3.seq2_bounds ht
    exact ⟨by simp only [permuteFwMoves]; ring, hlt _ h1, h2⟩
  refine ⟨?_, ?_, ?_⟩
  · intro t ht
    simp only [show (permuteFwMoves V B st).count = B * V from rfl] at ht
    have ⟨e, h1, h2⟩ := hform t ht
    rw [e]
    exact ⟨by simp only [permuteFwMoves]; rw [Nat.mul_comm]; exact ht, View3.lt_mul_of_lt h1 h2⟩
  · intro o ho
    obtain ⟨i, hi, e⟩ := hsurj (o % V) (Nat.mod_lt _ hV)
    have hq : o / V < B := Nat.div_lt_of_lt_mul ho
    have ht : i + V * (o / V) < B * V := by
      have := View3.lt_mul_of_lt hi hq; rwa [Nat.mul_comm V B] at this
    refine ⟨i + V * (o / V), ht, ?_⟩
    have ⟨ef, _, _⟩ := hform _ ht
    rw [ef, Nat.add_mul_mod_self_left, Nat.mod_eq_of_lt hi, e, Nat.add_mul_div_left _ _ hV, Nat.div_eq_of_lt hi,
      Nat.zero_add]
    exact Nat.mod_add_div o V
  · intro t t' ht ht' e
    simp only [show (permuteFwMoves V B st).count = B * V from rfl] at ht ht'
    have ⟨e1, h1, _⟩ := hform t ht
    have ⟨e2, h2, _⟩ := hform t' ht'
    rw [e1, e2] at e
    have hq : t / V = t' / V := by
      have a1 : (permJ st (t % V) 0 + V * (t / V)) / V = t / V := by
        rw [Nat.add_mul_div_left _ _ hV, Nat.div_eq_of_lt h1]; omega
      have a2 : (permJ st (t' % V) 0 + V * (t' / V)) / V = t' / V := by
        rw [Nat.add_mul_div_left _ _ hV, Nat.div_eq_of_lt h2]; omega
      rw [← a1, ← a2, e]
    have hr : t % V = t' % V := by
      apply hinj _ _ (Nat.mod_lt _ hV) (Nat.mod_lt _ hV)
      rw [hq] at e; omega
    have r1 := Nat.div_add_mod t V
    have r2 := Nat.div_add_mod t' V
    rw [hq, hr] at r1
    omega

/-- permute_dims_fw: in bounds, writes every output element exactly once -/
theorem permuteFw_facts {x ys : Shape} {perm : List Nat} {m : Moves} (hx : WF x)
    (h : Front.permuteFw x perm = .ok (ys, m)) :
    x.size = x.volume * x.batch ∧ ys.size = x.volume * x.batch ∧
    m.InBounds (x.volume * x.batch) (x.volume * x.batch) ∧ m.WritesAll (x.volume * x.batch) ∧ m.WritesOnce := by
  obtain ⟨hp, _, hy, hb, hv, _, hxv, st, rfl, hJ⟩ := permuteFw_plan hx h
  have hX : ∀ a, 0 < x.get a := hx.pos
  refine ⟨hx.size_eq, by rw [hy.size_eq, hv, hb], ?_⟩
  apply permuteMoves_facts hx.vol_pos
  · intro i hi
    rw [hJ i hi, hxv]
    exact reenc_lt hp hX i
  · intro i i' hi hi' e
    rw [hJ i hi, hJ i' hi'] at e
    rw [hxv] at hi hi'
    exact reenc_inj hp hX hi hi' e
  · intro o ho
    rw [hxv] at ho
    obtain ⟨i, hi, e⟩ := reenc_surj hp hX ho
    rw [← hxv] at hi
    exact ⟨i, hi, by rw [hJ i hi]; exact e⟩

/-! ### backward: the same loop with source and destination exchanged -/

theorem shape_eq_of_eq {a b : Shape} (ha : WF a) (hb : WF b) (h : a.eq b = true) : a = b := by
  have ⟨hg, hbt⟩ := eq_get h
  have hv := volume_eq_of_get ha hb hg
  unfold Shape.eq Shape.hasSameDims at h
  simp only [Bool.and_eq_true, List.all_eq_true, List.mem_range, beq_iff_eq] at h
  obtain ⟨⟨h1, h2⟩, _⟩ := h
  have hd : a.dims = b.dims := by
    apply List.ext_getElem
    · exact h2
    · intro i hi1 hi2
      have := h1 i hi1
      simpa [List.getD, List.getElem?_eq_getElem hi1, List.getElem?_eq_getElem hi2] using this
  cases a; cases b
  simp only at hd hbt hv
  subst hd; subst hbt; subst hv
  rfl

theorem permuteBw_plan {x y gy gx : Shape} {perm : List Nat} {mb : Moves} (hx : WF x) (hy : WF y) (hgy : WF gy)
    (hgx : WF gx) (h : Front.permuteBw x y gy gx perm = .ok mb) :
    ∃ m, Front.permuteFw x perm = .ok (y, m) ∧ mb = m.swap ∧ gx = x ∧ gy = y := by
  unfold Front.permuteBw at h
  cases hS : ShapeOps.permuteDims x perm with
  | error e => simp [hS, bind, Except.bind] at h
  | ok sy =>
    simp only [hS, bind, Except.bind] at h
    split at h
    · cases h
    rename_i hc
    simp only [Bool.or_eq_true, not_or] at hc
    obtain ⟨⟨c1, c2⟩, c3⟩ := hc
    have c1 := Front.not_not_eq c1; have c2 := Front.not_not_eq c2; have c3 := Front.not_not_eq c3
    simp only [pure, Except.pure, Except.ok.injEq] at h
    have hsy : WF sy := (permuteDims_ok hx hS).2.2.2.1
    have e1 : y = sy := shape_eq_of_eq hy hsy c1
    have e2 : gy = sy := shape_eq_of_eq hgy hsy c2
    have e3 : gx = x := shape_eq_of_eq hgx hx c3
    subst e1; subst e3
    refine ⟨permuteFwMoves gx.volume gx.batch (permStrides gx y perm), ?_, ?_, rfl, e2⟩
    · unfold Front.permuteFw; simp [hS, bind, Except.bind]; rfl
    · rw [← h, e2]

/-! ### the specification: flat indices of multi-indices -/

open Primitiv.Spec.Move in
theorem flat_eq_enc (dims idx : List Nat) (h : dims.length = idx.length) :
    flat dims idx = enc (fun k => dims.getD k 1) (fun k => idx.getD k 0) dims.length := by
  induction dims generalizing idx with
  | nil => cases idx with
    | nil => simp [flat, enc]
    | cons i is => simp at h
  | cons d ds ih =>
    cases idx with
    | nil => simp at h
    | cons i is =>
      simp only [List.length_cons, Nat.add_right_cancel_iff] at h
      simp only [flat, List.length_cons]
      rw [ih is h]
      unfold enc
      rw [Finset.sum_range_succ', Finset.mul_sum]
      have e0 : (i :: is).getD 0 0 * pi (fun k => (d :: ds).getD k 1) 0 = i := by simp [pi]
      rw [e0, Nat.add_comm]
      congr 1
      apply Finset.sum_congr rfl
      intro k _
      rw [pi_cons]
      have e1 : (i :: is).getD (k + 1) 0 = is.getD k 0 := by simp
      show d * (is.getD k 0 * pi (fun k => ds.getD k 1) k) = (i :: is).getD (k + 1) 0 * (d * pi (fun i => ds.getD i 1) k)
      rw [e1]; ring

open Primitiv.Spec.Move in
theorem valid_iff (dims idx : List Nat) :
    Valid dims idx ↔ dims.length = idx.length ∧ ∀ k, k < dims.length → idx.getD k 0 < dims.getD k 1 := by
  induction dims generalizing idx with
  | nil => cases idx with
    | nil => simp [Valid]
    | cons i is => simp [Valid]
  | cons d ds ih =>
    cases idx with
    | nil => simp [Valid]
    | cons i is =>
      simp only [Valid, ih is, List.length_cons, Nat.add_right_cancel_iff]
      constructor
      · rintro ⟨h0, h1, h2⟩
        refine ⟨h1, fun k hk => ?_⟩
        cases k with
        | zero => simpa using h0
        | succ k => simpa using h2 k (by omega)
      · rintro ⟨h1, h2⟩
        refine ⟨by simpa using h2 0 (by omega), h1, fun k hk => ?_⟩
        simpa using h2 (k + 1) (by omega)

end Primitiv.Move
