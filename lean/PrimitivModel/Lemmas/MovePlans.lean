import PrimitivModel.Lemmas.MoveShape
import PrimitivModel.Lemmas.MoveGeneric
/-
What each shape-level front-end (`Move.Front.*`) returns on well-formed shapes:
the guard that was passed, the output shape, and the loop parameters as numbers
`L = lo x dim` (elements below the axis), `n = x.get dim`, `U = up x dim`
(elements above the axis), `B` (samples).
-/
namespace Primitiv.Move.Front
open Primitiv Primitiv.Move Primitiv.MoveShape

theorem mul_div_cancel_left' {a b : Nat} (h : 0 < a) : a * b / a = b := Nat.mul_div_cancel_left _ h

theorem sliceFw_plan {x ys : Shape} {dim lower upper : Nat} {m : Moves} (hx : WF x)
    (h : sliceFw x dim lower upper = .ok (ys, m)) :
    lower < upper ∧ upper ≤ x.get dim ∧ WF ys ∧ ys.batch = x.batch ∧
    (∀ i, ys.get i = if i = dim then upper - lower else x.get i) ∧
    m = sliceFwMoves (lo x dim) (lo x dim * (upper - lower)) (lo x dim * x.get dim) (up x dim * x.batch) lower ∧
    x.size = lo x dim * x.get dim * (up x dim * x.batch) ∧
    ys.size = lo x dim * (upper - lower) * (up x dim * x.batch) := by
  unfold sliceFw at h
  cases h1 : ShapeOps.slice x dim lower upper with
  | error e => simp [h1, bind, Except.bind] at h
  | ok y =>
    simp only [h1, bind, Except.bind, pure, Except.pure, Except.ok.injEq, Prod.mk.injEq] at h
    obtain ⟨rfl, rfl⟩ := h
    have ⟨hlu, hup, hy, hb, hg⟩ := slice_ok hx h1
    have vy := view_of_update hy hg
    have vx := hx.toView dim
    refine ⟨hlu, hup, hy, hb, hg, ?_, ?_, ?_⟩
    · rw [vy.lower, vy.get, vy.size, hb]
      congr 1
      rw [Nat.mul_assoc (lo x dim * (upper - lower)), mul_div_cancel_left' (Nat.mul_pos vy.hL vy.hn)]
    · rw [vx.size]; ring
    · rw [vy.size, hb]; ring

theorem flipFw_plan {x ys : Shape} {dim : Nat} {m : Moves} (hx : WF x) (h : flipFw x dim = .ok (ys, m)) :
    ys = x ∧ m = flipMoves (x.get dim) (lo x dim) (lo x dim * (up x dim * x.batch)) ∧
    x.size = lo x dim * x.get dim * (up x dim * x.batch) := by
  unfold flipFw at h
  simp only [pure, Except.pure, Except.ok.injEq, Prod.mk.injEq] at h
  obtain ⟨rfl, rfl⟩ := h
  have vx := hx.toView dim
  refine ⟨rfl, ?_, by rw [vx.size]; ring⟩
  rw [vx.lower, vx.size]
  congr 1
  have : lo x dim * x.get dim * up x dim * x.batch = x.get dim * (lo x dim * (up x dim * x.batch)) := by ring
  rw [this, mul_div_cancel_left' vx.hn]

theorem flipBw_plan {gy gx : Shape} {dim : Nat} {m : Moves} (hy : WF gy) (hx : WF gx) (h : flipBw gy gx dim = .ok m) :
    gy.size = gx.size ∧ m = flipMoves (gx.get dim) (lo gx dim) (lo gx dim * (up gx dim * gx.batch)) ∧
    gx.size = lo gx dim * gx.get dim * (up gx dim * gx.batch) := by
  unfold flipBw at h
  split at h
  · cases h
  · rename_i he
    simp only [Bool.not_eq_eq_eq_not, Bool.not_true] at he
    have he' : gy.eq gx = true := by simpa using he
    have ⟨m', hm⟩ : ∃ m', flipFw gx dim = .ok (gx, m') := ⟨_, rfl⟩
    have hp := flipFw_plan hx hm
    simp only [pure, Except.pure, Except.ok.injEq] at h
    unfold flipFw at hm
    simp only [pure, Except.pure, Except.ok.injEq, Prod.mk.injEq, true_and] at hm
    exact ⟨(size_eq_of_eq hy hx he').2, by rw [← h, hm]; exact hp.2.1, hp.2.2⟩

/-- sum_fw, max_fw, min_fw -/
theorem reduceFw_plan {x ys : Shape} {dim : Nat} {r : Reduce} (hx : WF x) (h : reduceFw x dim = .ok (ys, r)) :
    dim < 8 ∧ WF ys ∧ ys.batch = x.batch ∧ (∀ i, ys.get i = if i = dim then 1 else x.get i) ∧
    r = axisReduce (lo x dim * (up x dim * x.batch)) (x.get dim) (lo x dim) ∧
    x.size = lo x dim * x.get dim * (up x dim * x.batch) ∧ ys.size = lo x dim * (up x dim * x.batch) := by
  unfold reduceFw at h
  cases h1 : x.resizeDim dim 1 with
  | error e => simp [h1, bind, Except.bind] at h
  | ok y =>
    simp only [h1, bind, Except.bind, pure, Except.pure, Except.ok.injEq, Prod.mk.injEq] at h
    obtain ⟨rfl, rfl⟩ := h
    have ⟨h8, _, hy, hb, hg, _⟩ := resizeDim_ok hx h1
    have vy := view_of_update hy hg
    have vx := hx.toView dim
    refine ⟨h8, hy, hb, hg, ?_, by rw [vx.size]; ring, by rw [vy.size, hb]; ring⟩
    rw [vy.lower, vy.size, hb]
    congr 1; ring

theorem broadcastFw_plan {x ys : Shape} {dim size : Nat} {m : Moves} (hx : WF x)
    (h : broadcastFw x dim size = .ok (ys, m)) :
    dim < 8 ∧ x.get dim = 1 ∧ 0 < size ∧ WF ys ∧ ys.batch = x.batch ∧
    (∀ i, ys.get i = if i = dim then size else x.get i) ∧
    m = broadcastMoves (lo x dim * (up x dim * x.batch)) (lo x dim) size ∧
    x.size = lo x dim * (up x dim * x.batch) ∧ ys.size = lo x dim * size * (up x dim * x.batch) := by
  unfold broadcastFw at h
  cases h1 : ShapeOps.broadcast x dim size with
  | error e => simp [h1, bind, Except.bind] at h
  | ok y =>
    simp only [h1, bind, Except.bind, pure, Except.pure, Except.ok.injEq, Prod.mk.injEq] at h
    obtain ⟨rfl, rfl⟩ := h
    have ⟨h8, h1', hs, hy, hb, hg⟩ := broadcast_ok hx h1
    have vy := view_of_update hy hg
    have vx := hx.toView dim
    have hxs : x.size = lo x dim * (up x dim * x.batch) := by rw [vx.size, h1']; ring
    refine ⟨h8, h1', hs, hy, hb, hg, ?_, hxs, by rw [vy.size, hb]; ring⟩
    rw [vy.lower, hxs]

/-- argmax / argmin: no guard at all -/
theorem argReduce_plan {x : Shape} (hx : WF x) (dim : Nat) :
    argReduce x dim = axisReduce (lo x dim * (up x dim * x.batch)) (x.get dim) (lo x dim) ∧
    x.size = lo x dim * x.get dim * (up x dim * x.batch) := by
  have vx := hx.toView dim
  refine ⟨?_, by rw [vx.size]; ring⟩
  unfold argReduce
  rw [vx.lower, vx.size]
  congr 1
  have : lo x dim * x.get dim * up x dim * x.batch = x.get dim * (lo x dim * (up x dim * x.batch)) := by ring
  rw [this, mul_div_cancel_left' vx.hn]

theorem b2n_hasBatch (s : Shape) (hs : WF s) : b2n s.hasBatch = if s.batch = 1 then 0 else 1 := by
  have := hs.bpos
  unfold b2n Shape.hasBatch
  by_cases h : s.batch = 1
  · simp [h]
  · have : s.batch > 1 := by omega
    simp [h, this]

theorem pickFw_plan {x ys : Shape} {ids : List Nat} {dim : Nat} {m : Moves} (hx : WF x) (hlen : ids.length < W)
    (h : pickFw x ids dim = .ok (ys, m)) :
    dim < 8 ∧ 0 < ids.length ∧ (x.batch = ids.length ∨ x.batch = 1 ∨ ids.length = 1) ∧
    (∀ i ∈ ids, i < x.get dim) ∧ WF ys ∧ ys.batch = max x.batch ids.length ∧
    (∀ i, ys.get i = if i = dim then 1 else x.get i) ∧
    m = pickMoves (max x.batch ids.length) ((if x.batch = 1 then 0 else 1) * (lo x dim * x.get dim * up x dim))
          (b2n (ids.length > 1)) (lo x dim) (lo x dim * x.get dim) (up x dim) ids ∧
    x.size = lo x dim * x.get dim * up x dim * x.batch ∧
    ys.size = lo x dim * up x dim * max x.batch ids.length := by
  unfold pickFw at h
  cases h1 : ShapeOps.pick x ids dim with
  | error e => simp [h1, bind, Except.bind] at h
  | ok y =>
    simp only [h1, bind, Except.bind, pure, Except.pure, Except.ok.injEq, Prod.mk.injEq] at h
    obtain ⟨rfl, rfl⟩ := h
    have ⟨h8, hpos, hcomp, hids, hy, hb, hg⟩ := pick_ok hx h1
    rw [Nat.mod_eq_of_lt hlen] at hpos hcomp hb
    have vy := view_of_update hy hg
    have vx := hx.toView dim
    refine ⟨h8, hpos, hcomp, hids, hy, hb, hg, ?_, vx.size, by rw [vy.size, hb]; ring⟩
    rw [vy.lower, vy.volume, hb, b2n_hasBatch x hx, vx.volume]
    congr 1
    rw [Nat.mul_one, mul_div_cancel_left' vy.hL]

theorem pickBw_plan {gy gx : Shape} {ids : List Nat} {dim : Nat} {m : Moves} (hy : WF gy) (hx : WF gx)
    (hlen : ids.length < W) (h : pickBw gy gx ids dim = .ok m) :
    dim < 8 ∧ 0 < ids.length ∧ (gx.batch = ids.length ∨ gx.batch = 1 ∨ ids.length = 1) ∧
    (∀ i ∈ ids, i < gx.get dim) ∧ gy.batch = max gx.batch ids.length ∧
    (∀ i, gy.get i = if i = dim then 1 else gx.get i) ∧
    m = (pickMoves (max gx.batch ids.length) ((if gx.batch = 1 then 0 else 1) * (lo gx dim * gx.get dim * up gx dim))
          (b2n (ids.length > 1)) (lo gx dim) (lo gx dim * gx.get dim) (up gx dim) ids).swap ∧
    gx.size = lo gx dim * gx.get dim * up gx dim * gx.batch ∧
    gy.size = lo gx dim * up gx dim * max gx.batch ids.length := by
  unfold pickBw at h
  cases h1 : ShapeOps.pick gx ids dim with
  | error e => simp [h1, bind, Except.bind] at h
  | ok sy =>
    simp only [h1, bind, Except.bind] at h
    split at h
    · cases h
    · rename_i he
      have he' : gy.eq sy = true := by simpa using he
      simp only [pure, Except.pure, Except.ok.injEq] at h
      have ⟨h8, hpos, hcomp, hids, hsy, hb, hg⟩ := pick_ok hx h1
      rw [Nat.mod_eq_of_lt hlen] at hpos hcomp hb
      have ⟨hge, hbe⟩ := eq_get he'
      have hgy : ∀ i, gy.get i = if i = dim then 1 else gx.get i := fun i => by rw [hge, hg]
      have vy := view_of_update hy hgy
      have vx := hx.toView dim
      refine ⟨h8, hpos, hcomp, hids, by rw [hbe, hb], hgy, ?_, vx.size, by rw [vy.size, hbe, hb]; ring⟩
      rw [← h, vy.lower, vy.volume, hbe, hb, b2n_hasBatch gx hx, vx.volume]
      congr 2
      rw [Nat.mul_one, mul_div_cancel_left' vy.hL]

/-- the wrap-free guard means what it should -/
theorem sliceBwGuard_iff {syd sxd offset : Nat} (h1 : sxd < W) (_h2 : offset < W) :
    sliceBwGuard syd sxd offset = false ↔ offset + syd ≤ sxd := by
  unfold sliceBwGuard
  simp only [Bool.or_eq_false_iff, decide_eq_false_iff_not, Nat.not_lt]
  constructor
  · intro ⟨a, b⟩
    rw [sub32_eq a h1] at b; omega
  · intro h
    have : offset ≤ sxd := by omega
    exact ⟨this, by rw [sub32_eq this h1]; omega⟩

theorem sliceBw_plan {sy sx : Shape} {dim offset : Nat} {p : SliceBwPlan} (hy : WF sy) (hx : WF sx)
    (hoff : offset < W) (h : sliceBw sy sx dim offset = .ok p) :
    (∀ i, i ≠ dim → sy.get i = sx.get i) ∧ (sy.batch = sx.batch ∨ sy.batch = 1 ∨ sx.batch = 1) ∧
    offset + sy.get dim ≤ sx.get dim ∧
    sx.size = lo sx dim * sx.get dim * up sx dim * sx.batch ∧
    sy.size = lo sx dim * sy.get dim * up sx dim * sy.batch ∧
    ((sx.depth ≤ dim ∧ sy.get dim = 1 ∧ sx.get dim = 1 ∧ offset = 0 ∧
        p = .inplaceAdd (inplaceAddMoves (lo sx dim * up sx dim) (max sy.batch sx.batch)
              ((if sx.batch = 1 then 0 else 1) * (lo sx dim * up sx dim))
              ((if sy.batch = 1 then 0 else 1) * (lo sx dim * up sx dim)))) ∨
     (dim < sx.depth ∧
        p = .kernel (sliceBwMoves (lo sx dim) (lo sx dim * sy.get dim) (lo sx dim * sx.get dim) (up sx dim)
              (max sx.batch sy.batch) ((if sx.batch = 1 then 0 else 1) * (lo sx dim * sx.get dim * up sx dim))
              ((if sy.batch = 1 then 0 else 1) * (lo sx dim * sy.get dim * up sx dim)) offset))) := by
  unfold sliceBw sliceBwWith at h
  cases h1 : sy.hasSameLooDims sx dim with
  | error e => simp [h1, bind, Except.bind] at h
  | ok loo =>
    simp only [h1, bind, Except.bind] at h
    split at h
    · cases h
    · rename_i hc
      simp only [Bool.or_eq_true, Bool.not_eq_eq_eq_not, Bool.not_true, not_or, Bool.not_eq_true] at hc
      obtain ⟨⟨hloo, hcb⟩, hguard⟩ := hc
      have hloo' : loo = true := by simpa using hloo
      subst hloo'
      have hget := hasSameLooDims_get h1
      have hcb' : sy.batch = sx.batch ∨ sy.batch = 1 ∨ sx.batch = 1 := by
        unfold Shape.hasCompatibleBatch at hcb
        have hcb2 : (sy.batch == sx.batch || sy.batch == 1 || sx.batch == 1) = true := by
          cases hh : (sy.batch == sx.batch || sy.batch == 1 || sx.batch == 1) with
          | true => rfl
          | false => exact absurd hh hcb
        simp only [Bool.or_eq_true, beq_iff_eq] at hcb2
        rcases hcb2 with (a | a) | a <;> simp [a]
      have hg := (sliceBwGuard_iff (hx.get_lt dim) hoff).mp hguard
      have vx := hx.toView dim
      have vy0 := hy.toView dim
      have e1 : lo sy dim = lo sx dim := lo_eq_of_get (fun i hi => hget i (by omega))
      have e2 : up sy dim = up sx dim := up_eq_of_get (fun i hi => hget i (by omega))
      rw [e1, e2] at vy0
      refine ⟨hget, hcb', hg, vx.size, vy0.size, ?_⟩
      split at h
      · rename_i hd
        left
        have hx1 : sx.get dim = 1 := get_of_ge hd
        have hy1 : sy.get dim = 1 := by have := hy.pos dim; omega
        simp only [pure, Except.pure, Except.ok.injEq] at h
        refine ⟨hd, hy1, hx1, by omega, ?_⟩
        rw [← h, b2n_hasBatch sx hx, b2n_hasBatch sy hy, vx.volume, hx1]
        simp only [Nat.mul_one]
      · rename_i hd
        right
        simp only [pure, Except.pure, Except.ok.injEq] at h
        refine ⟨by omega, ?_⟩
        rw [← h, vx.lower, b2n_hasBatch sx hx, b2n_hasBatch sy hy, vx.volume, vy0.volume]
        congr 2
        have : lo sx dim * sx.get dim * up sx dim = lo sx dim * sx.get dim * up sx dim := rfl
        rw [mul_div_cancel_left' (Nat.mul_pos vx.hL vx.hn)]

theorem not_not_eq {b : Bool} (h : ¬ (!b) = true) : b = true := by
  cases b <;> simp_all

theorem maxBw_plan {x y gy gx : Shape} {dim : Nat} {r : Reduce} (hx : WF x) (hy : WF y) (hgy : WF gy) (hgx : WF gx)
    (h : maxBw x y gy gx dim = .ok r) :
    dim < 8 ∧ (∀ i, y.get i = if i = dim then 1 else x.get i) ∧
    r = axisReduce (lo x dim * (up x dim * x.batch)) (x.get dim) (lo x dim) ∧
    x.size = lo x dim * x.get dim * (up x dim * x.batch) ∧ gx.size = x.size ∧
    y.size = lo x dim * (up x dim * x.batch) ∧ gy.size = y.size := by
  unfold maxBw at h
  cases h1 : x.resizeDim dim 1 with
  | error e => simp [h1, bind, Except.bind] at h
  | ok s =>
    simp only [h1, bind, Except.bind] at h
    split at h
    · cases h
    · rename_i hc
      simp only [Bool.or_eq_true, not_or] at hc
      obtain ⟨⟨c1, c2⟩, c3⟩ := hc
      have c1 := not_not_eq c1; have c2 := not_not_eq c2; have c3 := not_not_eq c3
      simp only [pure, Except.pure, Except.ok.injEq] at h
      have ⟨h8, _, hs, hb, hg, _⟩ := resizeDim_ok hx h1
      have ⟨hyg, hyb⟩ := eq_get c2
      have hyg' : ∀ i, y.get i = if i = dim then 1 else x.get i := fun i => by rw [hyg, hg]
      have vy := view_of_update hy hyg'
      have vx := hx.toView dim
      refine ⟨h8, hyg', ?_, by rw [vx.size]; ring, (size_eq_of_eq hgx hx c1).2, by rw [vy.size, hyb, hb]; ring, ?_⟩
      · rw [← h, vy.lower, vy.size, hyb, hb]; congr 1; ring
      · rw [(size_eq_of_eq hgy hs c3).2, (size_eq_of_eq hy hs c2).2]

theorem batchPickFw_plan {x ys : Shape} {ids : List Nat} {m : Moves} (hx : WF x) (hlen : ids.length < W)
    (h : batchPickFw x ids = .ok (ys, m)) :
    0 < ids.length ∧ (∀ i ∈ ids, i < x.batch) ∧ WF ys ∧ ys.batch = ids.length ∧ ys.dims = x.dims ∧
    m = batchPickMoves ids.length x.volume ids ∧
    x.size = x.volume * x.batch ∧ ys.size = x.volume * ids.length := by
  unfold batchPickFw at h
  cases h1 : ShapeOps.batchPick x ids with
  | error e => simp [h1, bind, Except.bind] at h
  | ok y =>
    simp only [h1, bind, Except.bind, pure, Except.pure, Except.ok.injEq, Prod.mk.injEq] at h
    obtain ⟨rfl, rfl⟩ := h
    have ⟨hpos, hids, hy, hb, hd, hv⟩ := batchPick_ok hx h1
    rw [Nat.mod_eq_of_lt hlen] at hpos hb
    exact ⟨hpos, hids, hy, hb, hd, by rw [hb], hx.size_eq, by rw [hy.size_eq, hv, hb]⟩

theorem dims_eq_of_eq {a b : Shape} (h : a.eq b = true) : ∀ i, a.get i = b.get i := (eq_get h).1

theorem batchPickBw_plan {gy gx : Shape} {ids : List Nat} {m : Moves} (hy : WF gy) (hx : WF gx) (hlen : ids.length < W)
    (h : batchPickBw gy gx ids = .ok m) :
    0 < ids.length ∧ (∀ i ∈ ids, i < gx.batch) ∧ gy.batch = ids.length ∧ (∀ i, gy.get i = gx.get i) ∧
    m = (batchPickMoves ids.length gx.volume ids).swap ∧
    gx.size = gx.volume * gx.batch ∧ gy.size = gx.volume * ids.length := by
  unfold batchPickBw at h
  cases h1 : ShapeOps.batchPick gx ids with
  | error e => simp [h1, bind, Except.bind] at h
  | ok sy =>
    simp only [h1, bind, Except.bind] at h
    split at h
    · cases h
    · rename_i he
      have he' := not_not_eq he
      simp only [pure, Except.pure, Except.ok.injEq] at h
      have ⟨hpos, hids, hsy, hb, hd, hv⟩ := batchPick_ok hx h1
      rw [Nat.mod_eq_of_lt hlen] at hpos hb
      have ⟨hge, hbe⟩ := eq_get he'
      have hvol : gy.volume = gx.volume := by rw [(size_eq_of_eq hy hsy he').1, hv]
      refine ⟨hpos, hids, by rw [hbe, hb], fun i => by rw [hge, get_eq_of_dims hd], ?_, hx.size_eq, ?_⟩
      · rw [← h, hbe, hb]
      · rw [hy.size_eq, hvol, hbe, hb]

theorem batchSliceFw_plan {x ys : Shape} {lower upper : Nat} {m : Moves} (hx : WF x)
    (h : batchSliceFw x lower upper = .ok (ys, m)) :
    lower < upper ∧ upper ≤ x.batch ∧ WF ys ∧ ys.batch = upper - lower ∧ ys.dims = x.dims ∧
    m = batchSliceFwMoves x.volume (upper - lower) lower ∧
    x.size = x.volume * x.batch ∧ ys.size = x.volume * (upper - lower) := by
  unfold batchSliceFw at h
  cases h1 : ShapeOps.batchSlice x lower upper with
  | error e => simp [h1, bind, Except.bind] at h
  | ok y =>
    simp only [h1, bind, Except.bind, pure, Except.pure, Except.ok.injEq, Prod.mk.injEq] at h
    obtain ⟨rfl, rfl⟩ := h
    have ⟨hl, hu, hy, hb, hd, hv⟩ := batchSlice_ok hx h1
    exact ⟨hl, hu, hy, hb, hd, by rw [hv, hb], hx.size_eq, by rw [hy.size_eq, hv, hb]⟩

theorem batch_lt {s : Shape} (hs : WF s) : s.batch < W := by
  have := hs.fits; have := hs.vol_pos
  calc s.batch = 1 * s.batch := by omega
    _ ≤ s.volume * s.batch := Nat.mul_le_mul_right _ (by omega)
    _ < W := hs.fits

theorem batchSliceBw_plan {sy sx : Shape} {offset : Nat} {m : Moves} (hy : WF sy) (hx : WF sx) (hoff : offset < W)
    (h : batchSliceBw sy sx offset = .ok m) :
    (∀ i, sy.get i = sx.get i) ∧ offset + sy.batch ≤ sx.batch ∧ sy.volume = sx.volume ∧
    m = batchSliceBwMoves sx.volume sy.batch offset ∧
    sx.size = sx.volume * sx.batch ∧ sy.size = sx.volume * sy.batch := by
  unfold batchSliceBw batchSliceBwWith at h
  split at h
  · cases h
  · rename_i hc
    simp only [Bool.or_eq_true, not_or, Bool.not_eq_true] at hc
    obtain ⟨c1, c2⟩ := hc
    have c1 : sy.hasSameDims sx = true := by
      cases hh : sy.hasSameDims sx with
      | true => rfl
      | false => simp [hh] at c1
    simp only [pure, Except.pure, Except.ok.injEq] at h
    have hg := hasSameDims_get c1
    have hv := volume_eq_of_get hy hx hg
    have hgd := (sliceBwGuard_iff (batch_lt hx) hoff).mp c2
    exact ⟨hg, hgd, hv, by rw [← h, hv], hx.size_eq, by rw [hy.size_eq, hv]⟩

theorem batchSumFw_plan {x ys : Shape} {r : Reduce} (hx : WF x) (h : batchSumFw x = .ok (ys, r)) :
    WF ys ∧ ys.batch = 1 ∧ ys.dims = x.dims ∧ r = batchSumReduce x.volume x.batch ∧
    x.size = x.volume * x.batch ∧ ys.size = x.volume := by
  unfold batchSumFw at h
  cases h1 : x.resizeBatch 1 with
  | error e => simp [h1, bind, Except.bind] at h
  | ok y =>
    simp only [h1, bind, Except.bind, pure, Except.pure, Except.ok.injEq, Prod.mk.injEq] at h
    obtain ⟨rfl, rfl⟩ := h
    have ⟨hy, hb, hd, hv⟩ := resizeBatch_ok hx h1
    have hs : y.size = x.volume := by rw [hy.size_eq, hv, hb, Nat.mul_one]
    exact ⟨hy, hb, hd, by rw [hs], hx.size_eq, hs⟩

/-- a matrix: volume = rows * columns -/
theorem matrix_volume {x : Shape} (hx : WF x) (hm : x.isMatrix = true) : x.volume = x.get 0 * x.get 1 := by
  unfold Shape.isMatrix at hm
  simp only [decide_eq_true_eq] at hm
  rw [hx.vol]
  have e : (8 : Nat) = 2 + 6 := rfl
  rw [e, pi_add, piR_ones (fun i hi => get_of_ge (by unfold Shape.depth at hm; omega))]
  simp [pi]

theorem transposeFw_plan {x ys : Shape} {m : Moves} (hx : WF x) (h : transposeFw x = .ok (ys, m)) :
    x.isMatrix = true ∧ WF ys ∧ ys.batch = x.batch ∧ ys.get 0 = x.get 1 ∧ ys.get 1 = x.get 0 ∧
    (∀ i, 2 ≤ i → ys.get i = 1) ∧
    m = transposeMoves (x.get 0) (x.get 1) x.batch ∧
    x.size = x.get 0 * x.get 1 * x.batch ∧ ys.size = x.get 0 * x.get 1 * x.batch := by
  unfold transposeFw at h
  cases h1 : ShapeOps.transpose x with
  | error e => simp [h1, bind, Except.bind] at h
  | ok y =>
    simp only [h1, bind, Except.bind, pure, Except.pure, Except.ok.injEq, Prod.mk.injEq] at h
    obtain ⟨rfl, rfl⟩ := h
    unfold ShapeOps.transpose at h1
    split at h1
    · cases h1
    · rename_i hm
      have hm' := not_not_eq hm
      have ⟨hy, hb, hg, _, hlen⟩ := new_ok h1
      have g0 : y.get 0 = x.get 1 := by rw [hg]; rfl
      have g1 : y.get 1 = x.get 0 := by rw [hg]; rfl
      have g2 : ∀ i, 2 ≤ i → y.get i = 1 := by
        intro i hi; rw [hg]
        have : ([x.get 1, x.get 0] : List Nat).length ≤ i := hi
        simp [List.getD, List.getElem?_eq_none this]
      have hym : y.isMatrix = true := by
        unfold Shape.isMatrix Shape.depth
        simp only [decide_eq_true_eq]
        exact hlen
      refine ⟨hm', hy, hb, g0, g1, g2, by rw [hb], ?_, ?_⟩
      · rw [hx.size_eq, matrix_volume hx hm']
      · rw [hy.size_eq, matrix_volume hy hym, g0, g1, hb]; ring

/-! ### batch_concat -/

/-- number of samples of the operands before the `p`-th -/
def batchesBefore (xs : List Shape) (p : Nat) : Nat := ((xs.take p).map (·.batch)).sum

theorem batchConcatLoop_ok {s0 : Shape} {l : List Shape} {sum r : Nat} (h : ShapeOps.batchConcatLoop s0 l sum = .ok r) :
    r = sum + (l.map (·.batch)).sum ∧ ∀ s ∈ l, ∀ i, s0.get i = s.get i := by
  induction l generalizing sum with
  | nil =>
    simp only [ShapeOps.batchConcatLoop, pure, Except.pure, Except.ok.injEq] at h
    exact ⟨by simp [h], fun s hs => by cases hs⟩
  | cons s rest ih =>
    simp only [ShapeOps.batchConcatLoop] at h
    split at h
    · cases h
    · rename_i hc
      have hc' := not_not_eq hc
      obtain ⟨e, hall⟩ := ih h
      refine ⟨by rw [e]; simp; omega, ?_⟩
      intro s' hs'
      rcases List.mem_cons.mp hs' with rfl | h'
      · exact hasSameDims_get hc'
      · exact hall s' h'

theorem batchConcatPlan_length (xs : List Shape) (off : Nat) : (batchConcatPlan xs off).length = xs.length := by
  induction xs generalizing off with
  | nil => rfl
  | cons x rest ih => simp [batchConcatPlan, ih]

theorem batchConcatPlan_get (xs : List Shape) (off p : Nat) (hp : p < xs.length) :
    (batchConcatPlan xs off)[p]'(by rw [batchConcatPlan_length]; exact hp) =
      batchConcatMoves (off + ((xs.take p).map (·.size)).sum) xs[p].size := by
  induction xs generalizing off p with
  | nil => simp at hp
  | cons x rest ih =>
    cases p with
    | zero => simp [batchConcatPlan]
    | succ p =>
      have hp2 : p < rest.length := by simpa using hp
      simp only [batchConcatPlan, List.getElem_cons_succ, List.take_succ_cons, List.map_cons, List.sum_cons]
      rw [ih (off + x.size) p hp2]; congr 1; omega

theorem batchConcatFw_plan {xs : List Shape} {ys : Shape} {ms : List Moves} (hxs : ∀ s ∈ xs, WF s)
    (h : batchConcatFw xs = .ok (ys, ms)) :
    ∃ x0 rest, xs = x0 :: rest ∧ WF ys ∧ ys.dims = x0.dims ∧ ys.volume = x0.volume ∧
      ys.batch = (xs.map (·.batch)).sum ∧ ys.size = x0.volume * (xs.map (·.batch)).sum ∧
      ms = batchConcatPlan xs 0 ∧ ∀ s ∈ xs, s.volume = x0.volume ∧ s.size = x0.volume * s.batch := by
  unfold batchConcatFw at h
  split at h
  · cases h
  · cases hB : ShapeOps.batchConcat xs with
    | error e => simp [hB, bind, Except.bind] at h
    | ok y =>
      simp only [hB, bind, Except.bind, pure, Except.pure, Except.ok.injEq, Prod.mk.injEq] at h
      obtain ⟨rfl, rfl⟩ := h
      cases xs with
      | nil => simp [ShapeOps.batchConcat] at hB; cases hB
      | cons x0 rest =>
        simp only [ShapeOps.batchConcat] at hB
        cases hL : ShapeOps.batchConcatLoop x0 rest x0.batch with
        | error e => simp [hL, bind, Except.bind] at hB
        | ok sum =>
          simp only [hL, bind, Except.bind] at hB
          split at hB
          · cases hB
          · have hx0 := hxs x0 List.mem_cons_self
            obtain ⟨hy, hb, hd, hv⟩ := updateBatch_ok hx0 hB
            obtain ⟨hsum, hall⟩ := batchConcatLoop_ok hL
            have hbs : y.batch = ((x0 :: rest).map (·.batch)).sum := by rw [hb, hsum]; simp
            refine ⟨x0, rest, rfl, hy, hd, hv, hbs, by rw [hy.size_eq, hv, hbs], rfl, ?_⟩
            intro s hs
            have hsw := hxs s hs
            have hvol : s.volume = x0.volume := by
              rcases List.mem_cons.mp hs with rfl | h'
              · rfl
              · exact (volume_eq_of_get hx0 hsw (hall s h')).symm
            exact ⟨hvol, by rw [hsw.size_eq, hvol]⟩

/-! ### concat -/

theorem compat_of {a b : Shape} (h : ¬ (!a.hasCompatibleBatch b) = true) :
    a.batch = b.batch ∨ a.batch = 1 ∨ b.batch = 1 := by
  have h' := not_not_eq h
  unfold Shape.hasCompatibleBatch at h'
  simp only [Bool.or_eq_true, beq_iff_eq] at h'
  rcases h' with (a | a) | a <;> simp [a]

theorem concatLoop_ok {dim : Nat} {l : List Shape} {s0 sf : Shape} {sum sumf : Nat} (hs0 : WF s0)
    (h : ShapeOps.concatLoop dim l (s0, sum) = .ok (sf, sumf)) :
    WF sf ∧ sf.dims = s0.dims ∧ sf.volume = s0.volume ∧ sumf = sum + (l.map (·.get dim)).sum ∧
    (∀ s ∈ l, (∀ i, i ≠ dim → s0.get i = s.get i) ∧ (s.batch = 1 ∨ s.batch = sf.batch)) ∧
    (s0.batch = 1 ∨ s0.batch = sf.batch) := by
  induction l generalizing s0 sum with
  | nil =>
    simp only [ShapeOps.concatLoop, pure, Except.pure, Except.ok.injEq, Prod.mk.injEq] at h
    obtain ⟨rfl, rfl⟩ := h
    exact ⟨hs0, rfl, rfl, (by simp), (fun s hs => by cases hs), Or.inr rfl⟩
  | cons s rest ih =>
    simp only [ShapeOps.concatLoop] at h
    cases hl : s0.hasSameLooDims s dim with
    | error e => simp [hl, bind, Except.bind] at h
    | ok loo =>
      simp only [hl, bind, Except.bind] at h
      split at h
      · cases h
      · rename_i hc
        simp only [Bool.or_eq_true, not_or] at hc
        obtain ⟨c1, c2⟩ := hc
        have c1' : loo = true := not_not_eq c1
        subst c1'
        have hget := hasSameLooDims_get hl
        have hcomp := compat_of c2
        by_cases hb : s0.hasBatch = true
        · -- s0 keeps its batch
          simp only [hb, Bool.not_true, Bool.false_eq_true, if_false, pure, Except.pure] at h
          obtain ⟨w, d, v, e, hall, hbb⟩ := ih hs0 h
          have hb1 : 1 < s0.batch := (hasBatch_iff s0).mp hb
          have hsf : s0.batch = sf.batch := by omega
          refine ⟨w, d, v, (by rw [e]; simp; omega), ?_, hbb⟩
          intro s' hs'
          rcases List.mem_cons.mp hs' with rfl | h'
          · exact ⟨hget, by omega⟩
          · exact hall s' h'
        · -- s0 takes the batch of s
          have hb0 : s0.batch = 1 := by
            have := hs0.bpos
            have : ¬ 1 < s0.batch := fun hh => hb ((hasBatch_iff s0).mpr hh)
            omega
          simp only [hb, Bool.not_false, if_true] at h
          cases hu : s0.updateBatch s.batch with
          | error e => simp [hu] at h
          | ok s0' =>
            simp only [hu] at h
            obtain ⟨w0, b0, d0, v0⟩ := updateBatch_ok hs0 hu
            obtain ⟨w, d, v, e, hall, hbb⟩ := ih w0 h
            refine ⟨w, (by rw [d, d0]), (by rw [v, v0]), (by rw [e]; simp; omega), ?_, Or.inl hb0⟩
            intro s' hs'
            rcases List.mem_cons.mp hs' with rfl | h'
            · exact ⟨hget, by rw [b0] at hbb; exact hbb⟩
            · have := hall s' h'
              exact ⟨fun i hi => by rw [← this.1 i hi, get_eq_of_dims d0], this.2⟩

theorem concatPlan_length (y : Shape) (dim : Nat) (xs : List Shape) (off : Nat) :
    (concatPlan y dim xs off).length = xs.length := by
  induction xs generalizing off with
  | nil => rfl
  | cons x rest ih => simp [concatPlan, ih]

theorem concatPlan_get (y : Shape) (dim : Nat) (xs : List Shape) (off p : Nat) (hp : p < xs.length) :
    (concatPlan y dim xs off)[p]'(by rw [concatPlan_length]; exact hp) =
      concatMoves y.batch (y.lowerVolume dim) (y.lowerVolume dim * y.get dim)
        (y.volume / (y.lowerVolume dim * y.get dim))
        (off + y.lowerVolume dim * ((xs.take p).map (·.get dim)).sum) (xs[p].get dim) (b2n xs[p].hasBatch) := by
  induction xs generalizing off p with
  | nil => simp at hp
  | cons x rest ih =>
    cases p with
    | zero => simp [concatPlan]
    | succ p =>
      have hp2 : p < rest.length := by simpa using hp
      simp only [concatPlan, List.getElem_cons_succ, List.take_succ_cons, List.map_cons, List.sum_cons]
      rw [ih (off + y.lowerVolume dim * x.get dim) p hp2]; congr 1; ring

theorem concatFw_plan {xs : List Shape} {ys : Shape} {ms : List Moves} {dim : Nat} (hxs : ∀ s ∈ xs, WF s)
    (h : concatFw xs dim = .ok (ys, ms)) :
    ∃ x0 rest, xs = x0 :: rest ∧ dim < 8 ∧ WF ys ∧
      (∀ i, ys.get i = if i = dim then (xs.map (·.get dim)).sum else x0.get i) ∧
      (∀ s ∈ xs, (∀ i, i ≠ dim → s.get i = x0.get i) ∧ (s.batch = 1 ∨ s.batch = ys.batch)) ∧
      ms = concatPlan ys dim xs 0 := by
  unfold concatFw at h
  split at h
  · cases h
  · cases hB : ShapeOps.concat xs dim with
    | error e => simp [hB, bind, Except.bind] at h
    | ok y =>
      simp only [hB, bind, Except.bind, pure, Except.pure, Except.ok.injEq, Prod.mk.injEq] at h
      obtain ⟨rfl, rfl⟩ := h
      cases xs with
      | nil => simp [ShapeOps.concat] at hB; cases hB
      | cons x0 rest =>
        simp only [ShapeOps.concat] at hB
        cases hL : ShapeOps.concatLoop dim rest (x0, x0.get dim) with
        | error e => simp [hL, bind, Except.bind] at hB
        | ok st =>
          obtain ⟨sf, sumf⟩ := st
          simp only [hL, bind, Except.bind] at hB
          split at hB
          · cases hB
          · have hx0 := hxs x0 List.mem_cons_self
            obtain ⟨wf, hd, _, hsum, hall, hb0⟩ := concatLoop_ok hx0 hL
            obtain ⟨h8, _, hy, hyb, hyg, _⟩ := updateDim_ok wf hB
            refine ⟨x0, rest, rfl, h8, hy, ?_, ?_, rfl⟩
            · intro i; rw [hyg i]
              split
              · rw [hsum]; simp
              · exact get_eq_of_dims hd i
            · intro s hs
              rcases List.mem_cons.mp hs with rfl | h'
              · exact ⟨fun _ _ => rfl, by rw [hyb]; exact hb0⟩
              · have := hall s h'
                exact ⟨fun i hi => (this.1 i hi).symm, by rw [hyb]; exact this.2⟩

/-- the loop nest of the `p`-th operand of concat, as numbers -/
theorem concatFw_entry {xs : List Shape} {ys : Shape} {ms : List Moves} {dim : Nat} (hxs : ∀ s ∈ xs, WF s)
    (h : concatFw xs dim = .ok (ys, ms)) (p : Nat) (hp : p < xs.length) :
    ∃ hp' : p < ms.length,
      ms[p] = concatMoves ys.batch (lo ys dim) (lo ys dim * ys.get dim) (up ys dim)
        (lo ys dim * ((xs.take p).map (·.get dim)).sum) (xs[p].get dim) (if xs[p].batch = 1 then 0 else 1) ∧
      xs[p].size = lo ys dim * xs[p].get dim * up ys dim * xs[p].batch ∧
      ys.size = lo ys dim * ys.get dim * up ys dim * ys.batch ∧
      ys.get dim = (xs.map (·.get dim)).sum ∧ (xs[p].batch = 1 ∨ xs[p].batch = ys.batch) := by
  obtain ⟨x0, rest, hcons, h8, hy, hyg, hall, rfl⟩ := concatFw_plan hxs h
  have hxp := hxs _ (List.getElem_mem hp)
  have ⟨hgp, hbp⟩ := hall _ (List.getElem_mem hp)
  have vy := hy.toView dim
  have vp := hxp.toView dim
  have e1 : lo xs[p] dim = lo ys dim := lo_eq_of_get (fun i hi => by rw [hgp i (by omega), hyg i, if_neg (by omega)])
  have e2 : up xs[p] dim = up ys dim := up_eq_of_get (fun i hi => by rw [hgp i (by omega), hyg i, if_neg (by omega)])
  refine ⟨by rw [concatPlan_length]; exact hp, ?_, by rw [vp.size, e1, e2], vy.size, by rw [hyg dim, if_pos rfl], hbp⟩
  rw [concatPlan_get _ _ _ _ _ hp, vy.lower, vy.volume, b2n_hasBatch _ hxp, Nat.zero_add]
  congr 1
  rw [Nat.mul_comm, Nat.mul_div_cancel _ (Nat.mul_pos vy.hL vy.hn)]

end Primitiv.Move.Front
