import PrimitivModel.Lemmas.View3
/-
Shape plumbing for the kernels family: what the well-formed shapes are (the
ones the public constructor yields and the shape rules preserve), how the
model's 32-bit `lowerVolume`/`volume`/`size` relate to the true products on
them, and what each shape rule used by a Device front-end says about
`get` / `batch` of its result.
-/
namespace Primitiv.MoveShape
open Primitiv

/-- `∏_{i<n} f i` -/
def pi (f : Nat → Nat) : Nat → Nat
  | 0 => 1
  | n + 1 => pi f n * f n

/-- `∏_{a ≤ i < a+k} f i` -/
def piR (f : Nat → Nat) (a : Nat) : Nat → Nat
  | 0 => 1
  | k + 1 => piR f a k * f (a + k)

theorem pi_add (f : Nat → Nat) (a k : Nat) : pi f (a + k) = pi f a * piR f a k := by
  induction k with
  | zero => simp [piR]
  | succ k ih => rw [← Nat.add_assoc]; simp only [pi, piR]; rw [ih]; ring

theorem piR_succ_left (f : Nat → Nat) (a k : Nat) : piR f a (k + 1) = f a * piR f (a + 1) k := by
  induction k with
  | zero => simp [piR]
  | succ k ih =>
    rw [piR, ih]; simp only [piR]
    have : a + 1 + k = a + (k + 1) := by omega
    rw [this]; ring

theorem pi_congr {f g : Nat → Nat} {n : Nat} (h : ∀ i, i < n → f i = g i) : pi f n = pi g n := by
  induction n with
  | zero => rfl
  | succ n ih =>
    simp only [pi]
    rw [ih (fun i hi => h i (by omega)), h n (by omega)]

theorem piR_congr {f g : Nat → Nat} {a k : Nat} (h : ∀ i, a ≤ i → i < a + k → f i = g i) : piR f a k = piR g a k := by
  induction k with
  | zero => rfl
  | succ k ih =>
    simp only [piR]
    rw [ih (fun i h1 h2 => h i h1 (by omega)), h (a + k) (by omega) (by omega)]

theorem pi_pos {f : Nat → Nat} (h : ∀ i, 0 < f i) (n : Nat) : 0 < pi f n := by
  induction n with
  | zero => simp [pi]
  | succ n ih => simp only [pi]; exact Nat.mul_pos ih (h n)

theorem piR_pos {f : Nat → Nat} (h : ∀ i, 0 < f i) (a k : Nat) : 0 < piR f a k := by
  induction k with
  | zero => simp [piR]
  | succ k ih => simp only [piR]; exact Nat.mul_pos ih (h _)

theorem piR_ones {f : Nat → Nat} {a : Nat} (h : ∀ i, a ≤ i → f i = 1) (k : Nat) : piR f a k = 1 := by
  induction k with
  | zero => rfl
  | succ k ih => simp only [piR]; rw [ih, h (a + k) (by omega)]

theorem pi_ones {f : Nat → Nat} (h : ∀ i, f i = 1) (n : Nat) : pi f n = 1 := by
  induction n with
  | zero => rfl
  | succ n ih => simp only [pi]; rw [ih, h n]

theorem pi_cons (x : Nat) (l : List Nat) (n : Nat) :
    pi (fun i => (x :: l).getD i 1) (n + 1) = x * pi (fun i => l.getD i 1) n := by
  induction n with
  | zero => simp [pi]
  | succ n ih =>
    rw [pi, ih]; simp only [pi]
    have : (x :: l).getD (n + 1) 1 = l.getD n 1 := by simp [List.getD]
    rw [this]; ring

theorem pi_pos_factor {f : Nat → Nat} {n : Nat} (h : pi f n ≠ 0) : ∀ i, i < n → 0 < f i := by
  induction n with
  | zero => intro i hi; omega
  | succ n ih =>
    intro i hi
    simp only [pi] at h
    have h1 : pi f n ≠ 0 := fun e => h (by rw [e]; simp)
    have h2 : f n ≠ 0 := fun e => h (by rw [e]; simp)
    rcases Nat.lt_or_ge i n with hlt | hge
    · exact ih h1 i hlt
    · have : i = n := by omega
      subst this; omega

/-- split the product at an axis -/
theorem pi_split (f : Nat → Nat) {d : Nat} (hd : d < 8) : pi f 8 = pi f d * f d * piR f (d + 1) (8 - (d + 1)) := by
  have e : 8 = d + ((8 - (d + 1)) + 1) := by omega
  conv => lhs; rw [e]
  rw [pi_add, piR_succ_left]; ring

/-! ### well-formed shapes and the three-way view -/

def lo (s : Shape) (d : Nat) : Nat := pi s.get d
def up (s : Shape) (d : Nat) : Nat := piR s.get (d + 1) (8 - (d + 1))

/-- The invariant of every `Shape` the library can construct. -/
structure WF (s : Shape) : Prop where
  depth_le : s.dims.length ≤ 8
  pos : ∀ i, 0 < s.get i
  bpos : 0 < s.batch
  vol : s.volume = pi s.get 8
  fits : s.volume * s.batch < W

theorem get_of_ge {s : Shape} {i : Nat} (h : s.dims.length ≤ i) : s.get i = 1 := by
  unfold Shape.get; simp [List.getD, List.getElem?_eq_none h]

theorem WF.get_ge8 {s : Shape} (h : WF s) {i : Nat} (hi : 8 ≤ i) : s.get i = 1 :=
  get_of_ge (by have := h.depth_le; omega)

theorem lo_pos {s : Shape} (h : WF s) (d : Nat) : 0 < lo s d := pi_pos h.pos d
theorem up_pos {s : Shape} (h : WF s) (d : Nat) : 0 < up s d := piR_pos h.pos _ _

/-- volume = (below the axis) * (the axis) * (above the axis), for every axis
argument, also one at or beyond the depth (then the axis has size 1) -/
theorem WF.view {s : Shape} (h : WF s) (d : Nat) : s.volume = lo s d * s.get d * up s d := by
  rw [h.vol]
  rcases Nat.lt_or_ge d 8 with hd | hd
  · exact pi_split s.get hd
  · unfold lo up
    have e : d = 8 + (d - 8) := by omega
    have e2 : 8 - (d + 1) = 0 := by omega
    rw [e2, h.get_ge8 hd]
    conv => rhs; rw [e, pi_add]
    rw [piR_ones (fun i hi => h.get_ge8 hi)]; simp [piR]

theorem WF.vol_pos {s : Shape} (h : WF s) : 0 < s.volume := by
  rw [h.vol]; exact pi_pos h.pos 8

theorem WF.vol_lt {s : Shape} (h : WF s) : s.volume < W := by
  have := h.fits; have := h.bpos
  calc s.volume = s.volume * 1 := by omega
    _ ≤ s.volume * s.batch := Nat.mul_le_mul_left _ (by omega)
    _ < W := h.fits

theorem WF.size_eq {s : Shape} (h : WF s) : s.size = s.volume * s.batch := by
  unfold Shape.size mul32
  rw [Nat.mul_comm, Nat.mod_eq_of_lt h.fits]

theorem WF.lo_le {s : Shape} (h : WF s) (d : Nat) : lo s d ≤ s.volume := by
  rw [h.view d]
  have h1 := h.pos d; have h2 := up_pos h d
  calc lo s d = lo s d * 1 * 1 := by omega
    _ ≤ lo s d * s.get d * up s d := Nat.mul_le_mul (Nat.mul_le_mul_left _ h1) h2

theorem WF.get_le {s : Shape} (h : WF s) (d : Nat) : s.get d ≤ s.volume := by
  rw [h.view d]
  have h1 := lo_pos h d; have h2 := up_pos h d
  calc s.get d = 1 * s.get d * 1 := by omega
    _ ≤ lo s d * s.get d * up s d := Nat.mul_le_mul (Nat.mul_le_mul_right _ h1) h2

theorem WF.get_lt {s : Shape} (h : WF s) (d : Nat) : s.get d < W :=
  Nat.lt_of_le_of_lt (h.get_le d) h.vol_lt

theorem foldl_mul32 (l : List Nat) (d a : Nat) (ha : a < W) :
    (l.take d).foldl mul32 a = (a * pi (fun i => l.getD i 1) d) % W := by
  induction l generalizing d a with
  | nil =>
    simp only [List.take_nil, List.foldl_nil]
    rw [pi_ones (by intro i; simp [List.getD])]
    rw [Nat.mul_one, Nat.mod_eq_of_lt ha]
  | cons x xs ih =>
    cases d with
    | zero => simp [pi, Nat.mod_eq_of_lt ha]
    | succ d =>
      simp only [List.take_succ_cons, List.foldl_cons]
      rw [ih d (mul32 a x) (Nat.mod_lt _ (by decide)), pi_cons]
      unfold mul32
      rw [Nat.mod_mul_mod, Nat.mul_assoc]

theorem WF.lowerVolume_eq {s : Shape} (h : WF s) (d : Nat) : s.lowerVolume d = lo s d := by
  unfold Shape.lowerVolume prod32
  rw [foldl_mul32 _ _ _ (by decide), Nat.one_mul]
  exact Nat.mod_eq_of_lt (Nat.lt_of_le_of_lt (h.lo_le d) h.vol_lt)

/-! ### `trim`, the constructor and the two update functions -/

theorem trim_getD (l : List Nat) (i : Nat) : (trim l).getD i 1 = l.getD i 1 := by
  induction l generalizing i with
  | nil => rfl
  | cons d ds ih =>
    unfold trim
    cases h : trim ds with
    | nil =>
      have ih' : ∀ j, ds.getD j 1 = 1 := fun j => by rw [← ih j, h]; rfl
      by_cases hd : d = 1
      · simp only [hd, if_true]
        cases i with
        | zero => rfl
        | succ i => simpa using (ih' i).symm
      · simp only [hd, if_false]
        cases i with
        | zero => rfl
        | succ i => simpa using (ih' i).symm
    | cons t ts =>
      cases i with
      | zero => rfl
      | succ i =>
        have := ih i
        rw [h] at this
        simpa using this

theorem trim_length_le (l : List Nat) : (trim l).length ≤ l.length := by
  induction l with
  | nil => simp [trim]
  | cons d ds ih =>
    unfold trim
    cases h : trim ds with
    | nil => by_cases hd : d = 1 <;> simp [hd]
    | cons t ts => rw [h] at ih; simp at ih ⊢; omega

theorem getD_of_ge_trim (l : List Nat) {i : Nat} (h : (trim l).length ≤ i) : l.getD i 1 = 1 := by
  rw [← trim_getD]; simp [List.getD, List.getElem?_eq_none h]

theorem prodChk_eq (l : List Nat) (v r : Nat) (h : Shape.prodChk l v = some r) :
    r = v * pi (fun i => l.getD i 1) l.length := by
  induction l generalizing v with
  | nil => simp [Shape.prodChk] at h; simp [pi, h]
  | cons d ds ih =>
    simp only [Shape.prodChk] at h
    split at h
    · cases h
    · rw [ih (v * d) h, List.length_cons, pi_cons]; ring

theorem pi_getD_ext (l : List Nat) {n : Nat} (h : l.length ≤ n) :
    pi (fun i => l.getD i 1) n = pi (fun i => l.getD i 1) l.length := by
  have e : n = l.length + (n - l.length) := by omega
  rw [e, pi_add, piR_ones]; · simp
  intro i hi; simp [List.getD, List.getElem?_eq_none hi]

theorem new_ok {dims : List Nat} {b : Nat} {s : Shape} (h : Shape.new dims b = .ok s) :
    WF s ∧ s.batch = b ∧ (∀ i, s.get i = dims.getD i 1) ∧ dims.length ≤ 8 ∧ s.dims.length ≤ dims.length := by
  unfold Shape.new at h
  split at h
  · cases h
  · rename_i hlen
    split at h
    · cases h
    · rename_i vol hv
      split at h
      · cases h
      · rename_i hc
        simp only [pure, Except.pure, Except.ok.injEq] at h
        subst h
        have hvol := prodChk_eq _ _ _ hv
        rw [Nat.one_mul] at hvol
        have hget : ∀ i, (Shape.mk (trim dims) b vol).get i = dims.getD i 1 := fun i => trim_getD dims i
        have hlen' : dims.length ≤ 8 := by omega
        have hpos : ∀ i, 0 < dims.getD i 1 := by
          intro i
          rcases Nat.lt_or_ge i dims.length with hi | hi
          · exact pi_pos_factor (f := fun i => dims.getD i 1) (by rw [← hvol]; omega) i hi
          · simp [List.getD, List.getElem?_eq_none hi]
        refine ⟨⟨?_, ?_, ?_, ?_, ?_⟩, rfl, hget, hlen', trim_length_le dims⟩
        · exact Nat.le_trans (trim_length_le dims) hlen'
        · intro i; rw [hget]; exact hpos i
        · show 0 < b; omega
        · show vol = pi (Shape.mk (trim dims) b vol).get 8
          rw [hvol, ← pi_getD_ext dims hlen']
          exact pi_congr (fun i _ => (hget i).symm)
        · show vol * b < W
          have : MAXU + 1 = W := rfl
          omega

theorem updateBatch_ok {s y : Shape} {b : Nat} (hs : WF s) (h : s.updateBatch b = .ok y) :
    WF y ∧ y.batch = b ∧ y.dims = s.dims ∧ y.volume = s.volume := by
  unfold Shape.updateBatch at h
  split at h
  · cases h
  · split at h
    · cases h
    · simp only [pure, Except.pure, Except.ok.injEq] at h
      subst h
      refine ⟨⟨hs.depth_le, hs.pos, ?_, hs.vol, ?_⟩, rfl, rfl, rfl⟩
      · show 0 < b; omega
      · show s.volume * b < W
        have : MAXU + 1 = W := rfl
        omega

theorem get_eq_of_dims {a b : Shape} (h : a.dims = b.dims) (i : Nat) : a.get i = b.get i := by
  unfold Shape.get; rw [h]

theorem getD_pad (l : List Nat) (k i : Nat) : (l ++ List.replicate k 1).getD i 1 = l.getD i 1 := by
  simp only [List.getD]
  rcases Nat.lt_or_ge i l.length with hi | hi
  · rw [List.getElem?_append_left hi]
  · rw [List.getElem?_append_right hi, List.getElem?_eq_none hi]
    rcases Nat.lt_or_ge (i - l.length) k with h2 | h2
    · simp [h2]
    · simp [h2]

theorem getD_set (l : List Nat) (d m i : Nat) (hd : d < l.length) :
    (l.set d m).getD i 1 = if i = d then m else l.getD i 1 := by
  simp only [List.getD, List.getElem?_set]
  by_cases h : i = d
  · subst h; simp [hd]
  · have : ¬ d = i := fun e => h e.symm
    simp [h, this]

theorem updateDim_ok {s y : Shape} {d m : Nat} (hs : WF s) (h : s.updateDim d m = .ok y) :
    d < 8 ∧ 0 < m ∧ WF y ∧ y.batch = s.batch ∧ (∀ i, y.get i = if i = d then m else s.get i) ∧
    y.volume = lo s d * m * up s d := by
  unfold Shape.updateDim at h
  split at h
  · cases h
  · rename_i hd
    split at h
    · cases h
    · rename_i hm
      simp only at h
      split at h
      · cases h
      · split at h
        · cases h
        · rename_i hd0 hfit
          simp only [pure, Except.pure, Except.ok.injEq] at h
          have hd8 : d < 8 := by omega
          have hv := hs.view d
          have hn := hs.pos d
          have hdiv : s.volume / s.get d = lo s d * up s d := by
            rw [hv]
            have : lo s d * s.get d * up s d = s.get d * (lo s d * up s d) := by ring
            rw [this, Nat.mul_div_cancel_left _ hn]
          generalize hpad : (if d ≥ s.depth then s.dims ++ List.replicate (d + 1 - s.depth) 1 else s.dims) = dims1 at h
          have hlen1 : d < dims1.length ∧ dims1.length ≤ 8 := by
            have := hs.depth_le
            subst hpad; unfold Shape.depth
            split
            · rename_i hge
              simp only [List.length_append, List.length_replicate]; omega
            · rename_i hge; omega
          have hget1 : ∀ i, dims1.getD i 1 = s.get i := by
            intro i; subst hpad; unfold Shape.get
            split
            · exact getD_pad _ _ _
            · rfl
          subst h
          have hget : ∀ v i, (Shape.mk (trim (dims1.set d m)) s.batch v).get i =
              if i = d then m else s.get i := by
            intro v i
            show (trim (dims1.set d m)).getD i 1 = _
            rw [trim_getD, getD_set _ _ _ _ hlen1.1, hget1]
          have hvol : s.volume / s.get d * m = lo s d * m * up s d := by rw [hdiv]; ring
          refine ⟨hd8, by omega, ⟨?_, ?_, hs.bpos, ?_, ?_⟩, rfl, hget _, hvol⟩
          · exact Nat.le_trans (trim_length_le _) (by rw [List.length_set]; exact hlen1.2)
          · intro i; rw [hget]; split
            · omega
            · exact hs.pos i
          · show s.volume / s.get d * m = pi _ 8
            rw [hvol, pi_split _ hd8, hget _ d, if_pos rfl]
            congr 1
            · congr 1
              exact pi_congr (fun i hi => by rw [hget _ i, if_neg (by omega)])
            · exact piR_congr (fun i h1 _ => by rw [hget _ i, if_neg (by omega)])
          · show s.volume / s.get d * m * s.batch < W
            have : MAXU + 1 = W := rfl
            omega

/-! ### comparison predicates -/

theorem hasSameDims_get {a b : Shape} (h : a.hasSameDims b = true) (i : Nat) : a.get i = b.get i := by
  unfold Shape.hasSameDims at h
  simp only [Bool.and_eq_true, List.all_eq_true, List.mem_range, beq_iff_eq] at h
  obtain ⟨h1, h2⟩ := h
  rcases Nat.lt_or_ge i a.depth with hi | hi
  · exact h1 i hi
  · rw [get_of_ge hi, get_of_ge (by unfold Shape.depth at h2 hi; omega)]

theorem eq_get {a b : Shape} (h : a.eq b = true) : (∀ i, a.get i = b.get i) ∧ a.batch = b.batch := by
  unfold Shape.eq at h
  simp only [Bool.and_eq_true, beq_iff_eq] at h
  exact ⟨hasSameDims_get h.1, h.2⟩

theorem volume_eq_of_get {a b : Shape} (ha : WF a) (hb : WF b) (h : ∀ i, a.get i = b.get i) : a.volume = b.volume := by
  rw [ha.vol, hb.vol]; exact pi_congr (fun i _ => h i)

theorem lo_eq_of_get {a b : Shape} {d : Nat} (h : ∀ i, i < d → a.get i = b.get i) : lo a d = lo b d :=
  pi_congr h

theorem up_eq_of_get {a b : Shape} {d : Nat} (h : ∀ i, d < i → a.get i = b.get i) : up a d = up b d :=
  piR_congr (fun i h1 _ => h i (by omega))

theorem size_eq_of_eq {a b : Shape} (ha : WF a) (hb : WF b) (h : a.eq b = true) :
    a.volume = b.volume ∧ a.size = b.size := by
  have ⟨hg, hbt⟩ := eq_get h
  have hv := volume_eq_of_get ha hb hg
  exact ⟨hv, by rw [ha.size_eq, hb.size_eq, hv, hbt]⟩

theorem getD_take (l : List Nat) (d i : Nat) (h : i < d) : (l.take d).getD i 1 = l.getD i 1 := by
  simp [List.getD, h]

theorem looLen_ones {s : Shape} {dim n : Nat} (h : s.looLen dim = .ok n) :
    ∀ i, n ≤ i → i ≠ dim → s.get i = 1 := by
  unfold Shape.looLen at h
  intro i hi hne
  split at h
  · rename_i hc
    simp only [pure, Except.pure, Except.ok.injEq] at h
    subst h
    rcases Nat.lt_or_ge i dim with hlt | hge
    · have := getD_of_ge_trim _ hi
      rwa [getD_take _ _ _ hlt] at this
    · exact get_of_ge (by unfold Shape.depth at hc; omega)
  · simp only [pure, Except.pure, Except.ok.injEq] at h
    subst h
    exact getD_of_ge_trim _ hi

theorem hasSameLooDims_get {a b : Shape} {dim : Nat} (h : a.hasSameLooDims b dim = .ok true) :
    ∀ i, i ≠ dim → a.get i = b.get i := by
  unfold Shape.hasSameLooDims at h
  cases h1 : a.looLen dim with
  | error e => simp [h1, bind, Except.bind] at h
  | ok nl =>
    cases h2 : b.looLen dim with
    | error e => simp [h1, h2, bind, Except.bind] at h
    | ok nr =>
      simp only [h1, h2, bind, Except.bind, pure, Except.pure, Except.ok.injEq, Bool.and_eq_true,
        beq_iff_eq, List.all_eq_true, List.mem_range, Bool.or_eq_true] at h
      obtain ⟨hn, hall⟩ := h
      intro i hne
      rcases Nat.lt_or_ge i nl with hi | hi
      · rcases hall i hi with e | e
        · exact e
        · exact absurd e hne
      · rw [looLen_ones h1 i hi hne, looLen_ones h2 i (by omega) hne]

/-! ### shape rules used by the front-ends -/

theorem resizeDim_ok {s y : Shape} {d m : Nat} (hs : WF s) (h : s.resizeDim d m = .ok y) :
    d < 8 ∧ 0 < m ∧ WF y ∧ y.batch = s.batch ∧ (∀ i, y.get i = if i = d then m else s.get i) ∧
    y.volume = lo s d * m * up s d := updateDim_ok hs h

theorem resizeBatch_ok {s y : Shape} {b : Nat} (hs : WF s) (h : s.resizeBatch b = .ok y) :
    WF y ∧ y.batch = b ∧ y.dims = s.dims ∧ y.volume = s.volume := updateBatch_ok hs h

theorem sub32_eq {a b : Nat} (hb : b ≤ a) (ha : a < W) : sub32 a b = a - b := by
  unfold sub32
  rw [Nat.mod_eq_of_lt (by omega : b < W)]
  have : a + W - b = (a - b) + W := by omega
  rw [this, Nat.add_mod_right, Nat.mod_eq_of_lt (by omega)]

/-- `shape_ops::slice` -/
theorem slice_ok {x y : Shape} {dim lower upper : Nat} (hx : WF x) (h : ShapeOps.slice x dim lower upper = .ok y) :
    lower < upper ∧ upper ≤ x.get dim ∧ WF y ∧ y.batch = x.batch ∧
    (∀ i, y.get i = if i = dim then upper - lower else x.get i) := by
  unfold ShapeOps.slice at h
  split at h
  · cases h
  · rename_i hc
    have hlu : lower < upper ∧ upper ≤ x.get dim := by omega
    split at h
    · rename_i hd
      simp only [pure, Except.pure, Except.ok.injEq] at h
      subst h
      have h1 : x.get dim = 1 := get_of_ge hd
      refine ⟨hlu.1, hlu.2, hx, rfl, ?_⟩
      intro i; split
      · rename_i e; subst e; omega
      · rfl
    · have hup : upper < W := Nat.lt_of_le_of_lt hlu.2 (hx.get_lt dim)
      rw [sub32_eq (by omega) hup] at h
      have ⟨_, _, hy, hb, hg, _⟩ := resizeDim_ok hx h
      exact ⟨hlu.1, hlu.2, hy, hb, hg⟩

/-- `shape_ops::broadcast` -/
theorem broadcast_ok {x y : Shape} {dim size : Nat} (hx : WF x) (h : ShapeOps.broadcast x dim size = .ok y) :
    dim < 8 ∧ x.get dim = 1 ∧ 0 < size ∧ WF y ∧ y.batch = x.batch ∧
    (∀ i, y.get i = if i = dim then size else x.get i) := by
  unfold ShapeOps.broadcast at h
  split at h
  · cases h
  · rename_i hc
    have ⟨h8, hm, hy, hb, hg, _⟩ := resizeDim_ok hx h
    exact ⟨h8, by omega, hm, hy, hb, hg⟩

/-- `shape_ops::pick` -/
theorem pick_ok {x y : Shape} {ids : List Nat} {dim : Nat} (hx : WF x) (h : ShapeOps.pick x ids dim = .ok y) :
    dim < 8 ∧ 0 < ids.length % W ∧ (x.batch = ids.length % W ∨ x.batch = 1 ∨ ids.length % W = 1) ∧
    (∀ i ∈ ids, i < x.get dim) ∧ WF y ∧ y.batch = max x.batch (ids.length % W) ∧
    (∀ i, y.get i = if i = dim then 1 else x.get i) := by
  unfold ShapeOps.pick at h
  simp only at h
  split at h
  · cases h
  · rename_i hc
    split at h
    · cases h
    · rename_i hids
      cases h1 : x.resizeDim dim 1 with
      | error e => simp [h1, bind, Except.bind] at h
      | ok r =>
        simp only [h1, bind, Except.bind] at h
        have ⟨h8, _, hr, hrb, hrg, _⟩ := resizeDim_ok hx h1
        have ⟨hy, hyb, hyd, _⟩ := updateBatch_ok hr h
        refine ⟨h8, by omega, ?_, ?_, hy, hyb, ?_⟩
        · unfold Shape.hasBatch at hc
          simp only [decide_eq_true_eq] at hc
          have := hx.bpos
          omega
        · intro i hi
          simp only [List.any_eq_true, decide_eq_true_eq, not_exists, not_and] at hids
          have := hids i hi; omega
        · intro i; rw [get_eq_of_dims hyd, hrg]

/-- `shape_ops::batch_pick` -/
theorem batchPick_ok {x y : Shape} {ids : List Nat} (hx : WF x) (h : ShapeOps.batchPick x ids = .ok y) :
    0 < ids.length % W ∧ (∀ i ∈ ids, i < x.batch) ∧ WF y ∧ y.batch = ids.length % W ∧ y.dims = x.dims ∧
    y.volume = x.volume := by
  unfold ShapeOps.batchPick at h
  simp only at h
  split at h
  · cases h
  · split at h
    · cases h
    · rename_i h0 hids
      have ⟨hy, hb, hd, hv⟩ := resizeBatch_ok hx h
      refine ⟨by omega, ?_, hy, hb, hd, hv⟩
      intro i hi
      simp only [List.any_eq_true, decide_eq_true_eq, not_exists, not_and] at hids
      have := hids i hi; omega

/-- `shape_ops::batch_slice` -/
theorem batchSlice_ok {x y : Shape} {lower upper : Nat} (hx : WF x) (h : ShapeOps.batchSlice x lower upper = .ok y) :
    lower < upper ∧ upper ≤ x.batch ∧ WF y ∧ y.batch = upper - lower ∧ y.dims = x.dims ∧ y.volume = x.volume := by
  unfold ShapeOps.batchSlice at h
  split at h
  · cases h
  · rename_i hc
    have hb : x.batch < W := by
      have := hx.fits; have := hx.vol_pos
      calc x.batch = 1 * x.batch := by omega
        _ ≤ x.volume * x.batch := Nat.mul_le_mul_right _ (by omega)
        _ < W := hx.fits
    rw [sub32_eq (by omega) (by omega)] at h
    have ⟨hy, hyb, hd, hv⟩ := resizeBatch_ok hx h
    exact ⟨by omega, by omega, hy, hyb, hd, hv⟩

/-! ### the view of a shape from an axis, as numbers -/

/-- `s` seen from axis `d`: `L` elements below, `n` on the axis, `U` above, `B` samples -/
structure View (s : Shape) (d L n U B : Nat) : Prop where
  lower : s.lowerVolume d = L
  get : s.get d = n
  volume : s.volume = L * n * U
  batch : s.batch = B
  size : s.size = L * n * U * B
  hL : 0 < L
  hn : 0 < n
  hU : 0 < U
  hB : 0 < B

theorem WF.toView {s : Shape} (h : WF s) (d : Nat) : View s d (lo s d) (s.get d) (up s d) s.batch :=
  ⟨h.lowerVolume_eq d, rfl, h.view d, rfl, by rw [h.size_eq, h.view d], lo_pos h d, h.pos d, up_pos h d, h.bpos⟩

/-- a shape that differs from `x` on axis `d` only -/
theorem view_of_update {x y : Shape} {d m : Nat} (hy : WF y)
    (hg : ∀ i, y.get i = if i = d then m else x.get i) : View y d (lo x d) m (up x d) y.batch := by
  have h := hy.toView d
  have e1 : lo y d = lo x d := lo_eq_of_get (fun i hi => by rw [hg i, if_neg (by omega)])
  have e2 : up y d = up x d := up_eq_of_get (fun i hi => by rw [hg i, if_neg (by omega)])
  have e3 : y.get d = m := by rw [hg d, if_pos rfl]
  rwa [e1, e2, e3] at h

theorem hasBatch_iff (s : Shape) : s.hasBatch = true ↔ 1 < s.batch := by
  unfold Shape.hasBatch; simp

/-- `s` with minibatch size 1: the shape of one sample -/
def oneSample (s : Shape) : Shape := { s with batch := 1 }

theorem oneSample_wf {s : Shape} (h : WF s) : WF (oneSample s) :=
  ⟨h.depth_le, h.pos, Nat.one_pos, h.vol, by show s.volume * 1 < W; rw [Nat.mul_one]; exact h.vol_lt⟩

end Primitiv.MoveShape
