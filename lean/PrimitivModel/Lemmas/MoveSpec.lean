import PrimitivModel.Lemmas.MovePlans
import PrimitivModel.Lemmas.MoveKernels
import PrimitivModel.Spec.KernelsMove
import Mathlib.Order.Defs.LinearOrder
/-
Bridges between the data-level entry points of the model and the
specification: inversion of the `do` blocks, what a sequential writer leaves
in its output, the reduction loops against their specifications.
-/
namespace Primitiv.Move
open Primitiv.Spec.Move Primitiv.View3

/-- the common shape of a unary forward entry point -/
theorem fw_inv {α} {x y : Tensor α} {F : R (Shape × Moves)} {raw : Nat → α}
    (h : (do checkDevice x; let (ys, m) ← F; runSet m x.data x.shape.size ys raw) = .ok y) :
    x.loc = .here ∧ ∃ ys m, F = .ok (ys, m) ∧ m.InBounds x.shape.size ys.size ∧ m.WritesAll ys.size ∧
      y = ⟨ys, scatterSet m.didx m.sidx x.data m.count raw, .here⟩ := by
  cases hc : checkDevice x with
  | error e => simp [hc, bind, Except.bind] at h
  | ok u =>
    cases hF : F with
    | error e => simp [hc, hF, bind, Except.bind] at h
    | ok p =>
      obtain ⟨ys, m⟩ := p
      simp only [hc, hF, bind, Except.bind] at h
      have ⟨h1, h2, h3⟩ := runSet_inv h
      exact ⟨checkDevice_inv hc, ys, m, rfl, h1, h2, h3⟩

theorem fw_ok {α} {x : Tensor α} {F : R (Shape × Moves)} {raw : Nat → α} {ys : Shape} {m : Moves}
    (hl : x.loc = .here) (hF : F = .ok (ys, m)) (hb : m.InBounds x.shape.size ys.size) (hw : m.WritesAll ys.size) :
    (do checkDevice x; let (ys, m) ← F; runSet m x.data x.shape.size ys raw) =
      .ok ⟨ys, scatterSet m.didx m.sidx x.data m.count raw, .here⟩ := by
  simp only [checkDevice_ok hl, hF, bind, Except.bind]
  exact runSet_ok hb hw

/-- the common shape of a backward entry point with operands `gy`, `gx` -/
theorem bw_inv {α} [Add α] {gy gx g : Tensor α} {F : R Moves}
    (h : (do checkDevice gy; checkDevice gx; let m ← F; runAdd m gy gx) = .ok g) :
    gy.loc = .here ∧ gx.loc = .here ∧ ∃ m, F = .ok m ∧ m.InBounds gy.shape.size gx.shape.size ∧
      g = ⟨gx.shape, scatterAdd m.didx m.sidx gy.data m.count gx.data, .here⟩ := by
  cases hc : checkDevice gy with
  | error e => simp [hc, bind, Except.bind] at h
  | ok u =>
    cases hc2 : checkDevice gx with
    | error e => simp [hc, hc2, bind, Except.bind] at h
    | ok u2 =>
      cases hF : F with
      | error e => simp [hc, hc2, hF, bind, Except.bind] at h
      | ok m =>
        simp only [hc, hc2, hF, bind, Except.bind] at h
        have ⟨h1, h2⟩ := runAdd_inv h
        exact ⟨checkDevice_inv hc, checkDevice_inv hc2, m, rfl, h1, h2⟩

theorem pickFw_inv {α} {x y : Tensor α} {ids : List Nat} {dim : Nat} {raw : Nat → α}
    (h : pickFw x ids dim raw = .ok y) :
    x.loc = .here ∧ ∃ ys m, Front.pickFw x.shape ids dim = .ok (ys, m) ∧ m.InBounds x.shape.size ys.size ∧
      m.WritesAll ys.size ∧ y = ⟨ys, scatterSet m.didx m.sidx x.data m.count raw, .here⟩ := by
  unfold pickFw at h
  cases hc : checkDevice x with
  | error e => simp [hc, bind, Except.bind] at h
  | ok u =>
    cases hF : Front.pickFw x.shape ids dim with
    | error e => simp [hc, hF, bind, Except.bind] at h
    | ok p =>
      obtain ⟨ys, m⟩ := p
      simp only [hc, hF, bind, Except.bind] at h
      split at h
      · cases h
      · have ⟨h1, h2, h3⟩ := runSet_inv h
        exact ⟨checkDevice_inv hc, ys, m, rfl, h1, h2, h3⟩

theorem pickBw_inv {α} [Add α] {gy gx g : Tensor α} {ids : List Nat} {dim : Nat}
    (h : pickBw gy ids dim gx = .ok g) :
    gy.loc = .here ∧ gx.loc = .here ∧ ∃ m, Front.pickBw gy.shape gx.shape ids dim = .ok m ∧
      m.InBounds gy.shape.size gx.shape.size ∧
      g = ⟨gx.shape, scatterAdd m.didx m.sidx gy.data m.count gx.data, .here⟩ := by
  unfold pickBw at h
  cases hc : checkDevice gy with
  | error e => simp [hc, bind, Except.bind] at h
  | ok u =>
    cases hc2 : checkDevice gx with
    | error e => simp [hc, hc2, bind, Except.bind] at h
    | ok u2 =>
      cases hF : Front.pickBw gy.shape gx.shape ids dim with
      | error e => simp [hc, hc2, hF, bind, Except.bind] at h
      | ok m =>
        simp only [hc, hc2, hF, bind, Except.bind] at h
        split at h
        · cases h
        · have ⟨h1, h2⟩ := runAdd_inv h
          exact ⟨checkDevice_inv hc, checkDevice_inv hc2, m, rfl, h1, h2⟩

theorem batchPickFw_inv {α} {x y : Tensor α} {ids : List Nat} {raw : Nat → α}
    (h : batchPickFw x ids raw = .ok y) :
    x.loc = .here ∧ ∃ ys m, Front.batchPickFw x.shape ids = .ok (ys, m) ∧ m.InBounds x.shape.size ys.size ∧
      m.WritesAll ys.size ∧ y = ⟨ys, scatterSet m.didx m.sidx x.data m.count raw, .here⟩ := by
  unfold batchPickFw at h
  cases hc : checkDevice x with
  | error e => simp [hc, bind, Except.bind] at h
  | ok u =>
    cases hF : Front.batchPickFw x.shape ids with
    | error e => simp [hc, hF, bind, Except.bind] at h
    | ok p =>
      obtain ⟨ys, m⟩ := p
      simp only [hc, hF, bind, Except.bind] at h
      split at h
      · cases h
      · have ⟨h1, h2, h3⟩ := runSet_inv h
        exact ⟨checkDevice_inv hc, ys, m, rfl, h1, h2, h3⟩

theorem batchPickBw_inv {α} [Add α] {gy gx g : Tensor α} {ids : List Nat}
    (h : batchPickBw gy ids gx = .ok g) :
    gy.loc = .here ∧ gx.loc = .here ∧ ∃ m, Front.batchPickBw gy.shape gx.shape ids = .ok m ∧
      m.InBounds gy.shape.size gx.shape.size ∧
      g = ⟨gx.shape, scatterAdd m.didx m.sidx gy.data m.count gx.data, .here⟩ := by
  unfold batchPickBw at h
  cases hc : checkDevice gy with
  | error e => simp [hc, bind, Except.bind] at h
  | ok u =>
    cases hc2 : checkDevice gx with
    | error e => simp [hc, hc2, bind, Except.bind] at h
    | ok u2 =>
      cases hF : Front.batchPickBw gy.shape gx.shape ids with
      | error e => simp [hc, hc2, hF, bind, Except.bind] at h
      | ok m =>
        simp only [hc, hc2, hF, bind, Except.bind] at h
        split at h
        · cases h
        · have ⟨h1, h2⟩ := runAdd_inv h
          exact ⟨checkDevice_inv hc, checkDevice_inv hc2, m, rfl, h1, h2⟩

/-- `(t / V) * ([B ≠ 1] * V) + t % V = t` for `t < V * B`: the batch stride of an
operand that is not shared -/
theorem hb_recompose {V B t : Nat} (ht : t < V * B) :
    t / V * ((if B = 1 then 0 else 1) * V) + t % V = t := by
  by_cases h : B = 1
  · subst h
    rw [Nat.mul_one] at ht
    simp [Nat.div_eq_of_lt ht, Nat.mod_eq_of_lt ht]
  · simp only [h, if_false, Nat.one_mul]
    have := Nat.div_add_mod t V
    rw [Nat.mul_comm]; exact this

/-- a sequential writer leaves `src (sidx o)` at `o` -/
theorem seqWrite_apply {α} {m : Moves} (hd : ∀ t, m.didx t = t) (src raw : Nat → α) {o : Nat} (ho : o < m.count) :
    scatterSet m.didx m.sidx src m.count raw o = src (m.sidx o) := by
  have hon : m.WritesOnce := fun t t' _ _ h => by rwa [hd, hd] at h
  have := scatterSet_of_once hon src raw ho
  rwa [hd] at this

theorem sumLoop_eq_sumN {α} [Add α] [Zero α] (x : Nat → α) (off : Nat → Nat) (n : Nat) :
    sumLoop x off n = sumN (fun k => x (off k)) n := by
  induction n with
  | zero => rfl
  | succ n ih => simp only [sumLoop, sumN, ih]

theorem maxLoop_isMax {α} [LinearOrder α] (x : Nat → α) (off : Nat → Nat) {n : Nat} (hn : 0 < n) :
    IsMax (fun k => x (off k)) n (maxLoop x off n) := by
  obtain ⟨m, rfl⟩ : ∃ m, n = m + 1 := ⟨n - 1, by omega⟩
  clear hn
  induction m with
  | zero =>
    simp only [maxLoop, lt_irrefl, if_false]
    refine ⟨⟨0, by omega, rfl⟩, fun k hk => ?_⟩
    obtain rfl : k = 0 := by omega
    exact le_refl _
  | succ m ih =>
    rw [show maxLoop x off (m + 1 + 1) = (if maxLoop x off (m + 1) < x (off (m + 1)) then x (off (m + 1))
      else maxLoop x off (m + 1)) from rfl]
    generalize maxLoop x off (m + 1) = v at ih ⊢
    obtain ⟨⟨k0, hk0, e0⟩, hall⟩ := ih
    split
    · rename_i hlt
      refine ⟨⟨m + 1, by omega, rfl⟩, fun k hk => ?_⟩
      rcases Nat.lt_or_ge k (m + 1) with h | h
      · exact le_trans (hall k h) (le_of_lt hlt)
      · obtain rfl : k = m + 1 := by omega
        exact le_refl _
    · rename_i hge
      refine ⟨⟨k0, by omega, e0⟩, fun k hk => ?_⟩
      rcases Nat.lt_or_ge k (m + 1) with h | h
      · exact hall k h
      · obtain rfl : k = m + 1 := by omega
        exact not_lt.mp hge

theorem minLoop_isMin {α} [LinearOrder α] (x : Nat → α) (off : Nat → Nat) {n : Nat} (hn : 0 < n) :
    IsMin (fun k => x (off k)) n (minLoop x off n) := by
  obtain ⟨m, rfl⟩ : ∃ m, n = m + 1 := ⟨n - 1, by omega⟩
  clear hn
  induction m with
  | zero =>
    simp only [minLoop, lt_irrefl, if_false]
    refine ⟨⟨0, by omega, rfl⟩, fun k hk => ?_⟩
    obtain rfl : k = 0 := by omega
    exact le_refl _
  | succ m ih =>
    rw [show minLoop x off (m + 1 + 1) = (if x (off (m + 1)) < minLoop x off (m + 1) then x (off (m + 1))
      else minLoop x off (m + 1)) from rfl]
    generalize minLoop x off (m + 1) = v at ih ⊢
    obtain ⟨⟨k0, hk0, e0⟩, hall⟩ := ih
    split
    · rename_i hlt
      refine ⟨⟨m + 1, by omega, rfl⟩, fun k hk => ?_⟩
      rcases Nat.lt_or_ge k (m + 1) with h | h
      · exact le_trans (le_of_lt hlt) (hall k h)
      · obtain rfl : k = m + 1 := by omega
        exact le_refl _
    · rename_i hge
      refine ⟨⟨k0, by omega, e0⟩, fun k hk => ?_⟩
      rcases Nat.lt_or_ge k (m + 1) with h | h
      · exact hall k h
      · obtain rfl : k = m + 1 := by omega
        exact not_lt.mp hge

/-- the scan keeps the first position of the running maximum -/
theorem argmaxLoop_spec {α} [LinearOrder α] (x : Nat → α) (off : Nat → Nat) (m : Nat) :
    (argmaxLoop x off m).1 = x (off (argmaxLoop x off m).2) ∧
    IsArgmax (fun k => x (off k)) (m + 1) (argmaxLoop x off m).2 := by
  induction m with
  | zero =>
    simp only [argmaxLoop]
    refine ⟨trivial, by omega, fun j hj => ?_, fun j hj => by omega⟩
    obtain rfl : j = 0 := by omega
    exact le_refl _
  | succ m ih =>
    obtain ⟨e, hk, hall, hfirst⟩ := ih
    simp only [argmaxLoop]
    generalize argmaxLoop x off m = p at e hk hall hfirst
    obtain ⟨v, a⟩ := p
    simp only at e hk hall hfirst ⊢
    subst e
    split
    · rename_i hlt
      refine ⟨rfl, by omega, fun j hj => ?_, fun j hj => ?_⟩
      · rcases Nat.lt_or_ge j (m + 1) with h | h
        · exact le_trans (hall j h) (le_of_lt hlt)
        · have : j = m + 1 := by omega
          subst this; exact le_refl _
      · exact lt_of_le_of_lt (hall j (by omega)) hlt
    · rename_i hge
      refine ⟨rfl, by omega, fun j hj => ?_, hfirst⟩
      rcases Nat.lt_or_ge j (m + 1) with h | h
      · exact hall j h
      · have : j = m + 1 := by omega
        subst this; exact not_lt.mp hge

theorem argminLoop_spec {α} [LinearOrder α] (x : Nat → α) (off : Nat → Nat) (m : Nat) :
    (argminLoop x off m).1 = x (off (argminLoop x off m).2) ∧
    IsArgmin (fun k => x (off k)) (m + 1) (argminLoop x off m).2 := by
  induction m with
  | zero =>
    simp only [argminLoop]
    refine ⟨trivial, by omega, fun j hj => ?_, fun j hj => by omega⟩
    obtain rfl : j = 0 := by omega
    exact le_refl _
  | succ m ih =>
    obtain ⟨e, hk, hall, hfirst⟩ := ih
    simp only [argminLoop]
    generalize argminLoop x off m = p at e hk hall hfirst
    obtain ⟨v, a⟩ := p
    simp only at e hk hall hfirst ⊢
    subst e
    split
    · rename_i hlt
      refine ⟨rfl, by omega, fun j hj => ?_, fun j hj => ?_⟩
      · rcases Nat.lt_or_ge j (m + 1) with h | h
        · exact le_trans (le_of_lt hlt) (hall j h)
        · have : j = m + 1 := by omega
          subst this; exact le_refl _
      · exact lt_of_lt_of_le hlt (hall j (by omega))
    · rename_i hge
      refine ⟨rfl, by omega, fun j hj => ?_, hfirst⟩
      rcases Nat.lt_or_ge j (m + 1) with h | h
      · exact hall j h
      · have : j = m + 1 := by omega
        subst this; exact not_lt.mp hge

/-- `at4` in terms of `comp3`, the minibatch being the outermost part of `c` -/
theorem at4_eq {α} (L n U : Nat) (x : Nat → α) (a k c b : Nat) : at4 L n U x a k c b = x (comp3 L n a k (c + U * b)) := rfl

end Primitiv.Move
