import PrimitivModel.Model.Msgpack
/-
Laws of the MessagePack model (Model/Msgpack.lean): for every codec, the Reader
returns what the Writer was given and consumes exactly its bytes (`roundtrip`),
and every proper prefix of an encoding is rejected with EOF (`prefixFree`).
Scalars directly; str/bin/ext through their length prefixes; `std::vector<T>` and
`std::unordered_map<K, V>` by induction, for any lawful element codec.
Core Lean only.
-/
namespace Primitiv.Msgpack

/-! ## Laws -/

theorem prefix_split {p q A B : Bytes} (h : p ++ q = A ++ B) (_hq : q ≠ []) :
    (∃ a, a ≠ [] ∧ p ++ a = A) ∨ (∃ c, p = A ++ c ∧ c ++ q = B) := by
  rcases List.append_eq_append_iff.mp h with ⟨a, hA, hq'⟩ | ⟨c, hp, hB⟩
  · by_cases ha : a = []
    · subst ha; right; exact ⟨[], by simp [hA], by simpa using hq'⟩
    · left; exact ⟨a, ha, hA.symm⟩
  · right; exact ⟨c, hp, hB.symm⟩

theorem readN_def (n : Nat) (bs : Bytes) :
    readN n bs = if bs.length < n then .error .eof else .ok (bs.take n) (bs.drop n) := by
  simp only [readN, List.length_take]
  by_cases h : bs.length < n
  · have : min n bs.length < n := by omega
    simp [h, this]
  · have : ¬ min n bs.length < n := by omega
    simp [h, this]

theorem readN_append (s rest : Bytes) : readN s.length (s ++ rest) = .ok s rest := by
  simp [readN_def]

theorem readN_prefix {s p q : Bytes} (h : p ++ q = s) (hq : q ≠ []) : readN s.length p = .error .eof := by
  subst h
  have : 0 < q.length := List.length_pos_iff.mpr hq
  simp [readN_def]; omega

/-- sequencing: a decoder that first runs a lawful codec and then continues on the rest -/
theorem seq_prefix {α β : Type} {c : Codec α} {P : α → Prop} (h : Lawful c P) {v : α} (hv : P v)
    {B p q : Bytes} (he : p ++ q = c.enc v ++ B) (hq : q ≠ []) (k : α → Bytes → Res β)
    (hk : ∀ c', c' ++ q = B → k v c' = .error .eof) :
    (c.dec p).bind k = .error .eof := by
  rcases prefix_split he hq with ⟨a, ha, hpa⟩ | ⟨c', hpc, hc⟩
  · rw [h.prefixFree v p a hv hpa ha]; rfl
  · subst hpc; rw [h.roundtrip v c' hv]; exact hk c' hc

/-! ### scalars -/

theorem lawful_nil : Lawful nil (fun _ => True) where
  roundtrip v rest _ := by simp [nil, checkType, getU8]
  prefixFree v p q _ h hq := by
    rcases p with _ | ⟨a, p⟩ <;> simp_all [nil, checkType, getU8]

theorem lawful_bool : Lawful bool (fun _ => True) where
  roundtrip v rest _ := by cases v <;> simp [bool, getU8] <;> decide
  prefixFree v p q _ h hq := by
    rcases p with _ | ⟨a, p⟩ <;> simp_all [bool, getU8]

theorem lawful_scalar8 (tag : Nat) : Lawful (scalar8 tag) (fun _ => True) where
  roundtrip v rest _ := by
    simp [scalar8, checkType, getU8]
  prefixFree v p q _ h hq := by
    simp only [scalar8] at h
    rcases p with _ | ⟨a, _ | ⟨b, _ | ⟨c, p⟩⟩⟩ <;> simp_all [scalar8, checkType, getU8]

theorem lawful_scalar16 (tag : Nat) : Lawful (scalar16 tag) (fun _ => True) where
  roundtrip v rest _ := by
    have := v.toNat_lt
    simp [scalar16, be16, checkType, getU8, getU16]
    apply UInt16.toNat_inj.mp; simp; omega
  prefixFree v p q _ h hq := by
    simp only [scalar16, be16] at h
    rcases p with _ | ⟨a, _ | ⟨b, _ | ⟨c, _ | ⟨d, p⟩⟩⟩⟩ <;> simp_all [scalar16, checkType, getU8, getU16]

theorem lawful_scalar32 (tag : Nat) : Lawful (scalar32 tag) (fun _ => True) where
  roundtrip v rest _ := by
    have := v.toNat_lt
    simp [scalar32, be32, checkType, getU8, getU32]
    apply UInt32.toNat_inj.mp; simp; omega
  prefixFree v p q _ h hq := by
    simp only [scalar32, be32] at h
    rcases p with _ | ⟨a, _ | ⟨b, _ | ⟨c, _ | ⟨d, _ | ⟨e, _ | ⟨f, p⟩⟩⟩⟩⟩⟩ <;>
      simp_all [scalar32, checkType, getU8, getU32]

theorem lawful_nat32 : Lawful nat32 (fun n => n < 4294967296) where
  roundtrip v rest hv := by
    have : v < 4294967296 := hv
    simp [nat32, be32, checkType, getU8, getU32]; omega
  prefixFree v p q _ h hq := by
    simp only [nat32, be32] at h
    rcases p with _ | ⟨a, _ | ⟨b, _ | ⟨c, _ | ⟨d, _ | ⟨e, _ | ⟨f, p⟩⟩⟩⟩⟩⟩ <;>
      simp_all [nat32, checkType, getU8, getU32]

theorem lawful_scalar64 (tag : Nat) : Lawful (scalar64 tag) (fun _ => True) where
  roundtrip v rest _ := by
    have := v.toNat_lt
    simp [scalar64, be64, checkType, getU8, getU64]
    apply UInt64.toNat_inj.mp; simp; omega
  prefixFree v p q _ h hq := by
    simp only [scalar64, be64] at h
    rcases p with _ | ⟨a, _ | ⟨b, _ | ⟨c, _ | ⟨d, _ | ⟨e, _ | ⟨f, _ | ⟨g, _ | ⟨h', _ | ⟨i, _ | ⟨j, p⟩⟩⟩⟩⟩⟩⟩⟩⟩⟩ <;>
      simp_all [scalar64, checkType, getU8, getU64]

/-! ### length prefixes, str, bin -/

theorem fixstr_bits : ∀ n, n < 32 → ((160 ||| (n &&& 31)) &&& 224 = 160 ∧ (160 ||| (n &&& 31)) &&& 31 = n) := by decide
theorem fixarr_bits : ∀ n, n < 16 → ((144 ||| (n &&& 15)) &&& 240 = 144 ∧ (144 ||| (n &&& 15)) &&& 15 = n) := by decide
theorem fixmap_bits : ∀ n, n < 16 → ((128 ||| (n &&& 15)) &&& 240 = 128 ∧ (128 ||| (n &&& 15)) &&& 15 = n) := by decide

theorem lawful_strHdr : Lawful strHdr (fun n => n < 4294967296) where
  roundtrip n rest hn := by
    have hn' : n < 4294967296 := hn
    simp only [strHdr, strHeader, decStrHeader]
    split
    · rename_i h; have := fixstr_bits n h; simp [getU8, this.1, this.2]
    · split
      · simp [getU8]; omega
      · split
        · simp [getU8, getU16, be16]; omega
        · simp [getU8, getU32, be32]; omega
  prefixFree n p q hn h hq := by
    simp only [strHdr, strHeader] at h
    simp only [strHdr, decStrHeader]
    split at h
    · rcases p with _ | ⟨a, p⟩ <;> simp_all [getU8]
    · split at h
      · rcases p with _ | ⟨a, _ | ⟨b, p⟩⟩ <;> simp_all [getU8]
      · split at h
        · rcases p with _ | ⟨a, _ | ⟨b, _ | ⟨c, p⟩⟩⟩ <;> simp_all [getU8, getU16, be16]
        · rcases p with _ | ⟨a, _ | ⟨b, _ | ⟨c, _ | ⟨d, _ | ⟨e, p⟩⟩⟩⟩⟩ <;> simp_all [getU8, getU32, be32]

theorem lawful_binHdr : Lawful binHdr (fun n => n < 4294967296) where
  roundtrip n rest hn := by
    have hn' : n < 4294967296 := hn
    simp only [binHdr, binHeader, decBinHeader]
    split
    · simp [getU8]; omega
    · split
      · simp [getU8, getU16, be16]; omega
      · simp [getU8, getU32, be32]; omega
  prefixFree n p q hn h hq := by
    simp only [binHdr, binHeader] at h
    simp only [binHdr, decBinHeader]
    split at h
    · rcases p with _ | ⟨a, _ | ⟨b, p⟩⟩ <;> simp_all [getU8]
    · split at h
      · rcases p with _ | ⟨a, _ | ⟨b, _ | ⟨c, p⟩⟩⟩ <;> simp_all [getU8, getU16, be16]
      · rcases p with _ | ⟨a, _ | ⟨b, _ | ⟨c, _ | ⟨d, _ | ⟨e, p⟩⟩⟩⟩⟩ <;> simp_all [getU8, getU32, be32]

theorem lawful_arrHdr : Lawful arrHdr (fun n => n < 4294967296) where
  roundtrip n rest hn := by
    have hn' : n < 4294967296 := hn
    simp only [arrHdr, arrHeader, decArrHeader]
    split
    · rename_i h; have := fixarr_bits n h; simp [getU8, this.1, this.2]
    · split
      · simp [getU8, getU16, be16]; omega
      · simp [getU8, getU32, be32]; omega
  prefixFree n p q hn h hq := by
    simp only [arrHdr, arrHeader] at h
    simp only [arrHdr, decArrHeader]
    split at h
    · rcases p with _ | ⟨a, p⟩ <;> simp_all [getU8]
    · split at h
      · rcases p with _ | ⟨a, _ | ⟨b, _ | ⟨c, p⟩⟩⟩ <;> simp_all [getU8, getU16, be16]
      · rcases p with _ | ⟨a, _ | ⟨b, _ | ⟨c, _ | ⟨d, _ | ⟨e, p⟩⟩⟩⟩⟩ <;> simp_all [getU8, getU32, be32]

theorem lawful_mapHdr : Lawful mapHdr (fun n => n < 4294967296) where
  roundtrip n rest hn := by
    have hn' : n < 4294967296 := hn
    simp only [mapHdr, mapHeader, decMapHeader]
    split
    · rename_i h; have := fixmap_bits n h; simp [getU8, this.1, this.2]
    · split
      · simp [getU8, getU16, be16]; omega
      · simp [getU8, getU32, be32]; omega
  prefixFree n p q hn h hq := by
    simp only [mapHdr, mapHeader] at h
    simp only [mapHdr, decMapHeader]
    split at h
    · rcases p with _ | ⟨a, p⟩ <;> simp_all [getU8]
    · split at h
      · rcases p with _ | ⟨a, _ | ⟨b, _ | ⟨c, p⟩⟩⟩ <;> simp_all [getU8, getU16, be16]
      · rcases p with _ | ⟨a, _ | ⟨b, _ | ⟨c, _ | ⟨d, _ | ⟨e, p⟩⟩⟩⟩⟩ <;> simp_all [getU8, getU32, be32]

/-- header, then `n` raw bytes: the common shape of str and bin -/
theorem lawful_payload {hd : Codec Nat} (hh : Lawful hd (fun n => n < 4294967296)) :
    Lawful (⟨fun s => hd.enc s.length ++ s, fun bs => (hd.dec bs).bind fun n r => readN n r, fun s => s.length < 4294967296⟩ : Codec Bytes)
      (fun s => s.length < 4294967296) where
  roundtrip s rest hs := by
    simp only [List.append_assoc]
    rw [hh.roundtrip s.length _ hs]; simp [readN_append]
  prefixFree s p q hs h hq := by
    simp only at h ⊢
    exact seq_prefix hh hs h hq _ (fun c' hc => readN_prefix hc hq)

theorem lawful_str : Lawful str (fun s => s.length < 4294967296) := lawful_payload lawful_strHdr
theorem lawful_bin : Lawful bin (fun s => s.length < 4294967296) := lawful_payload lawful_binHdr


/-! ### ext -/

def extHdr : Codec (Nat × Nat) where
  enc x := extHeader x.1 x.2
  dec bs := (decExtSize bs).bind fun n r => (getU8 r).bind fun ty r => .ok (n, ty) r
  fits x := x.1 < 4294967296

theorem pre2 {p q : Bytes} {a b : Nat} (h : p ++ q = [a, b]) (hq : q ≠ []) : p = [] ∨ p = [a] := by
  rcases p with _ | ⟨x, _ | ⟨y, p⟩⟩
  · simp
  · simp at h; simp [h.1]
  · simp at h; exact absurd h.2.2.2 hq
theorem pre3 {p q : Bytes} {a b c : Nat} (h : p ++ q = [a, b, c]) (hq : q ≠ []) : p = [] ∨ p = [a] ∨ p = [a, b] := by
  rcases p with _ | ⟨x, p⟩
  · simp
  · simp at h; rcases pre2 h.2 hq with rfl | rfl <;> simp [h.1]
theorem pre4 {p q : Bytes} {a b c d : Nat} (h : p ++ q = [a, b, c, d]) (hq : q ≠ []) :
    p = [] ∨ p = [a] ∨ p = [a, b] ∨ p = [a, b, c] := by
  rcases p with _ | ⟨x, p⟩
  · simp
  · simp at h; rcases pre3 h.2 hq with rfl | rfl | rfl <;> simp [h.1]
theorem pre5 {p q : Bytes} {a b c d e : Nat} (h : p ++ q = [a, b, c, d, e]) (hq : q ≠ []) :
    p = [] ∨ p = [a] ∨ p = [a, b] ∨ p = [a, b, c] ∨ p = [a, b, c, d] := by
  rcases p with _ | ⟨x, p⟩
  · simp
  · simp at h; rcases pre4 h.2 hq with rfl | rfl | rfl | rfl <;> simp [h.1]
theorem pre6 {p q : Bytes} {a b c d e f : Nat} (h : p ++ q = [a, b, c, d, e, f]) (hq : q ≠ []) :
    p = [] ∨ p = [a] ∨ p = [a, b] ∨ p = [a, b, c] ∨ p = [a, b, c, d] ∨ p = [a, b, c, d, e] := by
  rcases p with _ | ⟨x, p⟩
  · simp
  · simp at h; rcases pre5 h.2 hq with rfl | rfl | rfl | rfl | rfl <;> simp [h.1]

theorem lawful_extHdr : Lawful extHdr (fun x => x.1 < 4294967296) where
  roundtrip x rest hn := by
    obtain ⟨n, ty⟩ := x
    have hn' : n < 4294967296 := hn
    simp only [extHdr, extHeader, decExtSize]
    split
    · split
      · rename_i h1 h2; simp [getU8, h2]
      · split
        · rename_i h1 _ h2; simp [getU8, h2]
        · split
          · rename_i h1 _ _ h2; simp [getU8, h2]
          · split
            · rename_i h1 _ _ _ h2; simp [getU8, h2]
            · split
              · rename_i h1 _ _ _ _ h2; simp [getU8, h2]
              · simp [getU8]; omega
    · split
      · simp [getU8, getU16, be16]; omega
      · simp [getU8, getU32, be32]; omega
  prefixFree x p q hn h hq := by
    obtain ⟨n, ty⟩ := x
    simp only [extHdr, extHeader] at h
    simp only [extHdr, decExtSize]
    split at h
    · split at h
      · rcases pre2 h hq with rfl | rfl <;> simp [getU8]
      · split at h
        · rcases pre2 h hq with rfl | rfl <;> simp [getU8]
        · split at h
          · rcases pre2 h hq with rfl | rfl <;> simp [getU8]
          · split at h
            · rcases pre2 h hq with rfl | rfl <;> simp [getU8]
            · split at h
              · rcases pre2 h hq with rfl | rfl <;> simp [getU8]
              · rcases pre3 h hq with rfl | rfl | rfl <;> simp [getU8]
    · split at h
      · simp only [be16, List.cons_append, List.nil_append] at h
        rcases pre4 h hq with rfl | rfl | rfl | rfl <;> simp [getU8, getU16]
      · simp only [be32, List.cons_append, List.nil_append] at h
        rcases pre6 h hq with rfl | rfl | rfl | rfl | rfl | rfl <;> simp [getU8, getU32]

theorem ext_dec_eq (bs : Bytes) :
    ext.dec bs = (extHdr.dec bs).bind fun x r => (readN x.1 r).bind fun d r => .ok (UInt8.ofNat x.2, d) r := by
  simp only [ext, extHdr]
  cases decExtSize bs with
  | error e => rfl
  | ok n r => simp only [Res.bind_ok]; cases getU8 r <;> rfl

theorem lawful_ext : Lawful ext (fun x => x.2.length < 4294967296) where
  roundtrip x rest hx := by
    obtain ⟨ty, d⟩ := x
    rw [ext_dec_eq]
    have : ext.enc (ty, d) ++ rest = extHdr.enc (d.length, ty.toNat) ++ (d ++ rest) := by simp [ext, extHdr]
    rw [this, lawful_extHdr.roundtrip (d.length, ty.toNat) _ hx]
    simp [readN_append]
  prefixFree x p q hx h hq := by
    obtain ⟨ty, d⟩ := x
    rw [ext_dec_eq]
    have h' : p ++ q = extHdr.enc (d.length, ty.toNat) ++ d := by simpa [ext, extHdr] using h
    refine seq_prefix lawful_extHdr (v := (d.length, ty.toNat)) hx h' hq _ (fun c' hc => ?_)
    simp [readN_prefix hc hq]

/-! ### containers -/

theorem decList_roundtrip {α : Type} {c : Codec α} {P : α → Prop} (h : Lawful c P) :
    ∀ (l : List α) (rest : Bytes), (∀ x ∈ l, P x) → decList c l.length (encList c l ++ rest) = .ok l rest
  | [], rest, _ => by simp [decList, encList]
  | x :: xs, rest, hp => by
    have hx : P x := hp x (by simp)
    have hxs : ∀ y ∈ xs, P y := fun y hy => hp y (by simp [hy])
    have ih := decList_roundtrip h xs rest hxs
    simp only [encList] at ih
    simp only [encList, List.flatMap_cons, List.length_cons, decList, List.append_assoc]
    rw [h.roundtrip x _ hx]; simp [ih]

theorem decList_prefix {α : Type} {c : Codec α} {P : α → Prop} (h : Lawful c P) :
    ∀ (l : List α) (p q : Bytes), (∀ x ∈ l, P x) → p ++ q = encList c l → q ≠ [] →
      decList c l.length p = .error .eof
  | [], p, q, _, he, hq => by simp [encList] at he; exact absurd he.2 hq
  | x :: xs, p, q, hp, he, hq => by
    have hx : P x := hp x (by simp)
    have hxs : ∀ y ∈ xs, P y := fun y hy => hp y (by simp [hy])
    simp only [encList, List.flatMap_cons] at he
    simp only [List.length_cons, decList]
    refine seq_prefix h hx he hq _ (fun c' hc => ?_)
    rw [decList_prefix h xs c' q hxs hc hq]; rfl

/-- the values of `std::vector<T>` the laws cover: fewer than 2^32 elements, each covered -/
def ArrOk {α : Type} (P : α → Prop) (l : List α) : Prop := l.length < 4294967296 ∧ ∀ x ∈ l, P x

theorem lawful_arr {α : Type} {c : Codec α} {P : α → Prop} (h : Lawful c P) : Lawful (arr c) (ArrOk P) where
  roundtrip l rest hl := by
    simp only [arr, List.append_assoc]
    rw [show arrHeader l.length = arrHdr.enc l.length from rfl, show decArrHeader = arrHdr.dec from rfl,
      lawful_arrHdr.roundtrip l.length _ hl.1]
    simpa using decList_roundtrip h l rest hl.2
  prefixFree l p q hl he hq := by
    simp only [arr] at he ⊢
    exact seq_prefix lawful_arrHdr (v := l.length) hl.1 he hq _ (fun c' hc => decList_prefix h l c' q hl.2 hc hq)

theorem lawful_pair {κ ν : Type} {k : Codec κ} {v : Codec ν} {Pk : κ → Prop} {Pv : ν → Prop}
    (hk : Lawful k Pk) (hv : Lawful v Pv) : Lawful (pair k v) (fun p => Pk p.1 ∧ Pv p.2) where
  roundtrip x rest hx := by
    simp only [pair, List.append_assoc]
    rw [hk.roundtrip _ _ hx.1]; simp [hv.roundtrip _ _ hx.2]
  prefixFree x p q hx he hq := by
    simp only [pair] at he ⊢
    refine seq_prefix hk hx.1 he hq _ (fun c' hc => ?_)
    rw [hv.prefixFree x.2 c' q hx.2 hc hq]; rfl

theorem emplace_fold {κ ν : Type} [DecidableEq κ] :
    ∀ (l acc : List (κ × ν)), ((acc ++ l).map Prod.fst).Nodup → l.foldl emplace acc = acc ++ l
  | [], acc, _ => by simp
  | x :: xs, acc, hnd => by
    have hnot : ¬ (acc.any fun q => q.1 = x.1) = true := by
      simp only [List.map_append, List.map_cons, List.nodup_append, List.nodup_cons] at hnd
      intro hany
      simp only [List.any_eq_true, decide_eq_true_eq] at hany
      obtain ⟨q, hq, hqe⟩ := hany
      exact hnd.2.2 q.1 (List.mem_map_of_mem hq) x.1 (by simp) hqe
    have : emplace acc x = acc ++ [x] := by simp [emplace, hnot]
    simp only [List.foldl_cons, this]
    rw [emplace_fold xs (acc ++ [x]) (by simpa using hnd)]; simp

theorem emplaceAll_nodup {κ ν : Type} [DecidableEq κ] (l : List (κ × ν)) (h : (l.map Prod.fst).Nodup) :
    emplaceAll l = l := by
  simpa [emplaceAll] using emplace_fold l [] (by simpa using h)

theorem bytesLt_irrefl : ∀ a : Bytes, bytesLt a a = false
  | [] => rfl
  | x :: xs => by simp [bytesLt, bytesLt_irrefl xs]

theorem bytesLt_trans : ∀ a b c : Bytes, bytesLt a b = true → bytesLt b c = true → bytesLt a c = true
  | [], [], _, h, _ => by simp [bytesLt] at h
  | [], _ :: _, [], _, h => by simp [bytesLt] at h
  | [], _ :: _, _ :: _, _, _ => rfl
  | _ :: _, [], _, h, _ => by simp [bytesLt] at h
  | _ :: _, _ :: _, [], _, h => by simp [bytesLt] at h
  | x :: xs, y :: ys, z :: zs, h1, h2 => by
    simp only [bytesLt] at h1 h2 ⊢
    by_cases hxy : x < y
    · by_cases hyz : y < z
      · have : x < z := by omega
        simp [this]
      · by_cases hzy : z < y
        · simp [hyz, hzy] at h2
        · have : y = z := by omega
          subst this; simp [hxy]
    · by_cases hyx : y < x
      · simp [hxy, hyx] at h1
      · have hxy' : x = y := by omega
        subst hxy'
        simp only [hxy, ↓reduceIte] at h1
        by_cases hyz : x < z
        · simp [hyz]
        · by_cases hzy : z < x
          · simp [hyz, hzy] at h2
          · simp only [hyz, hzy, ↓reduceIte] at h2 ⊢
            exact bytesLt_trans xs ys zs h1 h2

theorem chainLt_pairwise : ∀ l : List Bytes, chainLt l = true → l.Pairwise (fun a b => bytesLt a b = true)
  | [], _ => List.Pairwise.nil
  | [a], _ => by simp
  | a :: b :: r, h => by
    simp only [chainLt, Bool.and_eq_true] at h
    have ih := chainLt_pairwise (b :: r) h.2
    rw [List.pairwise_cons] at ih ⊢
    refine ⟨fun x hx => ?_, List.pairwise_cons.mpr ih⟩
    rcases List.mem_cons.mp hx with rfl | hx'
    · exact h.1
    · exact bytesLt_trans a b x h.1 (ih.1 x hx')

theorem chainLt_nodup (l : List Bytes) (h : chainLt l = true) : l.Nodup := by
  have hp := chainLt_pairwise l h
  refine hp.imp ?_
  intro a b hab heq
  subst heq
  rw [bytesLt_irrefl] at hab
  cases hab

theorem nodup_of_map {α β : Type} (f : α → β) : ∀ l : List α, (l.map f).Nodup → l.Nodup
  | [], _ => List.nodup_nil
  | x :: xs, h => by
    simp only [List.map_cons, List.nodup_cons] at h ⊢
    exact ⟨fun hx => h.1 (List.mem_map_of_mem hx), nodup_of_map f xs h.2⟩

theorem distinctKeys_sound {κ ν : Type} (k : Codec κ) (es : List (κ × ν)) (h : distinctKeys k es = true) :
    (es.map Prod.fst).Nodup := by
  simp only [distinctKeys] at h
  have h1 := chainLt_nodup _ h
  have h2 : (es.map fun e => k.enc e.1).Nodup := (List.mergeSort_perm _ _).nodup_iff.mp h1
  have h3 : ((es.map Prod.fst).map k.enc).Nodup := by simpa [List.map_map, Function.comp_def] using h2
  exact nodup_of_map k.enc _ h3

/-- the test is only a shortcut: `insertAll` is the sequence of `emplace` calls -/
theorem insertAll_eq {κ ν : Type} [DecidableEq κ] (k : Codec κ) (es : List (κ × ν)) : insertAll k es = emplaceAll es := by
  simp only [insertAll]
  split
  · rename_i h; exact (emplaceAll_nodup es (distinctKeys_sound k es h)).symm
  · rfl

/-- the values of `std::unordered_map<K, V>` the laws cover -/
def MapOk {κ ν : Type} (Pk : κ → Prop) (Pv : ν → Prop) (l : List (κ × ν)) : Prop :=
  l.length < 4294967296 ∧ (∀ x ∈ l, Pk x.1 ∧ Pv x.2) ∧ (l.map Prod.fst).Nodup

theorem lawful_map {κ ν : Type} [DecidableEq κ] {k : Codec κ} {v : Codec ν} {Pk : κ → Prop} {Pv : ν → Prop}
    (hk : Lawful k Pk) (hv : Lawful v Pv) : Lawful (map k v) (MapOk Pk Pv) where
  roundtrip l rest hl := by
    simp only [map, List.append_assoc]
    rw [show mapHeader l.length = mapHdr.enc l.length from rfl, show decMapHeader = mapHdr.dec from rfl,
      lawful_mapHdr.roundtrip l.length _ hl.1]
    simp only [Res.bind_ok]
    rw [decList_roundtrip (lawful_pair hk hv) l rest hl.2.1]
    simp [insertAll_eq, emplaceAll_nodup l hl.2.2]
  prefixFree l p q hl he hq := by
    simp only [map] at he ⊢
    refine seq_prefix lawful_mapHdr (v := l.length) hl.1 he hq _ (fun c' hc => ?_)
    rw [decList_prefix (lawful_pair hk hv) l c' q hl.2.1 hc hq]; rfl


end Primitiv.Msgpack
