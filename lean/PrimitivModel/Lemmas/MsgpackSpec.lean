import PrimitivModel.Lemmas.Msgpack
import PrimitivModel.Spec.Msgpack
/-
The Writer model's length prefixes against the specification's format table
(Spec/Msgpack.lean): always admissible, always a shortest one; signed values
and their two's complement words.  Core Lean only.
-/
namespace Primitiv.Msgpack
open Spec

/-! ### the Writer's length prefixes against the specification's format table -/

theorem fix_or_add : (∀ n, n < 32 → 160 ||| (n &&& 31) = 160 + n) ∧ (∀ n, n < 16 → 144 ||| (n &&& 15) = 144 + n) ∧
    (∀ n, n < 16 → 128 ||| (n &&& 15) = 128 + n) := by decide

theorem strHeader_shortest (n : Nat) (hn : n < 4294967296) : Shortest (strHeader n) (strHeaders n) := by
  by_cases h1 : n < 32
  · have := fix_or_add.1 n h1
    have h2 : n < 256 := by omega
    have h3 : n < 65536 := by omega
    simp [Shortest, strHeader, strHeaders, opt, h1, h2, h3, hn, this]
  · by_cases h2 : n < 256
    · have h3 : n < 65536 := by omega
      have h4 : n % 256 = n := by omega
      simp [Shortest, strHeader, strHeaders, opt, h1, h2, h3, hn, h4]
    · by_cases h3 : n < 65536
      · have h4 : n / 256 % 256 = n / 256 := by omega
        simp [Shortest, strHeader, strHeaders, opt, h1, h2, h3, hn, be16, h4]
      · have h4 : n / 16777216 % 256 = n / 16777216 := by omega
        simp [Shortest, strHeader, strHeaders, opt, h1, h2, h3, hn, be32, h4]

theorem binHeader_shortest (n : Nat) (hn : n < 4294967296) : Shortest (binHeader n) (binHeaders n) := by
  by_cases h2 : n < 256
  · have h3 : n < 65536 := by omega
    have h4 : n % 256 = n := by omega
    simp [Shortest, binHeader, binHeaders, opt, h2, h3, hn, h4]
  · by_cases h3 : n < 65536
    · have h4 : n / 256 % 256 = n / 256 := by omega
      simp [Shortest, binHeader, binHeaders, opt, h2, h3, hn, be16, h4]
    · have h4 : n / 16777216 % 256 = n / 16777216 := by omega
      simp [Shortest, binHeader, binHeaders, opt, h2, h3, hn, be32, h4]

theorem arrHeader_shortest (n : Nat) (hn : n < 4294967296) : Shortest (arrHeader n) (arrHeaders n) := by
  by_cases h1 : n < 16
  · have := fix_or_add.2.1 n h1
    have h3 : n < 65536 := by omega
    simp [Shortest, arrHeader, arrHeaders, opt, h1, h3, hn, this]
  · by_cases h3 : n < 65536
    · have h4 : n / 256 % 256 = n / 256 := by omega
      simp [Shortest, arrHeader, arrHeaders, opt, h1, h3, hn, be16, h4]
    · have h4 : n / 16777216 % 256 = n / 16777216 := by omega
      simp [Shortest, arrHeader, arrHeaders, opt, h1, h3, hn, be32, h4]

theorem mapHeader_shortest (n : Nat) (hn : n < 4294967296) : Shortest (mapHeader n) (mapHeaders n) := by
  by_cases h1 : n < 16
  · have := fix_or_add.2.2 n h1
    have h3 : n < 65536 := by omega
    simp [Shortest, mapHeader, mapHeaders, opt, h1, h3, hn, this]
  · by_cases h3 : n < 65536
    · have h4 : n / 256 % 256 = n / 256 := by omega
      simp [Shortest, mapHeader, mapHeaders, opt, h1, h3, hn, be16, h4]
    · have h4 : n / 16777216 % 256 = n / 16777216 := by omega
      simp [Shortest, mapHeader, mapHeaders, opt, h1, h3, hn, be32, h4]

theorem extHeader_shortest (n ty : Nat) (hn : n < 4294967296) : Shortest (extHeader n ty) (extHeaders n ty) := by
  by_cases h2 : n < 256
  · have h3 : n < 65536 := by omega
    have h4 : n % 256 = n := by omega
    by_cases c1 : n = 1
    · subst c1; simp [Shortest, extHeader, extHeaders, opt]
    by_cases c2 : n = 2
    · subst c2; simp [Shortest, extHeader, extHeaders, opt]
    by_cases c4 : n = 4
    · subst c4; simp [Shortest, extHeader, extHeaders, opt]
    by_cases c8 : n = 8
    · subst c8; simp [Shortest, extHeader, extHeaders, opt]
    by_cases c16 : n = 16
    · subst c16; simp [Shortest, extHeader, extHeaders, opt]
    simp [Shortest, extHeader, extHeaders, opt, h2, h3, hn, h4, c1, c2, c4, c8, c16]
  · have c1 : n ≠ 1 := by omega
    have c2 : n ≠ 2 := by omega
    have c4 : n ≠ 4 := by omega
    have c8 : n ≠ 8 := by omega
    have c16 : n ≠ 16 := by omega
    by_cases h3 : n < 65536
    · have h4 : n / 256 % 256 = n / 256 := by omega
      simp [Shortest, extHeader, extHeaders, opt, h2, h3, hn, be16, h4, c1, c2, c4, c8, c16]
    · have h4 : n / 16777216 % 256 = n / 16777216 := by omega
      simp [Shortest, extHeader, extHeaders, opt, h2, h3, hn, be32, h4, c1, c2, c4, c8, c16]

/-- a vector or map of 2^32 or more elements is written without any prefix (no `else` branch) -/
theorem container_overlong (n : Nat) (h : 4294967296 ≤ n) : arrHeader n = [] ∧ mapHeader n = [] := by
  have h1 : ¬ n < 16 := by omega
  have h2 : ¬ n < 65536 := by omega
  have h3 : ¬ n < 4294967296 := by omega
  simp [arrHeader, mapHeader, h1, h2, h3]

/-! ### signed values and their two's complement words -/

theorem toSigned_ofSigned8 (i : Int) (h : -128 ≤ i ∧ i < 128) : toSigned 8 (ofSigned 8 i) = i := by
  simp only [toSigned, ofSigned]; omega
theorem toSigned_ofSigned16 (i : Int) (h : -32768 ≤ i ∧ i < 32768) : toSigned 16 (ofSigned 16 i) = i := by
  simp only [toSigned, ofSigned]; omega
theorem toSigned_ofSigned32 (i : Int) (h : -2147483648 ≤ i ∧ i < 2147483648) : toSigned 32 (ofSigned 32 i) = i := by
  simp only [toSigned, ofSigned]; omega
theorem toSigned_ofSigned64 (i : Int) (h : -9223372036854775808 ≤ i ∧ i < 9223372036854775808) :
    toSigned 64 (ofSigned 64 i) = i := by
  simp only [toSigned, ofSigned]; omega

end Primitiv.Msgpack
