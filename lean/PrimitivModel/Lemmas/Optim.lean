import PrimitivModel.Lemmas.OptimBase
import Mathlib.Tactic.Ring
import Mathlib.Algebra.Order.Field.Basic
import Mathlib.Tactic.FieldSimp
import Mathlib.Analysis.Real.Sqrt
/-
Helper lemmas of property C12: congruence of `Param.updateWith`, the generated
elementwise rules against the textbook equations, `Optimizer::update` against
the specification's update, the settings against the specification's, the
refinement over histories, gradients after `update()` and their norm.
-/
set_option linter.unusedSectionVars false
set_option linter.unusedSimpArgs false
namespace Primitiv.Opt
open Primitiv.Gen.Opt

section congr
variable {α : Type} [OfNat α 0]

theorem updateWith_congr (e e' : α → α → List α → α × List α) (names : List String) (p : Param α)
    (h : ∀ g v st, st.length = names.length → e g v st = e' g v st) :
    p.updateWith e names = p.updateWith e' names := by
  have hm : (List.range p.value.length).map
        (fun i => e (p.grad.getD i 0) (p.value.getD i 0) ((names.map p.stat).map (fun s => s.getD i 0))) =
      (List.range p.value.length).map
        (fun i => e' (p.grad.getD i 0) (p.value.getD i 0) ((names.map p.stat).map (fun s => s.getD i 0))) := by
    apply List.map_congr_left
    intro i _
    exact h _ _ _ (by simp)
  unfold Param.updateWith
  simp only [hm]

end congr

section field
variable {K : Type} [Field K]

theorem sgd_eq (F : Fns K) (η s : K) (e : Nat) (g θ : K) :
    sgd_update F η s e g θ = (Spec.sgd η s g θ, []) := by
  simp only [sgd_update, Spec.sgd]

theorem momentumsgd_eq (F : Fns K) (η μ s : K) (e : Nat) (g θ m : K) :
    momentumsgd_update F η μ s e g θ m = ((Spec.momentum η μ s g θ m).1, [(Spec.momentum η μ s g θ m).2]) := by
  simp only [momentumsgd_update, Spec.momentum, mul_comm m μ]

theorem adagrad_eq (F : Fns K) (η ε s : K) (e : Nat) (g θ m : K) :
    adagrad_update F η ε s e g θ m = ((Spec.adagrad F η ε s g θ m).1, [(Spec.adagrad F η ε s g θ m).2]) := by
  simp only [adagrad_update, Spec.adagrad, mul_div_assoc]

theorem rmsprop_eq (F : Fns K) (η a ε s : K) (e : Nat) (g θ m : K) :
    rmsprop_update F η a ε s e g θ m = ((Spec.rmsprop F η a ε s g θ m).1, [(Spec.rmsprop F η a ε s g θ m).2]) := by
  simp only [rmsprop_update, Spec.rmsprop, mul_div_assoc, mul_assoc]

theorem adadelta_eq (F : Fns K) (ρ ε s : K) (e : Nat) (g θ m1 m2 : K) :
    adadelta_update F ρ ε s e g θ m1 m2 =
      ((Spec.adadelta F ρ ε s g θ m1 m2).1,
       [(Spec.adadelta F ρ ε s g θ m1 m2).2.1, (Spec.adadelta F ρ ε s g θ m1 m2).2.2]) := by
  simp only [adadelta_update, Spec.adadelta, mul_comm m2 ρ, mul_comm m1 ρ, mul_assoc]

theorem adam_eq (F : Fns K) (a β1 β2 ε s : K) (e : Nat) (g θ m1 m2 : K) :
    adam_update F a β1 β2 ε s e g θ m1 m2 =
      ((Spec.adam F a β1 β2 ε s ((e + 1) % 4294967296) g θ m1 m2).1,
       [(Spec.adam F a β1 β2 ε s ((e + 1) % 4294967296) g θ m1 m2).2.1,
        (Spec.adam F a β1 β2 ε s ((e + 1) % 4294967296) g θ m1 m2).2.2]) := by
  simp only [adam_update, Spec.adam, add32, mul_div_assoc, mul_assoc]

/-- the generated dispatcher against the specification's, for well-formed arguments -/
theorem updateElem_eq_spec (F : Fns K) (k : Kind) (fields : List K) (s : K) (e : Nat) (g θ : K) (st : List K)
    (hf : fields.length = arity k) (hs : st.length = (statsUsed k).length) :
    updateElem F k fields s e g θ st = Spec.elem F k fields s e g θ st := by
  cases k <;> simp [arity, statsUsed, table] at hf hs
  · obtain ⟨a, rfl⟩ := len1 hf
    obtain rfl := hs
    simp only [updateElem, Spec.elem, sgd_eq]
  · obtain ⟨a, b, rfl⟩ := len2 hf
    obtain ⟨m, rfl⟩ := len1 hs
    simp only [updateElem, Spec.elem, momentumsgd_eq]
  · obtain ⟨a, b, rfl⟩ := len2 hf
    obtain ⟨m, rfl⟩ := len1 hs
    simp only [updateElem, Spec.elem, adagrad_eq]
  · obtain ⟨a, b, c, rfl⟩ := len3 hf
    obtain ⟨m, rfl⟩ := len1 hs
    simp only [updateElem, Spec.elem, rmsprop_eq]
  · obtain ⟨a, b, rfl⟩ := len2 hf
    obtain ⟨m1, m2, rfl⟩ := len2 hs
    simp only [updateElem, Spec.elem, adadelta_eq]
  · obtain ⟨a, b, c, d, rfl⟩ := len4 hf
    obtain ⟨m1, m2, rfl⟩ := len2 hs
    simp only [updateElem, Spec.elem, adam_eq]


theorem statsUsed_eq_spec (k : Kind) : statsUsed k = Spec.statNames k := by
  cases k <;> rfl

theorem arity_eq_spec (k : Kind) : arity k = Spec.arity k := by
  cases k <;> rfl

variable [LinearOrder K] [IsStrictOrderedRing K]

theorem param_update_eq_spec (F : Fns K) (k : Kind) (fields : List K) (sc : K) (e : Nat) (p : Param K)
    (hf : fields.length = arity k) :
    p.update F k fields sc e = p.updateWith (Spec.elem F k fields sc e) (Spec.statNames k) := by
  unfold Param.update
  rw [← statsUsed_eq_spec]
  apply updateWith_congr
  intro g v st hst
  exact updateElem_eq_spec F k fields sc e g v st hf hst

theorem decay_eq_spec (l2 : K) (reg : List Nat) (ps : List (Param K)) :
    (if l2 > 0 then mapReg reg (Param.decay l2) ps else ps) =
      mapReg reg (fun p => { p with grad := Spec.decayed l2 p }) ps := by
  by_cases h : l2 > 0
  · have h' : (0 : K) < l2 := h
    simp only [h, if_true, Spec.decayed]
    rfl
  · have h' : ¬ (0 : K) < l2 := h
    simp only [h, if_false, Spec.decayed, h']
    exact (mapReg_id reg ps).symm

theorem clip_eq_spec (F : Fns K) (c : K) (reg : List Nat) (ps : List (Param K)) :
    (if c > 0 then
        (if sqNorm (regGrads reg ps) > c * c then
          mapReg reg (Param.scaleGrad (c / F.sqrt (sqNorm (regGrads reg ps)))) ps else ps)
      else ps) =
      mapReg reg
        (fun p => { p with grad := p.grad.map (fun g => Spec.clipFactor F c (sqNorm (regGrads reg ps)) * g) })
        ps := by
  have hid : mapReg reg (fun p : Param K => { p with grad := p.grad.map (fun g => 1 * g) }) ps = ps := by
    have : (fun p : Param K => { p with grad := p.grad.map (fun g => 1 * g) }) = fun p => p := by
      funext p; simp
    rw [this, mapReg_id]
  by_cases h : c > 0
  · have h' : (0 : K) < c := h
    by_cases h2 : sqNorm (regGrads reg ps) > c * c
    · have h2' : c * c < sqNorm (regGrads reg ps) := h2
      simp only [h, h2, if_true, Spec.clipFactor, h', h2', and_self, mul_comm]
      rfl
    · have h2' : ¬ c * c < sqNorm (regGrads reg ps) := h2
      simp only [h, h2, if_true, if_false, Spec.clipFactor, h2', and_false]
      exact hid.symm
  · have h' : ¬ (0 : K) < c := h
    simp only [h, if_false, Spec.clipFactor, h', false_and]
    exact hid.symm

/-- the hand-written `Optimizer::update` with the generated rules is the specification's update -/
theorem updateCore_eq_spec (F : Fns K) (s : State K) (hf : s.o.fields.length = arity s.o.kind) :
    updateCore F s = Spec.updateCore F s := by
  unfold updateCore Spec.updateCore
  simp only [decay_eq_spec, clip_eq_spec, add32]
  congr 1
  congr 1
  funext p
  exact param_update_eq_spec F _ _ _ _ p hf

end field

section
variable {K : Type} [Field K] [LinearOrder K] [IsStrictOrderedRing K]

theorem setLr_eq (x : K) (s : State K) :
    withBase s (s.o.base.set_learning_rate_scaling x) =
      Spec.setNonneg x (fun x => { s.o.base with lr_scale_ := x }) s := by
  unfold Base.set_learning_rate_scaling Spec.setNonneg withBase
  by_cases h : x < 0 <;> simp [h]

theorem cfgU_eq (key : String) (n : Nat) (b : Base K) :
    b.set [(key, n)] [] = if key == "Optimizer.epoch" then { b with epoch_ := n } else b := by
  by_cases h : key = "Optimizer.epoch"
  · subst h; simp [Base.set, List.lookup]
  · have h' : ("Optimizer.epoch" == key) = false := by simp [beq_eq_false_iff_ne]; exact fun e => h e.symm
    simp [Base.set, List.lookup, h, h']

theorem cfgF_base_eq (key : String) (x : K) (b : Base K) :
    b.set [] [(key, x)] =
      if key == "Optimizer.lr_scale" then { b with lr_scale_ := x }
      else if key == "Optimizer.l2_strength" then { b with l2_strength_ := x }
      else if key == "Optimizer.clip_threshold" then { b with clip_threshold_ := x }
      else b := by
  by_cases h1 : key = "Optimizer.lr_scale"
  · subst h1; simp [Base.set, List.lookup]
  by_cases h2 : key = "Optimizer.l2_strength"
  · subst h2; simp [Base.set, List.lookup]
  by_cases h3 : key = "Optimizer.clip_threshold"
  · subst h3; simp [Base.set, List.lookup]
  have h1' : ("Optimizer.lr_scale" == key) = false := by simp [beq_eq_false_iff_ne]; exact fun e => h1 e.symm
  have h2' : ("Optimizer.l2_strength" == key) = false := by simp [beq_eq_false_iff_ne]; exact fun e => h2 e.symm
  have h3' : ("Optimizer.clip_threshold" == key) = false := by simp [beq_eq_false_iff_ne]; exact fun e => h3 e.symm
  simp [Base.set, List.lookup, h1, h2, h3, h1', h2', h3']

theorem lookup_single (key k' : String) (x d : K) :
    (List.lookup k' [(key, x)]).getD d = if k' == key then x else d := by
  by_cases h : k' = key
  · subst h; simp [List.lookup]
  · have h' : (k' == key) = false := by simpa using h
    simp [List.lookup, h']

theorem cfgF_fields_eq (k : Kind) (key : String) (x : K) (fields : List K) (hf : fields.length = arity k) :
    setConfigs k [(key, x)] fields =
      (List.range fields.length).map (fun j => if (Spec.keys k).getD j "" == key then x else fields.getD j 0) := by
  cases k <;> simp [arity, table] at hf
  · obtain ⟨a, rfl⟩ := len1 hf
    simp [setConfigs, lookup_single, Spec.keys, List.range, List.range.loop]
  · obtain ⟨a, b, rfl⟩ := len2 hf
    simp [setConfigs, lookup_single, Spec.keys, List.range, List.range.loop]
  · obtain ⟨a, b, rfl⟩ := len2 hf
    simp [setConfigs, lookup_single, Spec.keys, List.range, List.range.loop]
  · obtain ⟨a, b, c, rfl⟩ := len3 hf
    simp [setConfigs, lookup_single, Spec.keys, List.range, List.range.loop]
  · obtain ⟨a, b, rfl⟩ := len2 hf
    simp [setConfigs, lookup_single, Spec.keys, List.range, List.range.loop]
  · obtain ⟨a, b, c, d, rfl⟩ := len4 hf
    simp [setConfigs, lookup_single, Spec.keys, List.range, List.range.loop]
end

section
variable {K : Type} [Field K] [LinearOrder K] [IsStrictOrderedRing K]

/-- what the refinement needs of a state: the hyper-parameter list has the
algorithm's arity, and an invalid parameter can only be around when the
algorithm keeps statistics (`SGD::configure_parameter` is empty and accepts
an invalid parameter) -/
def Inv1 (s : State K) : Prop :=
  s.o.fields.length = arity s.o.kind ∧ (statNames s.o.kind ≠ [] ∨ ∀ v ∈ valids s.ps, v = true)

theorem add_eq_spec (s : State K) (i : Nat) (h : Inv1 s) : add s i = Spec.add s i := by
  unfold add Spec.add
  by_cases hr : i ∈ s.o.reg
  · simp [hr]
  · simp only [hr, if_false]
    cases hp : s.ps[i]? with
    | none => rfl
    | some p =>
      simp only
      by_cases hv : p.valid = true
      · rw [configure_valid _ _ hv]
        simp [hv]
      · have hv' : p.valid = false := by simpa using hv
        have hk : statNames s.o.kind ≠ [] := by
          rcases h.2 with hk | hall
          · exact hk
          · exfalso
            have : p.valid ∈ valids s.ps := by
              simp only [valids, List.mem_map]
              exact ⟨p, List.mem_of_getElem? hp, rfl⟩
            exact hv (hall _ this)
        rw [configure_invalid _ _ hv' hk]
        simp [hv', set_self _ _ _ hp]

theorem exec_eq_spec (F : Fns K) (op : Op K) (s : State K) (h : Inv1 s) :
    exec F op s = Spec.exec F op s := by
  cases op with
  | setGrad i g => rfl
  | update =>
    simp only [exec, Spec.exec, update, updateCore_eq_spec F s h.1]
  | reset => rfl
  | setLr x =>
    simp only [exec, Spec.exec]
    unfold Base.set_learning_rate_scaling Spec.setNonneg withBase
    by_cases hx : x < 0 <;> simp [hx]
  | setL2 x =>
    simp only [exec, Spec.exec]
    unfold Base.set_weight_decay Spec.setNonneg withBase
    by_cases hx : x < 0 <;> simp [hx]
  | setClip x =>
    simp only [exec, Spec.exec]
    unfold Base.set_gradient_clipping Spec.setNonneg withBase
    by_cases hx : x < 0 <;> simp [hx]
  | setEpoch n => simp [exec, Spec.exec, Base.set_epoch, withBase]
  | cfgF key x =>
    simp only [exec, Spec.exec, cfgF_base_eq, cfgF_fields_eq _ _ _ _ h.1]
  | cfgU key n => simp only [exec, Spec.exec, cfgU_eq]
  | add i => exact add_eq_spec s i h


theorem valids_ite (c : Prop) [Decidable c] (a b : List (Param K)) (v : List Bool)
    (ha : valids a = v) (hb : valids b = v) : valids (if c then a else b) = v := by
  split <;> assumption

theorem configureOne_valid (g : Bool) (p : Param K) (n : String) : (configureOne g p n).1.valid = p.valid := by
  unfold configureOne
  split
  · rfl
  · split <;> rfl

theorem configure_keeps_valid (k : Kind) (p : Param K) : (configure k p).1.valid = p.valid := by
  unfold configure
  generalize (table k).stats = l
  have key : ∀ (l : List (String × Bool)) (acc : Param K × Bool),
      (l.foldl (fun (acc : Param K × Bool) e => if acc.2 then configureOne e.2 acc.1 e.1 else acc) acc).1.valid
        = acc.1.valid := by
    intro l
    induction l with
    | nil => intro acc; rfl
    | cons e t ih =>
      intro acc
      rw [List.foldl_cons, ih]
      split
      · exact configureOne_valid _ _ _
      · rfl
  exact key l (p, true)

theorem updateWith_valid (e : K → K → List K → K × List K) (names : List String) (p : Param K) :
    (p.updateWith e names).valid = p.valid := rfl

theorem exec_kind (F : Fns K) (op : Op K) (s : State K) : (exec F op s).1.o.kind = s.o.kind := by
  cases op <;> simp only [exec, update, reset, setGrad, withBase, add, updateCore]
  · split <;> [split; skip] <;> rfl
  · split <;> rfl
  · split <;> rfl
  · cases s.o.base.set_learning_rate_scaling _ <;> rfl
  · cases s.o.base.set_weight_decay _ <;> rfl
  · cases s.o.base.set_gradient_clipping _ <;> rfl
  · cases s.o.base.set_epoch _ <;> rfl
  · split
    · rfl
    · split
      · rfl
      · split <;> rfl

theorem exec_valids (F : Fns K) (op : Op K) (s : State K) : valids (exec F op s).1.ps = valids s.ps := by
  cases op with
  | setGrad i g =>
    simp only [exec, setGrad]
    cases hp : s.ps[i]? with
    | none => rfl
    | some p =>
      simp only
      split
      · exact valids_set _ _ p _ hp rfl
      · rfl
  | update =>
    simp only [exec, update]
    split
    · simp only [updateCore]
      have h1 : valids (if s.o.base.l2_strength_ > 0 then mapReg s.o.reg (Param.decay s.o.base.l2_strength_) s.ps
          else s.ps) = valids s.ps :=
        by apply valids_ite
           · exact valids_mapReg _ (Param.decay _) _ (fun _ => rfl)
           · rfl
      refine (valids_mapReg _ (Param.update F _ _ _ _) _ (fun _ => rfl)).trans ?_
      apply valids_ite
      · apply valids_ite
        · exact (valids_mapReg _ (Param.scaleGrad _) _ (fun _ => rfl)).trans h1
        · exact h1
      · exact h1
    · rfl
  | reset =>
    simp only [exec, reset]
    split
    · exact valids_mapReg _ Param.resetGrad _ (fun p => rfl)
    · rfl
  | setLr x => simp only [exec, withBase]; cases s.o.base.set_learning_rate_scaling x <;> rfl
  | setL2 x => simp only [exec, withBase]; cases s.o.base.set_weight_decay x <;> rfl
  | setClip x => simp only [exec, withBase]; cases s.o.base.set_gradient_clipping x <;> rfl
  | setEpoch n => simp only [exec, withBase]; cases s.o.base.set_epoch (n % 4294967296) <;> rfl
  | cfgF key x => rfl
  | cfgU key n => rfl
  | add i =>
    simp only [exec, add]
    split
    · rfl
    · cases hp : s.ps[i]? with
      | none => rfl
      | some p =>
        simp only
        split <;> exact valids_set _ _ p _ hp (configure_keeps_valid _ _)

theorem setConfigs_length (k : Kind) (cf : List (String × K)) (fields : List K) :
    (setConfigs k cf fields).length = fields.length := by
  unfold setConfigs
  split <;> rfl

theorem exec_fields_length (F : Fns K) (op : Op K) (s : State K) :
    (exec F op s).1.o.fields.length = s.o.fields.length := by
  cases op <;> simp only [exec, update, reset, setGrad, withBase, add, updateCore]
  · split <;> [split; skip] <;> rfl
  · split <;> rfl
  · split <;> rfl
  · cases s.o.base.set_learning_rate_scaling _ <;> rfl
  · cases s.o.base.set_weight_decay _ <;> rfl
  · cases s.o.base.set_gradient_clipping _ <;> rfl
  · cases s.o.base.set_epoch _ <;> rfl
  · exact setConfigs_length _ _ _
  · split
    · rfl
    · split
      · rfl
      · split <;> rfl

theorem Inv1_exec (F : Fns K) (op : Op K) (s : State K) (h : Inv1 s) : Inv1 (exec F op s).1 := by
  unfold Inv1
  rw [exec_kind, exec_valids, exec_fields_length]
  exact h

theorem run_eq_spec (F : Fns K) (h : List (Op K)) (s : State K) (hI : Inv1 s) :
    run (exec F) h s = run (Spec.exec F) h s := by
  induction h generalizing s with
  | nil => rfl
  | cons op t ih =>
    simp only [run]
    rw [← exec_eq_spec F op s hI, ih _ (Inv1_exec F op s hI)]

theorem Inv1_run (F : Fns K) (h : List (Op K)) (s : State K) (hI : Inv1 s) : Inv1 (run (exec F) h s).1 := by
  induction h generalizing s with
  | nil => exact hI
  | cons op t ih => exact ih _ (Inv1_exec F op s hI)


/-! ### gradients after `update()` -/

theorem regGrads_eq (reg : List Nat) (ps : List (Param K)) :
    regGrads reg ps = (reg.filterMap (fun i => ps[i]?)).map (fun p => p.grad) := by
  unfold regGrads
  rw [List.map_filterMap]

theorem regGrads_mapReg_of {h : List K → List K} (reg : List Nat) (f : Param K → Param K) (ps : List (Param K))
    (hf : ∀ p, (f p).grad = h p.grad) : regGrads reg (mapReg reg f ps) = (regGrads reg ps).map h := by
  rw [regGrads_mapReg, regGrads_eq, List.map_map]
  apply List.map_congr_left
  intro p _
  exact hf p

/-- gradients of the registered parameters after weight decay -/
def decayedGrads (s : State K) : List (List K) :=
  regGrads s.o.reg (mapReg s.o.reg (fun p => { p with grad := Spec.decayed s.o.base.l2_strength_ p }) s.ps)

theorem grads_after_update (F : Fns K) (s : State K) :
    regGrads s.o.reg (updateCore F s).ps =
      (decayedGrads s).map (fun g => g.map (fun x =>
        Spec.clipFactor F s.o.base.clip_threshold_ (sqNorm (decayedGrads s)) * x)) := by
  unfold updateCore decayedGrads
  simp only [decay_eq_spec, clip_eq_spec]
  rw [regGrads_mapReg_of (h := fun g => g) _ (Param.update F _ _ _ _) _ (fun p => rfl), List.map_id']
  rw [regGrads_mapReg_of (h := fun g => g.map (fun x => _ * x)) _ _ _ (fun p => rfl)]

theorem sumL_eq_add (l : List K) (a : K) : l.foldl (· + ·) a = a + sumL l := by
  unfold sumL
  induction l generalizing a with
  | nil => simp
  | cons x t ih => rw [List.foldl_cons, List.foldl_cons, ih, ih (0 + x)]; ring

theorem sumL_cons (x : K) (t : List K) : sumL (x :: t) = x + sumL t := by
  unfold sumL
  rw [List.foldl_cons, sumL_eq_add]; unfold sumL; ring

theorem sumL_sq_scale (c : K) (l : List K) :
    sumL ((l.map (fun x => c * x)).map (fun x => x * x)) = c * c * sumL (l.map (fun x => x * x)) := by
  induction l with
  | nil => simp [sumL]
  | cons x t ih => simp only [List.map_cons, sumL_cons, ih]; ring

theorem sqNorm_eq_add (gs : List (List K)) (a : K) :
    gs.foldl (fun acc g => acc + sumL (g.map (fun x => x * x))) a = a + sqNorm gs := by
  unfold sqNorm
  induction gs generalizing a with
  | nil => simp
  | cons g t ih => rw [List.foldl_cons, List.foldl_cons, ih, ih (0 + _)]; ring

theorem sqNorm_cons (g : List K) (t : List (List K)) :
    sqNorm (g :: t) = sumL (g.map (fun x => x * x)) + sqNorm t := by
  unfold sqNorm
  rw [List.foldl_cons, sqNorm_eq_add]; unfold sqNorm; ring

theorem sqNorm_scale (c : K) (gs : List (List K)) :
    sqNorm (gs.map (fun g => g.map (fun x => c * x))) = c * c * sqNorm gs := by
  induction gs with
  | nil => simp [sqNorm]
  | cons g t ih => simp only [List.map_cons, sqNorm_cons, ih, sumL_sq_scale]; ring

theorem sumL_sq_nonneg (l : List K) : 0 ≤ sumL (l.map (fun x => x * x)) := by
  induction l with
  | nil => simp [sumL]
  | cons x t ih => simp only [List.map_cons, sumL_cons]; exact add_nonneg (mul_self_nonneg x) ih

theorem sqNorm_nonneg (gs : List (List K)) : 0 ≤ sqNorm gs := by
  induction gs with
  | nil => simp [sqNorm]
  | cons g t ih => rw [sqNorm_cons]; exact add_nonneg (sumL_sq_nonneg g) ih


/-! ### only registered parameters are touched -/

theorem updateCore_unregistered (F : Fns K) (s : State K) (i : Nat) (hi : i ∉ s.o.reg) :
    (updateCore F s).ps[i]? = s.ps[i]? := by
  unfold updateCore
  simp only [decay_eq_spec, clip_eq_spec, getElem?_mapReg, hi, if_false]
  cases s.ps[i]? <;> rfl

theorem updateCore_reg (F : Fns K) (s : State K) : (updateCore F s).o.reg = s.o.reg := rfl

/-- the operation is a call on parameter `i` itself (a gradient write by the
user, or its registration) -/
def Op.mentions (i : Nat) : Op K → Prop
  | .add j => j = i
  | .setGrad j _ => j = i
  | _ => False

theorem exec_unregistered (F : Fns K) (op : Op K) (s : State K) (i : Nat) (hi : i ∉ s.o.reg)
    (hm : ¬ op.mentions i) :
    (exec F op s).1.ps[i]? = s.ps[i]? ∧ i ∉ (exec F op s).1.o.reg := by
  cases op with
  | setGrad j g =>
    have hji : j ≠ i := fun e => hm e
    simp only [exec, setGrad]
    cases hp : s.ps[j]? with
    | none => exact ⟨rfl, hi⟩
    | some p =>
      simp only
      split
      · exact ⟨by simp [List.getElem?_set, hji], hi⟩
      · exact ⟨rfl, hi⟩
  | update =>
    simp only [exec, update]
    split
    · exact ⟨updateCore_unregistered F s i hi, hi⟩
    · exact ⟨rfl, hi⟩
  | reset =>
    simp only [exec, reset]
    split
    · refine ⟨?_, hi⟩
      simp only [getElem?_mapReg, hi, if_false]
      cases s.ps[i]? <;> rfl
    · exact ⟨rfl, hi⟩
  | setLr x => simp only [exec, withBase]; cases s.o.base.set_learning_rate_scaling x <;> exact ⟨rfl, hi⟩
  | setL2 x => simp only [exec, withBase]; cases s.o.base.set_weight_decay x <;> exact ⟨rfl, hi⟩
  | setClip x => simp only [exec, withBase]; cases s.o.base.set_gradient_clipping x <;> exact ⟨rfl, hi⟩
  | setEpoch n => simp only [exec, withBase]; cases s.o.base.set_epoch (n % 4294967296) <;> exact ⟨rfl, hi⟩
  | cfgF key x => exact ⟨rfl, hi⟩
  | cfgU key n => exact ⟨rfl, hi⟩
  | add j =>
    have hji : j ≠ i := fun e => hm e
    simp only [exec, add]
    split
    · exact ⟨rfl, hi⟩
    · cases hp : s.ps[j]? with
      | none => exact ⟨rfl, hi⟩
      | some p =>
        simp only
        split
        · refine ⟨by simp [List.getElem?_set, hji], ?_⟩
          simp only [List.mem_append, List.mem_singleton, not_or]
          exact ⟨hi, fun e => hji e.symm⟩
        · exact ⟨by simp [List.getElem?_set, hji], hi⟩

theorem run_unregistered (F : Fns K) (h : List (Op K)) (s : State K) (i : Nat) (hi : i ∉ s.o.reg)
    (hm : ∀ op ∈ h, ¬ op.mentions i) : (run (exec F) h s).1.ps[i]? = s.ps[i]? := by
  induction h generalizing s with
  | nil => rfl
  | cons op t ih =>
    have h1 := exec_unregistered F op s i hi (hm op (by simp))
    simp only [run]
    rw [ih _ h1.2 (fun o ho => hm o (by simp [ho])), h1.1]

end

section real
open Real

/-- over ℝ with the true square root: after `update()` the joint squared norm
of the registered gradients is at most `threshold²` -/
theorem sqNorm_after_update_le (F : Fns ℝ) (hF : F.sqrt = Real.sqrt) (s : State ℝ)
    (hc : 0 < s.o.base.clip_threshold_) :
    sqNorm (regGrads s.o.reg (updateCore F s).ps) ≤ s.o.base.clip_threshold_ * s.o.base.clip_threshold_ := by
  rw [grads_after_update, sqNorm_scale]
  unfold Spec.clipFactor
  by_cases h : s.o.base.clip_threshold_ * s.o.base.clip_threshold_ < sqNorm (decayedGrads s)
  · have hN : 0 < sqNorm (decayedGrads s) := lt_of_le_of_lt (mul_self_nonneg _) h
    simp only [hc, h, and_self, if_true, hF]
    have hs : Real.sqrt (sqNorm (decayedGrads s)) * Real.sqrt (sqNorm (decayedGrads s)) = sqNorm (decayedGrads s) :=
      Real.mul_self_sqrt hN.le
    have hne : Real.sqrt (sqNorm (decayedGrads s)) ≠ 0 := (Real.sqrt_pos.mpr hN).ne'
    have : s.o.base.clip_threshold_ / Real.sqrt (sqNorm (decayedGrads s)) *
        (s.o.base.clip_threshold_ / Real.sqrt (sqNorm (decayedGrads s))) * sqNorm (decayedGrads s)
        = s.o.base.clip_threshold_ * s.o.base.clip_threshold_ := by
      have key : ∀ (c r N : ℝ), r ≠ 0 → r * r = N → c / r * (c / r) * N = c * c := by
        intro c r N hr h
        subst h
        field_simp
      exact key _ _ _ hne hs
    rw [this]
  · simp only [h, and_false, if_false]
    simpa using not_lt.mp h

end real
end Primitiv.Opt
