import PrimitivModel.Spec.Optimizers
import PrimitivModel.Model.Resume
/-
Helper lemmas shared by C12 and C15 that do not depend on what the update
rules compute: list plumbing of `mapReg`, `configure_parameter` on valid /
invalid parameters, validity flags under `List.set`.
-/
set_option linter.unusedSectionVars false
set_option linter.unusedSimpArgs false
namespace Primitiv.Opt
open Primitiv.Gen.Opt

section plumbing
variable {α : Type}

theorem len0 {β : Type} {l : List β} (h : l.length = 0) : l = [] := List.eq_nil_of_length_eq_zero h
theorem len1 {β : Type} {l : List β} (h : l.length = 1) : ∃ a, l = [a] :=
  match l, h with | [a], _ => ⟨a, rfl⟩
theorem len2 {β : Type} {l : List β} (h : l.length = 2) : ∃ a b, l = [a, b] :=
  match l, h with | [a, b], _ => ⟨a, b, rfl⟩
theorem len3 {β : Type} {l : List β} (h : l.length = 3) : ∃ a b c, l = [a, b, c] :=
  match l, h with | [a, b, c], _ => ⟨a, b, c, rfl⟩
theorem len4 {β : Type} {l : List β} (h : l.length = 4) : ∃ a b c d, l = [a, b, c, d] :=
  match l, h with | [a, b, c, d], _ => ⟨a, b, c, d, rfl⟩

theorem getElem?_mapReg (reg : List Nat) (f : Param α → Param α) (ps : List (Param α)) (i : Nat) :
    (mapReg reg f ps)[i]? = (ps[i]?).map (fun p => if i ∈ reg then f p else p) := by
  simp [mapReg, List.getElem?_mapIdx]

@[simp] theorem length_mapReg (reg : List Nat) (f : Param α → Param α) (ps : List (Param α)) :
    (mapReg reg f ps).length = ps.length := by
  simp [mapReg]

theorem mapReg_id (reg : List Nat) (ps : List (Param α)) : mapReg reg (fun p => p) ps = ps := by
  apply List.ext_getElem?
  intro i
  rw [getElem?_mapReg]
  cases ps[i]? <;> simp

theorem mapReg_mapReg (reg : List Nat) (f g : Param α → Param α) (ps : List (Param α)) :
    mapReg reg g (mapReg reg f ps) = mapReg reg (fun p => g (f p)) ps := by
  apply List.ext_getElem?
  intro i
  simp only [getElem?_mapReg]
  cases ps[i]? with
  | none => rfl
  | some p => by_cases h : i ∈ reg <;> simp [h]

theorem regGrads_mapReg (reg : List Nat) (f : Param α → Param α) (ps : List (Param α)) :
    regGrads reg (mapReg reg f ps) = (reg.filterMap (fun i => ps[i]?)).map (fun p => (f p).grad) := by
  unfold regGrads
  have key : ∀ (l : List Nat), (∀ i ∈ l, i ∈ reg) →
      l.filterMap (fun i => ((mapReg reg f ps)[i]?).map (fun p => p.grad)) =
      (l.filterMap (fun i => ps[i]?)).map (fun p => (f p).grad) := by
    intro l
    induction l with
    | nil => intro _; rfl
    | cons a t ih =>
      intro h
      have ha : a ∈ reg := h a (by simp)
      have ht := ih (fun i hi => h i (by simp [hi]))
      rw [List.filterMap_cons, List.filterMap_cons, ht, getElem?_mapReg]
      cases hp : ps[a]? with
      | none => simp
      | some p => simp [ha]
  exact key reg (fun i hi => hi)

end plumbing

section
variable {α : Type} [OfNat α 0]

theorem hasStat_append (v : Bool) (val g : List α) (st : List (String × List α)) (n m : String) (z : List α) :
    Param.hasStat ⟨v, val, g, st ++ [(n, z)]⟩ m = (Param.hasStat ⟨v, val, g, st⟩ m || n == m) := by
  simp [Param.hasStat]

theorem configure_valid (k : Kind) (p : Param α) (hv : p.valid = true) :
    configure k p = ({ p with stats := p.stats ++
      ((Spec.statNames k).filter (fun n => !p.hasStat n)).map (fun n => (n, zeros p.value.length)) }, true) := by
  obtain ⟨valid, value, grad, stats⟩ := p
  simp only at hv
  subst hv
  cases k
  · simp [configure, table, Spec.statNames]
  · by_cases h : Param.hasStat ⟨true, value, grad, stats⟩ "MomentumSGD.m" <;>
      simp [configure, table, configureOne, Spec.statNames, h]
  · by_cases h : Param.hasStat ⟨true, value, grad, stats⟩ "AdaGrad.m" <;>
      simp [configure, table, configureOne, Spec.statNames, h]
  · by_cases h : Param.hasStat ⟨true, value, grad, stats⟩ "RMSProp.m" <;>
      simp [configure, table, configureOne, Spec.statNames, h]
  · by_cases h : Param.hasStat ⟨true, value, grad, stats⟩ "AdaDelta.m1" <;> by_cases h2 : Param.hasStat ⟨true, value, grad, stats⟩ "AdaDelta.m2" <;>
      simp [configure, table, configureOne, Spec.statNames, h, h2, hasStat_append]
  · by_cases h : Param.hasStat ⟨true, value, grad, stats⟩ "Adam.m1" <;> by_cases h2 : Param.hasStat ⟨true, value, grad, stats⟩ "Adam.m2" <;>
      simp [configure, table, configureOne, Spec.statNames, h, h2, hasStat_append]

theorem configure_invalid (k : Kind) (p : Param α) (hv : p.valid = false) (hk : statNames k ≠ []) :
    configure k p = (p, false) := by
  cases k <;> simp [statNames, table] at hk <;> simp [configure, table, configureOne, hv]
end

section
variable {α : Type}

/-- validity flags of the store -/
def valids (ps : List (Param α)) : List Bool := ps.map (fun p => p.valid)

theorem valids_mapReg (reg : List Nat) (f : Param α → Param α) (ps : List (Param α))
    (h : ∀ p, (f p).valid = p.valid) : valids (mapReg reg f ps) = valids ps := by
  apply List.ext_getElem?
  intro i
  simp only [valids, List.getElem?_map, getElem?_mapReg]
  cases ps[i]? with
  | none => rfl
  | some p => by_cases hi : i ∈ reg <;> simp [hi, h]

theorem valids_set (ps : List (Param α)) (i : Nat) (p q : Param α) (hp : ps[i]? = some p)
    (h : q.valid = p.valid) : valids (ps.set i q) = valids ps := by
  apply List.ext_getElem?
  intro j
  simp only [valids, List.getElem?_map, List.getElem?_set]
  by_cases hij : i = j
  · subst hij
    obtain ⟨this, he⟩ := List.getElem?_eq_some_iff.mp hp
    simp [this, hp, h, he]
  · simp [hij]

theorem set_self (ps : List (Param α)) (i : Nat) (p : Param α) (hp : ps[i]? = some p) : ps.set i p = ps := by
  apply List.ext_getElem?
  intro j
  rw [List.getElem?_set]
  by_cases hij : i = j
  · subst hij
    obtain ⟨this, he⟩ := List.getElem?_eq_some_iff.mp hp
    simp [this, hp, he]
  · simp [hij]
end

end Primitiv.Opt
