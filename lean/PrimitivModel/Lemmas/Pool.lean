import PrimitivModel.Model.Pool
/-
Lemmas about the MemoryPool model (Model/Pool.lean) used by Props/C18.lean:
the arithmetic of `calculateShifts`, the case analysis of `allocate`, and the
invariant of the world that every history preserves.  Core Lean only.
-/
namespace Primitiv.Pool

/-! ### calculateShifts -/

theorem popcount64_ones : ∀ n, n ≤ 64 → popcount64 (2 ^ n - 1) = n := by decide

/-- One smearing step doubles the set of offsets at which a set bit of `x` is seen. -/
theorem smear_step (x b k : Nat)
    (h : ∀ i d, d < 64 → d % (2 * k) = 0 → x.testBit (i + d) = true → b.testBit i = true)
    (hk : ∀ d, d < 64 → d % k = 0 → d % (2 * k) = 0 ∨ (k ≤ d ∧ (d - k) % (2 * k) = 0)) :
    ∀ i d, d < 64 → d % k = 0 → x.testBit (i + d) = true → (b ||| (b >>> k)).testBit i = true := by
  intro i d hd hm hx
  rw [Nat.testBit_or, Nat.testBit_shiftRight]
  rcases hk d hd hm with h1 | ⟨h1, h2⟩
  · simp [h i d hd h1 hx]
  · have := h (k + i) (d - k) (by omega) h2 (by rw [show k + i + (d - k) = i + d by omega]; exact hx)
    simp [this]

/-- After the six steps bit `i` is set as soon as one of the bits `i … i+63` of `x` is. -/
theorem smear_bits (x : Nat) : ∀ i d, d < 64 → x.testBit (i + d) = true → (smear x).testBit i = true := by
  intro i d hd hx
  unfold smear
  have h0 : ∀ i d, d < 64 → d % (2 * 32) = 0 → x.testBit (i + d) = true → x.testBit i = true := by
    intro i d hd hm hx; have : d = 0 := by omega
    simpa [this] using hx
  have h1 := smear_step x _ 32 h0 (by omega)
  have h2 := smear_step x _ 16 h1 (by omega)
  have h3 := smear_step x _ 8 h2 (by omega)
  have h4 := smear_step x _ 4 h3 (by omega)
  have h5 := smear_step x _ 2 h4 (by omega)
  have h6 := smear_step x _ 1 h5 (by omega)
  exact h6 i d hd (by omega) hx

theorem smear_lt (x n : Nat) (h : x < 2 ^ n) : smear x < 2 ^ n := by
  unfold smear
  have step : ∀ b k, b < 2 ^ n → (b ||| (b >>> k)) < 2 ^ n := fun b k hb =>
    Nat.or_lt_two_pow hb (Nat.lt_of_le_of_lt (Nat.shiftRight_le b k) hb)
  exact step _ _ (step _ _ (step _ _ (step _ _ (step _ _ (step _ _ h)))))

theorem log2_lt_64 (x : Nat) (h0 : x ≠ 0) (h : x < 2 ^ 64) : x.log2 < 64 :=
  (Nat.log2_lt h0).2 h

/-- The first half of `calculate_shifts`: all ones up to the leading bit. -/
theorem smear_eq (x : Nat) (h0 : x ≠ 0) (h : x < 2 ^ 64) : smear x = 2 ^ (x.log2 + 1) - 1 := by
  apply Nat.eq_of_testBit_eq
  intro i
  rw [Nat.testBit_two_pow_sub_one]
  by_cases hi : i < x.log2 + 1
  · have hl := log2_lt_64 x h0 h
    have := smear_bits x i (x.log2 - i) (by omega)
      (by rw [show i + (x.log2 - i) = x.log2 by omega]; exact Nat.testBit_log2 h0)
    simp [this, hi]
  · have h1 : smear x < 2 ^ i := by
      apply Nat.lt_of_lt_of_le (smear_lt x _ Nat.lt_log2_self)
      exact Nat.pow_le_pow_right (by decide) (by omega)
    simp [Nat.testBit_lt_two_pow h1, hi]

/-- What the code computes, in closed form. -/
theorem calculateShifts_eq (x : Nat) (h0 : x ≠ 0) (h : x < 2 ^ 64) :
    calculateShifts x = if 2 ^ x.log2 = x then x.log2 else x.log2 + 1 := by
  have hl := log2_lt_64 x h0 h
  unfold calculateShifts
  simp only [h0, if_false, smear_eq x h0 h, popcount64_ones (x.log2 + 1) (by omega)]
  simp only [Nat.add_sub_cancel, Nat.one_shiftLeft]
  have : 2 ^ x.log2 % M64 = 2 ^ x.log2 := Nat.mod_eq_of_lt (by
    show 2 ^ x.log2 < 2 ^ 64
    exact Nat.pow_lt_pow_right (by decide) hl)
  rw [this]
  split <;> omega

/-- `calculate_shifts(x)` is the least `s` with `x ≤ 2^s`. -/
theorem calculateShifts_bounds (x : Nat) (h0 : x ≠ 0) (h : x < 2 ^ 64) :
    x ≤ 2 ^ calculateShifts x ∧ (calculateShifts x = 0 ∨ 2 ^ (calculateShifts x - 1) < x) := by
  rw [calculateShifts_eq x h0 h]
  have h1 := Nat.log2_self_le h0
  have h2 := @Nat.lt_log2_self x
  split
  · rename_i he
    refine ⟨by omega, ?_⟩
    by_cases hz : x.log2 = 0
    · exact Or.inl hz
    · right
      have : 2 ^ (x.log2 - 1) < 2 ^ x.log2 := Nat.pow_lt_pow_right (by decide) (by omega)
      omega
  · rename_i hne
    refine ⟨by omega, Or.inr ?_⟩
    simp only [Nat.add_sub_cancel]
    omega

theorem calculateShifts_le_64 (x : Nat) (h : x < 2 ^ 64) : calculateShifts x ≤ 64 := by
  by_cases h0 : x = 0
  · simp [calculateShifts, h0]
  · rw [calculateShifts_eq x h0 h]
    have := log2_lt_64 x h0 h
    split <;> omega

/-- The guard `shift > MAX_SHIFTS` rejects exactly the sizes above 2^63. -/
theorem calculateShifts_gt_63 (x : Nat) (h0 : x ≠ 0) (h : x < 2 ^ 64) :
    calculateShifts x > 63 ↔ x > 2 ^ 63 := by
  have hb := calculateShifts_bounds x h0 h
  have hle := calculateShifts_le_64 x h
  constructor
  · intro hs
    have : calculateShifts x = 64 := by omega
    rw [this] at hb
    rcases hb.2 with h1 | h1
    · omega
    · simpa using h1
  · intro hx
    apply Classical.byContradiction
    intro hn
    have : 2 ^ calculateShifts x ≤ 2 ^ 63 := Nat.pow_le_pow_right (by decide) (by omega)
    omega

/-! ### free lists -/

theorem mem_flat {r : Fin 64 → List Ptr} {x : Ptr} : x ∈ flat r ↔ ∃ k, x ∈ r k := by
  simp [flat, List.mem_flatMap, List.mem_finRange]

theorem flat_nil : flat (fun _ => []) = [] := by
  simp [flat]

theorem setClass_same (r : Fin 64 → List Ptr) (k : Fin 64) (v : List Ptr) : setClass r k v k = v := by
  simp [setClass]

theorem setClass_other (r : Fin 64 → List Ptr) (k j : Fin 64) (v : List Ptr) (h : j ≠ k) :
    setClass r k v j = r j := by
  simp [setClass, h]

theorem flatMap_setClass_of_not_mem (r : Fin 64 → List Ptr) (k : Fin 64) (v : List Ptr) :
    ∀ l : List (Fin 64), k ∉ l → l.flatMap (setClass r k v) = l.flatMap r := by
  intro l
  induction l with
  | nil => intro _; rfl
  | cons j l ih =>
    intro h
    have hj : j ≠ k := fun e => h (by simp [e])
    have hl : k ∉ l := fun e => h (by simp [e])
    simp [List.flatMap_cons, setClass_other r k j v hj, ih hl]

theorem flatMap_perm_pop (r : Fin 64 → List Ptr) (k : Fin 64) (x : Ptr) (rest : List Ptr) (hk : r k = x :: rest) :
    ∀ l : List (Fin 64), l.Nodup → k ∈ l → (l.flatMap r).Perm (x :: l.flatMap (setClass r k rest)) := by
  intro l
  induction l with
  | nil => intro _ h; cases h
  | cons j l ih =>
    intro hn hm
    have hjl : j ∉ l := (List.nodup_cons.1 hn).1
    have hnl : l.Nodup := (List.nodup_cons.1 hn).2
    by_cases hj : j = k
    · subst hj
      rw [List.flatMap_cons, List.flatMap_cons, setClass_same, flatMap_setClass_of_not_mem r j rest l hjl, hk]
      exact List.Perm.refl _
    · have hkl : k ∈ l := by
        rcases List.mem_cons.1 hm with h | h
        · exact absurd h.symm hj
        · exact h
      rw [List.flatMap_cons, List.flatMap_cons, setClass_other r k j rest hj]
      exact (List.Perm.append_left (r j) (ih hnl hkl)).trans List.perm_middle

/-- popping the back of class `k` removes exactly that block from the free lists -/
theorem flat_perm_pop (r : Fin 64 → List Ptr) (k : Fin 64) (x : Ptr) (rest : List Ptr) (hk : r k = x :: rest) :
    (flat r).Perm (x :: flat (setClass r k rest)) :=
  flatMap_perm_pop r k x rest hk _ (List.nodup_finRange 64) (List.mem_finRange k)

/-- pushing on class `k` adds exactly that block -/
theorem flat_perm_push (r : Fin 64 → List Ptr) (k : Fin 64) (x : Ptr) :
    (flat (setClass r k (x :: r k))).Perm (x :: flat r) := by
  have h := flat_perm_pop (setClass r k (x :: r k)) k x (r k) (setClass_same _ _ _)
  have e : setClass (setClass r k (x :: r k)) k (r k) = r := by
    funext j
    by_cases hj : j = k
    · subst hj; simp [setClass]
    · simp [setClass, hj]
  rw [e] at h
  exact h

/-! ### the call log -/

/-- every deleter call is for an outstanding pointer, every pointer returned by
the allocator is not outstanding at that moment -/
def Log.wf : Log → Prop
  | [] => True
  | .alloc _ (some p) :: l => p ∉ outstanding l ∧ Log.wf l
  | .alloc _ none :: l => Log.wf l
  | .del p :: l => p ∈ outstanding l ∧ Log.wf l

theorem wf_nodup : ∀ {log : Log}, Log.wf log → (outstanding log).Nodup := by
  intro log
  induction log with
  | nil => intro _; simp [outstanding]
  | cons e l ih =>
    intro h
    cases e with
    | alloc s res =>
      cases res with
      | none => exact ih h
      | some p => exact List.nodup_cons.2 ⟨h.1, ih h.2⟩
    | del p => exact (ih h.2).erase p

/-- the deleter calls of `release_reserved_blocks` for the free blocks `F`, newest first -/
def relLog (F : List Ptr) (log : Log) : Log := (F.map Event.del).reverse ++ log

theorem relLog_cons (f : Ptr) (F : List Ptr) (log : Log) : relLog (f :: F) log = relLog F (.del f :: log) := by
  simp [relLog]

theorem relLog_nil (log : Log) : relLog [] log = log := by simp [relLog]

/-- Releasing the free blocks `F` of a pool: the log stays well formed and exactly `F` leaves the
outstanding pointers. -/
theorem release_ok : ∀ (F S : List Ptr) (log : Log), Log.wf log → (F ++ S).Perm (outstanding log) →
    Log.wf (relLog F log) ∧ S.Perm (outstanding (relLog F log)) := by
  intro F
  induction F with
  | nil => intro S log hw hp; simpa [relLog_nil] using ⟨hw, hp⟩
  | cons f F ih =>
    intro S log hw hp
    rw [relLog_cons]
    have hf : f ∈ outstanding log := hp.subset (by simp)
    have hp' : (F ++ S).Perm (outstanding (.del f :: log)) := by
      have := hp.erase f
      simpa [outstanding] using this
    exact ih S (.del f :: log) ⟨hf, hw⟩ hp'

theorem allocSize_relLog (F : List Ptr) (log : Log) (x : Ptr) : allocSize (relLog F log) x = allocSize log x := by
  induction F generalizing log with
  | nil => simp [relLog_nil]
  | cons f F ih => rw [relLog_cons, ih]; simp [allocSize]

/-! ### case analysis of `allocate` -/

/-- `if (size < minimum_size_) size = minimum_size_;` -/
def effSize (P : MPool) (size : Nat) : Nat := if size < P.minSize then P.minSize else size

/-- The six ways through `MemoryPool::allocate`. -/
inductive AllocStep (ora : Oracle) (P : MPool) (log : Log) (size : Nat) : MPool → Log → MPool.AllocRes → Prop
  | null : size = 0 → AllocStep ora P log size P log .null
  | tooBig : size ≠ 0 → calculateShifts (effSize P size) > 63 → AllocStep ora P log size P log .error
  | reuse (k : Fin 64) (ptr : Ptr) (rest : List Ptr) : size ≠ 0 → k.val = calculateShifts (effSize P size) →
      P.reserved k = ptr :: rest →
      AllocStep ora P log size
        { P with reserved := setClass P.reserved k rest, supplied := MPool.emplace P.supplied ptr k } log
        (.block ptr (2 ^ k.val))
  | fresh (k : Fin 64) (ptr : Ptr) : size ≠ 0 → k.val = calculateShifts (effSize P size) →
      P.reserved k = [] → ora log (2 ^ k.val) = some ptr →
      AllocStep ora P log size
        { P with supplied := MPool.emplace P.supplied ptr k } (.alloc (2 ^ k.val) (some ptr) :: log)
        (.block ptr (2 ^ k.val))
  | retryOk (k : Fin 64) (ptr : Ptr) : size ≠ 0 → k.val = calculateShifts (effSize P size) →
      P.reserved k = [] → ora log (2 ^ k.val) = none →
      ora (relLog (flat P.reserved) (.alloc (2 ^ k.val) none :: log)) (2 ^ k.val) = some ptr →
      AllocStep ora P log size
        { P with reserved := fun _ => [], supplied := MPool.emplace P.supplied ptr k }
        (.alloc (2 ^ k.val) (some ptr) :: relLog (flat P.reserved) (.alloc (2 ^ k.val) none :: log))
        (.block ptr (2 ^ k.val))
  | retryFail (k : Fin 64) : size ≠ 0 → k.val = calculateShifts (effSize P size) →
      P.reserved k = [] → ora log (2 ^ k.val) = none →
      ora (relLog (flat P.reserved) (.alloc (2 ^ k.val) none :: log)) (2 ^ k.val) = none →
      AllocStep ora P log size
        { P with reserved := fun _ => [] }
        (.alloc (2 ^ k.val) none :: relLog (flat P.reserved) (.alloc (2 ^ k.val) none :: log))
        .error

theorem memSize_eq (s : Nat) (h : ¬ s > 63) : (1 <<< s) % M64 = 2 ^ s := by
  rw [Nat.one_shiftLeft]
  apply Nat.mod_eq_of_lt
  show 2 ^ s < 2 ^ 64
  exact Nat.pow_lt_pow_right (by decide) (by omega)

theorem allocate_step (ora : Oracle) (P : MPool) (log : Log) (size : Nat) :
    AllocStep ora P log size (P.allocate ora log size).1 (P.allocate ora log size).2.1
      (P.allocate ora log size).2.2 := by
  unfold MPool.allocate
  by_cases h0 : size = 0
  · simp only [h0, if_true]; exact .null rfl
  · simp only [h0, if_false]
    by_cases hs : calculateShifts (if size < P.minSize then P.minSize else size) > 63
    · simp only [hs, dite_true]
      exact .tooBig h0 hs
    · simp only [hs, dite_false]
      rw [memSize_eq _ hs]
      generalize hk : (⟨calculateShifts (if size < P.minSize then P.minSize else size), by omega⟩ : Fin 64) = k
      have hkv : k.val = calculateShifts (effSize P size) := by rw [← hk]; rfl
      rw [show calculateShifts (if size < P.minSize then P.minSize else size) = k.val from hkv.symm ▸ rfl]
      cases hr : P.reserved k with
      | cons ptr rest => exact .reuse k ptr rest h0 hkv hr
      | nil =>
        simp only []
        cases ho : ora log (2 ^ k.val) with
        | some ptr => exact .fresh k ptr h0 hkv hr ho
        | none =>
          simp only [MPool.releaseReserved]
          cases ho2 : ora (((flat P.reserved).map Event.del).reverse ++ Event.alloc (2 ^ k.val) none :: log) (2 ^ k.val) with
          | some ptr => exact .retryOk k ptr h0 hkv hr ho ho2
          | none => exact .retryFail k h0 hkv hr ho ho2

/-! ### what one `allocate` preserves -/

/-- every block of the pool was obtained from the allocator with the size of its class -/
def SizesOk (P : MPool) (log : Log) : Prop :=
  (∀ k x, x ∈ P.reserved k → allocSize log x = some (2 ^ k.val)) ∧
  (∀ x k, (x, k) ∈ P.supplied → allocSize log x = some (2 ^ k.val))

theorem emplace_of_not_mem (s : List (Ptr × Fin 64)) (p : Ptr) (k : Fin 64) (h : p ∉ s.map (·.1)) :
    MPool.emplace s p k = (p, k) :: s := by
  unfold MPool.emplace
  have : s.any (fun e => e.1 == p) = false := by
    apply Bool.eq_false_iff.2
    intro ha
    rcases List.any_eq_true.1 ha with ⟨e, he, hpe⟩
    exact h (List.mem_map.2 ⟨e, he, by simpa using hpe⟩)
  simp [this]

theorem allocSize_cons_some (m : Nat) (p : Ptr) (l : Log) (x : Ptr) :
    allocSize (.alloc m (some p) :: l) x = if p = x then some m else allocSize l x := rfl

theorem allocSize_cons_none (m : Nat) (l : Log) (x : Ptr) : allocSize (.alloc m none :: l) x = allocSize l x := rfl

theorem mem_keys {P : MPool} {x : Ptr} {k : Fin 64} (h : (x, k) ∈ P.supplied) : x ∈ P.keys :=
  List.mem_map.2 ⟨(x, k), h, rfl⟩

/-- `supplied_` after `allocate`: one more entry exactly when a block is handed out, and that block
was obtained from the allocator with the reported size -/
def KeysAfter (P : MPool) (log' : Log) (P' : MPool) : MPool.AllocRes → Prop
  | .block ptr m => P'.keys = ptr :: P.keys ∧ allocSize log' ptr = some m
  | _ => P'.keys = P.keys

theorem AllocStep.inv {ora : Oracle} {P P' : MPool} {log log' : Log} {size : Nat} {r : MPool.AllocRes}
    (st : AllocStep ora P log size P' log' r) (hf : ora.Fresh) (R : List Ptr) (hw : Log.wf log)
    (hp : (P.owned ++ R).Perm (outstanding log)) (hs : SizesOk P log) :
    Log.wf log' ∧ (P'.owned ++ R).Perm (outstanding log') ∧ SizesOk P' log' ∧
    (∀ x ∈ R, allocSize log' x = allocSize log x) ∧ P'.id = P.id ∧ P'.minSize = P.minSize ∧
    KeysAfter P log' P' r := by
  have hnd : (P.owned ++ R).Nodup := hp.symm.nodup (wf_nodup hw)
  cases st with
  | null h0 => exact ⟨hw, hp, hs, fun _ _ => rfl, rfl, rfl, rfl⟩
  | tooBig h0 h1 => exact ⟨hw, hp, hs, fun _ _ => rfl, rfl, rfl, rfl⟩
  | reuse k ptr rest h0 hk hr =>
    have hpf : ptr ∈ flat P.reserved := mem_flat.2 ⟨k, by simp [hr]⟩
    have hpk : ptr ∉ P.keys := by
      intro hin
      have h1 : (flat P.reserved ++ P.keys).Nodup := (List.nodup_append.1 hnd).1
      exact (List.nodup_append.1 h1).2.2 ptr hpf ptr hin rfl
    have he := emplace_of_not_mem P.supplied ptr k hpk
    refine ⟨hw, ?_, ?_, fun _ _ => rfl, rfl, rfl, ?_, ?_⟩
    · refine List.Perm.trans (List.Perm.append_right R ?_) hp
      show (flat (setClass P.reserved k rest) ++ (MPool.emplace P.supplied ptr k).map (·.1)).Perm (flat P.reserved ++ P.keys)
      rw [he]
      have h1 := flat_perm_pop P.reserved k ptr rest hr
      exact (List.perm_middle).trans ((List.Perm.append_right P.keys h1).symm)
    · constructor
      · intro j x hx
        replace hx : x ∈ setClass P.reserved k rest j := hx
        apply hs.1 j x
        by_cases hj : j = k
        · subst hj; rw [setClass_same] at hx; rw [hr]; exact List.mem_cons_of_mem _ hx
        · rw [setClass_other _ _ _ _ hj] at hx; exact hx
      · intro x j hx
        show allocSize log x = _
        rw [show ({ P with reserved := setClass P.reserved k rest, supplied := MPool.emplace P.supplied ptr k } : MPool).supplied = (ptr, k) :: P.supplied from he] at hx
        rcases List.mem_cons.1 hx with h | h
        · cases h; exact hs.1 k ptr (by simp [hr])
        · exact hs.2 x j h
    · show (MPool.emplace P.supplied ptr k).map (·.1) = ptr :: P.keys
      rw [he]; rfl
    · exact hs.1 k ptr (by simp [hr])
  | fresh k ptr h0 hk hr ho =>
    have hfr : ptr ∉ outstanding log := hf log _ ptr ho
    have hno : ptr ∉ P.owned ++ R := fun h => hfr (hp.subset h)
    have hpk : ptr ∉ P.keys := fun h => hno (by simp [MPool.owned, h])
    have he := emplace_of_not_mem P.supplied ptr k hpk
    have hne : ∀ x, x ∈ P.owned ++ R → ptr ≠ x := fun x hx e => hno (e ▸ hx)
    refine ⟨⟨hfr, hw⟩, ?_, ?_, ?_, rfl, rfl, ?_, ?_⟩
    · show (flat P.reserved ++ (MPool.emplace P.supplied ptr k).map (·.1) ++ R).Perm (ptr :: outstanding log)
      rw [he]
      refine List.Perm.trans ?_ (List.Perm.cons ptr hp)
      show (flat P.reserved ++ (ptr :: P.keys) ++ R).Perm (ptr :: (flat P.reserved ++ P.keys ++ R))
      rw [List.append_assoc, List.append_assoc]
      exact List.perm_middle
    · constructor
      · intro j x hx
        rw [allocSize_cons_some, if_neg (hne x (by simp [MPool.owned, mem_flat.2 ⟨j, hx⟩]))]
        exact hs.1 j x hx
      · intro x j hx
        rw [show ({ P with supplied := MPool.emplace P.supplied ptr k } : MPool).supplied = (ptr, k) :: P.supplied from he] at hx
        rcases List.mem_cons.1 hx with h | h
        · cases h; simp [allocSize_cons_some]
        · rw [allocSize_cons_some, if_neg (hne x (by simp [MPool.owned, mem_keys h]))]
          exact hs.2 x j h
    · intro x hx
      rw [allocSize_cons_some, if_neg (hne x (by simp [hx]))]
    · show (MPool.emplace P.supplied ptr k).map (·.1) = ptr :: P.keys
      rw [he]; rfl
    · simp [allocSize_cons_some]
  | retryOk k ptr h0 hk hr ho ho2 =>
    have hp0 : (flat P.reserved ++ (P.keys ++ R)).Perm (outstanding (.alloc (2 ^ k.val) none :: log)) := by
      simpa [MPool.owned, outstanding, List.append_assoc] using hp
    obtain ⟨hw1, hp1⟩ := release_ok (flat P.reserved) (P.keys ++ R) (.alloc (2 ^ k.val) none :: log) hw hp0
    have hfr : ptr ∉ outstanding (relLog (flat P.reserved) (.alloc (2 ^ k.val) none :: log)) := hf _ _ ptr ho2
    have hno : ptr ∉ P.keys ++ R := fun h => hfr (hp1.subset h)
    have hpk : ptr ∉ P.keys := fun h => hno (by simp [h])
    have he := emplace_of_not_mem P.supplied ptr k hpk
    have hne : ∀ x, x ∈ P.keys ++ R → ptr ≠ x := fun x hx e => hno (e ▸ hx)
    refine ⟨⟨hfr, hw1⟩, ?_, ?_, ?_, rfl, rfl, ?_, ?_⟩
    · show (flat (fun _ => []) ++ (MPool.emplace P.supplied ptr k).map (·.1) ++ R).Perm (ptr :: outstanding _)
      rw [he, flat_nil]
      exact List.Perm.cons ptr hp1
    · constructor
      · intro j x hx; cases hx
      · intro x j hx
        rw [show ({ P with reserved := fun _ => [], supplied := MPool.emplace P.supplied ptr k } : MPool).supplied = (ptr, k) :: P.supplied from he] at hx
        rcases List.mem_cons.1 hx with h | h
        · cases h; simp [allocSize_cons_some]
        · rw [allocSize_cons_some, if_neg (hne x (by simp [mem_keys h])), allocSize_relLog, allocSize_cons_none]
          exact hs.2 x j h
    · intro x hx
      rw [allocSize_cons_some, if_neg (hne x (by simp [hx])), allocSize_relLog, allocSize_cons_none]
    · show (MPool.emplace P.supplied ptr k).map (·.1) = ptr :: P.keys
      rw [he]; rfl
    · simp [allocSize_cons_some]
  | retryFail k h0 hk hr ho ho2 =>
    have hp0 : (flat P.reserved ++ (P.keys ++ R)).Perm (outstanding (.alloc (2 ^ k.val) none :: log)) := by
      simpa [MPool.owned, outstanding, List.append_assoc] using hp
    obtain ⟨hw1, hp1⟩ := release_ok (flat P.reserved) (P.keys ++ R) (.alloc (2 ^ k.val) none :: log) hw hp0
    refine ⟨hw1, ?_, ?_, ?_, rfl, rfl, rfl⟩
    · show (flat (fun _ => []) ++ P.keys ++ R).Perm (outstanding _)
      rw [flat_nil]
      exact hp1
    · constructor
      · intro j x hx; cases hx
      · intro x j hx
        rw [allocSize_cons_none, allocSize_relLog, allocSize_cons_none]
        exact hs.2 x j hx
    · intro x hx
      rw [allocSize_cons_none, allocSize_relLog, allocSize_cons_none]

/-! ### `free` and the destructor -/

theorem keys_eraseP (s : List (Ptr × Fin 64)) (p : Ptr) :
    (s.eraseP (·.1 == p)).map (·.1) = (s.map (·.1)).erase p := by
  induction s with
  | nil => rfl
  | cons e s ih =>
    by_cases h : e.1 = p
    · simp [h]
    · have h' : (e.1 == p) = false := by simpa using h
      simp only [List.eraseP_cons, h', cond_false, List.map_cons]
      rw [List.erase_cons_tail (by simpa using h), ih]

theorem free_of_mem {P : MPool} {ptr : Ptr} (h : ptr ∈ P.keys) :
    ∃ k, (ptr, k) ∈ P.supplied ∧
      P.free ptr = some { P with reserved := setClass P.reserved k (ptr :: P.reserved k),
                                 supplied := P.supplied.eraseP (·.1 == ptr) } := by
  unfold MPool.free
  cases hf : P.supplied.find? (·.1 == ptr) with
  | none =>
    exfalso
    rcases List.mem_map.1 h with ⟨e, he, hpe⟩
    have := List.find?_eq_none.1 hf e he
    simp [hpe] at this
  | some e =>
    obtain ⟨x, k⟩ := e
    have hx : x = ptr := by simpa using List.find?_some hf
    subst hx
    exact ⟨k, List.mem_of_find?_eq_some hf, rfl⟩

theorem free_of_not_mem {P : MPool} {ptr : Ptr} (h : ptr ∉ P.keys) : P.free ptr = none := by
  unfold MPool.free
  cases hf : P.supplied.find? (·.1 == ptr) with
  | none => rfl
  | some e =>
    exfalso
    apply h
    have hx : e.1 = ptr := by simpa using List.find?_some hf
    exact List.mem_map.2 ⟨e, List.mem_of_find?_eq_some hf, hx⟩

/-- `free` moves one block from `supplied_` to the free list of its class. -/
theorem free_inv {P P' : MPool} {ptr : Ptr} {log : Log} (hfree : P.free ptr = some P') (hs : SizesOk P log) :
    P'.owned.Perm P.owned ∧ SizesOk P' log ∧ P'.id = P.id ∧ P'.minSize = P.minSize ∧
    P'.keys = P.keys.erase ptr ∧ ptr ∈ P.keys := by
  have hmem : ptr ∈ P.keys := by
    apply Classical.byContradiction
    intro hn
    rw [free_of_not_mem hn] at hfree
    cases hfree
  obtain ⟨k, hk, he⟩ := free_of_mem hmem
  rw [he] at hfree
  cases hfree
  have hkeys : ({ P with reserved := setClass P.reserved k (ptr :: P.reserved k),
                         supplied := P.supplied.eraseP (·.1 == ptr) } : MPool).keys = P.keys.erase ptr :=
    keys_eraseP P.supplied ptr
  refine ⟨?_, ?_, rfl, rfl, hkeys, hmem⟩
  · show (flat (setClass P.reserved k (ptr :: P.reserved k)) ++ MPool.keys _).Perm (flat P.reserved ++ P.keys)
    rw [hkeys]
    have h1 := flat_perm_push P.reserved k ptr
    have h2 : P.keys.Perm (ptr :: P.keys.erase ptr) := List.perm_cons_erase hmem
    exact ((List.Perm.append_right _ h1).trans List.perm_middle.symm).trans (List.Perm.append_left _ h2.symm)
  · constructor
    · intro j x hx
      replace hx : x ∈ setClass P.reserved k (ptr :: P.reserved k) j := hx
      by_cases hj : j = k
      · subst hj
        rw [setClass_same] at hx
        rcases List.mem_cons.1 hx with h | h
        · subst h; exact hs.2 x j hk
        · exact hs.1 j x h
      · rw [setClass_other _ _ _ _ hj] at hx; exact hs.1 j x hx
    · intro x j hx
      exact hs.2 x j ((List.eraseP_sublist).subset hx)

theorem flat_drain (s : List (Ptr × Fin 64)) : ∀ r : Fin 64 → List Ptr,
    (flat (MPool.drain r s)).Perm (s.map (·.1) ++ flat r) := by
  induction s with
  | nil => intro r; exact List.Perm.refl _
  | cons e s ih =>
    intro r
    obtain ⟨x, k⟩ := e
    show (flat (MPool.drain (setClass r k (x :: r k)) s)).Perm (x :: (s.map (·.1) ++ flat r))
    exact (ih _).trans ((List.Perm.append_left _ (flat_perm_push r k x)).trans List.perm_middle)

/-- The destructor passes exactly the blocks the pool owns to the deleter. -/
theorem destroy_inv (P : MPool) (log : Log) (R : List Ptr) (hw : Log.wf log)
    (hp : (P.owned ++ R).Perm (outstanding log)) :
    Log.wf (P.destroy log).2 ∧ R.Perm (outstanding (P.destroy log).2) ∧
    (∀ x, allocSize (P.destroy log).2 x = allocSize log x) ∧
    ∃ F, F.Perm P.owned ∧ (P.destroy log).2 = relLog F log := by
  have hF : (flat (MPool.drain P.reserved P.supplied)).Perm P.owned :=
    (flat_drain P.supplied P.reserved).trans List.perm_append_comm
  have hd : (P.destroy log).2 = relLog (flat (MPool.drain P.reserved P.supplied)) log := rfl
  rw [hd]
  obtain ⟨h1, h2⟩ := release_ok _ R log hw ((List.Perm.append_right R hF).trans hp)
  exact ⟨h1, h2, fun x => allocSize_relLog _ _ x, _, hF, rfl⟩

/-! ### the registry -/

theorem find_split {α : Type} (key : α → Nat) (pid : Nat) : ∀ (l : List α) (P : α), (l.map key).Nodup →
    l.find? (key · == pid) = some P → l.Perm (P :: l.filter (key · != pid)) := by
  intro l
  induction l with
  | nil => intro P _ h; cases h
  | cons Q l ih =>
    intro P hn hf
    have hQl : key Q ∉ l.map key := (List.nodup_cons.1 hn).1
    have hnl : (l.map key).Nodup := (List.nodup_cons.1 hn).2
    by_cases hq : key Q = pid
    · have : P = Q := by
        rw [List.find?_cons] at hf
        simp [hq] at hf
        exact hf.symm
      subst this
      have hall : l.filter (key · != pid) = l := by
        apply List.filter_eq_self.2
        intro a ha
        have : key a ≠ pid := fun e => hQl (List.mem_map.2 ⟨a, ha, by rw [e, hq]⟩)
        simpa using this
      rw [List.filter_cons]
      simp [hq, hall]
    · have hq' : (key Q == pid) = false := by simpa using hq
      rw [List.find?_cons, hq'] at hf
      have h1 := ih P hnl hf
      rw [List.filter_cons]
      have : (key Q != pid) = true := by simpa using hq
      simp only [this, if_true]
      exact (List.Perm.cons Q h1).trans (List.Perm.swap P Q _)

theorem findPool_id {w : World} {pid : Nat} {P : MPool} (h : w.findPool pid = some P) : P.id = pid := by
  simpa using List.find?_some h

theorem findPool_mem {w : World} {pid : Nat} {P : MPool} (h : w.findPool pid = some P) : P ∈ w.pools :=
  List.mem_of_find?_eq_some h

theorem mem_others {w : World} {pid : Nat} {Q : MPool} : Q ∈ w.others pid ↔ Q ∈ w.pools ∧ Q.id ≠ pid := by
  simp [World.others, List.mem_filter]

/-! ### the invariant of the world -/

def ownedAll (w : World) : List Ptr := w.pools.flatMap MPool.owned

/-- the pointers of the live handles whose deleter names pool `i` -/
def hptrs (hs : List (Nat × Handle)) (i : Nat) : List Ptr := (hs.filter (·.2.pool == i)).map (·.2.ptr)

structure WInv (w : World) : Prop where
  /-- the call log is well formed -/
  wf : Log.wf w.log
  /-- the blocks owned by the live pools are exactly the outstanding pointers -/
  perm : (ownedAll w).Perm (outstanding w.log)
  ids : (w.pools.map (·.id)).Nodup
  idlt : ∀ P ∈ w.pools, P.id < w.nextId
  hlt : ∀ h ∈ w.handles, h.2.pool < w.nextId
  hnames : (w.handles.map (·.1)).Nodup
  /-- the supplied blocks of a live pool are exactly the blocks its live handles refer to -/
  hperm : ∀ P ∈ w.pools, (hptrs w.handles P.id).Perm P.keys
  sizes : ∀ P ∈ w.pools, SizesOk P w.log

theorem WInv.init : WInv World.init where
  wf := trivial
  perm := List.Perm.refl _
  ids := List.nodup_nil
  idlt := fun _ h => nomatch h
  hlt := fun _ h => nomatch h
  hnames := List.nodup_nil
  hperm := fun _ h => nomatch h
  sizes := fun _ h => nomatch h

theorem hptrs_cons (n : Nat) (h : Handle) (hs : List (Nat × Handle)) (i : Nat) :
    hptrs ((n, h) :: hs) i = if h.pool = i then h.ptr :: hptrs hs i else hptrs hs i := by
  unfold hptrs
  rw [List.filter_cons]
  by_cases e : h.pool = i <;> simp [e]

theorem hptrs_of_lt (hs : List (Nat × Handle)) (i : Nat) (h : ∀ x ∈ hs, x.2.pool < i) : hptrs hs i = [] := by
  unfold hptrs
  rw [List.filter_eq_nil_iff.2]
  · rfl
  · intro a ha
    have := h a ha
    have : a.2.pool ≠ i := by omega
    simpa using this

/-- splitting the registry at a live pool -/
theorem WInv.split {w : World} (hi : WInv w) {pid : Nat} {P : MPool} (hf : w.findPool pid = some P) :
    w.pools.Perm (P :: w.others pid) ∧ (ownedAll w).Perm (P.owned ++ (w.others pid).flatMap MPool.owned) :=
  have h := find_split (fun Q : MPool => Q.id) pid w.pools P hi.ids hf
  ⟨h, by simpa [ownedAll, World.others] using List.Perm.flatMap_right MPool.owned h⟩

theorem mem_owned_others {w : World} {pid : Nat} {Q : MPool} (hQ : Q ∈ w.others pid) {x : Ptr} (hx : x ∈ Q.owned) :
    x ∈ (w.others pid).flatMap MPool.owned := List.mem_flatMap.2 ⟨Q, hQ, hx⟩

theorem sizesOk_congr {Q : MPool} {log log' : Log} (hs : SizesOk Q log)
    (h : ∀ x ∈ Q.owned, allocSize log' x = allocSize log x) : SizesOk Q log' :=
  ⟨fun k x hx => by rw [h x (by simp [MPool.owned, mem_flat.2 ⟨k, hx⟩])]; exact hs.1 k x hx,
   fun x k hx => by rw [h x (by simp [MPool.owned, mem_keys hx])]; exact hs.2 x k hx⟩

/-- the part of the invariant that does not depend on which branch `allocate` took -/
theorem ids_replace {w : World} (hi : WInv w) {pid : Nat} {P P' : MPool} (hf : w.findPool pid = some P)
    (hid : P'.id = P.id) :
    ((P' :: w.others pid).map (·.id)).Nodup ∧ ∀ Q ∈ P' :: w.others pid, Q.id < w.nextId := by
  have hsp := (hi.split hf).1
  constructor
  · have : ((P :: w.others pid).map (·.id)).Nodup := (hsp.map (·.id)).nodup hi.ids
    simpa [hid] using this
  · intro Q hQ
    rcases List.mem_cons.1 hQ with h | h
    · subst h; rw [hid]; exact hi.idlt P (findPool_mem hf)
    · exact hi.idlt Q (mem_others.1 h).1

/-! ### every client call preserves the invariant -/

theorem WInv.create {w : World} (hi : WInv w) (ora : Oracle) (m : Nat) : WInv (w.step ora (.create m)).1 := by
  show WInv { w with nextId := w.nextId + 1, pools := MPool.new w.nextId m :: w.pools }
  refine { wf := hi.wf, perm := ?_, ids := ?_, idlt := ?_, hlt := ?_, hnames := hi.hnames, hperm := ?_, sizes := ?_ }
  · have : ownedAll { w with nextId := w.nextId + 1, pools := MPool.new w.nextId m :: w.pools } = ownedAll w := by
      simp [ownedAll, MPool.owned, MPool.new, flat_nil, MPool.keys]
    rw [this]; exact hi.perm
  · show ((MPool.new w.nextId m :: w.pools).map (·.id)).Nodup
    rw [List.map_cons]
    refine List.nodup_cons.2 ⟨?_, hi.ids⟩
    intro hm
    rcases List.mem_map.1 hm with ⟨Q, hQ, hq⟩
    have := hi.idlt Q hQ
    have : Q.id = w.nextId := hq
    omega
  · intro Q hQ
    show Q.id < w.nextId + 1
    rcases List.mem_cons.1 hQ with h | h
    · subst h; exact Nat.lt_succ_self _
    · exact Nat.lt_succ_of_lt (hi.idlt Q h)
  · intro h hh
    exact Nat.lt_succ_of_lt (hi.hlt h hh)
  · intro Q hQ
    rcases List.mem_cons.1 hQ with h | h
    · subst h
      show (hptrs w.handles w.nextId).Perm []
      rw [hptrs_of_lt w.handles w.nextId hi.hlt]
    · exact hi.hperm Q h
  · intro Q hQ
    rcases List.mem_cons.1 hQ with h | h
    · subst h
      exact ⟨fun _ _ hx => (nomatch hx), fun _ _ hx => (nomatch hx)⟩
    · exact hi.sizes Q h

/-- the world after `allocate` on the pool `pid` returned: new pool state, new log, and the new
handle when a block was handed out -/
def allocWorld (w : World) (pid name : Nat) (P' : MPool) (log' : Log) : MPool.AllocRes → World
  | .block ptr _ => { w with pools := P' :: w.others pid, log := log', handles := (name, ⟨ptr, pid⟩) :: w.handles }
  | _ => { w with pools := P' :: w.others pid, log := log' }

/-- The world after `allocate` on the live pool `P` took the step `st`. -/
theorem WInv.alloc_core {w : World} (hi : WInv w) {ora : Oracle} (hf : ora.Fresh) {pid name size : Nat} {P P' : MPool}
    {log' : Log} {r : MPool.AllocRes} (hfind : w.findPool pid = some P)
    (hname : w.handles.any (·.1 == name) = false)
    (st : AllocStep ora P w.log size P' log' r) :
    WInv (allocWorld w pid name P' log' r) := by
  obtain ⟨hsp, hown⟩ := hi.split hfind
  have hP := findPool_mem hfind
  obtain ⟨hwf, hperm, hsz, hR, hid, _, hkeys⟩ :=
    st.inv hf ((w.others pid).flatMap MPool.owned) hi.wf (hown.symm.trans hi.perm) (hi.sizes P hP)
  obtain ⟨hids, hidlt⟩ := ids_replace hi hfind hid
  have hPid := findPool_id hfind
  have hsizes : ∀ Q ∈ P' :: w.others pid, SizesOk Q log' := by
    intro Q hQ
    rcases List.mem_cons.1 hQ with h | h
    · subst h; exact hsz
    · exact sizesOk_congr (hi.sizes Q (mem_others.1 h).1) (fun x hx => hR x (mem_owned_others h hx))
  have hpermAll : ∀ hs, (ownedAll { w with pools := P' :: w.others pid, log := log', handles := hs }).Perm (outstanding log') := by
    intro hs; simpa [ownedAll] using hperm
  cases r with
  | null =>
    exact { wf := hwf, perm := hpermAll _, ids := hids, idlt := hidlt, hlt := hi.hlt, hnames := hi.hnames,
            sizes := hsizes,
            hperm := by
              intro Q hQ
              rcases List.mem_cons.1 hQ with h | h
              · subst h; rw [hid]; exact (hi.hperm P hP).trans (by rw [show Q.keys = P.keys from hkeys])
              · exact hi.hperm Q (mem_others.1 h).1 }
  | error =>
    exact { wf := hwf, perm := hpermAll _, ids := hids, idlt := hidlt, hlt := hi.hlt, hnames := hi.hnames,
            sizes := hsizes,
            hperm := by
              intro Q hQ
              rcases List.mem_cons.1 hQ with h | h
              · subst h; rw [hid]; exact (hi.hperm P hP).trans (by rw [show Q.keys = P.keys from hkeys])
              · exact hi.hperm Q (mem_others.1 h).1 }
  | block ptr m =>
    replace hkeys : P'.keys = ptr :: P.keys ∧ allocSize log' ptr = some m := hkeys
    refine { wf := hwf, perm := hpermAll _, ids := hids, idlt := hidlt, hlt := ?_, hnames := ?_,
             sizes := hsizes, hperm := ?_ }
    · intro h hh
      rcases List.mem_cons.1 hh with e | e
      · subst e; exact hPid ▸ hi.idlt P hP
      · exact hi.hlt h e
    · show (((name, (⟨ptr, pid⟩ : Handle)) :: w.handles).map (·.1)).Nodup
      rw [List.map_cons]
      refine List.nodup_cons.2 ⟨?_, hi.hnames⟩
      intro hm
      rcases List.mem_map.1 hm with ⟨e, he, hen⟩
      have : w.handles.any (·.1 == name) = true := List.any_eq_true.2 ⟨e, he, by simpa using hen⟩
      rw [hname] at this; cases this
    · intro Q hQ
      show (hptrs ((name, (⟨ptr, pid⟩ : Handle)) :: w.handles) Q.id).Perm Q.keys
      rw [hptrs_cons]
      rcases List.mem_cons.1 hQ with h | h
      · subst h
        simp only [hid, hPid, if_true]
        rw [hkeys.1, ← hPid]
        exact List.Perm.cons ptr (hi.hperm P hP)
      · have : pid ≠ Q.id := fun e => (mem_others.1 h).2 e.symm
        simp only [this, if_false]
        exact hi.hperm Q (mem_others.1 h).1

/-- what `World.step` does for `alloc` on a live pool with an unused handle name -/
theorem step_alloc_eq {w : World} {ora : Oracle} {pid name size : Nat} {P : MPool}
    (hfind : w.findPool pid = some P) (hname : w.handles.any (·.1 == name) = false) :
    (w.step ora (.alloc pid name size)).1 =
      allocWorld w pid name (P.allocate ora w.log size).1 (P.allocate ora w.log size).2.1
        (P.allocate ora w.log size).2.2 := by
  unfold World.step
  simp only [hfind, hname]
  have hid := findPool_id hfind
  rcases P.allocate ora w.log size with ⟨P', log', r⟩
  cases r <;> simp [allocWorld, hid]

theorem WInv.alloc {w : World} (hi : WInv w) {ora : Oracle} (hf : ora.Fresh) (pid name size : Nat) :
    WInv (w.step ora (.alloc pid name size)).1 := by
  cases hfind : w.findPool pid with
  | none => simpa [World.step, hfind] using hi
  | some P =>
    cases hname : w.handles.any (·.1 == name) with
    | true => simpa [World.step, hfind, hname] using hi
    | false =>
      rw [step_alloc_eq hfind hname]
      exact hi.alloc_core hf hfind hname (allocate_step ora P w.log size)

theorem findHandle_mem {w : World} {name : Nat} {h : Handle} (hf : w.findHandle name = some h) :
    w.handles.find? (·.1 == name) = some (name, h) := by
  unfold World.findHandle at hf
  cases he : w.handles.find? (·.1 == name) with
  | none => rw [he] at hf; cases hf
  | some e =>
    rw [he] at hf
    have h1 : e.1 = name := by simpa using List.find?_some he
    have h2 : e.2 = h := by simpa using hf
    rw [← h1, ← h2]

/-- removing the handle `name` removes exactly its pointer from the pointers of its pool -/
theorem hptrs_drop {w : World} (hi : WInv w) {name : Nat} {h : Handle} (hf : w.findHandle name = some h) (i : Nat) :
    (hptrs w.handles i).Perm
      (if h.pool = i then h.ptr :: hptrs (w.handles.filter (·.1 != name)) i
       else hptrs (w.handles.filter (·.1 != name)) i) := by
  have hsp := find_split (fun e : Nat × Handle => e.1) name w.handles (name, h) hi.hnames (findHandle_mem hf)
  have := (hsp.filter (·.2.pool == i)).map (·.2.ptr)
  rw [← hptrs_cons]
  exact this

theorem WInv.drop {w : World} (hi : WInv w) (ora : Oracle) (name : Nat) : WInv (w.step ora (.drop name)).1 := by
  cases hfh : w.findHandle name with
  | none => simpa [World.step, hfh] using hi
  | some h =>
    have hsub : (w.handles.filter (·.1 != name)).Sublist w.handles := List.filter_sublist
    have hnames' : ((w.handles.filter (·.1 != name)).map (·.1)).Nodup := hi.hnames.sublist (hsub.map _)
    have hlt' : ∀ e ∈ w.handles.filter (·.1 != name), e.2.pool < w.nextId := fun e he => hi.hlt e (hsub.subset he)
    -- pools other than the handle's keep their handles
    have hother : ∀ Q ∈ w.pools, Q.id ≠ h.pool → (hptrs (w.handles.filter (·.1 != name)) Q.id).Perm Q.keys := by
      intro Q hQ hne
      have := hptrs_drop hi hfh Q.id
      rw [if_neg (fun e => hne e.symm)] at this
      exact this.symm.trans (hi.hperm Q hQ)
    cases hfind : w.findPool h.pool with
    | none =>
      have : (w.step ora (.drop name)).1 = { w with handles := w.handles.filter (·.1 != name) } := by
        simp [World.step, hfh, hfind]
      rw [this]
      exact { wf := hi.wf, perm := hi.perm, ids := hi.ids, idlt := hi.idlt, hlt := hlt', hnames := hnames',
              sizes := hi.sizes,
              hperm := fun Q hQ => hother Q hQ (fun e => by
                have := List.find?_eq_none.1 hfind Q hQ
                simp [e] at this) }
    | some P =>
      have hP := findPool_mem hfind
      have hPid := findPool_id hfind
      have hd := hptrs_drop hi hfh P.id
      rw [if_pos hPid.symm] at hd
      have hmem : h.ptr ∈ P.keys := (hi.hperm P hP).subset (hd.symm.subset (by simp))
      cases hfree : P.free h.ptr with
      | none =>
        obtain ⟨k, _, he⟩ := free_of_mem hmem
        rw [he] at hfree; cases hfree
      | some P' =>
        have : (w.step ora (.drop name)).1 =
            { w with handles := w.handles.filter (·.1 != name), pools := P' :: w.others h.pool } := by
          simp [World.step, hfh, hfind, hfree]
        rw [this]
        obtain ⟨hown', hsz, hid, _, hkeys, _⟩ := free_inv hfree (hi.sizes P hP)
        obtain ⟨hsp, hown⟩ := hi.split hfind
        obtain ⟨hids, hidlt⟩ := ids_replace hi hfind hid
        refine { wf := hi.wf, perm := ?_, ids := hids, idlt := hidlt, hlt := hlt', hnames := hnames',
                 sizes := ?_, hperm := ?_ }
        · show (P'.owned ++ (w.others h.pool).flatMap MPool.owned).Perm (outstanding w.log)
          exact ((List.Perm.append_right _ hown').trans hown.symm).trans hi.perm
        · intro Q hQ
          rcases List.mem_cons.1 hQ with e | e
          · subst e
            show (hptrs (w.handles.filter (·.1 != name)) Q.id).Perm Q.keys
            rw [hid, hkeys]
            have h1 : (h.ptr :: hptrs (w.handles.filter (·.1 != name)) P.id).Perm (h.ptr :: P.keys.erase h.ptr) :=
              (hd.symm.trans (hi.hperm P hP)).trans (List.perm_cons_erase hmem)
            exact h1.cons_inv
          · exact hother Q (mem_others.1 e).1 (mem_others.1 e).2
        · intro Q hQ
          rcases List.mem_cons.1 hQ with e | e
          · subst e; exact hsz
          · exact hi.sizes Q (mem_others.1 e).1

theorem WInv.destroy {w : World} (hi : WInv w) (ora : Oracle) (pid : Nat) : WInv (w.step ora (.destroy pid)).1 := by
  cases hfind : w.findPool pid with
  | none => simpa [World.step, hfind] using hi
  | some P =>
    have : (w.step ora (.destroy pid)).1 = { w with pools := w.others pid, log := (P.destroy w.log).2 } := by
      simp [World.step, hfind]
    rw [this]
    obtain ⟨hsp, hown⟩ := hi.split hfind
    obtain ⟨hwf, hperm, hsame, _⟩ := destroy_inv P w.log _ hi.wf (hown.symm.trans hi.perm)
    have hsub : (w.others pid).Sublist w.pools := List.filter_sublist
    exact { wf := hwf, perm := hperm, ids := hi.ids.sublist (hsub.map _),
            idlt := fun Q hQ => hi.idlt Q (hsub.subset hQ), hlt := hi.hlt, hnames := hi.hnames,
            hperm := fun Q hQ => hi.hperm Q (hsub.subset hQ),
            sizes := fun Q hQ => sizesOk_congr (hi.sizes Q (hsub.subset hQ)) (fun x _ => hsame x) }

/-- The invariant is preserved by every client call, whatever a fresh allocator answers. -/
theorem WInv.step {w : World} (hi : WInv w) {ora : Oracle} (hf : ora.Fresh) (op : Op) : WInv (w.step ora op).1 := by
  cases op with
  | create m => exact hi.create ora m
  | alloc pid name size => exact hi.alloc hf pid name size
  | drop name => exact hi.drop ora name
  | destroy pid => exact hi.destroy ora pid

theorem WInv.runFrom {w : World} (hi : WInv w) : ∀ (h : History), h.Fresh → WInv (runFrom w h) := by
  intro h
  induction h generalizing w with
  | nil => intro _; exact hi
  | cons s h ih =>
    intro hf
    exact ih (hi.step (hf s (by simp)) s.2) (fun t ht => hf t (by simp [ht]))

theorem WInv.run (h : History) (hf : h.Fresh) : WInv (run h) := WInv.init.runFrom h hf

/-! ### `allocate` as a function of the class -/

theorem allocate_null (ora : Oracle) (P : MPool) (log : Log) : P.allocate ora log 0 = (P, log, .null) := by
  simp [MPool.allocate]

theorem allocate_tooBig (ora : Oracle) (P : MPool) (log : Log) (size : Nat) (h0 : size ≠ 0)
    (h : calculateShifts (effSize P size) > 63) : P.allocate ora log size = (P, log, .error) := by
  unfold effSize at h
  simp [MPool.allocate, h0, h]

theorem allocate_eq (ora : Oracle) (P : MPool) (log : Log) (size : Nat) (h0 : size ≠ 0) (k : Fin 64)
    (hk : k.val = calculateShifts (effSize P size)) :
    P.allocate ora log size =
      match P.reserved k with
      | ptr :: rest =>
        ({ P with reserved := setClass P.reserved k rest, supplied := MPool.emplace P.supplied ptr k }, log,
          .block ptr (2 ^ k.val))
      | [] =>
        match ora log (2 ^ k.val) with
        | some ptr =>
          ({ P with supplied := MPool.emplace P.supplied ptr k }, .alloc (2 ^ k.val) (some ptr) :: log,
            .block ptr (2 ^ k.val))
        | none =>
          match ora (relLog (flat P.reserved) (.alloc (2 ^ k.val) none :: log)) (2 ^ k.val) with
          | some ptr =>
            ({ P with reserved := fun _ => [], supplied := MPool.emplace P.supplied ptr k },
              .alloc (2 ^ k.val) (some ptr) :: relLog (flat P.reserved) (.alloc (2 ^ k.val) none :: log),
              .block ptr (2 ^ k.val))
          | none =>
            ({ P with reserved := fun _ => [] },
              .alloc (2 ^ k.val) none :: relLog (flat P.reserved) (.alloc (2 ^ k.val) none :: log), .error) := by
  have hs : ¬ calculateShifts (if size < P.minSize then P.minSize else size) > 63 := by
    have := k.isLt
    unfold effSize at hk
    omega
  have hkk : (⟨calculateShifts (if size < P.minSize then P.minSize else size), by omega⟩ : Fin 64) = k :=
    Fin.ext (by rw [hk]; rfl)
  unfold MPool.allocate
  simp only [h0, if_false, hs, dite_false]
  rw [memSize_eq _ hs, hkk, show calculateShifts (if size < P.minSize then P.minSize else size) = k.val from hk.symm ▸ rfl]
  cases hr : P.reserved k with
  | cons ptr rest => rfl
  | nil =>
    simp only []
    cases ho : ora log (2 ^ k.val) with
    | some ptr => rfl
    | none =>
      simp only [MPool.releaseReserved, relLog]
      cases ho2 : ora (((flat P.reserved).map Event.del).reverse ++ Event.alloc (2 ^ k.val) none :: log) (2 ^ k.val) <;> rfl

theorem allocate_id (ora : Oracle) (P : MPool) (log : Log) (size : Nat) : (P.allocate ora log size).1.id = P.id := by
  have st := allocate_step ora P log size
  generalize (P.allocate ora log size).1 = P' at st
  generalize (P.allocate ora log size).2.1 = l' at st
  generalize (P.allocate ora log size).2.2 = r at st
  cases st <;> rfl

/-! ### counting allocator and deleter calls -/

/-- how often the allocator returned `p` -/
def allocCount (p : Ptr) : Log → Nat
  | [] => 0
  | .alloc _ (some q) :: l => (if q = p then 1 else 0) + allocCount p l
  | .alloc _ none :: l => allocCount p l
  | .del _ :: l => allocCount p l

/-- how often `p` was passed to the deleter -/
def delCount (p : Ptr) : Log → Nat
  | [] => 0
  | .alloc _ _ :: l => delCount p l
  | .del q :: l => (if q = p then 1 else 0) + delCount p l

/-- In a well-formed log every pointer was deleted as often as it was allocated, except that an
outstanding pointer has one allocation more. -/
theorem wf_count (p : Ptr) : ∀ {log : Log}, Log.wf log →
    allocCount p log = delCount p log + (outstanding log).count p := by
  intro log
  induction log with
  | nil => intro _; rfl
  | cons e l ih =>
    intro hw
    cases e with
    | alloc s res =>
      cases res with
      | none => exact ih hw
      | some q =>
        have := ih hw.2
        simp only [allocCount, delCount, outstanding, List.count_cons]
        by_cases hq : q = p <;> simp [hq] <;> omega
    | del q =>
      have := ih hw.2
      simp only [allocCount, delCount, outstanding]
      by_cases hq : q = p
      · subst hq
        have hpos : 0 < (outstanding l).count q := List.count_pos_iff.2 hw.1
        rw [List.count_erase_self]
        simp; omega
      · rw [List.count_erase_of_ne (Ne.symm hq)]
        simp [hq]; omega

/-- the pointers passed to the deleter in a piece of log -/
def dels : Log → List Ptr
  | [] => []
  | .del p :: l => p :: dels l
  | .alloc _ _ :: l => dels l

theorem dels_append (a b : Log) : dels (a ++ b) = dels a ++ dels b := by
  induction a with
  | nil => rfl
  | cons e a ih => cases e <;> simp [dels, ih]

theorem dels_relLog_prefix (F : List Ptr) : dels ((F.map Event.del).reverse) = F.reverse := by
  induction F with
  | nil => rfl
  | cons f F ih => simp [dels_append, ih, dels]

def Event.isAlloc : Event → Bool
  | .alloc _ _ => true
  | .del _ => false

theorem filter_isAlloc_dels (F : List Ptr) : ((F.map Event.del).reverse).filter Event.isAlloc = [] := by
  apply List.filter_eq_nil_iff.2
  intro e he
  rcases List.mem_map.1 (List.mem_reverse.1 he) with ⟨p, _, rfl⟩
  simp [Event.isAlloc]

/-- The calls `allocate` adds to the log: the deleter is only called for blocks of this pool's
free lists, and the allocator at most twice. -/
theorem AllocStep.events {ora : Oracle} {P P' : MPool} {log log' : Log} {size : Nat} {r : MPool.AllocRes}
    (st : AllocStep ora P log size P' log' r) :
    ∃ evs, log' = evs ++ log ∧ (∀ x ∈ dels evs, x ∈ flat P.reserved) ∧
      (evs.filter Event.isAlloc).length ≤ 2 := by
  cases st with
  | null => exact ⟨[], rfl, fun _ h => (nomatch h), by simp⟩
  | tooBig => exact ⟨[], rfl, fun _ h => (nomatch h), by simp⟩
  | reuse => exact ⟨[], rfl, fun _ h => (nomatch h), by simp⟩
  | fresh k ptr => exact ⟨[.alloc (2 ^ k.val) (some ptr)], rfl, fun _ h => (nomatch h), by simp [List.filter, Event.isAlloc]⟩
  | retryOk k ptr =>
    refine ⟨.alloc (2 ^ k.val) (some ptr) :: (((flat P.reserved).map Event.del).reverse ++ [.alloc (2 ^ k.val) none]),
      by simp [relLog], ?_, ?_⟩
    · intro x hx
      simp only [dels, dels_append, dels_relLog_prefix, List.append_nil] at hx
      exact List.mem_reverse.1 hx
    · rw [List.filter_cons, List.filter_append, filter_isAlloc_dels]; simp [List.filter, Event.isAlloc]
  | retryFail k =>
    refine ⟨.alloc (2 ^ k.val) none :: (((flat P.reserved).map Event.del).reverse ++ [.alloc (2 ^ k.val) none]),
      by simp [relLog], ?_, ?_⟩
    · intro x hx
      simp only [dels, dels_append, dels_relLog_prefix, List.append_nil] at hx
      exact List.mem_reverse.1 hx
    · rw [List.filter_cons, List.filter_append, filter_isAlloc_dels]; simp [List.filter, Event.isAlloc]

/-! ### consequences of the invariant -/

theorem find_of_mem {α : Type} (key : α → Nat) : ∀ (l : List α) (a : α), (l.map key).Nodup → a ∈ l →
    l.find? (key · == key a) = some a := by
  intro l
  induction l with
  | nil => intro a _ h; cases h
  | cons b l ih =>
    intro a hn ha
    rw [List.find?_cons]
    rcases List.mem_cons.1 ha with h | h
    · subst h; simp
    · have hb : key b ≠ key a := by
        intro e
        exact (List.nodup_cons.1 hn).1 (List.mem_map.2 ⟨a, h, e.symm⟩)
      have : (key b == key a) = false := by simpa using hb
      rw [this]
      exact ih a (List.nodup_cons.1 hn).2 h

theorem WInv.findPool_of_mem {w : World} (hi : WInv w) {P : MPool} (hP : P ∈ w.pools) : w.findPool P.id = some P :=
  find_of_mem (fun Q : MPool => Q.id) w.pools P hi.ids hP

/-- all blocks owned by live pools are pairwise distinct -/
theorem WInv.nodup_owned {w : World} (hi : WInv w) : (ownedAll w).Nodup := hi.perm.symm.nodup (wf_nodup hi.wf)

/-- two live pools are the same pool or have different ids and share no block -/
theorem WInv.pools_disjoint {w : World} (hi : WInv w) {P Q : MPool} (hP : P ∈ w.pools) (hQ : Q ∈ w.pools) :
    P = Q ∨ (P.id ≠ Q.id ∧ ∀ x, x ∈ P.owned → x ∉ Q.owned) := by
  have hf := hi.findPool_of_mem hP
  obtain ⟨hsp, hown⟩ := hi.split hf
  have hnd : (P.owned ++ (w.others P.id).flatMap MPool.owned).Nodup := hown.nodup hi.nodup_owned
  rcases List.mem_cons.1 (hsp.subset hQ) with h | h
  · exact Or.inl h.symm
  · right
    refine ⟨fun e => (mem_others.1 h).2 e.symm, fun x hx hxq => ?_⟩
    exact (List.nodup_append.1 hnd).2.2 x hx x (mem_owned_others h hxq) rfl

theorem WInv.pool_nodup {w : World} (hi : WInv w) {P : MPool} (hP : P ∈ w.pools) : P.owned.Nodup := by
  obtain ⟨_, hown⟩ := hi.split (hi.findPool_of_mem hP)
  exact (List.nodup_append.1 (hown.nodup hi.nodup_owned)).1

/-- a supplied block of a live pool is in no free list of any live pool -/
theorem WInv.supplied_not_reserved {w : World} (hi : WInv w) {P Q : MPool} (hP : P ∈ w.pools) (hQ : Q ∈ w.pools)
    {x : Ptr} (hx : x ∈ P.keys) : x ∉ flat Q.reserved := by
  intro hxq
  rcases hi.pools_disjoint hP hQ with h | h
  · subst h
    exact (List.nodup_append.1 (hi.pool_nodup hP)).2.2 x hxq x hx rfl
  · exact h.2 x (by simp [MPool.owned, hx]) (by simp [MPool.owned, hxq])

/-- a block is supplied by at most one live pool -/
theorem WInv.supplied_unique {w : World} (hi : WInv w) {P Q : MPool} (hP : P ∈ w.pools) (hQ : Q ∈ w.pools)
    {x : Ptr} (hx : x ∈ P.keys) (hxq : x ∈ Q.keys) : P = Q := by
  rcases hi.pools_disjoint hP hQ with h | h
  · exact h
  · exact absurd (show x ∈ Q.owned by simp [MPool.owned, hxq]) (h.2 x (by simp [MPool.owned, hx]))

/-- the block of a live handle of a live pool is supplied by that pool -/
theorem WInv.handle_supplied {w : World} (hi : WInv w) {name : Nat} {h : Handle} {P : MPool}
    (hfh : w.findHandle name = some h) (hfp : w.findPool h.pool = some P) : h.ptr ∈ P.keys := by
  have hd := hptrs_drop hi hfh P.id
  rw [if_pos (findPool_id hfp).symm] at hd
  exact (hi.hperm P (findPool_mem hfp)).subset (hd.symm.subset (by simp))

/-! ### ids -/

theorem free_id {P P' : MPool} {ptr : Ptr} (h : P.free ptr = some P') : P'.id = P.id := by
  unfold MPool.free at h
  split at h
  · cases h
  · cases h; rfl

theorem step_nextId (ora : Oracle) (w : World) (op : Op) :
    (w.step ora op).1.nextId = (match op with | .create _ => w.nextId + 1 | _ => w.nextId) := by
  cases op with
  | create m => rfl
  | alloc pid name size =>
    simp only [World.step]
    split
    · rfl
    · split
      · rfl
      · split <;> rfl
  | drop name =>
    simp only [World.step]
    split
    · rfl
    · split
      · rfl
      · split <;> rfl
  | destroy pid =>
    simp only [World.step]
    split <;> rfl

theorem step_nextId_le (ora : Oracle) (w : World) (op : Op) : w.nextId ≤ (w.step ora op).1.nextId := by
  rw [step_nextId]; cases op <;> simp

/-- a call returns `created i` only if it is `create`, and then `i` is the counter -/
theorem step_created (ora : Oracle) (w : World) (op : Op) (i : Nat) (h : (w.step ora op).2 = .created i) :
    i = w.nextId ∧ (w.step ora op).1.nextId = w.nextId + 1 := by
  cases op with
  | create m => simp [World.step] at h ⊢; exact h.symm
  | alloc pid name size =>
    exfalso
    simp only [World.step] at h
    split at h
    · cases h
    · split at h
      · cases h
      · split at h <;> cases h
  | drop name =>
    exfalso
    simp only [World.step] at h
    split at h
    · cases h
    · split at h
      · cases h
      · split at h <;> cases h
  | destroy pid =>
    exfalso
    simp only [World.step] at h
    split at h <;> cases h

/-- the ids in the registry after a call: old ones, or the counter -/
theorem step_pool_ids (ora : Oracle) (w : World) (op : Op) :
    ∀ Q ∈ (w.step ora op).1.pools, (∃ Q' ∈ w.pools, Q'.id = Q.id) ∨ Q.id = w.nextId := by
  have hsub : ∀ pid Q, Q ∈ w.others pid → (∃ Q' ∈ w.pools, Q'.id = Q.id) ∨ Q.id = w.nextId :=
    fun pid Q hQ => Or.inl ⟨Q, (mem_others.1 hQ).1, rfl⟩
  have hself : ∀ Q, Q ∈ w.pools → (∃ Q' ∈ w.pools, Q'.id = Q.id) ∨ Q.id = w.nextId :=
    fun Q hQ => Or.inl ⟨Q, hQ, rfl⟩
  cases op with
  | create m =>
    intro Q hQ
    rcases List.mem_cons.1 hQ with h | h
    · subst h; exact Or.inr rfl
    · exact hself Q h
  | alloc pid name size =>
    cases hfind : w.findPool pid with
    | none => simpa [World.step, hfind] using hself
    | some P =>
      cases hname : w.handles.any (·.1 == name) with
      | true => simpa [World.step, hfind, hname] using hself
      | false =>
        rw [step_alloc_eq hfind hname]
        intro Q hQ
        have hQ' : Q ∈ (P.allocate ora w.log size).1 :: w.others pid := by
          generalize (P.allocate ora w.log size).2.2 = r at hQ
          cases r <;> exact hQ
        rcases List.mem_cons.1 hQ' with h | h
        · subst h; exact Or.inl ⟨P, findPool_mem hfind, (allocate_id ora P w.log size).symm⟩
        · exact hsub pid Q h
  | drop name =>
    cases hfh : w.findHandle name with
    | none => simpa [World.step, hfh] using hself
    | some h =>
      cases hfind : w.findPool h.pool with
      | none => simpa [World.step, hfh, hfind] using hself
      | some P =>
        cases hfree : P.free h.ptr with
        | none => simpa [World.step, hfh, hfind, hfree] using hself
        | some P' =>
          intro Q hQ
          have hQ' : Q ∈ P' :: w.others h.pool := by simpa [World.step, hfh, hfind, hfree] using hQ
          rcases List.mem_cons.1 hQ' with e | e
          · subst e; exact Or.inl ⟨P, findPool_mem hfind, (free_id hfree).symm⟩
          · exact hsub _ Q e
  | destroy pid =>
    cases hfind : w.findPool pid with
    | none => simpa [World.step, hfind] using hself
    | some P =>
      intro Q hQ
      have hQ' : Q ∈ w.others pid := by simpa [World.step, hfind] using hQ
      exact hsub pid Q hQ'

/-- An id below the counter that no live pool has is never the id of a pool again. -/
theorem dead_stays_dead (i : Nat) : ∀ (h : History) (w : World), i < w.nextId → (∀ Q ∈ w.pools, Q.id ≠ i) →
    i < (runFrom w h).nextId ∧ ∀ Q ∈ (runFrom w h).pools, Q.id ≠ i := by
  intro h
  induction h with
  | nil => intro w h1 h2; exact ⟨h1, h2⟩
  | cons s h ih =>
    intro w h1 h2
    apply ih (w.step s.1 s.2).1
    · exact Nat.lt_of_lt_of_le h1 (step_nextId_le s.1 w s.2)
    · intro Q hQ
      rcases step_pool_ids s.1 w s.2 Q hQ with ⟨Q', hQ', e⟩ | e
      · rw [← e]; exact h2 Q' hQ'
      · omega

/-- the ids handed out by the `create` calls -/
def createdIds : List Res → List Nat
  | [] => []
  | .created i :: rs => i :: createdIds rs
  | _ :: rs => createdIds rs

theorem createdIds_results : ∀ (h : History) (w : World),
    (createdIds (results w h)).Pairwise (· < ·) ∧ ∀ i ∈ createdIds (results w h), w.nextId ≤ i := by
  intro h
  induction h with
  | nil => intro w; exact ⟨List.Pairwise.nil, fun _ hi => nomatch hi⟩
  | cons s h ih =>
    intro w
    obtain ⟨ih1, ih2⟩ := ih (w.step s.1 s.2).1
    have hle := step_nextId_le s.1 w s.2
    have e : results w (s :: h) = (w.step s.1 s.2).2 :: results (w.step s.1 s.2).1 h := rfl
    rw [e]
    cases hr : (w.step s.1 s.2).2 with
    | created i =>
      obtain ⟨e1, e2⟩ := step_created s.1 w s.2 i hr
      simp only [createdIds]
      refine ⟨List.pairwise_cons.2 ⟨fun j hj => ?_, ih1⟩, fun j hj => ?_⟩
      · have := ih2 j hj; omega
      · rcases List.mem_cons.1 hj with e | e
        · omega
        · have := ih2 j e; omega
    | handle p a => exact ⟨ih1, fun j hj => Nat.le_trans hle (ih2 j hj)⟩
    | error => exact ⟨ih1, fun j hj => Nat.le_trans hle (ih2 j hj)⟩
    | unit => exact ⟨ih1, fun j hj => Nat.le_trans hle (ih2 j hj)⟩
    | invalid => exact ⟨ih1, fun j hj => Nat.le_trans hle (ih2 j hj)⟩

/-! ### what the calls add to the log -/

def allocRes : MPool.AllocRes → Res
  | .null => .handle none 0
  | .error => .error
  | .block ptr m => .handle (some ptr) m

theorem step_alloc_res {w : World} {ora : Oracle} {pid name size : Nat} {P : MPool}
    (hfind : w.findPool pid = some P) (hname : w.handles.any (·.1 == name) = false) :
    (w.step ora (.alloc pid name size)).2 = allocRes (P.allocate ora w.log size).2.2 := by
  unfold World.step
  simp only [hfind, hname]
  rcases P.allocate ora w.log size with ⟨P', log', r⟩
  cases r <;> rfl

theorem step_alloc_log {w : World} {ora : Oracle} {pid name size : Nat} {P : MPool}
    (hfind : w.findPool pid = some P) (hname : w.handles.any (·.1 == name) = false) :
    (w.step ora (.alloc pid name size)).1.log = (P.allocate ora w.log size).2.1 := by
  rw [step_alloc_eq hfind hname]
  generalize (P.allocate ora w.log size).2.2 = r
  cases r <;> rfl

theorem allocate_events (ora : Oracle) (P : MPool) (log : Log) (size : Nat) :
    ∃ evs, (P.allocate ora log size).2.1 = evs ++ log ∧ (∀ x ∈ dels evs, x ∈ flat P.reserved) ∧
      (evs.filter Event.isAlloc).length ≤ 2 :=
  (allocate_step ora P log size).events

/-- `alloc` calls the deleter only for blocks in the free lists of the pool it is called on, and the
allocator at most twice. -/
theorem step_events_alloc (ora : Oracle) (w : World) (pid name size : Nat) :
    ∃ evs, (w.step ora (.alloc pid name size)).1.log = evs ++ w.log ∧
      (∀ x ∈ dels evs, ∃ P, w.findPool pid = some P ∧ x ∈ flat P.reserved) ∧
      (evs.filter Event.isAlloc).length ≤ 2 := by
  cases hfind : w.findPool pid with
  | none => exact ⟨[], by simp [World.step, hfind], fun _ h => (nomatch h), by simp⟩
  | some P =>
    cases hname : w.handles.any (·.1 == name) with
    | true => exact ⟨[], by simp [World.step, hfind, hname], fun _ h => (nomatch h), by simp⟩
    | false =>
      obtain ⟨evs, h1, h2, h3⟩ := allocate_events ora P w.log size
      exact ⟨evs, by rw [step_alloc_log hfind hname, h1], fun x hx => ⟨P, rfl, h2 x hx⟩, h3⟩

theorem step_log_create (ora : Oracle) (w : World) (m : Nat) : (w.step ora (.create m)).1.log = w.log := rfl

/-- releasing a handle never calls the allocator or the deleter -/
theorem step_log_drop (ora : Oracle) (w : World) (name : Nat) : (w.step ora (.drop name)).1.log = w.log := by
  simp only [World.step]
  split
  · rfl
  · split
    · rfl
    · split <;> rfl

/-- releasing a handle never raises an error -/
theorem step_res_drop (ora : Oracle) (w : World) (name : Nat) :
    (w.step ora (.drop name)).2 = if (w.findHandle name).isSome then .unit else .invalid := by
  simp only [World.step]
  split
  · rename_i h; simp [h]
  · rename_i h
    simp only [h, Option.isSome_some, if_true]
    split
    · rfl
    · split <;> rfl

/-- the destructor calls the deleter exactly for the blocks the pool owns, and never the allocator -/
theorem step_events_destroy (ora : Oracle) (w : World) (pid : Nat) (P : MPool) (hfind : w.findPool pid = some P) :
    ∃ evs, (w.step ora (.destroy pid)).1.log = evs ++ w.log ∧ (dels evs).Perm P.owned ∧
      evs.filter Event.isAlloc = [] := by
  have hF : (flat (MPool.drain P.reserved P.supplied)).Perm P.owned :=
    (flat_drain P.supplied P.reserved).trans List.perm_append_comm
  refine ⟨((flat (MPool.drain P.reserved P.supplied)).map Event.del).reverse, ?_, ?_, filter_isAlloc_dels _⟩
  · simp [World.step, hfind, MPool.destroy, MPool.releaseReserved]
  · rw [dels_relLog_prefix]
    exact (List.reverse_perm _).trans hF

/-- A block handed out by `alloc` was obtained from the allocator with the reported size, and no live
pool was supplying it. -/
theorem WInv.alloc_block_facts {w : World} (hi : WInv w) {ora : Oracle} (hf : ora.Fresh) {pid size : Nat} {P : MPool}
    (hfind : w.findPool pid = some P) {ptr : Ptr} {m : Nat}
    (hr : (P.allocate ora w.log size).2.2 = .block ptr m) :
    allocSize (P.allocate ora w.log size).2.1 ptr = some m ∧ ∀ Q ∈ w.pools, ptr ∉ Q.keys := by
  obtain ⟨hsp, hown⟩ := hi.split hfind
  have hP := findPool_mem hfind
  have st := allocate_step ora P w.log size
  obtain ⟨hwf, hperm, _, _, _, _, hkeys⟩ :=
    st.inv hf ((w.others pid).flatMap MPool.owned) hi.wf (hown.symm.trans hi.perm) (hi.sizes P hP)
  rw [hr] at hkeys
  replace hkeys : (P.allocate ora w.log size).1.keys = ptr :: P.keys ∧
      allocSize (P.allocate ora w.log size).2.1 ptr = some m := hkeys
  refine ⟨hkeys.2, ?_⟩
  have hnd := hperm.symm.nodup (wf_nodup hwf)
  have hnd1 := (List.nodup_append.1 hnd).1
  have hk : ((P.allocate ora w.log size).1.keys).Nodup := (List.nodup_append.1 hnd1).2.1
  rw [hkeys.1] at hk
  have hin : ptr ∈ (P.allocate ora w.log size).1.owned := by simp [MPool.owned, hkeys.1]
  intro Q hQ hq
  rcases List.mem_cons.1 (hsp.subset hQ) with e | e
  · subst e; exact (List.nodup_cons.1 hk).1 hq
  · exact (List.nodup_append.1 hnd).2.2 ptr hin ptr (mem_owned_others e (by simp [MPool.owned, hq])) rfl

/-- every result block of `allocate` has a power-of-two size: the class of the effective size -/
theorem allocate_block_size (ora : Oracle) (P : MPool) (log : Log) (size : Nat) (ptr : Ptr) (m : Nat)
    (hr : (P.allocate ora log size).2.2 = .block ptr m) :
    size ≠ 0 ∧ ¬ calculateShifts (effSize P size) > 63 ∧ m = 2 ^ calculateShifts (effSize P size) := by
  have st := allocate_step ora P log size
  generalize (P.allocate ora log size).1 = P' at st
  generalize (P.allocate ora log size).2.1 = l' at st
  generalize (P.allocate ora log size).2.2 = r at st hr
  cases st with
  | null => cases hr
  | tooBig => cases hr
  | retryFail => cases hr
  | reuse k _ _ h0 hk => cases hr; exact ⟨h0, by have := k.isLt; omega, by rw [hk]⟩
  | fresh k _ h0 hk => cases hr; exact ⟨h0, by have := k.isLt; omega, by rw [hk]⟩
  | retryOk k _ h0 hk => cases hr; exact ⟨h0, by have := k.isLt; omega, by rw [hk]⟩

theorem effSize_eq_max (P : MPool) (size : Nat) : effSize P size = max size P.minSize := by
  unfold effSize; split <;> omega

end Primitiv.Pool
