import PrimitivModel.Model.Pool
/-
Lemmas about the MemoryPool model (Model/Pool.lean) used by Props/C18.lean:
the arithmetic of `calculateShifts`, the case analysis of `allocate`, and the
invariant of the world that every history preserves.  Core Lean only.
-/
namespace Primitiv.Pool

/-! ### calculateShifts -/

theorem popcount64_ones : ∀ n, n ≤ 64 → popcount64 (2 ^ n - 1) = n := by decide

/-- One smearing step doubles the set of offsets at which a set bit of `x` is seen. -/
theorem smear_step (x b k : Nat)
    (h : ∀ i d, d < 64 → d % (2 * k) = 0 → x.testBit (i + d) = true → b.testBit i = true)
    (hk : ∀ d, d < 64 → d % k = 0 → d % (2 * k) = 0 ∨ (k ≤ d ∧ (d - k) % (2 * k) = 0)) :
    ∀ i d, d < 64 → d % k = 0 → x.testBit (i + d) = true → (b ||| (b >>> k)).testBit i = true := by
  intro i d hd hm hx
  rw [Nat.testBit_or, Nat.testBit_shiftRight]
  rcases hk d hd hm with h1 | ⟨h1, h2⟩
  · simp [h i d hd h1 hx]
  · have := h (k + i) (d - k) (by omega) h2 (by rw [show k + i + (d - k) = i + d by omega]; exact hx)
    simp [this]

/-- After the six steps bit `i` is set as soon as one of the bits `i … i+63` of `x` is. -/
theorem smear_bits (x : Nat) : ∀ i d, d < 64 → x.testBit (i + d) = true → (smear x).testBit i = true := by
  intro i d hd hx
  unfold smear
  have h0 : ∀ i d, d < 64 → d % (2 * 32) = 0 → x.testBit (i + d) = true → x.testBit i = true := by
    intro i d hd hm hx; have : d = 0 := by omega
    simpa [this] using hx
  have h1 := smear_step x _ 32 h0 (by omega)
  have h2 := smear_step x _ 16 h1 (by omega)
  have h3 := smear_step x _ 8 h2 (by omega)
  have h4 := smear_step x _ 4 h3 (by omega)
  have h5 := smear_step x _ 2 h4 (by omega)
  have h6 := smear_step x _ 1 h5 (by omega)
  exact h6 i d hd (by omega) hx

theorem smear_lt (x n : Nat) (h : x < 2 ^ n) : smear x < 2 ^ n := by
  unfold smear
  have step : ∀ b k, b < 2 ^ n → (b ||| (b >>> k)) < 2 ^ n := fun b k hb =>
    Nat.or_lt_two_pow hb (Nat.lt_of_le_of_lt (Nat.shiftRight_le b k) hb)
  exact step _ _ (step _ _ (step _ _ (step _ _ (step _ _ (step _ _ h)))))

theorem log2_lt_64 (x : Nat) (h0 : x ≠ 0) (h : x < 2 ^ 64) : x.log2 < 64 :=
  (Nat.log2_lt h0).2 h

/-- The first half of `calculate_shifts`: all ones up to the leading bit. -/
theorem smear_eq (x : Nat) (h0 : x ≠ 0) (h : x < 2 ^ 64) : smear x = 2 ^ (x.log2 + 1) - 1 := by
  apply Nat.eq_of_testBit_eq
  intro i
  rw [Nat.testBit_two_pow_sub_one]
  by_cases hi : i < x.log2 + 1
  · have hl := log2_lt_64 x h0 h
    have := smear_bits x i (x.log2 - i) (by omega)
      (by rw [show i + (x.log2 - i) = x.log2 by omega]; exact Nat.testBit_log2 h0)
    simp [this, hi]
  · have h1 : smear x < 2 ^ i := by
      apply Nat.lt_of_lt_of_le (smear_lt x _ Nat.lt_log2_self)
      exact Nat.pow_le_pow_right (by decide) (by omega)
    simp [Nat.testBit_lt_two_pow h1, hi]

/-- What the code computes, in closed form. -/
theorem calculateShifts_eq (x : Nat) (h0 : x ≠ 0) (h : x < 2 ^ 64) :
    calculateShifts x = if 2 ^ x.log2 = x then x.log2 else x.log2 + 1 := by
  have hl := log2_lt_64 x h0 h
  unfold calculateShifts
  simp only [h0, if_false, smear_eq x h0 h, popcount64_ones (x.log2 + 1) (by omega)]
  simp only [Nat.add_sub_cancel, Nat.one_shiftLeft]
  have : 2 ^ x.log2 % M64 = 2 ^ x.log2 := Nat.mod_eq_of_lt (by
    show 2 ^ x.log2 < 2 ^ 64
    exact Nat.pow_lt_pow_right (by decide) hl)
  rw [this]
  split <;> omega

/-- `calculate_shifts(x)` is the least `s` with `x ≤ 2^s`. -/
theorem calculateShifts_bounds (x : Nat) (h0 : x ≠ 0) (h : x < 2 ^ 64) :
    x ≤ 2 ^ calculateShifts x ∧ (calculateShifts x = 0 ∨ 2 ^ (calculateShifts x - 1) < x) := by
  rw [calculateShifts_eq x h0 h]
  have h1 := Nat.log2_self_le h0
  have h2 := @Nat.lt_log2_self x
  split
  · rename_i he
    refine ⟨by omega, ?_⟩
    by_cases hz : x.log2 = 0
    · exact Or.inl hz
    · right
      have : 2 ^ (x.log2 - 1) < 2 ^ x.log2 := Nat.pow_lt_pow_right (by decide) (by omega)
      omega
  · rename_i hne
    refine ⟨by omega, Or.inr ?_⟩
    simp only [Nat.add_sub_cancel]
    omega

theorem calculateShifts_le_64 (x : Nat) (h : x < 2 ^ 64) : calculateShifts x ≤ 64 := by
  by_cases h0 : x = 0
  · simp [calculateShifts, h0]
  · rw [calculateShifts_eq x h0 h]
    have := log2_lt_64 x h0 h
    split <;> omega

/-- The guard `shift > MAX_SHIFTS` rejects exactly the sizes above 2^63. -/
theorem calculateShifts_gt_63 (x : Nat) (h0 : x ≠ 0) (h : x < 2 ^ 64) :
    calculateShifts x > 63 ↔ x > 2 ^ 63 := by
  have hb := calculateShifts_bounds x h0 h
  have hle := calculateShifts_le_64 x h
  constructor
  · intro hs
    have : calculateShifts x = 64 := by omega
    rw [this] at hb
    rcases hb.2 with h1 | h1
    · omega
    · simpa using h1
  · intro hx
    apply Classical.byContradiction
    intro hn
    have : 2 ^ calculateShifts x ≤ 2 ^ 63 := Nat.pow_le_pow_right (by decide) (by omega)
    omega

/-! ### free lists -/

theorem mem_flat {r : Fin 64 → List Ptr} {x : Ptr} : x ∈ flat r ↔ ∃ k, x ∈ r k := by
  simp [flat, List.mem_flatMap, List.mem_finRange]

theorem flat_nil : flat (fun _ => []) = [] := by
  simp [flat]

theorem setClass_same (r : Fin 64 → List Ptr) (k : Fin 64) (v : List Ptr) : setClass r k v k = v := by
  simp [setClass]

theorem setClass_other (r : Fin 64 → List Ptr) (k j : Fin 64) (v : List Ptr) (h : j ≠ k) :
    setClass r k v j = r j := by
  simp [setClass, h]

theorem flatMap_setClass_of_not_mem (r : Fin 64 → List Ptr) (k : Fin 64) (v : List Ptr) :
    ∀ l : List (Fin 64), k ∉ l → l.flatMap (setClass r k v) = l.flatMap r := by
  intro l
  induction l with
  | nil => intro _; rfl
  | cons j l ih =>
    intro h
    have hj : j ≠ k := fun e => h (by simp [e])
    have hl : k ∉ l := fun e => h (by simp [e])
    simp [List.flatMap_cons, setClass_other r k j v hj, ih hl]

theorem flatMap_perm_pop (r : Fin 64 → List Ptr) (k : Fin 64) (x : Ptr) (rest : List Ptr) (hk : r k = x :: rest) :
    ∀ l : List (Fin 64), l.Nodup → k ∈ l → (l.flatMap r).Perm (x :: l.flatMap (setClass r k rest)) := by
  intro l
  induction l with
  | nil => intro _ h; cases h
  | cons j l ih =>
    intro hn hm
    have hjl : j ∉ l := (List.nodup_cons.1 hn).1
    have hnl : l.Nodup := (List.nodup_cons.1 hn).2
    by_cases hj : j = k
    · subst hj
      rw [List.flatMap_cons, List.flatMap_cons, setClass_same, flatMap_setClass_of_not_mem r j rest l hjl, hk]
      exact List.Perm.refl _
    · have hkl : k ∈ l := by
        rcases List.mem_cons.1 hm with h | h
        · exact absurd h.symm hj
        · exact h
      rw [List.flatMap_cons, List.flatMap_cons, setClass_other r k j rest hj]
      exact (List.Perm.append_left (r j) (ih hnl hkl)).trans List.perm_middle

/-- popping the back of class `k` removes exactly that block from the free lists -/
theorem flat_perm_pop (r : Fin 64 → List Ptr) (k : Fin 64) (x : Ptr) (rest : List Ptr) (hk : r k = x :: rest) :
    (flat r).Perm (x :: flat (setClass r k rest)) :=
  flatMap_perm_pop r k x rest hk _ (List.nodup_finRange 64) (List.mem_finRange k)

/-- pushing on class `k` adds exactly that block -/
theorem flat_perm_push (r : Fin 64 → List Ptr) (k : Fin 64) (x : Ptr) :
    (flat (setClass r k (x :: r k))).Perm (x :: flat r) := by
  have h := flat_perm_pop (setClass r k (x :: r k)) k x (r k) (setClass_same _ _ _)
  have e : setClass (setClass r k (x :: r k)) k (r k) = r := by
    funext j
    by_cases hj : j = k
    · subst hj; simp [setClass]
    · simp [setClass, hj]
  rw [e] at h
  exact h

/-! ### the call log -/

/-- every deleter call is for an outstanding pointer, every pointer returned by
the allocator is not outstanding at that moment -/
def Log.wf : Log → Prop
  | [] => True
  | .alloc _ (some p) :: l => p ∉ outstanding l ∧ Log.wf l
  | .alloc _ none :: l => Log.wf l
  | .del p :: l => p ∈ outstanding l ∧ Log.wf l

theorem wf_nodup : ∀ {log : Log}, Log.wf log → (outstanding log).Nodup := by
  intro log
  induction log with
  | nil => intro _; simp [outstanding]
  | cons e l ih =>
    intro h
    cases e with
    | alloc s res =>
      cases res with
      | none => exact ih h
      | some p => exact List.nodup_cons.2 ⟨h.1, ih h.2⟩
    | del p => exact (ih h.2).erase p

/-- the deleter calls of `release_reserved_blocks` for the free blocks `F`, newest first -/
def relLog (F : List Ptr) (log : Log) : Log := (F.map Event.del).reverse ++ log

theorem relLog_cons (f : Ptr) (F : List Ptr) (log : Log) : relLog (f :: F) log = relLog F (.del f :: log) := by
  simp [relLog]

theorem relLog_nil (log : Log) : relLog [] log = log := by simp [relLog]

/-- Releasing the free blocks `F` of a pool: the log stays well formed and exactly `F` leaves the
outstanding pointers. -/
theorem release_ok : ∀ (F S : List Ptr) (log : Log), Log.wf log → (F ++ S).Perm (outstanding log) →
    Log.wf (relLog F log) ∧ S.Perm (outstanding (relLog F log)) := by
  intro F
  induction F with
  | nil => intro S log hw hp; simpa [relLog_nil] using ⟨hw, hp⟩
  | cons f F ih =>
    intro S log hw hp
    rw [relLog_cons]
    have hf : f ∈ outstanding log := hp.subset (by simp)
    have hp' : (F ++ S).Perm (outstanding (.del f :: log)) := by
      have := hp.erase f
      simpa [outstanding] using this
    exact ih S (.del f :: log) ⟨hf, hw⟩ hp'

theorem allocSize_relLog (F : List Ptr) (log : Log) (x : Ptr) : allocSize (relLog F log) x = allocSize log x := by
  induction F generalizing log with
  | nil => simp [relLog_nil]
  | cons f F ih => rw [relLog_cons, ih]; simp [allocSize]

/-! ### case analysis of `allocate` -/

/-- `if (size < minimum_size_) size = minimum_size_;` -/
def effSize (P : MPool) (size : Nat) : Nat := if size < P.minSize then P.minSize else size

/-- The six ways through `MemoryPool::allocate`. -/
inductive AllocStep (ora : Oracle) (P : MPool) (log : Log) (size : Nat) : MPool → Log → MPool.AllocRes → Prop
  | null : size = 0 → AllocStep ora P log size P log .null
  | tooBig : size ≠ 0 → calculateShifts (effSize P size) > 63 → AllocStep ora P log size P log .error
  | reuse (k : Fin 64) (ptr : Ptr) (rest : List Ptr) : size ≠ 0 → k.val = calculateShifts (effSize P size) →
      P.reserved k = ptr :: rest →
      AllocStep ora P log size
        { P with reserved := setClass P.reserved k rest, supplied := MPool.emplace P.supplied ptr k } log
        (.block ptr (2 ^ k.val))
  | fresh (k : Fin 64) (ptr : Ptr) : size ≠ 0 → k.val = calculateShifts (effSize P size) →
      P.reserved k = [] → ora log (2 ^ k.val) = some ptr →
      AllocStep ora P log size
        { P with supplied := MPool.emplace P.supplied ptr k } (.alloc (2 ^ k.val) (some ptr) :: log)
        (.block ptr (2 ^ k.val))
  | retryOk (k : Fin 64) (ptr : Ptr) : size ≠ 0 → k.val = calculateShifts (effSize P size) →
      P.reserved k = [] → ora log (2 ^ k.val) = none →
      ora (relLog (flat P.reserved) (.alloc (2 ^ k.val) none :: log)) (2 ^ k.val) = some ptr →
      AllocStep ora P log size
        { P with reserved := fun _ => [], supplied := MPool.emplace P.supplied ptr k }
        (.alloc (2 ^ k.val) (some ptr) :: relLog (flat P.reserved) (.alloc (2 ^ k.val) none :: log))
        (.block ptr (2 ^ k.val))
  | retryFail (k : Fin 64) : size ≠ 0 → k.val = calculateShifts (effSize P size) →
      P.reserved k = [] → ora log (2 ^ k.val) = none →
      ora (relLog (flat P.reserved) (.alloc (2 ^ k.val) none :: log)) (2 ^ k.val) = none →
      AllocStep ora P log size
        { P with reserved := fun _ => [] }
        (.alloc (2 ^ k.val) none :: relLog (flat P.reserved) (.alloc (2 ^ k.val) none :: log))
        .error

theorem memSize_eq (s : Nat) (h : ¬ s > 63) : (1 <<< s) % M64 = 2 ^ s := by
  rw [Nat.one_shiftLeft]
  apply Nat.mod_eq_of_lt
  show 2 ^ s < 2 ^ 64
  exact Nat.pow_lt_pow_right (by decide) (by omega)

theorem allocate_step (ora : Oracle) (P : MPool) (log : Log) (size : Nat) :
    AllocStep ora P log size (P.allocate ora log size).1 (P.allocate ora log size).2.1
      (P.allocate ora log size).2.2 := by
  unfold MPool.allocate
  by_cases h0 : size = 0
  · simp only [h0, if_true]; exact .null rfl
  · simp only [h0, if_false]
    by_cases hs : calculateShifts (if size < P.minSize then P.minSize else size) > 63
    · simp only [hs, dite_true]
      exact .tooBig h0 hs
    · simp only [hs, dite_false]
      rw [memSize_eq _ hs]
      generalize hk : (⟨calculateShifts (if size < P.minSize then P.minSize else size), by omega⟩ : Fin 64) = k
      have hkv : k.val = calculateShifts (effSize P size) := by rw [← hk]; rfl
      rw [show calculateShifts (if size < P.minSize then P.minSize else size) = k.val from hkv.symm ▸ rfl]
      cases hr : P.reserved k with
      | cons ptr rest => exact .reuse k ptr rest h0 hkv hr
      | nil =>
        simp only []
        cases ho : ora log (2 ^ k.val) with
        | some ptr => exact .fresh k ptr h0 hkv hr ho
        | none =>
          simp only [MPool.releaseReserved]
          cases ho2 : ora (((flat P.reserved).map Event.del).reverse ++ Event.alloc (2 ^ k.val) none :: log) (2 ^ k.val) with
          | some ptr => exact .retryOk k ptr h0 hkv hr ho ho2
          | none => exact .retryFail k h0 hkv hr ho ho2

/-! ### what one `allocate` preserves -/

/-- every block of the pool was obtained from the allocator with the size of its class -/
def SizesOk (P : MPool) (log : Log) : Prop :=
  (∀ k x, x ∈ P.reserved k → allocSize log x = some (2 ^ k.val)) ∧
  (∀ x k, (x, k) ∈ P.supplied → allocSize log x = some (2 ^ k.val))

theorem emplace_of_not_mem (s : List (Ptr × Fin 64)) (p : Ptr) (k : Fin 64) (h : p ∉ s.map (·.1)) :
    MPool.emplace s p k = (p, k) :: s := by
  unfold MPool.emplace
  have : s.any (fun e => e.1 == p) = false := by
    apply Bool.eq_false_iff.2
    intro ha
    rcases List.any_eq_true.1 ha with ⟨e, he, hpe⟩
    exact h (List.mem_map.2 ⟨e, he, by simpa using hpe⟩)
  simp [this]

theorem allocSize_cons_some (m : Nat) (p : Ptr) (l : Log) (x : Ptr) :
    allocSize (.alloc m (some p) :: l) x = if p = x then some m else allocSize l x := rfl

theorem allocSize_cons_none (m : Nat) (l : Log) (x : Ptr) : allocSize (.alloc m none :: l) x = allocSize l x := rfl

theorem mem_keys {P : MPool} {x : Ptr} {k : Fin 64} (h : (x, k) ∈ P.supplied) : x ∈ P.keys :=
  List.mem_map.2 ⟨(x, k), h, rfl⟩

theorem AllocStep.inv {ora : Oracle} {P P' : MPool} {log log' : Log} {size : Nat} {r : MPool.AllocRes}
    (st : AllocStep ora P log size P' log' r) (hf : ora.Fresh) (R : List Ptr) (hw : Log.wf log)
    (hp : (P.owned ++ R).Perm (outstanding log)) (hs : SizesOk P log) :
    Log.wf log' ∧ (P'.owned ++ R).Perm (outstanding log') ∧ SizesOk P' log' ∧
    (∀ x ∈ R, allocSize log' x = allocSize log x) ∧ P'.id = P.id ∧ P'.minSize = P.minSize ∧
    (match r with
      | .block ptr m => P'.keys = ptr :: P.keys ∧ allocSize log' ptr = some m
      | _ => P'.keys = P.keys) := by
  have hnd : (P.owned ++ R).Nodup := hp.symm.nodup (wf_nodup hw)
  cases st with
  | null h0 => exact ⟨hw, hp, hs, fun _ _ => rfl, rfl, rfl, rfl⟩
  | tooBig h0 h1 => exact ⟨hw, hp, hs, fun _ _ => rfl, rfl, rfl, rfl⟩
  | reuse k ptr rest h0 hk hr =>
    have hpf : ptr ∈ flat P.reserved := mem_flat.2 ⟨k, by simp [hr]⟩
    have hpk : ptr ∉ P.keys := by
      intro hin
      have h1 : (flat P.reserved ++ P.keys).Nodup := (List.nodup_append.1 hnd).1
      exact (List.nodup_append.1 h1).2.2 ptr hpf ptr hin rfl
    have he := emplace_of_not_mem P.supplied ptr k hpk
    refine ⟨hw, ?_, ?_, fun _ _ => rfl, rfl, rfl, ?_, ?_⟩
    · refine List.Perm.trans (List.Perm.append_right R ?_) hp
      show (flat (setClass P.reserved k rest) ++ (MPool.emplace P.supplied ptr k).map (·.1)).Perm (flat P.reserved ++ P.keys)
      rw [he]
      have h1 := flat_perm_pop P.reserved k ptr rest hr
      exact (List.perm_middle).trans ((List.Perm.append_right P.keys h1).symm)
    · constructor
      · intro j x hx
        replace hx : x ∈ setClass P.reserved k rest j := hx
        apply hs.1 j x
        by_cases hj : j = k
        · subst hj; rw [setClass_same] at hx; rw [hr]; exact List.mem_cons_of_mem _ hx
        · rw [setClass_other _ _ _ _ hj] at hx; exact hx
      · intro x j hx
        show allocSize log x = _
        rw [show ({ P with reserved := setClass P.reserved k rest, supplied := MPool.emplace P.supplied ptr k } : MPool).supplied = (ptr, k) :: P.supplied from he] at hx
        rcases List.mem_cons.1 hx with h | h
        · cases h; exact hs.1 k ptr (by simp [hr])
        · exact hs.2 x j h
    · show (MPool.emplace P.supplied ptr k).map (·.1) = ptr :: P.keys
      rw [he]; rfl
    · exact hs.1 k ptr (by simp [hr])
  | fresh k ptr h0 hk hr ho =>
    have hfr : ptr ∉ outstanding log := hf log _ ptr ho
    have hno : ptr ∉ P.owned ++ R := fun h => hfr (hp.subset h)
    have hpk : ptr ∉ P.keys := fun h => hno (by simp [MPool.owned, h])
    have he := emplace_of_not_mem P.supplied ptr k hpk
    have hne : ∀ x, x ∈ P.owned ++ R → ptr ≠ x := fun x hx e => hno (e ▸ hx)
    refine ⟨⟨hfr, hw⟩, ?_, ?_, ?_, rfl, rfl, ?_, ?_⟩
    · show (flat P.reserved ++ (MPool.emplace P.supplied ptr k).map (·.1) ++ R).Perm (ptr :: outstanding log)
      rw [he]
      refine List.Perm.trans ?_ (List.Perm.cons ptr hp)
      show (flat P.reserved ++ (ptr :: P.keys) ++ R).Perm (ptr :: (flat P.reserved ++ P.keys ++ R))
      rw [List.append_assoc, List.append_assoc]
      exact List.perm_middle
    · constructor
      · intro j x hx
        rw [allocSize_cons_some, if_neg (hne x (by simp [MPool.owned, mem_flat.2 ⟨j, hx⟩]))]
        exact hs.1 j x hx
      · intro x j hx
        rw [show ({ P with supplied := MPool.emplace P.supplied ptr k } : MPool).supplied = (ptr, k) :: P.supplied from he] at hx
        rcases List.mem_cons.1 hx with h | h
        · cases h; simp [allocSize_cons_some]
        · rw [allocSize_cons_some, if_neg (hne x (by simp [MPool.owned, mem_keys h]))]
          exact hs.2 x j h
    · intro x hx
      rw [allocSize_cons_some, if_neg (hne x (by simp [hx]))]
    · show (MPool.emplace P.supplied ptr k).map (·.1) = ptr :: P.keys
      rw [he]; rfl
    · simp [allocSize_cons_some]
  | retryOk k ptr h0 hk hr ho ho2 =>
    have hp0 : (flat P.reserved ++ (P.keys ++ R)).Perm (outstanding (.alloc (2 ^ k.val) none :: log)) := by
      simpa [MPool.owned, outstanding, List.append_assoc] using hp
    obtain ⟨hw1, hp1⟩ := release_ok (flat P.reserved) (P.keys ++ R) (.alloc (2 ^ k.val) none :: log) hw hp0
    have hfr : ptr ∉ outstanding (relLog (flat P.reserved) (.alloc (2 ^ k.val) none :: log)) := hf _ _ ptr ho2
    have hno : ptr ∉ P.keys ++ R := fun h => hfr (hp1.subset h)
    have hpk : ptr ∉ P.keys := fun h => hno (by simp [h])
    have he := emplace_of_not_mem P.supplied ptr k hpk
    have hne : ∀ x, x ∈ P.keys ++ R → ptr ≠ x := fun x hx e => hno (e ▸ hx)
    refine ⟨⟨hfr, hw1⟩, ?_, ?_, ?_, rfl, rfl, ?_, ?_⟩
    · show (flat (fun _ => []) ++ (MPool.emplace P.supplied ptr k).map (·.1) ++ R).Perm (ptr :: outstanding _)
      rw [he, flat_nil]
      exact List.Perm.cons ptr hp1
    · constructor
      · intro j x hx; cases hx
      · intro x j hx
        rw [show ({ P with reserved := fun _ => [], supplied := MPool.emplace P.supplied ptr k } : MPool).supplied = (ptr, k) :: P.supplied from he] at hx
        rcases List.mem_cons.1 hx with h | h
        · cases h; simp [allocSize_cons_some]
        · rw [allocSize_cons_some, if_neg (hne x (by simp [mem_keys h])), allocSize_relLog, allocSize_cons_none]
          exact hs.2 x j h
    · intro x hx
      rw [allocSize_cons_some, if_neg (hne x (by simp [hx])), allocSize_relLog, allocSize_cons_none]
    · show (MPool.emplace P.supplied ptr k).map (·.1) = ptr :: P.keys
      rw [he]; rfl
    · simp [allocSize_cons_some]
  | retryFail k h0 hk hr ho ho2 =>
    have hp0 : (flat P.reserved ++ (P.keys ++ R)).Perm (outstanding (.alloc (2 ^ k.val) none :: log)) := by
      simpa [MPool.owned, outstanding, List.append_assoc] using hp
    obtain ⟨hw1, hp1⟩ := release_ok (flat P.reserved) (P.keys ++ R) (.alloc (2 ^ k.val) none :: log) hw hp0
    refine ⟨hw1, ?_, ?_, ?_, rfl, rfl, rfl⟩
    · show (flat (fun _ => []) ++ P.keys ++ R).Perm (outstanding _)
      rw [flat_nil]
      exact hp1
    · constructor
      · intro j x hx; cases hx
      · intro x j hx
        rw [allocSize_cons_none, allocSize_relLog, allocSize_cons_none]
        exact hs.2 x j hx
    · intro x hx
      rw [allocSize_cons_none, allocSize_relLog, allocSize_cons_none]

end Primitiv.Pool
