import PrimitivModel.Model.Registry
import PrimitivModel.Spec.Registry
/-
Helper lemmas of the `registry` family (C16): the container operations of
Model/Registry.lean, reachability in the submodel hierarchy, soundness of
`has_submodel`, the fuel bound, the enumeration and the lookups.
Core Lean only.
-/
namespace Primitiv.Registry
open Std

/-! ### kvFind / kvEmplace / setEmplace -/
section containers
variable {κ ν : Type} [DecidableEq κ]

theorem kvFind_some_mem {l : List (κ × ν)} {k : κ} {v : ν} (h : kvFind l k = some v) : (k, v) ∈ l := by
  induction l with
  | nil => simp [kvFind] at h
  | cons e rest ih =>
    obtain ⟨k', v'⟩ := e
    simp only [kvFind] at h
    split at h
    · simp_all
    · simp [ih h]

theorem kvFind_eq_none_iff {l : List (κ × ν)} {k : κ} : kvFind l k = none ↔ k ∉ l.map (·.1) := by
  induction l with
  | nil => simp [kvFind]
  | cons e rest ih =>
    obtain ⟨k', v'⟩ := e
    simp only [kvFind]
    split
    · simp_all
    · simp_all [eq_comm]

theorem kvFind_of_mem {l : List (κ × ν)} (hn : (l.map (·.1)).Nodup) {k : κ} {v : ν} (h : (k, v) ∈ l) :
    kvFind l k = some v := by
  induction l with
  | nil => simp at h
  | cons e rest ih =>
    obtain ⟨k', v'⟩ := e
    simp only [List.map_cons, List.nodup_cons] at hn
    simp only [kvFind]
    rcases List.mem_cons.1 h with h | h
    · simp_all
    · have : k' ≠ k := by
        intro hk; subst hk
        exact hn.1 (List.mem_map.2 ⟨(k', v), h, rfl⟩)
      simp [this, ih hn.2 h]

theorem kvFind_append (l : List (κ × ν)) (k k' : κ) (v : ν) :
    kvFind (l ++ [(k, v)]) k' = match kvFind l k' with
      | some x => some x
      | none => if k = k' then some v else none := by
  induction l with
  | nil => simp [kvFind]
  | cons e rest ih =>
    obtain ⟨k'', v''⟩ := e
    simp only [List.cons_append, kvFind]
    split <;> simp_all

theorem kvEmplace_of_none {l : List (κ × ν)} {k : κ} {v : ν} (h : kvFind l k = none) :
    kvEmplace l k v = l ++ [(k, v)] := by simp [kvEmplace, h]

theorem setEmplace_of_not_mem {α} [DecidableEq α] {s : List α} {a : α} (h : a ∉ s) : setEmplace s a = s ++ [a] := by
  simp [setEmplace, h]

end containers

section mapEmplace
variable {κ ν : Type} [Ord κ]

theorem mem_mapEmplace_of_mem {l : List (κ × ν)} {k : κ} {v : ν} {x : κ × ν} (h : x ∈ l) : x ∈ mapEmplace l k v := by
  induction l with
  | nil => simp at h
  | cons e rest ih =>
    obtain ⟨k', v'⟩ := e
    simp only [mapEmplace]
    split
    · simp [h]
    · exact h
    · rcases List.mem_cons.1 h with h | h
      · simp [h]
      · simp [ih h]

theorem mem_mapEmplace {l : List (κ × ν)} {k : κ} {v : ν} {x : κ × ν} (h : x ∈ mapEmplace l k v) : x ∈ l ∨ x = (k, v) := by
  induction l with
  | nil => simp_all [mapEmplace]
  | cons e rest ih =>
    obtain ⟨k', v'⟩ := e
    simp only [mapEmplace] at h
    split at h
    · simp only [List.mem_cons] at h ⊢; rcases h with h | h | h <;> simp [h]
    · exact Or.inl h
    · rcases List.mem_cons.1 h with h | h
      · simp [h]
      · rcases ih h with h | h
        · simp [h]
        · exact Or.inr h

theorem mapEmplace_self [LawfulEqOrd κ] (l : List (κ × ν)) (k : κ) (v : ν) :
    (k, v) ∈ mapEmplace l k v ∨ ∃ v', (k, v') ∈ l := by
  induction l with
  | nil => simp [mapEmplace]
  | cons e rest ih =>
    obtain ⟨k', v'⟩ := e
    simp only [mapEmplace]
    split
    · simp
    · rename_i h
      have := LawfulEqOrd.eq_of_compare h
      subst this
      exact Or.inr ⟨v', by simp⟩
    · rcases ih with h | ⟨w, h⟩
      · simp [h]
      · exact Or.inr ⟨w, by simp [h]⟩

/-- strictly increasing keys: the representation invariant of `std::map` -/
def Sorted (l : List (κ × ν)) : Prop := l.Pairwise (fun a b => compare a.1 b.1 = .lt)

theorem sorted_mapEmplace [TransOrd κ] {l : List (κ × ν)} (hs : Sorted l) (k : κ) (v : ν) : Sorted (mapEmplace l k v) := by
  induction l with
  | nil => simp [mapEmplace, Sorted]
  | cons e rest ih =>
    obtain ⟨k', v'⟩ := e
    simp only [Sorted, List.pairwise_cons] at hs
    simp only [mapEmplace]
    split
    · rename_i h
      simp only [Sorted, List.pairwise_cons]
      refine ⟨?_, hs⟩
      intro a ha
      rcases List.mem_cons.1 ha with ha | ha
      · simpa [ha] using h
      · exact TransCmp.lt_trans h (hs.1 a ha)
    · simpa [Sorted, List.pairwise_cons] using hs
    · rename_i h
      simp only [Sorted, List.pairwise_cons]
      refine ⟨?_, ih hs.2⟩
      intro a ha
      rcases mem_mapEmplace ha with ha | ha
      · exact hs.1 a ha
      · subst ha
        simpa using (OrientedCmp.gt_iff_lt (cmp := compare)).1 h

end mapEmplace
section fold
variable {κ ν α : Type} [Ord κ] (kf : α → κ) (vf : α → ν)

/-- the shape of both emplace loops of `get_all_parameters` -/
def foldEmplace (xs : List α) (acc : List (κ × ν)) : List (κ × ν) :=
  xs.foldl (fun a e => mapEmplace a (kf e) (vf e)) acc

theorem foldEmplace_sub {xs : List α} {acc : List (κ × ν)} {x : κ × ν} (h : x ∈ acc) : x ∈ foldEmplace kf vf xs acc := by
  induction xs generalizing acc with
  | nil => simpa [foldEmplace] using h
  | cons e rest ih => exact ih (mem_mapEmplace_of_mem h)

theorem foldEmplace_mem {xs : List α} {acc : List (κ × ν)} {x : κ × ν} (h : x ∈ foldEmplace kf vf xs acc) :
    x ∈ acc ∨ ∃ e ∈ xs, x = (kf e, vf e) := by
  induction xs generalizing acc with
  | nil => exact Or.inl (by simpa [foldEmplace] using h)
  | cons e rest ih =>
    rcases ih (acc := mapEmplace acc (kf e) (vf e)) h with h | ⟨e', he', h⟩
    · rcases mem_mapEmplace h with h | h
      · exact Or.inl h
      · exact Or.inr ⟨e, by simp, h⟩
    · exact Or.inr ⟨e', by simp [he'], h⟩

theorem foldEmplace_sorted [TransOrd κ] {xs : List α} {acc : List (κ × ν)} (h : Sorted acc) : Sorted (foldEmplace kf vf xs acc) := by
  induction xs generalizing acc with
  | nil => simpa [foldEmplace] using h
  | cons e rest ih => exact ih (sorted_mapEmplace h _ _)

/-- completeness of the loop for a functional relation `P` that every entry satisfies -/
theorem foldEmplace_complete [LawfulEqOrd κ] (P : κ → ν → Prop) (hf : ∀ k v v', P k v → P k v' → v = v')
    {xs : List α} {acc : List (κ × ν)} (hacc : ∀ x ∈ acc, P x.1 x.2) (hxs : ∀ e ∈ xs, P (kf e) (vf e)) :
    ∀ e ∈ xs, (kf e, vf e) ∈ foldEmplace kf vf xs acc := by
  induction xs generalizing acc with
  | nil => simp
  | cons e rest ih =>
    have hacc' : ∀ x ∈ mapEmplace acc (kf e) (vf e), P x.1 x.2 := by
      intro x hx
      rcases mem_mapEmplace hx with hx | hx
      · exact hacc x hx
      · subst hx; exact hxs e (by simp)
    intro e' he'
    rcases List.mem_cons.1 he' with he' | he'
    · subst he'
      apply foldEmplace_sub (xs := rest)
      rcases mapEmplace_self acc (kf e') (vf e') with h | ⟨v', h⟩
      · exact h
      · have := hf _ _ _ (hacc _ h) (hxs e' (by simp))
        simp only at this
        subst this
        exact mem_mapEmplace_of_mem h
    · exact ih hacc' (fun e he => hxs e (by simp [he])) e' he'

end fold


/-! ### heap access -/
namespace Reg

@[simp] theorem size_put (r : Reg) (m : MId) (st : MState) : (r.put m st).size = r.size := by
  simp [Reg.put, Reg.size]

theorem get_put_self {r : Reg} {m : MId} (h : m < r.size) (st : MState) : (r.put m st).get m = st := by
  simp [Reg.get, Reg.put, Reg.size] at *
  simp [h]

theorem get_put_ne {r : Reg} {m m' : MId} (h : m' ≠ m) (st : MState) : (r.put m st).get m' = r.get m' := by
  simp [Reg.get, Reg.put, Ne.symm h]

theorem get_of_size_le {r : Reg} {m : MId} (h : r.size ≤ m) : r.get m = {} := by
  simp [Reg.get, Reg.size] at *
  simp [h]

theorem get_newModel (r : Reg) (m : MId) : r.newModel.get m = r.get m := by
  simp only [Reg.get, Reg.newModel, List.getD_eq_getElem?_getD]
  rcases Nat.lt_trichotomy m r.models.length with h | h | h
  · simp [List.getElem?_append_left h]
  · subst h; simp
  · have h1 : r.models.length ≤ m := Nat.le_of_lt h
    have h2 : (r.models ++ [({} : MState)]).length ≤ m := by simp; omega
    rw [List.getElem?_eq_none h2, List.getElem?_eq_none h1]

end Reg
namespace Reg

/-! ### reachability and has_submodel -/

theorem Reach.head_cases {r : Reg} {a t : MId} (h : r.Reach a t) : ∃ b, r.child a b ∧ (b = t ∨ r.Reach b t) := by
  cases h with
  | single h => exact ⟨_, h, Or.inl rfl⟩
  | step h h' => exact ⟨_, h, Or.inr h'⟩

theorem Reach.trans {r : Reg} {a b c : MId} (h1 : r.Reach a b) (h2 : r.Reach b c) : r.Reach a c := by
  induction h1 with
  | single h => exact .step h h2
  | step h _ ih => exact .step h (ih h2)

theorem Reach.rank_lt {r : Reg} {rk : MId → Nat} (hrk : ∀ m c, r.child m c → rk c < rk m) {a b : MId}
    (h : r.Reach a b) : rk b < rk a := by
  induction h with
  | single h => exact hrk _ _ h
  | step h _ ih => exact Nat.lt_trans ih (hrk _ _ h)

theorem hasSubList_false {rec : MId → Res Bool} {t : MId} {l : List MId} (h : hasSubList rec t l = .ok false) :
    ∀ sm ∈ l, sm ≠ t ∧ rec sm = .ok false := by
  induction l with
  | nil => simp
  | cons sm rest ih =>
    simp only [hasSubList] at h
    split at h
    · simp at h
    · split at h
      · simp at h
      · rename_i hne _ hrec
        intro x hx
        rcases List.mem_cons.1 hx with hx | hx
        · subst hx; exact ⟨hne, hrec⟩
        · exact ih h x hx
      · simp at h
      · simp at h

theorem hasSubList_true {rec : MId → Res Bool} {t : MId} {l : List MId} (h : hasSubList rec t l = .ok true) :
    ∃ sm ∈ l, sm = t ∨ rec sm = .ok true := by
  induction l with
  | nil => simp [hasSubList] at h
  | cons sm rest ih =>
    simp only [hasSubList] at h
    split at h
    · rename_i heq; exact ⟨sm, by simp, Or.inl heq⟩
    · split at h
      · rename_i hrec; exact ⟨sm, by simp, Or.inr hrec⟩
      · obtain ⟨x, hx, hx'⟩ := ih h
        exact ⟨x, by simp [hx], hx'⟩
      · simp at h
      · simp at h

theorem hasSubList_ok {rec : MId → Res Bool} {t : MId} {l : List MId} (h : ∀ sm ∈ l, ∃ b, rec sm = .ok b) :
    ∃ b, hasSubList rec t l = .ok b := by
  induction l with
  | nil => exact ⟨false, rfl⟩
  | cons sm rest ih =>
    simp only [hasSubList]
    split
    · exact ⟨true, rfl⟩
    · obtain ⟨b, hb⟩ := h sm (by simp)
      rw [hb]
      cases b
      · exact ih (fun x hx => h x (by simp [hx]))
      · exact ⟨true, rfl⟩

/-- `has_submodel` answering `false` is right: the target is not below. -/
theorem hasSub_false {r : Reg} {t : MId} {f : Nat} {m : MId} (h : hasSub r t f m = .ok false) : ¬ r.Reach m t := by
  induction f generalizing m with
  | zero => simp [hasSub] at h
  | succ f ih =>
    simp only [hasSub] at h
    intro hr
    obtain ⟨b, hb, hb'⟩ := hr.head_cases
    have := hasSubList_false h b hb
    rcases hb' with hb' | hb'
    · exact this.1 hb'
    · exact ih this.2 hb'

/-- `has_submodel` answering `true` is right. -/
theorem hasSub_true {r : Reg} {t : MId} {f : Nat} {m : MId} (h : hasSub r t f m = .ok true) : r.Reach m t := by
  induction f generalizing m with
  | zero => simp [hasSub] at h
  | succ f ih =>
    simp only [hasSub] at h
    obtain ⟨sm, hsm, h'⟩ := hasSubList_true h
    rcases h' with h' | h'
    · subst h'; exact .single hsm
    · exact .step hsm (ih h')

/-! ### the fuel bound -/

/-- pigeonhole: a duplicate-free list of numbers below `n` has at most `n` elements -/
theorem length_le_of_nodup_of_lt {l : List Nat} {n : Nat} (hn : l.Nodup) (hb : ∀ x ∈ l, x < n) : l.length ≤ n := by
  induction n generalizing l with
  | zero =>
    cases l with
    | nil => simp
    | cons a _ => exact absurd (hb a (by simp)) (Nat.not_lt_zero _)
  | succ n ih =>
    have h1 : (l.erase n).Nodup := hn.erase n
    have h2 : ∀ x ∈ l.erase n, x < n := by
      intro x hx
      have := (List.Nodup.mem_erase_iff hn).1 hx
      have := hb x this.2
      omega
    have h3 := ih h1 h2
    have h4 : l.length ≤ (l.erase n).length + 1 := by
      rw [List.length_erase]; split <;> omega
    omega

/-- a descending chain of models, newest first -/
def Chain (r : Reg) (rk : MId → Nat) (ch : List MId) : Prop :=
  ch.Pairwise (fun a b => rk a < rk b) ∧ ∀ x ∈ ch, x < r.size

theorem Chain.length_le {r : Reg} {rk : MId → Nat} {ch : List MId} (h : Chain r rk ch) : ch.length ≤ r.size :=
  length_le_of_nodup_of_lt (h.1.imp (fun {a b} hab heq => by subst heq; exact Nat.lt_irrefl _ hab)) h.2

theorem Chain.cons {r : Reg} {rk : MId → Nat} (hrk : ∀ m c, r.child m c → rk c < rk m) (hcl : ∀ m c, r.child m c → c < r.size)
    {m c : MId} {vis : List MId} (h : Chain r rk (m :: vis)) (hc : r.child m c) : Chain r rk (c :: m :: vis) := by
  refine ⟨List.pairwise_cons.2 ⟨?_, h.1⟩, ?_⟩
  · intro x hx
    have hcm := hrk _ _ hc
    rcases List.mem_cons.1 hx with hx | hx
    · subst hx; exact hcm
    · exact Nat.lt_trans hcm ((List.pairwise_cons.1 h.1).1 x hx)
  · intro x hx
    rcases List.mem_cons.1 hx with hx | hx
    · subst hx; exact hcl _ _ hc
    · exact h.2 x hx

theorem hasSub_total_aux {r : Reg} {rk : MId → Nat} (hrk : ∀ m c, r.child m c → rk c < rk m)
    (hcl : ∀ m c, r.child m c → c < r.size) (t : MId) :
    ∀ (f : Nat) (m : MId) (vis : List MId), Chain r rk (m :: vis) → r.size ≤ f + vis.length → ∃ b, hasSub r t f m = .ok b := by
  intro f
  induction f with
  | zero =>
    intro m vis hch hsz
    have := hch.length_le
    simp at this hsz
    omega
  | succ f ih =>
    intro m vis hch hsz
    simp only [hasSub]
    apply hasSubList_ok
    intro c hc
    exact ih c (m :: vis) (hch.cons hrk hcl hc) (by simp; omega)

end Reg


/-! ### enumeration -/

theorem ResolvesP.functional {r : Reg} {m : MId} {path : Path} {p p' : PId}
    (h : ResolvesP r m path p) (h' : ResolvesP r m path p') : p = p' := by
  induction h with
  | here h1 =>
    cases h' with
    | here h2 => rw [h1] at h2; exact Option.some.inj h2
    | sub _ h3 => cases h3
  | sub h1 h2 ih =>
    cases h' with
    | here _ => cases h2
    | sub h3 h4 =>
      rw [h1] at h3
      cases Option.some.inj h3
      exact ih h4

theorem ResolvesM.functional {r : Reg} {m : MId} {path : Path} {c c' : MId}
    (h : ResolvesM r m path c) (h' : ResolvesM r m path c') : c = c' := by
  induction h with
  | here h1 =>
    cases h' with
    | here h2 => rw [h1] at h2; exact Option.some.inj h2
    | sub _ h3 => cases h3
  | sub h1 h2 ih =>
    cases h' with
    | here _ => cases h2
    | sub h3 h4 =>
      rw [h1] at h3
      cases Option.some.inj h3
      exact ih h4

namespace Reg

theorem emplaceOwn_eq (kv : List (Name × PId)) (acc : PMap) :
    emplaceOwn kv acc = foldEmplace (fun e : Name × PId => [e.1]) (·.2) kv acc := rfl

theorem emplaceSub_eq (pre : Name) (sub acc : PMap) :
    emplaceSub pre sub acc = foldEmplace (fun e : Path × PId => pre :: e.1) (·.2) sub acc := rfl

theorem getAllSubs_ok {rec : MId → Res PMap} {kv : List (Name × MId)} {acc : PMap}
    (h : ∀ e ∈ kv, ∃ l, rec e.2 = .ok l) : ∃ l, getAllSubs rec kv acc = .ok l := by
  induction kv generalizing acc with
  | nil => exact ⟨acc, rfl⟩
  | cons e rest ih =>
    obtain ⟨n, sm⟩ := e
    obtain ⟨l, hl⟩ := h (n, sm) (by simp)
    simp only [getAllSubs, hl]
    exact ih (fun e he => h e (by simp [he]))

theorem getAllSubs_rec_ok {rec : MId → Res PMap} {kv : List (Name × MId)} {acc l : PMap}
    (h : getAllSubs rec kv acc = .ok l) : ∀ e ∈ kv, ∃ sub, rec e.2 = .ok sub := by
  induction kv generalizing acc with
  | nil => simp
  | cons e rest ih =>
    obtain ⟨n, sm⟩ := e
    simp only [getAllSubs] at h
    split at h
    · rename_i sub hsub
      intro e he
      rcases List.mem_cons.1 he with he | he
      · subst he; exact ⟨sub, hsub⟩
      · exact ih h e he
    · simp at h
    · simp at h

theorem getAllSubs_sorted {rec : MId → Res PMap} {kv : List (Name × MId)} {acc l : PMap}
    (h : getAllSubs rec kv acc = .ok l) (hs : Sorted acc) : Sorted l := by
  induction kv generalizing acc with
  | nil => simp only [getAllSubs, Res.ok.injEq] at h; subst h; exact hs
  | cons e rest ih =>
    obtain ⟨n, sm⟩ := e
    simp only [getAllSubs] at h
    split at h
    · exact ih h (by rw [emplaceSub_eq]; exact foldEmplace_sorted _ _ hs)
    · simp at h
    · simp at h

/-- `get_all_parameters` returns a `std::map`: strictly increasing keys. -/
theorem getAll_sorted {r : Reg} {f : Nat} {m : MId} {l : PMap} (h : getAll r f m = .ok l) : Sorted l := by
  cases f with
  | zero => simp [getAll] at h
  | succ f =>
    simp only [getAll] at h
    refine getAllSubs_sorted h ?_
    rw [emplaceOwn_eq]
    exact foldEmplace_sorted _ _ (by simp [Sorted])

/-- the outer loop, for a recursive call that meets its specification -/
theorem getAllSubs_spec {r : Reg} {m : MId} {rec : MId → Res PMap}
    (hrec : ∀ sm sub, rec sm = .ok sub → ∀ path p, (path, p) ∈ sub ↔ ResolvesP r sm path p)
    {kv : List (Name × MId)} (hkv : ∀ e ∈ kv, kvFind (r.get m).subKv e.1 = some e.2)
    {acc l : PMap} (hacc : ∀ x ∈ acc, ResolvesP r m x.1 x.2) (h : getAllSubs rec kv acc = .ok l) :
    (∀ x ∈ l, ResolvesP r m x.1 x.2) ∧ (∀ x ∈ acc, x ∈ l) ∧
    (∀ e ∈ kv, ∀ sub, rec e.2 = .ok sub → ∀ x ∈ sub, (e.1 :: x.1, x.2) ∈ l) := by
  induction kv generalizing acc with
  | nil =>
    simp only [getAllSubs, Res.ok.injEq] at h; subst h
    exact ⟨hacc, fun x hx => hx, by simp⟩
  | cons e rest ih =>
    obtain ⟨n, sm⟩ := e
    simp only [getAllSubs] at h
    split at h
    · rename_i sub hsub
      have hfind := hkv (n, sm) (by simp)
      have hsubP : ∀ x ∈ sub, ResolvesP r m (n :: x.1) x.2 := fun x hx =>
        .sub hfind ((hrec sm sub hsub x.1 x.2).1 hx)
      have hacc' : ∀ x ∈ emplaceSub n sub acc, ResolvesP r m x.1 x.2 := by
        intro x hx
        rw [emplaceSub_eq] at hx
        rcases foldEmplace_mem _ _ hx with hx | ⟨e, he, hx⟩
        · exact hacc x hx
        · subst hx; exact hsubP e he
      obtain ⟨h1, h2, h3⟩ := ih (fun e he => hkv e (by simp [he])) hacc' h
      refine ⟨h1, fun x hx => h2 x (by rw [emplaceSub_eq]; exact foldEmplace_sub _ _ hx), ?_⟩
      intro e he sub' hsub' x hx
      rcases List.mem_cons.1 he with he | he
      · subst he
        simp only at hsub'
        rw [hsub] at hsub'
        cases hsub'
        apply h2
        rw [emplaceSub_eq]
        exact foldEmplace_complete (fun e : Path × PId => n :: e.1) (·.2) (fun k v => ResolvesP r m k v)
          (fun _ _ _ a b => a.functional b) hacc hsubP x hx
      · exact h3 e he sub' hsub' x hx
    · simp at h
    · simp at h

/-- `get_all_parameters` lists exactly the (path, parameter) pairs that resolve;
needs only that the two maps of every model have one entry per name. -/
theorem getAll_spec {r : Reg} (hwf : ∀ m, (r.get m).wf) {f : Nat} {m : MId} {l : PMap} (h : getAll r f m = .ok l) :
    ∀ path p, (path, p) ∈ l ↔ ResolvesP r m path p := by
  induction f generalizing m l with
  | zero => simp [getAll] at h
  | succ f ih =>
    simp only [getAll] at h
    have hown : ∀ x ∈ emplaceOwn (r.get m).paramKv [], ResolvesP r m x.1 x.2 := by
      intro x hx
      rw [emplaceOwn_eq] at hx
      rcases foldEmplace_mem _ _ hx with hx | ⟨e, he, hx⟩
      · simp at hx
      · subst hx; exact .here (kvFind_of_mem (hwf m).pkeys_nodup he)
    obtain ⟨h1, h2, h3⟩ := getAllSubs_spec (r := r) (m := m) (fun sm sub hs => ih hs)
      (fun e he => kvFind_of_mem (hwf m).skeys_nodup he) hown h
    intro path p
    constructor
    · exact fun hx => h1 _ hx
    · intro hres
      cases hres with
      | here hfind =>
        apply h2
        rw [emplaceOwn_eq]
        rename_i n
        exact foldEmplace_complete (fun e : Name × PId => [e.1]) (·.2) (fun k v => ResolvesP r m k v)
          (fun _ _ _ a b => a.functional b) (by simp)
          (fun e he => .here (kvFind_of_mem (hwf m).pkeys_nodup he)) (n, p) (kvFind_some_mem hfind)
      | sub hfind hsub =>
        rename_i n c path'
        have hmem := kvFind_some_mem hfind
        obtain ⟨sub, hs⟩ := getAllSubs_rec_ok h (n, c) hmem
        exact h3 (n, c) hmem sub hs (path', p) ((ih hs path' p).2 hsub)

end Reg

namespace Reg

theorem getAll_total_aux {r : Reg} {rk : MId → Nat} (hwf : ∀ m, (r.get m).wf) (hrk : ∀ m c, r.child m c → rk c < rk m)
    (hcl : ∀ m c, r.child m c → c < r.size) :
    ∀ (f : Nat) (m : MId) (vis : List MId), Chain r rk (m :: vis) → r.size ≤ f + vis.length → ∃ l, getAll r f m = .ok l := by
  intro f
  induction f with
  | zero =>
    intro m vis hch hsz
    have := hch.length_le
    simp at this hsz
    omega
  | succ f ih =>
    intro m vis hch hsz
    simp only [getAll]
    apply getAllSubs_ok
    intro e he
    have hc : r.child m e.2 := ((hwf m).sset_iff e.2).2 (List.mem_map.2 ⟨e, he, rfl⟩)
    exact ih e.2 (m :: vis) (hch.cons hrk hcl hc) (by simp; omega)

/-- Under the invariant the fuel `number of models` is enough: `has_submodel` returns. -/
theorem hasSub_total {r : Reg} (hi : r.inv) (t : MId) {m : MId} (hm : m < r.size) : ∃ b, hasSub r t r.size m = .ok b := by
  obtain ⟨rk, hrk⟩ := hi.acyclic
  exact hasSub_total_aux hrk hi.closed t r.size m [] ⟨by simp, by simpa using hm⟩ (by simp)

/-- Under the invariant the fuel `number of models` is enough: `get_all_parameters` returns. -/
theorem getAll_total {r : Reg} (hi : r.inv) {m : MId} (hm : m < r.size) : ∃ l, getAll r r.size m = .ok l := by
  obtain ⟨rk, hrk⟩ := hi.acyclic
  exact getAll_total_aux hi.wf hrk hi.closed r.size m [] ⟨by simp, by simpa using hm⟩ (by simp)

/-! ### lookups -/

theorem getParameter_nil (r : Reg) (m : MId) : getParameter r m [] = .error := by
  simp [getParameter, getSemiterminal]

theorem getParameter_single (r : Reg) (m : MId) (n : Name) :
    getParameter r m [n] = match kvFind (r.get m).paramKv n with | none => .error | some p => .ok p := by
  rcases h : kvFind (r.get m).paramKv n with _ | p <;> simp [getParameter, getSemiterminal, walk, h]

theorem getParameter_cons_cons (r : Reg) (m : MId) (n n' : Name) (rest : List Name) :
    getParameter r m (n :: n' :: rest) =
      match kvFind (r.get m).subKv n with | none => .error | some c => getParameter r c (n' :: rest) := by
  simp only [getParameter, getSemiterminal, List.dropLast_cons_cons, walk, List.getLast?_cons_cons]
  cases kvFind (r.get m).subKv n <;> simp

theorem getSubmodel_nil (r : Reg) (m : MId) : getSubmodel r m [] = .error := by
  simp [getSubmodel, getSemiterminal]

theorem getSubmodel_single (r : Reg) (m : MId) (n : Name) :
    getSubmodel r m [n] = match kvFind (r.get m).subKv n with | none => .error | some p => .ok p := by
  rcases h : kvFind (r.get m).subKv n with _ | p <;> simp [getSubmodel, getSemiterminal, walk, h]

theorem getSubmodel_cons_cons (r : Reg) (m : MId) (n n' : Name) (rest : List Name) :
    getSubmodel r m (n :: n' :: rest) =
      match kvFind (r.get m).subKv n with | none => .error | some c => getSubmodel r c (n' :: rest) := by
  simp only [getSubmodel, getSemiterminal, List.dropLast_cons_cons, walk, List.getLast?_cons_cons]
  cases kvFind (r.get m).subKv n <;> simp

theorem getParameter_ok_iff (r : Reg) (m : MId) (path : Path) (p : PId) :
    getParameter r m path = .ok p ↔ ResolvesP r m path p := by
  induction path generalizing m with
  | nil => rw [getParameter_nil]; constructor <;> intro h <;> cases h
  | cons n rest ih =>
    cases rest with
    | nil =>
      rw [getParameter_single]
      constructor
      · intro h; split at h
        · cases h
        · cases h; exact .here (by assumption)
      · intro h
        cases h with
        | here h => simp [h]
        | sub _ h => cases h
    | cons n' rest =>
      rw [getParameter_cons_cons]
      constructor
      · intro h; split at h
        · cases h
        · rename_i c hc; exact .sub hc ((ih c).1 h)
      · intro h
        cases h with
        | sub h1 h2 => simp only [h1]; exact (ih _).2 h2

theorem getParameter_ne_crash (r : Reg) (m : MId) (path : Path) : getParameter r m path ≠ .crash := by
  induction path generalizing m with
  | nil => simp [getParameter_nil]
  | cons n rest ih =>
    cases rest with
    | nil => rw [getParameter_single]; split <;> simp
    | cons n' rest => rw [getParameter_cons_cons]; split <;> simp [ih]

theorem getSubmodel_ok_iff (r : Reg) (m : MId) (path : Path) (c : MId) :
    getSubmodel r m path = .ok c ↔ ResolvesM r m path c := by
  induction path generalizing m with
  | nil => rw [getSubmodel_nil]; constructor <;> intro h <;> cases h
  | cons n rest ih =>
    cases rest with
    | nil =>
      rw [getSubmodel_single]
      constructor
      · intro h; split at h
        · cases h
        · cases h; exact .here (by assumption)
      · intro h
        cases h with
        | here h => simp [h]
        | sub _ h => cases h
    | cons n' rest =>
      rw [getSubmodel_cons_cons]
      constructor
      · intro h; split at h
        · cases h
        · rename_i c' hc; exact .sub hc ((ih c').1 h)
      · intro h
        cases h with
        | sub h1 h2 => simp only [h1]; exact (ih _).2 h2

theorem getSubmodel_ne_crash (r : Reg) (m : MId) (path : Path) : getSubmodel r m path ≠ .crash := by
  induction path generalizing m with
  | nil => simp [getSubmodel_nil]
  | cons n rest ih =>
    cases rest with
    | nil => rw [getSubmodel_single]; split <;> simp
    | cons n' rest => rw [getSubmodel_cons_cons]; split <;> simp [ih]

end Reg

end Primitiv.Registry
