import PrimitivModel.Model.Registry
import PrimitivModel.Spec.Registry
/-
Helper lemmas of the `registry` family (C16): the container operations of
Model/Registry.lean, reachability in the submodel hierarchy, soundness of
`has_submodel`, the fuel bound, the enumeration and the lookups.
Core Lean only.
-/
namespace Primitiv.Registry
open Std

/-! ### kvFind / kvEmplace / setEmplace -/
section containers
variable {κ ν : Type} [DecidableEq κ]

theorem kvFind_some_mem {l : List (κ × ν)} {k : κ} {v : ν} (h : kvFind l k = some v) : (k, v) ∈ l := by
  induction l with
  | nil => simp [kvFind] at h
  | cons e rest ih =>
    obtain ⟨k', v'⟩ := e
    simp only [kvFind] at h
    split at h
    · simp_all
    · simp [ih h]

theorem kvFind_eq_none_iff {l : List (κ × ν)} {k : κ} : kvFind l k = none ↔ k ∉ l.map (·.1) := by
  induction l with
  | nil => simp [kvFind]
  | cons e rest ih =>
    obtain ⟨k', v'⟩ := e
    simp only [kvFind]
    split
    · simp_all
    · simp_all [eq_comm]

theorem kvFind_of_mem {l : List (κ × ν)} (hn : (l.map (·.1)).Nodup) {k : κ} {v : ν} (h : (k, v) ∈ l) :
    kvFind l k = some v := by
  induction l with
  | nil => simp at h
  | cons e rest ih =>
    obtain ⟨k', v'⟩ := e
    simp only [List.map_cons, List.nodup_cons] at hn
    simp only [kvFind]
    rcases List.mem_cons.1 h with h | h
    · simp_all
    · have : k' ≠ k := by
        intro hk; subst hk
        exact hn.1 (List.mem_map.2 ⟨(k', v), h, rfl⟩)
      simp [this, ih hn.2 h]

theorem kvFind_append (l : List (κ × ν)) (k k' : κ) (v : ν) :
    kvFind (l ++ [(k, v)]) k' = match kvFind l k' with
      | some x => some x
      | none => if k = k' then some v else none := by
  induction l with
  | nil => simp [kvFind]
  | cons e rest ih =>
    obtain ⟨k'', v''⟩ := e
    simp only [List.cons_append, kvFind]
    split <;> simp_all

theorem kvEmplace_of_none {l : List (κ × ν)} {k : κ} {v : ν} (h : kvFind l k = none) :
    kvEmplace l k v = l ++ [(k, v)] := by simp [kvEmplace, h]

theorem setEmplace_of_not_mem {α} [DecidableEq α] {s : List α} {a : α} (h : a ∉ s) : setEmplace s a = s ++ [a] := by
  simp [setEmplace, h]

end containers

section mapEmplace
variable {κ ν : Type} [Ord κ]

theorem mem_mapEmplace_of_mem {l : List (κ × ν)} {k : κ} {v : ν} {x : κ × ν} (h : x ∈ l) : x ∈ mapEmplace l k v := by
  induction l with
  | nil => simp at h
  | cons e rest ih =>
    obtain ⟨k', v'⟩ := e
    simp only [mapEmplace]
    split
    · simp [h]
    · exact h
    · rcases List.mem_cons.1 h with h | h
      · simp [h]
      · simp [ih h]

theorem mem_mapEmplace {l : List (κ × ν)} {k : κ} {v : ν} {x : κ × ν} (h : x ∈ mapEmplace l k v) : x ∈ l ∨ x = (k, v) := by
  induction l with
  | nil => simp_all [mapEmplace]
  | cons e rest ih =>
    obtain ⟨k', v'⟩ := e
    simp only [mapEmplace] at h
    split at h
    · simp only [List.mem_cons] at h ⊢; rcases h with h | h | h <;> simp [h]
    · exact Or.inl h
    · rcases List.mem_cons.1 h with h | h
      · simp [h]
      · rcases ih h with h | h
        · simp [h]
        · exact Or.inr h

theorem mapEmplace_self [LawfulEqOrd κ] (l : List (κ × ν)) (k : κ) (v : ν) :
    (k, v) ∈ mapEmplace l k v ∨ ∃ v', (k, v') ∈ l := by
  induction l with
  | nil => simp [mapEmplace]
  | cons e rest ih =>
    obtain ⟨k', v'⟩ := e
    simp only [mapEmplace]
    split
    · simp
    · rename_i h
      have := LawfulEqOrd.eq_of_compare h
      subst this
      exact Or.inr ⟨v', by simp⟩
    · rcases ih with h | ⟨w, h⟩
      · simp [h]
      · exact Or.inr ⟨w, by simp [h]⟩

/-- strictly increasing keys: the representation invariant of `std::map` -/
def Sorted (l : List (κ × ν)) : Prop := l.Pairwise (fun a b => compare a.1 b.1 = .lt)

theorem sorted_mapEmplace [TransOrd κ] {l : List (κ × ν)} (hs : Sorted l) (k : κ) (v : ν) : Sorted (mapEmplace l k v) := by
  induction l with
  | nil => simp [mapEmplace, Sorted]
  | cons e rest ih =>
    obtain ⟨k', v'⟩ := e
    simp only [Sorted, List.pairwise_cons] at hs
    simp only [mapEmplace]
    split
    · rename_i h
      simp only [Sorted, List.pairwise_cons]
      refine ⟨?_, hs⟩
      intro a ha
      rcases List.mem_cons.1 ha with ha | ha
      · simpa [ha] using h
      · exact TransCmp.lt_trans h (hs.1 a ha)
    · simpa [Sorted, List.pairwise_cons] using hs
    · rename_i h
      simp only [Sorted, List.pairwise_cons]
      refine ⟨?_, ih hs.2⟩
      intro a ha
      rcases mem_mapEmplace ha with ha | ha
      · exact hs.1 a ha
      · subst ha
        simpa using (OrientedCmp.gt_iff_lt (cmp := compare)).1 h

end mapEmplace
section fold
variable {κ ν α : Type} [Ord κ] (kf : α → κ) (vf : α → ν)

/-- the shape of both emplace loops of `get_all_parameters` -/
def foldEmplace (xs : List α) (acc : List (κ × ν)) : List (κ × ν) :=
  xs.foldl (fun a e => mapEmplace a (kf e) (vf e)) acc

theorem foldEmplace_sub {xs : List α} {acc : List (κ × ν)} {x : κ × ν} (h : x ∈ acc) : x ∈ foldEmplace kf vf xs acc := by
  induction xs generalizing acc with
  | nil => simpa [foldEmplace] using h
  | cons e rest ih => exact ih (mem_mapEmplace_of_mem h)

theorem foldEmplace_mem {xs : List α} {acc : List (κ × ν)} {x : κ × ν} (h : x ∈ foldEmplace kf vf xs acc) :
    x ∈ acc ∨ ∃ e ∈ xs, x = (kf e, vf e) := by
  induction xs generalizing acc with
  | nil => exact Or.inl (by simpa [foldEmplace] using h)
  | cons e rest ih =>
    rcases ih (acc := mapEmplace acc (kf e) (vf e)) h with h | ⟨e', he', h⟩
    · rcases mem_mapEmplace h with h | h
      · exact Or.inl h
      · exact Or.inr ⟨e, by simp, h⟩
    · exact Or.inr ⟨e', by simp [he'], h⟩

theorem foldEmplace_sorted [TransOrd κ] {xs : List α} {acc : List (κ × ν)} (h : Sorted acc) : Sorted (foldEmplace kf vf xs acc) := by
  induction xs generalizing acc with
  | nil => simpa [foldEmplace] using h
  | cons e rest ih => exact ih (sorted_mapEmplace h _ _)

/-- completeness of the loop for a functional relation `P` that every entry satisfies -/
theorem foldEmplace_complete [LawfulEqOrd κ] (P : κ → ν → Prop) (hf : ∀ k v v', P k v → P k v' → v = v')
    {xs : List α} {acc : List (κ × ν)} (hacc : ∀ x ∈ acc, P x.1 x.2) (hxs : ∀ e ∈ xs, P (kf e) (vf e)) :
    ∀ e ∈ xs, (kf e, vf e) ∈ foldEmplace kf vf xs acc := by
  induction xs generalizing acc with
  | nil => simp
  | cons e rest ih =>
    have hacc' : ∀ x ∈ mapEmplace acc (kf e) (vf e), P x.1 x.2 := by
      intro x hx
      rcases mem_mapEmplace hx with hx | hx
      · exact hacc x hx
      · subst hx; exact hxs e (by simp)
    intro e' he'
    rcases List.mem_cons.1 he' with he' | he'
    · subst he'
      apply foldEmplace_sub (xs := rest)
      rcases mapEmplace_self acc (kf e') (vf e') with h | ⟨v', h⟩
      · exact h
      · have := hf _ _ _ (hacc _ h) (hxs e' (by simp))
        simp only at this
        subst this
        exact mem_mapEmplace_of_mem h
    · exact ih hacc' (fun e he => hxs e (by simp [he])) e' he'

end fold


/-! ### heap access -/
namespace Reg

@[simp] theorem size_put (r : Reg) (m : MId) (st : MState) : (r.put m st).size = r.size := by
  simp [Reg.put, Reg.size]

theorem get_put_self {r : Reg} {m : MId} (h : m < r.size) (st : MState) : (r.put m st).get m = st := by
  simp [Reg.get, Reg.put, Reg.size] at *
  simp [h]

theorem get_put_ne {r : Reg} {m m' : MId} (h : m' ≠ m) (st : MState) : (r.put m st).get m' = r.get m' := by
  simp [Reg.get, Reg.put, Ne.symm h]

theorem get_of_size_le {r : Reg} {m : MId} (h : r.size ≤ m) : r.get m = {} := by
  simp [Reg.get, Reg.size] at *
  simp [h]

theorem get_newModel (r : Reg) (m : MId) : r.newModel.get m = r.get m := by
  simp only [Reg.get, Reg.newModel, List.getD_eq_getElem?_getD]
  rcases Nat.lt_trichotomy m r.models.length with h | h | h
  · simp [List.getElem?_append_left h]
  · subst h; simp
  · have h1 : r.models.length ≤ m := Nat.le_of_lt h
    have h2 : (r.models ++ [({} : MState)]).length ≤ m := by simp; omega
    rw [List.getElem?_eq_none h2, List.getElem?_eq_none h1]

end Reg
namespace Reg

/-! ### reachability and has_submodel -/

theorem Reach.head_cases {r : Reg} {a t : MId} (h : r.Reach a t) : ∃ b, r.child a b ∧ (b = t ∨ r.Reach b t) := by
  cases h with
  | single h => exact ⟨_, h, Or.inl rfl⟩
  | step h h' => exact ⟨_, h, Or.inr h'⟩

theorem Reach.trans {r : Reg} {a b c : MId} (h1 : r.Reach a b) (h2 : r.Reach b c) : r.Reach a c := by
  induction h1 with
  | single h => exact .step h h2
  | step h _ ih => exact .step h (ih h2)

theorem Reach.rank_lt {r : Reg} {rk : MId → Nat} (hrk : ∀ m c, r.child m c → rk c < rk m) {a b : MId}
    (h : r.Reach a b) : rk b < rk a := by
  induction h with
  | single h => exact hrk _ _ h
  | step h _ ih => exact Nat.lt_trans ih (hrk _ _ h)

theorem hasSubList_false {rec : MId → Res Bool} {t : MId} {l : List MId} (h : hasSubList rec t l = .ok false) :
    ∀ sm ∈ l, sm ≠ t ∧ rec sm = .ok false := by
  induction l with
  | nil => simp
  | cons sm rest ih =>
    simp only [hasSubList] at h
    split at h
    · simp at h
    · split at h
      · simp at h
      · rename_i hne _ hrec
        intro x hx
        rcases List.mem_cons.1 hx with hx | hx
        · subst hx; exact ⟨hne, hrec⟩
        · exact ih h x hx
      · simp at h
      · simp at h

theorem hasSubList_true {rec : MId → Res Bool} {t : MId} {l : List MId} (h : hasSubList rec t l = .ok true) :
    ∃ sm ∈ l, sm = t ∨ rec sm = .ok true := by
  induction l with
  | nil => simp [hasSubList] at h
  | cons sm rest ih =>
    simp only [hasSubList] at h
    split at h
    · rename_i heq; exact ⟨sm, by simp, Or.inl heq⟩
    · split at h
      · rename_i hrec; exact ⟨sm, by simp, Or.inr hrec⟩
      · obtain ⟨x, hx, hx'⟩ := ih h
        exact ⟨x, by simp [hx], hx'⟩
      · simp at h
      · simp at h

theorem hasSubList_ok {rec : MId → Res Bool} {t : MId} {l : List MId} (h : ∀ sm ∈ l, ∃ b, rec sm = .ok b) :
    ∃ b, hasSubList rec t l = .ok b := by
  induction l with
  | nil => exact ⟨false, rfl⟩
  | cons sm rest ih =>
    simp only [hasSubList]
    split
    · exact ⟨true, rfl⟩
    · obtain ⟨b, hb⟩ := h sm (by simp)
      rw [hb]
      cases b
      · exact ih (fun x hx => h x (by simp [hx]))
      · exact ⟨true, rfl⟩

/-- `has_submodel` answering `false` is right: the target is not below. -/
theorem hasSub_false {r : Reg} {t : MId} {f : Nat} {m : MId} (h : hasSub r t f m = .ok false) : ¬ r.Reach m t := by
  induction f generalizing m with
  | zero => simp [hasSub] at h
  | succ f ih =>
    simp only [hasSub] at h
    intro hr
    obtain ⟨b, hb, hb'⟩ := hr.head_cases
    have := hasSubList_false h b hb
    rcases hb' with hb' | hb'
    · exact this.1 hb'
    · exact ih this.2 hb'

/-- `has_submodel` answering `true` is right. -/
theorem hasSub_true {r : Reg} {t : MId} {f : Nat} {m : MId} (h : hasSub r t f m = .ok true) : r.Reach m t := by
  induction f generalizing m with
  | zero => simp [hasSub] at h
  | succ f ih =>
    simp only [hasSub] at h
    obtain ⟨sm, hsm, h'⟩ := hasSubList_true h
    rcases h' with h' | h'
    · subst h'; exact .single hsm
    · exact .step hsm (ih h')

/-! ### the fuel bound -/

/-- pigeonhole: a duplicate-free list of numbers below `n` has at most `n` elements -/
theorem length_le_of_nodup_of_lt {l : List Nat} {n : Nat} (hn : l.Nodup) (hb : ∀ x ∈ l, x < n) : l.length ≤ n := by
  induction n generalizing l with
  | zero =>
    cases l with
    | nil => simp
    | cons a _ => exact absurd (hb a (by simp)) (Nat.not_lt_zero _)
  | succ n ih =>
    have h1 : (l.erase n).Nodup := hn.erase n
    have h2 : ∀ x ∈ l.erase n, x < n := by
      intro x hx
      have := (List.Nodup.mem_erase_iff hn).1 hx
      have := hb x this.2
      omega
    have h3 := ih h1 h2
    have h4 : l.length ≤ (l.erase n).length + 1 := by
      rw [List.length_erase]; split <;> omega
    omega

/-- a descending chain of models, newest first -/
def Chain (r : Reg) (rk : MId → Nat) (ch : List MId) : Prop :=
  ch.Pairwise (fun a b => rk a < rk b) ∧ ∀ x ∈ ch, x < r.size

theorem Chain.length_le {r : Reg} {rk : MId → Nat} {ch : List MId} (h : Chain r rk ch) : ch.length ≤ r.size :=
  length_le_of_nodup_of_lt (h.1.imp (fun {a b} hab heq => by subst heq; exact Nat.lt_irrefl _ hab)) h.2

theorem Chain.cons {r : Reg} {rk : MId → Nat} (hrk : ∀ m c, r.child m c → rk c < rk m) (hcl : ∀ m c, r.child m c → c < r.size)
    {m c : MId} {vis : List MId} (h : Chain r rk (m :: vis)) (hc : r.child m c) : Chain r rk (c :: m :: vis) := by
  refine ⟨List.pairwise_cons.2 ⟨?_, h.1⟩, ?_⟩
  · intro x hx
    have hcm := hrk _ _ hc
    rcases List.mem_cons.1 hx with hx | hx
    · subst hx; exact hcm
    · exact Nat.lt_trans hcm ((List.pairwise_cons.1 h.1).1 x hx)
  · intro x hx
    rcases List.mem_cons.1 hx with hx | hx
    · subst hx; exact hcl _ _ hc
    · exact h.2 x hx

theorem hasSub_total_aux {r : Reg} {rk : MId → Nat} (hrk : ∀ m c, r.child m c → rk c < rk m)
    (hcl : ∀ m c, r.child m c → c < r.size) (t : MId) :
    ∀ (f : Nat) (m : MId) (vis : List MId), Chain r rk (m :: vis) → r.size ≤ f + vis.length → ∃ b, hasSub r t f m = .ok b := by
  intro f
  induction f with
  | zero =>
    intro m vis hch hsz
    have := hch.length_le
    simp at this hsz
    omega
  | succ f ih =>
    intro m vis hch hsz
    simp only [hasSub]
    apply hasSubList_ok
    intro c hc
    exact ih c (m :: vis) (hch.cons hrk hcl hc) (by simp; omega)

end Reg


/-! ### enumeration -/

theorem ResolvesP.functional {r : Reg} {m : MId} {path : Path} {p p' : PId}
    (h : ResolvesP r m path p) (h' : ResolvesP r m path p') : p = p' := by
  induction h with
  | here h1 =>
    cases h' with
    | here h2 => rw [h1] at h2; exact Option.some.inj h2
    | sub _ h3 => cases h3
  | sub h1 h2 ih =>
    cases h' with
    | here _ => cases h2
    | sub h3 h4 =>
      rw [h1] at h3
      cases Option.some.inj h3
      exact ih h4

theorem ResolvesM.functional {r : Reg} {m : MId} {path : Path} {c c' : MId}
    (h : ResolvesM r m path c) (h' : ResolvesM r m path c') : c = c' := by
  induction h with
  | here h1 =>
    cases h' with
    | here h2 => rw [h1] at h2; exact Option.some.inj h2
    | sub _ h3 => cases h3
  | sub h1 h2 ih =>
    cases h' with
    | here _ => cases h2
    | sub h3 h4 =>
      rw [h1] at h3
      cases Option.some.inj h3
      exact ih h4

namespace Reg

theorem emplaceOwn_eq (kv : List (Name × PId)) (acc : PMap) :
    emplaceOwn kv acc = foldEmplace (fun e : Name × PId => [e.1]) (·.2) kv acc := rfl

theorem emplaceSub_eq (pre : Name) (sub acc : PMap) :
    emplaceSub pre sub acc = foldEmplace (fun e : Path × PId => pre :: e.1) (·.2) sub acc := rfl

theorem getAllSubs_ok {rec : MId → Res PMap} {kv : List (Name × MId)} {acc : PMap}
    (h : ∀ e ∈ kv, ∃ l, rec e.2 = .ok l) : ∃ l, getAllSubs rec kv acc = .ok l := by
  induction kv generalizing acc with
  | nil => exact ⟨acc, rfl⟩
  | cons e rest ih =>
    obtain ⟨n, sm⟩ := e
    obtain ⟨l, hl⟩ := h (n, sm) (by simp)
    simp only [getAllSubs, hl]
    exact ih (fun e he => h e (by simp [he]))

theorem getAllSubs_rec_ok {rec : MId → Res PMap} {kv : List (Name × MId)} {acc l : PMap}
    (h : getAllSubs rec kv acc = .ok l) : ∀ e ∈ kv, ∃ sub, rec e.2 = .ok sub := by
  induction kv generalizing acc with
  | nil => simp
  | cons e rest ih =>
    obtain ⟨n, sm⟩ := e
    simp only [getAllSubs] at h
    split at h
    · rename_i sub hsub
      intro e he
      rcases List.mem_cons.1 he with he | he
      · subst he; exact ⟨sub, hsub⟩
      · exact ih h e he
    · simp at h
    · simp at h

theorem getAllSubs_sorted {rec : MId → Res PMap} {kv : List (Name × MId)} {acc l : PMap}
    (h : getAllSubs rec kv acc = .ok l) (hs : Sorted acc) : Sorted l := by
  induction kv generalizing acc with
  | nil => simp only [getAllSubs, Res.ok.injEq] at h; subst h; exact hs
  | cons e rest ih =>
    obtain ⟨n, sm⟩ := e
    simp only [getAllSubs] at h
    split at h
    · exact ih h (by rw [emplaceSub_eq]; exact foldEmplace_sorted _ _ hs)
    · simp at h
    · simp at h

/-- `get_all_parameters` returns a `std::map`: strictly increasing keys. -/
theorem getAll_sorted {r : Reg} {f : Nat} {m : MId} {l : PMap} (h : getAll r f m = .ok l) : Sorted l := by
  cases f with
  | zero => simp [getAll] at h
  | succ f =>
    simp only [getAll] at h
    refine getAllSubs_sorted h ?_
    rw [emplaceOwn_eq]
    exact foldEmplace_sorted _ _ (by simp [Sorted])

/-- the outer loop, for a recursive call that meets its specification -/
theorem getAllSubs_spec {r : Reg} {m : MId} {rec : MId → Res PMap}
    (hrec : ∀ sm sub, rec sm = .ok sub → ∀ path p, (path, p) ∈ sub ↔ ResolvesP r sm path p)
    {kv : List (Name × MId)} (hkv : ∀ e ∈ kv, kvFind (r.get m).subKv e.1 = some e.2)
    {acc l : PMap} (hacc : ∀ x ∈ acc, ResolvesP r m x.1 x.2) (h : getAllSubs rec kv acc = .ok l) :
    (∀ x ∈ l, ResolvesP r m x.1 x.2) ∧ (∀ x ∈ acc, x ∈ l) ∧
    (∀ e ∈ kv, ∀ sub, rec e.2 = .ok sub → ∀ x ∈ sub, (e.1 :: x.1, x.2) ∈ l) := by
  induction kv generalizing acc with
  | nil =>
    simp only [getAllSubs, Res.ok.injEq] at h; subst h
    exact ⟨hacc, fun x hx => hx, by simp⟩
  | cons e rest ih =>
    obtain ⟨n, sm⟩ := e
    simp only [getAllSubs] at h
    split at h
    · rename_i sub hsub
      have hfind := hkv (n, sm) (by simp)
      have hsubP : ∀ x ∈ sub, ResolvesP r m (n :: x.1) x.2 := fun x hx =>
        .sub hfind ((hrec sm sub hsub x.1 x.2).1 hx)
      have hacc' : ∀ x ∈ emplaceSub n sub acc, ResolvesP r m x.1 x.2 := by
        intro x hx
        rw [emplaceSub_eq] at hx
        rcases foldEmplace_mem _ _ hx with hx | ⟨e, he, hx⟩
        · exact hacc x hx
        · subst hx; exact hsubP e he
      obtain ⟨h1, h2, h3⟩ := ih (fun e he => hkv e (by simp [he])) hacc' h
      refine ⟨h1, fun x hx => h2 x (by rw [emplaceSub_eq]; exact foldEmplace_sub _ _ hx), ?_⟩
      intro e he sub' hsub' x hx
      rcases List.mem_cons.1 he with he | he
      · subst he
        simp only at hsub'
        rw [hsub] at hsub'
        cases hsub'
        apply h2
        rw [emplaceSub_eq]
        exact foldEmplace_complete (fun e : Path × PId => n :: e.1) (·.2) (fun k v => ResolvesP r m k v)
          (fun _ _ _ a b => a.functional b) hacc hsubP x hx
      · exact h3 e he sub' hsub' x hx
    · simp at h
    · simp at h

/-- `get_all_parameters` lists exactly the (path, parameter) pairs that resolve;
needs only that the two maps of every model have one entry per name. -/
theorem getAll_spec {r : Reg} (hwf : ∀ m, (r.get m).wf) {f : Nat} {m : MId} {l : PMap} (h : getAll r f m = .ok l) :
    ∀ path p, (path, p) ∈ l ↔ ResolvesP r m path p := by
  induction f generalizing m l with
  | zero => simp [getAll] at h
  | succ f ih =>
    simp only [getAll] at h
    have hown : ∀ x ∈ emplaceOwn (r.get m).paramKv [], ResolvesP r m x.1 x.2 := by
      intro x hx
      rw [emplaceOwn_eq] at hx
      rcases foldEmplace_mem _ _ hx with hx | ⟨e, he, hx⟩
      · simp at hx
      · subst hx; exact .here (kvFind_of_mem (hwf m).pkeys_nodup he)
    obtain ⟨h1, h2, h3⟩ := getAllSubs_spec (r := r) (m := m) (fun sm sub hs => ih hs)
      (fun e he => kvFind_of_mem (hwf m).skeys_nodup he) hown h
    intro path p
    constructor
    · exact fun hx => h1 _ hx
    · intro hres
      cases hres with
      | here hfind =>
        apply h2
        rw [emplaceOwn_eq]
        rename_i n
        exact foldEmplace_complete (fun e : Name × PId => [e.1]) (·.2) (fun k v => ResolvesP r m k v)
          (fun _ _ _ a b => a.functional b) (by simp)
          (fun e he => .here (kvFind_of_mem (hwf m).pkeys_nodup he)) (n, p) (kvFind_some_mem hfind)
      | sub hfind hsub =>
        rename_i n c path'
        have hmem := kvFind_some_mem hfind
        obtain ⟨sub, hs⟩ := getAllSubs_rec_ok h (n, c) hmem
        exact h3 (n, c) hmem sub hs (path', p) ((ih hs path' p).2 hsub)

end Reg

namespace Reg

theorem getAll_total_aux {r : Reg} {rk : MId → Nat} (hwf : ∀ m, (r.get m).wf) (hrk : ∀ m c, r.child m c → rk c < rk m)
    (hcl : ∀ m c, r.child m c → c < r.size) :
    ∀ (f : Nat) (m : MId) (vis : List MId), Chain r rk (m :: vis) → r.size ≤ f + vis.length → ∃ l, getAll r f m = .ok l := by
  intro f
  induction f with
  | zero =>
    intro m vis hch hsz
    have := hch.length_le
    simp at this hsz
    omega
  | succ f ih =>
    intro m vis hch hsz
    simp only [getAll]
    apply getAllSubs_ok
    intro e he
    have hc : r.child m e.2 := ((hwf m).sset_iff e.2).2 (List.mem_map.2 ⟨e, he, rfl⟩)
    exact ih e.2 (m :: vis) (hch.cons hrk hcl hc) (by simp; omega)

/-- Under the invariant the fuel `number of models` is enough: `has_submodel` returns. -/
theorem hasSub_total {r : Reg} (hi : r.inv) (t : MId) {m : MId} (hm : m < r.size) : ∃ b, hasSub r t r.size m = .ok b := by
  obtain ⟨rk, hrk⟩ := hi.acyclic
  exact hasSub_total_aux hrk hi.closed t r.size m [] ⟨by simp, by simpa using hm⟩ (by simp)

/-- Under the invariant the fuel `number of models` is enough: `get_all_parameters` returns. -/
theorem getAll_total {r : Reg} (hi : r.inv) {m : MId} (hm : m < r.size) : ∃ l, getAll r r.size m = .ok l := by
  obtain ⟨rk, hrk⟩ := hi.acyclic
  exact getAll_total_aux hi.wf hrk hi.closed r.size m [] ⟨by simp, by simpa using hm⟩ (by simp)

/-! ### lookups -/

theorem getParameter_nil (r : Reg) (m : MId) : getParameter r m [] = .error := by
  simp [getParameter, getSemiterminal]

theorem getParameter_single (r : Reg) (m : MId) (n : Name) :
    getParameter r m [n] = match kvFind (r.get m).paramKv n with | none => .error | some p => .ok p := by
  rcases h : kvFind (r.get m).paramKv n with _ | p <;> simp [getParameter, getSemiterminal, walk, h]

theorem getParameter_cons_cons (r : Reg) (m : MId) (n n' : Name) (rest : List Name) :
    getParameter r m (n :: n' :: rest) =
      match kvFind (r.get m).subKv n with | none => .error | some c => getParameter r c (n' :: rest) := by
  simp only [getParameter, getSemiterminal, List.dropLast_cons_cons, walk, List.getLast?_cons_cons]
  cases kvFind (r.get m).subKv n <;> simp

theorem getSubmodel_nil (r : Reg) (m : MId) : getSubmodel r m [] = .error := by
  simp [getSubmodel, getSemiterminal]

theorem getSubmodel_single (r : Reg) (m : MId) (n : Name) :
    getSubmodel r m [n] = match kvFind (r.get m).subKv n with | none => .error | some p => .ok p := by
  rcases h : kvFind (r.get m).subKv n with _ | p <;> simp [getSubmodel, getSemiterminal, walk, h]

theorem getSubmodel_cons_cons (r : Reg) (m : MId) (n n' : Name) (rest : List Name) :
    getSubmodel r m (n :: n' :: rest) =
      match kvFind (r.get m).subKv n with | none => .error | some c => getSubmodel r c (n' :: rest) := by
  simp only [getSubmodel, getSemiterminal, List.dropLast_cons_cons, walk, List.getLast?_cons_cons]
  cases kvFind (r.get m).subKv n <;> simp

theorem getParameter_ok_iff (r : Reg) (m : MId) (path : Path) (p : PId) :
    getParameter r m path = .ok p ↔ ResolvesP r m path p := by
  induction path generalizing m with
  | nil => rw [getParameter_nil]; constructor <;> intro h <;> cases h
  | cons n rest ih =>
    cases rest with
    | nil =>
      rw [getParameter_single]
      constructor
      · intro h; split at h
        · cases h
        · cases h; exact .here (by assumption)
      · intro h
        cases h with
        | here h => simp [h]
        | sub _ h => cases h
    | cons n' rest =>
      rw [getParameter_cons_cons]
      constructor
      · intro h; split at h
        · cases h
        · rename_i c hc; exact .sub hc ((ih c).1 h)
      · intro h
        cases h with
        | sub h1 h2 => simp only [h1]; exact (ih _).2 h2

theorem getParameter_ne_crash (r : Reg) (m : MId) (path : Path) : getParameter r m path ≠ .crash := by
  induction path generalizing m with
  | nil => simp [getParameter_nil]
  | cons n rest ih =>
    cases rest with
    | nil => rw [getParameter_single]; split <;> simp
    | cons n' rest => rw [getParameter_cons_cons]; split <;> simp [ih]

theorem getSubmodel_ok_iff (r : Reg) (m : MId) (path : Path) (c : MId) :
    getSubmodel r m path = .ok c ↔ ResolvesM r m path c := by
  induction path generalizing m with
  | nil => rw [getSubmodel_nil]; constructor <;> intro h <;> cases h
  | cons n rest ih =>
    cases rest with
    | nil =>
      rw [getSubmodel_single]
      constructor
      · intro h; split at h
        · cases h
        · cases h; exact .here (by assumption)
      · intro h
        cases h with
        | here h => simp [h]
        | sub _ h => cases h
    | cons n' rest =>
      rw [getSubmodel_cons_cons]
      constructor
      · intro h; split at h
        · cases h
        · rename_i c' hc; exact .sub hc ((ih c').1 h)
      · intro h
        cases h with
        | sub h1 h2 => simp only [h1]; exact (ih _).2 h2

theorem getSubmodel_ne_crash (r : Reg) (m : MId) (path : Path) : getSubmodel r m path ≠ .crash := by
  induction path generalizing m with
  | nil => simp [getSubmodel_nil]
  | cons n rest ih =>
    cases rest with
    | nil => rw [getSubmodel_single]; split <;> simp
    | cons n' rest => rw [getSubmodel_cons_cons]; split <;> simp [ih]

end Reg


/-! ### the invariant is preserved -/

theorem nodup_snoc {α} {l : List α} {a : α} (h : l.Nodup) (ha : a ∉ l) : (l ++ [a]).Nodup := by
  rw [List.nodup_append]
  refine ⟨h, by simp, ?_⟩
  intro x hx y hy
  simp only [List.mem_singleton] at hy
  subst hy
  intro heq
  subst heq
  exact ha hx

theorem MState.wf_default : ({} : MState).wf := by
  constructor <;> simp

theorem MState.wf_addParam {st : MState} (h : st.wf) {n : Name} {p : PId} (hn : n ∉ st.nameSet) (hp : p ∉ st.paramSet) :
    ({ st with nameSet := setEmplace st.nameSet n, paramSet := setEmplace st.paramSet p,
               paramKv := kvEmplace st.paramKv n p } : MState).wf := by
  have hk : n ∉ st.paramKv.map (·.1) := fun hc => hn ((h.names_iff n).2 (Or.inl hc))
  have hk' : n ∉ st.subKv.map (·.1) := fun hc => hn ((h.names_iff n).2 (Or.inr hc))
  have hv : p ∉ st.paramKv.map (·.2) := fun hc => hp ((h.pset_iff p).2 hc)
  rw [setEmplace_of_not_mem hn, setEmplace_of_not_mem hp, kvEmplace_of_none (kvFind_eq_none_iff.2 hk)]
  obtain ⟨h1, h2, h3, h4, h5, h6, h7, h8, h9, h10, h11⟩ := h
  constructor
  · simpa using nodup_snoc h1 hk
  · exact h2
  · simpa using nodup_snoc h3 hv
  · exact h4
  · exact nodup_snoc h5 hn
  · exact nodup_snoc h6 hp
  · exact h7
  · intro x; simp only [List.mem_append, List.mem_singleton, List.map_append, List.map_cons, List.map_nil, h8 x]
    grind
  · intro x hx
    simp only [List.map_append, List.map_cons, List.map_nil, List.mem_append, List.mem_singleton] at hx
    rcases hx with hx | hx
    · exact h9 x hx
    · subst hx; exact hk'
  · intro x; simp only [List.mem_append, List.mem_singleton, List.map_append, List.map_cons, List.map_nil, h10 x]
  · exact h11

theorem MState.wf_addSub {st : MState} (h : st.wf) {n : Name} {c : MId} (hn : n ∉ st.nameSet) (hc : c ∉ st.subSet) :
    ({ st with nameSet := setEmplace st.nameSet n, subSet := setEmplace st.subSet c,
               subKv := kvEmplace st.subKv n c } : MState).wf := by
  have hk : n ∉ st.subKv.map (·.1) := fun hc => hn ((h.names_iff n).2 (Or.inr hc))
  have hk' : n ∉ st.paramKv.map (·.1) := fun hc => hn ((h.names_iff n).2 (Or.inl hc))
  have hv : c ∉ st.subKv.map (·.2) := fun hx => hc ((h.sset_iff c).2 hx)
  rw [setEmplace_of_not_mem hn, setEmplace_of_not_mem hc, kvEmplace_of_none (kvFind_eq_none_iff.2 hk)]
  obtain ⟨h1, h2, h3, h4, h5, h6, h7, h8, h9, h10, h11⟩ := h
  constructor
  · exact h1
  · simpa using nodup_snoc h2 hk
  · exact h3
  · simpa using nodup_snoc h4 hv
  · exact nodup_snoc h5 hn
  · exact h6
  · exact nodup_snoc h7 hc
  · intro x; simp only [List.mem_append, List.mem_singleton, List.map_append, List.map_cons, List.map_nil, h8 x]
    grind
  · intro x hx
    simp only [List.map_append, List.map_cons, List.map_nil, List.mem_append, List.mem_singleton]
    intro hx'
    rcases hx' with hx' | hx'
    · exact h9 x hx hx'
    · subst hx'; exact hk' hx
  · exact h10
  · intro x; simp only [List.mem_append, List.mem_singleton, List.map_append, List.map_cons, List.map_nil, h11 x]


namespace Reg

theorem child_lt_size {r : Reg} {m c : MId} (h : r.child m c) : m < r.size := by
  apply Nat.lt_of_not_le
  intro hle
  simp [child, get_of_size_le hle] at h

theorem inv_empty : Reg.empty.inv := by
  refine ⟨fun m => ?_, fun m c h => ?_, ⟨fun _ => 0, fun m c h => ?_⟩⟩
  · rw [get_of_size_le (by simp [Reg.size, Reg.empty])]; exact MState.wf_default
  · exact absurd (child_lt_size h) (by simp [Reg.size, Reg.empty])
  · exact absurd (child_lt_size h) (by simp [Reg.size, Reg.empty])

theorem inv_newModel {r : Reg} (h : r.inv) : r.newModel.inv := by
  refine ⟨fun m => ?_, fun m c hc => ?_, ?_⟩
  · rw [get_newModel]; exact h.wf m
  · simp only [child, get_newModel] at hc
    have := h.closed m c hc
    simp only [Reg.size, Reg.newModel, List.length_append, List.length_singleton] at this ⊢
    exact Nat.lt_succ_of_lt this
  · obtain ⟨rk, hrk⟩ := h.acyclic
    exact ⟨rk, fun m c hc => hrk m c (by simpa [child, get_newModel] using hc)⟩

theorem inv_newParam {r : Reg} (h : r.inv) (v : Bool) : (r.newParam v).inv := ⟨h.wf, h.closed, h.acyclic⟩

/-- what a parameter add does, case by case -/
theorem addParam_cases (r : Reg) (m : MId) (n : Name) (p : PId) :
    (kvFind (r.get m).paramKv n = some p ∧ r.addParam m n p = .ok r) ∨
    (kvFind (r.get m).paramKv n ≠ some p ∧ (n ∈ (r.get m).nameSet ∨ p ∈ (r.get m).paramSet) ∧ r.addParam m n p = .error r) ∨
    (kvFind (r.get m).paramKv n ≠ some p ∧ n ∉ (r.get m).nameSet ∧ p ∉ (r.get m).paramSet ∧
      r.addParam m n p = .ok (r.put m { r.get m with
        nameSet := setEmplace (r.get m).nameSet n, paramSet := setEmplace (r.get m).paramSet p,
        paramKv := kvEmplace (r.get m).paramKv n p })) := by
  unfold addParam
  by_cases h1 : kvFind (r.get m).paramKv n = some p
  · simp [h1]
  · by_cases h2 : n ∈ (r.get m).nameSet
    · simp [h1, h2]
    · by_cases h3 : p ∈ (r.get m).paramSet
      · simp [h1, h2, h3]
      · simp [h1, h2, h3]

/-- what a submodel add does, case by case -/
theorem addSub_cases (r : Reg) (m : MId) (n : Name) (c : MId) :
    (kvFind (r.get m).subKv n = some c ∧ r.addSub m n c = .ok r) ∨
    (kvFind (r.get m).subKv n ≠ some c ∧ c ≠ m ∧ hasSub r m r.size c = .crash ∧ r.addSub m n c = .crash) ∨
    (kvFind (r.get m).subKv n ≠ some c ∧
      (c = m ∨ hasSub r m r.size c = .error ∨ hasSub r m r.size c = .ok true ∨
        (hasSub r m r.size c = .ok false ∧ (n ∈ (r.get m).nameSet ∨ c ∈ (r.get m).subSet))) ∧
      r.addSub m n c = .error r) ∨
    (kvFind (r.get m).subKv n ≠ some c ∧ c ≠ m ∧ hasSub r m r.size c = .ok false ∧
      n ∉ (r.get m).nameSet ∧ c ∉ (r.get m).subSet ∧
      r.addSub m n c = .ok (r.put m { r.get m with
        nameSet := setEmplace (r.get m).nameSet n, subSet := setEmplace (r.get m).subSet c,
        subKv := kvEmplace (r.get m).subKv n c })) := by
  unfold addSub
  by_cases h1 : kvFind (r.get m).subKv n = some c
  · simp [h1]
  · by_cases h2 : c = m
    · subst h2; simp [h1]
    · rcases h3 : hasSub r m r.size c with b | _ | _
      · cases b
        · by_cases h4 : n ∈ (r.get m).nameSet
          · simp [h1, h2, h4]
          · by_cases h5 : c ∈ (r.get m).subSet
            · simp [h1, h2, h4, h5]
            · simp [h1, h2, h4, h5]
        · simp [h1, h2]
      · simp [h1, h2]
      · simp [h1, h2]

theorem inv_put_addParam {r : Reg} (hi : r.inv) {m : MId} (hm : m < r.size) {n : Name} {p : PId}
    (hn : n ∉ (r.get m).nameSet) (hp : p ∉ (r.get m).paramSet) :
    (r.put m { r.get m with
        nameSet := setEmplace (r.get m).nameSet n, paramSet := setEmplace (r.get m).paramSet p,
        paramKv := kvEmplace (r.get m).paramKv n p }).inv := by
  have hchild : ∀ x y, child (r.put m { r.get m with
        nameSet := setEmplace (r.get m).nameSet n, paramSet := setEmplace (r.get m).paramSet p,
        paramKv := kvEmplace (r.get m).paramKv n p }) x y ↔ r.child x y := by
    intro x y
    by_cases hx : x = m
    · subst hx; simp [child, get_put_self hm]
    · simp [child, get_put_ne hx]
  refine ⟨fun x => ?_, fun x y h => ?_, ?_⟩
  · by_cases hx : x = m
    · subst hx; rw [get_put_self hm]; exact MState.wf_addParam (hi.wf x) hn hp
    · rw [get_put_ne hx]; exact hi.wf x
  · rw [size_put]; exact hi.closed x y ((hchild x y).1 h)
  · obtain ⟨rk, hrk⟩ := hi.acyclic
    exact ⟨rk, fun x y h => hrk x y ((hchild x y).1 h)⟩

theorem inv_put_addSub {r : Reg} (hi : r.inv) {m : MId} (hm : m < r.size) {n : Name} {c : MId} (hc : c < r.size)
    (hne : c ≠ m) (hnr : ¬ r.Reach c m)
    (hn : n ∉ (r.get m).nameSet) (hcs : c ∉ (r.get m).subSet) :
    (r.put m { r.get m with
        nameSet := setEmplace (r.get m).nameSet n, subSet := setEmplace (r.get m).subSet c,
        subKv := kvEmplace (r.get m).subKv n c }).inv := by
  have hchild : ∀ x y, child (r.put m { r.get m with
        nameSet := setEmplace (r.get m).nameSet n, subSet := setEmplace (r.get m).subSet c,
        subKv := kvEmplace (r.get m).subKv n c }) x y ↔ (r.child x y ∨ (x = m ∧ y = c)) := by
    intro x y
    by_cases hx : x = m
    · subst hx; simp [child, get_put_self hm, setEmplace_of_not_mem hcs]
    · simp [child, get_put_ne hx, hx]
  refine ⟨fun x => ?_, fun x y h => ?_, ?_⟩
  · by_cases hx : x = m
    · subst hx; rw [get_put_self hm]; exact MState.wf_addSub (hi.wf x) hn hcs
    · rw [get_put_ne hx]; exact hi.wf x
  · rw [size_put]
    rcases (hchild x y).1 h with h | ⟨_, h⟩
    · exact hi.closed x y h
    · subst h; exact hc
  · obtain ⟨rk, hrk⟩ := hi.acyclic
    -- lift `m` and everything above it over `c`
    refine ⟨fun x => @ite _ (x = m ∨ r.Reach x m) (Classical.propDecidable _) (rk x + rk c + 1) (rk x), ?_⟩
    intro x y h
    have hA : ∀ z, (z = m ∨ r.Reach z m) → ∀ w, r.child w z → (w = m ∨ r.Reach w m) := by
      intro z hz w hw
      rcases hz with hz | hz
      · subst hz; exact Or.inr (.single hw)
      · exact Or.inr (.step hw hz)
    rcases (hchild x y).1 h with h | ⟨hx, hy⟩
    · have hlt := hrk x y h
      by_cases hyA : y = m ∨ r.Reach y m
      · have hxA := hA y hyA x h
        simp only [hyA, hxA, if_true]
        omega
      · by_cases hxA : x = m ∨ r.Reach x m
        · simp only [hyA, hxA, if_true, if_false]; omega
        · simp only [hyA, hxA, if_false]; exact hlt
    · subst hx; subst hy
      have hyA : ¬ (y = x ∨ r.Reach y x) := by
        intro h'; rcases h' with h' | h'
        · exact hne h'
        · exact hnr h'
      simp only [hyA, if_false, true_or, if_true]
      omega

theorem inv_addParam {r r' : Reg} (hi : r.inv) {m : MId} (hm : m < r.size) {n : Name} {p : PId}
    (h : r.addParam m n p = .ok r') : r'.inv := by
  rcases addParam_cases r m n p with ⟨_, h'⟩ | ⟨_, _, h'⟩ | ⟨_, hn, hp, h'⟩ <;> rw [h'] at h <;> cases h
  · exact hi
  · exact inv_put_addParam hi hm hn hp

theorem inv_addSub {r r' : Reg} (hi : r.inv) {m : MId} (hm : m < r.size) {n : Name} {c : MId} (hc : c < r.size)
    (h : r.addSub m n c = .ok r') : r'.inv := by
  rcases addSub_cases r m n c with ⟨_, h'⟩ | ⟨_, _, _, h'⟩ | ⟨_, _, h'⟩ | ⟨_, hne, hs, hn, hcs, h'⟩ <;> rw [h'] at h <;> cases h
  · exact hi
  · exact inv_put_addSub hi hm hc hne (hasSub_false hs) hn hcs

end Reg

namespace Reg

theorem addParam_error {r r' : Reg} {m : MId} {n : Name} {p : PId} (h : r.addParam m n p = .error r') : r' = r := by
  rcases addParam_cases r m n p with ⟨_, h'⟩ | ⟨_, _, h'⟩ | ⟨_, _, _, h'⟩ <;> rw [h'] at h <;> cases h
  rfl

theorem addParam_ne_crash (r : Reg) (m : MId) (n : Name) (p : PId) : r.addParam m n p ≠ .crash := by
  rcases addParam_cases r m n p with ⟨_, h'⟩ | ⟨_, _, h'⟩ | ⟨_, _, _, h'⟩ <;> rw [h'] <;> simp

theorem addSub_error {r r' : Reg} {m : MId} {n : Name} {c : MId} (h : r.addSub m n c = .error r') : r' = r := by
  rcases addSub_cases r m n c with ⟨_, h'⟩ | ⟨_, _, _, h'⟩ | ⟨_, _, h'⟩ | ⟨_, _, _, _, _, h'⟩ <;> rw [h'] at h <;> cases h
  rfl

theorem addSub_ne_crash {r : Reg} (hi : r.inv) {m : MId} (n : Name) {c : MId} (hc : c < r.size) :
    r.addSub m n c ≠ .crash := by
  obtain ⟨b, hb⟩ := hasSub_total hi m hc
  rcases addSub_cases r m n c with ⟨_, h'⟩ | ⟨_, _, hcr, _⟩ | ⟨_, _, h'⟩ | ⟨_, _, _, _, _, h'⟩
  · rw [h']; simp
  · rw [hb] at hcr; cases hcr
  · rw [h']; simp
  · rw [h']; simp

theorem inv_step {r : Reg} (hi : r.inv) (op : Op) : (r.step op).inv := by
  cases op with
  | newModel => exact inv_newModel hi
  | newParam v => exact inv_newParam hi v
  | addParam m n p =>
    simp only [step]
    split
    · rename_i hm
      rcases h : r.addParam m n p with r' | r' | _
      · exact inv_addParam hi hm h
      · rw [addParam_error h]; exact hi
      · exact hi
    · exact hi
  | addSub m n c =>
    simp only [step]
    split
    · rename_i hm
      rcases h : r.addSub m n c with r' | r' | _
      · exact inv_addSub hi hm.1 hm.2 h
      · rw [addSub_error h]; exact hi
      · exact hi
    · exact hi

theorem inv_foldl {r : Reg} (hi : r.inv) (ops : List Op) : (ops.foldl Reg.step r).inv := by
  induction ops generalizing r with
  | nil => exact hi
  | cons op rest ih => exact ih (inv_step hi op)

end Reg

/-! ### Optimizer::add -/
namespace Opt

theorem addParam_error {valid : PId → Bool} {o o' : Opt} {p : PId} (h : addParam valid o p = .error o') :
    o'.params = o.params ∧ o'.needsStats = o.needsStats ∧ o.needsStats = true ∧ valid p = false ∧ p ∉ o.params := by
  unfold addParam at h
  split at h
  · cases h
  · rename_i hp
    simp only at h
    split at h
    · rename_i hc
      simp only [Bool.and_eq_true, Bool.not_eq_eq_eq_not, Bool.not_true] at hc
      cases h
      exact ⟨rfl, rfl, hc.1, hc.2, hp⟩
    · cases h

theorem addParam_ne_crash (valid : PId → Bool) (o : Opt) (p : PId) : addParam valid o p ≠ .crash := by
  unfold addParam; split
  · simp
  · simp only; split <;> simp

theorem addParam_ok {valid : PId → Bool} {o o' : Opt} {p : PId} (hn : o.params.Nodup) (h : addParam valid o p = .ok o') :
    o'.params.Nodup ∧ o'.needsStats = o.needsStats ∧ ∀ q, q ∈ o'.params ↔ q ∈ o.params ∨ q = p := by
  unfold addParam at h
  split at h
  · rename_i hp
    cases h
    refine ⟨hn, rfl, fun q => ⟨Or.inl, fun hq => ?_⟩⟩
    rcases hq with hq | hq
    · exact hq
    · subst hq; exact hp
  · rename_i hp
    simp only at h
    split at h
    · cases h
    · cases h
      exact ⟨nodup_snoc hn hp, rfl, fun q => by simp⟩

/-- the registration invariant survives every `add(parameter)`, accepted or rejected -/
theorem addParam_wf {valid : PId → Bool} {o o' : Opt} {p : PId} (hw : o.wf valid)
    (h : addParam valid o p = .ok o' ∨ addParam valid o p = .error o') : o'.wf valid := by
  obtain ⟨h1, h2, h3⟩ := hw
  unfold addParam at h
  split at h
  · rcases h with h | h <;> cases h
    exact ⟨h1, h2, h3⟩
  · rename_i hp
    simp only at h
    split at h
    · rename_i hc
      simp only [Bool.and_eq_true, Bool.not_eq_eq_eq_not, Bool.not_true] at hc
      rcases h with h | h <;> cases h
      refine ⟨h1, fun q hq => ?_, fun q hq hq' => ?_⟩
      · have hne : p ≠ q := fun e => hp (e ▸ hq)
        have := h2 q hq
        simp only [configCount, List.count_append, List.count_cons, List.count_nil] at this ⊢
        simp [hne, this]
      · simp only [List.mem_append, List.mem_singleton] at hq
        rcases hq with hq | hq
        · exact h3 q hq hq'
        · subst hq; exact hc
    · rename_i hc
      rcases h with h | h <;> cases h
      have hpc : p ∉ o.configs := by
        intro hin
        have := h3 p hin hp
        simp [this.1, this.2] at hc
      refine ⟨nodup_snoc h1 hp, fun q hq => ?_, fun q hq hq' => ?_⟩
      · simp only [List.mem_append, List.mem_singleton] at hq
        simp only [configCount, List.count_append, List.count_cons, List.count_nil]
        rcases hq with hq | hq
        · have hne : p ≠ q := fun e => hp (e ▸ hq)
          have := h2 q hq
          simp only [configCount] at this
          simp [hne, this]
        · subst hq
          simp [List.count_eq_zero.2 hpc]
      · simp only [List.mem_append, List.mem_singleton, not_or] at hq hq'
        rcases hq with hq | hq
        · exact h3 q hq hq'.1
        · exact absurd hq hq'.2

theorem addList_ok {valid : PId → Bool} {o o' : Opt} {ps : List PId} (hn : o.params.Nodup) (h : addList valid o ps = .ok o') :
    o'.params.Nodup ∧ o'.needsStats = o.needsStats ∧ ∀ q, q ∈ o'.params ↔ q ∈ o.params ∨ q ∈ ps := by
  induction ps generalizing o with
  | nil => simp only [addList, Out.ok.injEq] at h; subst h; exact ⟨hn, rfl, by simp⟩
  | cons p rest ih =>
    simp only [addList] at h
    split at h
    · rename_i o1 h1
      obtain ⟨a1, a2, a3⟩ := addParam_ok hn h1
      obtain ⟨b1, b2, b3⟩ := ih a1 h
      refine ⟨b1, b2.trans a2, fun q => ?_⟩
      rw [b3 q, a3 q]
      simp only [List.mem_cons]
      constructor
      · rintro ((h | h) | h)
        · exact Or.inl h
        · exact Or.inr (Or.inl h)
        · exact Or.inr (Or.inr h)
      · rintro (h | h | h)
        · exact Or.inl (Or.inl h)
        · exact Or.inl (Or.inr h)
        · exact Or.inr h
    · cases h
    · cases h

theorem addList_wf {valid : PId → Bool} {o o' : Opt} {ps : List PId} (hw : o.wf valid)
    (h : addList valid o ps = .ok o' ∨ addList valid o ps = .error o') : o'.wf valid := by
  induction ps generalizing o with
  | nil => simp only [addList, Out.ok.injEq, reduceCtorEq, or_false] at h; subst h; exact hw
  | cons p rest ih =>
    simp only [addList] at h
    split at h
    · rename_i o1 h1
      exact ih (addParam_wf hw (Or.inl h1)) h
    · rename_i o1 h1
      simp only [reduceCtorEq, Out.error.injEq, false_or] at h
      subst h
      exact addParam_wf hw (Or.inr h1)
    · simp at h

theorem addList_ne_crash (valid : PId → Bool) (o : Opt) (ps : List PId) : addList valid o ps ≠ .crash := by
  induction ps generalizing o with
  | nil => simp [addList]
  | cons p rest ih =>
    simp only [addList]
    split
    · exact ih _
    · simp
    · rename_i h; exact absurd h (addParam_ne_crash _ _ _)

/-- the loop fails exactly when it meets a parameter it cannot configure -/
theorem addList_error {valid : PId → Bool} {o o' : Opt} {ps : List PId} (h : addList valid o ps = .error o') :
    o.needsStats = true ∧ ∃ p ∈ ps, valid p = false := by
  induction ps generalizing o with
  | nil => simp [addList] at h
  | cons p rest ih =>
    simp only [addList] at h
    split at h
    · rename_i o1 h1
      have : o1.needsStats = o.needsStats := by
        by_cases hn : o.params.Nodup
        · exact (addParam_ok hn h1).2.1
        · unfold addParam at h1
          split at h1
          · cases h1; rfl
          · simp only at h1
            split at h1
            · cases h1
            · cases h1; rfl
      obtain ⟨a, q, hq, hv⟩ := ih h
      exact ⟨this ▸ a, q, by simp [hq], hv⟩
    · rename_i o1 h1
      obtain ⟨_, _, a, b, _⟩ := addParam_error h1
      exact ⟨a, p, by simp, b⟩
    · cases h

theorem addList_all_valid {valid : PId → Bool} {o : Opt} {ps : List PId} (hv : o.needsStats = false ∨ ∀ p ∈ ps, valid p = true) :
    ∃ o', addList valid o ps = .ok o' := by
  rcases h : addList valid o ps with o' | o' | _
  · exact ⟨o', rfl⟩
  · obtain ⟨a, p, hp, hp'⟩ := addList_error h
    rcases hv with hv | hv
    · rw [hv] at a; cases a
    · rw [hv p hp] at hp'; cases hp'
  · exact absurd h (addList_ne_crash _ _ _)

end Opt


theorem mem_keys_iff_kvFind {κ ν : Type} [DecidableEq κ] {l : List (κ × ν)} {k : κ} :
    k ∈ l.map (·.1) ↔ ∃ v, kvFind l k = some v := by
  constructor
  · intro h
    rcases hf : kvFind l k with _ | v
    · exact absurd h (kvFind_eq_none_iff.1 hf)
    · exact ⟨v, rfl⟩
  · rintro ⟨v, hv⟩
    exact List.mem_map.2 ⟨(k, v), kvFind_some_mem hv, rfl⟩

theorem mem_vals_iff_kvFind {κ ν : Type} [DecidableEq κ] {l : List (κ × ν)} (hn : (l.map (·.1)).Nodup) {v : ν} :
    v ∈ l.map (·.2) ↔ ∃ k, kvFind l k = some v := by
  constructor
  · intro h
    obtain ⟨⟨k, v'⟩, he, hv⟩ := List.mem_map.1 h
    simp only at hv; subst hv
    exact ⟨k, kvFind_of_mem hn he⟩
  · rintro ⟨k, hk⟩
    exact List.mem_map.2 ⟨(k, v), kvFind_some_mem hk, rfl⟩

theorem resolvesP_single {r : Reg} {m : MId} {n : Name} {p : PId} :
    ResolvesP r m [n] p ↔ kvFind (r.get m).paramKv n = some p := by
  constructor
  · intro h
    cases h with
    | here h => exact h
    | sub _ h => cases h
  · exact .here

theorem resolvesM_single {r : Reg} {m : MId} {n : Name} {c : MId} :
    ResolvesM r m [n] c ↔ kvFind (r.get m).subKv n = some c := by
  constructor
  · intro h
    cases h with
    | here h => exact h
    | sub _ h => cases h
  · exact .here

theorem nameUsed_iff {r : Reg} (hwf : (r.get m).wf) {n : Name} : NameUsed r m n ↔ n ∈ (r.get m).nameSet := by
  simp only [NameUsed, resolvesP_single, resolvesM_single, hwf.names_iff n, mem_keys_iff_kvFind]

theorem paramRegistered_iff {r : Reg} (hwf : (r.get m).wf) {p : PId} : (∃ n', ResolvesP r m [n'] p) ↔ p ∈ (r.get m).paramSet := by
  simp only [resolvesP_single, hwf.pset_iff p, mem_vals_iff_kvFind hwf.pkeys_nodup]

theorem subRegistered_iff {r : Reg} (hwf : (r.get m).wf) {c : MId} : (∃ n', ResolvesM r m [n'] c) ↔ c ∈ (r.get m).subSet := by
  simp only [resolvesM_single, hwf.sset_iff c, mem_vals_iff_kvFind hwf.skeys_nodup]

namespace Reg

theorem addParam_ok_find {r r' : Reg} (hi : r.inv) {m : MId} (hm : m < r.size) {n : Name} {p : PId}
    (h : r.addParam m n p = .ok r') : kvFind (r'.get m).paramKv n = some p := by
  rcases addParam_cases r m n p with ⟨hf, h'⟩ | ⟨_, _, h'⟩ | ⟨_, hn, hp, h'⟩ <;> rw [h'] at h <;> cases h
  · exact hf
  · rw [get_put_self hm]
    have hk : kvFind (r.get m).paramKv n = none :=
      kvFind_eq_none_iff.2 (fun hc => hn (((hi.wf m).names_iff n).2 (Or.inl hc)))
    simp [kvEmplace_of_none hk, kvFind_append, hk]

theorem addSub_ok_find {r r' : Reg} (hi : r.inv) {m : MId} (hm : m < r.size) {n : Name} {c : MId}
    (h : r.addSub m n c = .ok r') : kvFind (r'.get m).subKv n = some c := by
  rcases addSub_cases r m n c with ⟨hf, h'⟩ | ⟨_, _, _, h'⟩ | ⟨_, _, h'⟩ | ⟨_, _, _, hn, _, h'⟩ <;> rw [h'] at h <;> cases h
  · exact hf
  · rw [get_put_self hm]
    have hk : kvFind (r.get m).subKv n = none :=
      kvFind_eq_none_iff.2 (fun hc => hn (((hi.wf m).names_iff n).2 (Or.inr hc)))
    simp [kvEmplace_of_none hk, kvFind_append, hk]

theorem not_reach_self {r : Reg} (hi : r.inv) (m : MId) : ¬ r.Reach m m := by
  obtain ⟨rk, hrk⟩ := hi.acyclic
  intro h
  exact Nat.lt_irrefl _ (h.rank_lt hrk)

end Reg

end Primitiv.Registry
