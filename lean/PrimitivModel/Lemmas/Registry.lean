import PrimitivModel.Model.Registry
import PrimitivModel.Spec.Registry
/-
Helper lemmas of the `registry` family (C16): the container operations of
Model/Registry.lean, reachability in the submodel hierarchy, soundness of
`has_submodel`, the fuel bound, the enumeration and the lookups.
Core Lean only.
-/
namespace Primitiv.Registry
open Std

/-! ### kvFind / kvEmplace / setEmplace -/
section containers
variable {κ ν : Type} [DecidableEq κ]

theorem kvFind_some_mem {l : List (κ × ν)} {k : κ} {v : ν} (h : kvFind l k = some v) : (k, v) ∈ l := by
  induction l with
  | nil => simp [kvFind] at h
  | cons e rest ih =>
    obtain ⟨k', v'⟩ := e
    simp only [kvFind] at h
    split at h
    · simp_all
    · simp [ih h]

theorem kvFind_eq_none_iff {l : List (κ × ν)} {k : κ} : kvFind l k = none ↔ k ∉ l.map (·.1) := by
  induction l with
  | nil => simp [kvFind]
  | cons e rest ih =>
    obtain ⟨k', v'⟩ := e
    simp only [kvFind]
    split
    · simp_all
    · simp_all [eq_comm]

theorem kvFind_of_mem {l : List (κ × ν)} (hn : (l.map (·.1)).Nodup) {k : κ} {v : ν} (h : (k, v) ∈ l) :
    kvFind l k = some v := by
  induction l with
  | nil => simp at h
  | cons e rest ih =>
    obtain ⟨k', v'⟩ := e
    simp only [List.map_cons, List.nodup_cons] at hn
    simp only [kvFind]
    rcases List.mem_cons.1 h with h | h
    · simp_all
    · have : k' ≠ k := by
        intro hk; subst hk
        exact hn.1 (List.mem_map.2 ⟨(k', v), h, rfl⟩)
      simp [this, ih hn.2 h]

theorem kvFind_append (l : List (κ × ν)) (k k' : κ) (v : ν) :
    kvFind (l ++ [(k, v)]) k' = match kvFind l k' with
      | some x => some x
      | none => if k = k' then some v else none := by
  induction l with
  | nil => simp [kvFind]
  | cons e rest ih =>
    obtain ⟨k'', v''⟩ := e
    simp only [List.cons_append, kvFind]
    split <;> simp_all

theorem kvEmplace_of_none {l : List (κ × ν)} {k : κ} {v : ν} (h : kvFind l k = none) :
    kvEmplace l k v = l ++ [(k, v)] := by simp [kvEmplace, h]

theorem setEmplace_of_not_mem {α} [DecidableEq α] {s : List α} {a : α} (h : a ∉ s) : setEmplace s a = s ++ [a] := by
  simp [setEmplace, h]

end containers

section mapEmplace
variable {κ ν : Type} [Ord κ]

theorem mem_mapEmplace_of_mem {l : List (κ × ν)} {k : κ} {v : ν} {x : κ × ν} (h : x ∈ l) : x ∈ mapEmplace l k v := by
  induction l with
  | nil => simp at h
  | cons e rest ih =>
    obtain ⟨k', v'⟩ := e
    simp only [mapEmplace]
    split
    · simp [h]
    · exact h
    · rcases List.mem_cons.1 h with h | h
      · simp [h]
      · simp [ih h]

theorem mem_mapEmplace {l : List (κ × ν)} {k : κ} {v : ν} {x : κ × ν} (h : x ∈ mapEmplace l k v) : x ∈ l ∨ x = (k, v) := by
  induction l with
  | nil => simp_all [mapEmplace]
  | cons e rest ih =>
    obtain ⟨k', v'⟩ := e
    simp only [mapEmplace] at h
    split at h
    · simp only [List.mem_cons] at h ⊢; rcases h with h | h | h <;> simp [h]
    · exact Or.inl h
    · rcases List.mem_cons.1 h with h | h
      · simp [h]
      · rcases ih h with h | h
        · simp [h]
        · exact Or.inr h

theorem mapEmplace_self [LawfulEqOrd κ] (l : List (κ × ν)) (k : κ) (v : ν) :
    (k, v) ∈ mapEmplace l k v ∨ ∃ v', (k, v') ∈ l := by
  induction l with
  | nil => simp [mapEmplace]
  | cons e rest ih =>
    obtain ⟨k', v'⟩ := e
    simp only [mapEmplace]
    split
    · simp
    · rename_i h
      have := LawfulEqOrd.eq_of_compare h
      subst this
      exact Or.inr ⟨v', by simp⟩
    · rcases ih with h | ⟨w, h⟩
      · simp [h]
      · exact Or.inr ⟨w, by simp [h]⟩

/-- strictly increasing keys: the representation invariant of `std::map` -/
def Sorted (l : List (κ × ν)) : Prop := l.Pairwise (fun a b => compare a.1 b.1 = .lt)

theorem sorted_mapEmplace [TransOrd κ] {l : List (κ × ν)} (hs : Sorted l) (k : κ) (v : ν) : Sorted (mapEmplace l k v) := by
  induction l with
  | nil => simp [mapEmplace, Sorted]
  | cons e rest ih =>
    obtain ⟨k', v'⟩ := e
    simp only [Sorted, List.pairwise_cons] at hs
    simp only [mapEmplace]
    split
    · rename_i h
      simp only [Sorted, List.pairwise_cons]
      refine ⟨?_, hs⟩
      intro a ha
      rcases List.mem_cons.1 ha with ha | ha
      · simpa [ha] using h
      · exact TransCmp.lt_trans h (hs.1 a ha)
    · simpa [Sorted, List.pairwise_cons] using hs
    · rename_i h
      simp only [Sorted, List.pairwise_cons]
      refine ⟨?_, ih hs.2⟩
      intro a ha
      rcases mem_mapEmplace ha with ha | ha
      · exact hs.1 a ha
      · subst ha
        simpa using (OrientedCmp.gt_iff_lt (cmp := compare)).1 h

end mapEmplace
section fold
variable {κ ν α : Type} [Ord κ] (kf : α → κ) (vf : α → ν)

/-- the shape of both emplace loops of `get_all_parameters` -/
def foldEmplace (xs : List α) (acc : List (κ × ν)) : List (κ × ν) :=
  xs.foldl (fun a e => mapEmplace a (kf e) (vf e)) acc

theorem foldEmplace_sub {xs : List α} {acc : List (κ × ν)} {x : κ × ν} (h : x ∈ acc) : x ∈ foldEmplace kf vf xs acc := by
  induction xs generalizing acc with
  | nil => simpa [foldEmplace] using h
  | cons e rest ih => exact ih (mem_mapEmplace_of_mem h)

theorem foldEmplace_mem {xs : List α} {acc : List (κ × ν)} {x : κ × ν} (h : x ∈ foldEmplace kf vf xs acc) :
    x ∈ acc ∨ ∃ e ∈ xs, x = (kf e, vf e) := by
  induction xs generalizing acc with
  | nil => exact Or.inl (by simpa [foldEmplace] using h)
  | cons e rest ih =>
    rcases ih (acc := mapEmplace acc (kf e) (vf e)) h with h | ⟨e', he', h⟩
    · rcases mem_mapEmplace h with h | h
      · exact Or.inl h
      · exact Or.inr ⟨e, by simp, h⟩
    · exact Or.inr ⟨e', by simp [he'], h⟩

theorem foldEmplace_sorted [TransOrd κ] {xs : List α} {acc : List (κ × ν)} (h : Sorted acc) : Sorted (foldEmplace kf vf xs acc) := by
  induction xs generalizing acc with
  | nil => simpa [foldEmplace] using h
  | cons e rest ih => exact ih (sorted_mapEmplace h _ _)

/-- completeness of the loop for a functional relation `P` that every entry satisfies -/
theorem foldEmplace_complete [LawfulEqOrd κ] (P : κ → ν → Prop) (hf : ∀ k v v', P k v → P k v' → v = v')
    {xs : List α} {acc : List (κ × ν)} (hacc : ∀ x ∈ acc, P x.1 x.2) (hxs : ∀ e ∈ xs, P (kf e) (vf e)) :
    ∀ e ∈ xs, (kf e, vf e) ∈ foldEmplace kf vf xs acc := by
  induction xs generalizing acc with
  | nil => simp
  | cons e rest ih =>
    have hacc' : ∀ x ∈ mapEmplace acc (kf e) (vf e), P x.1 x.2 := by
      intro x hx
      rcases mem_mapEmplace hx with hx | hx
      · exact hacc x hx
      · subst hx; exact hxs e (by simp)
    intro e' he'
    rcases List.mem_cons.1 he' with he' | he'
    · subst he'
      apply foldEmplace_sub (xs := rest)
      rcases mapEmplace_self acc (kf e') (vf e') with h | ⟨v', h⟩
      · exact h
      · have := hf _ _ _ (hacc _ h) (hxs e' (by simp))
        simp only at this
        subst this
        exact mem_mapEmplace_of_mem h
    · exact ih hacc' (fun e he => hxs e (by simp [he])) e' he'

end fold


/-! ### heap access -/
namespace Reg

@[simp] theorem size_put (r : Reg) (m : MId) (st : MState) : (r.put m st).size = r.size := by
  simp [Reg.put, Reg.size]

theorem get_put_self {r : Reg} {m : MId} (h : m < r.size) (st : MState) : (r.put m st).get m = st := by
  simp [Reg.get, Reg.put, Reg.size] at *
  simp [h]

theorem get_put_ne {r : Reg} {m m' : MId} (h : m' ≠ m) (st : MState) : (r.put m st).get m' = r.get m' := by
  simp [Reg.get, Reg.put, List.getElem?_set, Ne.symm h]

theorem get_of_size_le {r : Reg} {m : MId} (h : r.size ≤ m) : r.get m = {} := by
  simp [Reg.get, Reg.size] at *
  simp [h]

theorem get_newModel (r : Reg) (m : MId) : r.newModel.get m = r.get m := by
  simp only [Reg.get, Reg.newModel, List.getD_eq_getElem?_getD]
  rcases Nat.lt_trichotomy m r.models.length with h | h | h
  · simp [List.getElem?_append_left h]
  · subst h; simp
  · have h1 : r.models.length ≤ m := Nat.le_of_lt h
    have h2 : (r.models ++ [({} : MState)]).length ≤ m := by simp; omega
    rw [List.getElem?_eq_none h2, List.getElem?_eq_none h1]

end Reg
namespace Reg

/-! ### reachability and has_submodel -/

theorem Reach.head_cases {r : Reg} {a t : MId} (h : r.Reach a t) : ∃ b, r.child a b ∧ (b = t ∨ r.Reach b t) := by
  cases h with
  | single h => exact ⟨_, h, Or.inl rfl⟩
  | step h h' => exact ⟨_, h, Or.inr h'⟩

theorem Reach.trans {r : Reg} {a b c : MId} (h1 : r.Reach a b) (h2 : r.Reach b c) : r.Reach a c := by
  induction h1 with
  | single h => exact .step h h2
  | step h _ ih => exact .step h (ih h2)

theorem Reach.rank_lt {r : Reg} {rk : MId → Nat} (hrk : ∀ m c, r.child m c → rk c < rk m) {a b : MId}
    (h : r.Reach a b) : rk b < rk a := by
  induction h with
  | single h => exact hrk _ _ h
  | step h _ ih => exact Nat.lt_trans ih (hrk _ _ h)

theorem hasSubList_false {rec : MId → Res Bool} {t : MId} {l : List MId} (h : hasSubList rec t l = .ok false) :
    ∀ sm ∈ l, sm ≠ t ∧ rec sm = .ok false := by
  induction l with
  | nil => simp
  | cons sm rest ih =>
    simp only [hasSubList] at h
    split at h
    · simp at h
    · split at h
      · simp at h
      · rename_i hne _ hrec
        intro x hx
        rcases List.mem_cons.1 hx with hx | hx
        · subst hx; exact ⟨hne, hrec⟩
        · exact ih h x hx
      · simp at h
      · simp at h

theorem hasSubList_true {rec : MId → Res Bool} {t : MId} {l : List MId} (h : hasSubList rec t l = .ok true) :
    ∃ sm ∈ l, sm = t ∨ rec sm = .ok true := by
  induction l with
  | nil => simp [hasSubList] at h
  | cons sm rest ih =>
    simp only [hasSubList] at h
    split at h
    · rename_i heq; exact ⟨sm, by simp, Or.inl heq⟩
    · split at h
      · rename_i hrec; exact ⟨sm, by simp, Or.inr hrec⟩
      · obtain ⟨x, hx, hx'⟩ := ih h
        exact ⟨x, by simp [hx], hx'⟩
      · simp at h
      · simp at h

theorem hasSubList_ok {rec : MId → Res Bool} {t : MId} {l : List MId} (h : ∀ sm ∈ l, ∃ b, rec sm = .ok b) :
    ∃ b, hasSubList rec t l = .ok b := by
  induction l with
  | nil => exact ⟨false, rfl⟩
  | cons sm rest ih =>
    simp only [hasSubList]
    split
    · exact ⟨true, rfl⟩
    · obtain ⟨b, hb⟩ := h sm (by simp)
      rw [hb]
      cases b
      · exact ih (fun x hx => h x (by simp [hx]))
      · exact ⟨true, rfl⟩

/-- `has_submodel` answering `false` is right: the target is not below. -/
theorem hasSub_false {r : Reg} {t : MId} {f : Nat} {m : MId} (h : hasSub r t f m = .ok false) : ¬ r.Reach m t := by
  induction f generalizing m with
  | zero => simp [hasSub] at h
  | succ f ih =>
    simp only [hasSub] at h
    intro hr
    obtain ⟨b, hb, hb'⟩ := hr.head_cases
    have := hasSubList_false h b hb
    rcases hb' with hb' | hb'
    · exact this.1 hb'
    · exact ih this.2 hb'

/-- `has_submodel` answering `true` is right. -/
theorem hasSub_true {r : Reg} {t : MId} {f : Nat} {m : MId} (h : hasSub r t f m = .ok true) : r.Reach m t := by
  induction f generalizing m with
  | zero => simp [hasSub] at h
  | succ f ih =>
    simp only [hasSub] at h
    obtain ⟨sm, hsm, h'⟩ := hasSubList_true h
    rcases h' with h' | h'
    · subst h'; exact .single hsm
    · exact .step hsm (ih h')

/-! ### the fuel bound -/

/-- pigeonhole: a duplicate-free list of numbers below `n` has at most `n` elements -/
theorem length_le_of_nodup_of_lt {l : List Nat} {n : Nat} (hn : l.Nodup) (hb : ∀ x ∈ l, x < n) : l.length ≤ n := by
  induction n generalizing l with
  | zero =>
    cases l with
    | nil => simp
    | cons a _ => exact absurd (hb a (by simp)) (Nat.not_lt_zero _)
  | succ n ih =>
    have h1 : (l.erase n).Nodup := hn.erase n
    have h2 : ∀ x ∈ l.erase n, x < n := by
      intro x hx
      have := (List.Nodup.mem_erase_iff hn).1 hx
      have := hb x this.2
      omega
    have h3 := ih h1 h2
    have h4 : l.length ≤ (l.erase n).length + 1 := by
      rw [List.length_erase]; split <;> omega
    omega

/-- a descending chain of models, newest first -/
def Chain (r : Reg) (rk : MId → Nat) (ch : List MId) : Prop :=
  ch.Pairwise (fun a b => rk a < rk b) ∧ ∀ x ∈ ch, x < r.size

theorem Chain.length_le {r : Reg} {rk : MId → Nat} {ch : List MId} (h : Chain r rk ch) : ch.length ≤ r.size :=
  length_le_of_nodup_of_lt (h.1.imp (fun {a b} hab heq => by subst heq; exact Nat.lt_irrefl _ hab)) h.2

theorem Chain.cons {r : Reg} {rk : MId → Nat} (hrk : ∀ m c, r.child m c → rk c < rk m) (hcl : ∀ m c, r.child m c → c < r.size)
    {m c : MId} {vis : List MId} (h : Chain r rk (m :: vis)) (hc : r.child m c) : Chain r rk (c :: m :: vis) := by
  refine ⟨List.pairwise_cons.2 ⟨?_, h.1⟩, ?_⟩
  · intro x hx
    have hcm := hrk _ _ hc
    rcases List.mem_cons.1 hx with hx | hx
    · subst hx; exact hcm
    · exact Nat.lt_trans hcm ((List.pairwise_cons.1 h.1).1 x hx)
  · intro x hx
    rcases List.mem_cons.1 hx with hx | hx
    · subst hx; exact hcl _ _ hc
    · exact h.2 x hx

theorem hasSub_total_aux {r : Reg} {rk : MId → Nat} (hrk : ∀ m c, r.child m c → rk c < rk m)
    (hcl : ∀ m c, r.child m c → c < r.size) (t : MId) :
    ∀ (f : Nat) (m : MId) (vis : List MId), Chain r rk (m :: vis) → r.size ≤ f + vis.length → ∃ b, hasSub r t f m = .ok b := by
  intro f
  induction f with
  | zero =>
    intro m vis hch hsz
    have := hch.length_le
    simp at this hsz
    omega
  | succ f ih =>
    intro m vis hch hsz
    simp only [hasSub]
    apply hasSubList_ok
    intro c hc
    exact ih c (m :: vis) (hch.cons hrk hcl hc) (by simp; omega)

end Reg

end Primitiv.Registry
