import PrimitivModel.Lemmas.OptimBase
import Mathlib.Algebra.Order.Field.Basic
import Mathlib.Tactic.Ring
import Mathlib.Tactic.FieldSimp
import Mathlib.Algebra.Order.Ring.Rat
/-
Helper lemmas of property C15 (checkpoint / resume): round trip of the
configuration maps, the invariant `Good` of training states, the frame lemma
of a training step, restore ∘ checkpoint, and that the initial state of a
training program is `Good`.
-/
set_option linter.unusedSectionVars false
set_option linter.unusedSimpArgs false
namespace Primitiv.Opt
open Primitiv.Gen.Opt
section
variable {K : Type} [Field K] [LinearOrder K] [IsStrictOrderedRing K]

theorem base_roundtrip (b b0 : Base K) (extra : List (String × K)) :
    b0.set b.getU (b.getF ++ extra) = b := by
  simp [Base.set, Base.getU, Base.getF, List.lookup]

theorem configs_roundtrip (F : Fns K) (o : Opt K) (hf : o.fields.length = arity o.kind) :
    loadConfigs o.base.getU (allF o) (fresh F o.kind) = { o with reg := [] } := by
  obtain ⟨kind, fields, base, reg⟩ := o
  simp only at hf
  unfold loadConfigs allF fresh
  simp only [base_roundtrip]
  cases kind <;> simp [arity, table] at hf
  · obtain ⟨a, rfl⟩ := len1 hf
    simp [Base.getF, getConfigs, setConfigs, defaults, List.lookup]
  · obtain ⟨a, b, rfl⟩ := len2 hf
    simp [Base.getF, getConfigs, setConfigs, defaults, List.lookup]
  · obtain ⟨a, b, rfl⟩ := len2 hf
    simp [Base.getF, getConfigs, setConfigs, defaults, List.lookup]
  · obtain ⟨a, b, c, rfl⟩ := len3 hf
    simp [Base.getF, getConfigs, setConfigs, defaults, List.lookup]
  · obtain ⟨a, b, rfl⟩ := len2 hf
    simp [Base.getF, getConfigs, setConfigs, defaults, List.lookup]
  · obtain ⟨a, b, c, d, rfl⟩ := len4 hf
    simp [Base.getF, getConfigs, setConfigs, defaults, List.lookup]

/-! ### what `configure_parameter` and `update` look at besides numbers: validity and statistic names -/

def sig (p : Param K) : Bool × List String := (p.valid, p.stats.map (fun e => e.1))

theorem hasStat_iff (p : Param K) (n : String) : p.hasStat n = true ↔ n ∈ (sig p).2 := by
  simp only [Param.hasStat, sig, List.any_eq_true, List.mem_map, beq_iff_eq]


theorem sigs_mapReg (reg : List Nat) (f : Param K → Param K) (ps : List (Param K))
    (h : ∀ p, sig (f p) = sig p) : (mapReg reg f ps).map sig = ps.map sig := by
  apply List.ext_getElem?
  intro i
  simp only [List.getElem?_map, getElem?_mapReg]
  cases ps[i]? with
  | none => rfl
  | some p => by_cases hi : i ∈ reg <;> simp [hi, h]

theorem sigs_ite (c : Prop) [Decidable c] (a b : List (Param K)) (v : List (Bool × List String))
    (ha : a.map sig = v) (hb : b.map sig = v) : (if c then a else b).map sig = v := by
  split <;> assumption

theorem keys_setStat (n : String) (v : List K) (st : List (String × List K)) :
    (setStat n v st).map (fun e => e.1) = st.map (fun e => e.1) := by
  unfold setStat
  rw [List.map_map]
  apply List.map_congr_left
  intro e _
  simp only [Function.comp]
  split <;> rfl

theorem sig_updateWith (e : K → K → List K → K × List K) (names : List String) (p : Param K) :
    sig (p.updateWith e names) = sig p := by
  unfold Param.updateWith sig
  simp only [Prod.mk.injEq, true_and]
  generalize (List.range names.length) = js
  generalize p.stats = st
  induction js generalizing st with
  | nil => rfl
  | cons j t ih => rw [List.foldl_cons, ih, keys_setStat]

theorem sigs_updateCore (F : Fns K) (s : State K) : (updateCore F s).ps.map sig = s.ps.map sig := by
  simp only [updateCore]
  have h1 : (if s.o.base.l2_strength_ > 0 then mapReg s.o.reg (Param.decay s.o.base.l2_strength_) s.ps
      else s.ps).map sig = s.ps.map sig := by
    apply sigs_ite
    · exact sigs_mapReg _ (Param.decay _) _ (fun _ => rfl)
    · rfl
  refine (sigs_mapReg _ (Param.update F _ _ _ _) _ (fun p => sig_updateWith _ _ p)).trans ?_
  apply sigs_ite
  · apply sigs_ite
    · exact (sigs_mapReg _ (Param.scaleGrad _) _ (fun _ => rfl)).trans h1
    · exact h1
  · exact h1

theorem sigs_setGrads (gs : List (List K)) (s : State K) : (setGrads gs s).ps.map sig = s.ps.map sig := by
  apply List.ext_getElem?
  intro i
  simp only [setGrads, List.getElem?_map, List.getElem?_mapIdx]
  cases s.ps[i]? <;> rfl

/-- states from which training runs: everything is registered, valid and configured -/
structure Good (k : Kind) (s : State K) : Prop where
  kind : s.o.kind = k
  arity : s.o.fields.length = arity k
  reg : s.o.reg = List.range s.ps.length
  ok : ∀ x ∈ s.ps.map sig, x.1 = true ∧ ∀ n ∈ statNames k, n ∈ x.2

theorem Good_trainStep (F : Fns K) (G : Nat → List (List K) → List (List K)) (t : Nat) (k : Kind) (s : State K)
    (h : Good k s) : Good k (trainStep F G t s) := by
  have hl : (trainStep F G t s).ps.length = s.ps.length := by
    have := congrArg List.length ((sigs_updateCore F (setGrads (G t (values s)) s)).trans (sigs_setGrads _ s))
    simpa [trainStep] using this
  refine ⟨h.kind, h.arity, ?_, ?_⟩
  · show s.o.reg = _
    rw [h.reg, hl]
  · unfold trainStep
    rw [sigs_updateCore, sigs_setGrads]
    exact h.ok

theorem Good_train (F : Fns K) (G : Nat → List (List K) → List (List K)) (k : Kind) (n t : Nat) (s : State K)
    (h : Good k s) : Good k (train F G t n s) := by
  induction n generalizing t s with
  | zero => exact h
  | succ n ih => exact ih _ _ (Good_trainStep F G t k s h)


/-! ### frame: a training step reads values, statistics, validity and the optimizer object only -/

theorem setGrads_frame (gs : List (List K)) (s s' : State K) (h : obs s = obs s') :
    setGrads gs s = setGrads gs s' := by
  obtain ⟨o, ps⟩ := s
  obtain ⟨o', ps'⟩ := s'
  simp only [obs, Prod.mk.injEq] at h
  obtain ⟨rfl, hp⟩ := h
  simp only [setGrads, State.mk.injEq, true_and]
  apply List.ext_getElem?
  intro i
  have hi := congrArg (fun l => l[i]?) hp
  simp only [List.getElem?_map] at hi
  simp only [List.getElem?_mapIdx]
  cases h1 : ps[i]? with
  | none =>
    cases h2 : ps'[i]? with
    | none => rfl
    | some q => simp [h1, h2] at hi
  | some p =>
    cases h2 : ps'[i]? with
    | none => simp [h1, h2] at hi
    | some q =>
      obtain ⟨pv, pval, pg, pst⟩ := p
      obtain ⟨qv, qval, qg, qst⟩ := q
      simp only [h1, h2, Option.map_some, Option.some.injEq, Prod.mk.injEq] at hi
      obtain ⟨rfl, rfl, rfl⟩ := hi
      rfl

theorem values_frame (s s' : State K) (h : obs s = obs s') : values s = values s' := by
  have hp := congrArg
    (fun (x : Opt K × List (Bool × List K × List (String × List K))) => x.2.map (fun e => e.2.1)) h
  simp only [obs, List.map_map] at hp
  exact hp

/-- frame lemma: two states that agree on everything but the gradients step to the same state -/
theorem trainStep_frame (F : Fns K) (G : Nat → List (List K) → List (List K)) (t : Nat) (s s' : State K)
    (h : obs s = obs s') : trainStep F G t s = trainStep F G t s' := by
  unfold trainStep
  rw [values_frame s s' h, setGrads_frame _ s s' h]

theorem train_frame (F : Fns K) (G : Nat → List (List K) → List (List K)) (n t : Nat) (s s' : State K)
    (h : obs s = obs s') : obs (train F G t n s) = obs (train F G t n s') := by
  induction n generalizing t s s' with
  | zero => exact h
  | succ n ih =>
    simp only [train]
    rw [trainStep_frame F G t s s' h]

theorem train_add (F : Fns K) (G : Nat → List (List K) → List (List K)) (k n t : Nat) (s : State K) :
    train F G t (k + n) s = train F G (t + k) n (train F G t k s) := by
  induction k generalizing t s with
  | zero => simp [train]
  | succ k ih =>
    rw [Nat.add_right_comm, train, train, ih]
    congr 1
    omega


/-! ### restore ∘ checkpoint -/

theorem statNames_eq_spec (k : Kind) : statNames k = Spec.statNames k := by
  cases k <;> rfl

theorem configure_configured (k : Kind) (p : Param K) (hv : p.valid = true)
    (hs : ∀ n ∈ statNames k, p.hasStat n = true) : configure k p = (p, true) := by
  rw [configure_valid k p hv]
  have : (Spec.statNames k).filter (fun n => !p.hasStat n) = [] := by
    rw [List.filter_eq_nil_iff]
    intro n hn
    rw [← statNames_eq_spec] at hn
    simp [hs n hn]
  rw [this]
  simp

theorem addAll_succ (s : State K) (n : Nat) : addAll s (n + 1) = (add (addAll s n) n).1 := by
  unfold addAll
  rw [List.range_succ, List.foldl_append]
  rfl

theorem addAll_configured (o : Opt K) (ps : List (Param K))
    (hok : ∀ p ∈ ps, p.valid = true ∧ ∀ n ∈ statNames o.kind, p.hasStat n = true) (n : Nat) (hn : n ≤ ps.length) :
    addAll { o := { o with reg := [] }, ps := ps } n = { o := { o with reg := List.range n }, ps := ps } := by
  induction n with
  | zero => rfl
  | succ n ih =>
    rw [addAll_succ, ih (Nat.le_of_succ_le hn)]
    have hlt : n < ps.length := hn
    have hp : ps[n]? = some ps[n] := List.getElem?_eq_getElem hlt
    have hmem : ps[n] ∈ ps := List.getElem_mem hlt
    unfold add
    simp only [List.mem_range, Nat.lt_irrefl, if_false, hp,
      configure_configured o.kind ps[n] (hok _ hmem).1 (hok _ hmem).2, if_true, List.range_succ]
    simp [set_self _ _ _ hp]

theorem restore_checkpoint (F : Fns K) (k : Kind) (s : State K) (h : Good k s) :
    obs (restore F k (checkpoint s)) = obs s := by
  obtain ⟨⟨kind, fields, base, reg⟩, ps⟩ := s
  obtain ⟨hk, ha, hr, hok⟩ := h
  simp only at hk ha hr hok
  subst hk hr
  unfold restore checkpoint
  have hcfg := configs_roundtrip F (⟨kind, fields, base, List.range ps.length⟩ : Opt K) ha
  simp only at hcfg
  simp only [hcfg, List.length_map, List.map_map]
  have hok' : ∀ p ∈ ps.map (loadParam ∘ fun p => (p.value, p.stats)),
      p.valid = true ∧ ∀ n ∈ statNames kind, p.hasStat n = true := by
    intro q hq
    obtain ⟨p, hp, rfl⟩ := List.mem_map.mp hq
    refine ⟨rfl, fun n hn => ?_⟩
    have := (hok (sig p) (List.mem_map.mpr ⟨p, hp, rfl⟩)).2 n hn
    exact (hasStat_iff _ n).mpr this
  have := addAll_configured (⟨kind, fields, base, List.range ps.length⟩ : Opt K) _ hok' ps.length (by simp)
  simp only at this
  rw [this]
  simp only [obs, Prod.mk.injEq, List.map_map, true_and]
  apply List.map_congr_left
  intro p hp
  have hv := (hok (sig p) (List.mem_map.mpr ⟨p, hp, rfl⟩)).1
  simp only [sig] at hv
  simp [loadParam, hv]


/-! ### the initial state of a training program is `Good` -/

theorem configure_valid_ok (k : Kind) (p : Param K) (hv : p.valid = true) :
    (configure k p).2 = true ∧ (sig (configure k p).1).1 = true ∧ ∀ n ∈ statNames k, n ∈ (sig (configure k p).1).2 := by
  rw [configure_valid k p hv]
  refine ⟨rfl, hv, fun n hn => ?_⟩
  rw [statNames_eq_spec] at hn
  simp only [sig, List.map_append, List.map_map, List.mem_append, List.mem_map, List.mem_filter]
  by_cases h : p.hasStat n = true
  · left
    have := (hasStat_iff p n).mp h
    simpa [sig] using this
  · right
    exact ⟨n, ⟨hn, by simpa using h⟩, rfl⟩

theorem addAll_fresh (o : Opt K) (ps : List (Param K)) (hv : ∀ p ∈ ps, p.valid = true) (n : Nat)
    (hn : n ≤ ps.length) :
    addAll { o := { o with reg := [] }, ps := ps } n =
      { o := { o with reg := List.range n },
        ps := ps.mapIdx (fun i p => if i < n then (configure o.kind p).1 else p) } := by
  induction n with
  | zero =>
    simp only [addAll, List.range_zero, List.foldl_nil, Nat.not_lt_zero, if_false]
    congr 1
    apply List.ext_getElem?
    intro i
    simp
  | succ n ih =>
    rw [addAll_succ, ih (Nat.le_of_succ_le hn)]
    have hlt : n < ps.length := hn
    have hp : (ps.mapIdx (fun i p => if i < n then (configure o.kind p).1 else p))[n]? = some ps[n] := by
      simp [List.getElem?_mapIdx, List.getElem?_eq_getElem hlt]
    have hc := configure_valid_ok o.kind ps[n] (hv _ (List.getElem_mem hlt))
    unfold add
    simp only [List.mem_range, Nat.lt_irrefl, if_false, hp, hc.1, if_true, List.range_succ]
    congr 1
    apply List.ext_getElem?
    intro i
    simp only [List.getElem?_set, List.getElem?_mapIdx, List.length_mapIdx]
    by_cases hi : n = i
    · subst hi
      simp [hlt, List.getElem?_eq_getElem hlt]
    · simp only [hi, if_false]
      cases ps[i]? with
      | none => rfl
      | some q =>
        have : (i < n + 1) = (i < n) := by
          apply propext
          constructor
          · intro h; omega
          · intro h; omega
        simp [this]

theorem init_good (k : Kind) (fields : List K) (b : Base K) (vals : List (List K)) (hf : fields.length = arity k) :
    Good k (initState k fields b vals) := by
  unfold initState
  have hv : ∀ p ∈ vals.map (fun v => ({ valid := true, value := v, grad := zeros v.length, stats := [] } : Param K)),
      p.valid = true := by
    intro p hp
    obtain ⟨v, _, rfl⟩ := List.mem_map.mp hp
    rfl
  have := addAll_fresh (⟨k, fields, b, []⟩ : Opt K) _ hv vals.length (by simp)
  simp only at this
  rw [this]
  refine ⟨rfl, hf, by simp, ?_⟩
  intro x hx
  simp only [List.mem_map] at hx
  obtain ⟨q, hq, rfl⟩ := hx
  obtain ⟨i, hqi⟩ := List.mem_iff_getElem?.mp hq
  simp only [List.getElem?_mapIdx, List.getElem?_map] at hqi
  cases hvi : vals[i]? with
  | none => simp [hvi] at hqi
  | some v =>
    have hlt : i < vals.length := (List.getElem?_eq_some_iff.mp hvi).1
    simp only [hvi, Option.map_some, hlt, if_true, Option.some.injEq] at hqi
    subst hqi
    have hc := configure_valid_ok k ({ valid := true, value := v, grad := zeros v.length, stats := [] } : Param K) rfl
    exact ⟨hc.2.1, hc.2.2⟩

/-! ### repeated interruption: `Good` and `checkpoint` are functions of `obs` -/

theorem sigs_of_obs (s s' : State K) (h : obs s = obs s') : s'.ps.map sig = s.ps.map sig := by
  have hp := congrArg
    (fun (x : Opt K × List (Bool × List K × List (String × List K))) =>
      x.2.map (fun e => (e.1, e.2.2.map (fun y => y.1)))) h
  simp only [obs, List.map_map] at hp
  exact hp.symm

theorem Good_of_obs (k : Kind) (s s' : State K) (h : obs s = obs s') (g : Good k s) : Good k s' := by
  have ho : s'.o = s.o := (congrArg Prod.fst h).symm
  have hs := sigs_of_obs s s' h
  have hl : s'.ps.length = s.ps.length := by simpa using congrArg List.length hs
  refine ⟨by rw [ho]; exact g.kind, by rw [ho]; exact g.arity, by rw [ho, hl]; exact g.reg, ?_⟩
  rw [hs]
  exact g.ok

theorem checkpoint_of_obs (s s' : State K) (h : obs s = obs s') : checkpoint s = checkpoint s' := by
  have ho : s.o = s'.o := congrArg Prod.fst h
  have hp := congrArg
    (fun (x : Opt K × List (Bool × List K × List (String × List K))) => x.2.map (fun e => (e.2.1, e.2.2))) h
  simp only [obs, List.map_map] at hp
  simp only [checkpoint, ho]
  congr 1

/-- training in segments of lengths `ns`, every segment followed by a
checkpoint into a file and a restore into fresh objects (the process is
stopped and started again after each segment) -/
def trainResumed (F : Fns K) (G : Nat → List (List K) → List (List K)) (k : Kind) : Nat → List Nat → State K → State K
  | _, [], s => s
  | t, n :: ns, s => trainResumed F G k (t + n) ns (restore F k (checkpoint (train F G t n s)))

theorem trainResumed_obs (F : Fns K) (G : Nat → List (List K) → List (List K)) (k : Kind) (ns : List Nat) (t : Nat)
    (s : State K) (h : Good k s) :
    obs (trainResumed F G k t ns s) = obs (train F G t ns.sum s) ∧ Good k (trainResumed F G k t ns s) := by
  induction ns generalizing t s with
  | nil => exact ⟨rfl, h⟩
  | cons n ns ih =>
    have hg : Good k (train F G t n s) := Good_train F G k n t s h
    have hr := restore_checkpoint F k _ hg
    have hgr : Good k (restore F k (checkpoint (train F G t n s))) := Good_of_obs k _ _ hr.symm hg
    obtain ⟨h1, h2⟩ := ih (t + n) _ hgr
    refine ⟨?_, h2⟩
    simp only [trainResumed, List.sum_cons]
    rw [h1, train_add]
    exact train_frame F G ns.sum (t + n) _ _ hr

end
end Primitiv.Opt
