import PrimitivModel.Model.Rng
import Mathlib.Order.SuccPred.Basic
import Mathlib.Algebra.Field.Basic
/-
Assumptions under which the theorems of C17 read the scalar interface `Sc`,
and helper lemmas.  The generated definitions are polymorphic in `Sc α`; a
theorem fixes the meaning of the operations it needs by one of the predicates
below (every other field of `S` stays arbitrary).
-/
namespace Primitiv.Rng
open Primitiv

/-- `S` compares like IEEE floating point over the linear order `α`: `some x`
are the ordered values (±∞ are ordinary elements of `α`), `none` is NaN – every
comparison with it is false.  `lit n` is the value of the integer literal `n`. -/
structure IeeeCmp {α : Type} [LinearOrder α] (S : Sc (Option α)) (lit : Nat → α) : Prop where
  lt_some : ∀ x y, S.lt (some x) (some y) = decide (x < y)
  lt_nan_left : ∀ b, S.lt none b = false
  lt_nan_right : ∀ a, S.lt a none = false
  le_some : ∀ x y, S.le (some x) (some y) = decide (x ≤ y)
  le_nan_left : ∀ b, S.le none b = false
  le_nan_right : ∀ a, S.le a none = false
  ofNat : ∀ n, S.ofNat n = some (lit n)

/-- `S.lt` is the order of a discrete linear order and `S.nextafter a b` is the
neighbour of `a` in the direction of `b` (`std::nextafter`; the case `b < a` is
never used by the code). -/
structure SuccNext {α : Type} [LinearOrder α] [SuccOrder α] (S : Sc α) : Prop where
  lt : ∀ a b, S.lt a b = decide (a < b)
  next_lt : ∀ a b, a < b → S.nextafter a b = Order.succ a
  next_eq : ∀ a, S.nextafter a a = a

/-- Exact arithmetic: the operations of `S` are those of an ordered field and
`narrow` (the double → float rounding) is the identity.  `S.sqrt`, `S.exp` and
`S.nextafter` stay uninterpreted. -/
structure ExactArith {α : Type} [Field α] [LinearOrder α] (S : Sc α) : Prop where
  lt : ∀ a b, S.lt a b = decide (a < b)
  le : ∀ a b, S.le a b = decide (a ≤ b)
  eq : ∀ a b, S.eq a b = decide (a = b)
  add : ∀ a b, S.add a b = a + b
  sub : ∀ a b, S.sub a b = a - b
  mul : ∀ a b, S.mul a b = a * b
  div : ∀ a b, S.div a b = a / b
  neg : ∀ a, S.neg a = -a
  ofNat : ∀ n, S.ofNat n = (n : α)
  narrow : ∀ a, S.narrow a = a

theorem add32_of_lt {a b : Nat} (h : a + b < W) : add32 a b = a + b := by
  unfold add32; exact Nat.mod_eq_of_lt h

theorem mul32_of_lt {a b : Nat} (h : a * b < W) : mul32 a b = a * b := by
  unfold mul32; exact Nat.mod_eq_of_lt h

/-- fan-in and fan-out of a convolution kernel of shape (height, width, in, out), as natural numbers -/
def convFanIn (s : Shape) : Nat := s.get 0 * s.get 1 * s.get 2
def convFanOut (s : Shape) : Nat := s.get 0 * s.get 1 * s.get 3

/-- the `std::uint32_t` computation of `fan_in + fan_out` is exact when the sum fits -/
theorem conv_fans {s : Shape} (hw : convFanIn s + convFanOut s < W) :
    add32 (mul32 (mul32 (s.get 0) (s.get 1)) (s.get 2)) (mul32 (mul32 (s.get 0) (s.get 1)) (s.get 3))
      = convFanIn s + convFanOut s := by
  unfold convFanIn convFanOut at *
  have m : ∀ a b c : Nat, mul32 (mul32 a b) c = (a * b * c) % W := by
    intro a b c; unfold mul32; rw [Nat.mul_mod, Nat.mod_mod, ← Nat.mul_mod]
  rw [m, m, Nat.mod_eq_of_lt (by omega), Nat.mod_eq_of_lt (by omega), add32_of_lt hw]

theorem diag_index {n i j : Nat} (hi : i < n) (hj : j < n) : (i + n * j) % (n + 1) = 0 ↔ i = j := by
  constructor
  · intro h0
    have e1 : (i + n * j + j) % (n + 1) = j := by
      rw [Nat.add_mod, h0, Nat.zero_add, Nat.mod_mod, Nat.mod_eq_of_lt (by omega)]
    have e2 : (i + n * j + j) % (n + 1) = i := by
      have : i + n * j + j = i + j * (n + 1) := by rw [Nat.mul_add, Nat.mul_one, Nat.mul_comm j n]; omega
      rw [this, Nat.add_mul_mod_self_right, Nat.mod_eq_of_lt (by omega)]
    omega
  · rintro rfl
    have : i + n * i = i * (n + 1) := by rw [Nat.mul_add, Nat.mul_one, Nat.mul_comm i n]; omega
    rw [this, Nat.mul_mod_left]

theorem diag_index_lt {n i j : Nat} (hi : i < n) (hj : j < n) : i + n * j < n * n := by
  have : n * (j + 1) ≤ n * n := Nat.mul_le_mul_left n (by omega)
  rw [Nat.mul_add, Nat.mul_one] at this
  omega

theorem deviceIdentity_spec {α : Type} (S : Sc α) (n : Nat) (t : Tensor α) (ht : deviceIdentity S n = .ok t) :
    0 < n ∧ Shape.new [n, n] 1 = .ok t.shape ∧ t.data.length = n * n ∧
    ∀ i j, i < n → j < n → t.data[i + n * j]? = some (if i = j then S.ofNat 1 else S.ofNat 0) := by
  unfold deviceIdentity at ht
  by_cases h0 : (n == 0) = true
  · simp [h0, Primitiv.throwError] at ht
  · simp only [h0, if_false, Bool.false_eq_true] at ht
    have hn : 0 < n := by simp at h0; omega
    cases hs : Shape.new [n, n] 1 with
    | error e => simp [hs, bind, Except.bind] at ht
    | ok sh =>
      simp only [hs, bind, Except.bind, pure, Except.pure] at ht
      cases ht
      refine ⟨hn, rfl, by simp, ?_⟩
      intro i j hi hj
      have hlt := diag_index_lt hi hj
      simp only [List.getElem?_map, List.getElem?_range hlt, Option.map_some, beq_iff_eq, diag_index hi hj]
end Primitiv.Rng
