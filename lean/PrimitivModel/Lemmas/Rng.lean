import PrimitivModel.Model.Rng
import Mathlib.Order.SuccPred.Basic
import Mathlib.Algebra.Field.Basic
/-
Assumptions under which the theorems of C17 read the scalar interface `Sc`,
and helper lemmas.  The generated definitions are polymorphic in `Sc α`; a
theorem fixes the meaning of the operations it needs by one of the predicates
below (every other field of `S` stays arbitrary).
-/
namespace Primitiv.Rng
open Primitiv

/-- `S` compares like IEEE floating point over the linear order `α`: `some x`
are the ordered values (±∞ are ordinary elements of `α`), `none` is NaN – every
comparison with it is false.  `lit n` is the value of the integer literal `n`. -/
structure IeeeCmp {α : Type} [LinearOrder α] (S : Sc (Option α)) (lit : Nat → α) : Prop where
  lt_some : ∀ x y, S.lt (some x) (some y) = decide (x < y)
  lt_nan_left : ∀ b, S.lt none b = false
  lt_nan_right : ∀ a, S.lt a none = false
  le_some : ∀ x y, S.le (some x) (some y) = decide (x ≤ y)
  le_nan_left : ∀ b, S.le none b = false
  le_nan_right : ∀ a, S.le a none = false
  ofNat : ∀ n, S.ofNat n = some (lit n)

/-- `S.lt` is the order of a discrete linear order and `S.nextafter a b` is the
neighbour of `a` in the direction of `b` (`std::nextafter`; the case `b < a` is
never used by the code). -/
structure SuccNext {α : Type} [LinearOrder α] [SuccOrder α] (S : Sc α) : Prop where
  lt : ∀ a b, S.lt a b = decide (a < b)
  next_lt : ∀ a b, a < b → S.nextafter a b = Order.succ a
  next_eq : ∀ a, S.nextafter a a = a

/-- Exact arithmetic: the operations of `S` are those of an ordered field and
`narrow` (the double → float rounding) is the identity.  `S.sqrt`, `S.exp` and
`S.nextafter` stay uninterpreted. -/
structure ExactArith {α : Type} [Field α] [LinearOrder α] (S : Sc α) : Prop where
  lt : ∀ a b, S.lt a b = decide (a < b)
  le : ∀ a b, S.le a b = decide (a ≤ b)
  eq : ∀ a b, S.eq a b = decide (a = b)
  add : ∀ a b, S.add a b = a + b
  sub : ∀ a b, S.sub a b = a - b
  mul : ∀ a b, S.mul a b = a * b
  div : ∀ a b, S.div a b = a / b
  neg : ∀ a, S.neg a = -a
  ofNat : ∀ n, S.ofNat n = (n : α)
  narrow : ∀ a, S.narrow a = a

theorem add32_of_lt {a b : Nat} (h : a + b < W) : add32 a b = a + b := by
  unfold add32; exact Nat.mod_eq_of_lt h

theorem mul32_of_lt {a b : Nat} (h : a * b < W) : mul32 a b = a * b := by
  unfold mul32; exact Nat.mod_eq_of_lt h

end Primitiv.Rng
