import PrimitivModel.Model.Shape
import PrimitivModel.Spec.Shape
/-
Lemmas about the Shape model (Model/Shape.lean) and its specification
(Spec/Shape.lean) used by Props/C09.lean.  Core Lean only.

The central notion is `Agree r o`: a model result `r : R Shape` and a
specification result `o : Option SShape` agree when both reject (the model with
an Error, never with `crash`) or both accept, the accepted model shape is
canonical and its dims/batch are the specification's.  Every rule is shown to
satisfy `Agree (Model.rule args) (Spec.rule (toSpec args))` for canonical
arguments; the property theorems of C09 are projections of these lemmas.
-/
namespace Primitiv.ShapeL
open Primitiv.Spec

/-! ### products -/
theorem foldl_mul (l : List Nat) (v : Nat) : l.foldl (· * ·) v = v * l.foldl (· * ·) 1 := by
  induction l generalizing v with
  | nil => simp
  | cons d ds ih => simp only [List.foldl_cons]; rw [ih (v * d), ih (1 * d)]; simp [Nat.mul_assoc]

@[simp] theorem prod_nil : prod [] = 1 := rfl
@[simp] theorem prod_cons (d : Nat) (ds : List Nat) : prod (d :: ds) = d * prod ds := by
  unfold prod; simp only [List.foldl_cons]; rw [foldl_mul]; simp

@[simp] theorem prod_append (a b : List Nat) : prod (a ++ b) = prod a * prod b := by
  induction a with
  | nil => simp
  | cons d ds ih => simp [ih, Nat.mul_assoc]

@[simp] theorem prod_replicate_one (n : Nat) : prod (List.replicate n 1) = 1 := by
  induction n with
  | zero => rfl
  | succ n ih => simp [List.replicate_succ, ih]

theorem prod_pos {l : List Nat} (h : ∀ d ∈ l, d ≠ 0) : 0 < prod l := by
  induction l with
  | nil => simp
  | cons d ds ih =>
    simp only [prod_cons]
    have := h d (by simp)
    have := ih (fun x hx => h x (by simp [hx]))
    exact Nat.mul_pos (by omega) this

theorem prod_eq_zero {l : List Nat} (h : 0 ∈ l) : prod l = 0 := by
  induction l with
  | nil => simp at h
  | cons d ds ih =>
    simp only [prod_cons]
    rcases List.mem_cons.1 h with h | h
    · subst h; simp
    · simp [ih h]

theorem le_prod_of_mem {l : List Nat} (h : ∀ d ∈ l, d ≠ 0) {x : Nat} (hx : x ∈ l) : x ≤ prod l := by
  induction l with
  | nil => simp at hx
  | cons d ds ih =>
    simp only [prod_cons]
    have hd := h d (by simp)
    have hp := prod_pos (fun y hy => h y (List.mem_cons_of_mem _ hy))
    rcases List.mem_cons.1 hx with rfl | hx
    · exact Nat.le_mul_of_pos_right _ hp
    · exact Nat.le_trans (ih (fun y hy => h y (List.mem_cons_of_mem _ hy)) hx) (Nat.le_mul_of_pos_left _ (by omega))

theorem foldl_mul32 (l : List Nat) (v : Nat) : l.foldl mul32 v % W = (v * prod l) % W := by
  induction l generalizing v with
  | nil => simp
  | cons d ds ih =>
    simp only [List.foldl_cons, prod_cons]
    rw [ih, mul32, Nat.mod_mul_mod, Nat.mul_assoc]

theorem foldl_mul32_lt (l : List Nat) (v : Nat) (hv : v < W) : l.foldl mul32 v < W := by
  induction l generalizing v with
  | nil => simpa
  | cons d ds ih => exact ih _ (Nat.mod_lt _ (by decide))

theorem prod32_eq (l : List Nat) : prod32 l = prod l % W := by
  have := foldl_mul32 l 1
  rw [Nat.mod_eq_of_lt (foldl_mul32_lt l 1 (by decide))] at this
  simpa [prod32] using this

theorem getD_lt {l : List Nat} {i : Nat} (h : i < l.length) : l.getD i 1 = l[i] := by
  simp [List.getD_eq_getElem?_getD, List.getElem?_eq_getElem h]
theorem getD_ge {l : List Nat} {i : Nat} (h : l.length ≤ i) : l.getD i 1 = 1 := by
  simp [List.getD_eq_getElem?_getD, List.getElem?_eq_none h]

/-! ### trim -/
theorem trim_cons (d : Nat) (ds : List Nat) :
    trim (d :: ds) = if trim ds = [] ∧ d = 1 then [] else d :: trim ds := by
  simp only [trim]
  cases h : trim ds <;> simp

theorem trim_eq_nil {l : List Nat} : trim l = [] ↔ ∀ d ∈ l, d = 1 := by
  induction l with
  | nil => simp [trim]
  | cons d ds ih =>
    rw [trim_cons]
    split
    · rename_i h; simp [h.2]; exact ih.1 h.1
    · rename_i h; simp only [reduceCtorEq, false_iff]; intro h2
      exact h ⟨ih.2 (fun x hx => h2 x (List.mem_cons_of_mem _ hx)), h2 d (by simp)⟩

theorem getD_trim (l : List Nat) (i : Nat) : (trim l).getD i 1 = l.getD i 1 := by
  induction l generalizing i with
  | nil => simp [trim]
  | cons d ds ih =>
    rw [trim_cons]
    split
    · rename_i h
      have h1 := trim_eq_nil.1 h.1
      cases i with
      | zero => simp [h.2]
      | succ i =>
        simp
        by_cases hi : i < ds.length
        · simp [List.getElem?_eq_getElem hi, h1 _ (List.getElem_mem hi)]
        · simp [List.getElem?_eq_none (Nat.le_of_not_lt hi)]
    · cases i with
      | zero => simp
      | succ i => simpa using ih i

theorem length_trim_le (l : List Nat) : (trim l).length ≤ l.length := by
  induction l with
  | nil => simp [trim]
  | cons d ds ih => rw [trim_cons]; split <;> simp <;> omega

theorem mem_trim {l : List Nat} {x : Nat} (h : x ∈ trim l) : x ∈ l := by
  induction l with
  | nil => simp [trim] at h
  | cons d ds ih =>
    rw [trim_cons] at h
    split at h
    · simp at h
    · rcases List.mem_cons.1 h with h | h
      · simp [h]
      · exact List.mem_cons_of_mem _ (ih h)

theorem prod_trim (l : List Nat) : prod (trim l) = prod l := by
  induction l with
  | nil => simp [trim]
  | cons d ds ih =>
    rw [trim_cons]
    split
    · rename_i h; rw [prod_cons, ← ih, h.1, h.2]; rfl
    · simp [ih]

theorem trim_trim (l : List Nat) : trim (trim l) = trim l := by
  induction l with
  | nil => simp [trim]
  | cons d ds ih =>
    rw [trim_cons]
    split
    · simp [trim]
    · rename_i h
      rw [trim_cons, ih]
      simp [h]

/-- A list is trimmed iff it is empty or its last entry is not 1. -/
theorem trim_eq_self_iff {l : List Nat} : trim l = l ↔ l.getLast? ≠ some 1 := by
  induction l with
  | nil => simp [trim]
  | cons d ds ih =>
    rw [trim_cons]
    split
    · rename_i h
      have h1 := trim_eq_nil.1 h.1
      cases ds with
      | nil => simp [h.2]
      | cons e es =>
        simp only [reduceCtorEq, false_iff, List.getLast?_cons_cons, ne_eq, Decidable.not_not]
        rw [List.getLast?_eq_some_getLast (List.cons_ne_nil e es)]
        simp only [Option.some.injEq]
        exact h1 _ (List.getLast_mem _)
    · rename_i h
      cases ds with
      | nil => simp [trim] at h ⊢; exact h
      | cons e es => simpa [List.getLast?_cons_cons] using ih

theorem list_ext_getD {a b : List Nat} (hl : a.length = b.length)
    (h : ∀ i, i < a.length → a.getD i 1 = b.getD i 1) : a = b := by
  apply List.ext_getElem hl
  intro i h1 h2
  have := h i h1
  rwa [getD_lt h1, getD_lt h2] at this

end Primitiv.ShapeL
