import PrimitivModel.Model.Shape
import PrimitivModel.Spec.Shape
/-
Lemmas about the Shape model (Model/Shape.lean) and its specification
(Spec/Shape.lean) used by Props/C09.lean.  Core Lean only.

The central notion is `Agree r o`: a model result `r : R Shape` and a
specification result `o : Option SShape` agree when both reject (the model with
an Error, never with `crash`) or both accept, the accepted model shape is
canonical and its dims/batch are the specification's.  Every rule is shown to
satisfy `Agree (Model.rule args) (Spec.rule (toSpec args))` for canonical
arguments; the property theorems of C09 are projections of these lemmas.
-/
namespace Primitiv.ShapeL
open Primitiv.Spec

/-! ### products -/
theorem foldl_mul (l : List Nat) (v : Nat) : l.foldl (· * ·) v = v * l.foldl (· * ·) 1 := by
  induction l generalizing v with
  | nil => simp
  | cons d ds ih => simp only [List.foldl_cons]; rw [ih (v * d), ih (1 * d)]; simp [Nat.mul_assoc]

@[simp] theorem prod_nil : prod [] = 1 := rfl
@[simp] theorem prod_cons (d : Nat) (ds : List Nat) : prod (d :: ds) = d * prod ds := by
  unfold prod; simp only [List.foldl_cons]; rw [foldl_mul]; simp

@[simp] theorem prod_append (a b : List Nat) : prod (a ++ b) = prod a * prod b := by
  induction a with
  | nil => simp
  | cons d ds ih => simp [ih, Nat.mul_assoc]

@[simp] theorem prod_replicate_one (n : Nat) : prod (List.replicate n 1) = 1 := by
  induction n with
  | zero => rfl
  | succ n ih => simp [List.replicate_succ, ih]

theorem prod_pos {l : List Nat} (h : ∀ d ∈ l, d ≠ 0) : 0 < prod l := by
  induction l with
  | nil => simp
  | cons d ds ih =>
    simp only [prod_cons]
    have := h d (by simp)
    have := ih (fun x hx => h x (by simp [hx]))
    exact Nat.mul_pos (by omega) this

theorem prod_eq_zero {l : List Nat} (h : 0 ∈ l) : prod l = 0 := by
  induction l with
  | nil => simp at h
  | cons d ds ih =>
    simp only [prod_cons]
    rcases List.mem_cons.1 h with h | h
    · subst h; simp
    · simp [ih h]

theorem le_prod_of_mem {l : List Nat} (h : ∀ d ∈ l, d ≠ 0) {x : Nat} (hx : x ∈ l) : x ≤ prod l := by
  induction l with
  | nil => simp at hx
  | cons d ds ih =>
    simp only [prod_cons]
    have hd := h d (by simp)
    have hp := prod_pos (fun y hy => h y (List.mem_cons_of_mem _ hy))
    rcases List.mem_cons.1 hx with rfl | hx
    · exact Nat.le_mul_of_pos_right _ hp
    · exact Nat.le_trans (ih (fun y hy => h y (List.mem_cons_of_mem _ hy)) hx) (Nat.le_mul_of_pos_left _ (by omega))

theorem foldl_mul32 (l : List Nat) (v : Nat) : l.foldl mul32 v % W = (v * prod l) % W := by
  induction l generalizing v with
  | nil => simp
  | cons d ds ih =>
    simp only [List.foldl_cons, prod_cons]
    rw [ih, mul32, Nat.mod_mul_mod, Nat.mul_assoc]

theorem foldl_mul32_lt (l : List Nat) (v : Nat) (hv : v < W) : l.foldl mul32 v < W := by
  induction l generalizing v with
  | nil => simpa
  | cons d ds ih => exact ih _ (Nat.mod_lt _ (by decide))

theorem prod32_eq (l : List Nat) : prod32 l = prod l % W := by
  have := foldl_mul32 l 1
  rw [Nat.mod_eq_of_lt (foldl_mul32_lt l 1 (by decide))] at this
  simpa [prod32] using this

theorem getD_lt {l : List Nat} {i : Nat} (h : i < l.length) : l.getD i 1 = l[i] := by
  simp [List.getD_eq_getElem?_getD, List.getElem?_eq_getElem h]
theorem getD_ge {l : List Nat} {i : Nat} (h : l.length ≤ i) : l.getD i 1 = 1 := by
  simp [List.getD_eq_getElem?_getD, List.getElem?_eq_none h]

/-! ### trim -/
theorem trim_cons (d : Nat) (ds : List Nat) :
    trim (d :: ds) = if trim ds = [] ∧ d = 1 then [] else d :: trim ds := by
  simp only [trim]
  cases h : trim ds <;> simp

theorem trim_eq_nil {l : List Nat} : trim l = [] ↔ ∀ d ∈ l, d = 1 := by
  induction l with
  | nil => simp [trim]
  | cons d ds ih =>
    rw [trim_cons]
    split
    · rename_i h; simp [h.2]; exact ih.1 h.1
    · rename_i h; simp only [reduceCtorEq, false_iff]; intro h2
      exact h ⟨ih.2 (fun x hx => h2 x (List.mem_cons_of_mem _ hx)), h2 d (by simp)⟩

theorem getD_trim (l : List Nat) (i : Nat) : (trim l).getD i 1 = l.getD i 1 := by
  induction l generalizing i with
  | nil => simp [trim]
  | cons d ds ih =>
    rw [trim_cons]
    split
    · rename_i h
      have h1 := trim_eq_nil.1 h.1
      cases i with
      | zero => simp [h.2]
      | succ i =>
        simp
        by_cases hi : i < ds.length
        · simp [List.getElem?_eq_getElem hi, h1 _ (List.getElem_mem hi)]
        · simp [List.getElem?_eq_none (Nat.le_of_not_lt hi)]
    · cases i with
      | zero => simp
      | succ i => simpa using ih i

theorem length_trim_le (l : List Nat) : (trim l).length ≤ l.length := by
  induction l with
  | nil => simp [trim]
  | cons d ds ih => rw [trim_cons]; split <;> simp <;> omega

theorem mem_trim {l : List Nat} {x : Nat} (h : x ∈ trim l) : x ∈ l := by
  induction l with
  | nil => simp [trim] at h
  | cons d ds ih =>
    rw [trim_cons] at h
    split at h
    · simp at h
    · rcases List.mem_cons.1 h with h | h
      · simp [h]
      · exact List.mem_cons_of_mem _ (ih h)

theorem prod_trim (l : List Nat) : prod (trim l) = prod l := by
  induction l with
  | nil => simp [trim]
  | cons d ds ih =>
    rw [trim_cons]
    split
    · rename_i h; rw [prod_cons, ← ih, h.1, h.2]; rfl
    · simp [ih]

theorem trim_trim (l : List Nat) : trim (trim l) = trim l := by
  induction l with
  | nil => simp [trim]
  | cons d ds ih =>
    rw [trim_cons]
    split
    · simp [trim]
    · rename_i h
      rw [trim_cons, ih]
      simp [h]

/-- A list is trimmed iff it is empty or its last entry is not 1. -/
theorem trim_eq_self_iff {l : List Nat} : trim l = l ↔ l.getLast? ≠ some 1 := by
  induction l with
  | nil => simp [trim]
  | cons d ds ih =>
    rw [trim_cons]
    split
    · rename_i h
      have h1 := trim_eq_nil.1 h.1
      cases ds with
      | nil => simp [h.2]
      | cons e es =>
        simp only [reduceCtorEq, false_iff, List.getLast?_cons_cons, ne_eq, Decidable.not_not]
        rw [List.getLast?_eq_some_getLast (List.cons_ne_nil e es)]
        simp only [Option.some.injEq]
        exact h1 _ (List.getLast_mem _)
    · rename_i h
      cases ds with
      | nil => simp [trim] at h ⊢; exact h
      | cons e es => simpa [List.getLast?_cons_cons] using ih

theorem list_ext_getD {a b : List Nat} (hl : a.length = b.length)
    (h : ∀ i, i < a.length → a.getD i 1 = b.getD i 1) : a = b := by
  apply List.ext_getElem hl
  intro i h1 h2
  have := h i h1
  rwa [getD_lt h1, getD_lt h2] at this


/-- `omega` after unfolding the two constants `W = 2^32` and `MAXU = 2^32 - 1`. -/
macro "womega" : tactic => `(tactic| ((try simp only [W, MAXU] at *) <;> omega))

theorem trimmed_last_ne_one {t : List Nat} (ht : trim t = t) (h : 0 < t.length) :
    t.getD (t.length - 1) 1 ≠ 1 := by
  have h1 := trim_eq_self_iff.1 ht
  rw [List.getLast?_eq_getElem?] at h1
  rw [getD_lt (by omega)]
  rw [List.getElem?_eq_getElem (by omega)] at h1
  simpa using h1

theorem trim_eq_iff {a b : List Nat} : trim a = trim b ↔ ∀ i, a.getD i 1 = b.getD i 1 := by
  constructor
  · intro h i; rw [← getD_trim a, ← getD_trim b, h]
  · intro h
    have key : ∀ a b : List Nat, (∀ i, a.getD i 1 = b.getD i 1) → (trim a).length ≤ (trim b).length := by
      intro a b h
      apply Nat.le_of_not_lt
      intro hlt
      have h1 := trimmed_last_ne_one (trim_trim a) (by omega)
      rw [getD_trim, h, ← getD_trim, getD_ge (by omega)] at h1
      exact h1 rfl
    apply list_ext_getD (Nat.le_antisymm (key a b h) (key b a (fun i => (h i).symm)))
    intro i _; rw [getD_trim, getD_trim, h]

theorem trimmed_eq_iff {a b : List Nat} (ha : trim a = a) (hb : trim b = b) :
    a = b ↔ ∀ i, a.getD i 1 = b.getD i 1 := by
  rw [← trim_eq_iff, ha, hb]

/-! ### set / padding -/
theorem getD_set_one (l : List Nat) (d i : Nat) :
    (l.set d 1).getD i 1 = if i = d then 1 else l.getD i 1 := by
  simp only [List.getD_eq_getElem?_getD, List.getElem?_set]
  split
  · rename_i h; subst h; split <;> simp_all
  · split <;> simp_all <;> omega

theorem prod_set {l : List Nat} {d : Nat} (h : d < l.length) :
    ∃ q, prod l = l[d] * q ∧ ∀ m, prod (l.set d m) = m * q := by
  induction l generalizing d with
  | nil => simp at h
  | cons x xs ih =>
    cases d with
    | zero => exact ⟨prod xs, by simp, by simp⟩
    | succ d =>
      obtain ⟨q, h1, h2⟩ := ih (d := d) (by simpa using h)
      refine ⟨x * q, ?_, ?_⟩
      · simp [h1, Nat.mul_left_comm]
      · intro m; simp [h2, Nat.mul_left_comm]

/-- `padded` of update_dim / setDim. -/
def pad (l : List Nat) (d : Nat) : List Nat :=
  if d ≥ l.length then l ++ List.replicate (d + 1 - l.length) 1 else l

theorem length_pad (l : List Nat) (d : Nat) : (pad l d).length = max l.length (d + 1) := by
  unfold pad; split <;> (try simp) <;> omega

theorem prod_pad (l : List Nat) (d : Nat) : prod (pad l d) = prod l := by
  unfold pad; split <;> simp

theorem mem_pad {l : List Nat} {d x : Nat} (h : x ∈ pad l d) : x ∈ l ∨ x = 1 := by
  unfold pad at h; split at h
  · rcases List.mem_append.1 h with h | h
    · exact .inl h
    · exact .inr (List.eq_of_mem_replicate h)
  · exact .inl h

theorem getD_pad (l : List Nat) (d i : Nat) : (pad l d).getD i 1 = l.getD i 1 := by
  unfold pad; split
  · simp only [List.getD_eq_getElem?_getD, List.getElem?_append, List.getElem?_replicate]
    split
    · rfl
    · rename_i h; rw [List.getElem?_eq_none (by omega)]; split <;> rfl
  · rfl

theorem mk_eq (dims : List Nat) (b : Nat) : Spec.mk dims b =
    if dims.length > 8 ∨ 0 ∈ dims ∨ b = 0 ∨ prod dims * b ≥ W then none else some ⟨trim dims, b⟩ := by
  unfold Spec.mk
  have : (dims.any (· == 0) = true) ↔ 0 ∈ dims := by simp
  simp only [this]

/-! ### the constructor's checked product -/
theorem prodChk_some {l : List Nat} {v r : Nat} (h : Shape.prodChk l v = some r) : r = v * prod l := by
  induction l generalizing v with
  | nil => simp [Shape.prodChk] at h; simp [h]
  | cons d ds ih =>
    simp only [Shape.prodChk] at h
    split at h
    · cases h
    · rw [ih h, prod_cons, Nat.mul_assoc]

theorem prodChk_eq {l : List Nat} (hl : ∀ d ∈ l, d ≠ 0) (v : Nat) (hv : v ≤ MAXU) :
    Shape.prodChk l v = if v * prod l > MAXU then none else some (v * prod l) := by
  induction l generalizing v with
  | nil => simp [Shape.prodChk]; omega
  | cons d ds ih =>
    have hp := prod_pos (fun y hy => hl y (List.mem_cons_of_mem _ hy))
    simp only [Shape.prodChk, prod_cons]
    rw [← Nat.mul_assoc]
    have : v * d ≤ v * d * prod ds := Nat.le_mul_of_pos_right _ hp
    split
    · rw [if_pos (by omega)]
    · rw [ih (fun y hy => hl y (List.mem_cons_of_mem _ hy)) _ (by omega)]

end Primitiv.ShapeL

namespace Primitiv
open Primitiv.Spec Primitiv.ShapeL

/-- The class invariant of primitiv::Shape. -/
def Shape.Canonical (s : Shape) : Prop :=
  s.dims.length ≤ 8 ∧ (∀ d ∈ s.dims, d ≠ 0) ∧ trim s.dims = s.dims ∧ s.batch ≠ 0 ∧
  s.volume = Spec.prod s.dims ∧ s.volume * s.batch ≤ MAXU

/-- The specification-level view of a model shape. -/
def toSpec (s : Shape) : SShape := ⟨s.dims, s.batch⟩

/-- The specification-level view of a model result: an Error is `none`. -/
def toSpec? : R Shape → Option SShape
  | .ok s => some (toSpec s)
  | .error _ => none

/-- Model result and specification result agree (see the header). -/
def Agree (r : R Shape) (o : Option SShape) : Prop :=
  match r, o with
  | .ok s, some t => toSpec s = t ∧ s.Canonical
  | .error .error, none => True
  | _, _ => False

namespace Shape.Canonical
variable {s : Shape} (h : s.Canonical)
include h
theorem len : s.dims.length ≤ 8 := h.1
theorem nz : ∀ d ∈ s.dims, d ≠ 0 := h.2.1
theorem trimmed : trim s.dims = s.dims := h.2.2.1
theorem batch_ne : s.batch ≠ 0 := h.2.2.2.1
theorem vol : s.volume = Spec.prod s.dims := h.2.2.2.2.1
theorem bound : s.volume * s.batch ≤ MAXU := h.2.2.2.2.2
theorem vol_pos : 0 < s.volume := by rw [h.vol]; exact prod_pos h.nz
theorem vol_lt : s.volume < W := by
  have := h.bound; have := h.batch_ne
  have : s.volume ≤ s.volume * s.batch := Nat.le_mul_of_pos_right _ (by omega)
  womega
theorem batch_lt : s.batch < W := by
  have := h.bound; have := h.vol_pos
  have : s.batch ≤ s.volume * s.batch := Nat.le_mul_of_pos_left _ (by omega)
  womega
theorem get_pos (i : Nat) : 0 < s.get i := by
  unfold Shape.get
  by_cases hi : i < s.dims.length
  · rw [getD_lt hi]; exact Nat.pos_of_ne_zero (h.nz _ (List.getElem_mem hi))
  · rw [getD_ge (by omega)]; decide
theorem get_le_vol (i : Nat) : s.get i ≤ s.volume := by
  unfold Shape.get
  by_cases hi : i < s.dims.length
  · rw [getD_lt hi, h.vol]; exact le_prod_of_mem h.nz (List.getElem_mem hi)
  · rw [getD_ge (by omega)]; exact h.vol_pos
theorem get_lt (i : Nat) : s.get i < W := Nat.lt_of_le_of_lt (h.get_le_vol i) h.vol_lt
end Shape.Canonical

namespace Agree
theorem error : Agree throwError none := trivial
theorem ok {s : Shape} (h : s.Canonical) : Agree (pure s) (some (toSpec s)) := ⟨rfl, h⟩
theorem ok' {s : Shape} {t : SShape} (h : s.Canonical) (e : toSpec s = t) : Agree (.ok s) (some t) := ⟨e, h⟩

theorem toSpec_eq {r : R Shape} {o : Option SShape} (h : Agree r o) : toSpec? r = o := by
  unfold Agree at h
  split at h
  · simp [toSpec?, h.1]
  · rfl
  · exact h.elim

theorem not_crash {r : R Shape} {o : Option SShape} (h : Agree r o) : r ≠ crash := by
  intro e; subst e; cases o <;> simp [Agree, crash] at h

theorem canonical {r : R Shape} {o : Option SShape} (h : Agree r o) {s : Shape} (e : r = .ok s) :
    s.Canonical := by
  subst e
  cases o with
  | none => simp [Agree] at h
  | some t => exact h.2

theorem bind {r : R Shape} {o : Option SShape} {g : Shape → R Shape} {g' : SShape → Option SShape}
    (h : Agree r o) (hg : ∀ s, s.Canonical → Agree (g s) (g' (toSpec s))) :
    Agree (r >>= g) (o.bind g') := by
  unfold Agree at h
  split at h
  · obtain ⟨h1, h2⟩ := h; subst h1; exact hg _ h2
  · exact trivial
  · exact h.elim
end Agree

/-! ### constructor, update_batch, update_dim -/
theorem new_agree (dims : List Nat) (b : Nat) : Agree (Shape.new dims b) (Spec.mk dims b) := by
  rw [mk_eq]; unfold Shape.new
  by_cases hl : dims.length > 8
  · simp only [hl, if_true, true_or]; exact Agree.error
  simp only [hl, if_false, false_or]
  by_cases hz : 0 ∈ dims
  · simp only [hz, true_or, if_true]
    cases hp : Shape.prodChk dims 1 with
    | none => exact Agree.error
    | some vol =>
      have := prodChk_some hp
      rw [prod_eq_zero hz] at this
      simp only [this]; exact Agree.error
  simp only [hz, false_or]
  have hnz : ∀ d ∈ dims, d ≠ 0 := fun d hd e => hz (e ▸ hd)
  have hpos := prod_pos hnz
  rw [prodChk_eq hnz 1 (by decide), Nat.one_mul]
  by_cases hbig : prod dims > MAXU
  · simp only [hbig, if_true]
    have : b = 0 ∨ prod dims * b ≥ W := by
      by_cases hb : b = 0
      · exact .inl hb
      · have : prod dims ≤ prod dims * b := Nat.le_mul_of_pos_right _ (by omega)
        right; womega
    rw [if_pos this]; exact Agree.error
  simp only [hbig, if_false]
  by_cases hc : b = 0 ∨ prod dims * b ≥ W
  · rw [if_pos hc, if_pos (by womega)]; exact Agree.error
  · rw [if_neg hc, if_neg (by womega)]
    refine Agree.ok' ⟨?_, ?_, ?_, ?_, ?_, ?_⟩ rfl
    · exact Nat.le_trans (length_trim_le _) (by omega)
    · exact fun d hd => hnz d (mem_trim hd)
    · exact trim_trim _
    · show b ≠ 0; womega
    · exact (prod_trim _).symm
    · show prod dims * b ≤ MAXU; womega

theorem updateBatch_agree {s : Shape} (h : s.Canonical) (b : Nat) :
    Agree (s.updateBatch b) (Spec.setBatch (toSpec s) b) := by
  unfold Spec.setBatch Shape.updateBatch
  rw [mk_eq]
  simp only [toSpec]
  have h1 := h.len; have h2 := h.nz
  have hz : ¬ (0 ∈ s.dims) := fun hz => h2 0 hz rfl
  simp only [hz, false_or, show ¬ s.dims.length > 8 by omega, ← h.vol]
  by_cases hb : b = 0
  · simp only [hb, if_true, true_or]; exact Agree.error
  simp only [hb, if_false, false_or]
  by_cases hc : s.volume * b > MAXU
  · rw [if_pos hc, if_pos (by womega)]; exact Agree.error
  · rw [if_neg hc, if_neg (by womega)]
    refine Agree.ok' ⟨h.len, h.nz, h.trimmed, hb, h.vol, by simpa using hc⟩ ?_
    simp [toSpec, h.trimmed]


theorem updateDim_agree {s : Shape} (h : s.Canonical) (d m : Nat) :
    Agree (s.updateDim d m) (Spec.setDim (toSpec s) d m) := by
  unfold Spec.setDim Shape.updateDim
  by_cases hd : d ≥ 8
  · simp only [hd, if_true]; exact Agree.error
  simp only [hd, if_false]
  change Agree (if m = 0 then throwError else
      if s.get d = 0 then crash else
        if s.volume / s.get d * m > MAXU ∨ s.volume / s.get d * m * s.batch > MAXU then throwError
        else pure ⟨trim ((pad s.dims d).set d m), s.batch, s.volume / s.get d * m⟩)
    (Spec.mk ((pad s.dims d).set d m) s.batch)
  rw [mk_eq]
  have hlen : d < (pad s.dims d).length := by rw [length_pad]; omega
  have hlen8 : ¬ ((pad s.dims d).set d m).length > 8 := by
    rw [List.length_set, length_pad]; have := h.len; omega
  obtain ⟨q, hq1, hq2⟩ := prod_set hlen
  have hget : (pad s.dims d)[d] = s.get d := by rw [← getD_lt hlen, getD_pad]; rfl
  rw [prod_pad, ← h.vol, hget] at hq1
  have hgp := h.get_pos d
  have hnv : s.volume / s.get d = q := by rw [hq1]; exact Nat.mul_div_cancel_left _ hgp
  rw [hnv, if_neg (by omega : ¬ s.get d = 0), hq2 m, Nat.mul_comm q m]
  by_cases hm : m = 0
  · have : 0 ∈ (pad s.dims d).set d m := by
      subst hm; exact List.mem_iff_getElem.2 ⟨d, by simpa using hlen, by simp⟩
    rw [if_pos hm, if_pos (.inr (.inl this))]; exact Agree.error
  have hz : ¬ 0 ∈ (pad s.dims d).set d m := by
    intro hz
    rcases List.mem_or_eq_of_mem_set hz with hz | hz
    · rcases mem_pad hz with hz | hz
      · exact h.nz 0 hz rfl
      · cases hz
    · exact hm hz.symm
  have hb := h.batch_ne
  simp only [hm, if_false, hz, hlen8, hb, false_or]
  have : m * q ≤ m * q * s.batch := Nat.le_mul_of_pos_right _ (by omega)
  by_cases hc : m * q * s.batch ≥ W
  · rw [if_pos hc, if_pos (by womega)]; exact Agree.error
  · rw [if_neg hc, if_neg (by womega)]
    refine Agree.ok' ⟨?_, ?_, ?_, hb, ?_, ?_⟩ rfl
    · exact Nat.le_trans (length_trim_le _) (by omega)
    · exact fun x hx e => hz (e ▸ mem_trim hx)
    · exact trim_trim _
    · show m * q = _; rw [prod_trim, hq2 m]
    · show m * q * s.batch ≤ MAXU; womega


theorem Agree.ite {c c' : Prop} [Decidable c] [Decidable c'] {r : R Shape} {o : Option SShape}
    (hc : c ↔ c') (h : ¬ c → Agree r o) :
    Agree (if c then throwError else r) (if c' then none else o) := by
  by_cases hcc : c
  · rw [if_pos hcc, if_pos (hc.1 hcc)]; exact Agree.error
  · rw [if_neg hcc, if_neg (fun x => hcc (hc.2 x))]; exact h hcc

@[simp] theorem toSpec_dims (s : Shape) : (toSpec s).dims = s.dims := rfl
@[simp] theorem toSpec_batch (s : Shape) : (toSpec s).batch = s.batch := rfl
@[simp] theorem toSpec_depth (s : Shape) : (toSpec s).depth = s.depth := rfl
@[simp] theorem toSpec_dimAt (s : Shape) (i : Nat) : (toSpec s).dimAt i = s.get i := rfl
@[simp] theorem toSpec_compat (a b : Shape) :
    compatibleBatch (toSpec a) (toSpec b) = a.hasCompatibleBatch b := rfl
theorem toSpec_volume {s : Shape} (h : s.Canonical) : (toSpec s).volume = s.volume := h.vol.symm

theorem hasSameDims_iff (a b : Shape) : a.hasSameDims b = true ↔ a.dims = b.dims := by
  unfold Shape.hasSameDims Shape.depth
  simp only [Bool.and_eq_true, List.all_eq_true, List.mem_range, beq_iff_eq]
  constructor
  · rintro ⟨h1, h2⟩; exact list_ext_getD h2 h1
  · intro h; simp [h]

theorem sub32_eq {a b : Nat} (h : b < a) (ha : a < W) : sub32 a b = a - b := by
  unfold sub32; womega

namespace ShapeOps
open Shape

theorem reshape_agree {a b : Shape} (ha : a.Canonical) (hb : b.Canonical) :
    Agree (reshape a b) (Spec.reshape (toSpec a) (toSpec b)) := by
  unfold reshape Spec.reshape
  apply Agree.ite
  · simp [toSpec_volume ha, toSpec_volume hb, hasBatch]
  · intro _; exact updateBatch_agree hb _

theorem flatten_agree {x : Shape} (hx : x.Canonical) :
    Agree (flatten x) (Spec.flatten (toSpec x)) := by
  unfold flatten Spec.flatten
  rw [toSpec_volume hx]; exact new_agree _ _

theorem scalarOp_agree {x k : Shape} (hx : x.Canonical) (_hk : k.Canonical) :
    Agree (scalarOp x k) (Spec.scalarOp (toSpec x) (toSpec k)) := by
  unfold scalarOp Spec.scalarOp
  apply Agree.ite
  · simp [isScalar]
  · intro _; exact updateBatch_agree hx _

theorem elementwise_agree {a b : Shape} (ha : a.Canonical) (_hb : b.Canonical) :
    Agree (elementwise a b) (Spec.elementwise (toSpec a) (toSpec b)) := by
  unfold elementwise Spec.elementwise
  apply Agree.ite
  · have := hasSameDims_iff a b
    simp only [Bool.or_eq_true, Bool.not_eq_true', toSpec_dims, toSpec_compat, ne_eq]
    rw [← this]; simp
  · intro _; exact updateBatch_agree ha _

theorem slice_agree {x : Shape} (hx : x.Canonical) (d lo up : Nat) :
    Agree (slice x d lo up) (Spec.slice (toSpec x) d lo up) := by
  unfold slice Spec.slice
  apply Agree.ite
  · simp
  · intro hc
    have hup : up < W := by have := hx.get_lt d; omega
    by_cases hd : d ≥ x.depth
    · have hd' : d ≥ (toSpec x).depth := hd
      rw [if_pos hd, if_pos hd']; exact Agree.ok hx
    · have hd' : ¬ d ≥ (toSpec x).depth := hd
      rw [if_neg hd, if_neg hd', sub32_eq (by omega) hup]; exact updateDim_agree hx _ _

theorem broadcast_agree {x : Shape} (hx : x.Canonical) (d n : Nat) :
    Agree (broadcast x d n) (Spec.broadcast (toSpec x) d n) := by
  unfold broadcast Spec.broadcast
  apply Agree.ite
  · simp
  · intro _; exact updateDim_agree hx _ _

theorem transpose_agree {x : Shape} (_hx : x.Canonical) :
    Agree (transpose x) (Spec.transpose (toSpec x)) := by
  unfold transpose Spec.transpose
  apply Agree.ite
  · simp [isMatrix]
  · intro _; exact new_agree _ _

theorem matmul_agree {l r : Shape} (_hl : l.Canonical) (_hr : r.Canonical) :
    Agree (matmul l r) (Spec.matmul (toSpec l) (toSpec r)) := by
  unfold matmul Spec.matmul
  apply Agree.ite
  · simp [isMatrix, or_assoc]
  · intro _; exact new_agree _ _

theorem batchSlice_agree {x : Shape} (hx : x.Canonical) (lo up : Nat) :
    Agree (batchSlice x lo up) (Spec.batchSlice (toSpec x) lo up) := by
  unfold batchSlice Spec.batchSlice
  apply Agree.ite
  · simp
  · intro hc
    have := hx.batch_lt
    rw [sub32_eq (by omega) (by omega)]; exact updateBatch_agree hx _

theorem split_cond {t n : Nat} (_hn : n ≠ 0) (ht : t < W) : mul32 (t / n) n ≠ t ↔ t % n ≠ 0 := by
  unfold mul32
  have h1 : t / n * n ≤ t := Nat.div_mul_le_self t n
  rw [Nat.mod_eq_of_lt (by omega)]
  have := Nat.div_add_mod t n
  rw [Nat.mul_comm] at this
  omega

theorem split_agree {x : Shape} (hx : x.Canonical) (d n : Nat) :
    Agree (split x d n) (Spec.split (toSpec x) d n) := by
  unfold split Spec.split
  by_cases hn : n = 0
  · simp only [hn, if_true, true_or]; exact Agree.error
  simp only [hn, if_false, false_or, toSpec_dimAt]
  apply Agree.ite
  · exact split_cond hn (hx.get_lt d)
  · intro _; exact updateDim_agree hx _ _

theorem batchSplit_agree {x : Shape} (hx : x.Canonical) (n : Nat) :
    Agree (batchSplit x n) (Spec.batchSplit (toSpec x) n) := by
  unfold batchSplit Spec.batchSplit
  by_cases hn : n = 0
  · simp only [hn, if_true, true_or]; exact Agree.error
  simp only [hn, if_false, false_or, toSpec_batch]
  apply Agree.ite
  · exact split_cond hn hx.batch_lt
  · intro _; exact updateBatch_agree hx _


theorem pick_agree {x : Shape} (hx : x.Canonical) (ids : List Nat) (d : Nat) (hids : ids.length < W) :
    Agree (pick x ids d) (Spec.pick (toSpec x) ids d) := by
  unfold pick Spec.pick
  simp only [Nat.mod_eq_of_lt hids]
  apply Agree.ite
  · simp [hasBatch]
  · intro _
    apply Agree.ite
    · simp
    · intro _
      exact Agree.bind (updateDim_agree hx _ _) (fun r hr => updateBatch_agree hr _)

theorem batchPick_agree {x : Shape} (hx : x.Canonical) (ids : List Nat) (hids : ids.length < W) :
    Agree (batchPick x ids) (Spec.batchPick (toSpec x) ids) := by
  unfold batchPick Spec.batchPick
  simp only [Nat.mod_eq_of_lt hids]
  by_cases h0 : ids.length = 0
  · simp only [h0, if_true, true_or]; exact Agree.error
  simp only [h0, if_false, false_or]
  apply Agree.ite
  · simp
  · intro _; exact updateBatch_agree hx _

theorem conv2d_agree {x w : Shape} (_hx : x.Canonical) (_hw : w.Canonical) (p0 p1 s0 s1 d0 d1 : Nat) :
    Agree (conv2d x w p0 p1 s0 s1 d0 d1) (Spec.conv2d (toSpec x) (toSpec w) p0 p1 s0 s1 d0 d1) := by
  unfold conv2d Spec.conv2d
  apply Agree.ite
  · simp
  · intro _
    apply Agree.ite
    · simp only [toSpec_dimAt, W, MAXU]; omega
    · intro _; exact new_agree _ _

theorem pool2d_agree {x : Shape} (_hx : x.Canonical) (w0 w1 p0 p1 s0 s1 : Nat) :
    Agree (pool2d x w0 w1 p0 p1 s0 s1) (Spec.pool2d (toSpec x) w0 w1 p0 p1 s0 s1) := by
  unfold pool2d Spec.pool2d
  apply Agree.ite
  · simp
  · intro _
    apply Agree.ite
    · simp only [toSpec_dimAt, W, MAXU]; omega
    · intro _; exact new_agree _ _

/-! ### permute_dims -/
theorem permuteLoop_eq (x : Shape) (n : Nat) (ps picked : List Nat) :
    permuteLoop x n ps picked =
      if ps.any (fun p => decide (p ≥ n)) ∨ ¬ ps.Nodup ∨ ∃ p ∈ ps, p ∈ picked then throwError
      else pure (ps.map x.get) := by
  induction ps generalizing picked with
  | nil => simp [permuteLoop]
  | cons p ps ih =>
    simp only [permuteLoop]
    by_cases h1 : p ≥ n
    · simp [h1]
    by_cases h2 : picked.contains p = true
    · have : p ∈ picked := by simpa using h2
      simp only [h1, h2, if_true, if_false]
      rw [if_pos]; right; right; exact ⟨p, by simp, this⟩
    have h2' : p ∉ picked := by simpa using h2
    have key : ((p :: ps).any (fun p => decide (p ≥ n)) = true ∨ ¬ (p :: ps).Nodup ∨ ∃ q ∈ p :: ps, q ∈ picked) ↔
        ((ps.any fun p => decide (p ≥ n)) = true ∨ ¬ps.Nodup ∨ ∃ q, q ∈ ps ∧ q ∈ p :: picked) := by
      constructor
      · intro hcc
        rcases hcc with hcc | hcc | ⟨q, hq1, hq2⟩
        · left; simpa [h1] using hcc
        · simp only [List.nodup_cons, not_and] at hcc
          by_cases hp : p ∈ ps
          · right; right; exact ⟨p, hp, by simp⟩
          · right; left; exact hcc hp
        · rcases List.mem_cons.1 hq1 with rfl | hq1
          · exact (h2' hq2).elim
          · right; right; exact ⟨q, hq1, List.mem_cons_of_mem _ hq2⟩
      · intro hc
        rcases hc with hc | hc | ⟨q, hq1, hq2⟩
        · left; simp only [List.any_cons, Bool.or_eq_true]; right; exact hc
        · right; left; simp only [List.nodup_cons, not_and]; intro _; exact hc
        · rcases List.mem_cons.1 hq2 with rfl | hq2
          · right; left; simp only [List.nodup_cons, not_and]; intro hh; exact (hh hq1).elim
          · right; right; exact ⟨q, List.mem_cons_of_mem _ hq1, hq2⟩
    simp only [h1, h2, if_false, ih]
    by_cases hc : (ps.any fun p => decide (p ≥ n)) = true ∨ ¬ps.Nodup ∨ ∃ q, q ∈ ps ∧ q ∈ p :: picked
    · rw [if_pos hc, if_pos (key.2 hc)]; rfl
    · rw [if_neg hc, if_neg (fun h => hc (key.1 h))]; rfl

theorem permuteDims_agree {x : Shape} (_hx : x.Canonical) (perm : List Nat) :
    Agree (permuteDims x perm) (Spec.permuteDims (toSpec x) perm) := by
  unfold permuteDims Spec.permuteDims
  apply Agree.ite
  · simp
  · intro _
    rw [permuteLoop_eq]
    by_cases h1 : (perm.any fun p => decide (p ≥ perm.length)) = true
    · simp only [h1, true_or, if_true]; exact Agree.error
    by_cases h2 : perm.Nodup
    · have : ¬ ((perm.any fun p => decide (p ≥ perm.length)) = true ∨ ¬perm.Nodup ∨ ∃ p, p ∈ perm ∧ p ∈ []) := by
        simp [h1, h2]
      rw [if_neg this, if_neg h1]
      simp only [h2, decide_true, Bool.not_true, Bool.false_eq_true, if_false]
      exact new_agree _ _
    · rw [if_pos (.inr (.inl h2)), if_neg h1]
      simp only [h2, decide_false, Bool.not_false, if_true]; exact Agree.error

end ShapeOps

/-! ### has_same_loo_dims -/
theorem getD_take (l : List Nat) (d i : Nat) : (l.take d).getD i 1 = if i < d then l.getD i 1 else 1 := by
  simp only [List.getD_eq_getElem?_getD, List.getElem?_take]
  split <;> simp

theorem looLen_eq {s : Shape} (ht : trim s.dims = s.dims) (d : Nat) :
    s.looLen d = pure (trim (s.dims.set d 1)).length := by
  unfold Shape.looLen Shape.depth
  split
  · rename_i h
    have : trim (s.dims.take d) = trim (s.dims.set d 1) := by
      rw [trim_eq_iff]
      intro i
      rw [getD_take, getD_set_one]
      by_cases h1 : i < d
      · rw [if_pos h1, if_neg (by omega)]
      · rw [if_neg h1]
        split
        · rfl
        · rw [getD_ge (by omega)]
    rw [this]
  · rename_i h
    by_cases h1 : s.dims.length ≤ d
    · rw [List.set_eq_of_length_le h1]
    · have h2 : trim (s.dims.set d 1) = s.dims.set d 1 := by
        rw [trim_eq_self_iff, List.getLast?_eq_getElem?, List.length_set, List.getElem?_set_ne (by omega),
          ← List.getLast?_eq_getElem?]
        exact trim_eq_self_iff.1 ht
      rw [h2, ht, List.length_set]

theorem hasSameLooDims_eq {a b : Shape} (ha : trim a.dims = a.dims) (hb : trim b.dims = b.dims) (d : Nat) :
    a.hasSameLooDims b d = pure (Spec.sameLoo (toSpec a) (toSpec b) d) := by
  unfold Shape.hasSameLooDims
  rw [looLen_eq ha, looLen_eq hb]
  show (pure _ : R Bool) = pure _
  congr 1
  rw [Bool.eq_iff_iff]
  have hm : ((trim (a.dims.set d 1)).length == (trim (b.dims.set d 1)).length &&
      (List.range (trim (a.dims.set d 1)).length).all fun i => a.dims.getD i 1 == b.dims.getD i 1 || i == d) = true
      ↔ trim (a.dims.set d 1) = trim (b.dims.set d 1) := by
    simp only [Bool.and_eq_true, beq_iff_eq, List.all_eq_true, List.mem_range, Bool.or_eq_true]
    constructor
    · rintro ⟨h1, h2⟩
      apply list_ext_getD h1
      intro i hi
      rw [getD_trim, getD_trim, getD_set_one, getD_set_one]
      split
      · rfl
      · rename_i hne; rcases h2 i hi with h | h
        · exact h
        · exact (hne h).elim
    · intro h
      refine ⟨by rw [h], ?_⟩
      intro i _
      have := trim_eq_iff.1 h i
      rw [getD_set_one, getD_set_one] at this
      by_cases hid : i = d
      · exact .inr hid
      · rw [if_neg hid, if_neg hid] at this; exact .inl this
  have hs : Spec.sameLoo (toSpec a) (toSpec b) d = true
      ↔ trim (a.dims.set d 1) = trim (b.dims.set d 1) := by
    unfold Spec.sameLoo
    simp only [List.all_eq_true, List.mem_range, Bool.or_eq_true, beq_iff_eq, toSpec_depth, toSpec_dimAt]
    rw [trim_eq_iff]
    unfold Shape.get Shape.depth
    constructor
    · intro h i
      rw [getD_set_one, getD_set_one]
      split
      · rfl
      · rename_i hne
        by_cases hi : i < max a.dims.length b.dims.length
        · rcases h i hi with h | h
          · exact (hne h).elim
          · exact h
        · rw [getD_ge (by omega), getD_ge (by omega)]
    · intro h i _
      have := h i
      rw [getD_set_one, getD_set_one] at this
      by_cases hid : i = d
      · exact .inl hid
      · rw [if_neg hid, if_neg hid] at this; exact .inr this
  rw [hm, hs]

theorem sameLoo_congr {a a' : SShape} (h : a.dims = a'.dims) (b : SShape) (d : Nat) :
    Spec.sameLoo a b d = Spec.sameLoo a' b d := by
  unfold Spec.sameLoo SShape.depth SShape.dimAt; rw [h]

/-! ### sums -/
def lsum (l : List Nat) : Nat := l.foldl (· + ·) 0

theorem foldl_add (l : List Nat) (v : Nat) : l.foldl (· + ·) v = v + l.foldl (· + ·) 0 := by
  induction l generalizing v with
  | nil => simp
  | cons d ds ih => simp only [List.foldl_cons]; rw [ih (v + d), ih (0 + d)]; omega

@[simp] theorem lsum_nil : lsum [] = 0 := rfl
@[simp] theorem lsum_cons (d : Nat) (ds : List Nat) : lsum (d :: ds) = d + lsum ds := by
  unfold lsum; simp only [List.foldl_cons]; rw [foldl_add]; omega

/-! ### the batch of a concatenation: left fold of the code, right fold of the specification -/
def lb (B : Nat) : List Nat → Option Nat
  | [] => some B
  | b :: rest => if B = b ∨ B = 1 ∨ b = 1 then lb (if B = 1 then b else B) rest else none

def comb (x r : Nat) : Option Nat :=
  if x = r ∨ x = 1 then some r else if r = 1 then some x else none

theorem commonBatch_cons (s : SShape) (rest : List SShape) :
    commonBatch (s :: rest) = (commonBatch rest).bind (comb s.batch) := by
  simp only [commonBatch]; rfl

theorem comb_merge (B b r : Nat) :
    (if B = b ∨ B = 1 ∨ b = 1 then comb (if B = 1 then b else B) r else none) = (comb b r).bind (comb B) := by
  unfold comb
  by_cases h1 : B = 1 <;> by_cases h2 : b = 1 <;> by_cases h3 : B = b <;> by_cases h4 : b = r <;>
    by_cases h5 : r = 1 <;> by_cases h6 : B = r <;> simp_all <;> omega

theorem lb_eq_commonBatch (rest : List SShape) (x0 : SShape) :
    lb x0.batch (rest.map (·.batch)) = commonBatch (x0 :: rest) := by
  induction rest generalizing x0 with
  | nil =>
    rw [commonBatch_cons]
    simp only [List.map_nil, lb, commonBatch, Option.bind_some, comb]
    by_cases h : x0.batch = 1 <;> simp [h]
  | cons s rest ih =>
    simp only [List.map_cons, lb]
    rw [commonBatch_cons x0, commonBatch_cons s]
    have := ih ⟨x0.dims, if x0.batch = 1 then s.batch else x0.batch⟩
    simp only at this
    rw [this, commonBatch_cons]
    cases commonBatch rest with
    | none => simp
    | some r => simp only [Option.bind_some]; exact comb_merge _ _ _

theorem lb_some {B b : Nat} {l : List Nat} (h : lb B l = some b) (hB : B ≠ 0) (hl : ∀ x ∈ l, x ≠ 0) :
    b ≠ 0 ∧ (B = 1 ∨ b = B) := by
  induction l generalizing B with
  | nil => simp [lb] at h; subst h; exact ⟨hB, .inr rfl⟩
  | cons x xs ih =>
    simp only [lb] at h
    split at h
    · have hx := hl x (by simp)
      by_cases hB1 : B = 1
      · rw [if_pos hB1] at h
        exact ⟨(ih h hx (fun y hy => hl y (List.mem_cons_of_mem _ hy))).1, .inl hB1⟩
      · rw [if_neg hB1] at h
        have := ih h hB (fun y hy => hl y (List.mem_cons_of_mem _ hy))
        exact ⟨this.1, this.2.elim (fun e => (hB1 e).elim) .inr⟩
    · cases h


theorem updateBatch_big {s : Shape} (h : s.Canonical) {b : Nat} (hb : b > MAXU) :
    s.updateBatch b = throwError := by
  unfold Shape.updateBatch
  have := h.vol_pos
  have : b ≤ s.volume * b := Nat.le_mul_of_pos_left _ this
  rw [if_neg (by womega), if_pos (by omega)]

theorem updateDim_big {s : Shape} (h : s.Canonical) (d : Nat) {m : Nat} (hm : m > MAXU) :
    s.updateDim d m = throwError := by
  unfold Shape.updateDim
  by_cases hd : d ≥ 8
  · rw [if_pos hd]
  rw [if_neg hd, if_neg (by womega)]
  have hg := h.get_pos d
  have hq : 0 < s.volume / s.get d := Nat.div_pos (h.get_le_vol d) hg
  have : m ≤ s.volume / s.get d * m := Nat.le_mul_of_pos_left _ hq
  simp only
  rw [if_neg (by omega), if_pos (.inl (by omega))]

namespace ShapeOps
open Shape

theorem withBatch_canonical {s : Shape} (h : s.Canonical) {b : Nat} (hb : b ≠ 0) (hv : s.volume * b ≤ MAXU) :
    ({ s with batch := b } : Shape).Canonical :=
  ⟨h.len, h.nz, h.trimmed, hb, h.vol, hv⟩

theorem concatLoop_eq (d : Nat) (rest : List Shape) (hrest : ∀ s ∈ rest, s.Canonical)
    (s0 : Shape) (h0 : s0.Canonical) (sum : Nat) :
    concatLoop d rest (s0, sum) =
      if rest.all (fun s => Spec.sameLoo (toSpec s0) (toSpec s) d) = false then throwError else
      match lb s0.batch (rest.map (·.batch)) with
      | none => throwError
      | some b => if s0.volume * b > MAXU then throwError
                  else pure ({ s0 with batch := b }, sum + lsum (rest.map (·.get d))) := by
  induction rest generalizing s0 sum with
  | nil =>
    have := h0.bound
    simp only [concatLoop, List.all_nil, List.map_nil, lb, lsum_nil, Nat.add_zero]
    rw [if_neg (by simp), if_neg (by omega)]
  | cons s rest ih =>
    have hs := hrest s (by simp)
    have hr : ∀ t ∈ rest, t.Canonical := fun t ht => hrest t (List.mem_cons_of_mem _ ht)
    simp only [concatLoop]
    rw [hasSameLooDims_eq h0.trimmed hs.trimmed]
    show (if (!Spec.sameLoo (toSpec s0) (toSpec s) d || !s0.hasCompatibleBatch s) = true then throwError
      else if (!s0.hasBatch) = true then s0.updateBatch s.batch >>= fun s0' =>
          concatLoop d rest (s0', sum + s.get d)
        else concatLoop d rest (s0, sum + s.get d)) = _
    by_cases hl : Spec.sameLoo (toSpec s0) (toSpec s) d = false
    · rw [if_pos (by simp [hl]), if_pos (by simp [hl])]
    replace hl : Spec.sameLoo (toSpec s0) (toSpec s) d = true := by simpa using hl
    by_cases hc : s0.hasCompatibleBatch s = false
    · rw [if_pos (by simp [hc])]
      have : ¬ (s0.batch = s.batch ∨ s0.batch = 1 ∨ s.batch = 1) := by
        have := hc; simp [hasCompatibleBatch] at this; omega
      simp only [List.map_cons, lb, if_neg this]
      split <;> rfl
    replace hc : s0.hasCompatibleBatch s = true := by simpa using hc
    have hc' : s0.batch = s.batch ∨ s0.batch = 1 ∨ s.batch = 1 := by
      have := hc; simp [hasCompatibleBatch] at this; omega
    rw [if_neg (by simp [hl, hc])]
    simp only [List.all_cons, hl, Bool.true_and, List.map_cons, lb, if_pos hc', lsum_cons]
    by_cases hb1 : s0.batch = 1
    · -- the code adopts the batch of `s`
      have hhb : (!s0.hasBatch) = true := by simp [hasBatch, hb1]
      rw [if_pos hhb, if_pos hb1]
      unfold updateBatch
      rw [if_neg hs.batch_ne]
      by_cases hv : s0.volume * s.batch > MAXU
      · rw [if_pos hv]
        show throwError = _
        split
        · rfl
        · split
          · rfl
          · rename_i b hb
            have := lb_some hb hs.batch_ne (by
              intro x hx; obtain ⟨t, ht, rfl⟩ := List.mem_map.1 hx; exact (hr t ht).batch_ne)
            have h1 : s.batch ≠ 1 := by
              intro e; rw [e] at hv; have := h0.vol_lt; womega
            have : b = s.batch := this.2.elim (fun e => (h1 e).elim) id
            rw [this, if_pos hv]
      · rw [if_neg hv]
        have hcan := withBatch_canonical h0 hs.batch_ne (by omega)
        show concatLoop d rest ({ s0 with batch := s.batch }, sum + s.get d) = _
        rw [ih hr _ hcan]
        simp only [Nat.add_assoc]
        have : ∀ t, Spec.sameLoo (toSpec { s0 with batch := s.batch }) t d = Spec.sameLoo (toSpec s0) t d :=
          fun t => sameLoo_congr rfl t d
        simp only [this]
    · have hhb : ¬ (!s0.hasBatch) = true := by
        have := h0.batch_ne
        simp [hasBatch]; omega
      rw [if_neg hhb, if_neg hb1]
      rw [ih hr _ h0]
      simp only [Nat.add_assoc]

end ShapeOps

theorem mk_bind_setBatch (l : List Nat) {b0 b : Nat} (h0 : b0 ≠ 0) (hle : b0 ≤ b) :
    (Spec.mk l b0).bind (fun s => Spec.setBatch s b) = Spec.mk l b := by
  unfold Spec.setBatch
  rw [mk_eq l b0, mk_eq l b]
  have hmul : prod l * b0 ≤ prod l * b := Nat.mul_le_mul_left _ hle
  by_cases hl : l.length > 8
  · simp [hl]
  by_cases hz : 0 ∈ l
  · simp [hz]
  by_cases hc : prod l * b0 ≥ W
  · rw [if_pos (by simp [hc]), if_pos (.inr (.inr (.inr (by omega))))]; rfl
  rw [if_neg (by simp [hl, hz, h0, hc])]
  simp only [Option.bind_some]
  rw [mk_eq, prod_trim, trim_trim]
  have h1 : ¬ (trim l).length > 8 := by have := length_trim_le l; omega
  have h2 : ¬ 0 ∈ trim l := fun h => hz (mem_trim h)
  simp only [h1, h2, hl, hz, false_or]

namespace ShapeOps
open Shape

theorem concat_agree (xs : List Shape) (hxs : ∀ s ∈ xs, s.Canonical) (d : Nat) :
    Agree (concat xs d) (Spec.concat (xs.map toSpec) d) := by
  cases xs with
  | nil => exact Agree.error
  | cons x0 rest =>
    have h0 := hxs x0 (by simp)
    have hr : ∀ t ∈ rest, t.Canonical := fun t ht => hxs t (List.mem_cons_of_mem _ ht)
    show Agree (concat (x0 :: rest) d) (Spec.concat (toSpec x0 :: rest.map toSpec) d)
    simp only [concat, Spec.concat]
    rw [concatLoop_eq d rest hr x0 h0]
    have hall : (List.map toSpec rest).all (fun s => Spec.sameLoo (toSpec x0) s d) =
        rest.all (fun s => Spec.sameLoo (toSpec x0) (toSpec s) d) := by
      simp [List.all_map, Function.comp_def]
    rw [hall]
    by_cases ha : rest.all (fun s => Spec.sameLoo (toSpec x0) (toSpec s) d) = false
    · rw [if_pos ha, if_pos (by simp [ha])]; exact Agree.error
    rw [if_neg ha, if_neg (by simpa using ha)]
    have hcb := lb_eq_commonBatch (rest.map toSpec) (toSpec x0)
    simp only [List.map_map, toSpec_batch] at hcb
    have hcb' : lb x0.batch (rest.map (·.batch)) = commonBatch (toSpec x0 :: rest.map toSpec) := by
      rw [← hcb]; congr 1
    rw [← hcb']
    have hsum : ((toSpec x0 :: rest.map toSpec).map (·.dimAt d)).foldl (· + ·) 0 =
        x0.get d + lsum (rest.map (·.get d)) := by
      rw [← lsum_cons]; unfold lsum; simp [List.map_map, Function.comp_def]
    rw [hsum]
    cases hlb : lb x0.batch (rest.map (·.batch)) with
    | none => exact Agree.error
    | some b =>
      have hbs := lb_some hlb h0.batch_ne (by
        intro x hx; obtain ⟨t, ht, rfl⟩ := List.mem_map.1 hx; exact (hr t ht).batch_ne)
      have hle : x0.batch ≤ b := by
        have := h0.batch_ne; rcases hbs.2 with h | h <;> omega
      -- the specification side: one `mk` with the final batch
      have hspec : (Spec.setDim (toSpec x0) d (x0.get d + lsum (rest.map (·.get d)))).bind
            (fun s => Spec.setBatch s b) =
          Spec.setDim (toSpec ({ x0 with batch := b } : Shape)) d (x0.get d + lsum (rest.map (·.get d))) := by
        unfold Spec.setDim
        by_cases hd : d ≥ 8
        · simp [hd]
        · rw [if_neg hd, if_neg hd]
          exact mk_bind_setBatch _ h0.batch_ne hle
      show Agree _ ((Spec.setDim (toSpec x0) d (x0.get d + lsum (rest.map (·.get d)))).bind
            (fun s => Spec.setBatch s b))
      rw [hspec]
      generalize hT : x0.get d + lsum (rest.map (·.get d)) = total
      have hge : x0.get d ≤ total := by omega
      by_cases hv : x0.volume * b > MAXU
      · -- the code fails when adopting the batch; the specification's product is too large as well
        simp only [hv, if_true]
        show Agree throwError _
        have : Spec.setDim (toSpec ({ x0 with batch := b } : Shape)) d total = none := by
          unfold Spec.setDim
          by_cases hd : d ≥ 8
          · rw [if_pos hd]
          rw [if_neg hd]
          show Spec.mk ((pad x0.dims d).set d total) b = none
          rw [mk_eq]
          have hlen : d < (pad x0.dims d).length := by rw [length_pad]; omega
          obtain ⟨q, hq1, hq2⟩ := prod_set hlen
          have hget : (pad x0.dims d)[d] = x0.get d := by rw [← getD_lt hlen, getD_pad]; rfl
          rw [prod_pad, ← h0.vol, hget] at hq1
          rw [hq2 total]
          have : x0.get d * q * b ≤ total * q * b :=
            Nat.mul_le_mul_right _ (Nat.mul_le_mul_right _ hge)
          rw [← hq1] at this
          rw [if_pos (.inr (.inr (.inr (by womega))))]
        rw [this]; exact Agree.error
      · simp only [hv, if_false]
        have hcan := withBatch_canonical h0 hbs.1 (by omega)
        show Agree (if total > MAXU then throwError else
          ({ x0 with batch := b } : Shape).updateDim d total) _
        by_cases ht : total > MAXU
        · rw [if_pos ht, ← updateDim_big hcan d ht]; exact updateDim_agree hcan _ _
        · rw [if_neg ht]; exact updateDim_agree hcan _ _


theorem batchConcatLoop_eq (s0 : Shape) (rest : List Shape) (sum : Nat) :
    batchConcatLoop s0 rest sum =
      if rest.all (fun s => s.dims == s0.dims) = false then throwError
      else pure (sum + lsum (rest.map (·.batch))) := by
  induction rest generalizing sum with
  | nil => simp [batchConcatLoop]
  | cons s rest ih =>
    simp only [batchConcatLoop, List.all_cons, List.map_cons, lsum_cons]
    by_cases h : s0.hasSameDims s = true
    · have h' : (s.dims == s0.dims) = true := by simpa using ((hasSameDims_iff _ _).1 h).symm
      rw [if_neg (by simp [h]), ih, h', Bool.true_and, Nat.add_assoc]
    · have h' : (s.dims == s0.dims) = false := by
        simp only [beq_eq_false_iff_ne, ne_eq]
        intro e; exact h ((hasSameDims_iff _ _).2 e.symm)
      rw [if_pos (by simpa using h), h', Bool.false_and, if_pos rfl]

theorem batchConcat_agree (xs : List Shape) (hxs : ∀ s ∈ xs, s.Canonical) :
    Agree (batchConcat xs) (Spec.batchConcat (xs.map toSpec)) := by
  cases xs with
  | nil => exact Agree.error
  | cons x0 rest =>
    have h0 := hxs x0 (by simp)
    show Agree (batchConcat (x0 :: rest)) (Spec.batchConcat (toSpec x0 :: rest.map toSpec))
    simp only [batchConcat, Spec.batchConcat]
    rw [batchConcatLoop_eq]
    have hall : (List.map toSpec rest).all (fun s => s.dims == (toSpec x0).dims) =
        rest.all (fun s => s.dims == x0.dims) := by
      simp [List.all_map, Function.comp_def]
    rw [hall]
    by_cases ha : rest.all (fun s => s.dims == x0.dims) = false
    · rw [if_pos ha, if_pos (by simp [ha])]; exact Agree.error
    rw [if_neg ha, if_neg (by simpa using ha)]
    have hsum : ((toSpec x0 :: rest.map toSpec).map (·.batch)).foldl (· + ·) 0 =
        x0.batch + lsum (rest.map (·.batch)) := by
      rw [← lsum_cons]; unfold lsum; simp [List.map_map, Function.comp_def]
    rw [hsum]
    generalize x0.batch + lsum (rest.map (·.batch)) = total
    show Agree (if total > MAXU then throwError else x0.updateBatch total) _
    by_cases ht : total > MAXU
    · rw [if_pos ht, ← updateBatch_big h0 ht]; exact updateBatch_agree h0 _
    · rw [if_neg ht]; exact updateBatch_agree h0 _

end ShapeOps

/-! ### equality and exactness of the cached 32-bit products -/
theorem eq_iff' (a b : Shape) : a.eq b = true ↔ a.dims = b.dims ∧ a.batch = b.batch := by
  unfold Shape.eq
  rw [Bool.and_eq_true, hasSameDims_iff, beq_iff_eq]

theorem size_exact' {s : Shape} (h : s.Canonical) : s.size = s.batch * Spec.prod s.dims := by
  unfold Shape.size mul32
  rw [← h.vol, Nat.mod_eq_of_lt]
  have := h.bound; rw [Nat.mul_comm]; womega

theorem lowerVolume_exact' {s : Shape} (h : s.Canonical) (d : Nat) :
    s.lowerVolume d = Spec.prod (s.dims.take d) := by
  unfold Shape.lowerVolume
  rw [prod32_eq, Nat.mod_eq_of_lt]
  have h1 : prod s.dims = prod (s.dims.take d) * prod (s.dims.drop d) := by
    rw [← prod_append, List.take_append_drop]
  have h2 : 0 < prod (s.dims.drop d) := prod_pos (fun x hx => h.nz x (List.mem_of_mem_drop hx))
  have h3 : prod (s.dims.take d) ≤ prod (s.dims.take d) * prod (s.dims.drop d) := Nat.le_mul_of_pos_right _ h2
  have := h.vol_lt; rw [h.vol] at this; omega


theorem sameLoo_iff (a b : SShape) (d : Nat) :
    Spec.sameLoo a b d = true ↔ ∀ i, i ≠ d → a.dimAt i = b.dimAt i := by
  unfold Spec.sameLoo SShape.dimAt SShape.depth
  simp only [List.all_eq_true, List.mem_range, Bool.or_eq_true, beq_iff_eq]
  constructor
  · intro h i hne
    by_cases hi : i < max a.dims.length b.dims.length
    · exact (h i hi).elim (fun e => (hne e).elim) id
    · rw [getD_ge (by omega), getD_ge (by omega)]
  · intro h i _
    by_cases hid : i = d
    · exact .inl hid
    · exact .inr (h i hid)

instance (s : Shape) : Decidable s.Canonical := by unfold Shape.Canonical; infer_instance

end Primitiv
