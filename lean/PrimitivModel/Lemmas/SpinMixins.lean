import PrimitivModel.Model.SpinMixins
/-
Invariants of the sequential models of Identifiable / DefaultSettable
(core Lean only; used by Props/C19.lean).
-/
namespace Primitiv.Lock

theorem updO_apply {α} (f : Nat → α) (k x : Nat) (v : α) : updO f k v x = if x = k then v else f x := rfl

namespace Ident

/-- Invariant of the registry. -/
structure Good (s : St) : Prop where
  next_eq : s.next = s.issued.length
  issued_lt : ∀ i ∈ s.issued, i < s.next
  nodup : s.issued.Nodup
  bij : ∀ i a, s.objs i = some a ↔ s.live a = some i
  objs_lt : ∀ i a, s.objs i = some a → i < s.next

theorem good_init : Good init := by
  constructor <;> simp [init]

theorem issued_len (s : St) (c : Cmd) : (exec s c).1.issued.length ≤ s.issued.length + 1 := by
  cases c <;> simp only [exec] <;> split <;> simp

theorem good_exec (s : St) (c : Cmd) (g : Good s) (hb : s.issued.length + 1 < W64) : Good (exec s c).1 := by
  have h1 := g.next_eq; have h2 := g.issued_lt; have h3 := g.nodup; have h4 := g.bij; have h5 := g.objs_lt
  cases c with
  | new a =>
    simp only [exec]
    cases hl : s.live a with
    | some i => exact g
    | none =>
      have hfree : s.objs s.next = none := by
        cases ho : s.objs s.next with
        | none => rfl
        | some b => exact absurd (h5 _ _ ho) (Nat.lt_irrefl _)
      have hmod : inc64 s.next = s.next + 1 := by
        have : s.next + 1 < W64 := by omega
        simp [inc64, this]
      simp only [hfree, hmod]
      constructor
      · simp [h1]
      · intro i hi
        dsimp only at hi ⊢
        simp only [List.mem_cons] at hi
        rcases hi with rfl | hi
        · omega
        · have := h2 i hi; omega
      · simp only [List.nodup_cons]
        exact ⟨fun hm => absurd (h2 _ hm) (Nat.lt_irrefl _), h3⟩
      · intro i b
        simp only [updO_apply]
        by_cases hi : i = s.next <;> by_cases hb : b = a
        · subst hb; simp [hi]
        · simp only [hi, hb, if_true, if_false]
          constructor
          · intro h; exact absurd (Option.some.inj h).symm hb
          · intro h; have := (h4 _ _).2 h; rw [hfree] at this; cases this
        · simp only [hi, hb, if_true, if_false]
          constructor
          · intro h; have := (h4 _ _).1 h; rw [hl] at this; cases this
          · intro h; exact absurd (Option.some.inj h).symm hi
        · simp only [hi, hb, if_false]; exact h4 i b
      · intro i b
        simp only [updO_apply]
        by_cases hi : i = s.next
        · intro _; show i < s.next + 1; omega
        · simp only [hi, if_false]; intro h; have := h5 i b h; show i < s.next + 1; omega
  | del a =>
    simp only [exec]
    cases hl : s.live a with
    | none => exact g
    | some id =>
      have hobj : s.objs id = some a := (h4 _ _).2 hl
      constructor
      · exact h1
      · exact h2
      · exact h3
      · intro i b
        simp only [updO_apply]
        by_cases hi : i = id <;> by_cases hb : b = a
        · simp [hi, hb]
        · simp only [hi, hb, if_true, if_false]
          constructor
          · intro h; cases h
          · intro h; have := (h4 _ _).2 h; rw [hobj] at this; exact absurd (Option.some.inj this).symm hb
        · simp only [hi, hb, if_true, if_false]
          constructor
          · intro h; have := (h4 _ _).1 h; rw [hl] at this; exact absurd (Option.some.inj this).symm hi
          · intro h; cases h
        · simp only [hi, hb, if_false]; exact h4 i b
      · intro i b
        simp only [updO_apply]
        by_cases hi : i = id
        · simp [hi]
        · simp only [hi, if_false]; exact h5 i b
  | get id =>
    simp only [exec]
    split <;> exact g

theorem good_foldl (h : List Cmd) : ∀ s, Good s → s.issued.length + h.length < W64 →
    Good (h.foldl (fun s c => (exec s c).1) s) := by
  induction h with
  | nil => intro s g _; exact g
  | cons c h ih =>
    intro s g hb
    simp only [List.foldl_cons]
    simp only [List.length_cons] at hb
    apply ih
    · exact good_exec s c g (by omega)
    · have := issued_len s c; omega

theorem good_run (h : List Cmd) (hl : h.length < W64) : Good (run h) :=
  good_foldl h init good_init (by simpa [init] using hl)

end Ident

namespace Default

theorem good_exec (s : St) (c : Cmd) (g : ∀ a, s.slot = some a → s.live a = true) :
    ∀ a, (exec s c).1.slot = some a → (exec s c).1.live a = true := by
  cases c with
  | new b =>
    simp only [exec]; split
    · exact g
    · intro a h; simp only [updO_apply]; split
      · rfl
      · exact g a h
  | set b =>
    simp only [exec]; split
    · intro a h; cases h; assumption
    · exact g
  | del b =>
    simp only [exec]; split
    · intro a h
      simp only [updO_apply]
      by_cases hs : s.slot = some b
      · simp [hs] at h
      · simp only [hs, if_false] at h
        have hab : a ≠ b := by intro e; subst e; exact hs h
        simp only [hab, if_false]; exact g a h
    · exact g
  | get =>
    simp only [exec]; split <;> exact g

theorem good_foldl (h : List Cmd) : ∀ s : St, (∀ a, s.slot = some a → s.live a = true) →
    ∀ a, (h.foldl (fun s c => (exec s c).1) s).slot = some a → (h.foldl (fun s c => (exec s c).1) s).live a = true := by
  induction h with
  | nil => intro s g; exact g
  | cons c h ih => intro s g; simp only [List.foldl_cons]; exact ih _ (good_exec s c g)

end Default
end Primitiv.Lock
