import PrimitivModel.Model.Spinlock
/-
Inductive invariants of the two spinlock state machines of Model/Spinlock.lean
(core Lean only; used by Props/C19.lean).
-/
namespace Primitiv.Lock

theorem upd_apply {α} (f : Nat → α) (t u : Nat) (v : α) : upd f t v u = if u = t then v else f u := rfl

theorem inc32_of_lt (c : Nat) (h : c + 1 < W) : inc32 c = c + 1 := by simp [inc32, h]
theorem dec32_of_pos (c : Nat) (h : 0 < c) : dec32 c = c - 1 := by
  have : c ≠ 0 := by omega
  simp [dec32, this]
theorem inc32_lt (c : Nat) : inc32 c < W := by
  unfold inc32; split
  · assumption
  · decide
theorem dec32_lt (c : Nat) (h : c < W) : dec32 c < W := by
  unfold dec32; split
  · decide
  · omega

/-! ## Spinlock -/
namespace Spin

theorem fetch_clr (h : Bool) (r : List Op) : (fetch h r).1 = .clr → h = true := by
  induction r with
  | nil => simp [fetch]
  | cons op r ih =>
    cases op <;> simp [fetch]
    split <;> simp_all

@[simp] theorem finish_hold (h : Bool) (r : List Op) : (finish h r).hold = h := by simp [finish]
theorem finish_clr (h : Bool) (r : List Op) : (finish h r).pc = .clr → h = true := by
  simp only [finish]; exact fetch_clr h r
@[simp] theorem start_hold (p : List Op) : (start p).hold = false := by simp [start]
theorem start_clr (p : List Op) : (start p).pc ≠ .clr := by
  simp only [start]; intro h; have := fetch_clr false p h; simp at this

/-- The inductive invariant of the Spinlock system. -/
structure Good (s : Sys) : Prop where
  flag_of_hold : ∀ t, (s.thr t).hold = true → s.flag = true
  uniq : ∀ t u, (s.thr t).hold = true → (s.thr u).hold = true → t = u
  clr_hold : ∀ t, (s.thr t).pc = .clr → (s.thr t).hold = true

theorem good_init (progs : Nat → List Op) : Good (init progs) := by
  constructor <;> intro t <;> simp [init]
  exact start_clr _

theorem good_step (s : Sys) (t : Nat) (g : Good s) : Good (step s t).1 := by
  have hf := g.flag_of_hold; have hu := g.uniq; have hc := g.clr_hold
  have hfin := finish_clr
  have hfh := finish_hold
  cases hpc : (s.thr t).pc with
  | done =>
    simp only [step, trans, hpc]
    constructor <;> simp only [upd_apply] <;> grind
  | tas b =>
    simp only [step, trans, hpc]
    constructor <;> simp only [upd_apply] <;> grind
  | clr =>
    simp only [step, trans, hpc]
    constructor <;> simp only [upd_apply] <;> grind

theorem good_of_reach {progs : Nat → List Op} {s : Sys} (h : Reach progs s) : Good s := by
  induction h with
  | init => exact good_init progs
  | step t _ ih => exact good_step _ t ih

end Spin

/-! ## RecursiveSpinlock -/
namespace RSpin

/-- The thread has won the flag (it is between the successful test_and_set and the clear). -/
def inside (th : Thread) : Prop :=
  0 < th.hold ∨ (match th.pc with | .tWr _ => True | .tInc _ => True | _ => False)

/-- The shared state as seen from a thread that is not in the middle of a
protected piece of code: either it holds the lock `h` times, or not at all. -/
def Idle (sh : Shared) (t : Nat) (h : Nat) : Prop :=
  (0 < h → sh.flag = true ∧ sh.owner = some t ∧ sh.count = h) ∧ (h = 0 → sh.owner ≠ some t)

/-- What the shared state looks like from thread `t`, by program counter. -/
def Ok (sh : Shared) (t : Nat) (th : Thread) : Prop :=
  match th.pc with
  | .tWr _ => th.hold = 0 ∧ sh.flag = true ∧ sh.owner = none ∧ sh.count = 0
  | .tInc _ => sh.flag = true ∧ sh.owner = some t ∧ sh.count = th.hold
  | .uDec => 0 < th.hold ∧ sh.flag = true ∧ sh.owner = some t ∧ sh.count = th.hold
  | .uWr => th.hold = 1 ∧ sh.flag = true ∧ sh.owner = some t ∧ sh.count = 0
  | .uClr => th.hold = 1 ∧ sh.flag = true ∧ sh.owner = none ∧ sh.count = 0
  | _ => Idle sh t th.hold

/-- The lock at rest, and the range of the counter. -/
def Free (sh : Shared) : Prop := (sh.flag = false → sh.owner = none ∧ sh.count = 0) ∧ sh.count < W

theorem fetch_cases (r : List Op) :
    (fetch r).1 = .done ∨ (fetch r).1 = .tTas true ∨ (fetch r).1 = .tTas false ∨ (fetch r).1 = .uRd := by
  cases r with
  | nil => simp [fetch]
  | cons op r => cases op <;> simp [fetch, entry]

theorem ok_finish (sh : Shared) (t h : Nat) (r : List Op) : Ok sh t (finish h r) ↔ Idle sh t h := by
  unfold Ok finish
  rcases fetch_cases r with e | e | e | e <;> simp only [e]

theorem inside_finish (h : Nat) (r : List Op) : inside (finish h r) ↔ 0 < h := by
  unfold inside finish
  rcases fetch_cases r with e | e | e | e <;> simp only [e, or_false]

@[simp] theorem finish_hold (h : Nat) (r : List Op) : (finish h r).hold = h := rfl

theorem ok_start (p : List Op) (t : Nat) : Ok ⟨false, none, 0⟩ t (start p) := by
  have : start p = finish 0 p := rfl
  rw [this, ok_finish]; simp [Idle]

theorem not_inside_start (p : List Op) : ¬ inside (start p) := by
  have : start p = finish 0 p := rfl
  rw [this, inside_finish]; omega

/-- a thread that is inside sees the flag set -/
theorem inside_flag {sh : Shared} {t : Nat} {th : Thread} (hok : Ok sh t th) (hin : inside th) : sh.flag = true := by
  obtain ⟨pc, rest, hold⟩ := th
  cases pc <;> simp_all [Ok, inside, Idle]

/-- the owner field names a thread that is inside -/
theorem owner_inside {sh : Shared} {t : Nat} {th : Thread} (hok : Ok sh t th) (ho : sh.owner = some t) : inside th := by
  obtain ⟨pc, rest, hold⟩ := th
  cases pc <;> simp_all [Ok, inside, Idle] <;> omega

/-- a thread that holds the lock and is not releasing it is the recorded owner -/
theorem hold_owner {sh : Shared} {t : Nat} {th : Thread} (hok : Ok sh t th) (hh : 0 < th.hold) (hpc : th.pc ≠ .uClr) :
    sh.owner = some t ∧ sh.flag = true := by
  obtain ⟨pc, rest, hold⟩ := th
  cases pc <;> simp_all [Ok, Idle] <;> omega

/-- the clause of a thread that is outside depends on the owner field only -/
theorem ok_outside {sh sh' : Shared} {u : Nat} {thu : Thread} (hok : Ok sh u thu) (hout : ¬ inside thu)
    (ho : sh'.owner ≠ some u) : Ok sh' u thu := by
  obtain ⟨pc, rest, hold⟩ := thu
  cases pc <;> simp_all [Ok, inside, Idle] <;> omega

/-- The stepping thread keeps its own clause, and the shared clause. -/
theorem self_ok (t : Nat) (sh : Shared) (th : Thread) (hok : Ok sh t th) (hfree : Free sh)
    (hnw : ∀ b, th.pc = .tInc b → sh.count + 1 < W) :
    Ok (trans t sh th).1 t (trans t sh th).2.1 ∧ Free (trans t sh th).1 := by
  obtain ⟨pc, rest, hold⟩ := th
  obtain ⟨flag, owner, count⟩ := sh
  have hlt : count < W := hfree.2
  cases pc with
  | done => exact ⟨hok, hfree⟩
  | tTas b =>
    simp only [trans]
    split
    · exact ⟨hok, hfree⟩
    · simp_all [Ok, Free, Idle]
  | tRd b =>
    simp only [trans]
    split
    · simp_all [Ok, Free, Idle]; omega
    · split
      · exact ⟨hok, hfree⟩
      · exact ⟨(ok_finish _ _ _ _).2 hok, hfree⟩
  | tWr b => simp_all [trans, Ok, Free]
  | tInc b =>
    have h1 := hnw b rfl
    simp only [trans, ok_finish]
    simp only [] at h1
    rw [inc32_of_lt _ h1]
    simp_all [Ok, Free, Idle]
  | uRd =>
    simp only [trans]
    split
    · simp_all [Ok, Free, Idle]; omega
    · simp only [ok_finish]
      simp_all [Ok, Free, Idle]
  | uDec =>
    have hpos : 0 < count := by simp_all [Ok]
    simp only [trans]
    rw [dec32_of_pos _ hpos]
    split
    · simp_all [Ok, Free]; omega
    · simp only [ok_finish]
      simp_all [Ok, Free, Idle]; omega
  | uWr => simp_all [trans, Ok, Free]
  | uClr =>
    simp only [trans, ok_finish]
    simp_all [Ok, Free, Idle]

/-- Frame: a step either leaves the shared state alone, or is taken by the
thread that is inside (or that wins the free flag), and then the owner field
stays, becomes the stepping thread, or is reset. -/
theorem trans_frame (t : Nat) (sh : Shared) (th : Thread) (hok : Ok sh t th) :
    (trans t sh th).1 = sh ∨
    ((inside th ∨ sh.flag = false) ∧
      ((trans t sh th).1.owner = sh.owner ∨ (trans t sh th).1.owner = some t ∨ (trans t sh th).1.owner = none)) := by
  obtain ⟨pc, rest, hold⟩ := th
  obtain ⟨flag, owner, count⟩ := sh
  cases pc with
  | done => left; rfl
  | tTas b =>
    simp only [trans]
    split
    · left; rfl
    · right; simp_all
  | tRd b =>
    simp only [trans]
    split
    · left; rfl
    · split <;> (left; rfl)
  | tWr b => right; simp [trans, inside]
  | tInc b => right; simp [trans, inside]
  | uRd =>
    simp only [trans]
    split <;> (left; rfl)
  | uDec =>
    right
    have : 0 < hold := hok.1
    simp only [trans]
    split <;> simp [inside, this]
  | uWr =>
    right
    have : hold = 1 := hok.1
    simp [trans, inside, this]
  | uClr =>
    right
    have : hold = 1 := hok.1
    simp [trans, inside, this]

/-- A step makes a thread inside only if it was inside, or the flag was free. -/
theorem inside_step (t : Nat) (sh : Shared) (th : Thread) (hok : Ok sh t th)
    (hin : inside (trans t sh th).2.1) : inside th ∨ sh.flag = false := by
  obtain ⟨pc, rest, hold⟩ := th
  obtain ⟨flag, owner, count⟩ := sh
  cases pc with
  | done => left; exact hin
  | tTas b =>
    simp only [trans] at hin
    split at hin
    · left; simpa [inside] using hin
    · right; simp_all
  | tRd b =>
    simp only [trans] at hin
    split at hin
    · left; exact owner_inside hok (by assumption)
    · split at hin
      · left; simpa [inside] using hin
      · left; rw [inside_finish] at hin; exact Or.inl hin
  | tWr b => left; simp [inside]
  | tInc b => left; simp [inside]
  | uRd =>
    simp only [trans] at hin
    split at hin
    · left; simpa [inside] using hin
    · left; rw [inside_finish] at hin
      have h2 : 0 < hold - 1 := hin
      exact Or.inl (show 0 < hold by omega)
  | uDec =>
    left; exact Or.inl hok.1
  | uWr =>
    left; have : hold = 1 := hok.1
    exact Or.inl (by simp [this])
  | uClr =>
    left; have : hold = 1 := hok.1
    exact Or.inl (by simp [this])

/-- The inductive invariant of the RecursiveSpinlock system. -/
structure Good (s : Sys) : Prop where
  ok : ∀ t, Ok s.sh t (s.thr t)
  free : Free s.sh
  uniq : ∀ t u, inside (s.thr t) → inside (s.thr u) → t = u

theorem good_init (progs : Nat → List Op) : Good (init progs) := by
  refine ⟨fun t => ok_start _ t, ?_, ?_⟩
  · simp [init, Free]
  · intro t u ht; exact absurd ht (not_inside_start _)

theorem good_step (s : Sys) (t : Nat) (g : Good s) (hnw : NoWrap s t) : Good (step s t).1 := by
  have hself := self_ok t s.sh (s.thr t) (g.ok t) g.free hnw
  have hframe := trans_frame t s.sh (s.thr t) (g.ok t)
  have hins := inside_step t s.sh (s.thr t) (g.ok t)
  refine ⟨?_, hself.2, ?_⟩
  · intro u
    simp only [step, upd_apply]
    by_cases hu : u = t
    · subst hu; simpa using hself.1
    · simp only [hu, if_false]
      rcases hframe with he | ⟨hwho, hown⟩
      · rw [he]; exact g.ok u
      · have hout : ¬ inside (s.thr u) := by
          intro hin
          rcases hwho with h | h
          · exact hu (g.uniq u t hin h)
          · have := inside_flag (g.ok u) hin; simp_all
        apply ok_outside (g.ok u) hout
        have hno : s.sh.owner ≠ some u := fun h => hout (owner_inside (g.ok u) h)
        rcases hown with h | h | h
        · rw [h]; exact hno
        · rw [h]; intro e; exact hu (Option.some.inj e).symm
        · rw [h]; simp
  · intro a b ha hb
    simp only [step, upd_apply] at ha hb
    have key : ∀ x, x ≠ t → inside (s.thr x) → inside (trans t s.sh (s.thr t)).2.1 → x = t := by
      intro x hx hinx hint
      rcases hins hint with h | h
      · exact g.uniq x t hinx h
      · have := inside_flag (g.ok x) hinx; simp_all
    by_cases hat : a = t <;> by_cases hbt : b = t
    · rw [hat, hbt]
    · simp only [hat, hbt, if_true, if_false] at ha hb
      exact absurd (key b hbt hb ha) hbt
    · simp only [hat, hbt, if_true, if_false] at ha hb
      exact absurd (key a hat ha hb) hat
    · simp only [hat, hbt, if_false] at ha hb
      exact g.uniq a b ha hb

theorem good_of_reach {progs : Nat → List Op} {s : Sys} (h : Reach progs s) : Good s := by
  induction h with
  | init => exact good_init progs
  | step t _ hnw ih => exact good_step _ t ih hnw


/-! ### Schedules (for concrete instances) -/

def noWrapB (s : Sys) (t : Nat) : Bool :=
  match (s.thr t).pc with
  | .tInc _ => decide (s.sh.count + 1 < W)
  | _ => true

theorem noWrap_of_B {s : Sys} {t : Nat} (h : noWrapB s t = true) : NoWrap s t := by
  intro b hb
  simp only [noWrapB, hb, decide_eq_true_eq] at h
  exact h

/-- run a schedule from `s` -/
def runFrom (s : Sys) : List Nat → Sys
  | [] => s
  | t :: ts => runFrom (step s t).1 ts

/-- no step of the schedule wraps the counter -/
def runOkFrom (s : Sys) : List Nat → Bool
  | [] => true
  | t :: ts => noWrapB s t && runOkFrom (step s t).1 ts

def run (progs : Nat → List Op) (sched : List Nat) : Sys := runFrom (init progs) sched
def runOk (progs : Nat → List Op) (sched : List Nat) : Bool := runOkFrom (init progs) sched

theorem reach_runFrom {progs : Nat → List Op} (sched : List Nat) : ∀ s, Reach progs s → runOkFrom s sched = true →
    Reach progs (runFrom s sched) := by
  induction sched with
  | nil => intro s h _; exact h
  | cons t ts ih =>
    intro s h hok
    simp only [runOkFrom, Bool.and_eq_true] at hok
    exact ih _ (Reach.step t h (noWrap_of_B hok.1)) hok.2

theorem reach_run {progs : Nat → List Op} {sched : List Nat} (h : runOk progs sched = true) :
    Reach progs (run progs sched) := reach_runFrom sched _ Reach.init h

/-! ### The nesting counter does not wrap for programs shorter than 2^32 calls -/

/-- 1 while the thread is inside a call -/
def cur : Pc → Nat
  | .done => 0
  | _ => 1

theorem fetch_len (r : List Op) : cur (fetch r).1 + (fetch r).2.length = r.length := by
  cases r with
  | nil => rfl
  | cons op r => cases op <;> simp [fetch, entry, cur] <;> omega

/-- calls made so far that still count: held acquisitions + the call in progress + the calls to come -/
def budget (th : Thread) : Nat := th.hold + cur th.pc + th.rest.length

theorem budget_finish (h : Nat) (r : List Op) : budget (finish h r) = h + r.length := by
  have := fetch_len r
  simp only [budget, finish]; omega

theorem budget_trans (t : Nat) (sh : Shared) (th : Thread) : budget (trans t sh th).2.1 ≤ budget th := by
  obtain ⟨pc, rest, hold⟩ := th
  cases pc <;> simp only [trans] <;> (try split) <;> (try split) <;>
    (try simp only [budget_finish]) <;> simp only [budget, cur] <;> omega

theorem budget_reach {progs : Nat → List Op} {s : Sys} (h : Reach progs s) (t : Nat) :
    budget (s.thr t) ≤ (progs t).length := by
  induction h with
  | init =>
    have : (init progs).thr t = finish 0 (progs t) := rfl
    rw [this, budget_finish]; omega
  | step u _ _ ih =>
    simp only [step, upd_apply]
    split
    · rename_i e; subst e; exact Nat.le_trans (budget_trans _ _ _) ih
    · exact ih

theorem nowrap_of_short {progs : Nat → List Op} {s : Sys} (h : Reach progs s) (t : Nat)
    (hlen : (progs t).length < W) : NoWrap s t := by
  intro b hpc
  have hb := budget_reach h t
  have hok := (good_of_reach h).ok t
  simp only [Ok, hpc] at hok
  simp only [budget, hpc, cur] at hb
  omega

/-! ### Data races on the lock's own fields -/

/-- In no reachable state are two different threads about to perform
conflicting accesses to a non-atomic field. -/
def DRF (d : Decls) (progs : Nat → List Op) : Prop :=
  ∀ s, Reach progs s → ∀ t u, t ≠ u →
    ¬ Conflict d (nextAccess (s.thr t).pc) (nextAccess (s.thr u).pc)

theorem conflict_count {d : Decls} {a b : Option Access} (hr : d.atomic .ready = true) (ho : d.atomic .owner = true)
    (h : Conflict d a b) : ∃ x y, a = some x ∧ b = some y ∧ x.field = .count ∧ y.field = .count := by
  unfold Conflict at h
  cases a with
  | none => exact h.elim
  | some x =>
    cases b with
    | none => exact h.elim
    | some y =>
      obtain ⟨hf, _, hat⟩ := h
      refine ⟨x, y, rfl, rfl, ?_, ?_⟩
      · cases hx : x.field <;> simp_all
      · rw [← hf]; cases hx : x.field <;> simp_all

theorem inside_of_count {sh : Shared} {t : Nat} {th : Thread} {x : Access} (hok : Ok sh t th)
    (hx : nextAccess th.pc = some x) (hf : x.field = .count) : inside th := by
  obtain ⟨pc, rest, hold⟩ := th
  cases pc <;> simp [nextAccess] at hx <;> subst hx <;> simp at hf
  · exact Or.inr trivial
  · exact Or.inl hok.1

/-- With `ready_` and `locked_thread_id_` atomic, the only plain field is
`lock_count_`, and it is touched only by the thread that is inside. -/
theorem drf_of_atomic (d : Decls) (progs : Nat → List Op) (hr : d.atomic .ready = true)
    (ho : d.atomic .owner = true) : DRF d progs := by
  intro s hreach t u htu hc
  have g := good_of_reach hreach
  obtain ⟨x, y, hx, hy, hfx, hfy⟩ := conflict_count hr ho hc
  exact htu (g.uniq t u (inside_of_count (g.ok t) hx hfx) (inside_of_count (g.ok u) hy hfy))

/-- The interleaving that exhibits the race on a plain owner field: thread 0 has
won the flag and is about to write the owner, thread 1 has lost the
test_and_set and is about to read it. -/
def witnessProgs : Nat → List Op := fun _ => [.lock]
def witness : Sys := run witnessProgs [0, 1]

theorem witness_reach : Reach witnessProgs witness := reach_run (by decide)

theorem witness_pcs : (witness.thr 0).pc = .tWr true ∧ (witness.thr 1).pc = .tRd true := by decide

theorem not_drf_of_plain_owner (d : Decls) (ho : d.atomic .owner = false) : ¬ DRF d witnessProgs := by
  intro h
  apply h witness witness_reach 0 1 (by decide)
  rw [witness_pcs.1, witness_pcs.2]
  simp [Conflict, nextAccess, Access.isWrite, ho]

end RSpin
end Primitiv.Lock
