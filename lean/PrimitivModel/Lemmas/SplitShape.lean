import PrimitivModel.Lemmas.Shape
/-
Helper lemmas for Props/C04/Split.lean (static shape of the composite operators Split / BatchSplit).
-/
namespace Primitiv.ShapeL
open Primitiv

/-- `update_dim(d, 1)` on an axis at or beyond the depth (and below MAX_DEPTH) leaves a canonical shape unchanged -/
theorem updateDim_one_beyond {x : Shape} (hx : x.Canonical) {d : Nat} (hd : x.depth ≤ d) (hd8 : d < 8) :
    x.updateDim d 1 = .ok x := by
  have hg : x.get d = 1 := by unfold Shape.get; exact getD_ge hd
  have hv := hx.vol_lt
  have hb := hx.bound
  have hdep : d ≥ x.depth := hd
  have htrim : trim ((x.dims ++ List.replicate (d + 1 - x.depth) 1).set d 1) = x.dims := by
    have h1 : (x.dims ++ List.replicate (d + 1 - x.depth) 1) = pad x.dims d := by
      unfold pad; rw [if_pos (by simpa [Shape.depth] using hd)]; rfl
    rw [h1]
    conv => rhs; rw [← hx.trimmed]
    rw [trim_eq_iff]
    intro i
    rw [getD_set_one, getD_pad]
    split
    · rename_i h; subst h; exact (getD_ge hd).symm
    · rfl
  unfold Shape.updateDim
  rw [if_neg (by omega), if_neg (by omega)]
  simp only [hg, if_pos hdep, Nat.div_one, Nat.mul_one, htrim]
  rw [if_neg (by omega), if_neg (by womega)]
  cases x; rfl
/-- the 32-bit arithmetic of `i * span`, `(i + 1) * span` in the split loops is exact -/
theorem span_arith {total n i : Nat} (ht : total < W) (hpos : 0 < total) (hm : mul32 (total / n) n = total)
    (hi : i < n) :
    mul32 i (total / n) = i * (total / n) ∧ mul32 (i + 1) (total / n) = i * (total / n) + total / n ∧
    0 < total / n ∧ i * (total / n) + total / n ≤ total ∧ i * (total / n) + total / n < W := by
  have h1 : total / n * n ≤ total := Nat.div_mul_le_self total n
  have h2 : total / n * n = total := by
    unfold mul32 at hm; rw [Nat.mod_eq_of_lt (by omega)] at hm; exact hm
  have hs : 0 < total / n := by
    rcases Nat.eq_zero_or_pos (total / n) with h | h
    · rw [h] at h2; omega
    · exact h
  have h3 : (i + 1) * (total / n) ≤ n * (total / n) := Nat.mul_le_mul_right _ hi
  have h4 : (i + 1) * (total / n) = i * (total / n) + total / n := Nat.succ_mul _ _
  have h5 : n * (total / n) = total := by rw [Nat.mul_comm]; exact h2
  unfold mul32
  rw [h4]
  generalize i * (total / n) = a at *
  exact ⟨Nat.mod_eq_of_lt (by omega), Nat.mod_eq_of_lt (by omega), hs, by omega, by omega⟩

end Primitiv.ShapeL
