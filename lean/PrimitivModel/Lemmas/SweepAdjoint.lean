import Mathlib.Algebra.BigOperators.Group.Finset.Basic
import Mathlib.Algebra.BigOperators.Ring.Finset
import Mathlib.Tactic.Ring
import Mathlib.Tactic.Linarith
import PrimitivModel.Lemmas.GraphSweep
/-!
The reverse sweep of `Model/Graph.lean` is the transpose of forward mode (C01, T1): definitions
(`Vec`, `TVec`, `dot`, `contribSum`, `retSum`, `Phi`, `AdjointHyps`) and the proof
(`adjoint_step` → `adjoint_sweep` → `backward_adjoint_of_hyps`).  Statement with the hypotheses
spelled out: Props/C01/Sweep.lean.
-/

namespace Primitiv.Graph
open Finset

variable {R : Type} [CommRing R]

/-- tensors as sequences of ring elements; only the first `size` entries matter -/
abbrev Vec (R : Type) := Nat → R

/-- the tensor operations that graph.cc uses, pointwise -/
def TVec (R : Type) [CommRing R] : TOps (Vec R) :=
  { zeros := fun _ _ => 0, ones := fun _ _ => 1, add := fun a b i => a i + b i }

def dot (n : Nat) (a b : Vec R) : R := ∑ i ∈ range n, a i * b i

theorem dot_add_left (n : Nat) (a b c : Vec R) : dot n (fun i => a i + b i) c = dot n a c + dot n b c := by
  simp [dot, add_mul, sum_add_distrib]

theorem dot_zero_left (n : Nat) (c : Vec R) : dot n (fun _ => (0 : R)) c = 0 := by simp [dot]

theorem dot_one_left (n : Nat) (c : Vec R) : dot n (fun _ => (1 : R)) c = ∑ i ∈ range n, c i := by simp [dot]

theorem dot_sub_left (n : Nat) (a b c : Vec R) : dot n (fun i => a i - b i) c = dot n a c - dot n b c := by
  simp [dot, sub_mul, sum_sub_distrib]

/-- the value of a gradient accumulator, an invalid one counting as 0 -/
def gval (g : Option (Vec R)) : Vec R := g.getD fun _ => 0

/-- `Σ_{i<k} Σ_{j<W} F ⟨i,j⟩` -/
def cellSum (k W : Nat) (F : Addr → R) : R := ∑ i ∈ range k, ∑ j ∈ range W, F ⟨i, j⟩

theorem cellSum_succ (k W : Nat) (F : Addr → R) :
    cellSum (k + 1) W F = cellSum k W F + ∑ j ∈ range W, F ⟨k, j⟩ := by
  simp [cellSum, sum_range_succ]

theorem cellSum_congr (k W : Nat) (F F' : Addr → R) (h : ∀ b : Addr, b.oid < k → b.vid < W → F b = F' b) :
    cellSum k W F = cellSum k W F' := by
  unfold cellSum
  refine sum_congr rfl fun i hi => sum_congr rfl fun j hj => ?_
  exact h ⟨i, j⟩ (mem_range.mp hi) (mem_range.mp hj)

theorem cellSum_single (k W : Nat) (a : Addr) (h1 : a.oid < k) (h2 : a.vid < W) (d : R) :
    cellSum k W (fun b => if b = a then d else 0) = d := by
  unfold cellSum
  rw [sum_eq_single a.oid]
  · rw [sum_eq_single a.vid]
    · simp
    · intro j _ hj
      have : (⟨a.oid, j⟩ : Addr) ≠ a := fun e => hj (by rw [← e])
      simp [this]
    · intro h; exact absurd (mem_range.mpr h2) h
  · intro i _ hi
    refine sum_eq_zero fun j _ => ?_
    have : (⟨i, j⟩ : Addr) ≠ a := fun e => hi (by rw [← e])
    simp [this]
  · intro h; exact absurd (mem_range.mpr h1) h

theorem cellSum_add (k W : Nat) (F F' : Addr → R) :
    cellSum k W (fun b => F b + F' b) = cellSum k W F + cellSum k W F' := by
  simp [cellSum, sum_add_distrib]

/-- changing `F` at one cell -/
theorem cellSum_update (k W : Nat) (F F' : Addr → R) (a : Addr) (h1 : a.oid < k) (h2 : a.vid < W)
    (h : ∀ b, b ≠ a → F' b = F b) : cellSum k W F' = cellSum k W F + (F' a - F a) := by
  have : cellSum k W F' = cellSum k W (fun b => F b + if b = a then F' a - F a else 0) := by
    refine cellSum_congr k W _ _ fun b _ _ => ?_
    by_cases hb : b = a
    · subst hb; simp
    · simp [hb, h b hb]
  rw [this, cellSum_add, cellSum_single k W a h1 h2]

/-- `Σ ⟪contribution, tangent of the argument⟫`, a `none` contribution counting as 0 -/
def contribSum (size : Addr → Nat) (t : Addr → Vec R) : List (Addr × Option (Vec R)) → R
  | [] => 0
  | (_, none) :: rest => contribSum size t rest
  | (a, some c) :: rest => dot (size a) c (t a) + contribSum size t rest

/-- the potential of the node gradients of operators `< k` -/
def nodePot (size : Addr → Nat) (t : Addr → Vec R) (k W : Nat) (G : Addr → Option (Vec R)) : R :=
  cellSum k W fun b => dot (size b) (gval (G b)) (t b)

theorem nodePot_accGrads (size : Addr → Nat) (t : Addr → Vec R) (k W : Nat) :
    ∀ (l : List (Addr × Option (Vec R))) (G : Addr → Option (Vec R)),
      (∀ a c, (a, some c) ∈ l → a.oid < k ∧ a.vid < W ∧ (G a).isSome = true) →
      nodePot size t k W (accGrads (TVec R) G l) = nodePot size t k W G + contribSum size t l := by
  intro l
  induction l with
  | nil => intro G _; simp [accGrads, contribSum]
  | cons x rest ih =>
    intro G h
    obtain ⟨a, c⟩ := x
    cases c with
    | none =>
      simp only [accGrads, contribSum]
      exact ih G fun a' c' hm => h a' c' (List.mem_cons_of_mem _ hm)
    | some c =>
      simp only [accGrads, contribSum]
      obtain ⟨h1, h2, h3⟩ := h a c (by simp)
      rw [ih]
      · unfold nodePot
        rw [cellSum_update k W (fun b => dot (size b) (gval (G b)) (t b)) _ a h1 h2
          (fun b hb => by simp [hb])]
        simp only [if_true]
        cases hG : G a with
        | none => rw [hG] at h3; cases h3
        | some g =>
          simp only [Option.map_some, gval, Option.getD_some, TVec]
          rw [dot_add_left]
          ring
      · intro a' c' hm
        obtain ⟨h1', h2', h3'⟩ := h a' c' (List.mem_cons_of_mem _ hm)
        refine ⟨h1', h2', ?_⟩
        by_cases he : a' = a
        · subst he; simp [h3]
        · simp [he, h3']


/-- size of the node at `b` (0 if there is no such node) -/
def State.sizeAt {τ : Type} (s : State τ) (b : Addr) : Nat := shapeSize s.shape b

theorem sizeAt_node {τ : Type} {s : State τ} {b : Addr} {n : NodeInfo τ} (h : s.node? b = some n) :
    s.sizeAt b = n.size := shapeSize_node h

theorem sizeAt_of_skel {τ : Type} {s s' : State τ} (h : s'.skel = s.skel) : s'.sizeAt = s.sizeAt := by
  funext b; unfold State.sizeAt; rw [shape_of_skel h]

/-- what the backward rule of a non-Parameter operator adds to its arguments -/
def kindContribs (kind : Kind (Vec R)) (xs ys gys : List (Vec R)) : List (Option (Vec R)) :=
  match kind with
  | .op sem => sem.bwd xs ys gys
  | _ => []

/-- `Σ_k ⟪gys_k, tangent of return value k⟫` of operator `i` whose return values have the given sizes -/
def retSum (t : Addr → Vec R) (i : Nat) (sizes : List Nat) (gys : List (Vec R)) : R :=
  ∑ j ∈ range sizes.length, dot (sizes.getD j 0) (gys.getD j fun _ => 0) (t ⟨i, j⟩)

/-- the potential function of the sweep -/
def Phi (size : Addr → Nat) (t : Addr → Vec R) (P : Nat) (psize : Nat → Nat) (δ : Nat → Vec R)
    (k W : Nat) (s : State (Vec R)) : R :=
  nodePot size t k W s.gradAt + ∑ p ∈ range P, dot (psize p) (s.params.grad p) (δ p)

theorem gval_zeroFill (s : State (Vec R)) (l : List Addr) (b : Addr) :
    gval ((zeroFill (TVec R) s l).gradAt b) = gval (s.gradAt b) := by
  rw [gradAt_zeroFill]
  by_cases hm : b ∈ l
  · simp only [hm, if_true, State.gradAt]
    cases s.node? b with
    | none => rfl
    | some n =>
      simp only [Option.map_some, Option.bind_some, gval, Option.getD_some]
      cases n.grad <;> rfl
  · simp [hm]

theorem nodePot_zeroFill (size : Addr → Nat) (t : Addr → Vec R) (k W : Nat) (s : State (Vec R)) (l : List Addr) :
    nodePot size t k W (zeroFill (TVec R) s l).gradAt = nodePot size t k W s.gradAt := by
  unfold nodePot
  exact cellSum_congr k W _ _ fun b _ _ => by rw [gval_zeroFill]

theorem nodePot_invalidateGrads (size : Addr → Nat) (t : Addr → Vec R) (k W : Nat) (s : State (Vec R)) :
    nodePot size t k W (invalidateGrads s k).gradAt = nodePot size t k W s.gradAt := by
  unfold nodePot
  refine cellSum_congr k W _ _ fun b hb _ => ?_
  rw [gradAt_invalidateGrads]
  have : b.oid ≠ k := Nat.ne_of_lt hb
  simp [this]

/-- the row of operator `k` in the potential is `Σ_j ⟪gys_j, t ⟨k,j⟩⟫` -/
theorem row_eq_retSum (t : Addr → Vec R) (W k : Nat) (s : State (Vec R)) (o : OpInfo (Vec R))
    (ho : s.ops[k]? = some o) (hW : o.rets.length ≤ W) :
    ∑ j ∈ range W, dot (s.sizeAt ⟨k, j⟩) (gval (s.gradAt ⟨k, j⟩)) (t ⟨k, j⟩)
      = retSum t k (o.rets.map (·.size)) (o.gys (TVec R)) := by
  unfold retSum
  rw [List.length_map]
  rw [← sum_subset (range_subset_range.mpr hW)]
  · refine sum_congr rfl fun j hj => ?_
    have hj' : j < o.rets.length := mem_range.mp hj
    have hn : s.node? ⟨k, j⟩ = some o.rets[j] := by
      rw [ops_getElem?_node? ho]; exact List.getElem?_eq_getElem hj'
    rw [sizeAt_node hn]
    simp only [State.gradAt, hn, Option.bind_some, OpInfo.gys]
    have h1 : (o.rets.map (·.size)).getD j 0 = o.rets[j].size := by
      simp [List.getD, hj']
    have h2 : (o.rets.map fun n => n.grad.getD ((TVec R).zeros n.size)).getD j (fun _ => 0)
        = gval o.rets[j].grad := by
      simp only [List.getD, List.getElem?_map, List.getElem?_eq_getElem hj', Option.map_some, Option.getD_some]
      rfl
    rw [h1, h2]
  · intro j _ hj
    have hj' : ¬ j < o.rets.length := fun h => hj (mem_range.mpr h)
    have hn : s.node? ⟨k, j⟩ = none := by
      rw [ops_getElem?_node? ho]; simp; omega
    simp [State.gradAt, hn, gval, dot]

theorem mapM_option_isSome {α β} (f : α → Option β) (l : List α) (h : ∀ a ∈ l, (f a).isSome = true) :
    ∃ xs, l.mapM f = some xs := by
  induction l with
  | nil => exact ⟨[], rfl⟩
  | cons a rest ih =>
    obtain ⟨xs, hxs⟩ := ih fun b hb => h b (by simp [hb])
    cases ha : f a with
    | none => have := h a (by simp); rw [ha] at this; cases this
    | some v => exact ⟨v :: xs, by simp [List.mapM_cons, ha, hxs]⟩

theorem ys_of_skel {τ : Type} {o o' : OpInfo τ} (h : o'.rets.map NodeInfo.skel = o.rets.map NodeInfo.skel) :
    o'.ys = o.ys := by
  have h1 : ∀ l : List (NodeInfo τ), l.filterMap (·.value) = (l.map NodeInfo.skel).filterMap Prod.snd := by
    intro l; rw [List.filterMap_map]; rfl
  unfold OpInfo.ys
  rw [h1, h1, h]

theorem sizes_of_skel {τ : Type} {o o' : OpInfo τ} (h : o'.rets.map NodeInfo.skel = o.rets.map NodeInfo.skel) :
    o'.rets.map (·.size) = o.rets.map (·.size) := by
  have h1 : ∀ l : List (NodeInfo τ), l.map (·.size) = (l.map NodeInfo.skel).map Prod.fst := by
    intro l; rw [List.map_map]; rfl
  rw [h1, h1, h]


/-- The hypotheses of `backward_adjoint` on the state before `backward`, the target `a`, the parameter
directions `δ` and the tangents `t` (`P` bounds the parameter ids, `psize` are the parameter sizes). -/
structure AdjointHyps (s : State (Vec R)) (a : Addr) (P : Nat) (psize : Nat → Nat)
    (δ : Nat → Vec R) (t : Addr → Vec R) : Prop where
  /-- arguments refer to smaller operator ids … -/
  argsBelow : ArgsBelow s
  /-- … and to existing nodes -/
  argsValid : ∀ (i : Nat) (o : OpInfo (Vec R)), s.ops[i]? = some o → ∀ b ∈ o.args, s.validAddr b = true
  /-- all node gradients are invalid -/
  gradsInvalid : AllGradsInvalid s
  /-- the target is a node of the graph -/
  target : s.validAddr a = true
  /-- every ancestor of the target is evaluated: its arguments have values, and (unless it is a
  Parameter operator, whose value is the live parameter) its return values are memoised -/
  evaluated : ∀ (i : Nat) (o : OpInfo (Vec R)), Anc s.argsOf i a.oid → s.ops[i]? = some o →
    (∀ b ∈ o.args, (s.valueOf? b).isSome = true) ∧
    ((∀ p, o.kind ≠ .param p) → ∀ n ∈ o.rets, n.value.isSome = true)
  /-- (i) a Parameter operator of `p` has one return value, of the size of `p`, with tangent `δ p` -/
  param : ∀ (i : Nat) (o : OpInfo (Vec R)) (p : Nat), Anc s.argsOf i a.oid → s.ops[i]? = some o →
    o.kind = .param p → p < P ∧ o.rets.map (·.size) = [psize p] ∧ t ⟨i, 0⟩ = δ p
  /-- (ii) the local adjoint law of every evaluated non-Parameter ancestor, at its stored values -/
  law : ∀ (i : Nat) (o : OpInfo (Vec R)), Anc s.argsOf i a.oid → s.ops[i]? = some o →
    (∀ p, o.kind ≠ .param p) → (∀ n ∈ o.rets, n.value.isSome = true) →
    ∀ xs, o.args.mapM s.valueOf? = some xs → ∀ gys : List (Vec R), gys.length = o.rets.length →
      contribSum s.sizeAt t (o.args.zip (kindContribs o.kind xs o.ys gys))
        = retSum t i (o.rets.map (·.size)) gys

theorem node_isSome_of_validAddr {τ : Type} {s : State τ} {b : Addr} (h : s.validAddr b = true) :
    ∃ n, s.node? b = some n := by
  unfold State.validAddr at h
  unfold State.node?
  cases ho : s.ops[b.oid]? with
  | none => rw [ho] at h; cases h
  | some o =>
    rw [ho] at h
    simp only [decide_eq_true_eq] at h
    exact ⟨o.rets[b.vid], List.getElem?_eq_getElem h⟩

theorem vid_lt_of_node {τ : Type} {s : State τ} {b : Addr} {n : NodeInfo τ} {o : OpInfo τ}
    (ho : s.ops[b.oid]? = some o) (h : s.node? b = some n) : b.vid < o.rets.length := by
  unfold State.node? at h
  rw [ho] at h
  exact (List.getElem?_eq_some_iff.mp h).1

theorem node_isSome_of_skel {τ : Type} {s s' : State τ} (h : s'.skel = s.skel) (b : Addr) :
    (s'.node? b).isSome = (s.node? b).isSome := by
  have := congrArg Option.isSome (skel_node h b)
  simpa using this

theorem zeroFill_gradAt_isSome_of_mem {τ : Type} (T : TOps τ) (s : State τ) (l : List Addr) (b : Addr)
    (hm : b ∈ l) (hn : (s.node? b).isSome = true) : ((zeroFill T s l).gradAt b).isSome = true := by
  rw [gradAt_zeroFill]
  simp only [hm, if_true]
  cases h : s.node? b with
  | none => rw [h] at hn; cases hn
  | some n => rfl

theorem pgrad_sum_update (P p : Nat) (hp : p < P) (psize : Nat → Nat) (δ : Nat → Vec R) (G : Nat → Vec R)
    (g : Vec R) :
    ∑ q ∈ range P, dot (psize q) (if q = p then (TVec R).add (G p) g else G q) (δ q)
      = ∑ q ∈ range P, dot (psize q) (G q) (δ q) + dot (psize p) g (δ p) := by
  have : ∀ q ∈ range P, dot (psize q) (if q = p then (TVec R).add (G p) g else G q) (δ q)
      = dot (psize q) (G q) (δ q) + if q = p then dot (psize p) g (δ p) else 0 := by
    intro q _
    by_cases hq : q = p
    · subst hq
      simp only [if_true, TVec]
      rw [dot_add_left]
    · simp [hq]
  rw [sum_congr rfl this, sum_add_distrib, sum_ite_eq' (range P) p]
  simp [mem_range.mpr hp]

theorem retSum_single (t : Addr → Vec R) (k n : Nat) (g : Vec R) :
    retSum t k [n] [g] = dot n g (t ⟨k, 0⟩) := by
  simp [retSum]

/-- one enabled or skipped iteration preserves the potential, and does not fail -/
theorem adjoint_step (s : State (Vec R)) (a : Addr) (P : Nat) (psize : Nat → Nat)
    (δ : Nat → Vec R) (t : Addr → Vec R) (H : AdjointHyps s a P psize δ t) (W : Nat)
    (hW : ∀ (i : Nat) (o : OpInfo (Vec R)), s.ops[i]? = some o → o.rets.length ≤ W)
    (s' : State (Vec R)) (hf : SameFrame s s') (k : Nat) (hk : k < s'.ops.length)
    (hanc : OnlyAnc s.argsOf a.oid s') :
    ∃ s1, backwardStep (TVec R) s' k = (s1, .ok ()) ∧
      Phi s.sizeAt t P psize δ k W s1 = Phi s.sizeAt t P psize δ (k + 1) W s' := by
  obtain ⟨o', ho'⟩ : ∃ o', s'.ops[k]? = some o' := ⟨_, List.getElem?_eq_getElem hk⟩
  obtain ⟨o, ho, hkind, hargs, hrets⟩ := skel_op_some hf.skel.symm ho'
  -- `o` is the record in `s`, `o'` the one in `s'`
  have hsize' : s'.sizeAt = s.sizeAt := sizeAt_of_skel hf.skel
  have hlen : o'.rets.length = o.rets.length := by
    have := congrArg List.length hrets; simpa using this.symm
  have hrow := row_eq_retSum t W k s' o' ho' (by rw [hlen]; exact hW k o ho)
  rw [hsize'] at hrow
  have hPhi : Phi s.sizeAt t P psize δ (k + 1) W s'
      = nodePot s.sizeAt t k W s'.gradAt + retSum t k (o'.rets.map (·.size)) (o'.gys (TVec R))
        + ∑ p ∈ range P, dot (psize p) (s'.params.grad p) (δ p) := by
    unfold Phi nodePot
    rw [cellSum_succ, hrow]
  rw [backwardStep_eq, ho']
  simp only
  by_cases he : (!o'.enabled) = true
  · -- skipped: the row of `k` is zero
    rw [if_pos he]
    refine ⟨s', rfl, ?_⟩
    rw [hPhi]
    have hz : retSum t k (o'.rets.map (·.size)) (o'.gys (TVec R)) = 0 := by
      rw [← hrow]
      refine sum_eq_zero fun j _ => ?_
      have hne : ¬ ∃ j, (s'.gradAt ⟨k, j⟩).isSome = true := by
        rw [← enabled_iff ho']; simpa using he
      have : s'.gradAt ⟨k, j⟩ = none := by
        cases hg : s'.gradAt ⟨k, j⟩ with
        | none => rfl
        | some g => exact absurd ⟨j, by rw [hg]; rfl⟩ hne
      simp [this, gval, dot]
    rw [hz]; unfold Phi; ring
  · rw [if_neg he]
    have hargsOf : s'.argsOf = s.argsOf := argsOf_of_skel hf.skel
    have hkanc : Anc s.argsOf k a.oid := by
      have := enabled_anc ho' he (hargsOf ▸ hanc)
      rw [hargsOf] at this; exact this
    obtain ⟨hev1, hev2⟩ := H.evaluated k o hkanc ho
    have hval : s'.valueOf? = s.valueOf? := funext (skel_valueOf hf.skel hf.pvalue)
    obtain ⟨xs, hxs⟩ := mapM_option_isSome s.valueOf? o.args hev1
    rw [hval, ← hargs, hxs]
    simp only
    refine ⟨_, rfl, ?_⟩
    rw [hPhi]
    unfold Phi
    rw [nodePot_invalidateGrads]
    simp only [invalidateGrads_params]
    -- the state after both zero-fills
    generalize hs2 : zeroFill (TVec R) (zeroFill (TVec R) s' (retAddrs k o')) o.args = s2
    have hpot2 : nodePot s.sizeAt t k W s2.gradAt = nodePot s.sizeAt t k W s'.gradAt := by
      rw [← hs2, nodePot_zeroFill, nodePot_zeroFill]
    have hpar2 : s2.params = s'.params := by rw [← hs2]; simp
    unfold stepCore
    cases hko : o'.kind with
    | param p =>
      simp only
      obtain ⟨hpP, hps, htp⟩ := H.param k o p hkanc ho (by rw [hkind]; exact hko)
      have hsz' : o'.rets.map (·.size) = [psize p] := by rw [← hps]; exact (sizes_of_skel hrets).symm
      -- exactly one return value
      have hl1 : o'.rets.length = 1 := by
        have := congrArg List.length hsz'; simpa using this
      obtain ⟨n', hn'⟩ : ∃ n', o'.rets = [n'] := by
        cases hr : o'.rets with
        | nil => rw [hr] at hl1; cases hl1
        | cons n' rest =>
          cases rest with
          | nil => exact ⟨n', rfl⟩
          | cons _ _ => rw [hr] at hl1; simp at hl1
      have hgys : o'.gys (TVec R) = [n'.grad.getD ((TVec R).zeros n'.size)] := by
        simp [OpInfo.gys, hn']
      rw [hgys, hsz', retSum_single, htp]
      have hg : ∀ pp : Params (Vec R), ({ s2 with params := pp } : State (Vec R)).gradAt = s2.gradAt :=
        fun _ => rfl
      simp only [hg]
      rw [hpot2, pgrad_sum_update P p hpP, hpar2]
      ring
    | rnd =>
      simp only
      have hnp : ∀ p, o.kind ≠ .param p := fun p hp => by rw [hkind, hko] at hp; cases hp
      have hl := H.law k o hkanc ho hnp (hev2 hnp) xs hxs (o'.gys (TVec R)) (by simp [OpInfo.gys, hlen])
      rw [hkind, hko, sizes_of_skel hrets] at hl
      simp only [kindContribs, List.zip_nil_right, contribSum] at hl
      rw [← hl, hpot2, hpar2]
      ring
    | op sem =>
      simp only
      have hnp : ∀ p, o.kind ≠ .param p := fun p hp => by rw [hkind, hko] at hp; cases hp
      have hl := H.law k o hkanc ho hnp (hev2 hnp) xs hxs (o'.gys (TVec R)) (by simp [OpInfo.gys, hlen])
      rw [hkind, hko, sizes_of_skel hrets, hargs, ys_of_skel hrets] at hl
      simp only [kindContribs] at hl
      rw [gradAt_addContribs, nodePot_accGrads, hpot2, hl]
      · simp only [addContribs_params, hpar2]
      · intro b c hm
        have hb : b ∈ o.args := by rw [hargs]; exact (List.of_mem_zip hm).1
        obtain ⟨nb, hnb⟩ := node_isSome_of_validAddr (H.argsValid k o ho b hb)
        refine ⟨H.argsBelow k o ho b hb, ?_, ?_⟩
        · cases hob : s.ops[b.oid]? with
          | none => simp [State.node?, hob] at hnb
          | some ob => exact Nat.lt_of_lt_of_le (vid_lt_of_node hob hnb) (hW _ ob hob)
        · rw [← hs2]
          apply zeroFill_gradAt_isSome_of_mem _ _ _ _ hb
          rw [node_isSome_of_skel (zeroFill_sameFrame _ _ _).skel, node_isSome_of_skel hf.skel, hnb]
          rfl


theorem exists_ret_bound {τ : Type} (s : State τ) :
    ∃ W, ∀ (i : Nat) (o : OpInfo τ), s.ops[i]? = some o → o.rets.length ≤ W := by
  have : ∀ l : List (OpInfo τ), ∃ W, ∀ o ∈ l, o.rets.length ≤ W := by
    intro l
    induction l with
    | nil => exact ⟨0, fun _ h => by cases h⟩
    | cons x rest ih =>
      obtain ⟨W, hW⟩ := ih
      refine ⟨max W x.rets.length, fun o ho => ?_⟩
      rcases List.mem_cons.mp ho with rfl | h
      · exact Nat.le_max_right _ _
      · exact Nat.le_trans (hW o h) (Nat.le_max_left _ _)
  obtain ⟨W, hW⟩ := this s.ops
  exact ⟨W, fun i o ho => hW o (List.mem_iff_getElem?.mpr ⟨i, ho⟩)⟩

/-- the whole loop preserves the potential and does not fail -/
theorem adjoint_sweep (s : State (Vec R)) (a : Addr) (P : Nat) (psize : Nat → Nat)
    (δ : Nat → Vec R) (t : Addr → Vec R) (H : AdjointHyps s a P psize δ t) (W : Nat)
    (hW : ∀ (i : Nat) (o : OpInfo (Vec R)), s.ops[i]? = some o → o.rets.length ≤ W)
    (k : Nat) (s' : State (Vec R)) (hf : SameFrame s s') (hk : k ≤ s'.ops.length)
    (hgb : GradsBelow k s') (hanc : OnlyAnc s.argsOf a.oid s') :
    ∃ s'', sweep (TVec R) k s' = (s'', .ok ()) ∧ SameFrame s s'' ∧ AllGradsInvalid s'' ∧
      Phi s.sizeAt t P psize δ 0 W s'' = Phi s.sizeAt t P psize δ k W s' := by
  have := sweep_inv_total (TVec R)
    (fun k' s1 => SameFrame s s1 ∧ k' ≤ s1.ops.length ∧ GradsBelow k' s1 ∧ OnlyAnc s.argsOf a.oid s1 ∧
      Phi s.sizeAt t P psize δ k' W s1 = Phi s.sizeAt t P psize δ k W s')
    (fun k' s1 ⟨hf1, hk1, hgb1, hanc1, hphi1⟩ => by
      obtain ⟨s2, hb, hphi⟩ := adjoint_step s a P psize δ t H W hW s1 hf1 k' (by omega) hanc1
      have hfs := backwardStep_sameFrame (TVec R) s1 k'
      rw [hb] at hfs
      refine ⟨s2, hb, hf1.trans hfs, ?_, ?_, ?_, ?_⟩
      · rw [skel_length hfs.skel]; omega
      · exact backwardStep_gradsBelow (TVec R) k' s1 s2 hgb1 (argsBelow_of_skel hf1.skel H.argsBelow) hb
      · have hargs : s1.argsOf = s.argsOf := argsOf_of_skel hf1.skel
        have := backwardStep_onlyAnc (TVec R) a.oid k' s1 (hargs ▸ hanc1)
        rw [hb, hargs] at this
        exact this
      · rw [hphi, hphi1])
    k s' ⟨hf, hk, hgb, hanc, rfl⟩
  obtain ⟨s'', hs, hf'', _, hgb'', _, hphi''⟩ := this
  exact ⟨s'', hs, hf'', fun b => hgb'' b (Nat.zero_le _), hphi''⟩

/-- the forward phase of `backward` is a no-op when the target is evaluated -/
theorem fwdPhase_of_hyps (s : State (Vec R)) (a : Addr) (P : Nat) (psize : Nat → Nat)
    (δ : Nat → Vec R) (t : Addr → Vec R) (H : AdjointHyps s a P psize δ t) :
    fwdPhase (TVec R) s a = (s, .ok ()) := by
  obtain ⟨n, hn⟩ := node_isSome_of_validAddr H.target
  obtain ⟨o, ho⟩ : ∃ o, s.ops[a.oid]? = some o := by
    cases ho : s.ops[a.oid]? with
    | none => simp [State.node?, ho] at hn
    | some o => exact ⟨o, rfl⟩
  have hvid := vid_lt_of_node ho hn
  have hmem : n ∈ o.rets := by
    unfold State.node? at hn; rw [ho] at hn
    exact List.mem_iff_getElem?.mpr ⟨_, hn⟩
  unfold fwdPhase
  rw [hn]
  simp only
  by_cases hv : n.value.isSome = true
  · rw [if_pos hv]
  · rw [if_neg hv]
    -- then the operator must be a Parameter
    have hpar : ∃ p, o.kind = .param p := by
      apply Classical.byContradiction
      intro hno
      have hnp : ∀ p, o.kind ≠ .param p := fun p hp => hno ⟨p, hp⟩
      exact hv ((H.evaluated a.oid o (Anc.refl _) ho).2 hnp n hmem)
    obtain ⟨p, hp⟩ := hpar
    obtain ⟨_, hsz, _⟩ := H.param a.oid o p (Anc.refl _) ho hp
    have hl1 : o.rets.length = 1 := by
      have := congrArg List.length hsz; simpa using this
    have hv0 : a.vid = 0 := by omega
    have : forward (TVec R) s a = (s, .ok (s.params.value p)) := by
      unfold forward
      rw [if_pos H.target, forwardRec_succ, ho]
      simp only [hp, hv0, if_true]
    rw [this]


/-- reverse sweep = transpose of forward mode, for the model of `Graph::backward` -/
theorem backward_adjoint_of_hyps (s : State (Vec R)) (a : Addr) (P : Nat) (psize : Nat → Nat)
    (δ : Nat → Vec R) (t : Addr → Vec R) (H : AdjointHyps s a P psize δ t) :
    ∃ s', backward (TVec R) s a = (s', .ok ()) ∧ SameFrame s s' ∧ AllGradsInvalid s' ∧
      ∑ p ∈ range P, dot (psize p) (fun i => s'.params.grad p i - s.params.grad p i) (δ p)
        = ∑ i ∈ range (s.sizeAt a), t a i := by
  obtain ⟨W, hW⟩ := exists_ret_bound s
  obtain ⟨n, hn⟩ := node_isSome_of_validAddr H.target
  have hsz : s.sizeAt a = n.size := sizeAt_node hn
  have hs0 := seed_sameFrame (TVec R) s a
  have hlt : a.oid < s.ops.length := validAddr_lt H.target
  have hvidW : a.vid < W := by
    cases ho : s.ops[a.oid]? with
    | none => simp [State.node?, ho] at hn
    | some o => exact Nat.lt_of_lt_of_le (vid_lt_of_node ho hn) (hW _ o ho)
  obtain ⟨s', hsw, hf', hg', hphi⟩ := adjoint_sweep s a P psize δ t H W hW (a.oid + 1) (seed (TVec R) s a) hs0
    (by rw [skel_length hs0.skel]; omega) (gradsBelow_seed (TVec R) s a H.gradsInvalid)
    (by have := onlyAnc_seed (TVec R) s a H.gradsInvalid
        rw [argsOf_of_skel hs0.skel] at this; exact this)
  refine ⟨s', ?_, hf', hg', ?_⟩
  · rw [backward_eq]
    have hv : (!s.validAddr a) = false := by rw [H.target]; rfl
    rw [hv]
    simp only [Bool.false_eq_true, if_false]
    rw [fwdPhase_of_hyps s a P psize δ t H]
    exact hsw
  · -- evaluate the potential at both ends
    have hstart : Phi s.sizeAt t P psize δ (a.oid + 1) W (seed (TVec R) s a)
        = (∑ i ∈ range (s.sizeAt a), t a i) + ∑ p ∈ range P, dot (psize p) (s.params.grad p) (δ p) := by
      unfold Phi nodePot
      rw [seed_params]
      congr 1
      have : cellSum (a.oid + 1) W (fun b => dot (s.sizeAt b) (gval ((seed (TVec R) s a).gradAt b)) (t b))
          = cellSum (a.oid + 1) W (fun b => if b = a then ∑ i ∈ range (s.sizeAt a), t a i else 0) := by
        refine cellSum_congr _ _ _ _ fun b _ _ => ?_
        rw [gradAt_seed]
        by_cases hb : b = a
        · subst hb
          simp only [if_true, hn, Option.map_some, gval, Option.getD_some, TVec]
          rw [dot_one_left]
        · simp only [hb, if_false, H.gradsInvalid b, gval, Option.getD_none]
          exact dot_zero_left _ _
      rw [this, cellSum_single _ _ a (Nat.lt_succ_self _) hvidW]
    have hend : Phi s.sizeAt t P psize δ 0 W s' = ∑ p ∈ range P, dot (psize p) (s'.params.grad p) (δ p) := by
      simp [Phi, nodePot, cellSum]
    rw [hstart, hend] at hphi
    have : ∑ p ∈ range P, dot (psize p) (fun i => s'.params.grad p i - s.params.grad p i) (δ p)
        = ∑ p ∈ range P, dot (psize p) (s'.params.grad p) (δ p)
          - ∑ p ∈ range P, dot (psize p) (s.params.grad p) (δ p) := by
      rw [← sum_sub_distrib]
      exact sum_congr rfl fun p _ => dot_sub_left _ _ _ _
    rw [this, hphi]
    ring

end Primitiv.Graph
