import PrimitivModel.Model.KernelsMove
import Mathlib.Tactic.Ring
import Mathlib.Tactic.Linarith
/-
The three-way view of a column-major buffer from an axis `d`:
every flat index is uniquely `a + lo * (k + n * c)` with `a < lo` (position below
the axis, `lo = lower_volume d`), `k < n` (position on the axis) and `c`
(position above the axis, the minibatch being its outermost part), and the
offsets the kernels compute, `i % skip1 + (i / skip1) * skip2 + j * skip1` with
`skip2 = skip1 * n`, are exactly `comp3`.  Plus the arithmetic of the nested
sequential loops (`t = (b * rep + i) * base + j`).  (`ring`/`linarith` from Mathlib for the
non-linear normalisations; the statements are about core `Nat`.)
-/
namespace Primitiv.View3

def comp3 (lo n a k c : Nat) : Nat := a + lo * (k + n * c)

/-- the position below / on / above the axis of a flat index -/
def below (lo : Nat) (i : Nat) : Nat := i % lo
def onAxis (lo n : Nat) (i : Nat) : Nat := i / lo % n
def above (lo n : Nat) (i : Nat) : Nat := i / (lo * n)

theorem lt_mul_of_lt {a lo m M : Nat} (h1 : a < lo) (h2 : m < M) : a + lo * m < lo * M := by
  have : lo * (m + 1) ≤ lo * M := Nat.mul_le_mul_left lo h2
  rw [Nat.mul_add] at this; omega

theorem comp3_lt {lo n hi a k c : Nat} (ha : a < lo) (hk : k < n) (hc : c < hi) :
    comp3 lo n a k c < lo * n * hi := by
  unfold comp3
  have h1 : k + n * c < n * hi := lt_mul_of_lt hk hc
  have := lt_mul_of_lt ha h1
  rwa [← Nat.mul_assoc] at this

/-- decomposition is a left inverse of composition … -/
theorem below_comp3 {lo n a k c : Nat} (ha : a < lo) : below lo (comp3 lo n a k c) = a := by
  unfold below comp3
  rw [Nat.add_mul_mod_self_left, Nat.mod_eq_of_lt ha]

theorem div_lo_comp3 {lo n a k c : Nat} (ha : a < lo) : comp3 lo n a k c / lo = k + n * c := by
  unfold comp3
  have hlo : 0 < lo := by omega
  rw [Nat.add_mul_div_left _ _ hlo, Nat.div_eq_of_lt ha]; omega

theorem onAxis_comp3 {lo n a k c : Nat} (ha : a < lo) (hk : k < n) : onAxis lo n (comp3 lo n a k c) = k := by
  unfold onAxis
  rw [div_lo_comp3 ha, Nat.add_mul_mod_self_left, Nat.mod_eq_of_lt hk]

theorem above_comp3 {lo n a k c : Nat} (ha : a < lo) (hk : k < n) : above lo n (comp3 lo n a k c) = c := by
  unfold above
  rw [← Nat.div_div_eq_div_mul, div_lo_comp3 ha]
  have hn : 0 < n := by omega
  rw [Nat.add_mul_div_left _ _ hn, Nat.div_eq_of_lt hk]; omega

/-- … and a right inverse: every flat index is the composition of its parts. -/
theorem comp3_decomp (lo n i : Nat) : comp3 lo n (below lo i) (onAxis lo n i) (above lo n i) = i := by
  unfold comp3 below onAxis above
  rw [← Nat.div_div_eq_div_mul]
  have h1 := Nat.div_add_mod (i / lo) n
  have h2 := Nat.div_add_mod i lo
  rw [Nat.add_comm (i / lo % n), h1]; omega

theorem below_lt {lo i : Nat} (h : 0 < lo) : below lo i < lo := Nat.mod_lt _ h
theorem onAxis_lt {lo n i : Nat} (h : 0 < n) : onAxis lo n i < n := Nat.mod_lt _ h
theorem above_lt {lo n hi i : Nat} (h : i < lo * n * hi) : above lo n i < hi := by
  unfold above
  exact Nat.div_lt_of_lt_mul h

/-- uniqueness of the decomposition -/
theorem comp3_inj {lo n a k c a' k' c' : Nat} (ha : a < lo) (hk : k < n) (ha' : a' < lo) (hk' : k' < n)
    (h : comp3 lo n a k c = comp3 lo n a' k' c') : a = a' ∧ k = k' ∧ c = c' := by
  have e1 := below_comp3 (n := n) (k := k) (c := c) ha
  have e2 := onAxis_comp3 (c := c) ha hk
  have e3 := above_comp3 (c := c) ha hk
  rw [h] at e1 e2 e3
  rw [below_comp3 ha'] at e1
  rw [onAxis_comp3 ha' hk'] at e2
  rw [above_comp3 ha' hk'] at e3
  omega

/-- The kernels' offset: for the `i`-th output element (`i = a + lo * c`, the
output having size 1 along the axis) and the `j`-th step along the axis. -/
theorem axisOff_eq_comp3 (lo n i j : Nat) :
    Move.axisOff lo (lo * n) i j = comp3 lo n (i % lo) j (i / lo) := by
  unfold Move.axisOff comp3
  rw [Nat.mul_add, Nat.mul_comm (i / lo), Nat.mul_comm j, Nat.mul_assoc]; omega

theorem axisOff_lt {lo n hi i j : Nat} (hlo : 0 < lo) (hi' : i < lo * hi) (hj : j < n) :
    Move.axisOff lo (lo * n) i j < lo * n * hi := by
  rw [axisOff_eq_comp3]
  exact comp3_lt (Nat.mod_lt _ hlo) hj (Nat.div_lt_of_lt_mul hi')

/-- `comp3` with `n = 1`, `k = 0` is the index of the reduced tensor -/
theorem comp3_one (lo a c : Nat) : comp3 lo 1 a 0 c = a + lo * c := by
  unfold comp3; ring

/-! ### nested sequential loops -/

/-- the counters of `for b < A: for i < B: for j < C` at step `t` -/
theorem seq3_bounds {A B C t : Nat} (h : t < A * B * C) :
    t % C < C ∧ t / C % B < B ∧ t / (C * B) < A := by
  have hC : 0 < C := by
    rcases Nat.eq_zero_or_pos C with h0 | h0
    · subst h0; simp at h
    · exact h0
  have hB : 0 < B := by
    rcases Nat.eq_zero_or_pos B with h0 | h0
    · subst h0; simp at h
    · exact h0
  refine ⟨Nat.mod_lt _ hC, Nat.mod_lt _ hB, ?_⟩
  apply Nat.div_lt_of_lt_mul
  calc t < A * B * C := h
    _ = C * B * A := by ring

theorem seq3_recompose (B C t : Nat) : (t / (C * B) * B + t / C % B) * C + t % C = t := by
  rw [← Nat.div_div_eq_div_mul]
  have h1 := Nat.div_add_mod (t / C) B
  have h2 := Nat.div_add_mod t C
  rw [Nat.mul_comm (t / C / B) B, h1, Nat.mul_comm]; omega

theorem seq2_bounds {A C t : Nat} (h : t < A * C) : t % C < C ∧ t / C < A := by
  have hC : 0 < C := by
    rcases Nat.eq_zero_or_pos C with h0 | h0
    · subst h0; simp at h
    · exact h0
  exact ⟨Nat.mod_lt _ hC, Nat.div_lt_of_lt_mul (by rwa [Nat.mul_comm] at h)⟩

/-- index of step `(b, i, j)` -/
theorem seq3_index {B C b i j : Nat} (hi : i < B) (hj : j < C) :
    ((b * B + i) * C + j) % C = j ∧ ((b * B + i) * C + j) / C % B = i ∧ ((b * B + i) * C + j) / (C * B) = b := by
  have hC : 0 < C := by omega
  have hB : 0 < B := by omega
  have e1 : ((b * B + i) * C + j) % C = j := by
    rw [Nat.mul_comm, Nat.mul_add_mod, Nat.mod_eq_of_lt hj]
  have e2 : ((b * B + i) * C + j) / C = b * B + i := by
    rw [Nat.mul_comm, Nat.mul_add_div hC, Nat.div_eq_of_lt hj]; omega
  refine ⟨e1, ?_, ?_⟩
  · rw [e2, Nat.mul_comm, Nat.mul_add_mod, Nat.mod_eq_of_lt hi]
  · rw [← Nat.div_div_eq_div_mul, e2, Nat.mul_comm, Nat.mul_add_div hB, Nat.div_eq_of_lt hi]; omega

theorem seq3_lt {A B C b i j : Nat} (hb : b < A) (hi : i < B) (hj : j < C) : (b * B + i) * C + j < A * B * C := by
  have h1 : i + B * b < B * A := lt_mul_of_lt hi hb
  have h2 : j + C * (i + B * b) < C * (B * A) := lt_mul_of_lt hj h1
  have e1 : (b * B + i) * C + j = j + C * (i + B * b) := by ring
  have e2 : A * B * C = C * (B * A) := by ring
  rw [e1, e2]; exact h2

end Primitiv.View3
