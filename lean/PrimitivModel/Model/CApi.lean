/-
Model of the C API layer (primitiv/c/**): the record type of the table that
/verif/translate/capi.py generates from the preprocessed wrapper definitions
(`Gen/CApi.lean`), what a wrapper does with a NULL / 0 argument as far as its
own text determines it (`predict`), the per-thread status state machine of
`ErrorHandler` (`CStatus`), and the three size-query helpers of
primitiv/c/internal/internal.h.

Tie to the code: translator (table, handler facts, helper facts) and the
correspondence harness `h_capi` (every wrapper x NULL / 0 patterns, status
sequences, threads, size queries).
Core Lean only.
-/
namespace Primitiv.CApi

/-! ## The table -/

/-- What a parameter is for, as determined by its type and its uses. -/
inductive Role where
  | value            -- by-value argument
  | count            -- by-value length of an array argument
  | inHandle         -- object pointer that the wrapper dereferences
  | inHandleNullable -- object pointer only passed on as a pointer (NULL = default device / graph)
  | outHandle        -- `T **`: location that receives an object pointer
  | outHandleArray   -- `T **`: caller's array that receives `count` new objects
  | outScalar        -- `uint32_t *`, `float *`, `PRIMITIV_C_BOOL *`: location that receives a value
  | outBuf           -- output buffer of a size-query function (NULL = query the size)
  | sizeInOut        -- `size_t *size` of a size-query function
  | inArray          -- data array read through `std::vector<T>(p, p + n)`
  | inRaw            -- data pointer passed on to the C++ API (`reset_by_array`)
  | inStringArray    -- `const char **` read through `std::vector<std::string>(p, p + n)`
  | inHandleArray    -- array of object pointers
  | inString         -- `const char *` converted to std::string
  | unused
  | unknown
deriving DecidableEq, Repr, Inhabited

/-- One occurrence of a parameter in the body of a wrapper. -/
inductive UseKind where
  | check        -- `if (!p) throw Error("Argument `p` must not be null.")`
  | elemCheck    -- the same for `p[i]` inside `for (i = 0; i < n; ++i)`
  | starWrite    -- `*p = …;`
  | star         -- `*p`
  | arrow        -- `p->`
  | cppStar      -- `*to_cpp_ptr(p)`
  | cppArrow     -- `to_cpp_ptr(p)->`
  | cppDelete    -- `delete to_cpp_ptr(p)` (harmless for NULL)
  | index        -- `p[i]`
  | elemCppStar  -- `*to_cpp_ptr(p[i])`
  | elemCppArrow -- `to_cpp_ptr(p[i])->`
  | elemFwdCpp   -- `to_cpp_ptr(p[i])` passed on as a pointer
  | rangeData    -- `std::vector<T>(p, p + n)`, T a scalar type
  | rangeObjPtr  -- `std::vector<const T *>(p, p + n)` handed to a C++ function that dereferences every element
  | rangeString  -- `std::vector<std::string>(p, p + n)`: every element goes through `std::string(const char *)`
  | asString     -- `const char *` converted to std::string
  | rawFwd       -- data pointer passed on to the C++ API, which reads through it
  | fwdCpp       -- `to_cpp_ptr(p)` passed on as a pointer (nullable by contract)
  | fwdBuf       -- output buffer handed to a size-query helper (nullable by contract)
  | sizeArg      -- `size_t *` handed to a size-query helper, which reads and writes `*size`
  | valueUse     -- a by-value argument is used
deriving DecidableEq, Repr, Inhabited

inductive HandlerKind where
  | none          -- no function-try-block
  | stdException  -- `catch (const std::exception &e) { return ErrorHandler::get_instance().handle(e); }` and nothing else
  | other
deriving DecidableEq, Repr, Inhabited

structure Param where
  name : String
  ty : String
  ptrDepth : Nat
  pointeeConst : Bool
  role : Role
  /-- index of the parameter that holds the length of this array -/
  count : Option Nat := none
  /-- index of the `size_t *` parameter of this output buffer -/
  size : Option Nat := none
  /-- "Shape", "Tensor", … for `primitivShape_t` …; "" otherwise -/
  handle : String := ""
  /-- the object stored through an `outHandle` belongs to the caller -/
  owned : Bool := false
deriving Repr, Inhabited

structure Use where
  param : Nat
  kind : UseKind
  /-- number of the statement of the body (in order) this use occurs in -/
  stmt : Nat := 0
  inLoop : Bool := false
  cond : Bool := false
  /-- the name in the null-check message / the callee the pointer is handed to -/
  text : String := ""
deriving Repr, Inhabited

structure Wrapper where
  name : String
  file : String
  group : String
  params : List Param
  /-- uses of the parameters in the order of the body -/
  uses : List Use
  hasTry : Bool
  handler : HandlerKind
  /-- the try block ends in `return PRIMITIV_C_OK;` and has no other `return` -/
  endsWithReturnOk : Bool
  /-- declared `extern "C"` with the same parameter types in a header -/
  declared : Bool
  /-- size-query helper called by the body ("" if none) -/
  helper : String := ""
  /-- the statements of the body other than null checks and the final return -/
  call : String
  /-- constructs outside the translator's subset -/
  unsupported : List String
deriving Repr, Inhabited

/-- Facts read off `class ErrorHandler` and the `thread_local` object. -/
structure HandlerSpec where
  handleStoresWhat : Bool        -- handle(e): `message_ = e.what();`
  handleReturnsError : Bool      -- handle(e): the only return is `return PRIMITIV_C_ERROR;`
  resetStoresOk : Bool           -- reset(): `message_ = "OK";`
  initialOk : Bool               -- constructor: `message_("OK")`
  getMessageReturnsStored : Bool -- get_message(): `return message_.c_str();`
  threadLocal : Bool             -- `static thread_local ErrorHandler error_handler;` returned by get_instance()
  notes : List String
deriving Repr, Inhabited

/-- Facts read off one of the size-query helpers
    `if (buf) { if (*size CMP len) throw; COPY; } else { *size = len + reportExtra; }` -/
structure HelperSpec where
  name : String
  supported : Bool
  /-- the guard throws when `*size < len` -/
  errWhenLess : Bool
  /-- the guard throws when `*size == len` (`<=`) -/
  errWhenEqual : Bool
  /-- a NULL buffer stores `len + reportExtra` -/
  reportExtra : Nat
  /-- the copy writes `len + writeExtra` cells (strcpy writes the terminator) -/
  writeExtra : Nat
  text : String
deriving Repr, Inhabited

/-! ## Predicates over a row -/

/-- uses that read or write through the pointer parameter itself -/
def UseKind.isDeref : UseKind → Bool
  | .starWrite | .star | .arrow | .cppStar | .cppArrow | .index
  | .rangeData | .rangeObjPtr | .rangeString | .asString | .rawFwd | .sizeArg => true
  | _ => false

/-- uses that read through the *elements* of a pointer array -/
def UseKind.isElemDeref : UseKind → Bool
  | .elemCppStar | .elemCppArrow | .rangeObjPtr | .rangeString => true
  | _ => false

/-- Walk the uses in body order; `c` = parameters null-checked so far, `e` =
parameters whose elements were null-checked so far. -/
def derefCheckedAux : List Use → List Nat → List Nat → Bool
  | [], _, _ => true
  | u :: us, c, e =>
    match u.kind with
    | .check => derefCheckedAux us (u.param :: c) e
    | .elemCheck => c.contains u.param && derefCheckedAux us c (u.param :: e)
    | k =>
      (!k.isDeref || c.contains u.param) && (!k.isElemDeref || e.contains u.param)
        && derefCheckedAux us c e

/-- every dereference of a pointer parameter, and of an element of a pointer
array, comes after the corresponding null check -/
def Wrapper.derefChecked (w : Wrapper) : Bool := derefCheckedAux w.uses [] []

def Wrapper.ptrDepthOf (w : Wrapper) (p : Nat) : Nat :=
  match w.params[p]? with
  | some q => q.ptrDepth
  | none => 0

/-- null checks are applied to pointers only (element checks to pointer arrays) -/
def Wrapper.onlyPointersChecked (w : Wrapper) : Bool :=
  w.uses.all fun u =>
    match u.kind with
    | .check => decide (1 ≤ w.ptrDepthOf u.param)
    | .elemCheck => decide (2 ≤ w.ptrDepthOf u.param)
    | _ => true

/-- function-try-block, the one handler, `return PRIMITIV_C_OK` at the end only -/
def Wrapper.tryBlockOk (w : Wrapper) : Bool :=
  w.hasTry && w.handler == .stdException && w.endsWithReturnOk

def Wrapper.supported (w : Wrapper) : Bool :=
  w.unsupported.isEmpty && w.declared && w.params.all (fun p => p.role != .unknown && p.role != .unused)

/-- the null checks come before everything else in the body, so a rejected
call has had no effect -/
def Wrapper.checksFirst (w : Wrapper) : Bool :=
  let rest := w.uses.dropWhile (fun u => u.kind == .check || u.kind == .elemCheck || (u.kind == .valueUse && u.inLoop))
  rest.all fun u => u.kind != .check && u.kind != .elemCheck

/-- within one statement the parameters are used in the order of the
parameter list (the assigned output location aside): arguments are passed on
in order. `s` = current statement, `p` = last parameter used in it. -/
def inOrderAux : List Use → Nat → Nat → Bool
  | [], _, _ => true
  | u :: us, s, p =>
    if u.kind == .check || u.kind == .elemCheck || u.kind == .starWrite then inOrderAux us s p
    else if u.stmt == s then decide (p ≤ u.param) && inOrderAux us s u.param
    else inOrderAux us u.stmt u.param

def Wrapper.forwardedInOrder (w : Wrapper) : Bool := inOrderAux w.uses 0 0

/-! ## What the text of a wrapper determines about NULL / 0 arguments -/

/-- One argument of a call, as far as this model distinguishes. -/
inductive ArgPat where
  | valid     -- a valid object / non-zero value / array of `n ≥ 1` valid elements
  | null      -- NULL pointer
  | nullElem  -- valid array of `n ≥ 1` pointers one of which is NULL
  | zero      -- by-value 0 / 0.0f
deriving DecidableEq, Repr, Inhabited

/-- `!x` is true -/
def ArgPat.falsy : ArgPat → Bool
  | .null | .zero => true
  | _ => false

inductive Pred where
  | pass                    -- no null check fires, nothing is dereferenced through NULL: the C++ API decides
  | errNull (what : String) -- PRIMITIV_C_ERROR, message "Argument `what` must not be null."
  | errOther                -- std::string(nullptr): libstdc++ throws std::logic_error, caught by the handler
  | crash                   -- undefined behaviour: NULL is dereferenced
deriving DecidableEq, Repr, Inhabited

def predictAux (pat : Nat → ArgPat) : List Use → Pred
  | [] => .pass
  | u :: us =>
    let a := pat u.param
    match u.kind with
    | .check => if a.falsy then .errNull u.text else predictAux pat us
    | .elemCheck =>
      if a = .null then .crash else if a = .nullElem then .errNull u.text else predictAux pat us
    | k =>
      if k.isDeref && a = .null then .crash
      else if k.isElemDeref && a = .nullElem then (if k = .rangeString then .errOther else .crash)
      else predictAux pat us

def Wrapper.predict (w : Wrapper) (pat : List ArgPat) : Pred :=
  predictAux (fun i => pat.getD i .valid) w.uses

/-- a pattern that only uses the constructors meaningful for the parameter types -/
def Wrapper.wellTyped (w : Wrapper) (pat : Nat → ArgPat) : Prop :=
  ∀ i, (pat i = .zero → w.ptrDepthOf i = 0) ∧ (pat i = .null → 1 ≤ w.ptrDepthOf i)
    ∧ (pat i = .nullElem → 2 ≤ w.ptrDepthOf i)

/-! ## The status state machine (class ErrorHandler, one instance per thread) -/

namespace CStatus

/-- `message_` of one ErrorHandler. -/
structure St where
  msg : String
deriving DecidableEq, Repr, Inhabited

inductive Op where
  /-- a C API call whose body completes (`none`) or throws an exception whose `what()` is the string -/
  | call (throws : Option String)
  | reset        -- primitivResetStatus
  | getMessage   -- a successful primitivGetMessage
deriving DecidableEq, Repr, Inhabited

inductive Res where
  | ok                    -- PRIMITIV_C_OK
  | error                 -- PRIMITIV_C_ERROR
  | message (s : String)  -- PRIMITIV_C_OK and the text copied out
deriving DecidableEq, Repr, Inhabited

def init (h : HandlerSpec) : St := ⟨if h.initialOk then "OK" else ""⟩

def step (h : HandlerSpec) (s : St) : Op → St × Res
  | .call none => (s, .ok)
  | .call (some w) =>
    (if h.handleStoresWhat then ⟨w⟩ else s, if h.handleReturnsError then .error else .ok)
  | .reset => (if h.resetStoresOk then ⟨"OK"⟩ else s, .ok)
  | .getMessage => (s, .message (if h.getMessageReturnsStored then s.msg else ""))

/-- run a history on one thread; results in order -/
def run (h : HandlerSpec) : St → List Op → St × List Res
  | s, [] => (s, [])
  | s, o :: os =>
    let (s1, r) := step h s o
    let (s2, rs) := run h s1 os
    (s2, r :: rs)

/-- Specification: the message a thread sees after a history. -/
def specMsg : List Op → String → String
  | [], m => m
  | .call (some w) :: os, _ => specMsg os w
  | .reset :: os, _ => specMsg os "OK"
  | _ :: os, m => specMsg os m

/-- Specification of the results. -/
def specRes : List Op → String → List Res
  | [], _ => []
  | .call none :: os, m => .ok :: specRes os m
  | .call (some w) :: os, _ => .error :: specRes os w
  | .reset :: os, _ => .ok :: specRes os "OK"
  | .getMessage :: os, m => .message m :: specRes os m

/-! several threads -/

/-- which ErrorHandler a thread uses -/
def slot (h : HandlerSpec) (t : Nat) : Nat := if h.threadLocal then t else 0

abbrev Sts := Nat → St

def stepT (h : HandlerSpec) (σ : Sts) (top : Nat × Op) : Sts × Res :=
  let k := slot h top.1
  let (s, r) := step h (σ k) top.2
  (fun j => if j = k then s else σ j, r)

def runT (h : HandlerSpec) : Sts → List (Nat × Op) → Sts × List Res
  | σ, [] => (σ, [])
  | σ, o :: os =>
    let (σ1, r) := stepT h σ o
    let (σ2, rs) := runT h σ1 os
    (σ2, r :: rs)

/-- the operations of thread `t` -/
def proj (t : Nat) (ops : List (Nat × Op)) : List Op :=
  (ops.filter (fun o => o.1 = t)).map (·.2)

end CStatus

/-! ## The size-query helpers -/

inductive BufRes (α : Type) where
  /-- returned normally: buffer contents (none = NULL was passed) and `*size` afterwards -/
  | ok (buf : Option (List α)) (size : Nat)
  /-- threw "Size is not enough …" -/
  | err (buf : Option (List α)) (size : Nat)
  /-- wrote past the end of the caller's buffer -/
  | overflow
deriving DecidableEq, Repr, Inhabited

/-- `copy_vector_to_array` / `copy_string_to_array` / `move_vector_to_array_of_c_ptrs`
with the guard and the sizes of the spec: `src` is the vector (the characters
of the string), `term` what the copy appends (the NUL of strcpy), `buf` the
caller's buffer (`none` = NULL), `size` the value of `*size` on entry. -/
def sizeQuery {α} (h : HelperSpec) (src term : List α) (buf : Option (List α)) (size : Nat) : BufRes α :=
  match buf with
  | none => .ok none (src.length + h.reportExtra)
  | some b =>
    if (h.errWhenLess && decide (size < src.length)) || (h.errWhenEqual && decide (size = src.length)) then
      .err (some b) size
    else
      let data := src ++ term.take h.writeExtra
      if data.length ≤ b.length then .ok (some (data ++ b.drop data.length)) size else .overflow

/-- what the translator must have found for the three helpers -/
def HelperSpec.sound (h : HelperSpec) : Bool :=
  h.supported && h.errWhenLess && (h.errWhenEqual == (h.reportExtra == 1)) && (h.writeExtra == h.reportExtra)
    && decide (h.reportExtra ≤ 1)

def HandlerSpec.sound (h : HandlerSpec) : Bool :=
  h.handleStoresWhat && h.handleReturnsError && h.resetStoresOk && h.initialOk && h.getMessageReturnsStored
    && h.threadLocal && h.notes.isEmpty

end Primitiv.CApi
