import PrimitivModel.Model.Shape
/-
Model of the sharing discipline of primitiv::Tensor (core/tensor.{h,cc}), of the
device front of the in-place operations (core/device.cc: reset_tensor*,
inplace_add/subtract/multiply_const, copy_tensor, new_tensor_by_vector), of the
Naive kernels of these operations (devices/naive/ops/{inplace_*,reset_tensor*,
copy_tensor,tensor_to_vector}.cc) and of the tensors a Parameter holds
(core/parameter.{h,cc}: init, value(), gradient(); tensor_funcs.cc:
parameter_tensor, reshape, flatten).

State of the model
* `heap`  : buffer id ↦ `(contents, use count)`; the entry of a freed buffer is
  `none`; a new buffer always gets the id `heap.length`, so ids are never
  reused and nothing observable depends on them (canonical numbering in order
  of allocation).  `std::shared_ptr<void> handle_` = buffer id, `use_count()` =
  the `rc` field.
* `pool`  : slot ↦ `none` (no Tensor object lives there) | `some invalid`
  (`device_ == nullptr`) | `some (valid shape buf)`.
  Slot `3h` is the free-standing Tensor object number `h` of the protocol,
  slots `3p+1`, `3p+2` are `value_` and `grad_` of Parameter number `p`.
* `pvalid`: `Parameter::valid()` of each parameter.

Element values are integers (the protocol keeps all floats exactly
representable).  Every state change is one of three primitives (`replace`,
`allocInto`, `writeBuf`).  A `shared_ptr` move (no change of the use count) is
modelled as copy followed by release of the source; the two have the same final
state and the model is only observed between API calls.

Tie to the code: correspondence (harness family `cow`, both CPU backends).
Core Lean only.
-/
namespace Primitiv.Cow

structure Buf where
  data : List Int
  rc : Nat
deriving Repr, DecidableEq, Inhabited

inductive Handle where
  | invalid
  | valid (sh : Shape) (buf : Nat)
deriving Repr, DecidableEq, Inhabited

/-- lookup in a slot list; positions past the end are empty -/
def getSlot {α} : List (Option α) → Nat → Option α
  | [], _ => none
  | o :: _, 0 => o
  | _ :: rest, i + 1 => getSlot rest i

/-- update of a slot list, extending it with empty slots when needed -/
def setSlot {α} : List (Option α) → Nat → Option α → List (Option α)
  | [], 0, v => [v]
  | [], i + 1, v => none :: setSlot [] i v
  | _ :: rest, 0, v => v :: rest
  | o :: rest, i + 1, v => o :: setSlot rest i v

structure State where
  heap : List (Option Buf)
  pool : List (Option Handle)
  pvalid : List Bool
deriving Repr, DecidableEq, Inhabited

def init : State := ⟨[], [], []⟩

/-- an abstract tensor value: `none` = invalid tensor -/
abbrev AVal := Option (Shape × List Int)

inductive Out where
  | ok | noobj | err | crash
  | alias   -- the protocol does not issue a backward kernel whose operands are one object
  | vals (sh : Shape) (v : List Int)
  | shape (sh : Shape)
  | bool (b : Bool)
  | nat (n : Nat)
  | all (l : List (Nat × AVal))
deriving Repr, DecidableEq, Inhabited

/-! ### shared_ptr bookkeeping -/

/-- one more owner of buffer `b` -/
def incr (hp : List (Option Buf)) (b : Nat) : List (Option Buf) :=
  match getSlot hp b with
  | some bf => setSlot hp b (some { bf with rc := bf.rc + 1 })
  | none => hp

/-- one owner of buffer `b` goes away; the last one frees the buffer -/
def decr (hp : List (Option Buf)) (b : Nat) : List (Option Buf) :=
  match getSlot hp b with
  | some bf => if bf.rc ≤ 1 then setSlot hp b none else setSlot hp b (some { bf with rc := bf.rc - 1 })
  | none => hp

def bufOf : Option Handle → Option Nat
  | some (.valid _ b) => some b
  | _ => none

def incrO (hp : List (Option Buf)) : Option Nat → List (Option Buf)
  | some b => incr hp b
  | none => hp

def decrO (hp : List (Option Buf)) : Option Nat → List (Option Buf)
  | some b => decr hp b
  | none => hp

/-- The slot `dst` becomes `v` (which shares its buffer with an existing owner):
copy construction / copy assignment / destruction / `invalidate()`.  The new
owner is counted before the old one is released, as `shared_ptr::operator=`
does, so self-assignment is harmless. -/
def replace (s : State) (dst : Nat) (v : Option Handle) : State :=
  let hp1 := incrO s.heap (bufOf v)
  let hp2 := decrO hp1 (bufOf (getSlot s.pool dst))
  { s with heap := hp2, pool := setSlot s.pool dst v }

/-- A freshly allocated buffer with contents `vals` (owned by a temporary) is
move-assigned into (or move-constructed at) slot `dst`: `new_handle`, then the
old handle of `dst` is released. -/
def allocInto (s : State) (dst : Nat) (sh : Shape) (vals : List Int) : State :=
  let b := s.heap.length
  let hp1 := decrO s.heap (bufOf (getSlot s.pool dst))
  { s with heap := hp1 ++ [some ⟨vals, 1⟩], pool := setSlot s.pool dst (some (.valid sh b)) }

def writeBuf (hp : List (Option Buf)) (b : Nat) (d : List Int) : List (Option Buf) :=
  match getSlot hp b with
  | some bf => setSlot hp b (some { bf with data := d })
  | none => hp

/-- Contents of the buffer behind a valid handle of shape `sh`; `none` where the
code as written would touch freed memory or run past the end of the buffer. -/
def deref (s : State) (sh : Shape) (b : Nat) : Option (List Int) :=
  match getSlot s.heap b with
  | some bf => if sh.size ≤ bf.data.length then some bf.data else none
  | none => none

/-- `Tensor::mutable_handle()` (tensor.cc:33-41): when the buffer is shared
(`use_count() > 1`) the tensor first becomes a private copy of itself
(`*this = device_->copy_tensor(*this)`: `shape.size()` elements are copied into
a new buffer, the old handle is released). -/
def mutableHandle (s : State) (h : Nat) : State :=
  match getSlot s.pool h with
  | some (.valid sh b) =>
    match getSlot s.heap b with
    | some bf => if bf.rc > 1 then allocInto s h sh (bf.data.take sh.size) else s
    | none => s
  | _ => s

/-! ### kernels (devices/naive/ops) -/

/-- the `(dest index, src index)` pairs visited by the two nested loops of
`inplace_add_impl` / `inplace_subtract_impl`, in order -/
def kernelIdx (vol bs skipD skipS : Nat) : List (Nat × Nat) :=
  (List.range bs).flatMap fun b => (List.range vol).map fun i => (b * skipD + i, b * skipS + i)

/-- `dest[pd] = f(dest[pd], src[ps])`; `src = none` means that the source pointer
equals the destination pointer (the same buffer) -/
def kstep (f : Int → Int → Int) (src : Option (List Int)) (dest : List Int) (p : Nat × Nat) : List Int :=
  dest.set p.1 (f (dest.getD p.1 0) ((src.getD dest).getD p.2 0))

def kernel (f : Int → Int → Int) (vol bs skipD skipS : Nat) (dest : List Int) (src : Option (List Int)) : List Int :=
  (kernelIdx vol bs skipD skipS).foldl (kstep f src) dest

def skipOf (s : Shape) : Nat := if s.hasBatch then s.volume else 0

/-- what `y (op)= x` stores in `y`'s buffer (contents `D`), `x`'s contents being `src` -/
def arith (f : Int → Int → Int) (sy sx : Shape) (D : List Int) (src : Option (List Int)) : List Int :=
  kernel f sy.volume (max sx.batch sy.batch) (skipOf sy) (skipOf sx) D src

def fill (n : Nat) (k : Int) (D : List Int) : List Int := List.replicate n k ++ D.drop n
def overwrite (n : Nat) (vals : List Int) (D : List Int) : List Int := vals.take n ++ D.drop n
def scale (n : Nat) (k : Int) (D : List Int) : List Int := (D.take n).map (· * k) ++ D.drop n

/-! ### backward kernels that accumulate into their last argument -/

/-- `dest[p.1] = f(dest[p.1], src[p.2])` for the listed index pairs, in order; source
and destination are different buffers -/
def scatter (f : Int → Int → Int) (idx : List (Nat × Nat)) (D S : List Int) : List Int :=
  idx.foldl (kstep f (some S)) D

def batchSkip (s : Shape) : Nat := if s.hasBatch then s.volume else 0

/-- index pairs of `slice_bw_impl` (naive/ops/slice.cc) -/
def sliceIdx (sy sx : Shape) (dim off : Nat) : List (Nat × Nat) :=
  let base := sx.lowerVolume dim
  let span := base * sy.get dim
  let skip := base * sx.get dim
  let rep := sx.volume / skip
  (List.range (max sx.batch sy.batch)).flatMap fun b =>
    (List.range rep).flatMap fun i =>
      (List.range span).map fun j => (b * batchSkip sx + base * off + i * skip + j, b * batchSkip sy + i * span + j)

/-- index pairs of `pick_bw_impl` (naive/ops/pick.cc) -/
def pickIdx (sy sx : Shape) (dim : Nat) (ids : List Nat) : List (Nat × Nat) :=
  let skipI := if ids.length > 1 then 1 else 0
  let base := sy.lowerVolume dim
  let skip := base * sx.get dim
  let rep := sy.volume / base
  (List.range sy.batch).flatMap fun b =>
    (List.range rep).flatMap fun i =>
      (List.range base).map fun j =>
        (b * batchSkip sx + base * ids.getD (b * skipI) 0 + i * skip + j, b * (rep * base) + i * base + j)

/-- index pairs of `flip_bw_impl` (naive/ops/flip.cc) -/
def flipIdx (s : Shape) (dim : Nat) : List (Nat × Nat) :=
  let n := s.get dim
  let skip := s.lowerVolume dim
  let r := s.size / n
  (List.range n).flatMap fun j =>
    (List.range r).map fun i =>
      let offset := i * n - i % skip * (n - 1)
      (offset + j * skip, offset + (n - j - 1) * skip)

/-- contents of `transpose_fw(gy)` (naive/ops/transpose.cc), `sy` the shape of `gy` -/
def transposeData (sy : Shape) (S : List Int) : List Int :=
  let d1 := sy.get 0
  let d2 := sy.get 1
  let ms := d1 * d2
  (List.range (sy.batch * ms)).map fun p =>
    let k := p / ms
    let q := p % ms
    S.getD (k * ms + (q % d2) * d1 + q / d2) 0

/-- `MDATA(dst)` and then a kernel that accumulates a function of `src`'s contents
into `dst`'s buffer; `dst` and `src` are different objects, so the pointer the
kernel obtained for `src` (before or after `MDATA(dst)`, the kernels differ in
that) addresses the same, unchanged contents: `dst`'s buffer is exclusively owned
after `MDATA`, and a duplication never frees or rewrites the old buffer while
`src` holds it. -/
def accum (s : State) (dst src : Nat) (sd ss : Shape) (K : List Int → List Int → List Int) : State × Out :=
  let s1 := mutableHandle s dst
  match getSlot s1.pool dst, getSlot s1.pool src with
  | some (.valid _ bd), some (.valid _ bs) =>
    match deref s1 sd bd, deref s1 ss bs with
    | some D, some S => ({ s1 with heap := writeBuf s1.heap bd (K D S) }, .ok)
    | _, _ => (s1, .crash)
  | _, _ => (s1, .crash)

/-- the front of a backward entry point `f(gy, …, gx)` of Device: both operands
valid, then the shape precondition `ok sy sx`, then the kernel -/
def bwOp (s : State) (gy gx : Nat) (ok : Shape → Shape → R Bool)
    (K : Shape → Shape → List Int → List Int → List Int) : State × Out :=
  match getSlot s.pool gy, getSlot s.pool gx with
  | some hy, some hx =>
    if gy = gx then (s, .alias) else
    match hy, hx with
    | .valid sy _, .valid sx _ =>
      match ok sy sx with
      | .error .crash => (s, .crash)
      | .error .error => (s, .err)
      | .ok false => (s, .err)
      | .ok true => accum s gx gy sx sy (K sy sx)
    | _, _ => (s, .err)
  | _, _ => (s, .noobj)

def sliceBwOk (dim off : Nat) (sy sx : Shape) : R Bool := do
  let loo ← sy.hasSameLooDims sx dim
  pure (!(!loo || !sy.hasCompatibleBatch sx || decide (off > sx.get dim) || decide (sy.get dim > sx.get dim - off)))

def sliceBwK (dim off : Nat) (sy sx : Shape) (D S : List Int) : List Int :=
  if dim ≥ sx.depth then arith (· + ·) sx sy D (some S) else scatter (· + ·) (sliceIdx sy sx dim off) D S

def pickBwOk (dim : Nat) (ids : List Nat) (sy sx : Shape) : R Bool := do
  let r ← ShapeOps.pick sx ids dim
  pure (sy.eq r)

def flipBwOk (sy sx : Shape) : R Bool := pure (sy.eq sx)

def transposeBwOk (sy sx : Shape) : R Bool := do
  let r ← ShapeOps.transpose sx
  pure (sy.eq r)

/-- `add_bw` / `subtract_bw` (`gb` receives `g`): shape precondition of DEV_BW_AB
with `a := ga`, `b := gb`, `y := gy` -/
def abBwOk (sy sa sb : Shape) : R Bool := do
  let r ← ShapeOps.elementwise sa sb
  pure (sy.eq r)

/-- `add_bw(…, gy, ga, gb)` / `subtract_bw`: `MDATA(ga)`, `MDATA(gb)`, then one loop
that updates both; the three objects are distinct, so the final state is that
of `ga += gy` followed by `gb ±= gy` (same buffers duplicated in the same order). -/
def abBwOp (g : Int → Int → Int) (s : State) (gy ga gb : Nat) : State × Out :=
  match getSlot s.pool gy, getSlot s.pool ga, getSlot s.pool gb with
  | some hy, some ha, some hb =>
    if gy = ga ∨ gy = gb ∨ ga = gb then (s, .alias) else
    match hy, ha, hb with
    | .valid sy _, .valid sa _, .valid sb _ =>
      match abBwOk sy sa sb with
      | .error .crash => (s, .crash)
      | .error .error => (s, .err)
      | .ok false => (s, .err)
      | .ok true =>
        let r1 := accum s ga gy sa sy (fun D S => arith (· + ·) sa sy D (some S))
        match r1.2 with
        | .ok => accum r1.1 gb gy sb sy (fun D S => arith g sb sy D (some S))
        | _ => r1
    | _, _, _ => (s, .err)
  | _, _, _ => (s, .noobj)

/-- the body shared by `reset`, `reset_by_vector`, `*=`: `MDATA(x)` and then a
loop over `shape.size()` elements -/
def inplace1 (s : State) (h : Nat) (f : Nat → List Int → List Int) : State × Out :=
  let s1 := mutableHandle s h
  match getSlot s1.pool h with
  | some (.valid sh b) =>
    match deref s1 sh b with
    | some D => ({ s1 with heap := writeBuf s1.heap b (f sh.size D) }, .ok)
    | none => (s1, .crash)
  | _ => (s1, .crash)

/-- `y.inplace_add(x)` / `y.inplace_subtract(x)` with `y` in slot `h`, `x` in slot
`g`: Tensor::inplace_add → Device::inplace_add (validity of both, shape
precondition) → kernel (`MDATA(y)` first, `CDATA(x)` second). -/
def inplace2 (f : Int → Int → Int) (s : State) (h g : Nat) : State × Out :=
  match getSlot s.pool h, getSlot s.pool g with
  | some hy, some hx =>
    match hy, hx with
    | .valid sy _, .valid sx _ =>
      if !sx.hasSameDims sy || !sx.hasCompatibleBatch sy then (s, .err) else
      let s1 := mutableHandle s h
      match getSlot s1.pool h, getSlot s1.pool g with
      | some (.valid _ bd), some (.valid _ bsrc) =>
        match deref s1 sy bd, deref s1 sx bsrc with
        | some D, some S =>
          let src := if bd = bsrc then none else some S
          ({ s1 with heap := writeBuf s1.heap bd (arith f sy sx D src) }, .ok)
        | _, _ => (s1, .crash)
      | _, _ => (s1, .crash)
    | _, _ => (s, .err)
  | _, _ => (s, .noobj)

/-! ### operations of the protocol -/

/-- functions whose result is only computed and dropped (`probe`) -/
inductive Probe where
  | sum0 | add | matmul | bsum | tofloat | argmax0
deriving Repr, DecidableEq, Inhabited

inductive Op where
  | new (h : Nat) (dims : List Nat) (batch : Nat) (vals : List Int)
  | copy (h g : Nat)
  | copyctor (h g : Nat)
  | move (h g : Nat)
  | reshape (h g : Nat) (dims : List Nat) (batch : Nat)
  | flatten (h g : Nat)
  | reset (h : Nat) (k : Int)
  | resetv (h : Nat) (vals : List Int)
  | iadd (h g : Nat)
  | isub (h g : Nat)
  | imul (h : Nat) (k : Int)
  | invalidate (h : Nat)
  | drop (h : Nat)
  | read (h : Nat)
  | shape (h : Nat)
  | valid (h : Nat)
  | device (h : Nat)
  | param (p : Nat) (dims : List Nat) (batch : Nat) (vals : List Int)
  | pvalue (p g : Nat)
  | pgrad (p g : Nat)
  | ptensor (p g : Nat)
  | piaddValue (p g : Nat)
  | pdrop (p : Nat)
  | live
  | readall
  -- the public Device entry points, called directly
  | diadd (h g : Nat)
  | disub (h g : Nat)
  | dimul (h : Nat) (k : Int)
  | dsliceBw (gy : Nat) (dim off : Nat) (gx : Nat)
  | dpickBw (gy : Nat) (dim : Nat) (ids : List Nat) (gx : Nat)
  | dflipBw (gy : Nat) (dim : Nat) (gx : Nat)
  | dtransposeBw (gy gx : Nat)
  | daddBw (gy ga gb : Nat)
  | dsubBw (gy ga gb : Nat)
  | piaddGrad (p g : Nat)
  -- primitiv::functions on one operand
  | fcopy (h g : Nat)
  | fpositive (h g : Nat)
  | fconcat1 (h g : Nat) (dim : Nat)
  | fbconcat1 (h g : Nat)
  | probe (fn : Probe) (h : Nat)
deriving Repr, DecidableEq, Inhabited

def vslot (p : Nat) : Nat := 3 * p + 1
def gslot (p : Nat) : Nat := 3 * p + 2

def setFlag (l : List Bool) (i : Nat) (v : Bool) : List Bool :=
  if i < l.length then l.set i v else l ++ List.replicate (i - l.length) false ++ [v]

/-- `g = h` / `Tensor g(h)`: the target shares the buffer of the source -/
def copyOp (s : State) (h g : Nat) : State × Out :=
  match getSlot s.pool h with
  | none => (s, .noobj)
  | some v => (replace s g (some v), .ok)

/-- `Shape(dims, batch)` followed by `k`; a throwing constructor is `err` -/
def withShape (s : State) (dims : List Nat) (batch : Nat) (k : Shape → State × Out) : State × Out :=
  match Shape.new dims batch with
  | .error .crash => (s, .crash)
  | .error .error => (s, .err)
  | .ok sh => k sh

/-- `g = h.<view>()` where the view keeps the handle and changes the shape -/
def viewOp (s : State) (h g : Nat) (rule : Shape → R Shape) : State × Out :=
  match getSlot s.pool h with
  | none => (s, .noobj)
  | some .invalid => (s, .err)
  | some (.valid sh b) =>
    match rule sh with
    | .error .crash => (s, .crash)
    | .error .error => (s, .err)
    | .ok rsh => (replace s g (some (.valid rsh b)), .ok)

/-- total helper: `D` cut or zero-padded to `n` elements (the identity when
`D.length = n`, which is the only case that occurs: see `freshOp`) -/
def fitTo (n : Nat) (D : List Int) : List Int := D.take n ++ List.replicate (n - D.length) 0

/-- `g = F(h)` where `F` returns a new tensor with the contents of `h` and the
shape `rule (shape h)` (`copy_tensor`, `concat_fw` / `batch_concat_fw` of a single
tensor).  The result has `rule sh`.size() elements; for every shape the
constructor can build this is the element count of `h` (shape algebra, C09), so
`fitTo` is the identity; it only makes the definition total. -/
def freshOp (s : State) (h g : Nat) (rule : Shape → R Shape) : State × Out :=
  match getSlot s.pool h with
  | none => (s, .noobj)
  | some .invalid => (s, .err)
  | some (.valid sh b) =>
    match rule sh with
    | .error .crash => (s, .crash)
    | .error .error => (s, .err)
    | .ok rsh =>
      match deref s sh b with
      | some D => (allocInto s g rsh (fitTo rsh.size (D.take sh.size)), .ok)
      | none => (s, .crash)

/-- does `fn(h)` succeed on a valid tensor of shape `sh`? (the result is dropped) -/
def probeOk (fn : Probe) (sh : Shape) : Bool :=
  match fn with
  | .matmul => match ShapeOps.matmul sh sh with | .ok _ => true | _ => false
  | .tofloat => sh.size == 1
  | _ => true

def liveCount (s : State) : Nat := (s.heap.filter Option.isSome).length

/-- what `readall` shows of one slot -/
def viewSlot (s : State) : Option Handle → Option (Option AVal)
  | none => some none               -- no object: nothing to show (filtered out)
  | some .invalid => some (some none)
  | some (.valid sh b) =>
    match deref s sh b with
    | some D => some (some (some (sh, D.take sh.size)))
    | none => none                  -- use after free / overrun

def readAllFrom (s : State) : Nat → List (Option Handle) → Option (List (Nat × AVal))
  | _, [] => some []
  | i, o :: rest =>
    match viewSlot s o, readAllFrom s (i + 1) rest with
    | some none, some l => some l
    | some (some v), some l => some ((i, v) :: l)
    | _, _ => none

def step (s : State) : Op → State × Out
  | .new h dims batch vals =>
    withShape s dims batch fun sh =>
      if vals.length ≠ sh.size then (s, .err) else (allocInto s h sh vals, .ok)
  | .copy h g => copyOp s h g
  | .copyctor h g => copyOp s h g
  | .move h g =>
    match getSlot s.pool h with
    | none => (s, .noobj)
    | some v =>
      if h = g then (s, .ok)          -- `if (&src != this)`
      else (replace (replace s g (some v)) h (some .invalid), .ok)
  | .reshape h g dims batch =>
    match getSlot s.pool h with
    | none => (s, .noobj)
    | some _ => withShape s dims batch fun nsh => viewOp s h g (fun sh => ShapeOps.reshape sh nsh)
  | .flatten h g => viewOp s h g ShapeOps.flatten
  | .reset h k =>
    match getSlot s.pool h with
    | none => (s, .noobj)
    | some .invalid => (s, .err)
    | some (.valid _ _) => inplace1 s h (fun n D => fill n k D)
  | .resetv h vals =>
    match getSlot s.pool h with
    | none => (s, .noobj)
    | some .invalid => (s, .err)
    | some (.valid sh _) =>
      if vals.length ≠ sh.size then (s, .err) else inplace1 s h (fun n D => overwrite n vals D)
  | .iadd h g => inplace2 (· + ·) s h g
  | .isub h g => inplace2 (· - ·) s h g
  | .imul h k =>
    match getSlot s.pool h with
    | none => (s, .noobj)
    | some .invalid => (s, .err)
    | some (.valid _ _) => inplace1 s h (fun n D => scale n k D)
  | .invalidate h =>
    match getSlot s.pool h with
    | none => (s, .noobj)
    | some _ => (replace s h (some .invalid), .ok)
  | .drop h =>
    match getSlot s.pool h with
    | none => (s, .noobj)
    | some _ => (replace s h none, .ok)
  | .read h =>
    match getSlot s.pool h with
    | none => (s, .noobj)
    | some .invalid => (s, .err)
    | some (.valid sh b) =>
      match deref s sh b with
      | some D => (s, .vals sh (D.take sh.size))
      | none => (s, .crash)
  | .shape h =>
    match getSlot s.pool h with
    | none => (s, .noobj)
    | some .invalid => (s, .err)
    | some (.valid sh _) => (s, .shape sh)
  | .valid h =>
    match getSlot s.pool h with
    | none => (s, .noobj)
    | some .invalid => (s, .bool false)
    | some (.valid _ _) => (s, .bool true)
  | .device h =>
    match getSlot s.pool h with
    | none => (s, .noobj)
    | some .invalid => (s, .err)
    | some (.valid _ _) => (s, .ok)
  | .param p dims batch vals =>
    withShape s dims batch fun sh =>
      if vals.length ≠ sh.size then (s, .err)
      else if sh.hasBatch then (s, .err)
      else
        let s1 := allocInto s (vslot p) sh vals
        let s2 := allocInto s1 (gslot p) sh (List.replicate sh.size 0)
        ({ s2 with pvalid := setFlag s2.pvalid p true }, .ok)
  | .pvalue p g => if s.pvalid.getD p false then copyOp s (vslot p) g else (s, .err)
  | .pgrad p g => if s.pvalid.getD p false then copyOp s (gslot p) g else (s, .err)
  | .ptensor p g => if s.pvalid.getD p false then copyOp s (vslot p) g else (s, .err)
  | .piaddValue p g =>
    match getSlot s.pool g with
    | none => (s, .noobj)
    | some _ => if s.pvalid.getD p false then inplace2 (· + ·) s (vslot p) g else (s, .err)
  | .pdrop p =>
    let s1 := replace (replace s (vslot p) none) (gslot p) none
    ({ s1 with pvalid := setFlag s1.pvalid p false }, .ok)
  | .diadd h g => inplace2 (· + ·) s h g      -- Tensor::inplace_add is exactly this call
  | .disub h g => inplace2 (· - ·) s h g
  | .dimul h k =>
    match getSlot s.pool h with
    | none => (s, .noobj)
    | some .invalid => (s, .err)
    | some (.valid _ _) => inplace1 s h (fun n D => scale n k D)
  | .dsliceBw gy dim off gx => bwOp s gy gx (sliceBwOk dim off) (sliceBwK dim off)
  | .dpickBw gy dim ids gx =>
    bwOp s gy gx (pickBwOk dim ids) (fun sy sx D S => scatter (· + ·) (pickIdx sy sx dim ids) D S)
  | .dflipBw gy dim gx => bwOp s gy gx flipBwOk (fun _ sx D S => scatter (· + ·) (flipIdx sx dim) D S)
  | .dtransposeBw gy gx =>
    bwOp s gy gx transposeBwOk (fun sy sx D S => arith (· + ·) sx sx D (some (transposeData sy S)))
  | .daddBw gy ga gb => abBwOp (· + ·) s gy ga gb
  | .dsubBw gy ga gb => abBwOp (· - ·) s gy ga gb
  | .piaddGrad p g =>
    match getSlot s.pool g with
    | none => (s, .noobj)
    | some _ => if s.pvalid.getD p false then inplace2 (· + ·) s (gslot p) g else (s, .err)
  | .fcopy h g => freshOp s h g (fun sh => pure sh)
  | .fpositive h g =>                           -- `return x;` after the validity check
    match getSlot s.pool h with
    | none => (s, .noobj)
    | some .invalid => (s, .err)
    | some (.valid sh b) => (replace s g (some (.valid sh b)), .ok)
  | .fconcat1 h g dim => freshOp s h g (fun sh => ShapeOps.concat [sh] dim)
  | .fbconcat1 h g => freshOp s h g (fun sh => ShapeOps.batchConcat [sh])
  | .probe fn h =>
    match getSlot s.pool h with
    | none => (s, .noobj)
    | some .invalid => (s, .err)
    | some (.valid sh _) => if probeOk fn sh then (s, .ok) else (s, .err)
  | .live => (s, .nat (liveCount s))
  | .readall =>
    match readAllFrom s 0 s.pool with
    | some l => (s, .all l)
    | none => (s, .crash)

/-- a history: the states are threaded, the outputs collected -/
def run (s : State) : List Op → State × List Out
  | [] => (s, [])
  | op :: ops =>
    let r := step s op
    let r2 := run r.1 ops
    (r2.1, r.2 :: r2.2)

end Primitiv.Cow
