import PrimitivModel.Model.Shape
/-
Model of the sharing discipline of primitiv::Tensor (core/tensor.{h,cc}), of the
device front of the in-place operations (core/device.cc: reset_tensor*,
inplace_add/subtract/multiply_const, copy_tensor, new_tensor_by_vector), of the
Naive kernels of these operations (devices/naive/ops/{inplace_*,reset_tensor*,
copy_tensor,tensor_to_vector}.cc) and of the tensors a Parameter holds
(core/parameter.{h,cc}: init, value(), gradient(); tensor_funcs.cc:
parameter_tensor, reshape, flatten).

State of the model
* `heap`  : buffer id ↦ `(contents, use count)`; the entry of a freed buffer is
  `none`; a new buffer always gets the id `heap.length`, so ids are never
  reused and nothing observable depends on them (canonical numbering in order
  of allocation).  `std::shared_ptr<void> handle_` = buffer id, `use_count()` =
  the `rc` field.
* `pool`  : slot ↦ `none` (no Tensor object lives there) | `some invalid`
  (`device_ == nullptr`) | `some (valid shape buf)`.
  Slot `3h` is the free-standing Tensor object number `h` of the protocol,
  slots `3p+1`, `3p+2` are `value_` and `grad_` of Parameter number `p`.
* `pvalid`: `Parameter::valid()` of each parameter.

Element values are integers (the protocol keeps all floats exactly
representable).  Every state change is one of three primitives (`replace`,
`allocInto`, `writeBuf`).  A `shared_ptr` move (no change of the use count) is
modelled as copy followed by release of the source; the two have the same final
state and the model is only observed between API calls.

Tie to the code: correspondence (harness family `cow`, both CPU backends).
Core Lean only.
-/
namespace Primitiv.Cow

structure Buf where
  data : List Int
  rc : Nat
deriving Repr, DecidableEq, Inhabited

inductive Handle where
  | invalid
  | valid (sh : Shape) (buf : Nat)
deriving Repr, DecidableEq, Inhabited

/-- lookup in a slot list; positions past the end are empty -/
def getSlot {α} : List (Option α) → Nat → Option α
  | [], _ => none
  | o :: _, 0 => o
  | _ :: rest, i + 1 => getSlot rest i

/-- update of a slot list, extending it with empty slots when needed -/
def setSlot {α} : List (Option α) → Nat → Option α → List (Option α)
  | [], 0, v => [v]
  | [], i + 1, v => none :: setSlot [] i v
  | _ :: rest, 0, v => v :: rest
  | o :: rest, i + 1, v => o :: setSlot rest i v

structure State where
  heap : List (Option Buf)
  pool : List (Option Handle)
  pvalid : List Bool
deriving Repr, DecidableEq, Inhabited

def init : State := ⟨[], [], []⟩

/-- an abstract tensor value: `none` = invalid tensor -/
abbrev AVal := Option (Shape × List Int)

inductive Out where
  | ok | noobj | err | crash
  | vals (sh : Shape) (v : List Int)
  | shape (sh : Shape)
  | bool (b : Bool)
  | nat (n : Nat)
  | all (l : List (Nat × AVal))
deriving Repr, DecidableEq, Inhabited

/-! ### shared_ptr bookkeeping -/

/-- one more owner of buffer `b` -/
def incr (hp : List (Option Buf)) (b : Nat) : List (Option Buf) :=
  match getSlot hp b with
  | some bf => setSlot hp b (some { bf with rc := bf.rc + 1 })
  | none => hp

/-- one owner of buffer `b` goes away; the last one frees the buffer -/
def decr (hp : List (Option Buf)) (b : Nat) : List (Option Buf) :=
  match getSlot hp b with
  | some bf => if bf.rc ≤ 1 then setSlot hp b none else setSlot hp b (some { bf with rc := bf.rc - 1 })
  | none => hp

def bufOf : Option Handle → Option Nat
  | some (.valid _ b) => some b
  | _ => none

def incrO (hp : List (Option Buf)) : Option Nat → List (Option Buf)
  | some b => incr hp b
  | none => hp

def decrO (hp : List (Option Buf)) : Option Nat → List (Option Buf)
  | some b => decr hp b
  | none => hp

/-- The slot `dst` becomes `v` (which shares its buffer with an existing owner):
copy construction / copy assignment / destruction / `invalidate()`.  The new
owner is counted before the old one is released, as `shared_ptr::operator=`
does, so self-assignment is harmless. -/
def replace (s : State) (dst : Nat) (v : Option Handle) : State :=
  let hp1 := incrO s.heap (bufOf v)
  let hp2 := decrO hp1 (bufOf (getSlot s.pool dst))
  { s with heap := hp2, pool := setSlot s.pool dst v }

/-- A freshly allocated buffer with contents `vals` (owned by a temporary) is
move-assigned into (or move-constructed at) slot `dst`: `new_handle`, then the
old handle of `dst` is released. -/
def allocInto (s : State) (dst : Nat) (sh : Shape) (vals : List Int) : State :=
  let b := s.heap.length
  let hp1 := decrO s.heap (bufOf (getSlot s.pool dst))
  { s with heap := hp1 ++ [some ⟨vals, 1⟩], pool := setSlot s.pool dst (some (.valid sh b)) }

def writeBuf (hp : List (Option Buf)) (b : Nat) (d : List Int) : List (Option Buf) :=
  match getSlot hp b with
  | some bf => setSlot hp b (some { bf with data := d })
  | none => hp

/-- Contents of the buffer behind a valid handle of shape `sh`; `none` where the
code as written would touch freed memory or run past the end of the buffer. -/
def deref (s : State) (sh : Shape) (b : Nat) : Option (List Int) :=
  match getSlot s.heap b with
  | some bf => if sh.size ≤ bf.data.length then some bf.data else none
  | none => none

/-- `Tensor::mutable_handle()` (tensor.cc:33-41): when the buffer is shared
(`use_count() > 1`) the tensor first becomes a private copy of itself
(`*this = device_->copy_tensor(*this)`: `shape.size()` elements are copied into
a new buffer, the old handle is released). -/
def mutableHandle (s : State) (h : Nat) : State :=
  match getSlot s.pool h with
  | some (.valid sh b) =>
    match getSlot s.heap b with
    | some bf => if bf.rc > 1 then allocInto s h sh (bf.data.take sh.size) else s
    | none => s
  | _ => s

/-! ### kernels (devices/naive/ops) -/

/-- the `(dest index, src index)` pairs visited by the two nested loops of
`inplace_add_impl` / `inplace_subtract_impl`, in order -/
def kernelIdx (vol bs skipD skipS : Nat) : List (Nat × Nat) :=
  (List.range bs).flatMap fun b => (List.range vol).map fun i => (b * skipD + i, b * skipS + i)

/-- `dest[pd] = f(dest[pd], src[ps])`; `src = none` means that the source pointer
equals the destination pointer (the same buffer) -/
def kstep (f : Int → Int → Int) (src : Option (List Int)) (dest : List Int) (p : Nat × Nat) : List Int :=
  dest.set p.1 (f (dest.getD p.1 0) ((src.getD dest).getD p.2 0))

def kernel (f : Int → Int → Int) (vol bs skipD skipS : Nat) (dest : List Int) (src : Option (List Int)) : List Int :=
  (kernelIdx vol bs skipD skipS).foldl (kstep f src) dest

def skipOf (s : Shape) : Nat := if s.hasBatch then s.volume else 0

/-- what `y (op)= x` stores in `y`'s buffer (contents `D`), `x`'s contents being `src` -/
def arith (f : Int → Int → Int) (sy sx : Shape) (D : List Int) (src : Option (List Int)) : List Int :=
  kernel f sy.volume (max sx.batch sy.batch) (skipOf sy) (skipOf sx) D src

def fill (n : Nat) (k : Int) (D : List Int) : List Int := List.replicate n k ++ D.drop n
def overwrite (n : Nat) (vals : List Int) (D : List Int) : List Int := vals.take n ++ D.drop n
def scale (n : Nat) (k : Int) (D : List Int) : List Int := (D.take n).map (· * k) ++ D.drop n

/-- the body shared by `reset`, `reset_by_vector`, `*=`: `MDATA(x)` and then a
loop over `shape.size()` elements -/
def inplace1 (s : State) (h : Nat) (f : Nat → List Int → List Int) : State × Out :=
  let s1 := mutableHandle s h
  match getSlot s1.pool h with
  | some (.valid sh b) =>
    match deref s1 sh b with
    | some D => ({ s1 with heap := writeBuf s1.heap b (f sh.size D) }, .ok)
    | none => (s1, .crash)
  | _ => (s1, .crash)

/-- `y.inplace_add(x)` / `y.inplace_subtract(x)` with `y` in slot `h`, `x` in slot
`g`: Tensor::inplace_add → Device::inplace_add (validity of both, shape
precondition) → kernel (`MDATA(y)` first, `CDATA(x)` second). -/
def inplace2 (f : Int → Int → Int) (s : State) (h g : Nat) : State × Out :=
  match getSlot s.pool h, getSlot s.pool g with
  | some hy, some hx =>
    match hy, hx with
    | .valid sy _, .valid sx _ =>
      if !sx.hasSameDims sy || !sx.hasCompatibleBatch sy then (s, .err) else
      let s1 := mutableHandle s h
      match getSlot s1.pool h, getSlot s1.pool g with
      | some (.valid _ bd), some (.valid _ bsrc) =>
        match deref s1 sy bd, deref s1 sx bsrc with
        | some D, some S =>
          let src := if bd = bsrc then none else some S
          ({ s1 with heap := writeBuf s1.heap bd (arith f sy sx D src) }, .ok)
        | _, _ => (s1, .crash)
      | _, _ => (s1, .crash)
    | _, _ => (s, .err)
  | _, _ => (s, .noobj)

/-! ### operations of the protocol -/

inductive Op where
  | new (h : Nat) (dims : List Nat) (batch : Nat) (vals : List Int)
  | copy (h g : Nat)
  | copyctor (h g : Nat)
  | move (h g : Nat)
  | reshape (h g : Nat) (dims : List Nat) (batch : Nat)
  | flatten (h g : Nat)
  | reset (h : Nat) (k : Int)
  | resetv (h : Nat) (vals : List Int)
  | iadd (h g : Nat)
  | isub (h g : Nat)
  | imul (h : Nat) (k : Int)
  | invalidate (h : Nat)
  | drop (h : Nat)
  | read (h : Nat)
  | shape (h : Nat)
  | valid (h : Nat)
  | device (h : Nat)
  | param (p : Nat) (dims : List Nat) (batch : Nat) (vals : List Int)
  | pvalue (p g : Nat)
  | pgrad (p g : Nat)
  | ptensor (p g : Nat)
  | piaddValue (p g : Nat)
  | pdrop (p : Nat)
  | live
  | readall
deriving Repr, DecidableEq, Inhabited

def vslot (p : Nat) : Nat := 3 * p + 1
def gslot (p : Nat) : Nat := 3 * p + 2

def setFlag (l : List Bool) (i : Nat) (v : Bool) : List Bool :=
  if i < l.length then l.set i v else l ++ List.replicate (i - l.length) false ++ [v]

/-- `g = h` / `Tensor g(h)`: the target shares the buffer of the source -/
def copyOp (s : State) (h g : Nat) : State × Out :=
  match getSlot s.pool h with
  | none => (s, .noobj)
  | some v => (replace s g (some v), .ok)

/-- `Shape(dims, batch)` followed by `k`; a throwing constructor is `err` -/
def withShape (s : State) (dims : List Nat) (batch : Nat) (k : Shape → State × Out) : State × Out :=
  match Shape.new dims batch with
  | .error .crash => (s, .crash)
  | .error .error => (s, .err)
  | .ok sh => k sh

/-- `g = h.<view>()` where the view keeps the handle and changes the shape -/
def viewOp (s : State) (h g : Nat) (rule : Shape → R Shape) : State × Out :=
  match getSlot s.pool h with
  | none => (s, .noobj)
  | some .invalid => (s, .err)
  | some (.valid sh b) =>
    match rule sh with
    | .error .crash => (s, .crash)
    | .error .error => (s, .err)
    | .ok rsh => (replace s g (some (.valid rsh b)), .ok)

def liveCount (s : State) : Nat := (s.heap.filter Option.isSome).length

/-- what `readall` shows of one slot -/
def viewSlot (s : State) : Option Handle → Option (Option AVal)
  | none => some none               -- no object: nothing to show (filtered out)
  | some .invalid => some (some none)
  | some (.valid sh b) =>
    match deref s sh b with
    | some D => some (some (some (sh, D.take sh.size)))
    | none => none                  -- use after free / overrun

def readAllFrom (s : State) : Nat → List (Option Handle) → Option (List (Nat × AVal))
  | _, [] => some []
  | i, o :: rest =>
    match viewSlot s o, readAllFrom s (i + 1) rest with
    | some none, some l => some l
    | some (some v), some l => some ((i, v) :: l)
    | _, _ => none

def step (s : State) : Op → State × Out
  | .new h dims batch vals =>
    withShape s dims batch fun sh =>
      if vals.length ≠ sh.size then (s, .err) else (allocInto s h sh vals, .ok)
  | .copy h g => copyOp s h g
  | .copyctor h g => copyOp s h g
  | .move h g =>
    match getSlot s.pool h with
    | none => (s, .noobj)
    | some v =>
      if h = g then (s, .ok)          -- `if (&src != this)`
      else (replace (replace s g (some v)) h (some .invalid), .ok)
  | .reshape h g dims batch =>
    match getSlot s.pool h with
    | none => (s, .noobj)
    | some _ => withShape s dims batch fun nsh => viewOp s h g (fun sh => ShapeOps.reshape sh nsh)
  | .flatten h g => viewOp s h g ShapeOps.flatten
  | .reset h k =>
    match getSlot s.pool h with
    | none => (s, .noobj)
    | some .invalid => (s, .err)
    | some (.valid _ _) => inplace1 s h (fun n D => fill n k D)
  | .resetv h vals =>
    match getSlot s.pool h with
    | none => (s, .noobj)
    | some .invalid => (s, .err)
    | some (.valid sh _) =>
      if vals.length ≠ sh.size then (s, .err) else inplace1 s h (fun n D => overwrite n vals D)
  | .iadd h g => inplace2 (· + ·) s h g
  | .isub h g => inplace2 (· - ·) s h g
  | .imul h k =>
    match getSlot s.pool h with
    | none => (s, .noobj)
    | some .invalid => (s, .err)
    | some (.valid _ _) => inplace1 s h (fun n D => scale n k D)
  | .invalidate h =>
    match getSlot s.pool h with
    | none => (s, .noobj)
    | some _ => (replace s h (some .invalid), .ok)
  | .drop h =>
    match getSlot s.pool h with
    | none => (s, .noobj)
    | some _ => (replace s h none, .ok)
  | .read h =>
    match getSlot s.pool h with
    | none => (s, .noobj)
    | some .invalid => (s, .err)
    | some (.valid sh b) =>
      match deref s sh b with
      | some D => (s, .vals sh (D.take sh.size))
      | none => (s, .crash)
  | .shape h =>
    match getSlot s.pool h with
    | none => (s, .noobj)
    | some .invalid => (s, .err)
    | some (.valid sh _) => (s, .shape sh)
  | .valid h =>
    match getSlot s.pool h with
    | none => (s, .noobj)
    | some .invalid => (s, .bool false)
    | some (.valid _ _) => (s, .bool true)
  | .device h =>
    match getSlot s.pool h with
    | none => (s, .noobj)
    | some .invalid => (s, .err)
    | some (.valid _ _) => (s, .ok)
  | .param p dims batch vals =>
    withShape s dims batch fun sh =>
      if vals.length ≠ sh.size then (s, .err)
      else if sh.hasBatch then (s, .err)
      else
        let s1 := allocInto s (vslot p) sh vals
        let s2 := allocInto s1 (gslot p) sh (List.replicate sh.size 0)
        ({ s2 with pvalid := setFlag s2.pvalid p true }, .ok)
  | .pvalue p g => if s.pvalid.getD p false then copyOp s (vslot p) g else (s, .err)
  | .pgrad p g => if s.pvalid.getD p false then copyOp s (gslot p) g else (s, .err)
  | .ptensor p g => if s.pvalid.getD p false then copyOp s (vslot p) g else (s, .err)
  | .piaddValue p g =>
    match getSlot s.pool g with
    | none => (s, .noobj)
    | some _ => if s.pvalid.getD p false then inplace2 (· + ·) s (vslot p) g else (s, .err)
  | .pdrop p =>
    let s1 := replace (replace s (vslot p) none) (gslot p) none
    ({ s1 with pvalid := setFlag s1.pvalid p false }, .ok)
  | .live => (s, .nat (liveCount s))
  | .readall =>
    match readAllFrom s 0 s.pool with
    | some l => (s, .all l)
    | none => (s, .crash)

/-- a history: the states are threaded, the outputs collected -/
def run (s : State) : List Op → State × List Out
  | [] => (s, [])
  | op :: ops =>
    let r := step s op
    let r2 := run r.1 ops
    (r2.1, r.2 :: r2.2)

end Primitiv.Cow
