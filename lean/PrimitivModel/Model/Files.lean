import PrimitivModel.Model.Shape
import PrimitivModel.Model.Msgpack
/-
Model of primitiv's file layer: `Parameter::save/load/save_inner/load_inner`
with `read_shape/read_tensor/write_shape/write_tensor` (core/parameter.cc),
`Model::save/load` (core/model.cc), `Optimizer::save/load/get_configs/set_configs`
(core/optimizer.cc, core/optimizer_impl.cc) and core/file_format.h, on top of
the MessagePack model.

* A float is its bit pattern (`UInt32`); a tensor is a shape and the words in
  memory order (column-major, batch last) — `to_vector()` / `new_tensor_by_array`
  copy the words unchanged; the file holds them little-endian inside a `bin`.
* `load` builds temporaries and commits them at the end; the functions below
  return the error (if any) *and* the state after the call, so that what a
  failing load leaves behind is explicit.
* Order of reads and checks is the code's.
* `save`: the repaired code (patches/fix-save-stream) flushes and examines the
  stream after writing; `saveTo` models that.  The pinned tree returns normally
  whatever happened to the stream.

Tie to the code: correspondence (harness family `files`).  Core Lean only.
-/
namespace Primitiv.Files
open Primitiv Primitiv.Msgpack

/-! ### core/file_format.h -/

def versionMajor : Nat := 0
def versionMinor : Nat := 1

inductive DataType where
  | shape | tensor | parameter | model | optimizer
deriving DecidableEq, Repr

def DataType.tag : DataType → Nat
  | .shape => 0x0
  | .tensor => 0x100
  | .parameter => 0x200
  | .model => 0x300
  | .optimizer => 0x400

/-- the three `writer <<` of every `save` -/
def writeHeader (dt : DataType) : Bytes :=
  nat32.enc versionMajor ++ nat32.enc versionMinor ++ nat32.enc dt.tag

/-- `reader >> major >> minor; assert_version; reader >> datatype; assert_datatype` -/
def readHeader (dt : DataType) (bs : Bytes) : Res Unit :=
  (nat32.dec bs).bind fun major r => (nat32.dec r).bind fun minor r' =>
    if major ≠ versionMajor ∨ minor ≠ versionMinor then .error .invalid
    else (nat32.dec r').bind fun observed r'' =>
      if observed ≠ dt.tag then .error .invalid else .ok () r''

/-! ### Shape and Tensor records (parameter.cc, anonymous namespace) -/

/-- `write_shape`: `writer << src.dims() << src.batch()` -/
def writeShape (s : Shape) : Bytes := (arr nat32).enc s.dims ++ nat32.enc s.batch

/-- `read_shape`: `reader >> dims >> batch; return Shape(dims, batch);` -/
def readShape (bs : Bytes) : Res Shape :=
  ((arr nat32).dec bs).bind fun dims r => (nat32.dec r).bind fun batch r' =>
    match Shape.new dims batch with
    | .ok s => .ok s r'
    | .error _ => .error .invalid

def shapeC : Codec Shape := ⟨writeShape, readShape, fun _ => true⟩

/-- A tensor: its shape and its `shape.size()` float words in memory order. -/
structure Tensor where
  shape : Shape
  data : List UInt32
deriving DecidableEq, Repr

/-- little-endian bytes of one float (x86-64 memory image) -/
def leBytes (w : UInt32) : Bytes :=
  [w.toNat % 256, w.toNat / 256 % 256, w.toNat / 65536 % 256, w.toNat / 16777216 % 256]

def wordsToBytes (ws : List UInt32) : Bytes := ws.flatMap leBytes

def bytesToWords : Bytes → List UInt32
  | a :: b :: c :: d :: r => UInt32.ofNat (a + b * 256 + c * 65536 + d * 16777216) :: bytesToWords r
  | _ => []

/-- `write_tensor`: shape, then `Binary(shape.size() * sizeof(float), raw_data)` -/
def writeTensor (t : Tensor) : Bytes := writeShape t.shape ++ bin.enc (wordsToBytes t.data)

/-- `read_tensor`: shape, bin, `data.size() != shape.size() * sizeof(float)` → Error,
`new_tensor_by_array` -/
def readTensor (bs : Bytes) : Res Tensor :=
  (readShape bs).bind fun shape r => (bin.dec r).bind fun data r' =>
    if data.length ≠ shape.size * 4 then .error .invalid
    else .ok ⟨shape, bytesToWords data⟩ r'

def tensorC : Codec Tensor := ⟨writeTensor, readTensor, fun t => bin.fits (wordsToBytes t.data)⟩

def Tensor.zeros (s : Shape) : Tensor := ⟨s, List.replicate s.size 0⟩

/-! ### Parameter -/

/-- the device instances of the harness: two `devices::Naive` objects and one `devices::Eigen` -/
inductive Dev where
  | naive | eigen | naive2
deriving DecidableEq, Repr

/-- The fields of a valid `Parameter` (`device_ != nullptr`). -/
structure Param where
  shape : Shape
  dev : Dev
  value : Tensor
  grad : Tensor
  /-- `stats_` in iteration order (an `unordered_map`: any order, keys distinct) -/
  stats : List (Bytes × Tensor)
deriving DecidableEq, Repr

/-- a `Parameter` object: `none` = invalid (default constructed) -/
abbrev PState := Option Param

def statC : Codec (Bytes × Tensor) := pair str tensorC

/-- `Parameter::save_inner` -/
def saveInner (p : Param) (withStats : Bool) : Bytes :=
  writeTensor p.value ++
    (if withStats then nat32.enc p.stats.length ++ encList statC p.stats else nat32.enc 0)

/-- does any `writer <<` of `save_inner` throw? (a str or bin of 2^32 bytes or more) -/
def saveInnerFits (p : Param) (withStats : Bool) : Bool :=
  tensorC.fits p.value && (!withStats || p.stats.all statC.fits)

/-- the loop of `load_inner` over the statistics records: every record is read,
and kept (with `emplace`) only when `with_stats` -/
def readStats (withStats : Bool) : Nat → Bytes → List (Bytes × Tensor) → Res (List (Bytes × Tensor))
  | 0, bs, acc => .ok acc bs
  | n + 1, bs, acc =>
    (str.dec bs).bind fun key r => (readTensor r).bind fun t r' =>
      readStats withStats n r' (if withStats then emplace acc (key, t) else acc)

/-- `Parameter::load_inner` up to the commit: the temporaries, as the new field values. -/
def loadInner (bs : Bytes) (withStats : Bool) (dev : Dev) : Res Param :=
  (readTensor bs).bind fun value r => (nat32.dec r).bind fun n r' =>
    (readStats withStats n r' []).bind fun stats r'' =>
      -- grad_temp = zeros(shape_temp); assert_shape(value_temp, grad_temp)
      if value.shape.hasBatch then .error .invalid
      else .ok ⟨value.shape, dev, value, Tensor.zeros value.shape, stats⟩ r''

/-- `Parameter::save`: the bytes written when nothing fails; `none` = Error thrown
before or while producing them (invalid parameter, oversized str/bin). -/
def Param.save (p : PState) (withStats : Bool) : Option Bytes :=
  match p with
  | none => none
  | some p => if saveInnerFits p withStats then some (writeHeader .parameter ++ saveInner p withStats) else none

/-- everything `Parameter::load` reads before the commit: header, then `load_inner` -/
def Param.parse (file : Bytes) (withStats : Bool) (dev : Dev) : Res Param :=
  (readHeader .parameter file).bind fun _ r => loadInner r withStats dev

/-- the commit at the end of `load_inner` ("Loading succeeded. Move all data to `this`"),
or the exception that leaves `this` untouched.  Bytes after the record are not looked at. -/
def commitParam (old : PState) : Res Param → Option DErr × PState
  | .ok p _ => (none, some p)
  | .error e => (some e, old)

/-- `Parameter::load` of a readable file: error (if any) and the object afterwards. -/
def Param.load (old : PState) (file : Bytes) (withStats : Bool) (dev : Dev) : Option DErr × PState :=
  commitParam old (Param.parse file withStats dev)

/-! ### Model: `get_all_parameters()` is a map path ↦ Parameter -/

abbrev Path := List Bytes
abbrev MState := List (Path × PState)

def pathC : Codec Path := arr str

/-- `std::vector<std::string>::operator<` (lexicographic, strings by unsigned bytes) -/
def pathLt : Path → Path → Bool
  | [], [] => false
  | [], _ :: _ => true
  | _ :: _, [] => false
  | a :: as, b :: bs => if bytesLt a b then true else if bytesLt b a then false else pathLt as bs

/-- iteration order of the `std::map` returned by `get_all_parameters()` -/
def sortEntries {α : Type} (m : List (Path × α)) : List (Path × α) :=
  m.mergeSort fun a b => !pathLt b.1 a.1

def entryBytes (withStats : Bool) (e : Path × Param) : Bytes := pathC.enc e.1 ++ saveInner e.2 withStats

/-- everything `Model::save` writes after the header, for the entries in the given order -/
def modelBody (es : List (Path × Param)) (withStats : Bool) : Bytes :=
  nat32.enc es.length ++ es.flatMap (entryBytes withStats)

/-- all parameters valid? (`save_inner` of an invalid one throws) -/
def allValid : MState → Option (List (Path × Param))
  | [] => some []
  | (k, some p) :: r => (allValid r).map fun l => (k, p) :: l
  | (_, none) :: _ => none

/-- `Model::save` -/
def Model.save (m : MState) (withStats : Bool) : Option Bytes :=
  match allValid (sortEntries m) with
  | none => none
  | some es =>
    if es.all (fun e => pathC.fits e.1 && saveInnerFits e.2 withStats)
    then some (writeHeader .model ++ modelBody es withStats) else none

def setParam (st : MState) (key : Path) (p : Param) : MState :=
  st.map fun e => if e.1 = key then (e.1, some p) else e

/-- the loop of `Model::load`: `reader >> key; params.find(key); load_inner(...)`.
Parameters whose records were read completely before a failure stay replaced. -/
def loadEntries (withStats : Bool) (dev : Dev) : Nat → Bytes → MState → Option DErr × MState
  | 0, _, st => (none, st)
  | n + 1, bs, st =>
    match pathC.dec bs with
    | .error e => (some e, st)
    | .ok key r =>
      if !st.any (fun e => e.1 = key) then (some .invalid, st)
      else match loadInner r withStats dev with
        | .error e => (some e, st)
        | .ok p r' => loadEntries withStats dev n r' (setParam st key p)

/-- header and `reader >> num_params` -/
def Model.parseCount (file : Bytes) : Res Nat :=
  (readHeader .model file).bind fun _ r => nat32.dec r

def Model.loadFrom (old : MState) (withStats : Bool) (dev : Dev) : Res Nat → Option DErr × MState
  | .error e => (some e, old)
  | .ok n r => loadEntries withStats dev n r old

/-- `Model::load` of a readable file -/
def Model.load (old : MState) (file : Bytes) (withStats : Bool) (dev : Dev) : Option DErr × MState :=
  Model.loadFrom old withStats dev (Model.parseCount file)

/-! ### Optimizer -/

inductive OptKind where
  | sgd | momentumSGD | adaGrad | rmsProp | adaDelta | adam
deriving DecidableEq, Repr

/-- "Optimizer.epoch" -/
def kOptimizer_epoch : Bytes := [79, 112, 116, 105, 109, 105, 122, 101, 114, 46, 101, 112, 111, 99, 104]
/-- "Optimizer.lr_scale" -/
def kOptimizer_lr_scale : Bytes := [79, 112, 116, 105, 109, 105, 122, 101, 114, 46, 108, 114, 95, 115, 99, 97, 108, 101]
/-- "Optimizer.l2_strength" -/
def kOptimizer_l2_strength : Bytes := [79, 112, 116, 105, 109, 105, 122, 101, 114, 46, 108, 50, 95, 115, 116, 114, 101, 110, 103, 116, 104]
/-- "Optimizer.clip_threshold" -/
def kOptimizer_clip_threshold : Bytes := [79, 112, 116, 105, 109, 105, 122, 101, 114, 46, 99, 108, 105, 112, 95, 116, 104, 114, 101, 115, 104, 111, 108, 100]
/-- "SGD.eta" -/
def kSGD_eta : Bytes := [83, 71, 68, 46, 101, 116, 97]
/-- "MomentumSGD.eta" -/
def kMomentumSGD_eta : Bytes := [77, 111, 109, 101, 110, 116, 117, 109, 83, 71, 68, 46, 101, 116, 97]
/-- "MomentumSGD.momentum" -/
def kMomentumSGD_momentum : Bytes := [77, 111, 109, 101, 110, 116, 117, 109, 83, 71, 68, 46, 109, 111, 109, 101, 110, 116, 117, 109]
/-- "AdaGrad.eta" -/
def kAdaGrad_eta : Bytes := [65, 100, 97, 71, 114, 97, 100, 46, 101, 116, 97]
/-- "AdaGrad.eps" -/
def kAdaGrad_eps : Bytes := [65, 100, 97, 71, 114, 97, 100, 46, 101, 112, 115]
/-- "RMSProp.eta" -/
def kRMSProp_eta : Bytes := [82, 77, 83, 80, 114, 111, 112, 46, 101, 116, 97]
/-- "RMSProp.alpha" -/
def kRMSProp_alpha : Bytes := [82, 77, 83, 80, 114, 111, 112, 46, 97, 108, 112, 104, 97]
/-- "RMSProp.eps" -/
def kRMSProp_eps : Bytes := [82, 77, 83, 80, 114, 111, 112, 46, 101, 112, 115]
/-- "AdaDelta.rho" -/
def kAdaDelta_rho : Bytes := [65, 100, 97, 68, 101, 108, 116, 97, 46, 114, 104, 111]
/-- "AdaDelta.eps" -/
def kAdaDelta_eps : Bytes := [65, 100, 97, 68, 101, 108, 116, 97, 46, 101, 112, 115]
/-- "Adam.alpha" -/
def kAdam_alpha : Bytes := [65, 100, 97, 109, 46, 97, 108, 112, 104, 97]
/-- "Adam.beta1" -/
def kAdam_beta1 : Bytes := [65, 100, 97, 109, 46, 98, 101, 116, 97, 49]
/-- "Adam.beta2" -/
def kAdam_beta2 : Bytes := [65, 100, 97, 109, 46, 98, 101, 116, 97, 50]
/-- "Adam.eps" -/
def kAdam_eps : Bytes := [65, 100, 97, 109, 46, 101, 112, 115]

/-- float config keys of each algorithm, in the order of `get_configs` -/
def OptKind.keys : OptKind → List Bytes
  | .sgd => [kSGD_eta]
  | .momentumSGD => [kMomentumSGD_eta, kMomentumSGD_momentum]
  | .adaGrad => [kAdaGrad_eta, kAdaGrad_eps]
  | .rmsProp => [kRMSProp_eta, kRMSProp_alpha, kRMSProp_eps]
  | .adaDelta => [kAdaDelta_rho, kAdaDelta_eps]
  | .adam => [kAdam_alpha, kAdam_beta1, kAdam_beta2, kAdam_eps]

/-- The settings of an optimizer: the fields of `Optimizer` and the
hyperparameters of the algorithm (`hyper`, as many as `kind.keys`). -/
structure Opt where
  kind : OptKind
  epoch : UInt32
  lrScale : UInt32
  l2 : UInt32
  clip : UInt32
  hyper : List UInt32
deriving DecidableEq, Repr

/-- `get_configs`: entries of `uint_configs` -/
def Opt.uintConfigs (o : Opt) : List (Bytes × UInt32) := [(kOptimizer_epoch, o.epoch)]

/-- `get_configs`: entries of `float_configs` -/
def Opt.floatConfigs (o : Opt) : List (Bytes × UInt32) :=
  [(kOptimizer_lr_scale, o.lrScale), (kOptimizer_l2_strength, o.l2), (kOptimizer_clip_threshold, o.clip)] ++
    o.kind.keys.zip o.hyper

def uintMapC : Codec (List (Bytes × UInt32)) := map str u32
def floatMapC : Codec (List (Bytes × UInt32)) := map str f32

/-- `SET_CONFIG(dest, cfg, key)` -/
def setConfig (dest : UInt32) (cfg : List (Bytes × UInt32)) (key : Bytes) : UInt32 :=
  match cfg.lookup key with
  | some v => v
  | none => dest

def setHyper : List Bytes → List UInt32 → List (Bytes × UInt32) → List UInt32
  | k :: ks, h :: hs, cfg => setConfig h cfg k :: setHyper ks hs cfg
  | _, hs, _ => hs

/-- `set_configs` (base class, then the algorithm's own keys) -/
def Opt.setConfigs (o : Opt) (uc fc : List (Bytes × UInt32)) : Opt :=
  { o with
    epoch := setConfig o.epoch uc kOptimizer_epoch
    lrScale := setConfig o.lrScale fc kOptimizer_lr_scale
    l2 := setConfig o.l2 fc kOptimizer_l2_strength
    clip := setConfig o.clip fc kOptimizer_clip_threshold
    hyper := setHyper o.kind.keys o.hyper fc }

/-- `Optimizer::save` -/
def Opt.save (o : Opt) : Bytes :=
  writeHeader .optimizer ++ uintMapC.enc o.uintConfigs ++ floatMapC.enc o.floatConfigs

/-- header and `reader >> uint_configs >> float_configs` -/
def Opt.parse (file : Bytes) : Res (List (Bytes × UInt32) × List (Bytes × UInt32)) :=
  (readHeader .optimizer file).bind fun _ r => (uintMapC.dec r).bind fun uc r' =>
    (floatMapC.dec r').bind fun fc r'' => .ok (uc, fc) r''

/-- `set_configs` after both maps were read, or the exception before it -/
def commitOpt (old : Opt) : Res (List (Bytes × UInt32) × List (Bytes × UInt32)) → Option DErr × Opt
  | .ok cfg _ => (none, old.setConfigs cfg.1 cfg.2)
  | .error e => (some e, old)

/-- `Optimizer::load` of a readable file -/
def Opt.load (old : Opt) (file : Bytes) : Option DErr × Opt := commitOpt old (Opt.parse file)

/-! ### Writing to a file that may fail -/

/-- What the output file can take: it cannot be opened; or it accepts `n` bytes
and then every write fails (`/dev/full` is `capacity 0`). -/
inductive Sink where
  | unopenable
  | capacity (n : Nat)
deriving Repr

def Sink.accepts : Sink → Bytes → Bool
  | .unopenable, _ => false
  | .capacity n, bs => decide (bs.length ≤ n)

/-- `save(path)` of the repaired code: `none` (the bytes to write could not be
produced) and a sink that does not take all bytes both end in an Error. `true` = returned normally. -/
def saveTo (bytes : Option Bytes) (sink : Sink) : Bool :=
  match bytes with
  | none => false
  | some bs => sink.accepts bs

end Primitiv.Files
