/-
Model of primitiv::Graph (core/graph.cc): `add_operator`, the recursive
memoised `forward` and the reverse sweep `backward`, statement by statement.

The model is generic in the tensor type `τ` (only `zeros`, `ones` and `add`
are needed by graph.cc itself) so that the *same definitions* are
 * executed by the driver at `τ = List Int` against the real library
   (harness family `graph`, user-defined operators through
   `Graph::add_operator`), and
 * reasoned about in Props/C05, C06 and C01 (memoisation, accumulation, and
   "the reverse sweep is the transpose of forward mode").

Shapes are abstracted to an element count (`size`); shape inference is C09's
and C04's business.  Core Lean only.
-/
namespace Primitiv.Graph

/-- What graph.cc needs from tensors. -/
structure TOps (τ : Type) where
  zeros : Nat → τ
  ones : Nat → τ
  add : τ → τ → τ

/-- Address of a node: operator id and index among its return values. -/
structure Addr where
  oid : Nat
  vid : Nat
deriving DecidableEq, Repr, Inhabited

/-- Semantics of an operator that computes its value in `forward`.
`bwd xs ys gys` returns, per argument, the contribution that the C++ rule
*adds* into that argument's gradient accumulator (`*gx[i] += …`), in argument
order; `none` means the rule does not touch that accumulator.
`fwd` may fail (`none` = the operator's forward throws, e.g. a device
allocation failure): then no return value is stored. -/
structure OpSem (τ : Type) where
  nret : Nat
  fwd : List τ → Option (List τ)
  bwd : List τ → List τ → List τ → List (Option τ)
  /-- whether the fault-injection schedule (`State.failIn`) applies to this
  operator's forward (the harness can only make its own operators fail) -/
  faulty : Bool := true

inductive Kind (τ : Type) where
  /-- operators::Parameter: has inner values (the live parameter value);
  backward adds `gy[0]` into the parameter's gradient. -/
  | param (p : Nat)
  /-- any operator without inner values -/
  | op (sem : OpSem τ)
  /-- a random source: forward takes the next sample of the device stream -/
  | rnd

structure NodeInfo (τ : Type) where
  size : Nat
  value : Option τ := none
  grad : Option τ := none

structure OpInfo (τ : Type) where
  kind : Kind τ
  args : List Addr
  rets : List (NodeInfo τ)

/-- Parameters live outside graphs and are shared by them. -/
structure Params (τ : Type) where
  value : Nat → τ
  grad : Nat → τ

/-- One graph plus everything its evaluation can touch. -/
structure State (τ : Type) where
  ops : List (OpInfo τ)
  params : Params τ
  /-- ids of the operators whose `forward` was executed, oldest first -/
  log : List Nat := []
  /-- position of the random stream -/
  rndPos : Nat := 0
  /-- the stream itself: sample number ↦ tensor of the requested size -/
  sample : Nat → Nat → τ
  /-- fault injection: `some k` = the (k+1)-th operator `forward` from now
  throws (a failing device allocation); `none` = no failure scheduled -/
  failIn : Option Nat := none

inductive Err where
  | error   -- primitiv::Error (or an exception thrown by an operator)
  | crash   -- behaviour that the C++ leaves undefined / std::abort
deriving DecidableEq, Repr, Inhabited

variable {τ : Type}

def setAt {α} (l : List α) (i : Nat) (a : α) : List α := l.set i a

def State.op? (s : State τ) (oid : Nat) : Option (OpInfo τ) := s.ops[oid]?

def State.node? (s : State τ) (a : Addr) : Option (NodeInfo τ) :=
  match s.ops[a.oid]? with
  | some o => o.rets[a.vid]?
  | none => none

def updRet (o : OpInfo τ) (vid : Nat) (f : NodeInfo τ → NodeInfo τ) : OpInfo τ :=
  match o.rets[vid]? with
  | some n => { o with rets := o.rets.set vid (f n) }
  | none => o

def State.updNode (s : State τ) (a : Addr) (f : NodeInfo τ → NodeInfo τ) : State τ :=
  match s.ops[a.oid]? with
  | some o => { s with ops := s.ops.set a.oid (updRet o a.vid f) }
  | none => s

/-- `CHECK_NODE` for a node of this graph (graph identity is checked by the caller). -/
def State.validAddr (s : State τ) (a : Addr) : Bool :=
  match s.ops[a.oid]? with
  | some o => decide (a.vid < o.rets.length)
  | none => false

/-! ### add_operator -/

/-- `Graph::add_operator` after the arity and device checks: the arguments
must be nodes of this graph; shape inference has produced `sizes`. -/
def addOperator (s : State τ) (kind : Kind τ) (args : List Addr) (sizes : List Nat) : Except Err (State τ × Nat) :=
  if args.all s.validAddr then
    let rets := sizes.map fun n => ({ size := n } : NodeInfo τ)
    .ok ({ s with ops := s.ops ++ [{ kind := kind, args := args, rets := rets }] }, s.ops.length)
  else .error .crash   -- CHECK_NODE aborts

/-! ### forward -/

/-- The value a consumer sees for node `a` *without* evaluating anything:
inner value of a Parameter operator, or the memoised value. -/
def State.valueOf? (s : State τ) (a : Addr) : Option τ :=
  match s.ops[a.oid]? with
  | none => none
  | some o =>
    match o.kind with
    | .param p => if a.vid = 0 then some (s.params.value p) else none
    | _ => match o.rets[a.vid]? with
      | some n => n.value
      | none => none

/-- store all return values of operator `oid` -/
def State.storeValues (s : State τ) (oid : Nat) (vals : List τ) : State τ :=
  match s.ops[oid]? with
  | none => s
  | some o =>
    let rets := o.rets.zipIdx.map fun (n, i) =>
      match vals[i]? with
      | some v => { n with value := some v }
      | none => n
    { s with ops := s.ops.set oid { o with rets := rets } }

/-- evaluate the arguments left to right with the given evaluator; an error
stops the evaluation but keeps the state reached so far (values memoised
before the failure stay memoised, as in the C++) -/
def forwardArgsWith (ev : State τ → Addr → State τ × Except Err τ) :
    State τ → List Addr → State τ × Except Err (List τ)
  | s, [] => (s, .ok [])
  | s, a :: rest =>
    match ev s a with
    | (s1, .error e) => (s1, .error e)
    | (s1, .ok v) =>
      match forwardArgsWith ev s1 rest with
      | (s2, .error e) => (s2, .error e)
      | (s2, .ok vs) => (s2, .ok (v :: vs))

/-- `forward_recursive(addr)` of graph.cc:116-151.  `fuel` bounds the depth of
the recursion; arguments always have smaller operator ids, so `oid + 1`
suffices (Props/C05 `fuel_suffices`).  Returns the state reached and either
the value or the failure. -/
def forwardRec (T : TOps τ) : Nat → State τ → Addr → State τ × Except Err τ
  | 0, s, _ => (s, .error .crash)
  | fuel + 1, s, a =>
    match s.ops[a.oid]? with
    | none => (s, .error .crash)
    | some o =>
      match o.kind with
      | .param p =>
        -- has_inner_values(): return get_inner_values()[vid]
        if a.vid = 0 then (s, .ok (s.params.value p)) else (s, .error .crash)
      | kind =>
        match o.rets[a.vid]? with
        | none => (s, .error .crash)
        | some n =>
          match n.value with
          | some v => (s, .ok v)
          | none =>
            match forwardArgsWith (forwardRec T fuel) s o.args with
            | (s1, .error e) => (s1, .error e)
            | (s1, .ok xs) =>
              -- the operator's forward runs now; an injected failure makes it throw
              let faulty := match kind with
                | .op sem => sem.faulty
                | .rnd => true
                | .param _ => false
              match (if faulty then s1.failIn else none) with
              | some 0 => ({ s1 with failIn := none }, .error .error)
              | fi =>
                let s1 := if faulty then { s1 with failIn := fi.map (· - 1) } else s1
                match kind with
                | .param _ => (s1, .error .crash)
                | .rnd =>
                  let v := s1.sample s1.rndPos n.size
                  let s2 := { s1 with rndPos := s1.rndPos + 1, log := s1.log ++ [a.oid] }
                  (s2.storeValues a.oid [v], .ok v)
                | .op sem =>
                  match sem.fwd xs with
                  | none => (s1, .error .error)   -- forward threw: nothing is stored
                  | some ys =>
                    let s2 := ({ s1 with log := s1.log ++ [a.oid] }).storeValues a.oid ys
                    match ys[a.vid]? with
                    | some v => (s2, .ok v)
                    | none => (s2, .error .crash)

/-- `Graph::forward(node)` -/
def forward (T : TOps τ) (s : State τ) (a : Addr) : State τ × Except Err τ :=
  if s.validAddr a then forwardRec T (a.oid + 1) s a else (s, .error .crash)

/-! ### backward -/

/-- sequentially add the contributions into the argument accumulators
(the same node may occur several times among the arguments) -/
def addContribs (T : TOps τ) (s : State τ) : List (Addr × Option τ) → State τ
  | [] => s
  | (_, none) :: rest => addContribs T s rest
  | (a, some c) :: rest =>
    addContribs T (s.updNode a fun n =>
      match n.grad with
      | some g => { n with grad := some (T.add g c) }
      | none => n) rest

/-- zero-fill the gradients of the listed nodes where they are invalid -/
def zeroFill (T : TOps τ) (s : State τ) : List Addr → State τ
  | [] => s
  | a :: rest =>
    zeroFill T (s.updNode a fun n =>
      match n.grad with
      | some _ => n
      | none => { n with grad := some (T.zeros n.size) }) rest

def retAddrs (oid : Nat) (o : OpInfo τ) : List Addr :=
  (List.range o.rets.length).map fun i => ⟨oid, i⟩

/-- invalidate all return gradients of operator `oid` -/
def invalidateGrads (s : State τ) (oid : Nat) : State τ :=
  match s.ops[oid]? with
  | none => s
  | some o => { s with ops := s.ops.set oid { o with rets := o.rets.map fun n => { n with grad := none } } }

/-- One iteration of the sweep loop (graph.cc:167-222) for operator `oid`. -/
def backwardStep (T : TOps τ) (s : State τ) (oid : Nat) : State τ × Except Err Unit :=
  match s.ops[oid]? with
  | none => (s, .error .crash)
  | some o =>
    -- enabled = some return gradient is valid
    if !(o.rets.any fun n => n.grad.isSome) then (s, .ok ())
    else
      -- all invalid gradients of return values are treated as 0
      let s1 := zeroFill T s (retAddrs oid o)
      -- argument values: memoised value, else inner value (throws if there is none)
      match o.args.mapM s1.valueOf? with
      | none => (s1, .error .error)
      | some xs =>
        -- argument gradients are materialised as zeros before the rule runs
        let s2 := zeroFill T s1 o.args
        match s2.ops[oid]? with
        | none => (s2, .error .crash)
        | some o2 =>
          let ys := o2.rets.filterMap (·.value)
          let gys := o2.rets.filterMap (·.grad)
          let s3 : State τ :=
            match o.kind with
            | .param p =>
              match gys with
              | g :: _ => { s2 with params := { s2.params with
                              grad := fun q => if q = p then T.add (s2.params.grad p) g else s2.params.grad q } }
              | [] => s2
            | .rnd => s2
            | .op sem => addContribs T s2 (o.args.zip (sem.bwd xs ys gys))
          (invalidateGrads s3 oid, .ok ())

/-- the loop `for (oid = node.oid_; oid >= 0; --oid)` -/
def sweep (T : TOps τ) : Nat → State τ → State τ × Except Err Unit
  | 0, s => (s, .ok ())
  | k + 1, s =>
    match backwardStep T s k with
    | (s1, .error e) => (s1, .error e)
    | (s1, .ok ()) => sweep T k s1

/-- `Graph::backward(node)` -/
def backward (T : TOps τ) (s : State τ) (a : Addr) : State τ × Except Err Unit :=
  if !s.validAddr a then (s, .error .crash)
  else
    -- force the forward operation when the node has no memoised value
    let r : State τ × Except Err Unit :=
      match s.node? a with
      | some n => if n.value.isSome then (s, .ok ()) else
          match forward T s a with
          | (s1, .ok _) => (s1, .ok ())
          | (s1, .error e) => (s1, .error e)
      | none => (s, .error .crash)
    match r with
    | (s1, .error e) => (s1, .error e)
    | (s1, .ok ()) =>
      -- identity gradient at the last node
      let s2 := s1.updNode a fun n => { n with grad := some (T.ones n.size) }
      sweep T (a.oid + 1) s2

end Primitiv.Graph
