import PrimitivModel.Model.Shape
import PrimitivModel.Gen.Elementwise
/-
Model of the ARITHMETIC kernels of primitiv::Device (family `karith`):
front-end guards and result shapes as core/device.cc, loops as
devices/naive/ops/*.cc (devices/eigen/ops/*.cc compute the same functions; the
elementwise formulas of both backends are generated, see Gen/Elementwise.lean).

Conventions
* A buffer is a total function `Nat → α`; only indices below the tensor's size
  are meaningful.  The scalar type `α` is abstract: the driver runs the same
  definitions at `Int`, `Float` and dual numbers, the theorems interpret them
  over a commutative ring / field / `ℝ`.
* A C++ loop `for t in ts: buf[addr t] = val t` is `writeAt ts addr val`, a loop
  `for t in ts: buf[addr t] += val t` is `scatterAddAt ts addr val`: the value
  that cell `j` holds afterwards, computed by folding over the iterations *in
  loop order* — exactly what the in-place loop does to that cell, also in
  floating point.  The iteration lists (`range2`, `MatIt`, `ConvDims.its`,
  `PoolDims.outer`) are the loop nests of the C++.
* matmul: Naive runs an 8×8-blocked loop, Eigen a BLAS-like product; over a
  ring (and on the integer correspondence domain) the order of the additions
  does not matter, so the model is the mathematical triple loop.
* Window positions of conv2d / max_pool2d: `convPos` (64-bit signed, exact —
  the code after patches/fix-conv-pool-window-wrap.diff); `convPos32` keeps the
  32-bit computation of the pinned tree for the witness of the defect.  Flat
  addresses are plain `Nat`: under the front-end guard every tensor has fewer
  than 2^32 elements, so they do not wrap.

Tie to the code: translator (formulas) + correspondence (harness `h_karith`).
Core Lean only.
-/
namespace Primitiv.Arith
open Primitiv Primitiv.Gen.Elementwise

abbrev Buf (α : Type) := Nat → α

structure Tensor (α : Type) where
  shape : Shape
  data : Buf α

/-! ### loop combinators -/

/-- content of cell `j` after `for t in ts: buf[addr t] = val t`, starting from `init` -/
def writeAt {τ α : Type} (ts : List τ) (addr : τ → Nat) (val : τ → α) (init : α) (j : Nat) : α :=
  ts.foldl (fun acc t => if addr t = j then val t else acc) init

/-- content of cell `j` after `for t in ts: buf[addr t] += val t`, starting from `g0` -/
def scatterAddAt {τ α : Type} [Add α] (ts : List τ) (addr : τ → Nat) (val : τ → α) (g0 : α) (j : Nat) : α :=
  ts.foldl (fun acc t => if addr t = j then acc + val t else acc) g0

/-- content of cell `j` after `for t in ts: buf[addr t] -= val t` -/
def scatterSubAt {τ α : Type} [Sub α] (ts : List τ) (addr : τ → Nat) (val : τ → α) (g0 : α) (j : Nat) : α :=
  ts.foldl (fun acc t => if addr t = j then acc - val t else acc) g0

/-- `for a < n: for b < m:` -/
def range2 (n m : Nat) : List (Nat × Nat) :=
  (List.range n).flatMap fun a => (List.range m).map fun b => (a, b)

/-- `for a < n: for b < m: for c < l:` -/
def range3 (n m l : Nat) : List (Nat × Nat × Nat) :=
  (List.range n).flatMap fun a => (List.range m).flatMap fun b => (List.range l).map fun c => (a, b, c)

/-- `for a < n: for b < m: for c < l: for d < p:` -/
def range4 (n m l p : Nat) : List (Nat × Nat × Nat × Nat) :=
  (List.range n).flatMap fun a => (range3 m l p).map fun t => (a, t)

/-- `has_batch() * size` -/
def skipOf (s : Shape) (size : Nat) : Nat := if s.hasBatch then size else 0

/-! ### elementwise kernels (CPUDEV_FW_X / BW_X / *_CONST): one flat loop over `x.shape().size()` -/
section elementwise
variable {α : Type}

/-- `REPEAT_OP(i, size, dest[i] = op)` -/
def unaryFw (f : α → α) (x : Buf α) : Buf α := fun i => f (x i)

/-- `REPEAT_OP(i, size, pgx[i] += op)` -/
def unaryBw [Add α] (f : α → α → α → α) (x y gy gx : Buf α) : Buf α :=
  fun i => gx i + f (x i) (y i) (gy i)

/-- DEV_FW_X with `sop = static_cast<const Shape &>` and DEV_FW_X_CONST: result has x's shape -/
def devUnaryFw (f : α → α) (x : Tensor α) : R (Tensor α) :=
  pure ⟨x.shape, unaryFw f x.data⟩

/-- DEV_BW_X: `x.shape != gx.shape || y.shape != gy.shape || y.shape != x.shape` → Error -/
def devUnaryBw [Add α] (f : α → α → α → α) (x y gy gx : Tensor α) : R (Tensor α) :=
  if !x.shape.eq gx.shape || !y.shape.eq gy.shape || !y.shape.eq x.shape then throwError
  else pure ⟨gx.shape, unaryBw f x.data y.data gy.data gx.data⟩

/-- DEV_BW_X_CONST (and pown_bw): `y.shape != s || gy.shape != s || gx.shape != s` → Error -/
def devConstBw [Add α] (f : α → α → α → α) (x y gy gx : Tensor α) : R (Tensor α) :=
  if !y.shape.eq x.shape || !gy.shape.eq x.shape || !gx.shape.eq x.shape then throwError
  else pure ⟨gx.shape, unaryBw f x.data y.data gy.data gx.data⟩

end elementwise

/-! ### pown (naive/ops/pown.cc, eigen/ops/pown.cc) -/
section pown
variable {α : Type}

/-- `while (remain) { if (remain & 1) ret *= factor; factor *= factor; remain >>= 1; }` -/
def pownLoop [Mul α] (ret factor : α) (remain : Nat) : α :=
  if h : remain = 0 then ret
  else pownLoop (if remain % 2 = 1 then ret * factor else ret) (factor * factor) (remain / 2)
termination_by remain
decreasing_by omega

/-- `abs_k = (k == min_k) ? min_k : std::abs(k)` converted to uint32 -/
def pownAbs (k : Int) : Nat := if k = -2147483648 then 2147483648 else k.natAbs

/-- one element of pown_fw: `dest[i] = k >= 0 ? ret : 1. / ret` -/
def pownElem [Mul α] [Div α] (one : α) (k : Int) (x : α) : α :=
  let ret := pownLoop one x (pownAbs k)
  if k ≥ 0 then ret else one / ret

/-- one element of pown_bw: `k * pgy[i] * py[i] / px[i]` -/
def pownBwElem [Mul α] [Div α] (ofInt : Int → α) (k : Int) (x y gy : α) : α :=
  ofInt k * gy * y / x

end pown

/-! ### broadcasting binary kernels (CPUDEV_FW_AB, CPUDEV_FW_X_SCALAR, *_bw_impl) -/
section binary
variable {α : Type}

/-- CPUDEV_FW_AB: `for batch < bs: for i < size: dest[i] = op(src_a[i], src_b[i]); dest += size; src_a += skip_a; src_b += skip_b` -/
def binFw (op : α → α → α) (size bs skipA skipB : Nat) (a b : Buf α) (junk : α) : Buf α :=
  writeAt (range2 bs size) (fun t => t.1 * size + t.2)
    (fun t => op (a (t.1 * skipA + t.2)) (b (t.1 * skipB + t.2))) junk

/-- CPUDEV_FW_X_SCALAR: as FW_AB with `skip_k = k.has_batch()` and `*src_k` -/
def scalarFw (op : α → α → α) (size bs skipX skipK : Nat) (x k : Buf α) (junk : α) : Buf α :=
  writeAt (range2 bs size) (fun t => t.1 * size + t.2)
    (fun t => op (x (t.1 * skipX + t.2)) (k (t.1 * skipK))) junk

/-- DEV_FW_AB(name, shape_ops::elementwise) -/
def devBinFw (op : α → α → α) (a b : Tensor α) (junk : α) : R (Tensor α) := do
  let ys ← ShapeOps.elementwise a.shape b.shape
  let size := ys.volume
  pure ⟨ys, binFw op size ys.batch (skipOf a.shape size) (skipOf b.shape size) a.data b.data junk⟩

/-- DEV_FW_AB(name_scalar, shape_ops::scalar_op) -/
def devScalarFw (op : α → α → α) (x k : Tensor α) (junk : α) : R (Tensor α) := do
  let ys ← ShapeOps.scalarOp x.shape k.shape
  let size := ys.volume
  pure ⟨ys, scalarFw op size ys.batch (skipOf x.shape size) (skipOf k.shape 1) x.data k.data junk⟩

/-- The two accumulators a binary backward kernel updates. -/
structure Grad2 (α : Type) where
  ga : Buf α
  gb : Buf α

/-- add_bw_impl: `pga[i] += k; pgb[i] += k` with `k = pgy[i]` -/
def addBw [Add α] (size bs skipA skipB : Nat) (gy ga gb : Buf α) : Grad2 α :=
  let its := range2 bs size
  { ga := fun j => scatterAddAt its (fun t => t.1 * skipA + t.2) (fun t => gy (t.1 * size + t.2)) (ga j) j
    gb := fun j => scatterAddAt its (fun t => t.1 * skipB + t.2) (fun t => gy (t.1 * size + t.2)) (gb j) j }

/-- subtract_bw_impl: `pga[i] += k; pgb[i] -= k` -/
def subtractBw [Add α] [Sub α] (size bs skipA skipB : Nat) (gy ga gb : Buf α) : Grad2 α :=
  let its := range2 bs size
  { ga := fun j => scatterAddAt its (fun t => t.1 * skipA + t.2) (fun t => gy (t.1 * size + t.2)) (ga j) j
    gb := fun j => scatterSubAt its (fun t => t.1 * skipB + t.2) (fun t => gy (t.1 * size + t.2)) (gb j) j }

/-- multiply_bw_impl: `pga[i] += k * pb[i]; pgb[i] += k * pa[i]` -/
def multiplyBw [Add α] [Mul α] (size bs skipA skipB : Nat) (a b gy ga gb : Buf α) : Grad2 α :=
  let its := range2 bs size
  { ga := fun j => scatterAddAt its (fun t => t.1 * skipA + t.2)
            (fun t => gy (t.1 * size + t.2) * b (t.1 * skipB + t.2)) (ga j) j
    gb := fun j => scatterAddAt its (fun t => t.1 * skipB + t.2)
            (fun t => gy (t.1 * size + t.2) * a (t.1 * skipA + t.2)) (gb j) j }

/-- divide_bw_impl: `k = pgy[i] / pb[i]; pga[i] += k; pgb[i] -= k * py[i]` -/
def divideBw [Add α] [Sub α] [Mul α] [Div α] (size bs skipA skipB : Nat) (b y gy ga gb : Buf α) : Grad2 α :=
  let its := range2 bs size
  { ga := fun j => scatterAddAt its (fun t => t.1 * skipA + t.2)
            (fun t => gy (t.1 * size + t.2) / b (t.1 * skipB + t.2)) (ga j) j
    gb := fun j => scatterSubAt its (fun t => t.1 * skipB + t.2)
            (fun t => gy (t.1 * size + t.2) / b (t.1 * skipB + t.2) * y (t.1 * size + t.2)) (gb j) j }

/-- pow_bw_impl: `a' = pgy[i] * py[i]; pga[i] += a' * pb[i] / pa[i]; pgb[i] += a' * std::log(pa[i])` -/
def powBw [Add α] [Mul α] [Div α] (log : α → α) (size bs skipA skipB : Nat) (a b y gy ga gb : Buf α) : Grad2 α :=
  let its := range2 bs size
  { ga := fun j => scatterAddAt its (fun t => t.1 * skipA + t.2)
            (fun t => gy (t.1 * size + t.2) * y (t.1 * size + t.2) * b (t.1 * skipB + t.2) / a (t.1 * skipA + t.2)) (ga j) j
    gb := fun j => scatterAddAt its (fun t => t.1 * skipB + t.2)
            (fun t => gy (t.1 * size + t.2) * y (t.1 * size + t.2) * log (a (t.1 * skipA + t.2))) (gb j) j }

/-- The guard of DEV_BW_AB: `a.shape != ga.shape || b.shape != gb.shape || y.shape != gy.shape ||
y.shape != sop(a.shape, b.shape)` → Error (an Error thrown by `sop` propagates). -/
def guardBwAB (sop : Shape → Shape → R Shape) (a b y gy ga gb : Shape) : R Unit := do
  if !a.eq ga || !b.eq gb || !y.eq gy then throwError
  let ys ← sop a b
  if !y.eq ys then throwError
  pure ()

/-- DEV_BW_AB(name, shape_ops::elementwise) around a kernel that receives
`size = gy.volume, bs = gy.batch, skip_a, skip_b`. -/
def devBinBw (kern : (size bs skipA skipB : Nat) → Grad2 α) (a b y gy ga gb : Shape) : R (Grad2 α) := do
  guardBwAB ShapeOps.elementwise a b y gy ga gb
  let size := gy.volume
  pure (kern size gy.batch (skipOf ga size) (skipOf gb size))

end binary

/-! ### matmul -/
section matmul
variable {α : Type}

/-- `for batch: for k < d3: for i < d1: for j < d2` (the blocking of the Naive loop is dropped, see the header) -/
structure MatIt where
  bn : Nat
  k : Nat
  i : Nat
  j : Nat

def matIts (bs d1 d2 d3 : Nat) : List MatIt :=
  (range3 bs d3 d1).flatMap fun s => (List.range d2).map fun j => ⟨s.1, s.2.1, s.2.2, j⟩

structure MatDims where
  d1 : Nat
  d2 : Nat
  d3 : Nat
  bs : Nat
  skipA : Nat
  skipB : Nat

namespace MatDims
/-- `dest[ii + kk*d1]` of batch `bn` (`dest += d1*d3` per batch) -/
def ya (D : MatDims) (t : MatIt) : Nat := t.bn * (D.d3 * D.d1) + (t.k * D.d1 + t.i)
/-- `src_a[ii + jj*d1]` -/
def aa (D : MatDims) (t : MatIt) : Nat := t.bn * D.skipA + (t.j * D.d1 + t.i)
/-- `src_b[jj + kk*d2]` -/
def ba (D : MatDims) (t : MatIt) : Nat := t.bn * D.skipB + (t.k * D.d2 + t.j)
def its (D : MatDims) : List MatIt := matIts D.bs D.d1 D.d2 D.d3
end MatDims

/-- matmul_fw_impl: `dest[n] = 0` for every cell of the batch, then `dest[ii + kk*d1] += src_a[ii + jj*d1] * src_b[jj + kk*d2]` -/
def matmulFw [Add α] [Mul α] (zero : α) (D : MatDims) (a b : Buf α) (junk : α) : Buf α :=
  fun n => if n < D.bs * (D.d3 * D.d1) then
      scatterAddAt D.its D.ya (fun t => a (D.aa t) * b (D.ba t)) zero n
    else junk

/-- matmul_bw_impl: `ga += gy · bᵀ`, `gb += aᵀ · gy`, folded over the batch for a batch-1 operand
(Naive: `inplace_add_impl(matmul_fw(gy, transpose_fw(b)), ga)`; Eigen: `gaa.noalias() += gyy * bb.transpose()`). -/
def matmulBw [Add α] [Mul α] (D : MatDims) (a b gy ga gb : Buf α) : Grad2 α :=
  { ga := fun n => scatterAddAt D.its D.aa (fun t => gy (D.ya t) * b (D.ba t)) (ga n) n
    gb := fun n => scatterAddAt D.its D.ba (fun t => a (D.aa t) * gy (D.ya t)) (gb n) n }

/-- the locals of matmul_fw_impl -/
def matDims (a b y : Shape) : MatDims :=
  let d1 := a.get 0
  let d2 := a.get 1
  let d3 := b.get 1
  { d1 := d1, d2 := d2, d3 := d3, bs := y.batch, skipA := skipOf a (d1 * d2), skipB := skipOf b (d2 * d3) }

/-- DEV_FW_AB(matmul, shape_ops::matmul) -/
def devMatmulFw [Add α] [Mul α] (zero : α) (a b : Tensor α) (junk : α) : R (Tensor α) := do
  let ys ← ShapeOps.matmul a.shape b.shape
  pure ⟨ys, matmulFw zero (matDims a.shape b.shape ys) a.data b.data junk⟩

/-- DEV_BW_AB(matmul, shape_ops::matmul) -/
def devMatmulBw [Add α] [Mul α] (a b y gy ga gb : Tensor α) : R (Grad2 α) := do
  guardBwAB ShapeOps.matmul a.shape b.shape y.shape gy.shape ga.shape gb.shape
  pure (matmulBw (matDims a.shape b.shape gy.shape) a.data b.data gy.data ga.data gb.data)

end matmul

/-! ### window positions -/

/-- reinterpretation of a uint32 value as int32 -/
def toI32 (v : Nat) : Int := if v % W < 2147483648 then ((v % W : Nat) : Int) else ((v % W : Nat) : Int) - 4294967296

/-- The window position as the tree pinned at the start computed it:
`const std::int32_t pos = -padding + y * stride + w * dilation;` (uint32 arithmetic, then int32).
For a padding within `x_height` of 2^32 the result wraps around into the valid range
(Props/C02/Arith.lean `convPos32_wrap_witness`); patches/fix-conv-pool-window-wrap.diff. -/
def convPos32 (p y s w d : Nat) : Int := toI32 (add32 (add32 (sub32 0 p) (mul32 y s)) (mul32 w d))

/-- The window position after the fix:
`const std::int64_t pos = (int64)y * stride + (int64)w * dilation - padding;` — every operand is below
2^32, so the 64-bit signed arithmetic is exact. -/
def convPos (p y s w d : Nat) : Int := ((y * s + w * d : Nat) : Int) - (p : Int)

/-! ### conv2d -/
section conv2d
variable {α : Type}

structure ConvIt where
  bn : Nat
  yc : Nat
  yx : Nat
  yy : Nat
  xc : Nat
  wx : Nat
  wy : Nat

/-- the locals of conv2d_fw_impl / conv2d_bw_impl -/
structure ConvDims where
  xh : Nat
  xw : Nat
  xc : Nat
  wh : Nat
  ww : Nat
  yh : Nat
  yw : Nat
  yc : Nat
  bs : Nat
  xShift : Nat
  wShift : Nat
  yShift : Nat
  p0 : Nat
  p1 : Nat
  s0 : Nat
  s1 : Nat
  d0 : Nat
  d1 : Nat

namespace ConvDims
def posY (D : ConvDims) (t : ConvIt) : Int := convPos D.p0 t.yy D.s0 t.wy D.d0
def posX (D : ConvDims) (t : ConvIt) : Int := convPos D.p1 t.yx D.s1 t.wx D.d1
/-- `x_y >= 0 && x_y < (int64)x_height && x_x >= 0 && x_x < (int64)x_width` -/
def valid (D : ConvDims) (t : ConvIt) : Bool :=
  decide (0 ≤ D.posY t) && decide (D.posY t < (D.xh : Int)) && decide (0 ≤ D.posX t) && decide (D.posX t < (D.xw : Int))
/-- `(x_c * x_width + x_x) * x_height + x_y`, plus the batch shift -/
def xa (D : ConvDims) (t : ConvIt) : Nat :=
  t.bn * D.xShift + ((t.xc * D.xw + (D.posX t).toNat) * D.xh + (D.posY t).toNat)
/-- `((y_c * x_channels + x_c) * w_width + w_x_inv) * w_height + w_y_inv`: the kernel is read flipped -/
def wa (D : ConvDims) (t : ConvIt) : Nat :=
  t.bn * D.wShift + (((t.yc * D.xc + t.xc) * D.ww + (D.ww - 1 - t.wx)) * D.wh + (D.wh - 1 - t.wy))
/-- `(y_c * y_width + y_x) * y_height + y_y`, plus the batch shift -/
def ya (D : ConvDims) (t : ConvIt) : Nat :=
  t.bn * D.yShift + ((t.yc * D.yw + t.yx) * D.yh + t.yy)
/-- the four output loops `bn, y_c, y_x, y_y` -/
def outer (D : ConvDims) : List (Nat × Nat × Nat × Nat) := range4 D.bs D.yc D.yw D.yh
/-- the three window loops `x_c, w_x, w_y` of one output cell -/
def inner (D : ConvDims) (s : Nat × Nat × Nat × Nat) : List ConvIt :=
  (range3 D.xc D.ww D.wh).map fun r => ⟨s.1, s.2.1, s.2.2.1, s.2.2.2, r.1, r.2.1, r.2.2⟩
/-- the seven nested loops, without the bounds test -/
def allIts (D : ConvDims) : List ConvIt := D.outer.flatMap D.inner
/-- the iterations that pass the bounds test, in loop order -/
def its (D : ConvDims) : List ConvIt := D.allIts.filter D.valid
end ConvDims

/-- conv2d_fw_impl: `py[y_addr] = 0;` then `py[y_addr] += px[x_addr] * pw[w_addr]` -/
def conv2dFw [Add α] [Mul α] (zero : α) (D : ConvDims) (x w : Buf α) (junk : α) : Buf α :=
  fun n => if n < D.bs * D.yShift then
      scatterAddAt D.its D.ya (fun t => x (D.xa t) * w (D.wa t)) zero n
    else junk

/-- conv2d_bw_impl: `pgx[x_addr] += pgy[y_addr] * pw[w_addr]; pgw[w_addr] += pgy[y_addr] * px[x_addr]` -/
def conv2dBw [Add α] [Mul α] (D : ConvDims) (x w gy gx gw : Buf α) : Grad2 α :=
  { ga := fun n => scatterAddAt D.its D.xa (fun t => gy (D.ya t) * w (D.wa t)) (gx n) n
    gb := fun n => scatterAddAt D.its D.wa (fun t => gy (D.ya t) * x (D.xa t)) (gw n) n }

def convDims (x w y : Shape) (p0 p1 s0 s1 d0 d1 : Nat) : ConvDims :=
  { xh := x.get 0, xw := x.get 1, xc := x.get 2, wh := w.get 0, ww := w.get 1,
    yh := y.get 0, yw := y.get 1, yc := y.get 2, bs := y.batch,
    xShift := skipOf x x.volume, wShift := skipOf w w.volume, yShift := y.volume,
    p0 := p0, p1 := p1, s0 := s0, s1 := s1, d0 := d0, d1 := d1 }

/-- Device::conv2d_fw -/
def devConv2dFw [Add α] [Mul α] (zero : α) (x w : Tensor α) (p0 p1 s0 s1 d0 d1 : Nat) (junk : α) : R (Tensor α) := do
  let ys ← ShapeOps.conv2d x.shape w.shape p0 p1 s0 s1 d0 d1
  pure ⟨ys, conv2dFw zero (convDims x.shape w.shape ys p0 p1 s0 s1 d0 d1) x.data w.data junk⟩

/-- Device::conv2d_bw -/
def devConv2dBw [Add α] [Mul α] (x w y gy gx gw : Tensor α) (p0 p1 s0 s1 d0 d1 : Nat) : R (Grad2 α) := do
  guardBwAB (fun a b => ShapeOps.conv2d a b p0 p1 s0 s1 d0 d1) x.shape w.shape y.shape gy.shape gx.shape gw.shape
  pure (conv2dBw (convDims x.shape w.shape gy.shape p0 p1 s0 s1 d0 d1) x.data w.data gy.data gx.data gw.data)

end conv2d

/-! ### max_pool2d -/
section pool
variable {α : Type}

structure PoolDims where
  xh : Nat
  xw : Nat
  yh : Nat
  yw : Nat
  rep : Nat
  w0 : Nat
  w1 : Nat
  p0 : Nat
  p1 : Nat
  s0 : Nat
  s1 : Nat

namespace PoolDims
/-- in-plane addresses `x_x * x_height + x_y` of the window cells that pass the two bounds tests, in scan order
(`w_x` outer, `w_y` inner) -/
def window (D : PoolDims) (yx yy : Nat) : List Nat :=
  (List.range D.w1).flatMap fun wx =>
    let xx := convPos D.p1 yx D.s1 wx 1
    if xx < 0 ∨ xx ≥ (D.xw : Int) then []
    else (List.range D.w0).filterMap fun wy =>
      let xy := convPos D.p0 yy D.s0 wy 1
      if xy < 0 ∨ xy ≥ (D.xh : Int) then none else some (xx.toNat * D.xh + xy.toNat)
/-- `for r < repeat: for y_x < y_width: for y_y < y_height` -/
def outer (D : PoolDims) : List (Nat × Nat × Nat) := range3 D.rep D.yw D.yh
def ya (D : PoolDims) (t : Nat × Nat × Nat) : Nat := t.1 * (D.yh * D.yw) + (t.2.1 * D.yh + t.2.2)
def xbase (D : PoolDims) (t : Nat × Nat × Nat) : Nat := t.1 * (D.xh * D.xw)
end PoolDims

/-- the running maximum of one window: `maxval = lowest(); … if (val > maxval) maxval = val;` -/
def windowMax [LT α] [DecidableLT α] (lowest : α) (vals : List α) : α :=
  vals.foldl (fun m v => if v > m then v else m) lowest

/-- max_pool2d_fw_impl -/
def maxPoolFw [LT α] [DecidableLT α] (lowest : α) (D : PoolDims) (x : Buf α) (junk : α) : Buf α :=
  writeAt D.outer D.ya
    (fun t => windowMax lowest ((D.window t.2.1 t.2.2).map fun a => x (D.xbase t + a))) junk

/-- the first window cell (scan order) whose value `== maxval` -/
def firstMatch [BEq α] (D : PoolDims) (x y : Buf α) (t : Nat × Nat × Nat) : Option Nat :=
  ((D.window t.2.1 t.2.2).find? fun a => x (D.xbase t + a) == y (D.ya t)).map fun a => D.xbase t + a

/-- max_pool2d_bw_impl: `if (px[x_addr] == maxval) { pgx[x_addr] += grad; next = false; }` -/
def maxPoolBw [Add α] [BEq α] (D : PoolDims) (x y gy gx : Buf α) : Buf α :=
  let hits := D.outer.filterMap fun t => (firstMatch D x y t).map fun a => (t, a)
  fun n => scatterAddAt hits (fun h => h.2) (fun h => gy (D.ya h.1)) (gx n) n

def poolDims (x y : Shape) (w0 w1 p0 p1 s0 s1 : Nat) : PoolDims :=
  let xh := x.get 0
  let xw := x.get 1
  { xh := xh, xw := xw, yh := y.get 0, yw := y.get 1, rep := x.size / (xh * xw),
    w0 := w0, w1 := w1, p0 := p0, p1 := p1, s0 := s0, s1 := s1 }

/-- Device::max_pool2d_fw -/
def devMaxPoolFw [LT α] [DecidableLT α] (lowest : α) (x : Tensor α) (w0 w1 p0 p1 s0 s1 : Nat) (junk : α) : R (Tensor α) := do
  let ys ← ShapeOps.pool2d x.shape w0 w1 p0 p1 s0 s1
  pure ⟨ys, maxPoolFw lowest (poolDims x.shape ys w0 w1 p0 p1 s0 s1) x.data junk⟩

/-- Device::max_pool2d_bw -/
def devMaxPoolBw [Add α] [BEq α] (x y gy gx : Tensor α) (w0 w1 p0 p1 s0 s1 : Nat) : R (Tensor α) := do
  if !x.shape.eq gx.shape || !y.shape.eq gy.shape then throwError
  let ys ← ShapeOps.pool2d x.shape w0 w1 p0 p1 s0 s1
  if !y.shape.eq ys then throwError
  pure ⟨gx.shape, maxPoolBw (poolDims x.shape y.shape w0 w1 p0 p1 s0 s1) x.data y.data gy.data gx.data⟩

end pool

/-! ### logsumexp_fw -/
section logsumexp
variable {α : Type}

/-- one step of the pairwise recurrence:
`tmp = tmp > arg ? tmp + log(1. + exp(arg - tmp)) : arg + log(1. + exp(tmp - arg))` -/
def lseStep [Add α] [Sub α] [LT α] [DecidableLT α] (F : Fns α) (tmp arg : α) : α :=
  if tmp > arg then tmp + F.log (F.lit 1 0 + F.exp (arg - tmp))
  else arg + F.log (F.lit 1 0 + F.exp (tmp - arg))

/-- the recurrence over the values along the axis: `tmp = src[offset]; for j in 1..n-1: …` -/
def lseFold [Add α] [Sub α] [LT α] [DecidableLT α] (F : Fns α) (first : α) (rest : List α) : α :=
  rest.foldl (lseStep F) first

/-- logsumexp_fw_impl: `offset = i % skip1 + (i / skip1) * skip2`, elements `offset + j*skip1` -/
def logsumexpFw [Add α] [Sub α] [LT α] [DecidableLT α] (F : Fns α) (n skip1 : Nat) (x : Buf α) : Buf α :=
  fun i =>
    let off := i % skip1 + (i / skip1) * (skip1 * n)
    lseFold F (x off) ((List.range (n - 1)).map fun j => x (off + (j + 1) * skip1))

/-- Device::logsumexp_fw: `new_raw_tensor(x.shape().resize_dim(dim, 1))` -/
def devLogsumexpFw [Add α] [Sub α] [LT α] [DecidableLT α] (F : Fns α) (x : Tensor α) (dim : Nat) : R (Tensor α) := do
  let ys ← x.shape.resizeDim dim 1
  pure ⟨ys, logsumexpFw F (x.shape.get dim) (ys.lowerVolume dim) x.data⟩

end logsumexp

/-! ### in-place updates -/
section inplace
variable {α : Type}

/-- inplace_multiply_const_impl: `dest[i] *= k` -/
def inplaceMulConst [Mul α] (k : α) (x : Buf α) : Buf α := fun i => x i * k

/-- inplace_add_impl: `bs = max(sx.batch, sy.batch)`, `dest[i] += src[i]; dest += b_skip_d; src += b_skip_s` -/
def inplaceAdd [Add α] (size bs skipD skipS : Nat) (x y : Buf α) : Buf α :=
  fun j => scatterAddAt (range2 bs size) (fun t => t.1 * skipD + t.2) (fun t => x (t.1 * skipS + t.2)) (y j) j

/-- inplace_subtract_impl -/
def inplaceSub [Sub α] (size bs skipD skipS : Nat) (x y : Buf α) : Buf α :=
  fun j => scatterSubAt (range2 bs size) (fun t => t.1 * skipD + t.2) (fun t => x (t.1 * skipS + t.2)) (y j) j

/-- the guard shared by Device::inplace_add / inplace_subtract -/
def guardInplace (sx sy : Shape) : Bool := sx.hasSameDims sy && sx.hasCompatibleBatch sy

def devInplaceAdd [Add α] (x y : Tensor α) : R (Tensor α) :=
  if !guardInplace x.shape y.shape then throwError
  else
    let size := y.shape.volume
    pure ⟨y.shape, inplaceAdd size (max x.shape.batch y.shape.batch) (skipOf y.shape size) (skipOf x.shape size) x.data y.data⟩

def devInplaceSub [Sub α] (x y : Tensor α) : R (Tensor α) :=
  if !guardInplace x.shape y.shape then throwError
  else
    let size := y.shape.volume
    pure ⟨y.shape, inplaceSub size (max x.shape.batch y.shape.batch) (skipOf y.shape size) (skipOf x.shape size) x.data y.data⟩

end inplace

end Primitiv.Arith
