import PrimitivModel.Model.Shape
/-
Model of the data-movement, axis-wise reduction and selection kernels of
primitiv::Device (core/device.cc front-end + devices/{naive,eigen}/ops/*.cc),
forward and backward.

* A tensor value is a shape and a total function `Nat → α`; only indices below
  `shape.size` are meaningful.
* A copying kernel is described by the index arithmetic of its loop nest
  (`Moves`): the t-th executed assignment is `dest[didx t] = src[sidx t]`
  (forward, `scatterSet`) or `dest[didx t] += src[sidx t]` (backward,
  `scatterAdd`), t = 0 .. count-1 in the order the C++ runs them.  A kernel that
  writes through `*dest++` has `didx = id`, one that reads through `*src++` has
  `sidx = id`.
* A reduction kernel (`sum`, `max`, `min`, `argmax`, `argmin`, `batch_sum`)
  writes `dest[i]`, i = 0 .. rep-1, from the `n` source elements `off i j`.
* Every public entry point is `front-end guard + output shape` (exactly the
  statements of device.cc, using the Shape model's rules) followed by the
  kernel; outcomes are `ok`, `error` (a thrown primitiv::Error) and `crash`
  (the code as written reads or writes out of bounds, or leaves an element of
  the raw output tensor unwritten).
* Strides are computed in `Nat`: on shapes the `Shape` constructor admits
  (volume * batch < 2^32) none of the kernels' `std::uint32_t` products can
  wrap.  The two places where an *argument* enters a product or a sum before
  it has been bounded, `base * offset` in slice_bw and `volume * offset` in
  batch_slice_bw, and the guards of these two entry points, use the wrapping
  operations.

The model is one function for both CPU backends (the device token of the
driver is ignored): that the backends cannot differ in acceptance and shapes is
Props/C08; that their kernels compute this function is the correspondence run.
Core Lean only.
-/
namespace Primitiv.Move

/-- Where a tensor lives, relative to the device whose entry point is called. -/
inductive Loc where
  | here      -- on the device called
  | other     -- on another device
  | invalid   -- default-constructed / moved-from Tensor
deriving DecidableEq, Repr, Inhabited

structure Tensor (α : Type) where
  shape : Shape
  data : Nat → α
  loc : Loc := .here

/-- `CHECK_DEVICE(x)`: `x.device()` throws for an invalid tensor, then the
address comparison. -/
def checkDevice {α} (x : Tensor α) : R Unit :=
  if x.loc = .here then pure () else throwError

/-! ### generic loops -/

/-- Index arithmetic of a copying loop nest. -/
structure Moves where
  count : Nat
  didx : Nat → Nat
  sidx : Nat → Nat

def Moves.swap (m : Moves) : Moves := ⟨m.count, m.sidx, m.didx⟩

/-- `for t < n: dest[d t] = src[s t]` -/
def scatterSet {α} (d s : Nat → Nat) (src : Nat → α) : Nat → (Nat → α) → (Nat → α)
  | 0, dest => dest
  | n + 1, dest =>
    let g := scatterSet d s src n dest
    fun j => if j = d n then src (s n) else g j

/-- `for t < n: dest[d t] += src[s t]` -/
def scatterAdd {α} [Add α] (d s : Nat → Nat) (src : Nat → α) : Nat → (Nat → α) → (Nat → α)
  | 0, dest => dest
  | n + 1, dest =>
    let g := scatterAdd d s src n dest
    fun j => if j = d n then g j + src (s n) else g j

def allBelow (f : Nat → Nat) (n bound : Nat) : Bool :=
  (List.range n).all fun t => decide (f t < bound)

/-- every index below `size` is written by one of the `n` assignments -/
def coversAll (f : Nat → Nat) (n size : Nat) : Bool :=
  (List.range size).all fun o => (List.range n).any fun t => f t == o

def Moves.inBounds (m : Moves) (srcSize dstSize : Nat) : Bool :=
  allBelow m.sidx m.count srcSize && allBelow m.didx m.count dstSize

/-- A forward kernel on a raw (uninitialised) output buffer `raw`. -/
def runSet {α} (m : Moves) (src : Nat → α) (srcSize : Nat) (ys : Shape) (raw : Nat → α) : R (Tensor α) :=
  if !m.inBounds srcSize ys.size then crash
  else if !coversAll m.didx m.count ys.size then crash
  else pure ⟨ys, scatterSet m.didx m.sidx src m.count raw, .here⟩

/-- A backward kernel accumulating into `gx`. -/
def runAdd {α} [Add α] (m : Moves) (gy : Tensor α) (gx : Tensor α) : R (Tensor α) :=
  if !m.inBounds gy.shape.size gx.shape.size then crash
  else pure ⟨gx.shape, scatterAdd m.didx m.sidx gy.data m.count gx.data, .here⟩

/-- Index arithmetic of an axis-wise reduction. -/
structure Reduce where
  rep : Nat
  n : Nat
  off : Nat → Nat → Nat

def Reduce.inBounds (r : Reduce) (srcSize : Nat) : Bool :=
  (List.range r.rep).all fun i => allBelow (r.off i) r.n srcSize

/-- the common offset `i % skip1 + (i / skip1) * skip2 + j * skip1` -/
def axisOff (skip1 skip2 : Nat) (i j : Nat) : Nat := i % skip1 + (i / skip1) * skip2 + j * skip1

/-- `tmp = 0; for j < n: tmp += src[off j]` -/
def sumLoop {α} [Add α] [Zero α] (x : Nat → α) (off : Nat → Nat) : Nat → α
  | 0 => 0
  | n + 1 => sumLoop x off n + x (off n)

/-- `tmp = src[off 0]; for j < n: if (src[off j] > tmp) tmp = src[off j]` -/
def maxLoop {α} [LT α] [DecidableLT α] (x : Nat → α) (off : Nat → Nat) : Nat → α
  | 0 => x (off 0)
  | n + 1 => let t := maxLoop x off n; if t < x (off n) then x (off n) else t

def minLoop {α} [LT α] [DecidableLT α] (x : Nat → α) (off : Nat → Nat) : Nat → α
  | 0 => x (off 0)
  | n + 1 => let t := minLoop x off n; if x (off n) < t then x (off n) else t

/-- argmax loop: `(max_val, argmax_val)` after `j = 1 .. n`; strict comparison,
so the first occurrence of the maximum wins. -/
def argmaxLoop {α} [LT α] [DecidableLT α] (x : Nat → α) (off : Nat → Nat) : Nat → α × Nat
  | 0 => (x (off 0), 0)
  | n + 1 =>
    let (v, a) := argmaxLoop x off n
    if v < x (off (n + 1)) then (x (off (n + 1)), n + 1) else (v, a)

def argminLoop {α} [LT α] [DecidableLT α] (x : Nat → α) (off : Nat → Nat) : Nat → α × Nat
  | 0 => (x (off 0), 0)
  | n + 1 =>
    let (v, a) := argminLoop x off n
    if x (off (n + 1)) < v then (x (off (n + 1)), n + 1) else (v, a)

/-- `for j < n: if (px[off j] == val) return j` (the `break` of max_bw/min_bw) -/
def firstEq {α} [DecidableEq α] (x : Nat → α) (off : Nat → Nat) (v : α) (n : Nat) : Option Nat :=
  (List.range n).find? fun j => decide (x (off j) = v)

/-- max_bw / min_bw: `for i < rep: j = first position equal to y[i]; gx[off i j] += gy[i]` -/
def selectAdd {α} [Add α] [DecidableEq α] (r : Reduce) (x y gy : Nat → α) : Nat → (Nat → α) → (Nat → α)
  | 0, gx => gx
  | i + 1, gx =>
    let g := selectAdd r x y gy i gx
    match firstEq x (r.off i) (y i) r.n with
    | some j => fun o => if o = r.off i j then g o + gy i else g o
    | none => g

def b2n (b : Bool) : Nat := if b then 1 else 0

/-! ### index arithmetic of each kernel (parameters are the locals of the C++) -/

/-- pick_fw_impl: `for batch < bs: src = x + batch*skip_x + base*ids[batch*skip_i];
for i < repeat: { for j < base: *dest++ = src[j]; src += skip }` -/
def pickMoves (bs skipX skipI base skip rep : Nat) (ids : List Nat) : Moves where
  count := bs * rep * base
  didx := fun t => t
  sidx := fun t =>
    let b := t / (base * rep)
    b * skipX + base * ids.getD (b * skipI) 0 + (t / base % rep) * skip + t % base

/-- slice_fw_impl: `src = x + base*offset; for i < repeat: { for j < span: *dest++ = src[j]; src += skip }` -/
def sliceFwMoves (base span skip rep offset : Nat) : Moves where
  count := rep * span
  didx := fun t => t
  sidx := fun t => base * offset + (t / span) * skip + t % span

/-- slice_bw_impl -/
def sliceBwMoves (base span skip rep bs bSkipD bSkipS offset : Nat) : Moves where
  count := bs * rep * span
  didx := fun t => mul32 base offset + (t / (span * rep)) * bSkipD + (t / span % rep) * skip + t % span
  sidx := fun t => (t / (span * rep)) * bSkipS + (t / span % rep) * span + t % span

/-- inplace_add_impl (reached from slice_bw when `dim >= sx.depth()` and from
the Naive transpose_bw) -/
def inplaceAddMoves (size bs bSkipD bSkipS : Nat) : Moves where
  count := bs * size
  didx := fun t => (t / size) * bSkipD + t % size
  sidx := fun t => (t / size) * bSkipS + t % size

/-- concat_fw_impl, the loop nest for one source tensor -/
def concatMoves (newBs base skip rep offset srcDim hasB : Nat) : Moves where
  count := newBs * rep * (base * srcDim)
  didx := fun t => offset + (t / (base * srcDim)) * skip + t % (base * srcDim)
  sidx := fun t =>
    let span := base * srcDim
    (t / (span * rep)) * (hasB * span * rep) + (t / span % rep) * span + t % span

/-- transpose_fw_impl (Naive): `for k < bs, j < d2, i < d1: dest[k*ms + j + i*d2] = *src++` -/
def transposeMoves (d1 d2 bs : Nat) : Moves where
  count := bs * (d1 * d2)
  didx := fun t => (t / (d1 * d2)) * (d1 * d2) + (t / d1 % d2) + (t % d1) * d2
  sidx := fun t => t

/-- the inner loop of permute_dims: `p = tmp / xs[d]; tmp -= p*xs[d]; j += p*ys[d]` -/
def permJ : List (Nat × Nat) → Nat → Nat → Nat
  | [], _, j => j
  | (xs, ys) :: rest, tmp, j => let p := tmp / xs; permJ rest (tmp - p * xs) (j + p * ys)

/-- the stride tables: entry `d` belongs to the x-axis `ndims-1-d`; its y-stride
is that of the y-axis `i` with `perm[i] = ndims-1-d`. -/
def permStrides (x y : Shape) (perm : List Nat) : List (Nat × Nat) :=
  let n := perm.length
  (List.range n).map fun d =>
    let a := n - 1 - d
    (x.lowerVolume a, y.lowerVolume (perm.idxOf a))

def permuteFwMoves (volume bs : Nat) (st : List (Nat × Nat)) : Moves where
  count := bs * volume
  didx := fun t => (t / volume) * volume + permJ st (t % volume) 0
  sidx := fun t => t

/-- flip_fw_impl / flip_bw_impl: `for j < n, i < r: offset = i*n - i%skip*(n-1);
y[offset + j*skip] (+)= x[offset + (n-j-1)*skip]` -/
def flipMoves (n skip r : Nat) : Moves where
  count := n * r
  didx := fun t => let i := t % r; (i * n - i % skip * (n - 1)) + (t / r) * skip
  sidx := fun t => let i := t % r; (i * n - i % skip * (n - 1)) + (n - t / r - 1) * skip

/-- broadcast_fw_impl: `for i < repeat, j < size: dest[axisOff i j] = src[i]` -/
def broadcastMoves (rep skip1 size : Nat) : Moves where
  count := rep * size
  didx := fun t => axisOff skip1 (skip1 * size) (t / size) (t % size)
  sidx := fun t => t / size

/-- batch_pick_fw_impl: `for batch < bs: copy(x + span*ids[batch], span, dest); dest += span` -/
def batchPickMoves (bs span : Nat) (ids : List Nat) : Moves where
  count := bs * span
  didx := fun t => t
  sidx := fun t => span * ids.getD (t / span) 0 + t % span

/-- batch_slice_fw_impl: `copy(x + volume*offset, volume*repeat, dest)` -/
def batchSliceFwMoves (volume rep offset : Nat) : Moves where
  count := volume * rep
  didx := fun t => t
  sidx := fun t => volume * offset + t

def batchSliceBwMoves (volume rep offset : Nat) : Moves where
  count := volume * rep
  didx := fun t => mul32 volume offset + t
  sidx := fun t => t

/-- batch_concat_fw_impl, one source -/
def batchConcatMoves (offset span : Nat) : Moves where
  count := span
  didx := fun t => offset + t
  sidx := fun t => t

def copyMoves (size : Nat) : Moves := ⟨size, fun t => t, fun t => t⟩

def axisReduce (rep n skip1 : Nat) : Reduce := ⟨rep, n, axisOff skip1 (skip1 * n)⟩

/-- batch_sum_fw_impl: `for i < size: for batch < bs: temp += src[i + batch*size]` -/
def batchSumReduce (size bs : Nat) : Reduce := ⟨size, bs, fun i b => i + b * size⟩

/-! ### shape-level front-ends: guard, output shape and loop parameters -/
namespace Front
open Shape

def pickFw (x : Shape) (ids : List Nat) (dim : Nat) : R (Shape × Moves) := do
  let y ← ShapeOps.pick x ids dim
  let base := y.lowerVolume dim
  pure (y, pickMoves y.batch (b2n x.hasBatch * x.volume) (b2n (ids.length > 1)) base
              (base * x.get dim) (y.volume / base) ids)

/-- every `ids[batch * skip_i]` the kernel reads exists -/
def pickIdsOk (bs : Nat) (ids : List Nat) : Bool :=
  (List.range bs).all fun b => decide (b * b2n (ids.length > 1) < ids.length)

def pickBw (gy gx : Shape) (ids : List Nat) (dim : Nat) : R Moves := do
  let sy ← ShapeOps.pick gx ids dim
  if !gy.eq sy then throwError
  else
    let base := gy.lowerVolume dim
    pure (pickMoves gy.batch (b2n gx.hasBatch * gx.volume) (b2n (ids.length > 1)) base
            (base * gx.get dim) (gy.volume / base) ids).swap

def sliceFw (x : Shape) (dim lower upper : Nat) : R (Shape × Moves) := do
  let y ← ShapeOps.slice x dim lower upper
  let base := y.lowerVolume dim
  let span := base * y.get dim
  pure (y, sliceFwMoves base span (base * x.get dim) (y.size / span) lower)

/-- The guard of `Device::slice_bw` as it is on the pinned tree: `offset +
sy[dim]` is a 32-bit sum. -/
def sliceBwGuardPinned (syd sxd offset : Nat) : Bool := decide (add32 offset syd > sxd)

/-- The wrap-free guard (patches/fix-slice-bw-wrap.diff):
`offset > sx[dim] || sy[dim] > sx[dim] - offset`. -/
def sliceBwGuard (syd sxd offset : Nat) : Bool := decide (offset > sxd) || decide (syd > sub32 sxd offset)

/-- What `Device::slice_bw` runs after its guard. -/
inductive SliceBwPlan where
  | inplaceAdd (m : Moves)
  | kernel (m : Moves)

def SliceBwPlan.moves : SliceBwPlan → Moves
  | .inplaceAdd m => m
  | .kernel m => m

def sliceBwWith (guard : Nat → Nat → Nat → Bool) (sy sx : Shape) (dim offset : Nat) : R SliceBwPlan := do
  let loo ← sy.hasSameLooDims sx dim
  if !loo || !sy.hasCompatibleBatch sx || guard (sy.get dim) (sx.get dim) offset then throwError
  else if dim ≥ sx.depth then
    pure (.inplaceAdd (inplaceAddMoves sx.volume (max sy.batch sx.batch) (b2n sx.hasBatch * sx.volume)
            (b2n sy.hasBatch * sx.volume)))
  else
    let base := sx.lowerVolume dim
    let skip := base * sx.get dim
    pure (.kernel (sliceBwMoves base (base * sy.get dim) skip (sx.volume / skip) (max sx.batch sy.batch)
            (b2n sx.hasBatch * sx.volume) (b2n sy.hasBatch * sy.volume) offset))

def sliceBw := sliceBwWith sliceBwGuard
def sliceBwPinned := sliceBwWith sliceBwGuardPinned

/-- running offsets of the sources of concat: `offset += span` -/
def concatPlan (y : Shape) (dim : Nat) : List Shape → Nat → List Moves
  | [], _ => []
  | x :: rest, offset =>
    let base := y.lowerVolume dim
    let skip := base * y.get dim
    concatMoves y.batch base skip (y.volume / skip) offset (x.get dim) (b2n x.hasBatch)
      :: concatPlan y dim rest (offset + base * x.get dim)

def concatFw (xs : List Shape) (dim : Nat) : R (Shape × List Moves) := do
  if xs.isEmpty then throwError
  else
    let y ← ShapeOps.concat xs dim
    pure (y, concatPlan y dim xs 0)

def transposeFw (x : Shape) : R (Shape × Moves) := do
  let y ← ShapeOps.transpose x
  pure (y, transposeMoves (x.get 0) (x.get 1) y.batch)

/-- the shape condition of `DEV_BW_X(transpose, shape_ops::transpose)` -/
def transposeBwGuard (x y gy gx : Shape) : R Unit := do
  if !x.eq gx || !y.eq gy then throwError
  else
    let s ← ShapeOps.transpose x
    if !y.eq s then throwError else pure ()

def permuteFw (x : Shape) (perm : List Nat) : R (Shape × Moves) := do
  let y ← ShapeOps.permuteDims x perm
  pure (y, permuteFwMoves x.volume x.batch (permStrides x y perm))

def permuteBw (x y gy gx : Shape) (perm : List Nat) : R Moves := do
  let sy ← ShapeOps.permuteDims x perm
  if !y.eq sy || !gy.eq sy || !gx.eq x then throwError
  else pure (permuteFwMoves gx.volume gx.batch (permStrides gx gy perm)).swap

def flipFw (x : Shape) (dim : Nat) : R (Shape × Moves) :=
  pure (x, flipMoves (x.get dim) (x.lowerVolume dim) (x.size / x.get dim))

def flipBw (gy gx : Shape) (dim : Nat) : R Moves :=
  if !gy.eq gx then throwError
  else pure (flipMoves (gx.get dim) (gx.lowerVolume dim) (gx.size / gx.get dim))

/-- sum_fw / max_fw / min_fw: `y = new_raw_tensor(x.shape().resize_dim(dim, 1))` -/
def reduceFw (x : Shape) (dim : Nat) : R (Shape × Reduce) := do
  let y ← x.resizeDim dim 1
  pure (y, axisReduce y.size (x.get dim) (y.lowerVolume dim))

def maxBw (x y gy gx : Shape) (dim : Nat) : R Reduce := do
  let s ← x.resizeDim dim 1
  if !gx.eq x || !y.eq s || !gy.eq s then throwError
  else pure (axisReduce y.size (x.get dim) (y.lowerVolume dim))

def broadcastFw (x : Shape) (dim size : Nat) : R (Shape × Moves) := do
  let y ← ShapeOps.broadcast x dim size
  pure (y, broadcastMoves x.size (y.lowerVolume dim) size)

/-- argmax / argmin: no shape precondition at all -/
def argReduce (x : Shape) (dim : Nat) : Reduce :=
  axisReduce (x.size / x.get dim) (x.get dim) (x.lowerVolume dim)

def batchPickFw (x : Shape) (ids : List Nat) : R (Shape × Moves) := do
  let y ← ShapeOps.batchPick x ids
  pure (y, batchPickMoves y.batch x.volume ids)

def batchPickBw (gy gx : Shape) (ids : List Nat) : R Moves := do
  let sy ← ShapeOps.batchPick gx ids
  if !gy.eq sy then throwError
  else pure (batchPickMoves gy.batch gx.volume ids).swap

def batchSliceFw (x : Shape) (lower upper : Nat) : R (Shape × Moves) := do
  let y ← ShapeOps.batchSlice x lower upper
  pure (y, batchSliceFwMoves y.volume y.batch lower)

def batchSliceBwWith (guard : Nat → Nat → Nat → Bool) (sy sx : Shape) (offset : Nat) : R Moves :=
  if !sy.hasSameDims sx || guard sy.batch sx.batch offset then throwError
  else pure (batchSliceBwMoves sy.volume sy.batch offset)

def batchSliceBw := batchSliceBwWith sliceBwGuard
def batchSliceBwPinned := batchSliceBwWith sliceBwGuardPinned

def batchConcatPlan : List Shape → Nat → List Moves
  | [], _ => []
  | x :: rest, offset => batchConcatMoves offset x.size :: batchConcatPlan rest (offset + x.size)

def batchConcatFw (xs : List Shape) : R (Shape × List Moves) := do
  if xs.isEmpty then throwError
  else
    let y ← ShapeOps.batchConcat xs
    pure (y, batchConcatPlan xs 0)

def batchSumFw (x : Shape) : R (Shape × Reduce) := do
  let y ← x.resizeBatch 1
  pure (y, batchSumReduce y.size x.batch)

def identity (size : Nat) : R Shape :=
  if size = 0 then throwError else Shape.new [size, size] 1

/-- `new_handle`: the number of bytes requested, as the pinned code computes it
(`std::uint32_t mem_size = sizeof(float) * shape.size()`), and as the repaired
code does (`std::size_t`, 64 bits). -/
def memSizePinned (s : Shape) : Nat := (4 * s.size) % W
def memSize (s : Shape) : Nat := (4 * s.size) % (W * W)

end Front

/-! ### data-level entry points (what the driver runs) -/

def checkAll {α} : List (Tensor α) → R Unit
  | [] => pure ()
  | x :: xs => do checkDevice x; checkAll xs

def pickFw {α} (x : Tensor α) (ids : List Nat) (dim : Nat) (raw : Nat → α) : R (Tensor α) := do
  checkDevice x
  let (ys, m) ← Front.pickFw x.shape ids dim
  if !Front.pickIdsOk ys.batch ids then crash
  else runSet m x.data x.shape.size ys raw

def pickBw {α} [Add α] (gy : Tensor α) (ids : List Nat) (dim : Nat) (gx : Tensor α) : R (Tensor α) := do
  checkDevice gy; checkDevice gx
  let m ← Front.pickBw gy.shape gx.shape ids dim
  if !Front.pickIdsOk gy.shape.batch ids then crash
  else runAdd m gy gx

def sliceFw {α} (x : Tensor α) (dim lower upper : Nat) (raw : Nat → α) : R (Tensor α) := do
  checkDevice x
  let (ys, m) ← Front.sliceFw x.shape dim lower upper
  runSet m x.data x.shape.size ys raw

def sliceBwWith {α} [Add α] (front : Shape → Shape → Nat → Nat → R Front.SliceBwPlan)
    (gy : Tensor α) (dim offset : Nat) (gx : Tensor α) : R (Tensor α) := do
  checkDevice gy; checkDevice gx
  let p ← front gy.shape gx.shape dim offset
  runAdd p.moves gy gx

def sliceBw {α} [Add α] := @sliceBwWith α _ Front.sliceBw
def sliceBwPinned {α} [Add α] := @sliceBwWith α _ Front.sliceBwPinned

/-- run the loop nests of concat / batch_concat one source after the other -/
def runSetMany {α} (ys : Shape) : List (Moves × Tensor α) → (Nat → α) → R (Nat → α)
  | [], acc => pure acc
  | (m, x) :: rest, acc =>
    if !m.inBounds x.shape.size ys.size then crash
    else runSetMany ys rest (scatterSet m.didx m.sidx x.data m.count acc)

/-- all write indices of a list of loop nests, in order -/
def manyCover (ms : List Moves) (size : Nat) : Bool :=
  (List.range size).all fun o => ms.any fun m => (List.range m.count).any fun t => m.didx t == o

def concatFw {α} (xs : List (Tensor α)) (dim : Nat) (raw : Nat → α) : R (Tensor α) := do
  if xs.isEmpty then throwError
  else
    checkAll xs
    let (ys, ms) ← Front.concatFw (xs.map (·.shape)) dim
    let d ← runSetMany ys (ms.zip xs) raw
    if !manyCover ms ys.size then crash else pure ⟨ys, d, .here⟩

def transposeFw {α} (x : Tensor α) (raw : Nat → α) : R (Tensor α) := do
  checkDevice x
  let (ys, m) ← Front.transposeFw x.shape
  runSet m x.data x.shape.size ys raw

/-- Naive: `inplace_add_impl(transpose_fw(gy), gx)`; Eigen adds the transposed
map directly — the same function. -/
def transposeBw {α} [Add α] (x y gy gx : Tensor α) (raw : Nat → α) : R (Tensor α) := do
  checkDevice x; checkDevice y; checkDevice gy; checkDevice gx
  Front.transposeBwGuard x.shape y.shape gy.shape gx.shape
  let t ← transposeFw gy raw
  let sx := gx.shape
  runAdd (inplaceAddMoves sx.volume (max t.shape.batch sx.batch) (b2n sx.hasBatch * sx.volume)
            (b2n t.shape.hasBatch * sx.volume)) t gx

def permuteFw {α} (x : Tensor α) (perm : List Nat) (raw : Nat → α) : R (Tensor α) := do
  checkDevice x
  let (ys, m) ← Front.permuteFw x.shape perm
  runSet m x.data x.shape.size ys raw

def permuteBw {α} [Add α] (x y gy : Tensor α) (perm : List Nat) (gx : Tensor α) : R (Tensor α) := do
  checkDevice x; checkDevice y; checkDevice gy; checkDevice gx
  let m ← Front.permuteBw x.shape y.shape gy.shape gx.shape perm
  runAdd m gy gx

def flipFw {α} (x : Tensor α) (dim : Nat) (raw : Nat → α) : R (Tensor α) := do
  checkDevice x
  let (ys, m) ← Front.flipFw x.shape dim
  runSet m x.data x.shape.size ys raw

def flipBw {α} [Add α] (gy : Tensor α) (dim : Nat) (gx : Tensor α) : R (Tensor α) := do
  checkDevice gy; checkDevice gx
  let m ← Front.flipBw gy.shape gx.shape dim
  runAdd m gy gx

def runReduce {α} (r : Reduce) (x : Tensor α) (ys : Shape) (f : (Nat → α) → (Nat → Nat) → Nat → α) : R (Tensor α) :=
  if !r.inBounds x.shape.size then crash
  else if r.rep ≠ ys.size then crash
  else pure ⟨ys, fun i => f x.data (r.off i) r.n, .here⟩

def sumFw {α} [Add α] [Zero α] (x : Tensor α) (dim : Nat) : R (Tensor α) := do
  checkDevice x
  let (ys, r) ← Front.reduceFw x.shape dim
  runReduce r x ys sumLoop

def maxFw {α} [LT α] [DecidableLT α] (x : Tensor α) (dim : Nat) : R (Tensor α) := do
  checkDevice x
  let (ys, r) ← Front.reduceFw x.shape dim
  runReduce r x ys maxLoop

def minFw {α} [LT α] [DecidableLT α] (x : Tensor α) (dim : Nat) : R (Tensor α) := do
  checkDevice x
  let (ys, r) ← Front.reduceFw x.shape dim
  runReduce r x ys minLoop

/-- max_bw and min_bw are the same code up to the names of the locals -/
def maxBw {α} [Add α] [DecidableEq α] (x y gy : Tensor α) (dim : Nat) (gx : Tensor α) : R (Tensor α) := do
  checkDevice x; checkDevice y; checkDevice gy; checkDevice gx
  let r ← Front.maxBw x.shape y.shape gy.shape gx.shape dim
  if !r.inBounds x.shape.size || !r.inBounds gx.shape.size || r.rep > y.shape.size || r.rep > gy.shape.size then crash
  else pure ⟨gx.shape, selectAdd r x.data y.data gy.data r.rep gx.data, .here⟩

def minBw {α} [Add α] [DecidableEq α] := @maxBw α _ _

def broadcastFw {α} (x : Tensor α) (dim size : Nat) (raw : Nat → α) : R (Tensor α) := do
  checkDevice x
  let (ys, m) ← Front.broadcastFw x.shape dim size
  runSet m x.data x.shape.size ys raw

def argList {α} (r : Reduce) (x : Tensor α) (f : (Nat → α) → (Nat → Nat) → Nat → α × Nat) : R (List Nat) :=
  if !r.inBounds x.shape.size then crash
  else pure ((List.range r.rep).map fun i => (f x.data (r.off i) (r.n - 1)).2)

/-- `Tensor::argmax(dim)`: `check_valid()`, then `Device::argmax` (CHECK_DEVICE
holds by construction), then the kernel. -/
def argmax {α} [LT α] [DecidableLT α] (x : Tensor α) (dim : Nat) : R (List Nat) := do
  checkDevice x
  argList (Front.argReduce x.shape dim) x argmaxLoop

def argmin {α} [LT α] [DecidableLT α] (x : Tensor α) (dim : Nat) : R (List Nat) := do
  checkDevice x
  argList (Front.argReduce x.shape dim) x argminLoop

def batchPickFw {α} (x : Tensor α) (ids : List Nat) (raw : Nat → α) : R (Tensor α) := do
  checkDevice x
  let (ys, m) ← Front.batchPickFw x.shape ids
  if ys.batch > ids.length then crash
  else runSet m x.data x.shape.size ys raw

def batchPickBw {α} [Add α] (gy : Tensor α) (ids : List Nat) (gx : Tensor α) : R (Tensor α) := do
  checkDevice gy; checkDevice gx
  let m ← Front.batchPickBw gy.shape gx.shape ids
  if gy.shape.batch > ids.length then crash
  else runAdd m gy gx

def batchSliceFw {α} (x : Tensor α) (lower upper : Nat) (raw : Nat → α) : R (Tensor α) := do
  checkDevice x
  let (ys, m) ← Front.batchSliceFw x.shape lower upper
  runSet m x.data x.shape.size ys raw

def batchSliceBwWith {α} [Add α] (front : Shape → Shape → Nat → R Moves)
    (gy : Tensor α) (offset : Nat) (gx : Tensor α) : R (Tensor α) := do
  checkDevice gy; checkDevice gx
  let m ← front gy.shape gx.shape offset
  runAdd m gy gx

def batchSliceBw {α} [Add α] := @batchSliceBwWith α _ Front.batchSliceBw
def batchSliceBwPinned {α} [Add α] := @batchSliceBwWith α _ Front.batchSliceBwPinned

def batchConcatFw {α} (xs : List (Tensor α)) (raw : Nat → α) : R (Tensor α) := do
  if xs.isEmpty then throwError
  else
    checkAll xs
    let (ys, ms) ← Front.batchConcatFw (xs.map (·.shape))
    let d ← runSetMany ys (ms.zip xs) raw
    if !manyCover ms ys.size then crash else pure ⟨ys, d, .here⟩

def batchSumFw {α} [Add α] [Zero α] (x : Tensor α) : R (Tensor α) := do
  checkDevice x
  let (ys, r) ← Front.batchSumFw x.shape
  runReduce r x ys sumLoop

/-- `Device::copy_tensor`: no device check (this is the cross-device copy),
only validity. -/
def copyTensor {α} (x : Tensor α) (raw : Nat → α) : R (Tensor α) :=
  if x.loc = .invalid then throwError
  else runSet (copyMoves x.shape.size) x.data x.shape.size x.shape raw

/-- `Device::identity`: `reset_tensor_impl(0, y)` then `dest[i * (size + 1)] = 1`, i < size -/
def identity {α} (zero one : α) (size : Nat) : R (Tensor α) := do
  let ys ← Front.identity size
  if !allBelow (fun i => i * (size + 1)) size ys.size then crash
  else pure ⟨ys, scatterSet (fun i => i * (size + 1)) (fun _ => 0) (fun _ => one) size (fun _ => zero), .here⟩

/-- `new_tensor_by_constant` = new_handle + `reset_tensor`: every element is written -/
def newConstant {α} (s : Shape) (k : α) : R (Tensor α) :=
  pure ⟨s, fun _ => k, .here⟩

/-- `reset_tensor(k, x)` -/
def resetTensor {α} (k : α) (x : Tensor α) : R (Tensor α) := do
  checkDevice x
  pure ⟨x.shape, fun _ => k, .here⟩

/-- `new_tensor_by_array` / `reset_tensor_by_array`: memcpy of `size` elements;
the caller guarantees the array is long enough. -/
def resetByArray {α} (values : Nat → α) (x : Tensor α) (raw : Nat → α) : R (Tensor α) := do
  checkDevice x
  runSet (copyMoves x.shape.size) values x.shape.size x.shape raw

/-- `new_tensor_by_vector` / `reset_tensor_by_vector`: size check, then by_array -/
def resetByVector {α} (values : List α) (dflt : α) (x : Tensor α) (raw : Nat → α) : R (Tensor α) := do
  checkDevice x
  if values.length ≠ x.shape.size then throwError
  else runSet (copyMoves x.shape.size) (fun i => values.getD i dflt) x.shape.size x.shape raw

/-- `tensor_to_vector` -/
def toVector {α} (x : Tensor α) : R (List α) := do
  checkDevice x
  pure ((List.range x.shape.size).map x.data)

end Primitiv.Move
