/-
Model of primitiv's MessagePack layer: `msgpack::Writer::operator<<`
(primitiv/msgpack/writer.h, the PRIMITIV_WORDSIZE_64 branches),
`msgpack::Reader::operator>>` (primitiv/msgpack/reader.h) and the two value
classes of primitiv/msgpack/objects.h.

* A stream is a list of bytes (`Nat`s below 256; the driver only ever builds
  such lists, the payload of str/bin/ext is copied verbatim).
* Scalars are raw words: `float`/`double` are their bit patterns
  (`UInt32`/`UInt64`, so NaN payloads, infinities, signed zeros and denormals are
  just words), the signed integer types are their two's complement words
  (`ofSigned`/`toSigned` convert; the Writer's `x >> k` on a negative value and
  the Reader's `x = get_uintN()` are exactly that conversion).
* The Reader is typed: `reader >> std::uint32_t` accepts the tag 0xce only.  A
  `Codec α` is the pair `(<<, >>)` for one C++ type; `arr`/`map` are the two
  container templates.  The order `check_type`/`get`/`check_eof` is the code's.
* Outcome of a read: `ok value rest | error eof | error type`.

Tie to the code: correspondence (harness family `msgpack`).  Core Lean only.
-/
namespace Primitiv.Msgpack

abbrev Bytes := List Nat

/-- Why a read failed: `check_eof()` threw, a type tag was not the expected one,
or (file layer) a semantic check of the loader threw. -/
inductive DErr where
  | eof
  | type
  | invalid
deriving DecidableEq, Repr, Inhabited

/-- Result of reading one object from a stream. -/
inductive Res (α : Type) where
  | ok (v : α) (rest : Bytes)
  | error (e : DErr)
deriving Repr

namespace Res
variable {α β : Type}

def bind (r : Res α) (f : α → Bytes → Res β) : Res β :=
  match r with
  | .ok v rest => f v rest
  | .error e => .error e

@[simp] theorem bind_ok (v : α) (r : Bytes) (f : α → Bytes → Res β) : (Res.ok v r).bind f = f v r := rfl
@[simp] theorem bind_error (e : DErr) (f : α → Bytes → Res β) : (Res.error e : Res α).bind f = .error e := rfl

def isOk : Res α → Bool
  | .ok _ _ => true
  | .error _ => false

end Res

/-! ### Byte order helpers of the Writer (`PRIMITIV_UC(x >> k)`) -/

def be16 (n : Nat) : Bytes := [n / 256 % 256, n % 256]
def be32 (n : Nat) : Bytes := [n / 16777216 % 256, n / 65536 % 256, n / 256 % 256, n % 256]
def be64 (n : Nat) : Bytes :=
  [n / 72057594037927936 % 256, n / 281474976710656 % 256, n / 1099511627776 % 256, n / 4294967296 % 256,
   n / 16777216 % 256, n / 65536 % 256, n / 256 % 256, n % 256]

/-! ### Private part of the Reader -/

/-- `get_uint8`: `is_.get(); check_eof();` -/
def getU8 : Bytes → Res Nat
  | [] => .error .eof
  | b :: r => .ok b r

/-- `get_uint16`: `is_.read(c, 2); check_eof(); (c[0] << 8) | c[1]` -/
def getU16 : Bytes → Res Nat
  | a :: b :: r => .ok (a * 256 + b) r
  | _ => .error .eof

def getU32 : Bytes → Res Nat
  | a :: b :: c :: d :: r => .ok (a * 16777216 + b * 65536 + c * 256 + d) r
  | _ => .error .eof

def getU64 : Bytes → Res Nat
  | a :: b :: c :: d :: e :: f :: g :: h :: r =>
    .ok (a * 72057594037927936 + b * 281474976710656 + c * 1099511627776 + d * 4294967296 +
         e * 16777216 + f * 65536 + g * 256 + h) r
  | _ => .error .eof

/-- `read(ptr, size)`: `is_.read(ptr, size); check_eof();` -/
def readN (n : Nat) (bs : Bytes) : Res Bytes :=
  let a := bs.take n
  if a.length < n then .error .eof else .ok a (bs.drop n)   -- fewer than `n` bytes left: eofbit|failbit

/-- `check_type(expected)` -/
def checkType (t : Nat) (bs : Bytes) : Res Unit :=
  (getU8 bs).bind fun o r => if o = t then .ok () r else .error .type

/-! ### Codecs -/

/-- `operator<<` and `operator>>` of one C++ type.  `fits v = false` means that
the Writer throws `primitiv::Error` for `v` (then `enc v` is irrelevant). -/
structure Codec (α : Type) where
  enc : α → Bytes
  dec : Bytes → Res α
  fits : α → Bool

/-- What C13 and C14 ask of a codec, for the values satisfying `P`. -/
structure Lawful {α : Type} (c : Codec α) (P : α → Prop) : Prop where
  /-- the Reader returns what the Writer was given and consumes exactly its bytes -/
  roundtrip : ∀ v rest, P v → c.dec (c.enc v ++ rest) = .ok v rest
  /-- every proper prefix of an encoding is rejected with EOF -/
  prefixFree : ∀ v p q, P v → p ++ q = c.enc v → q ≠ [] → c.dec p = .error .eof

/-! #### nil, bool -/

def nil : Codec Unit where
  enc _ := [0xc0]
  dec bs := (checkType 0xc0 bs).bind fun _ r => .ok () r
  fits _ := true

def bool : Codec Bool where
  enc b := [if b then 0xc3 else 0xc2]          -- `buf[!!x]`
  dec bs := (getU8 bs).bind fun t r =>
    if t &&& 0xfe = 0xc2 then .ok (t &&& 0x01 != 0) r else .error .type
  fits _ := true

/-! #### fixed-width scalars: tag byte + big-endian word -/

def scalar8 (tag : Nat) : Codec UInt8 where
  enc x := [tag, x.toNat]
  dec bs := (checkType tag bs).bind fun _ r => (getU8 r).bind fun n r => .ok (UInt8.ofNat n) r
  fits _ := true

def scalar16 (tag : Nat) : Codec UInt16 where
  enc x := tag :: be16 x.toNat
  dec bs := (checkType tag bs).bind fun _ r => (getU16 r).bind fun n r => .ok (UInt16.ofNat n) r
  fits _ := true

def scalar32 (tag : Nat) : Codec UInt32 where
  enc x := tag :: be32 x.toNat
  dec bs := (checkType tag bs).bind fun _ r => (getU32 r).bind fun n r => .ok (UInt32.ofNat n) r
  fits _ := true

def scalar64 (tag : Nat) : Codec UInt64 where
  enc x := tag :: be64 x.toNat
  dec bs := (checkType tag bs).bind fun _ r => (getU64 r).bind fun n r => .ok (UInt64.ofNat n) r
  fits _ := true

/-- `std::uint32_t` where the model keeps the quantity as a `Nat` (shape
dimensions, counts): the Writer side is `static_cast<std::uint32_t>(n)`. -/
def nat32 : Codec Nat where
  enc n := 0xce :: be32 n
  dec bs := (checkType 0xce bs).bind fun _ r => getU32 r
  fits _ := true

def u8 := scalar8 0xcc
def u16 := scalar16 0xcd
def u32 := scalar32 0xce
def u64 := scalar64 0xcf
/-- signed types: the value is the two's complement word -/
def i8 := scalar8 0xd0
def i16 := scalar16 0xd1
def i32 := scalar32 0xd2
def i64 := scalar64 0xd3
/-- float / double: the value is the bit pattern (`memcpy`) -/
def f32 := scalar32 0xca
def f64 := scalar64 0xcb

/-- two's complement word of a signed value of `bits` bits -/
def ofSigned (bits : Nat) (i : Int) : Nat := (i % (2 ^ bits : Nat)).toNat
/-- signed value of a two's complement word -/
def toSigned (bits : Nat) (w : Nat) : Int := if w < 2 ^ (bits - 1) then (w : Int) else (w : Int) - (2 ^ bits : Nat)

/-! #### str -/

/-- `write_string`: the length prefix.  `[]` stands for the branch that throws. -/
def strHeader (n : Nat) : Bytes :=
  if n < 32 then [0xa0 ||| (n &&& 0x1f)]
  else if n < 256 then [0xd9, n % 256]
  else if n < 65536 then 0xda :: be16 n
  else if n < 4294967296 then 0xdb :: be32 n
  else []

def decStrHeader (bs : Bytes) : Res Nat :=
  (getU8 bs).bind fun t r =>
    if t &&& 0xe0 = 0xa0 then .ok (t &&& 0x1f) r
    else if t = 0xd9 then getU8 r
    else if t = 0xda then getU16 r
    else if t = 0xdb then getU32 r
    else .error .type

def strHdr : Codec Nat := ⟨strHeader, decStrHeader, fun n => n < 4294967296⟩

/-- `std::string` (and `const char *`): header, then the bytes. -/
def str : Codec Bytes where
  enc s := strHeader s.length ++ s
  dec bs := (decStrHeader bs).bind fun n r => readN n r
  fits s := s.length < 4294967296

/-! #### objects::Binary -/

def binHeader (n : Nat) : Bytes :=
  if n < 256 then [0xc4, n % 256]
  else if n < 65536 then 0xc5 :: be16 n
  else if n < 4294967296 then 0xc6 :: be32 n
  else []

def decBinHeader (bs : Bytes) : Res Nat :=
  (getU8 bs).bind fun t r =>
    if t = 0xc4 then getU8 r
    else if t = 0xc5 then getU16 r
    else if t = 0xc6 then getU32 r
    else .error .type

def binHdr : Codec Nat := ⟨binHeader, decBinHeader, fun n => n < 4294967296⟩

def bin : Codec Bytes where
  enc s := binHeader s.length ++ s
  dec bs := (decBinHeader bs).bind fun n r => readN n r
  fits s := s.length < 4294967296

/-! #### objects::Extension: (type, data) -/

/-- header of an ext object: everything before the data, the type byte included -/
def extHeader (n : Nat) (ty : Nat) : Bytes :=
  if n < 256 then
    if n = 1 then [0xd4, ty]
    else if n = 2 then [0xd5, ty]
    else if n = 4 then [0xd6, ty]
    else if n = 8 then [0xd7, ty]
    else if n = 16 then [0xd8, ty]
    else [0xc7, n % 256, ty]
  else if n < 65536 then 0xc8 :: (be16 n ++ [ty])
  else if n < 4294967296 then 0xc9 :: (be32 n ++ [ty])
  else []

/-- the size part of the header: `switch (type)` of `operator>>(Extension &)` -/
def decExtSize (bs : Bytes) : Res Nat :=
  (getU8 bs).bind fun t r =>
    if t = 0xd4 then .ok 1 r
    else if t = 0xd5 then .ok 2 r
    else if t = 0xd6 then .ok 4 r
    else if t = 0xd7 then .ok 8 r
    else if t = 0xd8 then .ok 16 r
    else if t = 0xc7 then getU8 r
    else if t = 0xc8 then getU16 r
    else if t = 0xc9 then getU32 r
    else .error .type

/-- `read(ret.allocate(get_uint8(), size), size)`: the type byte is read first. -/
def ext : Codec (UInt8 × Bytes) where
  enc x := extHeader x.2.length x.1.toNat ++ x.2
  dec bs := (decExtSize bs).bind fun n r => (getU8 r).bind fun ty r => (readN n r).bind fun d r => .ok (UInt8.ofNat ty, d) r
  fits x := x.2.length < 4294967296

/-! #### std::vector<T> -/

/-- the length prefix of `operator<<(const std::vector<T> &)`.  There is no `else`
after the last `else if`: a vector of 2^32 or more elements gets no prefix. -/
def arrHeader (n : Nat) : Bytes :=
  if n < 16 then [0x90 ||| (n &&& 0x0f)]
  else if n < 65536 then 0xdc :: be16 n
  else if n < 4294967296 then 0xdd :: be32 n
  else []

def decArrHeader (bs : Bytes) : Res Nat :=
  (getU8 bs).bind fun t r =>
    if t &&& 0xf0 = 0x90 then .ok (t &&& 0x0f) r
    else if t = 0xdc then getU16 r
    else if t = 0xdd then getU32 r
    else .error .type

def arrHdr : Codec Nat := ⟨arrHeader, decArrHeader, fun _ => true⟩

/-- `for (const T &elm : x) *this << elm;` -/
def encList {α : Type} (c : Codec α) (l : List α) : Bytes := l.flatMap c.enc

/-- `std::vector<T> ret(size); for (i < size) *this >> ret[i];` -/
def decList {α : Type} (c : Codec α) : Nat → Bytes → Res (List α)
  | 0, bs => .ok [] bs
  | n + 1, bs => (c.dec bs).bind fun v r => (decList c n r).bind fun vs r' => .ok (v :: vs) r'

def arr {α : Type} (c : Codec α) : Codec (List α) where
  enc l := arrHeader l.length ++ encList c l
  dec bs := (decArrHeader bs).bind fun n r => decList c n r
  fits l := l.all c.fits

/-! #### std::unordered_map<K, V>

The value of a map is the list of its entries in iteration order (any order;
keys distinct).  The Reader inserts the entries it reads with `emplace`, which
keeps the first entry of a key. -/

def mapHeader (n : Nat) : Bytes :=
  if n < 16 then [0x80 ||| (n &&& 0x0f)]
  else if n < 65536 then 0xde :: be16 n
  else if n < 4294967296 then 0xdf :: be32 n
  else []

def decMapHeader (bs : Bytes) : Res Nat :=
  (getU8 bs).bind fun t r =>
    if t &&& 0xf0 = 0x80 then .ok (t &&& 0x0f) r
    else if t = 0xde then getU16 r
    else if t = 0xdf then getU32 r
    else .error .type

def mapHdr : Codec Nat := ⟨mapHeader, decMapHeader, fun _ => true⟩

/-- one entry: `*this << elm.first << elm.second` / `*this >> key; *this >> value;` -/
def pair {κ ν : Type} (k : Codec κ) (v : Codec ν) : Codec (κ × ν) where
  enc p := k.enc p.1 ++ v.enc p.2
  dec bs := (k.dec bs).bind fun a r => (v.dec r).bind fun b r' => .ok (a, b) r'
  fits p := k.fits p.1 && v.fits p.2

/-- `ret.emplace(key, value)`: no effect when the key is present. -/
def emplace {κ ν : Type} [DecidableEq κ] (m : List (κ × ν)) (p : κ × ν) : List (κ × ν) :=
  if m.any (fun q => q.1 = p.1) then m else m ++ [p]

def emplaceAll {κ ν : Type} [DecidableEq κ] (l : List (κ × ν)) : List (κ × ν) := l.foldl emplace []

/-- lexicographic order on byte strings -/
def bytesLt : Bytes → Bytes → Bool
  | [], [] => false
  | [], _ :: _ => true
  | _ :: _, [] => false
  | a :: as, b :: bs => if a < b then true else if b < a then false else bytesLt as bs

/-- each element strictly below the next -/
def chainLt : List Bytes → Bool
  | a :: b :: r => bytesLt a b && chainLt (b :: r)
  | _ => true

/-- a cheap sufficient test for "all keys distinct": the sorted key encodings are strictly increasing -/
def distinctKeys {κ ν : Type} (k : Codec κ) (es : List (κ × ν)) : Bool :=
  chainLt ((es.map fun e => k.enc e.1).mergeSort fun a b => !bytesLt b a)

/-- all `emplace` calls of one read.  Equal to `emplaceAll es` (`insertAll_eq`, Lemmas/Msgpack.lean);
the test only avoids the quadratic walk when there is nothing to drop. -/
def insertAll {κ ν : Type} [DecidableEq κ] (k : Codec κ) (es : List (κ × ν)) : List (κ × ν) :=
  if distinctKeys k es then es else emplaceAll es

def map {κ ν : Type} [DecidableEq κ] (k : Codec κ) (v : Codec ν) : Codec (List (κ × ν)) where
  enc l := mapHeader l.length ++ encList (pair k v) l
  dec bs := (decMapHeader bs).bind fun n r => (decList (pair k v) n r).bind fun es r' => .ok (insertAll k es) r'
  fits l := l.all (pair k v).fits

/-! ### objects.h: ownership of the data pointer

`Binary`/`Extension` own `in_data_` (allocated with `new char[]`).  The only
operation whose memory behaviour depends on the state is move assignment
(`delete in_data_` on the pinned tree, `delete[]` after the fix): with a
`new[]`-allocated destination the pinned code is a new[]/delete mismatch.  The
model describes the repaired code: move assignment releases the destination's
block and transfers the source's. -/
structure Obj where
  /-- `none` = placeholder (both pointers null) -/
  data : Option Bytes
deriving Repr, DecidableEq

/-- `a = std::move(b)`: returns (a, b) after the assignment -/
def Obj.moveAssign (_a b : Obj) : Obj × Obj := (b, ⟨none⟩)

end Primitiv.Msgpack
