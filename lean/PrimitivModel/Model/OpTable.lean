/-
Record types of the operator / function table that `translate/operators.py`
generates from operator_impl.{h,cc}, node_funcs.cc, tensor_funcs.cc,
arithmetic.h, contrib/functions.h, device.cc and tensor.cc, and the checking
functions (all `Bool`-valued, structural recursion with fuel, so that `decide`
evaluates them in the kernel) used by the theorems of Props/C04.lean.

Core Lean only.  The table is data: strings, naturals and lists.

Every C++ body is a list of `Branch`es (a decision list: run `pre`, test `cond`,
when it holds run `body` and return, otherwise go on with the next branch); a
branch is three-address code, one `Call` per function call / operator /
assignment of the source.  Terms are strings:
  `x0 x1 y0 gy0 gx1`   `*x[0]` … of a rule body     `y[i] gy[i] gxi`  indexed by the loop
  `dim_`               attribute of the operator     `a b dim`          parameter / local
  `%3`                 temporary                      `#0 #.01`          literal
-/
namespace Primitiv.OpTable

/-- Declared number of arguments (`num_arguments()`). -/
inductive Argn where
  | num (n : Nat)
  | any
  | nonzero
  | unsupported (src : String)
deriving DecidableEq, Repr, Inhabited

/-- Declared number of return values (`num_returns()`): a literal or an attribute. -/
inductive Retn where
  | num (n : Nat)
  | attr (a : String)
  | unsupported (src : String)
deriving DecidableEq, Repr, Inhabited

/-- Which indices of an argument vector (`x`, `y`, `gx`, `gy`) a body uses. -/
inductive Idx where
  | none
  /-- literal indices, maximum `n` -/
  | upto (n : Nat)
  /-- indexed by a loop variable with the given bound (`"n_"`), or the whole
  vector is passed on / iterated (`""`) -/
  | all (bound : String)
deriving DecidableEq, Repr, Inhabited

structure Param where
  name : String
  /-- type class: var vars varptrs f32 u32 i32 bool ids shape dev devp graphp param floats other -/
  ty : String
deriving DecidableEq, Repr, Inhabited

/-- One call / operator / assignment of the source in three-address form. -/
structure Call where
  /-- destination term (`""` for a statement) -/
  dst : String
  /-- set | add | sub | ret | push | throwif | stmt -/
  mode : String
  /-- fn (functions::f) | op (operator on variables) | kernel (Device method) | self (method of
  `this`) | shape (shape_ops::f) | method | ctor | arith | copy | reg (add_operator) | helper |
  noop | throw | unsupported -/
  kind : String
  name : String
  /-- receiver: the device expression of a kernel call, the object of a method, the graph of a `reg` -/
  recv : String
  args : List String
  /-- constructor arguments of the operator of a `reg` -/
  cargs : List String
  /-- `""`, `"i<n_"` (counted loop) or `"gxi:gx"` (range-for) -/
  loop : String
deriving DecidableEq, Repr, Inhabited

structure Branch where
  pre : List Call
  /-- term holding the condition; `""` = unconditional -/
  cond : String
  body : List Call
deriving DecidableEq, Repr, Inhabited

abbrev Body := List Branch

/-- A rule body (FWD_SHAPE / FORWARD / BACKWARD) with its index usage. -/
structure Rule where
  body : Body
  x : Idx
  y : Idx
  gx : Idx
  gy : Idx
  /-- literal indices of `y` assigned by the body -/
  ySet : List Nat
  /-- bound of the loop assigning `y[i]`, `""` if none -/
  ySetAll : String
deriving DecidableEq, Repr, Inhabited

structure Attr where
  name : String
  ty : String
deriving DecidableEq, Repr, Inhabited

structure Op where
  name : String
  argn : Argn
  retn : Retn
  innerValues : Bool
  /-- `""`: inherited from `args[0]`; otherwise the source of `get_device()` (`& device_`) -/
  device : String
  attrs : List Attr
  /-- constructor parameters -/
  ctorParams : List Param
  /-- attribute ↦ constructor parameter of the member initialiser list -/
  ctorInit : List (String × String)
  /-- statements of the constructor body -/
  ctorBody : Body
  /-- number of tensors returned by `get_inner_values()` (operators with inner values) -/
  innerCount : Nat
  hasForward : Bool
  fwdShape : Rule
  fwd : Rule
  bwd : Rule
deriving Repr, Inhabited

/-- A function: a public function on Nodes (node_funcs.cc) or on Tensors
(tensor_funcs.cc), an operator template of arithmetic.h, a composite template
of contrib/functions.h, a device front-end of device.cc, a Tensor method. -/
structure Fn where
  /-- `""`, `"batch"`, `"random"`, `"Device"`, `"Tensor"` -/
  ns : String
  name : String
  params : List Param
  body : Body
deriving Repr, Inhabited

structure Table where
  ops : List Op
  nodeFns : List Fn
  tensorFns : List Fn
  arithFns : List Fn
  sharedFns : List Fn
  fronts : List Fn
  tmethods : List Fn
deriving Repr, Inhabited

end Primitiv.OpTable
