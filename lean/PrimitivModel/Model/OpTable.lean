/-
Record types of the operator / function table that `translate/operators.py`
generates from operator_impl.{h,cc}, node_funcs.cc, tensor_funcs.cc,
arithmetic.h, basic_functions.h, contrib/functions.h, device.cc and tensor.cc,
and the checking functions (all `Bool`-valued, structural recursion on fuel, so
that `decide` evaluates them in the kernel) used by the theorems of
Props/C04.lean.

Core Lean only.  The table is data: strings, naturals and lists.

Every C++ body is a list of `Branch`es (a decision list: run `pre`, test `cond`,
when it holds run `body` and return, otherwise go on with the next branch); a
branch is three-address code, one `Call` per function call / operator /
assignment of the source.  Terms are strings:
  `x0 x1 y0 gy0 gx1`   `*x[0]` … of a rule body     `y[i] gy[i] gxi`  indexed by the loop
  `dim_`               attribute of the operator     `a b dim`          parameter / local
  `%3`                 temporary                      `#0 #.01`          literal
-/
namespace Primitiv.OpTable

/-- Declared number of arguments (`num_arguments()`). -/
inductive Argn where
  | num (n : Nat)
  | any
  | nonzero
  | unsupported (src : String)
deriving DecidableEq, Repr, Inhabited

/-- Declared number of return values (`num_returns()`): a literal or an attribute. -/
inductive Retn where
  | num (n : Nat)
  | attr (a : String)
  | unsupported (src : String)
deriving DecidableEq, Repr, Inhabited

/-- Which indices of an argument vector (`x`, `y`, `gx`, `gy`) a body uses. -/
inductive Idx where
  | none
  /-- literal indices, maximum `n` -/
  | upto (n : Nat)
  /-- indexed by a loop variable with the given bound (`"n_"`), or the whole
  vector is passed on / iterated (`""`) -/
  | all (bound : String)
deriving DecidableEq, Repr, Inhabited

structure Param where
  name : String
  /-- type class: var vars varptrs f32 u32 i32 bool ids shape dev devp graphp param floats other -/
  ty : String
deriving DecidableEq, Repr, Inhabited

/-- One call / operator / assignment of the source in three-address form. -/
structure Call where
  /-- destination term (`""` for a statement) -/
  dst : String
  /-- type class of the destination -/
  ty : String
  /-- set | add | sub | ret | push | throwif | stmt -/
  mode : String
  /-- fn (functions::f) | op (operator on variables) | kernel (Device method) | self (method of
  `this`) | shape (shape_ops::f) | method | ctor | arith | copy | reg (add_operator) | helper |
  noop | throw | unsupported -/
  kind : String
  name : String
  /-- receiver: the device expression of a kernel call, the object of a method, the graph of a
  `reg`, the explicit template argument of a `fn` -/
  recv : String
  args : List String
  /-- constructor arguments of the operator of a `reg` -/
  cargs : List String
  /-- bound of the enclosing counted loop (`"n_"`), `":gx"` for a range-for over `gx`, `""` = no loop -/
  loop : String
  /-- the loop variable -/
  lvar : String
deriving DecidableEq, Repr, Inhabited

structure Branch where
  pre : List Call
  /-- term holding the condition; `""` = unconditional -/
  cond : String
  body : List Call
deriving DecidableEq, Repr, Inhabited

abbrev Body := List Branch

/-- A rule body (FWD_SHAPE / FORWARD / BACKWARD) with its index usage. -/
structure Rule where
  body : Body
  x : Idx
  y : Idx
  gx : Idx
  gy : Idx
  /-- literal indices of `y` assigned by the body -/
  ySet : List Nat
  /-- bound of the loop assigning `y[i]`, `""` if none -/
  ySetAll : String
deriving DecidableEq, Repr, Inhabited

structure Attr where
  name : String
  ty : String
deriving DecidableEq, Repr, Inhabited

structure Op where
  name : String
  argn : Argn
  retn : Retn
  innerValues : Bool
  /-- `""`: inherited from `args[0]`; otherwise the source of `get_device()` (`& device_`) -/
  device : String
  attrs : List Attr
  /-- constructor parameters -/
  ctorParams : List Param
  /-- attribute ↦ constructor parameter of the member initialiser list -/
  ctorInit : List (String × String)
  /-- statements of the constructor body -/
  ctorBody : Body
  /-- number of tensors returned by `get_inner_values()` (operators with inner values) -/
  innerCount : Nat
  /-- body of `get_inner_values()` -/
  innerBody : Body
  hasForward : Bool
  fwdShape : Rule
  fwd : Rule
  bwd : Rule
deriving Repr, Inhabited

/-- A function: a public function on Nodes (node_funcs.cc) or on Tensors
(tensor_funcs.cc), an operator template of arithmetic.h, a wrapper template of
basic_functions.h, a composite template of contrib/functions.h, a device
front-end of device.cc, a Tensor method. -/
structure Fn where
  /-- `""`, `"batch"`, `"random"`, `"(anon)"`, `"Device"`, `"Tensor"` -/
  ns : String
  /-- namespace-qualified name relative to primitiv::functions (`"batch::pick"`) -/
  name : String
  /-- `"Tensor"` / `"Node"` for a specialisation, `"Var"` for a generic template -/
  targ : String
  params : List Param
  body : Body
deriving Repr, Inhabited

structure Table where
  ops : List Op
  nodeFns : List Fn
  tensorFns : List Fn
  arithFns : List Fn
  sharedFns : List Fn
  basicFns : List Fn
  fronts : List Fn
  tmethods : List Fn
deriving Repr, Inhabited

/-! ## Lookups -/

def Table.findOp (t : Table) (n : String) : Option Op := t.ops.find? (·.name == n)

def Branch.calls (b : Branch) : List Call := b.pre ++ b.body

def bodyCalls (b : Body) : List Call := b.flatMap Branch.calls

/-- type classes that overload resolution does not distinguish -/
def tyNorm (s : String) : String :=
  if s == "f32" || s == "u32" || s == "i32" || s == "num" || s == "bool" then "num"
  else if s == "dev" || s == "devp" then "dev"
  else if s == "graph" || s == "graphp" then "graph"
  else s

def isVecTy (s : String) : Bool := s == "vars" || s == "varptrs"

/-- an argument of type class `arg` can be passed for a parameter of type class `param`
(`nullptr` for any pointer parameter) -/
def tyMatch (param arg : String) : Bool :=
  tyNorm param == tyNorm arg || (arg == "null" && (tyNorm param == "dev" || tyNorm param == "graph"))

def tysMatch : List String → List String → Bool
  | [], [] => true
  | p :: ps, a :: as => tyMatch p a && tysMatch ps as
  | _, _ => false

/-! ## `OpTable.no_unsupported` -/

def bodySupported (b : Body) : Bool := (bodyCalls b).all (·.kind != "unsupported")

def Op.supported (o : Op) : Bool :=
  (match o.argn with | .unsupported _ => false | _ => true) &&
  (match o.retn with | .unsupported _ => false | _ => true) &&
  -- every member initialiser is `attr_(ctor parameter)`
  o.ctorInit.all (fun p => o.attrs.any (·.name == p.1) && o.ctorParams.any (·.name == p.2)) &&
  bodySupported o.ctorBody && bodySupported o.innerBody &&
  bodySupported o.fwdShape.body && bodySupported o.fwd.body && bodySupported o.bwd.body

def Fn.supported (f : Fn) : Bool := bodySupported f.body

def Table.noUnsupported (t : Table) : Bool :=
  t.ops.all Op.supported && t.nodeFns.all Fn.supported && t.tensorFns.all Fn.supported &&
  t.arithFns.all Fn.supported && t.sharedFns.all Fn.supported && t.basicFns.all Fn.supported &&
  t.fronts.all Fn.supported && t.tmethods.all Fn.supported

/-! ## `OpTable.arity_consistent` -/

/-- an index use on `x` / `gx` against the declared argument count -/
def idxOkArg (argn : Argn) : Idx → Bool
  | .none => true
  | .upto n =>
    match argn with
    | .num k => decide (n < k)
    | .nonzero => n == 0
    | _ => false
  | .all _ => true

/-- an index use on `y` / `gy` against the declared return count; `guard0` = the shape rule
rejects a zero count, so that index 0 exists -/
def idxOkRet (retn : Retn) (guard0 : Bool) : Idx → Bool
  | .none => true
  | .upto n =>
    match retn with
    | .num k => decide (n < k)
    | .attr _ => n == 0 && guard0
    | _ => false
  | .all b =>
    match retn with
    | .attr a => b == a
    | _ => false

/-- the values a rule assigns are exactly the declared returns -/
def assignsAll (retn : Retn) (r : Rule) : Bool :=
  match retn with
  | .num k => r.ySet == List.range k && r.ySetAll == ""
  | .attr a => r.ySet == [] && r.ySetAll == a
  | _ => false

/-- the shape rule throws when the attribute `a` is zero: `if (a == 0) THROW` -/
def rejectsZero (r : Rule) (a : String) : Bool :=
  let cs := bodyCalls r.body
  cs.any fun c => c.mode == "throwif" &&
    cs.any fun d => some d.dst == c.args.head? && d.kind == "arith" && d.name == "==" && d.args == [a, "#0"]

def Op.arityOk (o : Op) : Bool :=
  let g0 := match o.retn with | .attr a => rejectsZero o.fwdShape a | _ => true
  idxOkArg o.argn o.fwdShape.x && idxOkRet o.retn g0 o.fwdShape.y &&
  idxOkArg o.argn o.fwd.x && idxOkRet o.retn g0 o.fwd.y &&
  idxOkArg o.argn o.bwd.x && idxOkRet o.retn g0 o.bwd.y &&
  idxOkArg o.argn o.bwd.gx && idxOkRet o.retn g0 o.bwd.gy &&
  assignsAll o.retn o.fwdShape &&
  (if o.innerValues then (o.retn == .num o.innerCount && !o.hasForward)
   else (o.hasForward && assignsAll o.retn o.fwd))

/-- `if (xs.empty()) THROW` occurs in the calls -/
def rejectsEmpty (cs : List Call) (xs : String) : Bool :=
  cs.any fun c => c.mode == "throwif" &&
    cs.any fun d => some d.dst == c.args.head? && d.kind == "method" && d.name == "empty" && d.recv == xs

/-- One registration `add_operator(new Op(cargs…), {nodes…})` of a Node function against the
operator's declaration. -/
def regOk (t : Table) (f : Fn) (cs : List Call) (c : Call) : Bool :=
  match t.findOp c.name with
  | none => false
  | some o =>
    c.cargs.length == o.ctorParams.length &&
    (let vec := c.args.filter fun a => f.params.any fun p => p.name == a && isVecTy p.ty
     if vec.isEmpty then
       match o.argn with
       | .num k => c.args.length == k
       | .nonzero => decide (c.args.length > 0)
       | .any => true
       | .unsupported _ => false
     else
       -- a whole vector of nodes is passed
       c.args.length == 1 &&
       (match o.argn with
        | .nonzero => rejectsEmpty cs (c.args.headD "")
        | .any => true
        | _ => false))

def Fn.regsOk (t : Table) (f : Fn) : Bool :=
  let cs := bodyCalls f.body
  cs.all fun c => c.kind != "reg" || regOk t f cs c

def Table.arityConsistent (t : Table) : Bool :=
  t.ops.all Op.arityOk && t.nodeFns.all (Fn.regsOk t)

/-- the operators / functions that violate `arityConsistent` (diagnostics) -/
def Table.arityOffenders (t : Table) : List String :=
  (t.ops.filter (fun o => !o.arityOk)).map (·.name) ++
  (t.nodeFns.filter (fun f => !f.regsOk t)).map (·.name)

/-! ## Symbolic evaluation

A term is a token list.  A body is evaluated over terms: pure calls build
compound terms, a `kernel` call (a `Device` method, `Tensor::reshape/flatten`)
is appended to the trace and yields a fresh result atom, a call of a function
of primitiv::functions / an operator is resolved through the table by name and
argument types and inlined, an `add_operator` registration runs the operator's
FWD_SHAPE rule (giving the static shape term) and its FORWARD rule.  A branch
condition that the path condition does not decide splits the evaluation. -/

abbrev Tm := List String

structure Val where
  tm : Tm
  ty : String
deriving DecidableEq, Repr, Inhabited

structure KCall where
  kernel : String
  recv : Tm
  args : List Tm
  /-- bound of the enclosing loop (`[]` = none) -/
  loop : Tm
deriving DecidableEq, Repr, Inhabited

/-- One operator registration met on a path. -/
structure RegRec where
  op : String
  /-- the value of `*y[0]` (or `*y[i]`) after FWD_SHAPE -/
  shapeTm : Tm
  /-- position and number of the kernel calls of its FORWARD rule in the trace -/
  first : Nat
  count : Nat
  /-- the value computed by FORWARD -/
  ret : Tm
deriving DecidableEq, Repr, Inhabited

structure St where
  env : List (String × Val)
  trace : List KCall
  regs : List RegRec
  /-- path condition -/
  pc : List (Tm × Bool)
  nres : Nat
  /-- bound of the loop being evaluated (`[]` = none) -/
  lp : Tm
  /-- evaluation failed (out of fuel, unknown function / operator, unsupported entry) -/
  bad : Bool
deriving Repr, Inhabited

abbrev Outcome := St × Option Val

def commaSep : List Tm → Tm
  | [] => []
  | [a] => a
  | a :: rest => a ++ "," :: commaSep rest

def mkApp (f : String) (args : List Tm) : Tm := f :: "(" :: (commaSep args ++ [")"])

def mkList (args : List Tm) : Tm := "[" :: (commaSep args ++ ["]"])

/-- first element of a list term `[ a , b ]` (tokens up to the first top-level `,` or `]`) -/
def firstElemAux : List String → Nat → Tm
  | [], _ => []
  | t :: rest, depth =>
    if t == "(" || t == "[" then t :: firstElemAux rest (depth + 1)
    else if t == ")" then t :: firstElemAux rest (depth - 1)
    else if t == "]" then (if depth == 0 then [] else t :: firstElemAux rest (depth - 1))
    else if t == "," && depth == 0 then []
    else t :: firstElemAux rest depth

def firstElem (tm : Tm) : Tm :=
  match tm with
  | "[" :: rest => firstElemAux rest 0
  | _ => mkApp "at" [tm, ["#0"]]

def lookupVal (env : List (String × Val)) (a : String) : Val :=
  match env.lookup a with
  | some v => v
  | none => ⟨[a], if a == "#nullptr" then "null" else "num"⟩

def bindVal (env : List (String × Val)) (k : String) (v : Val) : List (String × Val) :=
  (k, v) :: env

def St.fail (s : St) : St := { s with bad := true }

def resultAtom (n : Nat) : Tm := "r" :: List.replicate n "'"

def xNames : List String := ["x0", "x1", "x2", "x3", "x4", "x5", "x6", "x7"]
def pNames : List String := ["p0", "p1", "p2", "p3", "p4", "p5", "p6", "p7", "p8", "p9"]

/-- Function lookup by qualified name, variable type and normalised argument types:
Node level → node_funcs.cc first, Tensor level → tensor_funcs.cc first; then the wrappers of
basic_functions.h and the composites of contrib/functions.h. -/
def findFn (t : Table) (node : Bool) (name : String) (argTys : List String) : Option Fn :=
  let ok (f : Fn) : Bool :=
    f.name == name && tysMatch (f.params.map (·.ty)) argTys &&
    (f.targ == "" || f.targ == "Var" || f.targ == (if node then "Node" else "Tensor"))
  ((if node then t.nodeFns else t.tensorFns) ++ t.basicFns ++ t.sharedFns).find? ok

def findArith (t : Table) (sym : String) (argTys : List String) : Option Fn :=
  let name :=
    if sym == "+" || sym == "pos" then "operator+" else if sym == "-" || sym == "neg" then "operator-"
    else if sym == "*" then "operator*" else if sym == "/" then "operator/" else sym
  t.arithFns.find? fun f => f.name == name && tysMatch (f.params.map (·.ty)) argTys

def isDevsel (tm : Tm) : Bool := tm.head? == some "devsel"

/-- value of a pure call (no kernel, no function) -/
def pureVal (c : Call) (recv : Val) (args : List Val) : Val :=
  let as := args.map (·.tm)
  if c.kind == "method" then
    if c.name == "at" then
      (if args.map (·.tm) == [["#0"]] && (recv.ty == "nodes" || recv.tm.head? == some "[") then
         (if recv.ty == "nodes" then ⟨recv.tm, "var"⟩ else ⟨firstElem recv.tm, c.ty⟩)
       else ⟨mkApp "at" (recv.tm :: as), c.ty⟩)
    else if c.name == "device" then ⟨mkApp "dev" [recv.tm], "dev"⟩
    else ⟨mkApp c.name (recv.tm :: as), c.ty⟩
  else if c.kind == "helper" then
    if c.name == "ptr_to_obj" || c.name == "obj_to_ptr" then ⟨(args.headD default).tm, c.ty⟩
    else if c.name == "Graph::get_reference_or_default" then ⟨mkApp "graphsel" as, "graph"⟩
    else
      -- get_device(dev) / Device::get_reference_or_default(dev) / Device::get_default():
      -- "the device `dev` points to, or the default device"
      (let a := (args.headD ⟨["#nullptr"], "dev"⟩).tm
       if isDevsel a then ⟨a, "dev"⟩ else ⟨mkApp "devsel" [a], "dev"⟩)
  else if c.kind == "arith" then
    if c.name == "&" || c.name == "std::move" then ⟨(args.headD default).tm, (args.headD default).ty⟩
    else ⟨mkApp c.name as, c.ty⟩
  else if c.kind == "ctor" then
    if c.name == "{}" || c.name == "Shape" then ⟨mkList as, c.ty⟩
    else if c.name == "vector" && as.length == 1 then ⟨(args.headD default).tm, c.ty⟩
    else if c.name == "default" then ⟨mkList [], c.ty⟩
    else ⟨mkApp c.name as, c.ty⟩
  else if c.kind == "shape" then ⟨"shape_ops" :: mkApp c.name as, "shape"⟩
  else if c.kind == "self" then ⟨mkApp c.name as, c.ty⟩
  else ⟨(args.headD default).tm, (args.headD default).ty⟩   -- copy

/-- store the result of a call -/
def store (c : Call) (v : Val) (s : St) : St :=
  if c.dst == "" then s
  else if c.mode == "push" then
    -- `ret.emplace_back(v)` inside a loop
    { s with env := bindVal s.env c.dst ⟨"loopvec" :: v.tm, "vars"⟩ }
  else { s with env := bindVal s.env c.dst (if c.ty == "" || c.ty == "other" then v else ⟨v.tm, c.ty⟩) }

mutual

/-- the calls of one branch, in order; stops at a `ret` -/
def evalCalls (t : Table) (node : Bool) : Nat → List Call → St → List Outcome
  | 0, _, s => [(s.fail, none)]
  | _ + 1, [], s => [(s, none)]
  | fuel + 1, c :: rest, s =>
    (evalCall t node fuel c s).flatMap fun (o : Outcome) =>
      match o.2 with
      | some v => [(o.1, some v)]
      | none => if o.1.bad then [(o.1, none)] else evalCalls t node fuel rest o.1

/-- a decision list -/
def evalBody (t : Table) (node : Bool) : Nat → Body → St → List Outcome
  | 0, _, s => [(s.fail, none)]
  | _ + 1, [], s => [(s, none)]
  | fuel + 1, br :: rest, s =>
    (evalCalls t node fuel br.pre s).flatMap fun (o : Outcome) =>
      let s1 := o.1
      if s1.bad then [(s1, none)]
      else if br.cond == "" then
        (evalCalls t node fuel br.body s1).flatMap fun (o2 : Outcome) =>
          match o2.2 with
          | some v => [(o2.1, some v)]
          | none => if o2.1.bad then [o2] else evalBody t node fuel rest o2.1
      else
        let c := (lookupVal s1.env br.cond).tm
        match s1.pc.lookup c with
        | some true => evalCalls t node fuel br.body s1
        | some false => evalBody t node fuel rest s1
        | none =>
          evalCalls t node fuel br.body { s1 with pc := (c, true) :: s1.pc } ++
          evalBody t node fuel rest { s1 with pc := (c, false) :: s1.pc }

/-- inline a function: parameters bound to the argument values in a fresh environment -/
def evalFn (t : Table) (node : Bool) : Nat → Fn → List Val → St → List Outcome
  | 0, _, _, s => [(s.fail, none)]
  | fuel + 1, f, args, s =>
    let env := (f.params.map (·.name)).zip args
    (evalBody t node fuel f.body { s with env := env }).map fun (o : Outcome) =>
      ({ o.1 with env := s.env }, o.2)

/-- one call -/
def evalCall (t : Table) (node : Bool) : Nat → Call → St → List Outcome
  | 0, _, s => [(s.fail, none)]
  | fuel + 1, c, s0 =>
    -- the loop variable is the canonical atom `$i`
    let look (a : String) : Val := if c.lvar != "" && a == c.lvar then ⟨["$i"], "num"⟩ else lookupVal s0.env a
    let args := c.args.map look
    let recv := look c.recv
    let s : St := if c.loop == "" then s0 else { s0 with lp := (lookupVal s0.env c.loop).tm }
    (fun (os : List Outcome) => os.map fun (o : Outcome) => ({ o.1 with lp := s0.lp }, o.2)) <|
    if c.kind == "unsupported" then [(s.fail, none)]
    else if c.kind == "noop" || c.kind == "throw" then [(s, none)]
    else if c.mode == "ret" then [(s, some (args.headD ⟨[], ""⟩))]
    else if c.kind == "kernel" || (c.kind == "method" && !node && recv.ty == "var" && (c.name == "reshape" || c.name == "flatten")) then
      let k : KCall := ⟨c.name, recv.tm, args.map (·.tm), s.lp⟩
      let v : Val := ⟨resultAtom s.nres, "var"⟩
      [(store c v { s with trace := s.trace ++ [k], nres := s.nres + 1 }, none)]
    else if c.kind == "fn" then
      -- an explicit template argument `f<Tensor>` fixes the level
      let lvl := if c.recv == "Tensor" then false else if c.recv == "Node" then true else node
      match findFn t lvl c.name (args.map (·.ty)) with
      | none => [(s.fail, none)]
      | some f =>
        (evalFn t lvl fuel f args s).map fun (o : Outcome) =>
          match o.2 with
          | some v => (store c v o.1, none)
          | none => (o.1.fail, none)
    else if c.kind == "op" then
      match findArith t c.name (args.map (·.ty)) with
      | none => [(s.fail, none)]
      | some f =>
        (evalFn t node fuel f args s).map fun (o : Outcome) =>
          match o.2 with
          | some v => (store c v o.1, none)
          | none => (o.1.fail, none)
    else if c.kind == "reg" then
      match t.findOp c.name with
      | none => [(s.fail, none)]
      | some o =>
        let cargs := c.cargs.map look
        -- attribute ↦ constructor argument
        let attrEnv : List (String × Val) := o.ctorInit.filterMap fun (p : String × String) =>
          match (o.ctorParams.map (·.name)).idxOf? p.2 with
          | none => none
          | some i =>
            match cargs[i]? with
            | none => none
            | some v => some (p.1, ⟨v.tm, ((o.attrs.find? (·.name == p.1)).map (·.ty)).getD v.ty⟩)
        -- the argument vector: either a list of nodes or one vector of nodes
        let single := match args with | [v] => isVecTy v.ty | _ => false
        let xs : Val := if single then ⟨(args.headD default).tm, "varptrs"⟩ else ⟨mkList (args.map (·.tm)), "varptrs"⟩
        let xEnv : List (String × Val) :=
          if single then [("x*", xs), ("x0", ⟨firstElem xs.tm, "var"⟩)]
          else ("x*", xs) :: xNames.zip (args.map fun v => ⟨v.tm, "var"⟩)
        -- the shapes of the arguments; of a vector of nodes: the vector of their shapes
        let shEnv : List (String × Val) := xEnv.map fun (p : String × Val) =>
          if p.1 == "x*" then
            (p.1, ⟨if single then "loopvec" :: mkApp "shape" [mkApp "at" [p.2.tm, ["$i"]]] else mkList (args.map fun v => mkApp "shape" [v.tm]), "shapeptrs"⟩)
          else (p.1, ⟨mkApp "shape" [p.2.tm], "shape"⟩)
        -- static shape: FWD_SHAPE (no kernel call can occur there)
        let shOuts := evalBody t false fuel o.fwdShape.body { s with env := attrEnv ++ shEnv }
        let shapeTm : Tm :=
          match shOuts with
          | [so] =>
            (match o.retn with
             | .attr _ => (lookupVal so.1.env "y[i]").tm
             | _ => (lookupVal so.1.env "y0").tm)
          | _ => []
        let shBad := match shOuts with | [so] => so.1.bad || so.1.trace.length != s.trace.length | _ => true
        let s0 : St := if shBad then s.fail else s
        let first := s0.trace.length
        if o.innerValues then
          (evalBody t false fuel o.innerBody { s0 with env := attrEnv }).map fun (io : Outcome) =>
            let r : Tm := match io.2 with | some v => firstElem v.tm | none => []
            let s1 := { io.1 with env := s.env, regs := io.1.regs ++ [⟨o.name, shapeTm, first, io.1.trace.length - first, r⟩] }
            (store c ⟨r, "nodes"⟩ (if io.2.isNone then s1.fail else s1), none)
        else
          (evalBody t false fuel o.fwd.body { s0 with env := attrEnv ++ xEnv }).map fun (fo : Outcome) =>
            let r : Tm :=
              match o.retn with
              | .attr _ => "loopvec" :: (lookupVal fo.1.env "y[i]").tm
              | _ => (lookupVal fo.1.env "y0").tm
            let s1 := { fo.1 with env := s.env, regs := fo.1.regs ++ [⟨o.name, shapeTm, first, fo.1.trace.length - first, r⟩] }
            (store c ⟨r, "nodes"⟩ s1, none)
    else
      [(store c (pureVal c recv args) s, none)]

end

def initSt (env : List (String × Val)) : St := ⟨env, [], [], [], 0, [], false⟩

/-- fuel of the symbolic evaluation: more than the longest call chain × body length in the table -/
def FUEL : Nat := 200

/-- parameters as positional atoms `p0 p1 …` -/
def paramVals (ps : List Param) : List Val := (pNames.zip ps).map fun (p : String × Param) => ⟨[p.1], p.2.ty⟩

def Fn.outcomes (t : Table) (node : Bool) (f : Fn) : List Outcome :=
  evalFn t node FUEL f (paramVals f.params) (initSt [])

/-! ## `Api.same_kernel` -/

/-- The Tensor counterpart of a Node function: the specialisation of the same
template (same name and parameter types), or — for the `*_node` / `*_tensor`
pairs — the function that the sibling `<Tensor>` specialisation in
basic_functions.h calls (the Node function may have an extra trailing `Graph *`). -/
def dropGraph (ps : List Param) : List String := (ps.filter (fun p => tyNorm p.ty != "graph")).map (fun p => tyNorm p.ty)

def soleFnCall (f : Fn) : Option String :=
  match (bodyCalls f.body).filter (·.kind == "fn") with
  | [c] => some c.name
  | _ => none

def counterpart (t : Table) (f : Fn) : Option Fn :=
  match t.tensorFns.find? (fun g => g.name == f.name && g.params.map (fun p => tyNorm p.ty) == f.params.map (fun p => tyNorm p.ty)) with
  | some g => some g
  | none =>
    -- basic_functions.h: `template<> Node name<Node>(…) { return f(…, nullptr); }`
    match t.basicFns.find? (fun w => w.targ == "Node" && soleFnCall w == some f.name) with
    | none => none
    | some w =>
      match t.basicFns.find? (fun w' => w'.targ == "Tensor" && w'.name == w.name && w'.params.map (fun p => tyNorm p.ty) == w.params.map (fun p => tyNorm p.ty)) with
      | none => none
      | some w' =>
        match soleFnCall w' with
        | none => none
        | some tn => t.tensorFns.find? (fun g => g.name == tn && dropGraph g.params == dropGraph f.params)

/-- the public Node functions: everything in node_funcs.cc outside the anonymous namespace -/
def Table.publicNodeFns (t : Table) : List Fn := t.nodeFns.filter (·.ns != "(anon)")

def pcCompatible (a b : List (Tm × Bool)) : Bool :=
  a.all fun p => match b.lookup p.1 with | some v => v == p.2 | none => true

/-- kernels for which `k(x, s) = k(s, x)` when both arguments are scalars (x + s, x * s) -/
def commutativeScalarKernels : List String := ["add_scalar_fw", "multiply_scalar_fw"]

def scalarIn (pc : List (Tm × Bool)) (tm : Tm) : Bool :=
  pc.lookup (mkApp "is_scalar" [mkApp "shape" [tm]]) == some true

/-- Same kernel, same arguments in the same order.  The receiver (the device) is compared when it
is chosen by a device parameter; when it is the device of an argument the two paths may take it
from different arguments of the same call.  For the two commutative scalar kernels the operands
may be swapped when both are scalars. -/
def kcallEq (pc : List (Tm × Bool)) (a b : KCall) : Bool :=
  a.kernel == b.kernel && a.loop == b.loop &&
  (a.recv == b.recv || (!isDevsel a.recv && !isDevsel b.recv)) &&
  (a.args == b.args ||
    (commutativeScalarKernels.contains a.kernel && a.args == b.args.reverse && a.args.all (scalarIn pc)))

def traceEq (pc : List (Tm × Bool)) : List KCall → List KCall → Bool
  | [], [] => true
  | a :: as, b :: bs => kcallEq pc a b && traceEq pc as bs
  | _, _ => false

def outcomeEq (n t : Outcome) : Bool :=
  !n.1.bad && !t.1.bad &&
  traceEq (n.1.pc ++ t.1.pc) n.1.trace t.1.trace &&
  (match n.2, t.2 with
   | some a, some b => a.tm == b.tm
   | _, _ => false)

def Fn.sameKernel (t : Table) (f : Fn) : Bool :=
  match counterpart t f with
  | none => false
  | some g =>
    let ns := f.outcomes t true
    let ts := g.outcomes t false
    !ns.isEmpty && !ts.isEmpty &&
    ns.all fun n => ts.all fun o => !pcCompatible n.1.pc o.1.pc || outcomeEq n o

def Table.sameKernel (t : Table) : Bool := t.publicNodeFns.all (Fn.sameKernel t)

def Table.sameKernelOffenders (t : Table) : List String :=
  (t.publicNodeFns.filter (fun f => !f.sameKernel t)).map (·.name)

/-- A composite template of contrib/functions.h (one definition for both variable types):
instantiated on Nodes it runs the same kernels on the same arguments as instantiated on Tensors. -/
def Fn.sameKernelShared (t : Table) (f : Fn) : Bool :=
  let ns := f.outcomes t true
  let ts := f.outcomes t false
  !ns.isEmpty && !ts.isEmpty &&
  ns.all fun n => ts.all fun o => !pcCompatible n.1.pc o.1.pc || outcomeEq n o

def Table.genericComposites (t : Table) : List Fn := t.sharedFns.filter (·.targ == "Var")

def Table.sameKernelComposites (t : Table) : Bool := t.genericComposites.all (Fn.sameKernelShared t)

/-! ## `Api.shape_rule_consistent` -/

/-- The output shape expression of the device front-end (device.cc) or Tensor
method (tensor.cc) behind a kernel call: the argument of `new_raw_tensor` /
`new_handle` (the first argument of the `Tensor(…)` constructor for
`Tensor::reshape/flatten`), with the parameters replaced by the call's arguments. -/
def frontShape (t : Table) (k : KCall) : Option Tm :=
  match t.fronts.find? (fun f => f.name == k.kernel && f.params.length == k.args.length) with
  | some f =>
    let env := (f.params.zip k.args).map fun (p : Param × Tm) => (p.1.name, (⟨p.2, p.1.ty⟩ : Val))
    (match evalBody t false FUEL f.body (initSt env) with
     | [o] =>
       if o.1.bad then none else
       -- the allocation call and its evaluated first argument
       (match (bodyCalls f.body).find? (fun c => c.kind == "self" && (c.name == "new_raw_tensor" || c.name == "new_handle")) with
        | some c => (c.args.head?).map fun a => (lookupVal o.1.env a).tm
        | none => none)
     | _ => none)
  | none =>
    match t.tmethods.find? (fun f => f.name == k.kernel && f.params.length == k.args.length) with
    | none => none
    | some f =>
      let env := ("shape_", (⟨mkApp "shape" [k.recv], "shape"⟩ : Val)) ::
        (f.params.zip k.args).map fun (p : Param × Tm) => (p.1.name, (⟨p.2, p.1.ty⟩ : Val))
      (match evalBody t false FUEL f.body (initSt env) with
       | [o] =>
         if o.1.bad then none else
         (match (bodyCalls f.body).find? (fun c => c.kind == "ctor" && c.name == "Tensor") with
          | some c => (c.args.head?).map fun a => (lookupVal o.1.env a).tm
          | none => none)
       | _ => none)

/-- operators whose FORWARD rule runs several kernels; their static shape rule has its own
logic and is compared with the Tensor path by the correspondence run only -/
def compositeOps : List String := ["Split", "BatchSplit", "SoftmaxCrossEntropy", "SparseSoftmaxCrossEntropy"]

def regShapeOk (t : Table) (s : St) (r : RegRec) : Bool :=
  match t.findOp r.op with
  | none => false
  | some o =>
    if r.count == 1 then
      match s.trace[r.first]? with
      | none => false
      | some k =>
        if k.loop != [] then compositeOps.contains r.op
        else
          frontShape t k == some r.shapeTm ||
          -- both operands scalars: `scalar_op(a, b)` and `scalar_op(b, a)` are the same shape
          (commutativeScalarKernels.contains k.kernel && k.args.all (scalarIn s.pc) &&
            frontShape t { k with args := k.args.reverse } == some r.shapeTm)
    else if r.count == 0 then
      -- no kernel: the value is one of the arguments / the parameter's value
      o.innerValues || r.shapeTm == mkApp "shape" [r.ret]
    else compositeOps.contains r.op

def Fn.shapeRuleOk (t : Table) (f : Fn) : Bool :=
  let ns := f.outcomes t true
  !ns.isEmpty && ns.all fun n => !n.1.bad && n.1.regs.all (regShapeOk t n.1)

def Table.shapeRuleConsistent (t : Table) : Bool := t.publicNodeFns.all (Fn.shapeRuleOk t)

def Table.shapeRuleOffenders (t : Table) : List String :=
  (t.publicNodeFns.filter (fun f => !f.shapeRuleOk t)).map (·.name)

/-- every operator of the table is registered by some public Node function -/
def Table.allOpsReachable (t : Table) : Bool :=
  t.ops.all fun o => t.nodeFns.any fun f => (bodyCalls f.body).any fun c => c.kind == "reg" && c.name == o.name

end Primitiv.OpTable
