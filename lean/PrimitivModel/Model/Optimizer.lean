import PrimitivModel.Gen.Optimizers
/-
Hand-written model of `primitiv::Optimizer` (optimizer.{h,cc}) and of the part
of `primitiv::Parameter` the optimizers use (parameter.{h,cc}).  Core Lean only.

* A tensor is the `List α` of its elements (column-major order is irrelevant:
  every operation used here is elementwise or a full sum).
* Parameters live in a store `List (Param α)`; an optimizer refers to them by
  index (the C++ code keeps `Parameter *` in an `unordered_set`).
* `update` follows `Optimizer::update`: weight decay (when the strength is
  positive) → global-norm clipping (when the threshold is positive) → the
  generated `update_parameter` on every registered parameter → `++epoch_`.
* `add` models the code *with* patches/fix-optimizer-add-order.diff applied:
  `configure_parameter` runs before `params_.insert`.
-/
namespace Primitiv.Opt
open Primitiv.Gen.Opt

/-- `primitiv::Parameter`: validity (`device_ != nullptr`), value, gradient,
named statistics (an `unordered_map`; here in insertion order). -/
structure Param (α : Type) where
  valid : Bool
  value : List α
  grad : List α
  stats : List (String × List α)
  deriving BEq

/-- an `Optimizer` object: algorithm, its hyper-parameters in member order,
the base-class settings and the registered parameters (`params_`). -/
structure Opt (α : Type) where
  kind : Kind
  fields : List α
  base : Base α
  reg : List Nat

/-- one optimizer together with the parameter store it points into -/
structure State (α : Type) where
  o : Opt α
  ps : List (Param α)

section
variable {α : Type} [Add α] [Sub α] [Mul α] [Div α] [OfNat α 0] [OfNat α 1]
variable [LT α] [LE α] [DecidableLT α] [DecidableLE α]

def zeros (n : Nat) : List α := List.replicate n 0

/-- `Parameter::has_stats` (on a valid parameter) -/
def Param.hasStat (p : Param α) (n : String) : Bool := p.stats.any (fun e => e.1 == n)

/-- `Parameter::stats(name)` -/
def Param.stat (p : Param α) (n : String) : List α := (p.stats.lookup n).getD []

/-- assignment through the reference returned by `stats(name)` -/
def setStat (n : String) (v : List α) (st : List (String × List α)) : List (String × List α) :=
  st.map (fun e => if e.1 == n then (e.1, v) else e)

/-- One statistic of `configure_parameter`:
`if (!param.has_stats(name)) param.add_stats(name, param.shape());`
(`guarded = false`: the `if` is missing and `add_stats` throws on an existing
name).  The flag is `false` when an exception is thrown. -/
def configureOne (guarded : Bool) (p : Param α) (name : String) : Param α × Bool :=
  if !p.valid then (p, false)
  else if p.hasStat name then (p, guarded)
  else ({ p with stats := p.stats ++ [(name, zeros p.value.length)] }, true)

/-- `configure_parameter` of algorithm `k` (statistic names and guards from the
generated table), stopping at the first exception. -/
def configure (k : Kind) (p : Param α) : Param α × Bool :=
  (table k).stats.foldl
    (fun (acc : Param α × Bool) e => if acc.2 then configureOne e.2 acc.1 e.1 else acc) (p, true)

/-- apply `f` to the registered parameters, leave the others alone -/
def mapReg (reg : List Nat) (f : Param α → Param α) (ps : List (Param α)) : List (Param α) :=
  ps.mapIdx (fun i p => if i ∈ reg then f p else p)

/-- `Optimizer::add_inner(Parameter &)` (fixed order: configure, then insert) -/
def add (s : State α) (i : Nat) : State α × Bool :=
  if i ∈ s.o.reg then (s, true) else
  match s.ps[i]? with
  | none => (s, false)
  | some p =>
    let r := configure s.o.kind p
    if r.2 then ({ o := { s.o with reg := s.o.reg ++ [i] }, ps := s.ps.set i r.1 }, true)
    else ({ s with ps := s.ps.set i r.1 }, false)

/-- `param->gradient() += l2_strength_ * param->value()` -/
def Param.decay (l2 : α) (p : Param α) : Param α :=
  { p with grad := List.zipWith (fun g v => g + l2 * v) p.grad p.value }

/-- `param->gradient() *= clip_scale` -/
def Param.scaleGrad (c : α) (p : Param α) : Param α := { p with grad := p.grad.map (fun g => g * c) }

/-- gradients of the registered parameters -/
def regGrads (reg : List Nat) (ps : List (Param α)) : List (List α) :=
  reg.filterMap (fun i => (ps[i]?).map (fun p => p.grad))

/-- `sq_norm += sum(flatten(g * g), 0)` over the registered parameters -/
def sqNorm (gs : List (List α)) : α :=
  gs.foldl (fun acc g => acc + sumL (g.map (fun x => x * x))) 0

/-- lift an elementwise rule `e grad value stats = (value', stats')` to a
parameter; `names` are the statistics it reads and writes, in slot order -/
def Param.updateWith (e : α → α → List α → α × List α) (names : List String) (p : Param α) : Param α :=
  let sts := names.map p.stat
  let res := (List.range p.value.length).map
    (fun i => e (p.grad.getD i 0) (p.value.getD i 0) (sts.map (fun s => s.getD i 0)))
  { p with
    value := res.map (fun r => r.1),
    stats := (List.range names.length).foldl
      (fun st j => setStat (names.getD j "") (res.map (fun r => r.2.getD j 0)) st) p.stats }

/-- `update_parameter(lr_scale_, *param)` of algorithm `k` (generated rule) -/
def Param.update (F : Fns α) (k : Kind) (fields : List α) (scale : α) (epoch : Nat) (p : Param α) : Param α :=
  p.updateWith (updateElem F k fields scale epoch) (statsUsed k)

/-- every registered parameter is valid and carries the statistics the rule
reads (otherwise `update()` throws somewhere in the middle) -/
def ready (s : State α) : Bool :=
  s.o.reg.all (fun i => match s.ps[i]? with
    | some p => p.valid && (statsUsed s.o.kind).all p.hasStat
    | none => false)

/-- the body of `Optimizer::update()` -/
def updateCore (F : Fns α) (s : State α) : State α :=
  let o := s.o
  let b := o.base
  let ps1 := if b.l2_strength_ > 0 then mapReg o.reg (Param.decay b.l2_strength_) s.ps else s.ps
  let ps2 :=
    if b.clip_threshold_ > 0 then
      let sq := sqNorm (regGrads o.reg ps1)
      if sq > b.clip_threshold_ * b.clip_threshold_ then
        mapReg o.reg (Param.scaleGrad (b.clip_threshold_ / F.sqrt sq)) ps1
      else ps1
    else ps1
  let ps3 := mapReg o.reg (Param.update F o.kind o.fields b.lr_scale_ b.epoch_) ps2
  { o := { o with base := { b with epoch_ := add32 b.epoch_ 1 } }, ps := ps3 }

/-- `Optimizer::update()`.  When a registered parameter is invalid the code
throws after having processed an order-dependent part of the parameters; the
model reports the error and histories are not continued past it. -/
def update (F : Fns α) (s : State α) : State α × Bool :=
  if ready s then (updateCore F s, true) else (s, false)

def Param.resetGrad (p : Param α) : Param α := { p with grad := zeros p.value.length }

/-- `Optimizer::reset_gradients()` -/
def reset (s : State α) : State α × Bool :=
  if ready s then ({ s with ps := mapReg s.o.reg Param.resetGrad s.ps }, true) else (s, false)

/-- writing a gradient of the right size into `param.gradient()` -/
def setGrad (s : State α) (i : Nat) (g : List α) : State α × Bool :=
  match s.ps[i]? with
  | some p =>
    if p.valid && g.length == p.value.length then ({ s with ps := s.ps.set i { p with grad := g } }, true)
    else (s, false)
  | none => (s, false)

def withBase (s : State α) (r : Option (Base α)) : State α × Bool :=
  match r with
  | some b => ({ s with o := { s.o with base := b } }, true)
  | none => (s, false)

/-- operations of a training history on one optimizer -/
inductive Op (α : Type) where
  | setGrad (i : Nat) (g : List α)
  | update
  | reset
  | setLr (x : α)
  | setL2 (x : α)
  | setClip (x : α)
  | setEpoch (n : Nat)
  | cfgF (key : String) (x : α)
  | cfgU (key : String) (n : Nat)
  | add (i : Nat)

/-- one operation; the flag is `false` when the call throws -/
def exec (F : Fns α) (op : Op α) (s : State α) : State α × Bool :=
  match op with
  | .setGrad i g => setGrad s i g
  | .update => update F s
  | .reset => reset s
  | .setLr x => withBase s (s.o.base.set_learning_rate_scaling x)
  | .setL2 x => withBase s (s.o.base.set_weight_decay x)
  | .setClip x => withBase s (s.o.base.set_gradient_clipping x)
  | .setEpoch n => withBase s (s.o.base.set_epoch (n % 4294967296))
  | .cfgF key x =>
    ({ s with o := { s.o with base := s.o.base.set [] [(key, x)],
                              fields := setConfigs s.o.kind [(key, x)] s.o.fields } }, true)
  | .cfgU key n => ({ s with o := { s.o with base := s.o.base.set [(key, n % 4294967296)] [] } }, true)
  | .add i => add s i

/-- a history: final state and the outcome of every call -/
def run (step : Op α → State α → State α × Bool) : List (Op α) → State α → State α × List Bool
  | [], s => (s, [])
  | op :: h, s =>
    let r := step op s
    let r' := run step h r.1
    (r'.1, r.2 :: r'.2)

end
end Primitiv.Opt
