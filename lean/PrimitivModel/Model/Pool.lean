/-
Model of primitiv::MemoryPool (core/memory_pool.h, core/memory_pool.cc), of the
id registry it inherits from mixins::Identifiable<MemoryPool>
(core/mixins/identifiable.h) and of numeric_utils::calculate_shifts
(core/numeric_utils.h), following the code statement by statement.

The user-supplied `allocator_` / `deleter_` functors are the environment: every
call is recorded in a call log (`Event`), and the allocator's answer is given
by an *oracle* that sees the whole call log so far and the requested size and
either returns a pointer or fails ("fails" = the functor throws: the code
reacts to a failure only through `catch (...)`).  The theorems quantify over
every oracle that never returns a pointer which is still outstanding
(`Oracle.Fresh`); addresses may be reused after they were passed to the deleter.

Pointers are opaque numbers; the pool never dereferences them.  All sizes are
std::size_t / std::uint64_t values, i.e. naturals below `M64 = 2^64`.

Tie to the code: correspondence (harness family `pool`).
Core Lean only (no Mathlib) so that the line-protocol driver links.
-/
namespace Primitiv.Pool

/-- 2^64, the modulus of std::uint64_t / std::size_t. -/
abbrev M64 : Nat := 18446744073709551616

/-! ### numeric_utils::calculate_shifts -/

/-- "Flips all bits at the right of leftmost-1 to 1." -/
def smear (x : Nat) : Nat :=
  let b := x ||| (x >>> 32)
  let b := b ||| (b >>> 16)
  let b := b ||| (b >>> 8)
  let b := b ||| (b >>> 4)
  let b := b ||| (b >>> 2)
  b ||| (b >>> 1)

/-- "Counts the number of 1."  The additions are 64-bit additions. -/
def popcount64 (b : Nat) : Nat :=
  let b := ((b &&& 0x5555555555555555) + ((b >>> 1) &&& 0x5555555555555555)) % M64
  let b := ((b &&& 0x3333333333333333) + ((b >>> 2) &&& 0x3333333333333333)) % M64
  let b := ((b &&& 0x0f0f0f0f0f0f0f0f) + ((b >>> 4) &&& 0x0f0f0f0f0f0f0f0f)) % M64
  let b := ((b &&& 0x00ff00ff00ff00ff) + ((b >>> 8) &&& 0x00ff00ff00ff00ff)) % M64
  let b := ((b &&& 0x0000ffff0000ffff) + ((b >>> 16) &&& 0x0000ffff0000ffff)) % M64
  ((b &&& 0x00000000ffffffff) + ((b >>> 32) &&& 0x00000000ffffffff)) % M64

/-- `calculate_shifts(x)` for a 64-bit `x`:
`if (x == 0) return 64; …; return b - (1ull << (b - 1) == x);` -/
def calculateShifts (x : Nat) : Nat :=
  if x = 0 then 64 else
  let b := popcount64 (smear x)
  b - (if (1 <<< (b - 1)) % M64 = x then 1 else 0)

/-! ### the environment: allocator / deleter call log -/

abbrev Ptr := Nat

/-- One call of a user-supplied functor. -/
inductive Event where
  /-- `allocator_(size)`: returned `some p`, or threw (`none`). -/
  | alloc (size : Nat) (res : Option Ptr)
  /-- `deleter_(p)`. -/
  | del (p : Ptr)
deriving DecidableEq, Repr, Inhabited

/-- The call log, **newest call first**. -/
abbrev Log := List Event

/-- Pointers returned by the allocator and not passed to the deleter since. -/
def outstanding : Log → List Ptr
  | [] => []
  | .alloc _ (some p) :: l => p :: outstanding l
  | .alloc _ none :: l => outstanding l
  | .del p :: l => (outstanding l).erase p

/-- The size with which the allocator was asked when it last returned `x`. -/
def allocSize : Log → Ptr → Option Nat
  | [], _ => none
  | .alloc s (some p) :: l, x => if p = x then some s else allocSize l x
  | .alloc _ none :: l, x => allocSize l x
  | .del _ :: l, x => allocSize l x

/-- The allocator: sees the call log so far and the requested size. -/
abbrev Oracle := Log → Nat → Option Ptr

/-- The only assumption on the allocator: it never returns a pointer that it
has handed out and that has not been given back to the deleter. -/
def Oracle.Fresh (o : Oracle) : Prop :=
  ∀ log size p, o log size = some p → p ∉ outstanding log

/-! ### MemoryPool -/

/-- The fields of primitiv::MemoryPool.  `reserved k` is `reserved_[k]` with
the **head of the list = `back()`** of the vector.  `supplied` is the
`unordered_map<void *, uint32_t> supplied_` (the stored shift is always the
value that passed `shift > MAX_SHIFTS` and indexes `reserved_`, hence
`Fin 64`); its iteration order is not specified by C++, the list order here is
only used by the destructor loop (see `drain`). -/
structure MPool where
  id : Nat
  minSize : Nat
  reserved : Fin 64 → List Ptr
  supplied : List (Ptr × Fin 64)

/-- `reserved_[k] := v` -/
def setClass (r : Fin 64 → List Ptr) (k : Fin 64) (v : List Ptr) : Fin 64 → List Ptr :=
  fun j => if j = k then v else r j

/-- all blocks in the free lists, in the order `release_reserved_blocks` visits them -/
def flat (r : Fin 64 → List Ptr) : List Ptr := (List.finRange 64).flatMap r

namespace MPool

def keys (P : MPool) : List Ptr := P.supplied.map (·.1)

/-- every block the pool is responsible for -/
def owned (P : MPool) : List Ptr := flat P.reserved ++ P.keys

/-- The constructor: `reserved_(64), supplied_(), minimum_size_(minimum_size)`;
`id` comes from `Identifiable()`. -/
def new (id minSize : Nat) : MPool := ⟨id, minSize, fun _ => [], []⟩

/-- `supplied_.emplace(ptr, shift)`: no effect when the key is present. -/
def emplace (s : List (Ptr × Fin 64)) (p : Ptr) (k : Fin 64) : List (Ptr × Fin 64) :=
  if s.any (·.1 == p) then s else (p, k) :: s

/-- `release_reserved_blocks()`:
`for (auto &ptrs : reserved_) while (!ptrs.empty()) { deleter_(ptrs.back()); ptrs.pop_back(); }` -/
def releaseReserved (P : MPool) (log : Log) : MPool × Log :=
  ({ P with reserved := fun _ => [] }, ((flat P.reserved).map Event.del).reverse ++ log)

/-- What `allocate` hands to its caller. -/
inductive AllocRes where
  /-- `return std::shared_ptr<void>()` (size 0); `*allocated_size == 0` -/
  | null
  /-- an exception leaves `allocate`; `*allocated_size == 0` -/
  | error
  /-- `shared_ptr<void>(ptr, Deleter(id()))`; `*allocated_size == memSize` -/
  | block (ptr : Ptr) (memSize : Nat)
deriving DecidableEq, Repr, Inhabited

/-- `MemoryPool::allocate(size, allocated_size)`. -/
def allocate (ora : Oracle) (P : MPool) (log : Log) (size : Nat) : MPool × Log × AllocRes :=
  -- if (allocated_size) *allocated_size = 0;
  -- if (size == 0) return std::shared_ptr<void>();
  if size = 0 then (P, log, .null)
  else
    -- if (size < minimum_size_) size = minimum_size_;
    let size := if size < P.minSize then P.minSize else size
    -- const std::uint64_t shift = numeric_utils::calculate_shifts(size);
    let shift := calculateShifts size
    -- if (shift > MAX_SHIFTS) PRIMITIV_THROW_ERROR(...)
    if h : shift > 63 then (P, log, .error)
    else
      let k : Fin 64 := ⟨shift, by omega⟩
      -- std::size_t mem_size = 1ull << shift;
      let memSize := (1 <<< shift) % M64
      match P.reserved k with
      | [] =>
        -- try { ptr = allocator_(mem_size); }
        match ora log memSize with
        | some ptr =>
          ({ P with supplied := emplace P.supplied ptr k }, .alloc memSize (some ptr) :: log, .block ptr memSize)
        | none =>
          -- catch (...) { release_reserved_blocks(); ptr = allocator_(mem_size); }
          let (P1, log1) := P.releaseReserved (.alloc memSize none :: log)
          match ora log1 memSize with
          | some ptr =>
            ({ P1 with supplied := emplace P1.supplied ptr k }, .alloc memSize (some ptr) :: log1, .block ptr memSize)
          | none => (P1, .alloc memSize none :: log1, .error)
      | ptr :: rest =>
        -- ptr = reserved_[shift].back(); reserved_[shift].pop_back(); supplied_.emplace(ptr, shift);
        ({ P with reserved := setClass P.reserved k rest, supplied := emplace P.supplied ptr k }, log, .block ptr memSize)

/-- `MemoryPool::free(ptr)`; `none` = the Error "Detected to dispose unknown handle". -/
def free (P : MPool) (ptr : Ptr) : Option MPool :=
  match P.supplied.find? (·.1 == ptr) with
  | none => none
  | some (_, k) =>
    some { P with reserved := setClass P.reserved k (ptr :: P.reserved k),
                  supplied := P.supplied.eraseP (·.1 == ptr) }

/-- The destructor's first loop `while (!supplied_.empty()) free(supplied_.begin()->first);`:
`free` finds the entry `begin()` itself, pushes the pointer on its class and
erases the entry. -/
def drain (r : Fin 64 → List Ptr) : List (Ptr × Fin 64) → (Fin 64 → List Ptr)
  | [] => r
  | (x, k) :: rest => drain (setClass r k (x :: r k)) rest

/-- `~MemoryPool()`: drain `supplied_`, then `release_reserved_blocks()`. -/
def destroy (P : MPool) (log : Log) : MPool × Log :=
  releaseReserved { P with reserved := drain P.reserved P.supplied, supplied := [] } log

end MPool

/-! ### the world: registry of live pools, live handles, call log -/

/-- A non-null `std::shared_ptr<void>` returned by `allocate`: the pointer and
the `Deleter`'s `pool_id_`. -/
structure Handle where
  ptr : Ptr
  pool : Nat
deriving DecidableEq, Repr, Inhabited

/-- `nextId`/`pools` are `Identifiable<MemoryPool>::next_id_` / `objects_`
(the live pools, found by id); `handles` are the handles the client still
holds, under the names the client gave them. -/
structure World where
  nextId : Nat
  pools : List MPool
  handles : List (Nat × Handle)
  log : Log

def World.init : World := ⟨0, [], [], []⟩

/-- The client's calls. -/
inductive Op where
  /-- `new MemoryPool(allocator, deleter, minSize)` -/
  | create (minSize : Nat)
  /-- `name = pool.allocate(size, &allocated_size)` on the live pool with this id -/
  | alloc (pool : Nat) (name : Nat) (size : Nat)
  /-- the last reference to the handle goes away: `Deleter::operator()(ptr)` -/
  | drop (name : Nat)
  /-- `delete pool` -/
  | destroy (pool : Nat)
deriving DecidableEq, Repr, Inhabited

inductive Res where
  | created (id : Nat)
  /-- returned handle (`none` = empty shared_ptr) and `*allocated_size` -/
  | handle (ptr : Option Ptr) (allocatedSize : Nat)
  /-- an exception reached the client; `*allocated_size == 0` -/
  | error
  | unit
  /-- not a call a client can make (the pool object does not exist, the
  handle name is unknown or already in use): nothing happens -/
  | invalid
deriving DecidableEq, Repr, Inhabited

namespace World

/-- `Identifiable::get_object(id)`; `none` = the Error "Invalid object ID". -/
def findPool (w : World) (id : Nat) : Option MPool := w.pools.find? (·.id == id)

/-- the registry without the pool `id` -/
def others (w : World) (id : Nat) : List MPool := w.pools.filter (·.id != id)

def findHandle (w : World) (name : Nat) : Option Handle := (w.handles.find? (·.1 == name)).map (·.2)

def step (ora : Oracle) (w : World) : Op → World × Res
  | .create minSize =>
    -- Identifiable(): id_ = next_id_++; objects_.emplace(id_, this);
    ({ w with nextId := w.nextId + 1, pools := MPool.new w.nextId minSize :: w.pools }, .created w.nextId)
  | .alloc pid name size =>
    match w.findPool pid with
    | none => (w, .invalid)
    | some P =>
      if w.handles.any (·.1 == name) then (w, .invalid)
      else
        match P.allocate ora w.log size with
        | (P', log', r) =>
          let w' := { w with pools := P' :: w.others pid, log := log' }
          match r with
          | .null => (w', .handle none 0)
          | .error => (w', .error)
          | .block ptr sz =>
            -- return std::shared_ptr<void>(ptr, Deleter(id()));
            ({ w' with handles := (name, ⟨ptr, P.id⟩) :: w'.handles }, .handle (some ptr) sz)
  | .drop name =>
    match w.findHandle name with
    | none => (w, .invalid)
    | some h =>
      let w1 := { w with handles := w.handles.filter (·.1 != name) }
      -- Deleter::operator(): try { MemoryPool::get_object(pool_id_).free(ptr); } catch (const Error &) {}
      match w.findPool h.pool with
      | none => (w1, .unit)
      | some P =>
        match P.free h.ptr with
        | none => (w1, .unit)
        | some P' => ({ w1 with pools := P' :: w.others h.pool }, .unit)
  | .destroy pid =>
    match w.findPool pid with
    | none => (w, .invalid)
    | some P =>
      -- ~MemoryPool() then ~Identifiable(): objects_.erase(id_)
      ({ w with pools := w.others pid, log := (P.destroy w.log).2 }, .unit)

end World

/-- A history: the client's calls, each together with the allocator it meets
(so the allocator's behaviour, including which of its calls fail, is chosen by
the history). -/
abbrev History := List (Oracle × Op)

def History.Fresh (h : History) : Prop := ∀ s ∈ h, s.1.Fresh

/-- The state after a history, from a given state. -/
def runFrom (w : World) (h : History) : World := h.foldl (fun w s => (w.step s.1 s.2).1) w

def run (h : History) : World := runFrom World.init h

/-- The results of the calls of a history, in order. -/
def results : World → History → List Res
  | _, [] => []
  | w, s :: h => (w.step s.1 s.2).2 :: results (w.step s.1 s.2).1 h

end Primitiv.Pool
