/-
Model of the registry part of primitiv::Model (core/model.h, core/model.cc) and
of Optimizer::add / add_inner (core/optimizer.h, core/optimizer.cc).

A heap of models (index = identity of the object), each with the five
containers of model.h:253-257.  Unordered maps / sets are lists in insertion
order with the `emplace` of the standard library (insert unless the key is
there); the `std::map` returned by `get_all_parameters` is a list kept sorted by
its keys (vectors of byte strings, lexicographic order = `compare`).
Recursive traversals (`has_submodel`, `get_all_parameters`) carry a fuel that
the callers set to the number of models of the heap; running out of fuel stands
for the unbounded recursion (stack overflow) the code as written would perform
on a cyclic hierarchy, outcome `crash`.

The model follows the tree *with* patches/fix-model-empty-path.diff and
patches/fix-optimizer-add-order.diff applied (see the comments at
`getSemiterminal` and `Opt.addParam`).

Tie to the code: correspondence (harness family `registry`).
Core Lean only (no Mathlib) so that the line-protocol driver links.
-/
namespace Primitiv.Registry

/-- A name is a byte string. -/
abbrev Name := List Nat
abbrev Path := List Name
/-- Identity (address) of a Model / Parameter object. -/
abbrev MId := Nat
abbrev PId := Nat
/-- `std::map<std::vector<std::string>, Parameter *>` (kept sorted by key) -/
abbrev PMap := List (Path × PId)

/-- Result of a call that does not change the state. `error` = a thrown
primitiv::Error, `crash` = undefined behaviour / unbounded recursion. -/
inductive Res (α : Type) where
  | ok (a : α)
  | error
  | crash
deriving DecidableEq, Repr

/-- Result of a call that may change the state `σ`; `error` carries the state
the call leaves behind, so that "a rejected call changes nothing" is a
statement about the model and not a convention. -/
inductive Out (σ : Type) where
  | ok (s : σ)
  | error (s : σ)
  | crash
deriving DecidableEq, Repr

/-! ### containers -/

/-- `unordered_map::find`. -/
def kvFind {κ ν} [DecidableEq κ] : List (κ × ν) → κ → Option ν
  | [], _ => none
  | (k', v) :: rest, k => if k' = k then some v else kvFind rest k

/-- `unordered_map::emplace`: inserts unless the key exists. -/
def kvEmplace {κ ν} [DecidableEq κ] (kv : List (κ × ν)) (k : κ) (v : ν) : List (κ × ν) :=
  match kvFind kv k with
  | some _ => kv
  | none => kv ++ [(k, v)]

/-- `unordered_set::emplace`. -/
def setEmplace {α} [DecidableEq α] (s : List α) (a : α) : List α :=
  if a ∈ s then s else s ++ [a]

/-- `std::map::emplace` on a list sorted by `compare` of the keys: inserts at
its place unless an equivalent key exists. -/
def mapEmplace {κ ν} [Ord κ] : List (κ × ν) → κ → ν → List (κ × ν)
  | [], k, v => [(k, v)]
  | (k', v') :: rest, k, v =>
    match compare k k' with
    | .lt => (k, v) :: (k', v') :: rest
    | .eq => (k', v') :: rest
    | .gt => (k', v') :: mapEmplace rest k v

/-- The private members of primitiv::Model. -/
structure MState where
  paramKv : List (Name × PId) := []
  subKv : List (Name × MId) := []
  nameSet : List Name := []
  paramSet : List PId := []
  subSet : List MId := []
deriving DecidableEq, Repr, Inhabited

/-- The heap: the models created so far (a model's id is its index) and, for
each parameter created so far, whether it is valid (has a device). -/
structure Reg where
  models : List MState := []
  pvalid : List Bool := []
deriving DecidableEq, Repr, Inhabited

namespace Reg

def empty : Reg := {}
def size (r : Reg) : Nat := r.models.length
def get (r : Reg) (m : MId) : MState := r.models.getD m {}
def put (r : Reg) (m : MId) (st : MState) : Reg := { r with models := r.models.set m st }
def valid (r : Reg) (p : PId) : Bool := r.pvalid.getD p false

/-- `Model()` -/
def newModel (r : Reg) : Reg := { r with models := r.models ++ [{}] }
/-- `Parameter()` (invalid) or `Parameter(shape, values, device)` (valid). -/
def newParam (r : Reg) (valid : Bool) : Reg := { r with pvalid := r.pvalid ++ [valid] }

/-! ### Model::has_submodel (model.cc:178-184) -/

/-- The loop `for (const Model *sm : submodel_set_)` with the recursive call
abstracted as `rec`. -/
def hasSubList (rec : MId → Res Bool) (t : MId) : List MId → Res Bool
  | [] => .ok false
  | sm :: rest =>
    if sm = t then .ok true
    else
      match rec sm with
      | .ok true => .ok true
      | .ok false => hasSubList rec t rest
      | .error => .error
      | .crash => .crash

/-- `m.has_submodel(t)` with recursion depth bounded by the fuel. -/
def hasSub (r : Reg) (t : MId) : Nat → MId → Res Bool
  | 0, _ => .crash
  | f + 1, m => hasSubList (hasSub r t f) t (r.get m).subSet

/-! ### Model::add (model.cc:77-124) -/

/-- `void Model::add(const std::string &name, Parameter &param)`. -/
def addParam (r : Reg) (m : MId) (name : Name) (p : PId) : Out Reg :=
  let st := r.get m
  -- kv != param_kv_.end() && kv->second == &param: explicit no-op
  if kvFind st.paramKv name = some p then .ok r
  else if name ∈ st.nameSet then .error r
  else if p ∈ st.paramSet then .error r
  else
    .ok (r.put m { st with
      nameSet := setEmplace st.nameSet name
      paramSet := setEmplace st.paramSet p
      paramKv := kvEmplace st.paramKv name p })

/-- `void Model::add(const std::string &name, Model &model)`. -/
def addSub (r : Reg) (m : MId) (name : Name) (c : MId) : Out Reg :=
  let st := r.get m
  if kvFind st.subKv name = some c then .ok r
  else if c = m then .error r
  else
    match hasSub r m r.size c with
    | .crash => .crash
    | .error => .error r
    | .ok true => .error r
    | .ok false =>
      if name ∈ st.nameSet then .error r
      else if c ∈ st.subSet then .error r
      else
        .ok (r.put m { st with
          nameSet := setEmplace st.nameSet name
          subSet := setEmplace st.subSet c
          subKv := kvEmplace st.subKv name c })

/-! ### lookups (model.cc:126-160) -/

/-- The loop of `get_semiterminal` over `names[0 .. size-1)`. -/
def walk (r : Reg) : MId → List Name → Res MId
  | cur, [] => .ok cur
  | cur, n :: ns =>
    match kvFind (r.get cur).subKv n with
    | none => .error
    | some c => walk r c ns

/-- `get_semiterminal`.  On the pinned tree an empty list made
`names.end() - 1` undefined (outcome `crash`);
patches/fix-model-empty-path.diff rejects it with an Error first. -/
def getSemiterminal (r : Reg) (m : MId) (names : List Name) : Res MId :=
  if names = [] then .error else walk r m names.dropLast

/-- `get_parameter(const std::vector<std::string> &)`. -/
def getParameter (r : Reg) (m : MId) (names : List Name) : Res PId :=
  match getSemiterminal r m names with
  | .crash => .crash
  | .error => .error
  | .ok st =>
    match names.getLast? with
    | none => .crash   -- names.back() of an empty vector
    | some last =>
      match kvFind (r.get st).paramKv last with
      | none => .error
      | some p => .ok p

/-- `get_submodel(const std::vector<std::string> &)`. -/
def getSubmodel (r : Reg) (m : MId) (names : List Name) : Res MId :=
  match getSemiterminal r m names with
  | .crash => .crash
  | .error => .error
  | .ok st =>
    match names.getLast? with
    | none => .crash
    | some last =>
      match kvFind (r.get st).subKv last with
      | none => .error
      | some c => .ok c

/-! ### get_all_parameters (model.cc:162-176) -/

/-- first loop: `params.emplace({kv.first}, kv.second)` -/
def emplaceOwn (kv : List (Name × PId)) (acc : PMap) : PMap :=
  kv.foldl (fun a e => mapEmplace a [e.1] e.2) acc

/-- inner loop for one submodel: `params.emplace({sm name} ++ key, value)` -/
def emplaceSub (pre : Name) (sub : PMap) (acc : PMap) : PMap :=
  sub.foldl (fun a e => mapEmplace a (pre :: e.1) e.2) acc

/-- outer loop over `submodel_kv_` with the recursive call abstracted. -/
def getAllSubs (rec : MId → Res PMap) : List (Name × MId) → PMap → Res PMap
  | [], acc => .ok acc
  | (n, sm) :: rest, acc =>
    match rec sm with
    | .ok sub => getAllSubs rec rest (emplaceSub n sub acc)
    | .error => .error
    | .crash => .crash

/-- `m.get_all_parameters()` with recursion depth bounded by the fuel. -/
def getAll (r : Reg) : Nat → MId → Res PMap
  | 0, _ => .crash
  | f + 1, m => getAllSubs (getAll r f) (r.get m).subKv (emplaceOwn (r.get m).paramKv [])

/-- `get_all_parameters()` as called from outside. -/
def allParameters (r : Reg) (m : MId) : Res PMap := getAll r r.size m

/-- `get_trainable_parameters()`: "currently this function returns all parameters". -/
def trainableParameters (r : Reg) (m : MId) : Res PMap := allParameters r m

end Reg

/-! ### Optimizer::add (optimizer.cc:54-68) -/

/-- The part of an Optimizer this family is about: the registered set
`params_`, and whether `configure_parameter` touches the parameter
(`SGD`: no; `MomentumSGD` and the others: `has_stats`/`add_stats`, which throw
on an invalid Parameter). -/
structure Opt where
  needsStats : Bool
  params : List PId := []
  /-- observation, not a member: the log of `configure_parameter` calls (one
  entry per call, whether it returned or threw) -/
  configs : List PId := []
deriving DecidableEq, Repr, Inhabited

namespace Opt

/-- `add_inner(Parameter &)`.  The pinned tree inserted into `params_` before
`configure_parameter` (so the error outcome carried the *changed* set);
patches/fix-optimizer-add-order.diff configures first. -/
def addParam (valid : PId → Bool) (o : Opt) (p : PId) : Out Opt :=
  if p ∈ o.params then .ok o
  else
    -- configure_parameter(param) runs (logged), then params_.insert(&param)
    let o1 := { o with configs := o.configs ++ [p] }
    if o.needsStats && !valid p then .error o1
    else .ok { o1 with params := o.params ++ [p] }

/-- how often `configure_parameter` ran for `p` -/
def configCount (o : Opt) (p : PId) : Nat := o.configs.count p

/-- the loop of `add_inner(const Model &)` over the map's values, in key order -/
def addList (valid : PId → Bool) (o : Opt) : List PId → Out Opt
  | [] => .ok o
  | p :: ps =>
    match addParam valid o p with
    | .ok o' => addList valid o' ps
    | .error o' => .error o'
    | .crash => .crash

/-- `add_inner(const Model &)` -/
def addModel (r : Reg) (o : Opt) (m : MId) : Out Opt :=
  match r.trainableParameters m with
  | .ok ps => addList r.valid o (ps.map (·.2))
  | .error => .error o
  | .crash => .crash

end Opt

end Primitiv.Registry
