import PrimitivModel.Model.Optimizer
/-
Checkpoint / resume at the level of property C15 (core Lean only).

`checkpoint` keeps exactly what `Optimizer::save` + `Model::save(path, true)`
write: the `get_configs` maps and, per parameter, the value and all named
statistics.  `restore` is what a resuming program does: construct a fresh
optimizer of the same algorithm with the constructor defaults, `load`
(`set_configs`), construct fresh parameters from the file (gradient zero),
and register them (`add`, i.e. `configure_parameter`).  That the bytes on disk
round-trip these data is property C13, not shown here.
-/
namespace Primitiv.Opt
open Primitiv.Gen.Opt

structure Ckpt (α : Type) where
  cu : List (String × Nat)
  cf : List (String × α)
  params : List (List α × List (String × List α))

section
variable {α : Type} [Add α] [Sub α] [Mul α] [Div α] [OfNat α 0] [OfNat α 1]
variable [LT α] [LE α] [DecidableLT α] [DecidableLE α]

/-- `get_configs` of the whole object: base class first, then the subclass
(`unordered_map::insert` keeps the first entry of a key; so does `lookup`) -/
def allF (o : Opt α) : List (String × α) := o.base.getF ++ getConfigs o.kind o.fields

def checkpoint (s : State α) : Ckpt α :=
  { cu := s.o.base.getU, cf := allF s.o, params := s.ps.map (fun p => (p.value, p.stats)) }

/-- `set_configs` of the whole object -/
def loadConfigs (cu : List (String × Nat)) (cf : List (String × α)) (o : Opt α) : Opt α :=
  { o with base := o.base.set cu cf, fields := setConfigs o.kind cf o.fields }

/-- a freshly constructed optimizer (default constructor arguments) -/
def fresh [OfScientific α] (F : Fns α) (k : Kind) : Opt α :=
  { kind := k, fields := defaults F k, base := Base.init, reg := [] }

/-- a parameter loaded from a file -/
def loadParam (e : List α × List (String × List α)) : Param α :=
  { valid := true, value := e.1, grad := zeros e.1.length, stats := e.2 }

def addAll (s : State α) (n : Nat) : State α :=
  (List.range n).foldl (fun s i => (add s i).1) s

def restore [OfScientific α] (F : Fns α) (k : Kind) (c : Ckpt α) : State α :=
  addAll { o := loadConfigs c.cu c.cf (fresh F k), ps := c.params.map loadParam } c.params.length

/-- the state a training program starts from: an optimizer with the given
hyper-parameters and settings, parameters with the given initial values, all
of them registered -/
def initState (k : Kind) (fields : List α) (b : Base α) (vals : List (List α)) : State α :=
  addAll { o := { kind := k, fields := fields, base := b, reg := [] },
           ps := vals.map (fun v => { valid := true, value := v, grad := zeros v.length, stats := [] }) } vals.length

/-- the gradients of step `t` are a function `G t` of the current values (a
deterministic model on deterministic data) -/
def setGrads (gs : List (List α)) (s : State α) : State α :=
  { s with ps := s.ps.mapIdx (fun i p => { p with grad := gs.getD i [] }) }

def values (s : State α) : List (List α) := s.ps.map (fun p => p.value)

def trainStep (F : Fns α) (G : Nat → List (List α) → List (List α)) (t : Nat) (s : State α) : State α :=
  updateCore F (setGrads (G t (values s)) s)

/-- `n` training steps starting with step number `t` -/
def train (F : Fns α) (G : Nat → List (List α) → List (List α)) : Nat → Nat → State α → State α
  | _, 0, s => s
  | t, n + 1, s => train F G (t + 1) n (trainStep F G t s)

/-- what is compared: everything but the gradients -/
def obs (s : State α) : Opt α × List (Bool × List α × List (String × List α)) :=
  (s.o, s.ps.map (fun p => (p.valid, p.value, p.stats)))

/-- the gradient of `½·a·v² + b·v`, used by the driver's `lgrad` -/
def affineGrad (a b v : List α) : List α :=
  (List.range v.length).map (fun i => a.getD i 0 * v.getD i 0 + b.getD i 0)

end
end Primitiv.Opt
