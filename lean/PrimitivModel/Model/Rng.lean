import PrimitivModel.Gen.Rng
/-
Model of the random sources, of `dropout` and of the initializers (property
C17) on top of the definitions generated from the C++ text (`Gen/Rng.lean`).

What is modelled by hand here (and tied to the code by the correspondence run
of the `rng` family, bit for bit, on both CPU backends):

* `stdDraw`   what the libstdc++ distribution object built by
              `DefaultRandomizer::fill_<kind>` returns, as a function of the
              *standard* draw of the same generator (uniform on [0,1) as
              double for `bernoulli_distribution`, uniform on [0,1) as float
              for `uniform_real_distribution<float>`, standard normal float
              for `normal_distribution<float>` / `lognormal_distribution<float>`);
              that these standard draws have the named distributions is
              trusted, the affine maps below are validated on every run;
* `fill`      `fill_<kind>`: one stored element per draw (`fill_<kind>_elem`
              is generated: the `(lower, upper]` fix-up lives there);
* `deviceRandom` the device front end (generated `Device_random_<kind>`);
* `step`/`run` one stream per device, consumed in call order, nothing drawn
              for a rejected request;
* `deviceIdentity`, `applyInit`, `tensorVar`: the device calls the
              initializers and `dropout` end in.

Core Lean only.
-/
namespace Primitiv.Rng
open Primitiv Primitiv.Gen.Rng

/-- A tensor value: shape and elements in storage order. -/
structure Tensor (α : Type) where
  shape : Shape
  data : List α
deriving Repr, Inhabited

inductive Kind where
  | bernoulli | uniform | normal | logNormal
deriving DecidableEq, Repr, Inhabited

/-- The value the libstdc++ distribution object returns, from the standard draw `r`
(float arithmetic: every operation is rounded to float).
* `bernoulli_distribution(p)`: `generate_canonical<double,53>(g) < p` (as bool → 1/0);
* `uniform_real_distribution<float>(a, b)`: `(b - a) * u + a`;
* `normal_distribution<float>(mean, sd)`: `z * sd + mean`;
* `lognormal_distribution<float>(m, s)`: `exp(s * z + m)`. -/
def stdDraw {α : Type} (S : Sc α) : Kind → α → α → α → α
  | .bernoulli, p, _, u => if S.lt u p then S.ofNat 1 else S.ofNat 0
  | .uniform, a, b, u => S.narrow (S.add (S.narrow (S.mul (S.narrow (S.sub b a)) u)) a)
  | .normal, mean, sd, z => S.narrow (S.add (S.narrow (S.mul z sd)) mean)
  | .logNormal, m, s, z => S.exp (S.narrow (S.add (S.narrow (S.mul s z)) m))

/-- `data[i] = …` of `DefaultRandomizer::fill_<kind>` for the draw `d = dist(rng_)`. -/
def fillElem {α : Type} (S : Sc α) : Kind → α → α → α → α
  | .bernoulli, p, _, d => fill_bernoulli_elem S p d
  | .uniform, lower, upper, d => fill_uniform_elem S lower upper d
  | .normal, mean, sd, d => fill_normal_elem S mean sd d
  | .logNormal, mean, sd, d => fill_log_normal_elem S mean sd d

/-- One element of the result from one standard draw. -/
def sample {α : Type} (S : Sc α) (k : Kind) (a b r : α) : α :=
  fillElem S k a b (stdDraw S k a b r)

/-- `<Backend>::random_<kind>_impl(a, b, y)`: `y.shape().size()` elements. -/
def fill {α : Type} (S : Sc α) (k : Kind) (a b : α) (raws : List α) (shape : Shape) : Tensor α :=
  ⟨shape, (raws.take shape.size).map (sample S k a b)⟩

/-- Does `Device::random_<kind>` throw for these parameters? -/
def rejects {α : Type} (S : Sc α) : Kind → α → α → Bool
  | .bernoulli, p, _ => guard_random_bernoulli S p
  | .uniform, lower, upper => guard_random_uniform S lower upper
  | .normal, mean, sd => guard_random_normal S mean sd
  | .logNormal, mean, sd => guard_random_log_normal S mean sd

/-- `Device::random_<kind>(shape, a, b)` when the generator delivers `raws`. -/
def deviceRandom {α : Type} (S : Sc α) (raws : List α) : Kind → Shape → α → α → R (Tensor α)
  | .bernoulli, sh, p, _ => Device_random_bernoulli S (fun p sh => fill S .bernoulli p p raws sh) sh p
  | .uniform, sh, lower, upper => Device_random_uniform S (fun lo up sh => fill S .uniform lo up raws sh) sh lower upper
  | .normal, sh, mean, sd => Device_random_normal S (fun m s sh => fill S .normal m s raws sh) sh mean sd
  | .logNormal, sh, mean, sd => Device_random_log_normal S (fun m s sh => fill S .logNormal m s raws sh) sh mean sd

/-! ### The stream of a device -/

/-- The generator of a device as far as the model needs it: `draw k n st` are the `n`
standard draws a fresh distribution object of kind `k` takes from the state `st`. -/
structure Source (σ α : Type) where
  draw : Kind → Nat → σ → List α × σ

structure Req (α : Type) where
  kind : Kind
  shape : Shape
  a : α
  b : α

/-- One request on a device: a rejected request draws nothing. -/
def step {σ α : Type} (S : Sc α) (G : Source σ α) (st : σ) (r : Req α) : σ × R (Tensor α) :=
  if rejects S r.kind r.a r.b then (st, throwError)
  else
    let d := G.draw r.kind r.shape.size st
    (d.2, deviceRandom S d.1 r.kind r.shape r.a r.b)

/-- A sequence of requests on one device: one stream, consumed in call order. -/
def run {σ α : Type} (S : Sc α) (G : Source σ α) : σ → List (Req α) → σ × List (R (Tensor α))
  | st, [] => (st, [])
  | st, r :: rs =>
    let o := step S G st r
    let os := run S G o.1 rs
    (os.1, o.2 :: os.2)

/-- The source the driver uses: the raw draws written on the request line. -/
def lineSource {α : Type} : Source (List α) α := ⟨fun _ n st => (st.take n, st.drop n)⟩

/-! ### Initializers -/

/-- `Device::identity(n)`. -/
def deviceIdentity {α : Type} (S : Sc α) (n : Nat) : R (Tensor α) :=
  if n == 0 then throwError else do
    let sh ← Shape.new [n, n] 1
    pure ⟨sh, (List.range (n * n)).map (fun i => if i % (n + 1) == 0 then S.ofNat 1 else S.ofNat 0)⟩

/-- The device call an initializer ends in, on a tensor of shape `xshape`. -/
def applyInit {α : Type} (S : Sc α) (raws : List α) (xshape : Shape) : InitAction α → R (Tensor α)
  | .reset k => pure ⟨xshape, List.replicate xshape.size k⟩
  | .uniform s lower upper => deviceRandom S raws .uniform s lower upper
  | .normal s mean sd => deviceRandom S raws .normal s mean sd
  | .identity n => deviceIdentity S n
  | .unsupported _ => crash

/-- The initializer classes by the name the line protocol uses, with their constructor arguments. -/
def initAction {α : Type} (S : Sc α) : String → List α → Shape → Option (R (InitAction α))
  | "constant", [k], sh => some (init_Constant S k sh)
  | "uniform", [lo, up], sh => some (init_Uniform S lo up sh)
  | "normal", [m, sd], sh => some (init_Normal S m sd sh)
  | "identity", [], sh => some (init_Identity S sh)
  | "xavier_uniform", [sc], sh => some (init_XavierUniform S sc sh)
  | "xavier_normal", [sc], sh => some (init_XavierNormal S sc sh)
  | "xavier_uniform_conv2d", [sc], sh => some (init_XavierUniformConv2D S sc sh)
  | "xavier_normal_conv2d", [sc], sh => some (init_XavierNormalConv2D S sc sh)
  | _, _, _ => none

/-- `Initializer::apply` on a zero tensor of shape `sh`. -/
def runInit {α : Type} (S : Sc α) (raws : List α) (act : R (InitAction α)) (sh : Shape) : R (Tensor α) := do
  let a ← act
  applyInit S raws sh a

/-- `Parameter(shape, initializer, device)`: the batch size must be 1, then `apply`. -/
def runParamInit {α : Type} (S : Sc α) (raws : List α) (act : R (InitAction α)) (sh : Shape) : R (Tensor α) :=
  if sh.hasBatch then throwError else runInit S raws act sh

/-! ### Dropout -/

/-- `Tensor` as the variable type of `dropout`: the two multiplication kernels (float
arithmetic) and `random::bernoulli<Tensor>(x.shape(), p, x.device())`. -/
def tensorVar {α : Type} (S : Sc α) (raws : List α) : VarOps α (Tensor α) where
  scale k x := ⟨x.shape, x.data.map (fun v => S.narrow (S.mul k v))⟩
  mul a b := ⟨a.shape, List.zipWith (fun u v => S.narrow (S.mul u v)) a.data b.data⟩
  bernoulli x p := deviceRandom S raws .bernoulli x.shape p p

/-- `functions::dropout(x, rate, enabled)` on a tensor. -/
def dropoutTensor {α : Type} (S : Sc α) (raws : List α) (x : Tensor α) (rate : α) (enabled : Bool) : R (Tensor α) :=
  dropout S (tensorVar S raws) x rate enabled

end Primitiv.Rng
