import PrimitivModel.Model.Shape
/-
Interface of the `rng` family (property C17) between the generated
definitions (`Gen/Rng.lean`, written by `translate/rng.py` from the C++
sources) and the hand-written model (`Model/Rng.lean`).

The generated guards and formulas are polymorphic in the scalar type through
the record `Sc α` of the operations the C++ text uses.  They are *executed* by
the driver at `Float` (IEEE double; a C++ `float` is a double that is exactly
representable in binary32, `narrow` is the double → float conversion) and
*reasoned about* at an ordered field with an uninterpreted `sqrt`
(`narrow = id`) resp. at a linear order extended by an unordered element (NaN).
Core Lean only.
-/
namespace Primitiv.Rng

/-- The scalar operations used by the translated C++ text. -/
structure Sc (α : Type) where
  /-- `a < b`, `a <= b`, `a == b` (IEEE: false when an operand is NaN) -/
  lt : α → α → Bool
  le : α → α → Bool
  eq : α → α → Bool
  add : α → α → α
  sub : α → α → α
  mul : α → α → α
  div : α → α → α
  neg : α → α
  /-- `std::sqrt` -/
  sqrt : α → α
  /-- `std::nextafter(a, b)` on `float` -/
  nextafter : α → α → α
  /-- `std::exp` on `float` (used only by libstdc++'s `lognormal_distribution`) -/
  exp : α → α
  /-- conversion of an integer literal or of a `std::uint32_t` value -/
  ofNat : Nat → α
  /-- conversion `double → float` (rounding); the identity in exact arithmetic -/
  narrow : α → α

/-- Variables (`Tensor` or `Node`) as far as the composite `dropout` uses them. -/
structure VarOps (α ν : Type) where
  /-- `operator*(float k, const Var &x)` -/
  scale : α → ν → ν
  /-- `operator*(const Var &a, const Var &b)` -/
  mul : ν → ν → ν
  /-- `random::bernoulli<Var>(x.shape(), p, x.device())` -/
  bernoulli : ν → α → R ν

/-- What an initializer finally does with the tensor `x` it is applied to. -/
inductive InitAction (α : Type) where
  /-- `x.reset(k)` -/
  | reset (k : α)
  /-- `x = x.device().random_uniform(s, lower, upper)` -/
  | uniform (s : Shape) (lower upper : α)
  /-- `x = x.device().random_normal(s, mean, sd)` -/
  | normal (s : Shape) (mean sd : α)
  /-- `x = x.device().identity(n)` -/
  | identity (n : Nat)
  /-- text outside the translated subset -/
  | unsupported (text : String)
deriving Repr, Inhabited

/-- C++ text outside the translated subset: constants nothing is known about. -/
opaque unsupportedBool (text : String) : Bool
opaque unsupportedVal {β : Type} [Inhabited β] (text : String) : β
opaque unsupportedScalar {α : Type} (S : Sc α) (text : String) : α := S.ofNat 0

end Primitiv.Rng
