/-
Scalar interface of the optimizer family (core Lean only).

Generated and hand-written definitions of this family are polymorphic in the
scalar type `α` through the plain operation classes `Add Sub Mul Div LT LE`
(+ the literals 0 and 1) and this record of named functions.  They are
executed at `Rat` (exact) and `Float32` by the driver and reasoned about over
a Mathlib field in `Props/`.
-/
namespace Primitiv.Opt

/-- The named functions the optimizer code calls besides `+ - * /`. -/
structure Fns (α : Type) where
  /-- `functions::sqrt` / `std::sqrt` -/
  sqrt : α → α
  /-- `std::pow(x, n)` with an unsigned integer exponent -/
  pow : α → Nat → α
  /-- placeholder for source text outside the translated subset; no theorem
  can say anything about it -/
  unsupported : String → α

/-- `uint32_t` addition -/
def add32 (a b : Nat) : Nat := (a + b) % 4294967296

/-- left-to-right sum, the order of the accumulation loops in the code -/
def sumL {α : Type} [Add α] [OfNat α 0] (l : List α) : α := l.foldl (· + ·) 0

/-- `b^n` by repeated multiplication (specification-level power) -/
def npow {α : Type} [Mul α] [OfNat α 1] (b : α) : Nat → α
  | 0 => 1
  | n + 1 => npow b n * b

end Primitiv.Opt
