/-
Model of primitiv::Shape (core/shape.h, core/shape.cc) and of the shape rules
(core/shape_ops.cc and the three FWD_SHAPE bodies with logic in
core/operator_impl.cc), with the code's std::uint32_t arithmetic made explicit:
every value is a `Nat` below `W = 2^32` and every arithmetic operation of the
C++ is the corresponding wrapping operation `add32/sub32/mul32`.

Tie to the code: correspondence (harness family `shape`).
Core Lean only (no Mathlib) so that the line-protocol driver links.
-/
namespace Primitiv

/-- 2^32, the modulus of std::uint32_t. -/
abbrev W : Nat := 4294967296
/-- 0xffffffff -/
abbrev MAXU : Nat := 4294967295

/-- How a modelled call can fail: a thrown primitiv::Error, or behaviour the
C++ leaves undefined (out-of-bounds index, division by zero, …). -/
inductive Err where
  | error
  | crash
deriving DecidableEq, Repr, Inhabited

abbrev R := Except Err

def throwError {α} : R α := .error .error
def crash {α} : R α := .error .crash

@[inline] def add32 (a b : Nat) : Nat := (a + b) % W
@[inline] def sub32 (a b : Nat) : Nat := (a + W - b % W) % W
@[inline] def mul32 (a b : Nat) : Nat := (a * b) % W

/-- Drop trailing ones: `while (depth_ > 0 && dims_[depth_ - 1] == 1) --depth_;` -/
def trim : List Nat → List Nat
  | [] => []
  | d :: ds =>
    match trim ds with
    | [] => if d = 1 then [] else [d]
    | t :: ts => d :: t :: ts

/-- 32-bit product as the code computes it: `ret = 1; for … ret *= d`. -/
def prod32 (l : List Nat) : Nat := l.foldl mul32 1

/-- The fields of primitiv::Shape. `dims` is the valid prefix `dims_[0..depth_)`. -/
structure Shape where
  dims : List Nat
  batch : Nat
  volume : Nat
deriving DecidableEq, Repr, Inhabited

namespace Shape

def depth (s : Shape) : Nat := s.dims.length

/-- `operator[]`: `i < depth_ ? dims_[i] : 1`. -/
def get (s : Shape) (i : Nat) : Nat := s.dims.getD i 1

/-- The default constructor. -/
def scalar : Shape := ⟨[], 1, 1⟩

/-- The constructor's loop `volume *= d; if (volume > 0xffffffff) throw`, in 64
bits (the running value is `≤ 2^32-1` before each multiplication by a value
`< 2^32`, so the 64-bit product never wraps).  `none` = the Error was thrown. -/
def prodChk : List Nat → Nat → Option Nat
  | [], v => some v
  | d :: ds, v => if v * d > MAXU then none else prodChk ds (v * d)

/-- `Shape(dims, batch)` (both constructors are identical). -/
def new (dims : List Nat) (batch : Nat) : R Shape :=
  if dims.length > 8 then throwError
  else
    match prodChk dims 1 with
    | none => throwError
    | some vol =>
      if vol = 0 ∨ batch = 0 ∨ vol * batch > MAXU then throwError
      else pure ⟨trim dims, batch, vol⟩

def size (s : Shape) : Nat := mul32 s.batch s.volume

/-- `lower_volume(dim)`. -/
def lowerVolume (s : Shape) (dim : Nat) : Nat := prod32 (s.dims.take dim)

def hasBatch (s : Shape) : Bool := decide (s.batch > 1)

def hasCompatibleBatch (a b : Shape) : Bool :=
  a.batch == b.batch || a.batch == 1 || b.batch == 1

def isScalar (s : Shape) : Bool := s.depth == 0
def isMatrix (s : Shape) : Bool := decide (s.depth ≤ 2)

/-- `has_same_dims`. -/
def hasSameDims (a b : Shape) : Bool :=
  ((List.range a.depth).all fun i => a.dims.getD i 1 == b.dims.getD i 1) && a.depth == b.depth

/-- `operator==`. -/
def eq (a b : Shape) : Bool := hasSameDims a b && a.batch == b.batch

/-- The length computed by the first two statements of `has_same_loo_dims`
for one operand: `nl = (depth_ > 0 && depth_ - 1 == dim) ? dim : depth_`, then
trailing ones are skipped. -/
def looLen (s : Shape) (dim : Nat) : R Nat :=
  if s.depth > 0 ∧ s.depth - 1 = dim then pure (trim (s.dims.take dim)).length
  else pure (trim s.dims).length

/-- `has_same_loo_dims`. -/
def hasSameLooDims (a b : Shape) (dim : Nat) : R Bool := do
  let nl ← looLen a dim
  let nr ← looLen b dim
  pure (nl == nr && (List.range nl).all fun i => a.dims.getD i 1 == b.dims.getD i 1 || i == dim)

/-- `update_batch`. -/
def updateBatch (s : Shape) (batch : Nat) : R Shape :=
  if batch = 0 then throwError
  else if s.volume * batch > MAXU then throwError
  else pure { s with batch := batch }

def resizeBatch := updateBatch

/-- `update_dim`. -/
def updateDim (s : Shape) (dim m : Nat) : R Shape :=
  if dim ≥ 8 then throwError
  else if m = 0 then throwError
  else
    let dims1 := if dim ≥ s.depth then s.dims ++ List.replicate (dim + 1 - s.depth) 1 else s.dims
    let d := s.get dim
    if d = 0 then crash
    else
      let nv := (s.volume / d) * m
      if nv > MAXU ∨ nv * s.batch > MAXU then throwError
      else pure ⟨trim (dims1.set dim m), s.batch, nv⟩

def resizeDim := updateDim

def toStr (s : Shape) : String :=
  "[" ++ ",".intercalate (s.dims.map toString) ++ "]x" ++ toString s.batch

end Shape

/-! ### shape_ops.cc -/
namespace ShapeOps
open Shape

def reshape (before after : Shape) : R Shape :=
  if before.volume ≠ after.volume ∨ (after.hasBatch ∧ after.batch ≠ before.batch) then throwError
  else after.resizeBatch before.batch

def flatten (x : Shape) : R Shape := Shape.new [x.volume] x.batch

def scalarOp (x k : Shape) : R Shape :=
  if !k.isScalar || !x.hasCompatibleBatch k then throwError
  else x.resizeBatch (max x.batch k.batch)

def elementwise (a b : Shape) : R Shape :=
  if !a.hasSameDims b || !a.hasCompatibleBatch b then throwError
  else a.resizeBatch (max a.batch b.batch)

def slice (x : Shape) (dim lower upper : Nat) : R Shape :=
  if lower ≥ upper ∨ upper > x.get dim then throwError
  else if dim ≥ x.depth then pure x else x.resizeDim dim (sub32 upper lower)

/-- The loop of `concat` over `xs[1..]`: state is `(s0, sum)`. -/
def concatLoop (dim : Nat) : List Shape → Shape × Nat → R (Shape × Nat)
  | [], st => pure st
  | s :: rest, (s0, sum) => do
    let loo ← s0.hasSameLooDims s dim
    if !loo || !s0.hasCompatibleBatch s then throwError
    else
      let s0' ← if !s0.hasBatch then s0.updateBatch s.batch else pure s0
      concatLoop dim rest (s0', sum + s.get dim)

def concat (xs : List Shape) (dim : Nat) : R Shape :=
  match xs with
  | [] => throwError
  | x0 :: rest => do
    let (s0, sum) ← concatLoop dim rest (x0, x0.get dim)
    if sum > MAXU then throwError else s0.updateDim dim sum

def broadcast (x : Shape) (dim size : Nat) : R Shape :=
  if x.get dim ≠ 1 ∨ size = 0 then throwError else x.resizeDim dim size

def pick (x : Shape) (ids : List Nat) (dim : Nat) : R Shape :=
  let n := x.get dim
  let bi := ids.length % W
  if bi = 0 ∨ (x.batch ≠ bi ∧ x.hasBatch ∧ bi > 1) then throwError
  else if ids.any (fun i => decide (i ≥ n)) then throwError
  else do
    let r ← x.resizeDim dim 1
    r.updateBatch (max x.batch bi)

def transpose (x : Shape) : R Shape :=
  if !x.isMatrix then throwError else Shape.new [x.get 1, x.get 0] x.batch

/-- The loop of `permute_dims`: `picked` is the list of axes already used. -/
def permuteLoop (x : Shape) (n : Nat) : List Nat → List Nat → R (List Nat)
  | [], _ => pure []
  | p :: ps, picked =>
    if p ≥ n then throwError
    else if picked.contains p then throwError
    else do
      let rest ← permuteLoop x n ps (p :: picked)
      pure (x.get p :: rest)

def permuteDims (x : Shape) (perm : List Nat) : R Shape :=
  if perm.length < x.depth then throwError
  else do
    let dims ← permuteLoop x perm.length perm []
    Shape.new dims x.batch

def matmul (l r : Shape) : R Shape :=
  if !l.isMatrix || !r.isMatrix || l.get 1 != r.get 0 || !l.hasCompatibleBatch r then throwError
  else Shape.new [l.get 0, r.get 1] (max l.batch r.batch)

def conv2d (x w : Shape) (p0 p1 s0 s1 d0 d1 : Nat) : R Shape :=
  -- 64-bit arithmetic; every value below is < 2^64, so plain `Nat` is exact
  let x0 := x.get 0 + 2 * p0
  let x1 := x.get 1 + 2 * p1
  let w0 := (w.get 0 - 1) * d0 + 1
  let w1 := (w.get 1 - 1) * d1 + 1
  if x.depth > 3 ∨ w.depth > 4 ∨ x0 < w0 ∨ x1 < w1 ∨ x.get 2 ≠ w.get 2 ∨
      !x.hasCompatibleBatch w ∨ s0 = 0 ∨ s1 = 0 ∨ d0 = 0 ∨ d1 = 0 then throwError
  else
    -- a zero stride is rejected above, so `/` is the C++ division
    let y0 := (x0 - w0) / s0 + 1
    let y1 := (x1 - w1) / s1 + 1
    if y0 > MAXU ∨ y1 > MAXU then throwError
    else Shape.new [y0, y1, w.get 3] (max x.batch w.batch)

def pool2d (x : Shape) (w0 w1 p0 p1 s0 s1 : Nat) : R Shape :=
  let x0 := x.get 0 + 2 * p0
  let x1 := x.get 1 + 2 * p1
  if x.depth > 3 ∨ x0 < w0 ∨ x1 < w1 ∨ w0 = 0 ∨ w1 = 0 ∨ s0 = 0 ∨ s1 = 0 then throwError
  else
    let y0 := (x0 - w0) / s0 + 1
    let y1 := (x1 - w1) / s1 + 1
    if y0 > MAXU ∨ y1 > MAXU then throwError
    else Shape.new [y0, y1, x.get 2] x.batch

def batchPick (x : Shape) (ids : List Nat) : R Shape :=
  let n := x.batch
  let bi := ids.length % W
  if bi = 0 then throwError
  else if ids.any (fun i => decide (i ≥ n)) then throwError
  else x.resizeBatch bi

def batchSlice (x : Shape) (lower upper : Nat) : R Shape :=
  if lower ≥ upper ∨ upper > x.batch then throwError
  else x.resizeBatch (sub32 upper lower)

def batchConcatLoop (s0 : Shape) : List Shape → Nat → R Nat
  | [], sum => pure sum
  | s :: rest, sum =>
    if !s0.hasSameDims s then throwError else batchConcatLoop s0 rest (sum + s.batch)

def batchConcat (xs : List Shape) : R Shape :=
  match xs with
  | [] => throwError
  | x0 :: rest => do
    let sum ← batchConcatLoop x0 rest x0.batch
    if sum > MAXU then throwError else x0.updateBatch sum

/-- `FWD_SHAPE(Split)` (operator_impl.cc): the shape of each of the `n` results. -/
def split (x : Shape) (dim n : Nat) : R Shape :=
  if n = 0 then throwError
  else
    let total := x.get dim
    let span := total / n
    if mul32 span n ≠ total then throwError else x.updateDim dim span

/-- `FWD_SHAPE(BatchSplit)`. -/
def batchSplit (x : Shape) (n : Nat) : R Shape :=
  if n = 0 then throwError
  else
    let total := x.batch
    let span := total / n
    if mul32 span n ≠ total then throwError else x.updateBatch span

/-- `FWD_SHAPE(SoftmaxCrossEntropy)`: `elementwise(x, t)` then `update_dim(dim, 1)`. -/
def softmaxCrossEntropy (x t : Shape) (dim : Nat) : R Shape := do
  let y ← elementwise x t
  y.updateDim dim 1

end ShapeOps
end Primitiv
