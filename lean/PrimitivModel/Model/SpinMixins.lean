/-
Sequential models of the two mixins that C19 names:
`mixins::Identifiable<T>` (core/mixins/identifiable.h) and
`mixins::DefaultSettable<T>` (core/mixins/default_settable.h).
Objects are named by abstract addresses (`Nat`, the slot index of the
harness).  Every method of Identifiable runs under `mutex_`, so a concurrent
execution is a sequential history of these commands (that the mutex is taken
is read off the source; the free-running TSan program exercises it).
Tie to the code: correspondence (harness family `spin`, lines `ident …`,
`default …`).  Core Lean only.
-/
namespace Primitiv.Lock

/-- 2^64, the modulus of `std::uint64_t next_id_`. -/
abbrev W64 : Nat := 18446744073709551616

/-- `++x` on a `std::uint64_t`. -/
def inc64 (n : Nat) : Nat := if n + 1 < W64 then n + 1 else 0

def updO {α} (f : Nat → α) (k : Nat) (v : α) : Nat → α := fun x => if x = k then v else f x

namespace Ident

inductive Cmd where
  | new (a : Nat)    -- construct an object at address a
  | del (a : Nat)    -- destroy the object at address a
  | get (id : Nat)   -- get_object(id)
deriving DecidableEq, Repr, Inhabited

structure St where
  next : Nat                  -- next_id_
  objs : Nat → Option Nat     -- objects_: id ↦ address
  live : Nat → Option Nat     -- live objects: address ↦ its id_ member
  issued : List Nat           -- ghost: every id handed out so far, newest first

def init : St := ⟨0, fun _ => none, fun _ => none, []⟩

/-- One command; the result line of the protocol. `bad-op` = the command is not
a possible call (constructing at an occupied address, destroying a dead object). -/
def exec (s : St) : Cmd → St × String
  | .new a =>
    match s.live a with
    | some _ => (s, "bad-op")
    | none =>
      let id := s.next
      -- objects_.emplace(id_, this): does not overwrite an existing key
      let objs := match s.objs id with
        | some _ => s.objs
        | none => updO s.objs id (some a)
      (⟨inc64 s.next, objs, updO s.live a (some id), id :: s.issued⟩, s!"ok {id}")
  | .del a =>
    match s.live a with
    | none => (s, "bad-op")
    | some id => (⟨s.next, updO s.objs id none, updO s.live a none, s.issued⟩, "ok")
  | .get id =>
    match s.objs id with
    | some a => (s, s!"ok {a}")
    | none => (s, "err")

def run (h : List Cmd) : St := h.foldl (fun s c => (exec s c).1) init

end Ident

namespace Default

inductive Cmd where
  | new (a : Nat)
  | set (a : Nat)    -- set_default(obj at a)
  | del (a : Nat)    -- destroy the object at a
  | get              -- get_default()
deriving DecidableEq, Repr, Inhabited

structure St where
  live : Nat → Bool
  slot : Option Nat           -- default_obj_

def init : St := ⟨fun _ => false, none⟩

def exec (s : St) : Cmd → St × String
  | .new a => if s.live a then (s, "bad-op") else (⟨updO s.live a true, s.slot⟩, "ok")
  | .set a => if s.live a then (⟨s.live, some a⟩, "ok") else (s, "bad-op")
  | .del a =>
    if s.live a then
      -- ~DefaultSettable(): if (default_obj_ == this) default_obj_ = nullptr;
      (⟨updO s.live a false, if s.slot = some a then none else s.slot⟩, "ok")
    else (s, "bad-op")
  | .get =>
    match s.slot with
    | some a => (s, s!"ok {a}")
    | none => (s, "err")

def run (h : List Cmd) : St := h.foldl (fun s c => (exec s c).1) init

end Default
end Primitiv.Lock
