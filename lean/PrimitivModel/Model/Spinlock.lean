/-
Model of primitiv::Spinlock and primitiv::RecursiveSpinlock (core/spinlock.h)
at the granularity of the shared-memory accesses of the code: one step of a
thread = one access (`test_and_set`, `clear`, read / write of
`locked_thread_id_`, `++lock_count_`, `--lock_count_`).  Any number of threads
(`Nat → Thread`); the system step picks any thread (`step s t`).

Thread ids are abstract (`Nat`); the value of a default-constructed
`std::thread::id` ("no owner") is `none`.

Ghost state: `hold` counts, per thread, the acquisitions that have *returned*
successfully minus the `unlock()` calls that have returned (API level; the
harness keeps the same counter outside the library).

Tie to the code: correspondence (harness family `spin`, the real header run
under a cooperative scheduler through PRIMITIV_VERIF_YIELD), plus the
declaration table translated from the source (`Gen/SpinlockDecls.lean`).
Core Lean only.
-/
namespace Primitiv.Lock

/-- 2^32, the modulus of `std::uint32_t lock_count_`. -/
abbrev W : Nat := 4294967296

/-- `++x` / `--x` on a `std::uint32_t` whose value is `< W`. -/
def inc32 (c : Nat) : Nat := if c + 1 < W then c + 1 else 0
def dec32 (c : Nat) : Nat := if c = 0 then W - 1 else c - 1

/-- The three public operations of both classes. -/
inductive Op where
  | lock | tryLock | unlock
deriving DecidableEq, Repr, Inhabited

/-- The data members of the two classes. -/
inductive Field where
  | ready   -- std::atomic_flag ready_
  | owner   -- locked_thread_id_
  | count   -- lock_count_
deriving DecidableEq, Repr, Inhabited

inductive Kind where
  | read | write | rmw
deriving DecidableEq, Repr, Inhabited

/-- Memory order of an access as written in the source; `plain` = the access is
an ordinary (non-atomic) expression. -/
inductive MemOrder where
  | plain | relaxed | consume | acquire | release | acqRel | seqCst
deriving DecidableEq, Repr, Inhabited

def MemOrder.isAcquire : MemOrder → Bool
  | .acquire | .acqRel | .seqCst => true
  | _ => false

def MemOrder.isRelease : MemOrder → Bool
  | .release | .acqRel | .seqCst => true
  | _ => false

structure Access where
  field : Field
  kind : Kind
deriving DecidableEq, Repr, Inhabited

def Access.isWrite (a : Access) : Bool := a.kind != .read

/-- One access as the translator finds it in a method body. -/
structure SrcAccess where
  field : Field
  kind : Kind
  order : MemOrder
deriving DecidableEq, Repr, Inhabited

def SrcAccess.access (a : SrcAccess) : Access := ⟨a.field, a.kind⟩

/-- What the translator extracts from one class of spinlock.h. -/
structure Decls where
  /-- is the member declared with an atomic type (`std::atomic_flag`, `std::atomic<…>`)? -/
  atomic : Field → Bool
  /-- accesses of `try_lock()` / `unlock()` in textual order -/
  tryLock : List SrcAccess
  unlock : List SrcAccess
deriving Inhabited

/-! The declaration table the translator emits for all four classes. -/

inductive Cls where
  | spinlock | recursiveSpinlock | identifiable | defaultSettable
deriving DecidableEq, Repr, Inhabited

inductive Member where
  | ready | owner | count                 -- ready_, locked_thread_id_, lock_count_
  | nextId | objects | mutex | objId      -- Identifiable: next_id_, objects_, mutex_, id_
  | defaultObj                            -- DefaultSettable: default_obj_
deriving DecidableEq, Repr, Inhabited

inductive IdentMethod where
  | ctor | dtor | getObject
deriving DecidableEq, Repr, Inhabited

structure MemberDecl where
  cls : Cls
  member : Member
  type : String          -- the declared type, as written
  isStatic : Bool
  isThreadLocal : Bool
  isAtomic : Bool
  bits : Nat             -- width when the type is a fixed-width unsigned integer, else 0
deriving Repr, Inhabited

def findMember (l : List MemberDecl) (c : Cls) (m : Member) : Option MemberDecl :=
  l.find? (fun d => d.cls = c ∧ d.member = m)

/-- width of an integer member (0: not declared, or not a fixed-width unsigned integer) -/
def bitsOf (l : List MemberDecl) (c : Cls) (m : Member) : Nat :=
  match findMember l c m with
  | some d => d.bits
  | none => 0

/-- (static?, thread_local?) of a member -/
def storageOf (l : List MemberDecl) (c : Cls) (m : Member) : Option (Bool × Bool) :=
  (findMember l c m).map (fun d => (d.isStatic, d.isThreadLocal))

/-- Two accesses by different threads form a data race when they touch the same
non-atomic field and at least one of them writes. -/
def Conflict (d : Decls) (a b : Option Access) : Prop :=
  match a, b with
  | some x, some y => x.field = y.field ∧ (x.isWrite = true ∨ y.isWrite = true) ∧ d.atomic x.field = false
  | _, _ => False

instance (d : Decls) (a b : Option Access) : Decidable (Conflict d a b) := by
  unfold Conflict; split <;> infer_instance

/-- update of one thread -/
def upd {α} (f : Nat → α) (t : Nat) (v : α) : Nat → α := fun x => if x = t then v else f x

@[simp] theorem upd_same {α} (f : Nat → α) (t : Nat) (v : α) : upd f t v t = v := by simp [upd]
@[simp] theorem upd_other {α} (f : Nat → α) (t u : Nat) (v : α) (h : u ≠ t) : upd f t v u = f u := by simp [upd, h]

/-! ## Spinlock -/
namespace Spin

/-- Program counter: the access the thread performs next. -/
inductive Pc where
  | done
  | tas (blocking : Bool)   -- `ready_.test_and_set(acquire)` in try_lock() (called from lock() when `blocking`)
  | clr                     -- `ready_.clear(release)` in unlock()
deriving DecidableEq, Repr, Inhabited

structure Thread where
  pc : Pc
  rest : List Op
  hold : Bool
deriving DecidableEq, Repr, Inhabited

/-- The client: the next operation of the program.  `unlock()` of a Spinlock the
thread does not hold is a misuse of the class (it would release somebody
else's lock); the client modelled here (and the harness) skips such calls. -/
def fetch (hold : Bool) : List Op → Pc × List Op
  | [] => (.done, [])
  | .unlock :: r => if hold then (.clr, r) else fetch hold r
  | .lock :: r => (.tas true, r)
  | .tryLock :: r => (.tas false, r)

def start (prog : List Op) : Thread :=
  let (pc, r) := fetch false prog
  ⟨pc, r, false⟩

def finish (hold : Bool) (rest : List Op) : Thread :=
  let (pc, r) := fetch hold rest
  ⟨pc, r, hold⟩

/-- What a step did: the access, and the value returned by the public call when
the step completed one (`some true/false` for try_lock, `none` otherwise). -/
structure Event where
  acc : String
  ret : String
deriving DecidableEq, Repr, Inhabited

/-- One access of a thread against the shared flag. -/
def trans (flag : Bool) (th : Thread) : Bool × Thread × Event :=
  match th.pc with
  | .done => (flag, th, ⟨"none", "-"⟩)
  | .tas b =>
    if flag then
      -- test_and_set returned true: try_lock() returns false
      if b then (flag, th, ⟨"tas", "-"⟩)                       -- lock(): spin, same access again
      else (flag, finish th.hold th.rest, ⟨"tas", "false"⟩)
    else (true, finish true th.rest, ⟨"tas", if b then "void" else "true"⟩)
  | .clr => (false, finish false th.rest, ⟨"clear", "void"⟩)

structure Sys where
  flag : Bool
  thr : Nat → Thread

def init (progs : Nat → List Op) : Sys := ⟨false, fun t => start (progs t)⟩

def step (s : Sys) (t : Nat) : Sys × Event :=
  let r := trans s.flag (s.thr t)
  (⟨r.1, upd s.thr t r.2.1⟩, r.2.2)

/-- States reachable from the initial state of some programs under any schedule. -/
inductive Reach (progs : Nat → List Op) : Sys → Prop where
  | init : Reach progs (init progs)
  | step {s} (t : Nat) : Reach progs s → Reach progs (step s t).1

def nextAccess : Pc → Option Access
  | .done => none
  | .tas _ => some ⟨.ready, .rmw⟩
  | .clr => some ⟨.ready, .write⟩

def pcName : Pc → String
  | .done => "done" | .tas _ => "tas" | .clr => "clear"

end Spin

/-! ## RecursiveSpinlock -/
namespace RSpin

inductive Pc where
  | done
  | tTas (blocking : Bool)  -- try_lock: `ready_.test_and_set(acquire)`
  | tRd (blocking : Bool)   -- try_lock: read of locked_thread_id_ (flag was set)
  | tWr (blocking : Bool)   -- try_lock: locked_thread_id_ = this thread (flag was clear)
  | tInc (blocking : Bool)  -- try_lock: ++lock_count_
  | uRd                     -- unlock: read of locked_thread_id_
  | uDec                    -- unlock: --lock_count_ (and test against 0)
  | uWr                     -- unlock: locked_thread_id_ = thread::id()
  | uClr                    -- unlock: `ready_.clear(release)`
deriving DecidableEq, Repr, Inhabited

structure Thread where
  pc : Pc
  rest : List Op
  hold : Nat
deriving DecidableEq, Repr, Inhabited

structure Shared where
  flag : Bool
  owner : Option Nat
  count : Nat
deriving DecidableEq, Repr, Inhabited

def entry : Op → Pc
  | .lock => .tTas true
  | .tryLock => .tTas false
  | .unlock => .uRd

def fetch : List Op → Pc × List Op
  | [] => (.done, [])
  | op :: r => (entry op, r)

def start (prog : List Op) : Thread := ⟨(fetch prog).1, (fetch prog).2, 0⟩

def finish (hold : Nat) (rest : List Op) : Thread := ⟨(fetch rest).1, (fetch rest).2, hold⟩

abbrev Event := Spin.Event

/-- One access of thread `t`. -/
def trans (t : Nat) (sh : Shared) (th : Thread) : Shared × Thread × Event :=
  match th.pc with
  | .done => (sh, th, ⟨"none", "-"⟩)
  | .tTas b =>
    if sh.flag then (sh, { th with pc := .tRd b }, ⟨"tas", "-"⟩)
    else ({ sh with flag := true }, { th with pc := .tWr b }, ⟨"tas", "-"⟩)
  | .tRd b =>
    if sh.owner = some t then (sh, { th with pc := .tInc b }, ⟨"rd_owner", "-"⟩)
    else if b then (sh, { th with pc := .tTas true }, ⟨"rd_owner", "-"⟩)   -- lock(): try_lock() returned false, loop
    else (sh, finish th.hold th.rest, ⟨"rd_owner", "false"⟩)
  | .tWr b => ({ sh with owner := some t }, { th with pc := .tInc b }, ⟨"wr_owner", "-"⟩)
  | .tInc b =>
    ({ sh with count := inc32 sh.count }, finish (th.hold + 1) th.rest, ⟨"inc", if b then "void" else "true"⟩)
  | .uRd =>
    if sh.owner = some t then (sh, { th with pc := .uDec }, ⟨"rd_owner", "-"⟩)
    else (sh, finish (th.hold - 1) th.rest, ⟨"rd_owner", "void"⟩)
  | .uDec =>
    let c := dec32 sh.count
    if c = 0 then ({ sh with count := c }, { th with pc := .uWr }, ⟨"dec", "-"⟩)
    else ({ sh with count := c }, finish (th.hold - 1) th.rest, ⟨"dec", "void"⟩)
  | .uWr => ({ sh with owner := none }, { th with pc := .uClr }, ⟨"wr_owner", "-"⟩)
  | .uClr => ({ sh with flag := false }, finish (th.hold - 1) th.rest, ⟨"clear", "void"⟩)

structure Sys where
  sh : Shared
  thr : Nat → Thread

def init (progs : Nat → List Op) : Sys := ⟨⟨false, none, 0⟩, fun t => start (progs t)⟩

def step (s : Sys) (t : Nat) : Sys × Event :=
  let r := trans t s.sh (s.thr t)
  (⟨r.1, upd s.thr t r.2.1⟩, r.2.2)

/-- The step of `t` in `s` does not wrap `lock_count_` (2^32 nested acquisitions). -/
def NoWrap (s : Sys) (t : Nat) : Prop :=
  ∀ b, (s.thr t).pc = .tInc b → s.sh.count + 1 < W

/-- States reachable from the initial state of some programs under any schedule
in which the 32-bit nesting counter never wraps. -/
inductive Reach (progs : Nat → List Op) : Sys → Prop where
  | init : Reach progs (init progs)
  | step {s} (t : Nat) : Reach progs s → NoWrap s t → Reach progs (step s t).1

def nextAccess : Pc → Option Access
  | .done => none
  | .tTas _ => some ⟨.ready, .rmw⟩
  | .tRd _ => some ⟨.owner, .read⟩
  | .tWr _ => some ⟨.owner, .write⟩
  | .tInc _ => some ⟨.count, .rmw⟩
  | .uRd => some ⟨.owner, .read⟩
  | .uDec => some ⟨.count, .rmw⟩
  | .uWr => some ⟨.owner, .write⟩
  | .uClr => some ⟨.ready, .write⟩

def pcName : Pc → String
  | .done => "done" | .tTas _ => "tas" | .tRd _ => "rd_owner" | .tWr _ => "wr_owner" | .tInc _ => "inc"
  | .uRd => "rd_owner" | .uDec => "dec" | .uWr => "wr_owner" | .uClr => "clear"

/-- The accesses of `try_lock()` / `unlock()` in the textual order of the
source, as the program counters of this model perform them. -/
def tryLockSeq : List Access := [Pc.tTas false, .tRd false, .tWr false, .tInc false].filterMap nextAccess
def unlockSeq : List Access := [Pc.uRd, .uDec, .uWr, .uClr].filterMap nextAccess

end RSpin

namespace Spin
def tryLockSeq : List Access := [Pc.tas false].filterMap nextAccess
def unlockSeq : List Access := [Pc.clr].filterMap nextAccess
end Spin

end Primitiv.Lock
