import PrimitivModel.Model.KernelsArith
namespace Primitiv.C01.Arith
theorem placeholder : True := trivial
end Primitiv.C01.Arith
