import PrimitivModel.Analysis.Scalar
import PrimitivModel.Lemmas.ArithIndex
import PrimitivModel.Props.C08.Arith
/-
C01 (backward() yields the true derivative), arithmetic kernels.

* `Elementwise.<f>_bw_is_derivative` (T3 applied to the generated text): the
  backward formula generated from devices/naive/ops AND the one generated from
  devices/eigen/ops, interpreted over ℝ and fed with `y = fw x`, equal
  `gy · f′(x)` where `f′` is the derivative (`HasDerivAt`) of the generated
  forward formula, on the smooth domain of the function.
* `pown_fw_spec` (T4): the square-and-multiply loop is `x ^ k` for every integer k
  (`INT32_MIN` included); `pown_bw_is_derivative` for x ≠ 0; the full statement
  (every x for k ≥ 0) is false on the pinned tree: `pown_bw_zero_witness`.
* `Binary.<op>_adjoint`, `Matmul.adjoint`, `Conv2d.adjoint`, `MaxPool.adjoint` (T2):
  local adjoint laws `Σ⟪bw − g₀, dx⟫ = Σ⟪gy, jvp dx⟫` over a commutative ring /
  field, for every batch pattern (a zero stride sums the gradient over the batch).
-/
namespace Primitiv.C01.Arith
open Primitiv Primitiv.Arith Primitiv.Gen.Elementwise Primitiv.Analysis Finset

/-- `bw` is a backward formula of `fw` at `x`: with `y = fw x` it returns `gy · f′(x)` for every upstream `gy` -/
def IsBackwardOf (fw : ℝ → ℝ) (bw : ℝ → ℝ → ℝ → ℝ) (x : ℝ) : Prop :=
  ∃ d, HasDerivAt fw d x ∧ ∀ gy, bw x (fw x) gy = gy * d

theorem IsBackwardOf.congr {fw fw' : ℝ → ℝ} {bw bw' : ℝ → ℝ → ℝ → ℝ} {x : ℝ}
    (h : IsBackwardOf fw bw x) (hf : fw = fw') (hb : ∀ x y gy, bw x y gy = bw' x y gy) : IsBackwardOf fw' bw' x := by
  obtain ⟨d, hd, hg⟩ := h
  subst hf
  exact ⟨d, hd, fun gy => by rw [← hb]; exact hg gy⟩

namespace Elementwise

/-- both backends at once: the Eigen pair is the Naive pair (Props/C08/Arith.lean) -/
local macro "both" n:ident _fwn:ident fwe:ident bwe:ident : tactic =>
  `(tactic| exact ⟨$n, IsBackwardOf.congr $n (funext fun x => $fwe x) (fun x y gy => $bwe x y gy)⟩)

/-! #### unary -/

theorem tanh_fw_eq : naive_tanh_fw realFns = Real.tanh := by funext x; simp [naive_tanh_fw]
theorem exp_fw_eq : naive_exp_fw realFns = Real.exp := by funext x; simp [naive_exp_fw]
theorem log_fw_eq : naive_log_fw realFns = Real.log := by funext x; simp [naive_log_fw]
theorem sqrt_fw_eq : naive_sqrt_fw realFns = Real.sqrt := by funext x; simp [naive_sqrt_fw]
theorem sin_fw_eq : naive_sin_fw realFns = Real.sin := by funext x; simp [naive_sin_fw]
theorem cos_fw_eq : naive_cos_fw realFns = Real.cos := by funext x; simp [naive_cos_fw]
theorem tan_fw_eq : naive_tan_fw realFns = Real.tan := by funext x; simp [naive_tan_fw]
theorem abs_fw_eq : naive_abs_fw realFns = fun x => |x| := by funext x; simp [naive_abs_fw]
theorem sigmoid_fw_eq : naive_sigmoid_fw realFns = sigmoidT := by
  funext x; simp [naive_sigmoid_fw, sigmoidT]
theorem softplus_fw_eq : naive_softplus_fw realFns = softplus := by
  funext x
  simp only [naive_softplus_fw, lit_zero, lit_one, fns_exp, fns_log]
  split_ifs
  · exact softplus_pos_branch x
  · rfl

theorem tanh_bw_is_derivative (x : ℝ) :
    IsBackwardOf (naive_tanh_fw realFns) (naive_tanh_bw realFns) x ∧
    IsBackwardOf (eigen_tanh_fw realFns) (eigen_tanh_bw realFns) x := by
  have n : IsBackwardOf (naive_tanh_fw realFns) (naive_tanh_bw realFns) x := by
    rw [tanh_fw_eq]
    exact ⟨_, hasDerivAt_tanh x, fun gy => by simp [naive_tanh_bw]; ring⟩
  both n C08.Arith.Elementwise.naive_eq_eigen_tanh_fw C08.Arith.Elementwise.naive_eq_eigen_tanh_fw
    C08.Arith.Elementwise.naive_eq_eigen_tanh_bw

theorem sigmoid_bw_is_derivative (x : ℝ) :
    IsBackwardOf (naive_sigmoid_fw realFns) (naive_sigmoid_bw realFns) x ∧
    IsBackwardOf (eigen_sigmoid_fw realFns) (eigen_sigmoid_bw realFns) x := by
  have n : IsBackwardOf (naive_sigmoid_fw realFns) (naive_sigmoid_bw realFns) x := by
    rw [sigmoid_fw_eq]
    exact ⟨_, hasDerivAt_sigmoidT x, fun gy => by simp [naive_sigmoid_bw]; ring⟩
  both n C08.Arith.Elementwise.naive_eq_eigen_sigmoid_fw C08.Arith.Elementwise.naive_eq_eigen_sigmoid_fw
    C08.Arith.Elementwise.naive_eq_eigen_sigmoid_bw

theorem softplus_bw_is_derivative (x : ℝ) :
    IsBackwardOf (naive_softplus_fw realFns) (naive_softplus_bw realFns) x ∧
    IsBackwardOf (eigen_softplus_fw realFns) (eigen_softplus_bw realFns) x := by
  have n : IsBackwardOf (naive_softplus_fw realFns) (naive_softplus_bw realFns) x := by
    rw [softplus_fw_eq]
    exact ⟨_, hasDerivAt_softplus x, fun gy => by simp [naive_softplus_bw, sigmoidT]; ring⟩
  both n C08.Arith.Elementwise.naive_eq_eigen_softplus_fw C08.Arith.Elementwise.naive_eq_eigen_softplus_fw
    C08.Arith.Elementwise.naive_eq_eigen_softplus_bw

theorem exp_bw_is_derivative (x : ℝ) :
    IsBackwardOf (naive_exp_fw realFns) (naive_exp_bw realFns) x ∧
    IsBackwardOf (eigen_exp_fw realFns) (eigen_exp_bw realFns) x := by
  have n : IsBackwardOf (naive_exp_fw realFns) (naive_exp_bw realFns) x := by
    rw [exp_fw_eq]
    exact ⟨_, hasDerivAt_exp' x, fun gy => by simp [naive_exp_bw]; ring⟩
  both n C08.Arith.Elementwise.naive_eq_eigen_exp_fw C08.Arith.Elementwise.naive_eq_eigen_exp_fw
    C08.Arith.Elementwise.naive_eq_eigen_exp_bw

theorem log_bw_is_derivative {x : ℝ} (hx : x ≠ 0) :
    IsBackwardOf (naive_log_fw realFns) (naive_log_bw realFns) x ∧
    IsBackwardOf (eigen_log_fw realFns) (eigen_log_bw realFns) x := by
  have n : IsBackwardOf (naive_log_fw realFns) (naive_log_bw realFns) x := by
    rw [log_fw_eq]
    exact ⟨_, hasDerivAt_log' hx, fun gy => by simp [naive_log_bw]; ring⟩
  both n C08.Arith.Elementwise.naive_eq_eigen_log_fw C08.Arith.Elementwise.naive_eq_eigen_log_fw
    C08.Arith.Elementwise.naive_eq_eigen_log_bw
example : (2 : ℝ) ≠ 0 := by norm_num

theorem sqrt_bw_is_derivative {x : ℝ} (hx : 0 < x) :
    IsBackwardOf (naive_sqrt_fw realFns) (naive_sqrt_bw realFns) x ∧
    IsBackwardOf (eigen_sqrt_fw realFns) (eigen_sqrt_bw realFns) x := by
  have n : IsBackwardOf (naive_sqrt_fw realFns) (naive_sqrt_bw realFns) x := by
    rw [sqrt_fw_eq]
    exact ⟨_, hasDerivAt_sqrt' hx, fun gy => by simp [naive_sqrt_bw]; ring⟩
  both n C08.Arith.Elementwise.naive_eq_eigen_sqrt_fw C08.Arith.Elementwise.naive_eq_eigen_sqrt_fw
    C08.Arith.Elementwise.naive_eq_eigen_sqrt_bw
example : (0 : ℝ) < 2 := by norm_num

theorem sin_bw_is_derivative (x : ℝ) :
    IsBackwardOf (naive_sin_fw realFns) (naive_sin_bw realFns) x ∧
    IsBackwardOf (eigen_sin_fw realFns) (eigen_sin_bw realFns) x := by
  have n : IsBackwardOf (naive_sin_fw realFns) (naive_sin_bw realFns) x := by
    rw [sin_fw_eq]
    exact ⟨_, hasDerivAt_sin' x, fun gy => by simp [naive_sin_bw]; ring⟩
  both n C08.Arith.Elementwise.naive_eq_eigen_sin_fw C08.Arith.Elementwise.naive_eq_eigen_sin_fw
    C08.Arith.Elementwise.naive_eq_eigen_sin_bw

theorem cos_bw_is_derivative (x : ℝ) :
    IsBackwardOf (naive_cos_fw realFns) (naive_cos_bw realFns) x ∧
    IsBackwardOf (eigen_cos_fw realFns) (eigen_cos_bw realFns) x := by
  have n : IsBackwardOf (naive_cos_fw realFns) (naive_cos_bw realFns) x := by
    rw [cos_fw_eq]
    exact ⟨_, hasDerivAt_cos' x, fun gy => by simp [naive_cos_bw]; ring⟩
  both n C08.Arith.Elementwise.naive_eq_eigen_cos_fw C08.Arith.Elementwise.naive_eq_eigen_cos_fw
    C08.Arith.Elementwise.naive_eq_eigen_cos_bw

theorem tan_bw_is_derivative {x : ℝ} (hx : Real.cos x ≠ 0) :
    IsBackwardOf (naive_tan_fw realFns) (naive_tan_bw realFns) x ∧
    IsBackwardOf (eigen_tan_fw realFns) (eigen_tan_bw realFns) x := by
  have n : IsBackwardOf (naive_tan_fw realFns) (naive_tan_bw realFns) x := by
    rw [tan_fw_eq]
    exact ⟨_, hasDerivAt_tan' hx, fun gy => by simp [naive_tan_bw]; ring⟩
  both n C08.Arith.Elementwise.naive_eq_eigen_tan_fw C08.Arith.Elementwise.naive_eq_eigen_tan_fw
    C08.Arith.Elementwise.naive_eq_eigen_tan_bw
example : Real.cos 0 ≠ 0 := by simp

theorem abs_bw_is_derivative {x : ℝ} (hx : x ≠ 0) :
    IsBackwardOf (naive_abs_fw realFns) (naive_abs_bw realFns) x ∧
    IsBackwardOf (eigen_abs_fw realFns) (eigen_abs_bw realFns) x := by
  have e : IsBackwardOf (eigen_abs_fw realFns) (eigen_abs_bw realFns) x := by
    have : eigen_abs_fw realFns = fun x => |x| := by funext x; simp [eigen_abs_fw]
    rw [this]
    exact ⟨_, hasDerivAt_abs' hx, fun gy => by simp [eigen_abs_bw]; ring⟩
  exact ⟨IsBackwardOf.congr e (funext fun x => (C08.Arith.Elementwise.naive_eq_eigen_abs_fw x).symm)
    (fun x y gy => (C08.Arith.Elementwise.naive_eq_eigen_abs_bw x y gy).symm), e⟩
example : (-3 : ℝ) ≠ 0 := by norm_num

/-! #### `*_const_*`, prelu, elu: `fw := fun x => f x k`, `bw := fun x y gy => b x y gy k` -/

/-- the const kernels as unary functions -/
abbrev cf (f : ℝ → ℝ → ℝ) (k : ℝ) : ℝ → ℝ := fun x => f x k
abbrev cb (b : ℝ → ℝ → ℝ → ℝ → ℝ) (k : ℝ) : ℝ → ℝ → ℝ → ℝ := fun x y gy => b x y gy k

local macro "bothc" n:ident fwe:ident bwe:ident k:ident : tactic =>
  `(tactic| exact ⟨$n, IsBackwardOf.congr $n (funext fun x => $fwe x $k) (fun x y gy => $bwe x y gy $k)⟩)

theorem add_const_bw_is_derivative (k x : ℝ) :
    IsBackwardOf (cf (naive_add_const_fw realFns) k) (cb (naive_add_const_bw realFns) k) x ∧
    IsBackwardOf (cf (eigen_add_const_fw realFns) k) (cb (eigen_add_const_bw realFns) k) x := by
  have n : IsBackwardOf (cf (naive_add_const_fw realFns) k) (cb (naive_add_const_bw realFns) k) x :=
    ⟨1, by rw [show cf (naive_add_const_fw realFns) k = fun x => x + k from rfl]; exact (hasDerivAt_id x).add_const k,
      fun gy => by simp [cb, naive_add_const_bw]⟩
  bothc n C08.Arith.Elementwise.naive_eq_eigen_add_const_fw C08.Arith.Elementwise.naive_eq_eigen_add_const_bw k

theorem subtract_const_r_bw_is_derivative (k x : ℝ) :
    IsBackwardOf (cf (naive_subtract_const_r_fw realFns) k) (cb (naive_subtract_const_r_bw realFns) k) x ∧
    IsBackwardOf (cf (eigen_subtract_const_r_fw realFns) k) (cb (eigen_subtract_const_r_bw realFns) k) x := by
  have n : IsBackwardOf (cf (naive_subtract_const_r_fw realFns) k) (cb (naive_subtract_const_r_bw realFns) k) x :=
    ⟨1, by rw [show cf (naive_subtract_const_r_fw realFns) k = fun x => x - k from rfl]; exact (hasDerivAt_id x).sub_const k,
      fun gy => by simp [cb, naive_subtract_const_r_bw]⟩
  bothc n C08.Arith.Elementwise.naive_eq_eigen_subtract_const_r_fw C08.Arith.Elementwise.naive_eq_eigen_subtract_const_r_bw k

theorem subtract_const_l_bw_is_derivative (k x : ℝ) :
    IsBackwardOf (cf (naive_subtract_const_l_fw realFns) k) (cb (naive_subtract_const_l_bw realFns) k) x ∧
    IsBackwardOf (cf (eigen_subtract_const_l_fw realFns) k) (cb (eigen_subtract_const_l_bw realFns) k) x := by
  have n : IsBackwardOf (cf (naive_subtract_const_l_fw realFns) k) (cb (naive_subtract_const_l_bw realFns) k) x :=
    ⟨-1, by rw [show cf (naive_subtract_const_l_fw realFns) k = fun x => k - x from rfl]; exact (hasDerivAt_id x).const_sub k,
      fun gy => by simp [cb, naive_subtract_const_l_bw]⟩
  bothc n C08.Arith.Elementwise.naive_eq_eigen_subtract_const_l_fw C08.Arith.Elementwise.naive_eq_eigen_subtract_const_l_bw k

theorem multiply_const_bw_is_derivative (k x : ℝ) :
    IsBackwardOf (cf (naive_multiply_const_fw realFns) k) (cb (naive_multiply_const_bw realFns) k) x ∧
    IsBackwardOf (cf (eigen_multiply_const_fw realFns) k) (cb (eigen_multiply_const_bw realFns) k) x := by
  have n : IsBackwardOf (cf (naive_multiply_const_fw realFns) k) (cb (naive_multiply_const_bw realFns) k) x :=
    ⟨k, by rw [show cf (naive_multiply_const_fw realFns) k = fun x => x * k from rfl]; simpa using (hasDerivAt_id x).mul_const k,
      fun gy => by simp [cb, naive_multiply_const_bw]; ring⟩
  bothc n C08.Arith.Elementwise.naive_eq_eigen_multiply_const_fw C08.Arith.Elementwise.naive_eq_eigen_multiply_const_bw k

theorem divide_const_r_bw_is_derivative (k x : ℝ) :
    IsBackwardOf (cf (naive_divide_const_r_fw realFns) k) (cb (naive_divide_const_r_bw realFns) k) x ∧
    IsBackwardOf (cf (eigen_divide_const_r_fw realFns) k) (cb (eigen_divide_const_r_bw realFns) k) x := by
  have n : IsBackwardOf (cf (naive_divide_const_r_fw realFns) k) (cb (naive_divide_const_r_bw realFns) k) x :=
    ⟨1 / k, by rw [show cf (naive_divide_const_r_fw realFns) k = fun x => x / k from rfl]; exact hasDerivAt_div_const' x k,
      fun gy => by simp [cb, naive_divide_const_r_bw]; ring⟩
  bothc n C08.Arith.Elementwise.naive_eq_eigen_divide_const_r_fw C08.Arith.Elementwise.naive_eq_eigen_divide_const_r_bw k

theorem divide_const_l_bw_is_derivative (k : ℝ) {x : ℝ} (hx : x ≠ 0) :
    IsBackwardOf (cf (naive_divide_const_l_fw realFns) k) (cb (naive_divide_const_l_bw realFns) k) x ∧
    IsBackwardOf (cf (eigen_divide_const_l_fw realFns) k) (cb (eigen_divide_const_l_bw realFns) k) x := by
  have n : IsBackwardOf (cf (naive_divide_const_l_fw realFns) k) (cb (naive_divide_const_l_bw realFns) k) x :=
    ⟨_, by rw [show cf (naive_divide_const_l_fw realFns) k = fun x => k / x from rfl]; exact hasDerivAt_const_div k hx,
      fun gy => by simp [cf, cb, naive_divide_const_l_bw, naive_divide_const_l_fw]; ring⟩
  bothc n C08.Arith.Elementwise.naive_eq_eigen_divide_const_l_fw C08.Arith.Elementwise.naive_eq_eigen_divide_const_l_bw k

theorem pow_const_r_bw_is_derivative (k : ℝ) {x : ℝ} (hx : 0 < x) :
    IsBackwardOf (cf (naive_pow_const_r_fw realFns) k) (cb (naive_pow_const_r_bw realFns) k) x ∧
    IsBackwardOf (cf (eigen_pow_const_r_fw realFns) k) (cb (eigen_pow_const_r_bw realFns) k) x := by
  have n : IsBackwardOf (cf (naive_pow_const_r_fw realFns) k) (cb (naive_pow_const_r_bw realFns) k) x :=
    ⟨_, by rw [show cf (naive_pow_const_r_fw realFns) k = fun x => x ^ k from rfl]; exact hasDerivAt_rpow_const' k hx,
      fun gy => by simp [cf, cb, naive_pow_const_r_bw, naive_pow_const_r_fw]; ring⟩
  bothc n C08.Arith.Elementwise.naive_eq_eigen_pow_const_r_fw C08.Arith.Elementwise.naive_eq_eigen_pow_const_r_bw k

theorem pow_const_l_bw_is_derivative {k : ℝ} (hk : 0 < k) (x : ℝ) :
    IsBackwardOf (cf (naive_pow_const_l_fw realFns) k) (cb (naive_pow_const_l_bw realFns) k) x ∧
    IsBackwardOf (cf (eigen_pow_const_l_fw realFns) k) (cb (eigen_pow_const_l_bw realFns) k) x := by
  have n : IsBackwardOf (cf (naive_pow_const_l_fw realFns) k) (cb (naive_pow_const_l_bw realFns) k) x :=
    ⟨_, by rw [show cf (naive_pow_const_l_fw realFns) k = fun x => k ^ x from rfl]; exact hasDerivAt_const_rpow' hk x,
      fun gy => by simp [cf, cb, naive_pow_const_l_bw, naive_pow_const_l_fw]; ring⟩
  bothc n C08.Arith.Elementwise.naive_eq_eigen_pow_const_l_fw C08.Arith.Elementwise.naive_eq_eigen_pow_const_l_bw k

theorem prelu_bw_is_derivative (k : ℝ) {x : ℝ} (hx : x ≠ 0) :
    IsBackwardOf (cf (naive_prelu_fw realFns) k) (cb (naive_prelu_bw realFns) k) x ∧
    IsBackwardOf (cf (eigen_prelu_fw realFns) k) (cb (eigen_prelu_bw realFns) k) x := by
  have e : IsBackwardOf (cf (eigen_prelu_fw realFns) k) (cb (eigen_prelu_bw realFns) k) x := by
    have hf : cf (eigen_prelu_fw realFns) k = prelu k := by
      funext y; simp [cf, eigen_prelu_fw, prelu]
    rw [hf]
    refine ⟨_, hasDerivAt_prelu k hx, fun gy => ?_⟩
    simp only [cb, eigen_prelu_bw, lit_zero]
    split_ifs <;> ring
  exact ⟨IsBackwardOf.congr e (funext fun x => (C08.Arith.Elementwise.naive_eq_eigen_prelu_fw x k).symm)
    (fun x y gy => (C08.Arith.Elementwise.naive_eq_eigen_prelu_bw x y gy k).symm), e⟩

theorem elu_bw_is_derivative (k : ℝ) {x : ℝ} (hx : x ≠ 0) :
    IsBackwardOf (cf (naive_elu_fw realFns) k) (cb (naive_elu_bw realFns) k) x ∧
    IsBackwardOf (cf (eigen_elu_fw realFns) k) (cb (eigen_elu_bw realFns) k) x := by
  have e : IsBackwardOf (cf (eigen_elu_fw realFns) k) (cb (eigen_elu_bw realFns) k) x := by
    have hf : cf (eigen_elu_fw realFns) k = elu k := by
      funext y; simp [cf, eigen_elu_fw, elu]
    rw [hf]
    refine ⟨_, hasDerivAt_elu k hx, fun gy => ?_⟩
    simp only [cb, eigen_elu_bw, lit_zero]
    split_ifs <;> ring
  exact ⟨IsBackwardOf.congr e (funext fun x => (C08.Arith.Elementwise.naive_eq_eigen_elu_fw x k).symm)
    (fun x y gy => (C08.Arith.Elementwise.naive_eq_eigen_elu_bw x y gy k).symm), e⟩

end Elementwise

/-! ### pown -/

theorem pownLoop_eq {α : Type} [CommSemiring α] (n : Nat) : ∀ ret factor : α, pownLoop ret factor n = ret * factor ^ n := by
  induction n using Nat.strong_induction_on with
  | _ n ih =>
    intro ret factor
    rw [pownLoop]
    split
    · next h => subst h; simp
    · next h =>
      have hlt : n / 2 < n := by omega
      rw [ih (n / 2) hlt]
      have hn : n = 2 * (n / 2) + n % 2 := by omega
      split
      · next h1 =>
        conv_rhs => rw [hn, h1]
        ring
      · next h1 =>
        have h0 : n % 2 = 0 := by omega
        conv_rhs => rw [hn, h0]
        ring

/-- `abs_k` as the code computes it (with the `INT32_MIN` special case) is `|k|` -/
theorem pownAbs_eq (k : Int) : pownAbs k = k.natAbs := by
  unfold pownAbs
  split
  · next h => subst h; rfl
  · rfl

/-- T4: the loop of pown_fw is the integer power, for every k (all of Int32, INT32_MIN included) -/
theorem pown_fw_spec {α : Type} [Field α] (k : Int) (x : α) : pownElem (1 : α) k x = x ^ k := by
  unfold pownElem
  simp only [pownLoop_eq, pownAbs_eq, one_mul]
  split
  · next h =>
    conv_rhs => rw [← Int.natAbs_of_nonneg h]
    rw [zpow_natCast]
  · next h =>
    have hk : k = -(k.natAbs : Int) := by omega
    conv_rhs => rw [hk]
    rw [zpow_neg, zpow_natCast, one_div]
example : pownElem (1 : ℚ) (-2147483648) 1 = 1 := by rw [pown_fw_spec]; simp

/-- T3 for pown, on the domain where the rule `k·gy·y/x` is the derivative -/
theorem pown_bw_is_derivative (k : Int) {x : ℝ} (hx : x ≠ 0) :
    IsBackwardOf (fun x => pownElem (1 : ℝ) k x) (fun x y gy => pownBwElem (fun n : Int => (n : ℝ)) k x y gy) x := by
  have hf : (fun x : ℝ => pownElem (1 : ℝ) k x) = fun x => x ^ k := by funext y; exact pown_fw_spec k y
  rw [hf]
  exact ⟨_, hasDerivAt_zpow' k hx, fun gy => by simp [pownBwElem]; ring⟩
example : (2 : ℝ) ≠ 0 := by norm_num

/-- The full statement of T3 for pown: for k ≥ 0 the integer power is smooth at EVERY x, so the rule
should be the derivative there too.  Not provable: false at x = 0 (`pown_bw_zero_witness`); known finding
`pown-bw-zero` (DESIGN section 4, #17). -/
def pown_bw_is_derivative_full : Prop :=
  ∀ (k : Int), 0 ≤ k → ∀ x : ℝ,
    IsBackwardOf (fun x => pownElem (1 : ℝ) k x) (fun x y gy => pownBwElem (fun n : Int => (n : ℝ)) k x y gy) x

/-- k = 1, x = 0: the derivative of `x ↦ x` is 1, the rule gives `1·gy·0/0` (0 over ℝ with `a/0 = 0`, NaN in float32) -/
theorem pown_bw_zero_witness : ¬ pown_bw_is_derivative_full := by
  intro h
  obtain ⟨d, hd, hg⟩ := h 1 (by norm_num) 0
  have hf : (fun x : ℝ => pownElem (1 : ℝ) 1 x) = fun x => x := by
    funext y; rw [pown_fw_spec]; simp
  rw [hf] at hd
  have h1 : d = 1 := hd.unique (hasDerivAt_id 0)
  have := hg 1
  simp [pownBwElem, h1] at this

/-! ### broadcasting binary kernels: local adjoint laws -/
namespace Binary
variable {α : Type}

/-- a stride of a batch-broadcast operand with `Bx` samples of `size` elements -/
def StrideOK (skip size bs Bx : Nat) : Prop := (skip = 0 ∧ 1 ≤ Bx) ∨ (skip = size ∧ bs ≤ Bx)

theorem addr_lt {skip size bs Bx : Nat} (h : StrideOK skip size bs Bx) :
    ∀ t ∈ range2 bs size, t.1 * skip + t.2 < Bx * size := by
  intro t ht
  rw [mem_range2] at ht
  exact bcast_idx_lt ht.1 ht.2 h

variable [CommRing α]

/-- add: `Σ⟪ga′ − ga, da⟫ + Σ⟪gb′ − gb, db⟫ = Σ_{b,i} gy[b,i] · (da[b,i] + db[b,i])`; an operand with
stride 0 (batch 1) receives the sum over the batch. -/
theorem add_adjoint (size bs skipA skipB Ba Bb : Nat) (gy ga gb da db : Buf α)
    (ha : StrideOK skipA size bs Ba) (hb : StrideOK skipB size bs Bb) :
    ∑ j ∈ range (Ba * size), ((addBw size bs skipA skipB gy ga gb).ga j - ga j) * da j
      + ∑ j ∈ range (Bb * size), ((addBw size bs skipA skipB gy ga gb).gb j - gb j) * db j
    = ((range2 bs size).map fun t => gy (t.1 * size + t.2) * (da (t.1 * skipA + t.2) + db (t.1 * skipB + t.2))).sum := by
  unfold addBw
  simp only []
  rw [scatter_pair_adjoint _ _ _ _ _ ga gb da db _ _ (addr_lt ha) (addr_lt hb)]
  exact congrArg List.sum (List.map_congr_left fun t _ => by ring)

theorem subtract_adjoint (size bs skipA skipB Ba Bb : Nat) (gy ga gb da db : Buf α)
    (ha : StrideOK skipA size bs Ba) (hb : StrideOK skipB size bs Bb) :
    ∑ j ∈ range (Ba * size), ((subtractBw size bs skipA skipB gy ga gb).ga j - ga j) * da j
      + ∑ j ∈ range (Bb * size), ((subtractBw size bs skipA skipB gy ga gb).gb j - gb j) * db j
    = ((range2 bs size).map fun t => gy (t.1 * size + t.2) * (da (t.1 * skipA + t.2) - db (t.1 * skipB + t.2))).sum := by
  unfold subtractBw
  simp only [scatterSubAt_eq_add_neg]
  rw [scatter_pair_adjoint _ _ _ _ _ ga gb da db _ _ (addr_lt ha) (addr_lt hb)]
  exact congrArg List.sum (List.map_congr_left fun t _ => by ring)

/-- multiply: jvp `da·b + a·db` -/
theorem multiply_adjoint (size bs skipA skipB Ba Bb : Nat) (a b gy ga gb da db : Buf α)
    (ha : StrideOK skipA size bs Ba) (hb : StrideOK skipB size bs Bb) :
    ∑ j ∈ range (Ba * size), ((multiplyBw size bs skipA skipB a b gy ga gb).ga j - ga j) * da j
      + ∑ j ∈ range (Bb * size), ((multiplyBw size bs skipA skipB a b gy ga gb).gb j - gb j) * db j
    = ((range2 bs size).map fun t => gy (t.1 * size + t.2) *
        (da (t.1 * skipA + t.2) * b (t.1 * skipB + t.2) + a (t.1 * skipA + t.2) * db (t.1 * skipB + t.2))).sum := by
  unfold multiplyBw
  simp only []
  rw [scatter_pair_adjoint _ _ _ _ _ ga gb da db _ _ (addr_lt ha) (addr_lt hb)]
  exact congrArg List.sum (List.map_congr_left fun t _ => by ring)

end Binary

namespace Binary
variable {α : Type} [Field α]

/-- divide: with `y = a / b` elementwise, jvp `da / b − (a/b) · db / b` (the two partial derivatives of
`a / b`, Analysis/Scalar `hasDerivAt_div_left/right`) -/
theorem divide_adjoint (size bs skipA skipB Ba Bb : Nat) (b y gy ga gb da db : Buf α)
    (ha : StrideOK skipA size bs Ba) (hb : StrideOK skipB size bs Bb) :
    ∑ j ∈ range (Ba * size), ((divideBw size bs skipA skipB b y gy ga gb).ga j - ga j) * da j
      + ∑ j ∈ range (Bb * size), ((divideBw size bs skipA skipB b y gy ga gb).gb j - gb j) * db j
    = ((range2 bs size).map fun t => gy (t.1 * size + t.2) *
        (da (t.1 * skipA + t.2) * (1 / b (t.1 * skipB + t.2))
          + db (t.1 * skipB + t.2) * (-(y (t.1 * size + t.2)) / b (t.1 * skipB + t.2)))).sum := by
  unfold divideBw
  simp only [scatterSubAt_eq_add_neg]
  rw [scatter_pair_adjoint _ _ _ _ _ ga gb da db _ _ (addr_lt ha) (addr_lt hb)]
  exact congrArg List.sum (List.map_congr_left fun t _ => by ring)

/-- pow: with `y = a ^ b` elementwise, jvp `da · (b·y/a) + db · (log a · y)` (the two partial derivatives of
`a ^ b` for a > 0, Analysis/Scalar `hasDerivAt_rpow_left/right`) -/
theorem pow_adjoint (log : α → α) (size bs skipA skipB Ba Bb : Nat) (a b y gy ga gb da db : Buf α)
    (ha : StrideOK skipA size bs Ba) (hb : StrideOK skipB size bs Bb) :
    ∑ j ∈ range (Ba * size), ((powBw log size bs skipA skipB a b y gy ga gb).ga j - ga j) * da j
      + ∑ j ∈ range (Bb * size), ((powBw log size bs skipA skipB a b y gy ga gb).gb j - gb j) * db j
    = ((range2 bs size).map fun t => gy (t.1 * size + t.2) *
        (da (t.1 * skipA + t.2) * (b (t.1 * skipB + t.2) * y (t.1 * size + t.2) / a (t.1 * skipA + t.2))
          + db (t.1 * skipB + t.2) * (log (a (t.1 * skipA + t.2)) * y (t.1 * size + t.2)))).sum := by
  unfold powBw
  simp only []
  rw [scatter_pair_adjoint _ _ _ _ _ ga gb da db _ _ (addr_lt ha) (addr_lt hb)]
  exact congrArg List.sum (List.map_congr_left fun t _ => by ring)

end Binary
example : Binary.StrideOK 0 6 3 1 := Or.inl ⟨rfl, le_refl 1⟩
example : Binary.StrideOK 6 6 3 3 := Or.inr ⟨rfl, le_refl 3⟩

/-! ### matmul and conv2d: bilinear kernels -/
namespace Matmul
variable {α : Type} [CommRing α]

/-- every address of the loop nest is inside its tensor (proved from the dimensions in Props/C11/Arith.lean) -/
def InBounds (D : MatDims) (na nb : Nat) : Prop :=
  ∀ t ∈ D.its, D.aa t < na ∧ D.ba t < nb ∧ D.ya t < D.bs * (D.d3 * D.d1)

/-- `Σ⟪ga′ − ga, da⟫ + Σ⟪gb′ − gb, db⟫ = Σ_n gy[n] · (matmul(da, b) + matmul(a, db))[n]`: the backward kernel is
the adjoint of the linearisation of the forward kernel (which is bilinear), for every batch pattern. -/
theorem adjoint (D : MatDims) (na nb : Nat) (a b gy ga gb da db : Buf α) (junk : α) (h : InBounds D na nb) :
    ∑ j ∈ range na, ((matmulBw D a b gy ga gb).ga j - ga j) * da j
      + ∑ j ∈ range nb, ((matmulBw D a b gy ga gb).gb j - gb j) * db j
    = ∑ n ∈ range (D.bs * (D.d3 * D.d1)), gy n * (matmulFw 0 D da b junk n + matmulFw 0 D a db junk n) := by
  unfold matmulBw
  simp only []
  rw [scatter_pair_adjoint _ _ _ _ _ ga gb da db _ _ (fun t ht => (h t ht).1) (fun t ht => (h t ht).2.1)]
  have hy : ∀ t ∈ D.its, D.ya t < D.bs * (D.d3 * D.d1) := fun t ht => (h t ht).2.2
  have e : ∀ n ∈ range (D.bs * (D.d3 * D.d1)),
      gy n * (matmulFw 0 D da b junk n + matmulFw 0 D a db junk n)
        = gy n * scatterAddAt D.its D.ya (fun t => da (D.aa t) * b (D.ba t)) 0 n
          + gy n * scatterAddAt D.its D.ya (fun t => a (D.aa t) * db (D.ba t)) 0 n := by
    intro n hn
    simp only [matmulFw, if_pos (Finset.mem_range.mp hn)]
    ring
  rw [Finset.sum_congr rfl e, Finset.sum_add_distrib, gather_adjoint _ _ _ _ _ hy, gather_adjoint _ _ _ _ _ hy]
  rw [← List.sum_map_add]
  exact congrArg List.sum (List.map_congr_left fun t _ => by ring)

end Matmul

namespace Conv2d
variable {α : Type} [CommRing α]

def InBounds (D : ConvDims) (nx nw : Nat) : Prop :=
  ∀ t ∈ D.its, D.xa t < nx ∧ D.wa t < nw ∧ D.ya t < D.bs * D.yShift

/-- conv2d_bw is the adjoint of the linearisation `conv(dx, w) + conv(x, dw)` of conv2d_fw, with padding,
stride, dilation and every batch pattern (a batch-1 `x` or `w` receives the sum over the batch). -/
theorem adjoint (D : ConvDims) (nx nw : Nat) (x w gy gx gw dx dw : Buf α) (junk : α) (h : InBounds D nx nw) :
    ∑ j ∈ range nx, ((conv2dBw D x w gy gx gw).ga j - gx j) * dx j
      + ∑ j ∈ range nw, ((conv2dBw D x w gy gx gw).gb j - gw j) * dw j
    = ∑ n ∈ range (D.bs * D.yShift), gy n * (conv2dFw 0 D dx w junk n + conv2dFw 0 D x dw junk n) := by
  unfold conv2dBw
  simp only []
  rw [scatter_pair_adjoint _ _ _ _ _ gx gw dx dw _ _ (fun t ht => (h t ht).1) (fun t ht => (h t ht).2.1)]
  have hy : ∀ t ∈ D.its, D.ya t < D.bs * D.yShift := fun t ht => (h t ht).2.2
  have e : ∀ n ∈ range (D.bs * D.yShift),
      gy n * (conv2dFw 0 D dx w junk n + conv2dFw 0 D x dw junk n)
        = gy n * scatterAddAt D.its D.ya (fun t => dx (D.xa t) * w (D.wa t)) 0 n
          + gy n * scatterAddAt D.its D.ya (fun t => x (D.xa t) * dw (D.wa t)) 0 n := by
    intro n hn
    simp only [conv2dFw, if_pos (Finset.mem_range.mp hn)]
    ring
  rw [Finset.sum_congr rfl e, Finset.sum_add_distrib, gather_adjoint _ _ _ _ _ hy, gather_adjoint _ _ _ _ _ hy]
  rw [← List.sum_map_add]
  exact congrArg List.sum (List.map_congr_left fun t _ => by ring)

end Conv2d

/-! ### max_pool2d: selection -/
namespace MaxPool
variable {α : Type}

/-- Under the unique-maximum hypothesis the scan of max_pool2d_bw stops at the maximising cell:
if `a` is a cell of the window whose value equals the output `y[t]` and no other cell of the window does,
`firstMatch` returns it. -/
theorem firstMatch_of_unique [DecidableEq α] (D : PoolDims) (x y : Buf α) (t : Nat × Nat × Nat) (a : Nat)
    (ha : a ∈ D.window t.2.1 t.2.2) (hv : x (D.xbase t + a) = y (D.ya t))
    (huniq : ∀ c ∈ D.window t.2.1 t.2.2, x (D.xbase t + c) = y (D.ya t) → c = a) :
    firstMatch D x y t = some (D.xbase t + a) := by
  unfold firstMatch
  cases hf : (D.window t.2.1 t.2.2).find? (fun c => x (D.xbase t + c) == y (D.ya t)) with
  | none =>
    rw [List.find?_eq_none] at hf
    exact absurd (by simpa using hv) (hf a ha)
  | some c =>
    have hc := List.find?_some hf
    have hm := List.mem_of_find?_eq_some hf
    have : c = a := huniq c hm (by simpa using hc)
    simp [this]

variable [CommRing α] [DecidableEq α]

/-- T2 for max_pool2d (smooth domain = the maximum of every window is attained once, at `am t`):
`Σ⟪gx′ − gx, dx⟫ = Σ_{t} gy[t] · dx[am t]`, the right-hand side being `⟪gy, jvp dx⟫` for the selection
`jvp dx [t] = dx[am t]`. -/
theorem adjoint (D : PoolDims) (x y gy gx dx : Buf α) (nx : Nat) (am : Nat × Nat × Nat → Nat)
    (hfm : ∀ t ∈ D.outer, firstMatch D x y t = some (am t)) (hb : ∀ t ∈ D.outer, am t < nx) :
    ∑ j ∈ range nx, (maxPoolBw D x y gy gx j - gx j) * dx j
      = (D.outer.map fun t => gy (D.ya t) * dx (am t)).sum := by
  unfold maxPoolBw
  try simp only []
  have hl : (D.outer.filterMap fun t => (firstMatch D x y t).map fun a => (t, a)) = D.outer.map fun t => (t, am t) := by
    generalize D.outer = l at hfm hb ⊢
    induction l with
    | nil => rfl
    | cons u rest ih =>
      have h1 := hfm u (by simp)
      rw [List.filterMap_cons, h1]
      simp only [Option.map_some, List.map_cons]
      rw [ih (fun t ht => hfm t (by simp [ht])) (fun t ht => hb t (by simp [ht]))]
  rw [hl, scatter_adjoint]
  · rw [List.map_map]; rfl
  · intro p hp
    obtain ⟨t, ht, rfl⟩ := List.mem_map.mp hp
    exact hb t ht

/-- The flat-index form: `Σ⟪gx′ − gx, dx⟫ = Σ_{n < |y|} gy[n] · jvp[n]` for every `jvp` that selects the cell
`am t` for output cell `t` (`jvp[ya t] = dx[am t]`).  No uniqueness is assumed here: `am t` is whatever cell the
scan of max_pool2d_bw stops at (`firstMatch`), i.e. with ties the law holds for the selection "first maximal
cell in scan order" — see `max_not_differentiable_at_tie` for why no derivative exists at a tie. -/
theorem adjoint_flat (D : PoolDims) (x y gy gx dx : Buf α) (nx : Nat) (am : Nat × Nat × Nat → Nat) (jvp : Nat → α)
    (hfm : ∀ t ∈ D.outer, firstMatch D x y t = some (am t)) (hb : ∀ t ∈ D.outer, am t < nx)
    (hj : ∀ t ∈ D.outer, jvp (D.ya t) = dx (am t)) :
    ∑ j ∈ range nx, (maxPoolBw D x y gy gx j - gx j) * dx j
      = ∑ n ∈ range (D.rep * (D.yh * D.yw)), gy n * jvp n := by
  rw [adjoint D x y gy gx dx nx am hfm hb, Nat.mul_comm D.yh D.yw,
    ← sum_range3_flat D.rep D.yw D.yh fun n => gy n * jvp n]
  apply congrArg List.sum
  apply List.map_congr_left
  intro t ht
  have hya : D.ya t = t.1 * (D.yw * D.yh) + (t.2.1 * D.yh + t.2.2) := by
    simp only [PoolDims.ya, Nat.mul_comm D.yh D.yw]
  rw [← hya, hj t ht]

end MaxPool

/-- Why the unique-maximum hypothesis of the *derivative* reading cannot be dropped: at a tie the maximum of two
cells is not differentiable (here `max x 0` at `x = 0`), so there is no derivative a backward kernel could equal.
`MaxPool.adjoint` itself needs no uniqueness: it is the adjoint law for the selection the kernel makes. -/
theorem max_not_differentiable_at_tie : ¬ DifferentiableAt ℝ (fun x : ℝ => max x 0) 0 := by
  intro h
  have habs : DifferentiableAt ℝ (fun x : ℝ => |x|) 0 := by
    have e : (fun x : ℝ => |x|) = fun x => 2 * max x 0 - x := by
      funext x
      rcases le_total 0 x with hx | hx
      · rw [abs_of_nonneg hx, max_eq_left hx]; ring
      · rw [abs_of_nonpos hx, max_eq_right hx]; ring
    rw [e]
    exact (h.const_mul 2).sub differentiableAt_id
  exact not_differentiableAt_abs_zero habs

end Primitiv.C01.Arith
