import PrimitivModel.Lemmas.GraphTangent
import PrimitivModel.Props.C01.Sweep
import PrimitivModel.Props.C01.Arith
/-!
C01, theorem T5: the multivariate chain rule over the DAG — the parameter gradients that
`Graph::backward` accumulates are the derivative of the function the graph computes.

`Props/C01/Sweep.lean` (`backward_adjoint`) shows that the reverse sweep is the transpose of *any*
assignment of tangents that obeys the local adjoint law.  This file supplies the missing link from
tangents to derivatives, over `R = ℝ`, in curve (directional derivative) form, which needs no norm
on tensors `Vec ℝ = Nat → ℝ` (only the first `size` entries of a tensor matter):

* a family `S : ℝ → State (Vec ℝ)` of states of ONE graph (same kinds, arguments, sizes), in which
  the parameter values move along a curve with velocity `δ p` at `ε = 0`, random sources do not
  depend on `ε`, and every ancestor of the target is evaluated consistently (`LocalEq`: the stored
  return values are `sem.fwd` of the stored argument values — what `forward` establishes);
* per operator a Jacobian-vector product `J k : Jvp` with the *curve law* `CurveLawAt`
  (differentiability of `sem.fwd` at the stored argument values along every curve) and the *adjoint
  law* `AdjointLawAt` (`sem.bwd` is the transpose of `J k`);
* `tangent_isDeriv` (forward mode): every component of every ancestor's value is differentiable in
  `ε` at 0 with derivative `fwdTangent` (defined by recursion over operator ids);
* `backward_is_gradient` (headline): `backward` succeeds and
  `d/dε Σ_i value(a)_i (ε) |₀ = Σ_p ⟪grad' p − grad p, δ p⟫` for every direction `δ`;
* `backward_is_gradient_of_forward`: the hypotheses on the family follow from running the model's
  `forward` on the un-evaluated graph at the parameter values `Θ ε`, for every `ε`; and `backward`
  on the un-evaluated graph at `Θ 0` is that same sweep;
* `unary_curveLaw`, `unary_adjointLaw`, `tanh_laws`, `mul_curveLaw`, `mul_adjointLaw`: the two laws
  hold for elementwise unary operators built from a scalar function with a backward formula in the
  sense of `IsBackwardOf` (Props/C01/Arith.lean; instance: the generated tanh kernels) and for the
  elementwise product.

Definitions and the induction: Lemmas/GraphTangent.lean.
-/
namespace Primitiv.Graph
open Finset

/-- **Chain rule over the DAG, forward mode.**
Let `S ε` be states of one graph (`hshape`: kinds, arguments and sizes as in `S 0`; `hargsBelow`:
arguments refer to smaller operator ids) such that for every operator `k` that is the target's
operator or an ancestor of it:
* if `k` is a Parameter operator of `p`, the components (below the node's size) of the value of `p`
  in `S ε` are differentiable in `ε` at 0 with derivative `δ p`;
* if `k` is a random source, its value does not depend on `ε`;
* otherwise `k` is consistently evaluated in every `S ε` (`LocalEq`: arguments have values `xs`,
  `sem.fwd xs = some ys`, and the stored return values are `ys`), and its semantics obeys the curve
  law at the argument values stored in `S 0` with Jacobian-vector product `J k`.
Then for every node `b` of these operators and every `i` below its size, `ε ↦ value of b in S ε`
at `i` is differentiable at 0 with derivative the forward-mode tangent `fwdTangent (S 0) δ J b i`
(Parameter: `δ p`; random: 0; operator: `J k` of the argument values and argument tangents). -/
theorem tangent_isDeriv (S : ℝ → State (Vec ℝ)) (a : Addr) (δ : Nat → Vec ℝ) (J : Nat → Jvp)
    (hshape : ∀ ε, (S ε).shape = (S 0).shape)
    (hargsBelow : ArgsBelow (S 0))
    (hparamCurve : ∀ (k : Nat) (o : OpInfo (Vec ℝ)) (p : Nat), Anc (S 0).argsOf k a.oid →
      (S 0).ops[k]? = some o → o.kind = .param p → ∀ i, i < (S 0).sizeAt ⟨k, 0⟩ →
        HasDerivAt (fun ε => (S ε).params.value p i) (δ p i) 0)
    (hrnd : ∀ (k : Nat) (o : OpInfo (Vec ℝ)), Anc (S 0).argsOf k a.oid → (S 0).ops[k]? = some o →
      o.kind = .rnd → ∀ j ε, (S ε).valueOf? ⟨k, j⟩ = (S 0).valueOf? ⟨k, j⟩)
    (hloc : ∀ (k : Nat) (o : OpInfo (Vec ℝ)) (sem : OpSem (Vec ℝ)), Anc (S 0).argsOf k a.oid →
      (S 0).ops[k]? = some o → o.kind = .op sem → ∀ ε, LocalEq (S ε) k)
    (hcurve : ∀ (k : Nat) (o : OpInfo (Vec ℝ)) (sem : OpSem (Vec ℝ)), Anc (S 0).argsOf k a.oid →
      (S 0).ops[k]? = some o → o.kind = .op sem →
        CurveLawAt sem (o.args.map (S 0).sizeAt) (o.rets.map (·.size)) (J k) (o.args.map (S 0).valAt)) :
    ∀ b : Addr, Anc (S 0).argsOf b.oid a.oid → ∀ i, i < (S 0).sizeAt b →
      HasDerivAt (fun ε => (S ε).valAt b i) (fwdTangent (S 0) δ J b i) 0 :=
  fun b hb i hi => tangent_hasDerivAt ⟨hshape, hargsBelow, hparamCurve, hrnd, hloc, hcurve⟩ b hb i hi

/-- **`backward` computes the gradient.**
Let `S ε` be states of one graph as in `tangent_isDeriv`, with `S 0` satisfying the structural
hypotheses of `backward_adjoint` (arguments exist and have smaller ids, all node gradients invalid,
the target exists, every ancestor evaluated), every Parameter ancestor of `p` having `p < P` and one
return value of size `psize p`, the value of every `p < P` moving with velocity `δ p` at `ε = 0`,
and every other non-random ancestor `k` obeying the curve law and the adjoint law (`sem.bwd` is the
transpose of `J k`) at the values stored in `S 0`.
Then `backward (S 0) a` succeeds, changes only gradients (`SameFrame`), leaves all node gradients
invalid, and the sum of all elements of the target is differentiable along the family with
`d/dε Σ_{i<size a} value(a)_i |_{ε=0} = Σ_{p<P} ⟪grad' p − grad p, δ p⟫`:
the increments of the parameter gradients are the gradient of the summed target. -/
theorem backward_is_gradient (S : ℝ → State (Vec ℝ)) (a : Addr) (P : Nat) (psize : Nat → Nat)
    (δ : Nat → Vec ℝ) (J : Nat → Jvp)
    (hshape : ∀ ε, (S ε).shape = (S 0).shape)
    (hargsBelow : ArgsBelow (S 0))
    (hargsValid : ∀ (i : Nat) (o : OpInfo (Vec ℝ)), (S 0).ops[i]? = some o → ∀ b ∈ o.args, (S 0).validAddr b = true)
    (hgradsInvalid : AllGradsInvalid (S 0))
    (htarget : (S 0).validAddr a = true)
    (hevaluated : ∀ (i : Nat) (o : OpInfo (Vec ℝ)), Anc (S 0).argsOf i a.oid → (S 0).ops[i]? = some o →
      (∀ b ∈ o.args, ((S 0).valueOf? b).isSome = true) ∧
      ((∀ p, o.kind ≠ .param p) → ∀ n ∈ o.rets, n.value.isSome = true))
    (hparam : ∀ (i : Nat) (o : OpInfo (Vec ℝ)) (p : Nat), Anc (S 0).argsOf i a.oid → (S 0).ops[i]? = some o →
      o.kind = .param p → p < P ∧ o.rets.map (·.size) = [psize p])
    (hparamCurve : ∀ p, p < P → ∀ i, i < psize p → HasDerivAt (fun ε => (S ε).params.value p i) (δ p i) 0)
    (hrnd : ∀ (k : Nat) (o : OpInfo (Vec ℝ)), Anc (S 0).argsOf k a.oid → (S 0).ops[k]? = some o →
      o.kind = .rnd → ∀ j ε, (S ε).valueOf? ⟨k, j⟩ = (S 0).valueOf? ⟨k, j⟩)
    (hloc : ∀ (k : Nat) (o : OpInfo (Vec ℝ)) (sem : OpSem (Vec ℝ)), Anc (S 0).argsOf k a.oid →
      (S 0).ops[k]? = some o → o.kind = .op sem → ∀ ε, LocalEq (S ε) k)
    (hcurve : ∀ (k : Nat) (o : OpInfo (Vec ℝ)) (sem : OpSem (Vec ℝ)), Anc (S 0).argsOf k a.oid →
      (S 0).ops[k]? = some o → o.kind = .op sem →
        CurveLawAt sem (o.args.map (S 0).sizeAt) (o.rets.map (·.size)) (J k) (o.args.map (S 0).valAt))
    (hadj : ∀ (k : Nat) (o : OpInfo (Vec ℝ)) (sem : OpSem (Vec ℝ)), Anc (S 0).argsOf k a.oid →
      (S 0).ops[k]? = some o → o.kind = .op sem →
        AdjointLawAt sem (o.args.map (S 0).sizeAt) (o.rets.map (·.size)) (J k) (o.args.map (S 0).valAt) o.ys) :
    ∃ s', backward (TVec ℝ) (S 0) a = (s', .ok ()) ∧ SameFrame (S 0) s' ∧ AllGradsInvalid s' ∧
      HasDerivAt (fun ε => ∑ i ∈ range ((S 0).sizeAt a), (S ε).valAt a i)
        (∑ p ∈ range P, dot (psize p) (fun i => s'.params.grad p i - (S 0).params.grad p i) (δ p)) 0 := by
  have H := chain_adjointHyps (S 0) a P psize δ J hargsBelow hargsValid hgradsInvalid htarget hevaluated
    hparam hadj
  obtain ⟨s', hb, hf, hg, hsum⟩ := backward_adjoint (S 0) a P psize δ (fwdTangent (S 0) δ J)
    H.argsBelow H.argsValid H.gradsInvalid H.target H.evaluated H.param H.law
  refine ⟨s', hb, hf, hg, ?_⟩
  rw [hsum]
  have CF : CurveFamily S a δ J := by
    refine ⟨hshape, hargsBelow, ?_, hrnd, hloc, hcurve⟩
    intro k o p ha ho hk i hi
    obtain ⟨hp, hs⟩ := hparam k o p ha ho hk
    rw [sizeAt_eq_getD ho, hs] at hi
    exact hparamCurve p hp i hi
  exact HasDerivAt.fun_sum fun i hi => tangent_hasDerivAt CF a (Anc.refl _) i (mem_range.mp hi)

/-! ### the family of `forward` results -/

/-- **End to end: `forward` at every `ε`, `backward` at `ε = 0`.**
Let `s` be a well-formed graph state (`WF`, the invariant of reachable states, Props/C05.lean) without
memoised values and with all node gradients invalid, `a` one of its nodes, `Θ ε` parameter values
for every `ε`, and suppose `forward` of `a` on `s` with the parameter values `Θ ε` succeeds for every
`ε`, reaching the state `S ε`.  If every Parameter ancestor of `p` has `p < P` and one return value
of size `psize p`, `ε ↦ Θ ε p i` has derivative `δ p i` at 0 (`p < P`, `i < psize p`), and every
non-random operator ancestor obeys the curve law and the adjoint law at the argument values that
`forward` stored at `ε = 0` (and its own results `ys`), then `backward` of `a` on the un-evaluated
graph with parameter values `Θ 0` succeeds — it is the sweep on `S 0` — and
`d/dε Σ_{i<size a} (forward value of a at Θ ε)_i |_{ε=0} = Σ_{p<P} ⟪grad' p − grad p, δ p⟫`. -/
theorem backward_is_gradient_of_forward (s : State (Vec ℝ)) (a : Addr) (Θ : ℝ → Nat → Vec ℝ)
    (S : ℝ → State (Vec ℝ)) (P : Nat) (psize : Nat → Nat) (δ : Nat → Vec ℝ) (J : Nat → Jvp)
    (hwf : WF s) (hfresh : ∀ k, ¬ s.evaluated k) (hgradsInvalid : AllGradsInvalid s)
    (htarget : s.validAddr a = true)
    (hrun : ∀ ε, ∃ v, forward (TVec ℝ) (s.withPValue (Θ ε)) a = (S ε, .ok v))
    (hparam : ∀ (i : Nat) (o : OpInfo (Vec ℝ)) (p : Nat), Anc s.argsOf i a.oid → s.ops[i]? = some o →
      o.kind = .param p → p < P ∧ o.rets.map (·.size) = [psize p])
    (hΘ : ∀ p, p < P → ∀ i, i < psize p → HasDerivAt (fun ε => Θ ε p i) (δ p i) 0)
    (hcurve : ∀ (k : Nat) (o : OpInfo (Vec ℝ)) (sem : OpSem (Vec ℝ)), Anc s.argsOf k a.oid →
      s.ops[k]? = some o → o.kind = .op sem →
        CurveLawAt sem (o.args.map s.sizeAt) (o.rets.map (·.size)) (J k) (o.args.map (S 0).valAt))
    (hadj : ∀ (k : Nat) (o : OpInfo (Vec ℝ)) (sem : OpSem (Vec ℝ)), Anc s.argsOf k a.oid →
      s.ops[k]? = some o → o.kind = .op sem → ∀ ys, sem.fwd (o.args.map (S 0).valAt) = some ys →
        AdjointLawAt sem (o.args.map s.sizeAt) (o.rets.map (·.size)) (J k) (o.args.map (S 0).valAt)
          (ys.take o.rets.length)) :
    ∃ s', backward (TVec ℝ) (s.withPValue (Θ 0)) a = (s', .ok ()) ∧
      backward (TVec ℝ) (S 0) a = (s', .ok ()) ∧ SameFrame (S 0) s' ∧ AllGradsInvalid s' ∧
      HasDerivAt (fun ε => ∑ i ∈ range (s.sizeAt a), (S ε).valAt a i)
        (∑ p ∈ range P, dot (psize p) (fun i => s'.params.grad p i - s.params.grad p i) (δ p)) 0 := by
  have F := fwdFacts_of_forward s a Θ S hwf hfresh hgradsInvalid htarget hrun
  have hsz : (S 0).sizeAt = s.sizeAt := sizeAt_of_shape (F.shape 0)
  -- operators of `S 0` and of `s` have the same kinds, arguments and sizes
  have hop : ∀ (k : Nat) (o : OpInfo (Vec ℝ)), (S 0).ops[k]? = some o →
      ∃ o', s.ops[k]? = some o' ∧ o'.kind = o.kind ∧ o'.args = o.args ∧
        o'.rets.map (·.size) = o.rets.map (·.size) ∧ o'.rets.length = o.rets.length := by
    intro k o ho
    obtain ⟨o', h1, h2, h3, h4⟩ := shape_op (F.shape 0).symm ho
    exact ⟨o', h1, h2, h3, h4, by simpa using congrArg List.length h4⟩
  have hparam' : ∀ (i : Nat) (o : OpInfo (Vec ℝ)) (p : Nat), Anc (S 0).argsOf i a.oid → (S 0).ops[i]? = some o →
      o.kind = .param p → p < P ∧ o.rets.map (·.size) = [psize p] := by
    intro i o p ha ho hk
    obtain ⟨o', h1, h2, _, h4, _⟩ := hop i o ho
    rw [F.argsOf 0] at ha
    rw [← h4]
    exact hparam i o' p ha h1 (h2.trans hk)
  have hcurve' : ∀ (k : Nat) (o : OpInfo (Vec ℝ)) (sem : OpSem (Vec ℝ)), Anc (S 0).argsOf k a.oid →
      (S 0).ops[k]? = some o → o.kind = .op sem →
        CurveLawAt sem (o.args.map (S 0).sizeAt) (o.rets.map (·.size)) (J k) (o.args.map (S 0).valAt) := by
    intro k o sem ha ho hk
    obtain ⟨o', h1, h2, h3, h4, _⟩ := hop k o ho
    have := hcurve k o' sem (F.argsOf 0 ▸ ha) h1 (h2.trans hk)
    rw [h3, h4] at this
    rw [hsz]; exact this
  have hadj' : ∀ (k : Nat) (o : OpInfo (Vec ℝ)) (sem : OpSem (Vec ℝ)), Anc (S 0).argsOf k a.oid →
      (S 0).ops[k]? = some o → o.kind = .op sem →
        AdjointLawAt sem (o.args.map (S 0).sizeAt) (o.rets.map (·.size)) (J k) (o.args.map (S 0).valAt) o.ys := by
    intro k o sem ha ho hk
    obtain ⟨o', h1, h2, h3, h4, h5⟩ := hop k o ho
    obtain ⟨ys, hys, hoys⟩ := ys_of_fwdFacts F k o sem ha ho hk
    have := hadj k o' sem (F.argsOf 0 ▸ ha) h1 (h2.trans hk) ys (h3 ▸ hys)
    rw [h3, h4, h5] at this
    rw [hsz, hoys]; exact this
  have CF : CurveFamily S a δ J := by
    refine curveFamily_of_fwdFacts F δ J ?_ hcurve'
    intro k o p ha ho hk i hi
    obtain ⟨hp, hs⟩ := hparam' k o p ha ho hk
    rw [sizeAt_eq_getD ho, hs] at hi
    exact hΘ p hp i hi
  have hvalid0 : (S 0).validAddr a = true := (F.valid 0 a).trans htarget
  obtain ⟨s', hb, hf, hg, hd⟩ := backward_is_gradient S a P psize δ J CF.shape CF.argsBelow
    (fun i o ho b hb => ((F.wf 0).args_lt i o ho b hb).2) (F.nograd 0) hvalid0
    (fun i o ha ho => evaluated_of_fwdFacts F i o ha ho) hparam'
    (fun p hp i hi => by
      have : (fun ε => (S ε).params.value p i) = fun ε => Θ ε p i := by funext ε; rw [F.pvalue ε]
      rw [this]; exact hΘ p hp i hi)
    CF.rnd CF.loc hcurve' hadj'
  have hgrad : (S 0).params.grad = s.params.grad := by
    obtain ⟨v, hf0⟩ := hrun 0
    have := forward_fwdFrame (TVec ℝ) (s.withPValue (Θ 0)) a
    rw [hf0] at this
    rw [this.params]; rfl
  refine ⟨s', ?_, hb, hf, hg, ?_⟩
  · obtain ⟨v, hf0⟩ := hrun 0
    rw [backward_fresh (TVec ℝ) (s := s.withPValue (Θ 0)) htarget hfresh hf0 hvalid0 ?_, hb]
    have H := chain_adjointHyps (S 0) a P psize δ J CF.argsBelow
      (fun i o ho b hb => ((F.wf 0).args_lt i o ho b hb).2) (F.nograd 0) hvalid0
      (fun i o ha ho => evaluated_of_fwdFacts F i o ha ho) hparam' hadj'
    exact fwdPhase_of_hyps (S 0) a P psize δ _ H
  · rw [hsz, hgrad] at hd; exact hd

/-! ### the two laws hold for concrete operator semantics -/

/-- **Curve law of an elementwise unary operator**: if the scalar function `fw` is differentiable at
the `n` argument entries `x0 i`, then `elemUnary fw bw` (`y_i = fw x_i`) is differentiable along
every curve through `[x0]`, with directional derivative `deriv fw (x0 i) · t_i`. -/
theorem unary_curveLaw (fw : ℝ → ℝ) (bw : ℝ → ℝ → ℝ → ℝ) (n : Nat) (x0 : Vec ℝ)
    (hd : ∀ i, i < n → DifferentiableAt ℝ fw (x0 i)) :
    CurveLawAt (elemUnary fw bw) [n] [n] (elemUnaryJvp fw) [x0] := by
  intro X T Y hX0 hlen hTlen hder hY j hj i hi
  have hj0 : j = 0 := by simpa using hj
  subst hj0
  obtain ⟨t, rfl⟩ := list_len1 (by simpa using hTlen)
  have hx : ∀ ε, X ε = [(X ε).getD 0 fun _ => 0] := by
    intro ε
    obtain ⟨x, hx⟩ := list_len1 (show (X ε).length = 1 by simpa using hlen ε)
    rw [hx]; rfl
  have hy : ∀ ε, Y ε = [fun i => fw ((X ε).getD 0 (fun _ => 0) i)] := by
    intro ε
    have h := hY ε
    rw [hx ε] at h
    exact (Option.some.inj h).symm
  have h1 := hder 0 (by simp) i (by simpa using hi)
  have h2 : HasDerivAt fw (deriv fw (x0 i)) ((fun ε => (X ε).getD 0 (fun _ => 0) i) 0) := by
    simp only [hX0, List.getD_cons_zero]
    exact (hd i (by simpa using hi)).hasDerivAt
  have h3 := h2.comp 0 h1
  have hfun : (fun ε => (Y ε).getD 0 (fun _ => 0) i) = fw ∘ fun ε => (X ε).getD 0 (fun _ => 0) i := by
    funext ε; rw [hy ε]; rfl
  rw [hfun]
  exact h3

/-- **Adjoint law of an elementwise unary operator**: if `bw` is a backward formula of `fw` at the
argument entries (`IsBackwardOf`: with `y = fw x` it returns `gy · fw′(x)`), then the backward rule of
`elemUnary fw bw` is the transpose of its Jacobian-vector product, at the return value `fw ∘ x0`. -/
theorem unary_adjointLaw (fw : ℝ → ℝ) (bw : ℝ → ℝ → ℝ → ℝ) (n : Nat) (x0 : Vec ℝ)
    (hb : ∀ i, i < n → C01.Arith.IsBackwardOf fw bw (x0 i)) :
    AdjointLawAt (elemUnary fw bw) [n] [n] (elemUnaryJvp fw) [x0] [fun i => fw (x0 i)] := by
  intro gys ts hg ht
  obtain ⟨g, rfl⟩ := list_len1 (by simpa using hg)
  obtain ⟨t, rfl⟩ := list_len1 (by simpa using ht)
  simp only [elemUnary, elemUnaryJvp, listContrib, List.length_cons, List.length_nil, Nat.zero_add,
    sum_range_one, List.getD_cons_zero, add_zero]
  unfold dot
  refine sum_congr rfl fun i hi => ?_
  obtain ⟨d, hd, hbw⟩ := hb i (mem_range.mp hi)
  show bw (x0 i) (fw (x0 i)) (g i) * t i = g i * (deriv fw (x0 i) * t i)
  rw [hbw, hd.deriv]
  ring

/-- Both laws for the generated tanh kernels (forward formula and backward formula of
devices/naive/ops, interpreted over ℝ; the Eigen pair is equal to it, Props/C08): the per-operator
hypotheses of `backward_is_gradient` are consequences of the scalar facts of Props/C01/Arith.lean. -/
theorem tanh_laws (n : Nat) (x0 : Vec ℝ) :
    CurveLawAt (elemUnary (Gen.Elementwise.naive_tanh_fw Analysis.realFns) (Gen.Elementwise.naive_tanh_bw Analysis.realFns))
      [n] [n] (elemUnaryJvp (Gen.Elementwise.naive_tanh_fw Analysis.realFns)) [x0] ∧
    AdjointLawAt (elemUnary (Gen.Elementwise.naive_tanh_fw Analysis.realFns) (Gen.Elementwise.naive_tanh_bw Analysis.realFns))
      [n] [n] (elemUnaryJvp (Gen.Elementwise.naive_tanh_fw Analysis.realFns)) [x0]
      [fun i => Gen.Elementwise.naive_tanh_fw Analysis.realFns (x0 i)] := by
  have h : ∀ i, i < n → C01.Arith.IsBackwardOf (Gen.Elementwise.naive_tanh_fw Analysis.realFns)
      (Gen.Elementwise.naive_tanh_bw Analysis.realFns) (x0 i) :=
    fun i _ => (C01.Arith.Elementwise.tanh_bw_is_derivative (x0 i)).1
  refine ⟨unary_curveLaw _ _ n x0 fun i hi => ?_, unary_adjointLaw _ _ n x0 h⟩
  obtain ⟨d, hd, _⟩ := h i hi
  exact hd.differentiableAt

/-- **Curve law of the elementwise product** (product rule). -/
theorem mul_curveLaw (n : Nat) (x0 y0 : Vec ℝ) : CurveLawAt mulReal [n, n] [n] mulRealJvp [x0, y0] := by
  intro X T Y hX0 hlen hTlen hder hY j hj i hi
  have hj0 : j = 0 := by simpa using hj
  subst hj0
  obtain ⟨tx, ty, rfl⟩ := list_len2 (by simpa using hTlen)
  have hx : ∀ ε, X ε = [(X ε).getD 0 fun _ => 0, (X ε).getD 1 fun _ => 0] := by
    intro ε
    obtain ⟨x, y, hx⟩ := list_len2 (show (X ε).length = 2 by simpa using hlen ε)
    rw [hx]; rfl
  have hy : ∀ ε, Y ε = [fun i => (X ε).getD 0 (fun _ => 0) i * (X ε).getD 1 (fun _ => 0) i] := by
    intro ε
    have h := hY ε
    rw [hx ε] at h
    exact (Option.some.inj h).symm
  have h1 := hder 0 (by simp) i (by simpa using hi)
  have h2 := hder 1 (by simp) i (by simpa using hi)
  have h3 := h1.fun_mul h2
  simp only [hX0, List.getD_cons_zero, List.getD_cons_succ] at h3
  have hfun : (fun ε => (Y ε).getD 0 (fun _ => 0) i)
      = fun ε => (X ε).getD 0 (fun _ => 0) i * (X ε).getD 1 (fun _ => 0) i := by
    funext ε; rw [hy ε]; rfl
  rw [hfun]
  exact h3

/-- **Adjoint law of the elementwise product**: `⟪g·y, tx⟫ + ⟪g·x, ty⟫ = ⟪g, tx·y + x·ty⟫`. -/
theorem mul_adjointLaw (n : Nat) (x0 y0 : Vec ℝ) (ys : List (Vec ℝ)) :
    AdjointLawAt mulReal [n, n] [n] mulRealJvp [x0, y0] ys := by
  intro gys ts hg ht
  obtain ⟨g, rfl⟩ := list_len1 (by simpa using hg)
  obtain ⟨tx, ty, rfl⟩ := list_len2 (by simpa using ht)
  simp only [mulReal, mulRealJvp, listContrib, List.length_cons, List.length_nil, Nat.zero_add,
    sum_range_one, List.getD_cons_zero, add_zero]
  unfold dot
  rw [← sum_add_distrib]
  refine sum_congr rfl fun i _ => ?_
  ring

/-! ### the hypotheses are satisfiable: `y = x * x`, one parameter `x = 3 + ε`, direction `δ x = 1` -/

/-- operator 0: Parameter 0 (value `3 + ε`, prior gradient 10); operator 1: `n0 * n0`, evaluated -/
noncomputable def exSqR (ε : ℝ) : State (Vec ℝ) where
  ops := [ { kind := .param 0, args := [], rets := [{ size := 1 }] },
           { kind := .op mulReal, args := [⟨0, 0⟩, ⟨0, 0⟩],
             rets := [{ size := 1, value := some fun _ => (3 + ε) * (3 + ε) }] } ]
  params := { value := fun _ _ => 3 + ε, grad := fun _ _ => 10 }
  sample := fun _ _ _ => 0

/-- all hypotheses of `backward_is_gradient` hold for this family; its conclusion, read on this
instance: `backward` succeeds and `d/dε (3+ε)² |₀ = grad' x − 10`, hence `grad' x = 16` -/
example : ∃ s', backward (TVec ℝ) (exSqR 0) ⟨1, 0⟩ = (s', .ok ()) ∧
    HasDerivAt (fun ε : ℝ => (3 + ε) * (3 + ε)) (s'.params.grad 0 0 - 10) 0 ∧ s'.params.grad 0 0 = 16 := by
  obtain ⟨s', hb, _, _, hd⟩ := backward_is_gradient exSqR ⟨1, 0⟩ 1 (fun _ => 1) (fun _ _ => 1) (fun _ => mulRealJvp)
    (fun _ => rfl) (argsBelow_of_B rfl)
    (by
      intro i o ho b hb
      match i, ho with
      | 0, ho => simp [exSqR] at ho; subst ho; simp at hb
      | 1, ho =>
        simp [exSqR] at ho; subst ho
        simp at hb; subst hb; rfl
      | i + 2, ho => simp [exSqR] at ho)
    (allGradsInvalid_of_B rfl) rfl
    (by
      intro i o _ ho
      match i, ho with
      | 0, ho => simp [exSqR] at ho; subst ho; simp
      | 1, ho =>
        simp [exSqR] at ho; subst ho
        refine ⟨fun b hb => ?_, fun _ n hn => ?_⟩
        · simp at hb; subst hb; rfl
        · simp at hn; subst hn; rfl
      | i + 2, ho => simp [exSqR] at ho)
    (by
      intro i o p _ ho hk
      match i, ho with
      | 0, ho =>
        simp [exSqR] at ho; subst ho
        simp at hk; subst hk
        exact ⟨by decide, rfl⟩
      | 1, ho => simp [exSqR] at ho; subst ho; simp at hk
      | i + 2, ho => simp [exSqR] at ho)
    (by
      intro p _ i _
      exact (hasDerivAt_id' (0 : ℝ)).const_add 3)
    (by
      intro k o _ ho hk
      match k, ho with
      | 0, ho => simp [exSqR] at ho; subst ho; simp at hk
      | 1, ho => simp [exSqR] at ho; subst ho; simp at hk
      | k + 2, ho => simp [exSqR] at ho)
    (by
      intro k o sem _ ho hk ε
      match k, ho with
      | 0, ho => simp [exSqR] at ho; subst ho; simp at hk
      | 1, ho =>
        intro o' ho'
        simp [exSqR] at ho'; subst ho'
        refine ⟨[fun _ => 3 + ε, fun _ => 3 + ε], rfl, ?_⟩
        intro sem' hsem
        simp only [Kind.op.injEq] at hsem
        subst hsem
        refine ⟨[fun _ => (3 + ε) * (3 + ε)], rfl, ?_⟩
        intro i n hn
        match i, hn with
        | 0, hn => simp at hn; subst hn; rfl
        | i + 1, hn => simp at hn
      | k + 2, ho => simp [exSqR] at ho)
    (by
      intro k o sem _ ho hk
      match k, ho with
      | 0, ho => simp [exSqR] at ho; subst ho; simp at hk
      | 1, ho =>
        simp [exSqR] at ho; subst ho
        simp only [Kind.op.injEq] at hk
        subst hk
        exact mul_curveLaw 1 _ _
      | k + 2, ho => simp [exSqR] at ho)
    (by
      intro k o sem _ ho hk
      match k, ho with
      | 0, ho => simp [exSqR] at ho; subst ho; simp at hk
      | 1, ho =>
        simp [exSqR] at ho; subst ho
        simp only [Kind.op.injEq] at hk
        subst hk
        exact mul_adjointLaw 1 _ _ _
      | k + 2, ho => simp [exSqR] at ho)
  have hsz : (exSqR 0).sizeAt ⟨1, 0⟩ = 1 := rfl
  have hfun : (fun ε => ∑ i ∈ range ((exSqR 0).sizeAt ⟨1, 0⟩), (exSqR ε).valAt ⟨1, 0⟩ i)
      = fun ε : ℝ => (3 + ε) * (3 + ε) := by
    funext ε
    rw [hsz, sum_range_one]
    rfl
  have hval : (∑ p ∈ range 1, dot 1 (fun i => s'.params.grad p i - (exSqR 0).params.grad p i) (fun _ => (1 : ℝ)))
      = s'.params.grad 0 0 - 10 := by
    simp [dot, exSqR]
  rw [hfun, hval] at hd
  refine ⟨s', hb, hd, ?_⟩
  have h1 : HasDerivAt (fun ε : ℝ => 3 + ε) 1 0 := (hasDerivAt_id' (0 : ℝ)).const_add 3
  have h2 := h1.fun_mul h1
  have := hd.unique h2
  norm_num at this
  linarith

/-- the same graph before any evaluation (two `add_operator` calls on the empty graph) -/
noncomputable def exFresh : State (Vec ℝ) where
  ops := [ { kind := .param 0, args := [], rets := [{ size := 1 }] },
           { kind := .op mulReal, args := [⟨0, 0⟩, ⟨0, 0⟩], rets := [{ size := 1 }] } ]
  params := { value := fun _ _ => 0, grad := fun _ _ => 10 }
  sample := fun _ _ _ => 0

/-- all hypotheses of `backward_is_gradient_of_forward` hold for `exFresh` with `Θ ε x = 3 + ε`: the
states `S ε` are the results of the model's `forward`; `backward` on the un-evaluated graph at
`x = 3` succeeds and leaves `grad x = 10 + d/dε (3+ε)² |₀ = 16` -/
example : ∃ s', backward (TVec ℝ) (exFresh.withPValue fun _ _ => 3 + 0) ⟨1, 0⟩ = (s', .ok ()) ∧
    s'.params.grad 0 0 = 16 := by
  have hwf : WF exFresh := by
    have h : exFresh = run (TVec ℝ) (State.empty ⟨fun _ _ => 0, fun _ _ => 10⟩ fun _ _ _ => 0)
        [.addOperator (.param 0) [] [1], .addOperator (.op mulReal) [⟨0, 0⟩, ⟨0, 0⟩] [1]] := rfl
    rw [h]
    refine run_wf _ (WF.empty _ _) _ ?_
    intro op hop
    simp only [List.mem_cons, List.not_mem_nil, or_false] at hop
    rcases hop with rfl | rfl
    · exact ⟨rfl, rfl⟩
    · intro xs ys h
      match xs, h with
      | [x, y], h => simp [mulReal] at h; subst h; simp
  obtain ⟨s', hb, _, _, _, hd⟩ := backward_is_gradient_of_forward exFresh ⟨1, 0⟩ (fun ε _ _ => 3 + ε)
    (fun ε => (forward (TVec ℝ) (exFresh.withPValue fun _ _ => 3 + ε) ⟨1, 0⟩).1)
    1 (fun _ => 1) (fun _ _ => 1) (fun _ => mulRealJvp) hwf
    (by
      rintro k ⟨o, ho, n, hn, hv⟩
      match k, ho with
      | 0, ho => simp [exFresh] at ho; subst ho; simp at hn; subst hn; simp at hv
      | 1, ho => simp [exFresh] at ho; subst ho; simp at hn; subst hn; simp at hv
      | k + 2, ho => simp [exFresh] at ho)
    (allGradsInvalid_of_B rfl) rfl
    (fun ε => ⟨fun _ => (3 + ε) * (3 + ε), rfl⟩)
    (by
      intro i o p _ ho hk
      match i, ho with
      | 0, ho =>
        simp [exFresh] at ho; subst ho
        simp at hk; subst hk
        exact ⟨by decide, rfl⟩
      | 1, ho => simp [exFresh] at ho; subst ho; simp at hk
      | i + 2, ho => simp [exFresh] at ho)
    (by
      intro p _ i _
      exact (hasDerivAt_id' (0 : ℝ)).const_add 3)
    (by
      intro k o sem _ ho hk
      match k, ho with
      | 0, ho => simp [exFresh] at ho; subst ho; simp at hk
      | 1, ho =>
        simp [exFresh] at ho; subst ho
        simp only [Kind.op.injEq] at hk
        subst hk
        exact mul_curveLaw 1 _ _
      | k + 2, ho => simp [exFresh] at ho)
    (by
      intro k o sem _ ho hk ys _
      match k, ho with
      | 0, ho => simp [exFresh] at ho; subst ho; simp at hk
      | 1, ho =>
        simp [exFresh] at ho; subst ho
        simp only [Kind.op.injEq] at hk
        subst hk
        exact mul_adjointLaw 1 _ _ _
      | k + 2, ho => simp [exFresh] at ho)
  refine ⟨s', hb, ?_⟩
  have hsz : exFresh.sizeAt ⟨1, 0⟩ = 1 := rfl
  have hfun : (fun ε : ℝ => ∑ i ∈ range (exFresh.sizeAt ⟨1, 0⟩),
        ((forward (TVec ℝ) (exFresh.withPValue fun _ _ => 3 + ε) ⟨1, 0⟩).1).valAt ⟨1, 0⟩ i)
      = fun ε : ℝ => (3 + ε) * (3 + ε) := by
    funext ε
    rw [hsz, sum_range_one]
    rfl
  have hval : (∑ p ∈ range 1, dot 1 (fun i => s'.params.grad p i - exFresh.params.grad p i) (fun _ => (1 : ℝ)))
      = s'.params.grad 0 0 - 10 := by
    simp [dot, exFresh]
  rw [hfun, hval] at hd
  have h1 : HasDerivAt (fun ε : ℝ => 3 + ε) 1 0 := (hasDerivAt_id' (0 : ℝ)).const_add 3
  have h2 := h1.fun_mul h1
  have := hd.unique h2
  norm_num at this
  linarith

end Primitiv.Graph
